//! Harness: executes the line protocol against the real sodg crate, in-process.
//! One operation per line on stdin, one observation per line on stdout.

use sodg::{Hex, Label, Sodg};
use std::collections::HashMap;
use std::io::{BufRead, Write};
use std::panic::{catch_unwind, AssertUnwindSafe};

macro_rules! any_g {
    ($($n:literal $v:ident),*) => {
        enum AnyG { $($v(Sodg<$n>)),* }
        macro_rules! with_g {
            ($g:expr, $x:ident => $e:expr) => { match $g { $(AnyG::$v($x) => $e),* } };
        }
        macro_rules! map_g {
            ($g:expr, $x:ident => $e:expr) => { match $g { $(AnyG::$v($x) => AnyG::$v($e)),* } };
        }
        macro_rules! map_g_res {
            ($g:expr, $x:ident => $e:expr) => { match $g { $(AnyG::$v($x) => ($e).map(AnyG::$v)),* } };
        }
        /// `g.merge(h, l, r)` when both have the same `N`; `None` otherwise
        fn merge_any(g: &mut AnyG, h: &AnyG, l: usize, r: usize) -> Option<Result<(), String>> {
            match (g, h) {
                $((AnyG::$v(x), AnyG::$v(y)) => Some(x.merge(y, l, r).map_err(|e| format!("{e:#}"))),)*
                _ => None,
            }
        }
        /// `t.clone_from(s)` when both have the same `N` (the other entry point of the `Clone` trait); `false` otherwise
        fn clone_from_any(t: &mut AnyG, s: &AnyG) -> bool {
            match (t, s) {
                $((AnyG::$v(x), AnyG::$v(y)) => { x.clone_from(y); true })*
                _ => false,
            }
        }
        fn new_g(n: usize, cap: usize) -> Option<AnyG> {
            match n { $($n => Some(AnyG::$v(Sodg::empty(cap))),)* _ => None }
        }
    };
}
// every N from 1 to 17, and two larger ones (beyond u8-sized masks of 16 and 32 bits)
any_g!(1 N1, 2 N2, 3 N3, 4 N4, 5 N5, 6 N6, 7 N7, 8 N8, 9 N9, 10 N10, 11 N11, 12 N12, 13 N13, 14 N14, 15 N15, 16 N16, 17 N17, 33 N33, 64 N64);

enum HS {
    Live(AnyG),
    Dead,
}

fn hexstr(b: &[u8]) -> String {
    b.iter().map(|x| format!("{x:02x}")).collect()
}

fn unhex(s: &str) -> Option<Vec<u8>> {
    if s.len() % 2 != 0 || !s.is_ascii() {
        return None;
    }
    (0..s.len()).step_by(2).map(|i| u8::from_str_radix(&s[i..i + 2], 16).ok()).collect()
}

fn parse_hex_tok(s: &str) -> Option<Hex> {
    if let Some(r) = s.strip_prefix('x') {
        Some(Hex::from_vec(unhex(r)?))
    } else if let Some(r) = s.strip_prefix("V:") {
        Some(Hex::Vector(unhex(r)?))
    } else if let Some(r) = s.strip_prefix("B:") {
        let (a, l) = r.split_once(':')?;
        let arr = unhex(a)?;
        let len: usize = l.parse().ok()?;
        if arr.len() != 8 || len > 8 {
            return None;
        }
        let mut x = [0u8; 8];
        x.copy_from_slice(&arr);
        Some(Hex::Bytes(x, len))
    } else {
        None
    }
}

fn show_bytes(h: &Hex) -> String {
    format!("x{}", hexstr(h.bytes()))
}

fn parse_label_tok(s: &str) -> Option<Label> {
    let (k, r) = s.split_once(':')?;
    match k {
        "G" => Some(Label::Greek(char::from_u32(r.parse().ok()?)?)),
        "A" => Some(Label::Alpha(r.parse().ok()?)),
        "S" => {
            let cs: Option<Vec<char>> = r.split('.').map(|x| char::from_u32(x.parse().ok()?)).collect();
            let cs = cs?;
            if cs.len() != 8 {
                return None;
            }
            let mut a = [' '; 8];
            a.copy_from_slice(&cs);
            Some(Label::Str(a))
        }
        _ => None,
    }
}

fn show_label_tok(l: &Label) -> String {
    match l {
        Label::Greek(c) => format!("G:{}", *c as u32),
        Label::Alpha(n) => format!("A:{n}"),
        Label::Str(a) => format!("S:{}", a.iter().map(|c| (*c as u32).to_string()).collect::<Vec<_>>().join(".")),
    }
}

fn show_nats(v: &[usize]) -> String {
    format!("[{}]", v.iter().map(ToString::to_string).collect::<Vec<_>>().join(","))
}

fn show_edges<'a>(it: impl Iterator<Item = (&'a Label, &'a usize)>) -> String {
    format!("[{}]", it.map(|(a, t)| format!("{}>{}", show_label_tok(a), t)).collect::<Vec<_>>().join(","))
}

fn parse_handle(s: &str) -> Option<usize> {
    s.strip_prefix('g')?.parse().ok()
}

fn keys_of(g: &AnyG) -> String {
    with_g!(g, x => show_nats(&x.keys()))
}

fn entry(g: &AnyG, v: usize) -> String {
    with_g!(g, x => {
        // data presence is read through the hook, so that v_print() is exercised only by the `vprint` operation
        let marker = if x.verif_persistence(v) != 0 { "!" } else { "" };
        format!("{v}{marker}{}", show_edges(x.kids(v)))
    })
}

/// keys, then the entries of the argument vertices that are present after the call
fn post(g: &AnyG, args: &[usize]) -> String {
    let keys = with_g!(g, x => x.keys());
    let touched: Vec<String> = args.iter().filter(|v| keys.contains(v)).map(|v| entry(g, *v)).collect();
    // len() and is_empty() must agree with keys(); a disagreement is made visible (the model never prints it)
    let (len, empty) = with_g!(g, x => (x.len(), x.is_empty()));
    let odd = if len != keys.len() || empty != keys.is_empty() { format!(" LEN={len} IS_EMPTY={empty}") } else { String::new() };
    format!("{}{odd} ; {}", show_nats(&keys), touched.join(" "))
}

fn op_args(cmd: &str, rest: &[&str]) -> Vec<usize> {
    let k = match cmd {
        "bind" => 2,
        "add" | "put" | "data" | "kid" | "kids" => 1,
        _ => 0,
    };
    rest.iter().take(k).filter_map(|s| s.parse().ok()).collect()
}

/// A call on one live graph; `None` = bad-op. Returns the text before " ; keys".
fn core_call(g: &mut AnyG, cmd: &str, rest: &[&str]) -> Option<String> {
    match (cmd, rest) {
        ("add", [v]) => {
            let v: usize = v.parse().ok()?;
            with_g!(g, x => x.add(v));
            Some("ok".into())
        }
        ("bind", [v1, v2, a]) => {
            let v1: usize = v1.parse().ok()?;
            let v2: usize = v2.parse().ok()?;
            let a = parse_label_tok(a)?;
            with_g!(g, x => x.bind(v1, v2, a));
            Some("ok".into())
        }
        ("put", [v, d]) => {
            let v: usize = v.parse().ok()?;
            let d = parse_hex_tok(d)?;
            with_g!(g, x => x.put(v, &d));
            Some("ok".into())
        }
        ("data", [v]) => {
            let v: usize = v.parse().ok()?;
            let r = with_g!(g, x => x.data(v));
            Some(match r {
                None => "ok none".into(),
                Some(h) => format!("ok {}", show_bytes(&h)),
            })
        }
        ("kid", [v, a]) => {
            let v: usize = v.parse().ok()?;
            let a = parse_label_tok(a)?;
            let r = with_g!(g, x => x.kid(v, a));
            Some(match r {
                None => "ok none".into(),
                Some(t) => format!("ok {t}"),
            })
        }
        ("kids", [v]) => {
            let v: usize = v.parse().ok()?;
            Some(format!("ok {}", with_g!(g, x => show_edges(x.kids(v)))))
        }
        ("keys", []) => Some(format!("ok {}", keys_of(g))),
        ("nextid", []) => Some(format!("ok {}", with_g!(g, x => x.next_id()))),
        _ => None,
    }
}

/// the complete internal state from the hook, in the model's format (blanks replaced by `_`)
fn snapshot(g: &AnyG) -> String {
    let s = with_g!(g, x => x.verif_snapshot());
    let vs: Vec<String> = s.vertices.iter().map(|v| {
        format!("{}:{}:{}:{}:{}:{}", v.id, v.branch, v.persistence, hexstr(&v.data), u8::from(v.heap),
            v.edges.iter().map(|(a, t)| format!("{a}>{t}")).collect::<Vec<_>>().join(","))
    }).collect();
    let bs: Vec<String> = s.branches.iter().map(|(b, m)| format!("{b}={}", show_nats(m))).collect();
    let ss: Vec<String> = s.stores.iter().map(|(b, n)| format!("{b}={n}")).collect();
    format!("ok next={} v {} b {} s {}", s.next_v, vs.join("|"), bs.join(";"), ss.join(";")).replace(' ', "_")
}

fn observe(g: &AnyG) -> String {
    with_g!(g, x => {
        let parts: Vec<String> = x.keys().into_iter().map(|v| entry(g, v)).collect();
        format!("ok {}", parts.join(" "))
    })
}


// ------------------------------------------------------------------------------------------- pure sub-protocols

fn parse_text_tok(s: &str) -> Option<String> {
    let r = s.strip_prefix("T:")?;
    if r.is_empty() {
        return Some(String::new());
    }
    r.split('.').map(|x| char::from_u32(x.parse().ok()?)).collect()
}

fn show_text_tok(s: &str) -> String {
    format!("T:{}", s.chars().map(|c| (c as u32).to_string()).collect::<Vec<_>>().join("."))
}

/// the bytes a data token was built from (ground truth for the oracle half of a hex line)
fn tok_bytes(s: &str) -> Option<Vec<u8>> {
    if let Some(r) = s.strip_prefix('x') {
        unhex(r)
    } else if let Some(r) = s.strip_prefix("V:") {
        unhex(r)
    } else if let Some(r) = s.strip_prefix("B:") {
        let (a, l) = r.split_once(':')?;
        let arr = unhex(a)?;
        let len: usize = l.parse().ok()?;
        if arr.len() != 8 || len > 8 {
            return None;
        }
        Some(arr[..len].to_vec())
    } else {
        None
    }
}

fn guard<T>(f: impl FnOnce() -> T) -> Option<T> {
    catch_unwind(AssertUnwindSafe(f)).ok()
}

fn show_opt_bytes(r: Option<Vec<u8>>) -> String {
    match r {
        None => "panic".into(),
        Some(b) => format!("ok x{}", hexstr(&b)),
    }
}

fn show_opt_byte(r: Option<u8>) -> String {
    match r {
        None => "panic".into(),
        Some(b) => format!("ok {b}"),
    }
}

fn exec_hex(ws: &[&str]) -> String {
    use std::str::FromStr;
    let bad = || "bad-op".to_string();
    match ws {
        ["view", h] => {
            let (Some(x), Some(b)) = (parse_hex_tok(h), tok_bytes(h)) else { return bad() };
            match guard(|| format!("ok {} {} x{} x{}", x.len(), x.print(), hexstr(x.bytes()), hexstr(&x.to_vec()))) {
                Some(s) => {
                    // the model prints bytes once; to_vec must equal bytes
                    let parts: Vec<&str> = s.split(' ').collect();
                    let merged = if parts[3] == parts[4] { format!("ok {} {} {}", parts[1], parts[2], parts[3]) } else { s.clone() };
                    format!("{merged} ; {} x{}", b.len(), hexstr(&b))
                }
                None => format!("panic ; {} x{}", b.len(), hexstr(&b)),
            }
        }
        ["fmt", h] => {
            // Display and Debug of a Hex are its print()
            let Some(x) = parse_hex_tok(h) else { return bad() };
            match guard(|| format!("ok {} {}", format!("{x}") == x.print(), format!("{x:?}") == x.print())) {
                Some(s) => format!("{s} ; ok true true"),
                None => "panic ; ok true true".to_string(),
            }
        }
        ["empty"] => {
            // Hex::empty(): built from no bytes at all
            match guard(|| { let x = Hex::empty(); format!("ok {} {} x{} {} {}", x.len(), x.print(), hexstr(x.bytes()), x.is_empty(), x == Hex::from_slice(&[])) }) {
                Some(s) => format!("{s} ; ok 0 -- x true true"),
                None => "panic ; ok 0 -- x true true".to_string(),
            }
        }
        ["index", h, i] => {
            let (Some(x), Some(b), Ok(i)) = (parse_hex_tok(h), tok_bytes(h), i.parse::<usize>()) else { return bad() };
            format!("{} ; {}", show_opt_byte(guard(|| x[i])), show_opt_byte(guard(|| b[i])))
        }
        ["indexmut", h, i] => {
            // IndexMut: write 0xEE at i, then the bytes; the oracle does the same on the byte vector
            let (Some(mut x), Some(mut b), Ok(i)) = (parse_hex_tok(h), tok_bytes(h), i.parse::<usize>()) else { return bad() };
            let l = guard(move || { x[i] = 0xEE; x.bytes().to_vec() });
            let r = guard(move || { b[i] = 0xEE; b });
            format!("{} ; {}", show_opt_bytes(l), show_opt_bytes(r))
        }
        ["byteat", h, i] => {
            let (Some(x), Some(b), Ok(i)) = (parse_hex_tok(h), tok_bytes(h), i.parse::<usize>()) else { return bad() };
            format!("{} ; {}", show_opt_byte(guard(|| x.byte_at(i))), show_opt_byte(guard(|| b[i])))
        }
        ["range", h, s, e] => {
            let (Some(x), Some(b), Ok(s), Ok(e)) = (parse_hex_tok(h), tok_bytes(h), s.parse::<usize>(), e.parse::<usize>()) else { return bad() };
            format!("{} ; {}", show_opt_bytes(guard(|| x[s..e].to_vec())), show_opt_bytes(guard(|| b[s..e].to_vec())))
        }
        ["rangeincl", h, s, e] => {
            let (Some(x), Some(b), Ok(s), Ok(e)) = (parse_hex_tok(h), tok_bytes(h), s.parse::<usize>(), e.parse::<usize>()) else { return bad() };
            format!("{} ; {}", show_opt_bytes(guard(|| x[s..=e].to_vec())), show_opt_bytes(guard(|| b[s..=e].to_vec())))
        }
        ["rangeinclx", h, s, e] => {
            // the same range value after it was iterated to its end: `RangeInclusive` then carries the flag `exhausted`
            let (Some(x), Some(b), Ok(s), Ok(e)) = (parse_hex_tok(h), tok_bytes(h), s.parse::<usize>(), e.parse::<usize>()) else { return bad() };
            let mut r = s..=e;
            if s <= e {
                let _ = r.nth(e - s);
            }
            let (r1, r2) = (r.clone(), r);
            format!("{} ; {}", show_opt_bytes(guard(|| x[r1].to_vec())), show_opt_bytes(guard(|| b[r2].to_vec())))
        }
        ["rangefrom", h, s] => {
            let (Some(x), Some(b), Ok(s)) = (parse_hex_tok(h), tok_bytes(h), s.parse::<usize>()) else { return bad() };
            format!("{} ; {}", show_opt_bytes(guard(|| x[s..].to_vec())), show_opt_bytes(guard(|| b[s..].to_vec())))
        }
        ["rangeto", h, e] => {
            let (Some(x), Some(b), Ok(e)) = (parse_hex_tok(h), tok_bytes(h), e.parse::<usize>()) else { return bad() };
            format!("{} ; {}", show_opt_bytes(guard(|| x[..e].to_vec())), show_opt_bytes(guard(|| b[..e].to_vec())))
        }
        ["rangetoincl", h, e] => {
            let (Some(x), Some(b), Ok(e)) = (parse_hex_tok(h), tok_bytes(h), e.parse::<usize>()) else { return bad() };
            format!("{} ; {}", show_opt_bytes(guard(|| x[..=e].to_vec())), show_opt_bytes(guard(|| b[..=e].to_vec())))
        }
        ["rangefull", h] => {
            let (Some(x), Some(b)) = (parse_hex_tok(h), tok_bytes(h)) else { return bad() };
            format!("{} ; {}", show_opt_bytes(guard(|| x[..].to_vec())), show_opt_bytes(Some(b)))
        }
        ["tail", h, k] => {
            let (Some(x), Some(b), Ok(k)) = (parse_hex_tok(h), tok_bytes(h), k.parse::<usize>()) else { return bad() };
            format!("{} ; {}", show_opt_bytes(guard(|| x.tail(k).bytes().to_vec())), show_opt_bytes(guard(|| b[k..].to_vec())))
        }
        ["eq", a, b] => {
            let (Some(x), Some(y), Some(bx), Some(by)) = (parse_hex_tok(a), parse_hex_tok(b), tok_bytes(a), tok_bytes(b)) else { return bad() };
            match guard(|| x == y) {
                Some(r) => format!("ok {r} ; ok {}", bx == by),
                None => format!("panic ; ok {}", bx == by),
            }
        }
        ["roundtrip", h] => {
            let (Some(x), Some(b)) = (parse_hex_tok(h), tok_bytes(h)) else { return bad() };
            let r = guard(|| Hex::from_str(&x.print()).map(|y| y.bytes().to_vec()));
            let left = match r {
                None => "panic".to_string(),
                Some(Err(_)) => "err".to_string(),
                Some(Ok(y)) => format!("ok x{}", hexstr(&y)),
            };
            format!("{left} ; ok x{}", hexstr(&b))
        }
        ["fromstr", t] => {
            let Some(t) = parse_text_tok(t) else { return bad() };
            match guard(|| Hex::from_str(&t).map(|y| y.bytes().to_vec())) {
                None => "panic".into(),
                Some(Err(_)) => "err".into(),
                Some(Ok(y)) => format!("ok x{}", hexstr(&y)),
            }
        }
        ["tobits", h] => {
            let (Some(x), Some(b)) = (parse_hex_tok(h), tok_bytes(h)) else { return bad() };
            let i = match guard(|| x.to_i64()) {
                None => "panic".to_string(),
                Some(Err(_)) => "err".to_string(),
                Some(Ok(v)) => (v as u64).to_string(),
            };
            let f = match guard(|| x.to_f64()) {
                None => "panic".to_string(),
                Some(Err(_)) => "err".to_string(),
                Some(Ok(v)) => v.to_bits().to_string(),
            };
            let left = if i == "err" && f == "err" { "err err".to_string() } else { format!("ok {i} {f}") };
            let right = if b.len() == 8 {
                let mut a = [0u8; 8];
                a.copy_from_slice(&b);
                let n = u64::from_be_bytes(a);
                format!("ok {n} {n}")
            } else {
                "err err".to_string()
            };
            format!("{left} ; {right}")
        }
        ["ofbits", n] => {
            let Ok(n) = n.parse::<u64>() else { return bad() };
            let r = guard(|| {
                let hi = Hex::from(n as i64);
                let hf = Hex::from(f64::from_bits(n));
                let bi = hi.to_i64().map(|v| (v as u64).to_string()).unwrap_or_else(|_| "err".into());
                let bf = hf.to_f64().map(|v| v.to_bits().to_string()).unwrap_or_else(|_| "err".into());
                format!("ok x{} {bi} x{} {bf}", hexstr(hi.bytes()), hexstr(hf.bytes()))
            });
            let be = hexstr(&n.to_be_bytes());
            format!("{} ; ok x{be} {n} x{be} {n}", r.unwrap_or_else(|| "panic".into()))
        }
        ["ofint", w, n] => {
            // From<i8> / From<i16> / From<i32> (and From<f32> at four bytes) of the bit pattern
            let (Ok(w), Ok(n)) = (w.parse::<u32>(), n.parse::<u64>()) else { return bad() };
            if !(w == 1 || w == 2 || w == 4) || (n >> (8 * w)) != 0 {
                return bad();
            }
            let r = guard(|| match w {
                1 => format!("ok x{} -", hexstr(Hex::from(n as u8 as i8).bytes())),
                2 => format!("ok x{} -", hexstr(Hex::from(n as u16 as i16).bytes())),
                _ => format!("ok x{} x{}", hexstr(Hex::from(n as u32 as i32).bytes()), hexstr(Hex::from(f32::from_bits(n as u32)).bytes())),
            });
            let be = hexstr(&n.to_be_bytes()[(8 - w as usize)..]);
            let f = if w == 4 { format!("x{be}") } else { "-".to_string() };
            format!("{} ; ok x{be} {f}", r.unwrap_or_else(|| "panic".into()))
        }
        ["ofbool", b] => {
            if *b != "0" && *b != "1" {
                return bad();
            }
            let v = *b == "1";
            let r = guard(|| {
                let h = Hex::from(v);
                format!("ok x{} {}", hexstr(h.bytes()), h.to_bool())
            });
            format!("{} ; ok x{} {v}", r.unwrap_or_else(|| "panic".into()), if v { "01" } else { "00" })
        }
        ["bool", h] => {
            // to_bool (panics on the empty byte string) and is_empty
            let (Some(x), Some(b)) = (parse_hex_tok(h), tok_bytes(h)) else { return bad() };
            let x2 = x.clone();
            let tb = guard(move || x2.to_bool()).map_or("panic".to_string(), |v| v.to_string());
            let ie = guard(move || x.is_empty()).map_or("panic".to_string(), |v| v.to_string());
            format!("{tb} {ie} ; {} {}", b.first().map_or("panic".to_string(), |v| (*v == 1).to_string()), b.is_empty())
        }
        ["utf8", h] => {
            // to_utf8: the text, or Err when the bytes are not UTF-8
            let (Some(x), Some(b)) = (parse_hex_tok(h), tok_bytes(h)) else { return bad() };
            let l = match guard(|| x.to_utf8()) {
                None => "panic".to_string(),
                Some(Err(_)) => "err".to_string(),
                Some(Ok(t)) => format!("ok {}", show_text_tok(&t)),
            };
            let r = match std::str::from_utf8(&b) {
                Err(_) => "err".to_string(),
                Ok(t) => format!("ok {}", show_text_tok(t)),
            };
            format!("{l} ; {r}")
        }
        ["ofstr", t] => {
            // from_str_bytes, then to_utf8 of the result
            let Some(t) = parse_text_tok(t) else { return bad() };
            let l = guard(|| {
                let h = Hex::from_str_bytes(&t);
                let back = h.to_utf8().map(|u| show_text_tok(&u)).unwrap_or_else(|_| "err".into());
                format!("ok x{} {back}", hexstr(h.bytes()))
            });
            format!("{} ; ok x{} {}", l.unwrap_or_else(|| "panic".into()), hexstr(t.as_bytes()), show_text_tok(&t))
        }
        ["concat", a, b] => {
            let (Some(x), Some(y), Some(bx), Some(by)) = (parse_hex_tok(a), parse_hex_tok(b), tok_bytes(a), tok_bytes(b)) else { return bad() };
            let r = guard(|| {
                let z = x.concat(&y);
                format!(
                    "ok x{} {} {}",
                    hexstr(z.bytes()),
                    if x.bytes() == bx.as_slice() { "same" } else { "changed" },
                    if y.bytes() == by.as_slice() { "same" } else { "changed" }
                )
            });
            let mut cat = bx.clone();
            cat.extend_from_slice(&by);
            format!("{} ; ok x{} same same", r.unwrap_or_else(|| "panic".into()), hexstr(&cat))
        }
        _ => bad(),
    }
}

fn exec_label(ws: &[&str]) -> String {
    use std::str::FromStr;
    let bad = || "bad-op".to_string();
    match ws {
        ["parse", t] => {
            let Some(t) = parse_text_tok(t) else { return bad() };
            match guard(|| Label::from_str(&t).map(|l| format!("ok {} {}", show_label_tok(&l), show_text_tok(&l.to_string())))) {
                None => "panic".into(),
                Some(Err(_)) => "err".into(),
                Some(Ok(s)) => s,
            }
        }
        ["print", l] => {
            let Some(l) = parse_label_tok(l) else { return bad() };
            match guard(|| {
                let t = l.to_string();
                let back = match Label::from_str(&t) {
                    Ok(l2) => show_label_tok(&l2),
                    Err(_) => "err".to_string(),
                };
                format!("ok {} {back}", show_text_tok(&t))
            }) {
                None => "panic".into(),
                Some(s) => s,
            }
        }
        ["kid", t, l] => {
            let (Some(t), Some(l)) = (parse_text_tok(t), parse_label_tok(l)) else { return bad() };
            match guard(|| {
                Label::from_str(&t).map(|p| {
                    let mut g: Sodg<4> = Sodg::empty(4);
                    g.add(0);
                    g.add(1);
                    g.bind(0, 1, p);
                    match g.kid(0, l) {
                        Some(k) => format!("ok {k}"),
                        None => "ok none".to_string(),
                    }
                })
            }) {
                None => "panic".into(),
                Some(Err(_)) => "err".into(),
                Some(Ok(s)) => s,
            }
        }
        _ => bad(),
    }
}

/// one-token encoding of a text: `%`, blank, newline and tab are percent-escaped
fn esc(t: &str) -> String {
    let mut o = String::with_capacity(t.len() + 8);
    for c in t.chars() {
        match c {
            '%' => o.push_str("%25"),
            ' ' => o.push_str("%20"),
            '\n' => o.push_str("%0A"),
            '\t' => o.push_str("%09"),
            '\r' => o.push_str("%0D"),
            _ => o.push(c),
        }
    }
    o
}

fn tmp_path(tag: &str) -> std::path::PathBuf {
    let dir = std::env::var("HARNESS_TMP").map(std::path::PathBuf::from).unwrap_or_else(|_| std::env::temp_dir());
    dir.join(format!("sodg-harness-{}-{tag}.bin", std::process::id()))
}

/// remove the file and every file beside it whose name starts with its stem (what a save() may have left there)
fn remove_siblings(p: &std::path::Path) {
    let (Some(dir), Some(stem)) = (p.parent(), p.file_stem().and_then(|s| s.to_str())) else { return };
    if let Ok(rd) = std::fs::read_dir(dir) {
        for e in rd.flatten() {
            if e.file_name().to_str().is_some_and(|n| n.starts_with(stem)) {
                let _ = std::fs::remove_file(e.path());
            }
        }
    }
}

/// the bytes `save()` writes
fn image_of(g: &AnyG) -> Result<Vec<u8>, String> {
    let p = tmp_path("save");
    // a save() that fails first (the directory does not exist): whatever it leaves behind in the process must not leak
    // into the next image
    let nowhere = p.with_extension("nodir").join("g.bin");
    let _ = with_g!(g, x => x.save(&nowhere).map_err(|e| e.to_string()));
    // the path already holds a longer file: "the file written by save()" must be the new image and nothing else
    std::fs::write(&p, vec![0xABu8; 256 * 1024]).map_err(|e| e.to_string())?;
    with_g!(g, x => x.save(&p).map_err(|e| e.to_string()))?;
    let b = std::fs::read(&p).map_err(|e| e.to_string())?;
    // and once more over its own image: the same bytes again
    with_g!(g, x => x.save(&p).map_err(|e| e.to_string()))?;
    let b2 = std::fs::read(&p).map_err(|e| e.to_string())?;
    remove_siblings(&p);
    if b != b2 {
        return Err("a second save() of the same graph to the same path wrote other bytes".into());
    }
    Ok(b)
}

/// `load()` of the given bytes, into the same `N` as `like`
fn load_like(like: &AnyG, bytes: &[u8]) -> Result<AnyG, String> {
    let p = tmp_path("load");
    // a load() that fails first (no such file)
    let nowhere = p.with_extension("nofile");
    let _ = map_g_res!(like, x => { let _ = x; Sodg::load(&nowhere).map_err(|e| e.to_string()) });
    // and a load() that panics first and is survived (the complete image of a two-edge vertex read into N = 1): a process
    // that caught a panic goes on, and what the panic left behind in it must not change the next answer
    let other = p.with_extension("othern");
    let wrote = guard(|| {
        let mut g: Sodg<16> = Sodg::empty(4);
        g.add(0);
        g.add(1);
        g.add(2);
        g.bind(0, 1, Label::Alpha(0));
        g.bind(0, 2, Label::Alpha(1));
        g.save(&other).is_ok()
    });
    if wrote == Some(true) {
        let _ = guard(|| Sodg::<1>::load(&other).is_ok());
    }
    let _ = std::fs::remove_file(&other);
    std::fs::write(&p, bytes).map_err(|e| e.to_string())?;
    let r = map_g_res!(like, x => { let _ = x; Sodg::load(&p).map_err(|e| e.to_string()) });
    let _ = std::fs::remove_file(&p);
    r
}

struct World {
    hs: HashMap<usize, HS>,
    /// handles on which a call has panicked; in soak mode they stay alive and keep executing calls
    soaked: std::collections::HashSet<usize>,
    soak: bool,
}

impl World {
    fn exec(&mut self, line: &str) -> String {
        let ws: Vec<&str> = line.split_whitespace().collect();
        match ws.as_slice() {
            [] => String::new(),
            ["reset"] => {
                self.hs.clear();
                self.soaked.clear();
                "ok".into()
            }
            ["hex", rest @ ..] => exec_hex(rest),
            ["label", rest @ ..] => exec_label(rest),
            ["new", h, n, c] => {
                let (Some(h), Ok(n), Ok(c)) = (parse_handle(h), n.parse::<usize>(), c.parse::<usize>()) else {
                    return "bad-op".into();
                };
                match new_g(n, c) {
                    Some(g) => {
                        self.hs.insert(h, HS::Live(g));
                        "ok".into()
                    }
                    None => "bad-op".into(),
                }
            }
            ["clone", a, b] => {
                let (Some(a), Some(b)) = (parse_handle(a), parse_handle(b)) else { return "bad-op".into() };
                match self.hs.get(&a) {
                    None => "bad-op".into(),
                    Some(HS::Dead) => {
                        self.hs.insert(b, HS::Dead);
                        "dead".into()
                    }
                    Some(HS::Live(_)) => {
                        if a == b {
                            return "bad-op".into();
                        }
                        // when the target handle already holds a graph of the same N, the clone is made into it with
                        // `clone_from` (what `target = source.clone()` becomes under clippy's `assigning_clones`)
                        let old = match self.hs.remove(&b) {
                            Some(HS::Live(t)) => Some(t),
                            _ => None,
                        };
                        let g = match self.hs.get(&a) {
                            Some(HS::Live(g)) => g,
                            _ => return "bad-op".into(),
                        };
                        let r = catch_unwind(AssertUnwindSafe(|| match old {
                            Some(mut t) => {
                                if clone_from_any(&mut t, g) {
                                    t
                                } else {
                                    map_g!(g, x => x.clone())
                                }
                            }
                            None => map_g!(g, x => x.clone()),
                        }));
                        match r {
                            Ok(c) => {
                                let k = keys_of(&c);
                                self.hs.insert(b, HS::Live(c));
                                format!("ok ; {k}")
                            }
                            Err(_) => {
                                self.hs.insert(b, HS::Dead);
                                "panic".into()
                            }
                        }
                    }
                }
            }
            ["slice", a, v, b, rej] => {
                let (Some(a), Ok(v), Some(b)) = (parse_handle(a), v.parse::<usize>(), parse_handle(b)) else { return "bad-op".into() };
                let mut table: Vec<(usize, usize, Label)> = vec![];
                if *rej != "-" {
                    for t in rej.split(',') {
                        let p: Vec<&str> = t.split('>').collect();
                        let (Some(x), Some(y), Some(l)) = (p.first().and_then(|s| s.parse().ok()), p.get(1).and_then(|s| s.parse().ok()), p.get(2).and_then(|s| parse_label_tok(s))) else { return "bad-op".into() };
                        table.push((x, y, l));
                    }
                }
                match self.hs.get(&a) {
                    None => "bad-op".into(),
                    Some(HS::Dead) => {
                        self.hs.insert(b, HS::Dead);
                        "dead".into()
                    }
                    Some(HS::Live(g)) => {
                        let r = guard(|| map_g_res!(g, x => if table.is_empty() { x.slice(v) } else { x.slice_some(v, |f, t, l| !table.contains(&(f, t, l))) }.map_err(|e| e.to_string())));
                        match r {
                            Some(Ok(c)) => {
                                let k = keys_of(&c);
                                self.hs.insert(b, HS::Live(c));
                                format!("ok ; {k}")
                            }
                            Some(Err(_)) => {
                                self.hs.insert(b, HS::Dead);
                                "err".into()
                            }
                            None => {
                                self.hs.insert(b, HS::Dead);
                                "panic".into()
                            }
                        }
                    }
                }
            }
            ["merge", a, b, l, r] => {
                let (Some(a), Some(b), Ok(l), Ok(r)) = (parse_handle(a), parse_handle(b), l.parse::<usize>(), r.parse::<usize>()) else { return "bad-op".into() };
                if a == b {
                    return "bad-op".into();
                }
                let Some(right) = self.hs.remove(&b) else { return "bad-op".into() };
                let out = match (self.hs.get_mut(&a), &right) {
                    (None, _) => "bad-op".to_string(),
                    (Some(HS::Dead), _) | (_, HS::Dead) => "dead".to_string(),
                    (Some(HS::Live(g)), HS::Live(h)) => {
                        let res = guard(|| merge_any(g, h, l, r));
                        match res {
                            Some(Some(Ok(()))) => format!("ok ; {}", keys_of(g)),
                            Some(Some(Err(msg))) => {
                                // the vertices the error names: every `ν<digits>` after the last "missed" (the whole
                                // text when that word is not there), as a sorted set - the wording, the separators and
                                // the order of the names are not part of any property
                                let tail = msg.rfind("missed").map_or(msg.as_str(), |i| &msg[i..]);
                                let mut ids: Vec<usize> = Vec::new();
                                let cs: Vec<char> = tail.chars().collect();
                                let mut i = 0;
                                while i < cs.len() {
                                    if cs[i] == 'ν' {
                                        let mut j = i + 1;
                                        let mut n: Option<usize> = None;
                                        while j < cs.len() && cs[j].is_ascii_digit() {
                                            n = Some(n.unwrap_or(0).saturating_mul(10).saturating_add(cs[j] as usize - '0' as usize));
                                            j += 1;
                                        }
                                        if let Some(n) = n {
                                            ids.push(n);
                                        }
                                        i = j;
                                    } else {
                                        i += 1;
                                    }
                                }
                                ids.sort_unstable();
                                ids.dedup();
                                format!("err {} ; {}", show_nats(&ids), keys_of(g))
                            }
                            Some(None) => "bad-op".to_string(),
                            None => {
                                // soak mode: the graph stays in use in the state the panicking merge left behind
                                if self.soak {
                                    self.soaked.insert(a);
                                } else {
                                    self.hs.insert(a, HS::Dead);
                                }
                                "panic".to_string()
                            }
                        }
                    }
                };
                self.hs.insert(b, right);
                out
            }
            ["same", _, _] | ["samesnap", _, _] => "ok".into(),
            ["script", a, t] => {
                let (Some(a), Some(text)) = (parse_handle(a), parse_text_tok(t)) else { return "bad-op".into() };
                match self.hs.get_mut(&a) {
                    None => "bad-op".into(),
                    Some(HS::Dead) => "dead".into(),
                    Some(HS::Live(g)) => {
                        let r = guard(|| {
                            let mut sc = sodg::Script::from_str(&text);
                            with_g!(g, x => sc.deploy_to(x)).map_err(|e| e.to_string())
                        });
                        match r {
                            Some(Ok(k)) => format!("ok {k} ; {}", keys_of(g)),
                            // the text of the error (which names the failing command) is not part of any property:
                                // how far the script got is judged by the state it left behind
                            Some(Err(_)) => format!("err ; {}", keys_of(g)),
                            None => {
                                if self.soak {
                                    self.soaked.insert(a);
                                } else {
                                    self.hs.insert(a, HS::Dead);
                                }
                                "panic".into()
                            }
                        }
                    }
                }
            }
            ["save", a] => {
                let Some(a) = parse_handle(a) else { return "bad-op".into() };
                match self.hs.get(&a) {
                    None => "bad-op".into(),
                    Some(HS::Dead) => "dead".into(),
                    Some(HS::Live(g)) => match guard(|| image_of(g)) {
                        Some(Ok(b)) => format!("ok {}", hexstr(&b)),
                        Some(Err(_)) => "err".into(),
                        None => "panic".into(),
                    },
                }
            }
            ["reload", a, b] => {
                let (Some(a), Some(b)) = (parse_handle(a), parse_handle(b)) else { return "bad-op".into() };
                match self.hs.get(&a) {
                    None => "bad-op".into(),
                    Some(HS::Dead) => {
                        self.hs.insert(b, HS::Dead);
                        "dead".into()
                    }
                    Some(HS::Live(g)) => {
                        let r = guard(|| image_of(g).and_then(|bytes| load_like(g, &bytes)));
                        match r {
                            Some(Ok(c)) => {
                                let k = keys_of(&c);
                                self.hs.insert(b, HS::Live(c));
                                format!("ok ; {k}")
                            }
                            Some(Err(_)) => {
                                self.hs.insert(b, HS::Dead);
                                "err".into()
                            }
                            None => {
                                self.hs.insert(b, HS::Dead);
                                "panic".into()
                            }
                        }
                    }
                }
            }
            ["loadcuts", a, step] => {
                let (Some(a), Ok(step)) = (parse_handle(a), step.parse::<usize>()) else { return "bad-op".into() };
                match self.hs.get(&a) {
                    None => "bad-op".into(),
                    Some(HS::Dead) => "dead".into(),
                    Some(HS::Live(g)) => {
                        let Some(Ok(img)) = guard(|| image_of(g)) else { return "panic".into() };
                        // the path the cut images are loaded from has been saved to twice before: whatever a save()
                        // leaves beside the file (a backup, a journal) is in place when the truncated file is loaded
                        let lp = tmp_path("load");
                        let _ = guard(|| with_g!(g, x => { let _ = x.save(&lp); let _ = x.save(&lp); }));
                        let size = img.len();
                        let mut tested = 0;
                        let mut bad = vec![];
                        // at most about 20000 cut points per image (an image that large is abnormal anyway)
                        let step = step.max(size / 20000);
                        for k in 0..size {
                            if !(step <= 1 || k % step == 0 || size - k <= 64 || k < 64) {
                                continue;
                            }
                            tested += 1;
                            match guard(|| load_like(g, &img[..k])) {
                                Some(Ok(_)) => bad.push(format!("{k}:ok")),
                                Some(Err(_)) => {}
                                None => bad.push(format!("{k}:panic")),
                            }
                        }
                        remove_siblings(&lp);
                        format!("ok {size} {tested} bad=[{}]", bad.join(","))
                    }
                }
            }
            [cmd @ ("xml" | "dot" | "debug" | "display"), a] => {
                let Some(a) = parse_handle(a) else { return "bad-op".into() };
                match self.hs.get(&a) {
                    None => "bad-op".into(),
                    Some(HS::Dead) => "dead".into(),
                    Some(HS::Live(g)) => {
                        let r = guard(|| with_g!(g, x => match *cmd {
                            "xml" => x.to_xml().map_err(|e| e.to_string()),
                            "dot" => Ok(x.to_dot()),
                            "debug" => Ok(format!("{x:?}")),
                            _ => Ok(format!("{x}")),
                        }));
                        match r {
                            Some(Ok(t)) => format!("ok {}", esc(&t)),
                            Some(Err(_)) => "err".into(),
                            None => "panic".into(),
                        }
                    }
                }
            }
            [cmd @ ("inspect" | "vprint"), a, v] => {
                let (Some(a), Ok(v)) = (parse_handle(a), v.parse::<usize>()) else { return "bad-op".into() };
                match self.hs.get(&a) {
                    None => "bad-op".into(),
                    Some(HS::Dead) => "dead".into(),
                    Some(HS::Live(g)) => {
                        let r = guard(|| with_g!(g, x => if *cmd == "inspect" { x.inspect(v) } else { x.v_print(v) }.map_err(|e| e.to_string())));
                        match r {
                            Some(Ok(t)) => format!("ok {}", esc(&t)),
                            Some(Err(_)) => "err".into(),
                            None => "panic".into(),
                        }
                    }
                }
            }
            ["snap", a] => {
                let Some(a) = parse_handle(a) else { return "bad-op".into() };
                match self.hs.get(&a) {
                    None => "bad-op".into(),
                    Some(HS::Dead) => "dead".into(),
                    Some(HS::Live(g)) => guard(|| snapshot(g)).unwrap_or_else(|| "panic".into()),
                }
            }
            ["observe", a] => {
                let Some(a) = parse_handle(a) else { return "bad-op".into() };
                match self.hs.get(&a) {
                    None => "bad-op".into(),
                    Some(HS::Dead) => "dead".into(),
                    Some(HS::Live(g)) => catch_unwind(AssertUnwindSafe(|| observe(g))).unwrap_or_else(|_| "panic".into()),
                }
            }
            [cmd, h, rest @ ..] => {
                let Some(a) = parse_handle(h) else { return "bad-op".into() };
                let soaked = self.soaked.contains(&a);
                match self.hs.get_mut(&a) {
                    None => "bad-op".into(),
                    Some(HS::Dead) => "dead".into(),
                    Some(HS::Live(g)) => {
                        let r = catch_unwind(AssertUnwindSafe(|| {
                            core_call(g, cmd, rest).map(|s| format!("{s} ; {}", post(g, &op_args(cmd, rest))))
                        }));
                        match r {
                            Ok(Some(s)) => if soaked { format!("soak {s}") } else { s },
                            Ok(None) => "bad-op".into(),
                            Err(_) => {
                                if self.soak {
                                    self.soaked.insert(a);
                                    if soaked { "soak panic".into() } else { "panic".into() }
                                } else {
                                    self.hs.insert(a, HS::Dead);
                                    "panic".into()
                                }
                            }
                        }
                    }
                }
            }
            _ => "bad-op".into(),
        }
    }
}

fn main() {
    std::panic::set_hook(Box::new(|_| {}));
    let args: Vec<String> = std::env::args().collect();
    let mode = args.get(1).map(String::as_str).unwrap_or("exec");
    match mode {
        "exec" => {
            let stdin = std::io::stdin();
            let stdout = std::io::stdout();
            let mut out = std::io::BufWriter::new(stdout.lock());
            let mut w = World { hs: HashMap::new(), soaked: std::collections::HashSet::new(), soak: std::env::var("HARNESS_SOAK").is_ok() };
            let flush = std::env::var("HARNESS_FLUSH").is_ok();
            for line in stdin.lock().lines() {
                let line = line.unwrap();
                let r = w.exec(&line);
                writeln!(out, "{r}").unwrap();
                if flush {
                    out.flush().unwrap();
                }
            }
            out.flush().unwrap();
        }
        _ => {
            eprintln!("usage: harness exec");
            std::process::exit(2);
        }
    }
}
