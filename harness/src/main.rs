//! Harness: executes the line protocol against the real sodg crate, in-process.
//! One operation per line on stdin, one observation per line on stdout.

use sodg::{Hex, Label, Sodg};
use std::collections::HashMap;
use std::io::{BufRead, Write};
use std::panic::{catch_unwind, AssertUnwindSafe};

macro_rules! any_g {
    ($($n:literal $v:ident),*) => {
        enum AnyG { $($v(Sodg<$n>)),* }
        macro_rules! with_g {
            ($g:expr, $x:ident => $e:expr) => { match $g { $(AnyG::$v($x) => $e),* } };
        }
        macro_rules! map_g {
            ($g:expr, $x:ident => $e:expr) => { match $g { $(AnyG::$v($x) => AnyG::$v($e)),* } };
        }
        fn new_g(n: usize, cap: usize) -> Option<AnyG> {
            match n { $($n => Some(AnyG::$v(Sodg::empty(cap))),)* _ => None }
        }
    };
}
any_g!(1 N1, 2 N2, 3 N3, 4 N4, 5 N5, 6 N6, 7 N7, 8 N8, 9 N9, 10 N10, 11 N11, 12 N12, 13 N13, 14 N14, 15 N15, 16 N16);

enum HS {
    Live(AnyG),
    Dead,
}

fn hexstr(b: &[u8]) -> String {
    b.iter().map(|x| format!("{x:02x}")).collect()
}

fn unhex(s: &str) -> Option<Vec<u8>> {
    if s.len() % 2 != 0 || !s.is_ascii() {
        return None;
    }
    (0..s.len()).step_by(2).map(|i| u8::from_str_radix(&s[i..i + 2], 16).ok()).collect()
}

fn parse_hex_tok(s: &str) -> Option<Hex> {
    if let Some(r) = s.strip_prefix('x') {
        Some(Hex::from_vec(unhex(r)?))
    } else if let Some(r) = s.strip_prefix("V:") {
        Some(Hex::Vector(unhex(r)?))
    } else if let Some(r) = s.strip_prefix("B:") {
        let (a, l) = r.split_once(':')?;
        let arr = unhex(a)?;
        let len: usize = l.parse().ok()?;
        if arr.len() != 8 || len > 8 {
            return None;
        }
        let mut x = [0u8; 8];
        x.copy_from_slice(&arr);
        Some(Hex::Bytes(x, len))
    } else {
        None
    }
}

fn show_bytes(h: &Hex) -> String {
    format!("x{}", hexstr(h.bytes()))
}

fn parse_label_tok(s: &str) -> Option<Label> {
    let (k, r) = s.split_once(':')?;
    match k {
        "G" => Some(Label::Greek(char::from_u32(r.parse().ok()?)?)),
        "A" => Some(Label::Alpha(r.parse().ok()?)),
        "S" => {
            let cs: Option<Vec<char>> = r.split('.').map(|x| char::from_u32(x.parse().ok()?)).collect();
            let cs = cs?;
            if cs.len() != 8 {
                return None;
            }
            let mut a = [' '; 8];
            a.copy_from_slice(&cs);
            Some(Label::Str(a))
        }
        _ => None,
    }
}

fn show_label_tok(l: &Label) -> String {
    match l {
        Label::Greek(c) => format!("G:{}", *c as u32),
        Label::Alpha(n) => format!("A:{n}"),
        Label::Str(a) => format!("S:{}", a.iter().map(|c| (*c as u32).to_string()).collect::<Vec<_>>().join(".")),
    }
}

fn show_nats(v: &[usize]) -> String {
    format!("[{}]", v.iter().map(ToString::to_string).collect::<Vec<_>>().join(","))
}

fn show_edges<'a>(it: impl Iterator<Item = (&'a Label, &'a usize)>) -> String {
    format!("[{}]", it.map(|(a, t)| format!("{}>{}", show_label_tok(a), t)).collect::<Vec<_>>().join(","))
}

fn parse_handle(s: &str) -> Option<usize> {
    s.strip_prefix('g')?.parse().ok()
}

fn keys_of(g: &AnyG) -> String {
    with_g!(g, x => show_nats(&x.keys()))
}

fn entry(g: &AnyG, v: usize) -> String {
    with_g!(g, x => {
        let marker = if x.v_print(v).map(|s| s.contains("⟦Δ")).unwrap_or(false) { "!" } else { "" };
        format!("{v}{marker}{}", show_edges(x.kids(v)))
    })
}

/// keys, then the entries of the argument vertices that are present after the call
fn post(g: &AnyG, args: &[usize]) -> String {
    let keys = with_g!(g, x => x.keys());
    let touched: Vec<String> = args.iter().filter(|v| keys.contains(v)).map(|v| entry(g, *v)).collect();
    format!("{} ; {}", show_nats(&keys), touched.join(" "))
}

fn op_args(cmd: &str, rest: &[&str]) -> Vec<usize> {
    let k = match cmd {
        "bind" => 2,
        "add" | "put" | "data" | "kid" | "kids" => 1,
        _ => 0,
    };
    rest.iter().take(k).filter_map(|s| s.parse().ok()).collect()
}

/// A call on one live graph; `None` = bad-op. Returns the text before " ; keys".
fn core_call(g: &mut AnyG, cmd: &str, rest: &[&str]) -> Option<String> {
    match (cmd, rest) {
        ("add", [v]) => {
            let v: usize = v.parse().ok()?;
            with_g!(g, x => x.add(v));
            Some("ok".into())
        }
        ("bind", [v1, v2, a]) => {
            let v1: usize = v1.parse().ok()?;
            let v2: usize = v2.parse().ok()?;
            let a = parse_label_tok(a)?;
            with_g!(g, x => x.bind(v1, v2, a));
            Some("ok".into())
        }
        ("put", [v, d]) => {
            let v: usize = v.parse().ok()?;
            let d = parse_hex_tok(d)?;
            with_g!(g, x => x.put(v, &d));
            Some("ok".into())
        }
        ("data", [v]) => {
            let v: usize = v.parse().ok()?;
            let r = with_g!(g, x => x.data(v));
            Some(match r {
                None => "ok none".into(),
                Some(h) => format!("ok {}", show_bytes(&h)),
            })
        }
        ("kid", [v, a]) => {
            let v: usize = v.parse().ok()?;
            let a = parse_label_tok(a)?;
            let r = with_g!(g, x => x.kid(v, a));
            Some(match r {
                None => "ok none".into(),
                Some(t) => format!("ok {t}"),
            })
        }
        ("kids", [v]) => {
            let v: usize = v.parse().ok()?;
            Some(format!("ok {}", with_g!(g, x => show_edges(x.kids(v)))))
        }
        ("keys", []) => Some(format!("ok {}", keys_of(g))),
        ("nextid", []) => Some(format!("ok {}", with_g!(g, x => x.next_id()))),
        _ => None,
    }
}

fn observe(g: &AnyG) -> String {
    with_g!(g, x => {
        let parts: Vec<String> = x.keys().into_iter().map(|v| entry(g, v)).collect();
        format!("ok {}", parts.join(" "))
    })
}

struct World {
    hs: HashMap<usize, HS>,
}

impl World {
    fn exec(&mut self, line: &str) -> String {
        let ws: Vec<&str> = line.split_whitespace().collect();
        match ws.as_slice() {
            [] => String::new(),
            ["reset"] => {
                self.hs.clear();
                "ok".into()
            }
            ["new", h, n, c] => {
                let (Some(h), Ok(n), Ok(c)) = (parse_handle(h), n.parse::<usize>(), c.parse::<usize>()) else {
                    return "bad-op".into();
                };
                match new_g(n, c) {
                    Some(g) => {
                        self.hs.insert(h, HS::Live(g));
                        "ok".into()
                    }
                    None => "bad-op".into(),
                }
            }
            ["clone", a, b] => {
                let (Some(a), Some(b)) = (parse_handle(a), parse_handle(b)) else { return "bad-op".into() };
                match self.hs.get(&a) {
                    None => "bad-op".into(),
                    Some(HS::Dead) => {
                        self.hs.insert(b, HS::Dead);
                        "dead".into()
                    }
                    Some(HS::Live(g)) => {
                        let r = catch_unwind(AssertUnwindSafe(|| map_g!(g, x => x.clone())));
                        match r {
                            Ok(c) => {
                                let k = keys_of(&c);
                                self.hs.insert(b, HS::Live(c));
                                format!("ok ; {k}")
                            }
                            Err(_) => {
                                self.hs.insert(b, HS::Dead);
                                "panic".into()
                            }
                        }
                    }
                }
            }
            ["observe", a] => {
                let Some(a) = parse_handle(a) else { return "bad-op".into() };
                match self.hs.get(&a) {
                    None => "bad-op".into(),
                    Some(HS::Dead) => "dead".into(),
                    Some(HS::Live(g)) => catch_unwind(AssertUnwindSafe(|| observe(g))).unwrap_or_else(|_| "panic".into()),
                }
            }
            [cmd, h, rest @ ..] => {
                let Some(a) = parse_handle(h) else { return "bad-op".into() };
                match self.hs.get_mut(&a) {
                    None => "bad-op".into(),
                    Some(HS::Dead) => "dead".into(),
                    Some(HS::Live(g)) => {
                        let r = catch_unwind(AssertUnwindSafe(|| {
                            core_call(g, cmd, rest).map(|s| format!("{s} ; {}", post(g, &op_args(cmd, rest))))
                        }));
                        match r {
                            Ok(Some(s)) => s,
                            Ok(None) => "bad-op".into(),
                            Err(_) => {
                                self.hs.insert(a, HS::Dead);
                                "panic".into()
                            }
                        }
                    }
                }
            }
            _ => "bad-op".into(),
        }
    }
}

fn main() {
    std::panic::set_hook(Box::new(|_| {}));
    let args: Vec<String> = std::env::args().collect();
    let mode = args.get(1).map(String::as_str).unwrap_or("exec");
    match mode {
        "exec" => {
            let stdin = std::io::stdin();
            let stdout = std::io::stdout();
            let mut out = std::io::BufWriter::new(stdout.lock());
            let mut w = World { hs: HashMap::new() };
            for line in stdin.lock().lines() {
                let line = line.unwrap();
                let r = w.exec(&line);
                writeln!(out, "{r}").unwrap();
            }
            out.flush().unwrap();
        }
        _ => {
            eprintln!("usage: harness exec");
            std::process::exit(2);
        }
    }
}
