import Core.Reach
import Core.Corollaries
set_option linter.unusedSectionVars false
/-! History-level independence of the two size parameters (C19): a history that is valid under two
    configurations yields the same outputs under both. -/
namespace Sodg

variable {L D : Type} [DecidableEq L] [Inhabited D]

theorem below_step (n c : Nat) (r : R L D) (op : Op L D) (hb : Below c r) (ok : OkStep n c r op) :
    Below c (R.step c r op).1 := by
  intro v hv
  cases op with
  | add w =>
    simp only [R.step, R.add] at hv
    split at hv
    · exact hb v hv
    · simp only [List.mem_cons] at hv
      rcases hv with rfl | hv
      · exact ok
      · exact hb v hv
  | bind v1 v2 a => simp only [R.step, R.ids_bind] at hv; exact hb v hv
  | put w d => exact hb v hv
  | data w => exact hb v (R.ids_data_sub r w v hv)
  | kid w a => exact hb v hv
  | kids w => exact hb v hv
  | keys => exact hb v hv
  | nextId =>
    have := (R.step_other c r (.nextId : Op L D) (by intro v; simp) (by intro _ _ _; simp) (by intro v; simp)).1
    rw [this] at hv; exact hb v hv

theorem R.run_indep (n1 c1 n2 c2 : Nat) (ops : List (Op L D)) : ∀ r : R L D, Below c1 r → Below c2 r →
    Valid n1 c1 r ops → Valid n2 c2 r ops → R.run c1 r ops = R.run c2 r ops := by
  induction ops with
  | nil => intro r _ _ _ _; rfl
  | cons op ops ih =>
    intro r hb1 hb2 hv1 hv2
    obtain ⟨ok1, rest1⟩ := hv1
    obtain ⟨ok2, rest2⟩ := hv2
    have e := R.step_indep n1 c1 n2 c2 r op hb1 hb2 ok1 ok2
    simp only [R.run]
    rw [e]
    congr 1
    apply ih
    · rw [← e]; exact below_step n1 c1 r op hb1 ok1
    · exact below_step n2 c2 r op hb2 ok2
    · rw [← e]; exact rest1
    · exact rest2

/-- **C19**: the model's answers to a history do not depend on the edge capacity `N` nor on the vertex capacity,
    as long as the history is within the limits of both configurations -/
theorem config_independent (n1 c1 n2 c2 : Nat) (ops : List (Op L D))
    (hv1 : Valid n1 c1 (R.empty : R L D) ops) (hv2 : Valid n2 c2 (R.empty : R L D) ops) :
    run (empty n1 c1 : G L D) ops = run (empty n2 c2 : G L D) ops := by
  rw [theoremA_empty n1 c1 ops hv1, theoremA_empty n2 c2 ops hv2]
  congr 1
  exact R.run_indep n1 c1 n2 c2 ops R.empty (by intro v hv; simp [R.empty] at hv) (by intro v hv; simp [R.empty] at hv) hv1 hv2

end Sodg
