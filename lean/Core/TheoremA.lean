import Core.RelBind
set_option linter.unusedSectionVars false
namespace Sodg

variable {L D : Type} [DecidableEq L] [Inhabited D]

/-- Limits and preconditions of `bind`, stated on the reference only. -/
structure BindOk (r : R L D) (v1 v2 : Nat) : Prop where
  p1 : v1 ∈ r.ids
  p2 : v2 ∈ r.ids
  ne : v1 ≠ v2
  newGrp : r.grp v1 = none → r.grp v2 = none → r.groups.length < 14
  join1 : r.grp v1 = none → ∀ k, r.grp v2 = some k → (r.members k).length < 16
  join2 : r.grp v2 = none → ∀ k, r.grp v1 = some k → (r.members k).length < 16

theorem joinGrp_some (g : G L D) (v b : Nat) (h : (mem g b).length < 16) : ∃ g', joinGrp g v b = some g' := by
  unfold joinGrp; rw [if_pos h]; exact ⟨_, rfl⟩

theorem rel_bindGrp (g0 : G L D) (r : R L D) (v1 v2 : Nat) (h : Rel g0 r) (ok : BindOk r v1 v2) :
    ∃ g', bindGrp g0 v1 v2 = some g' ∧ Rel g' (r.bindGrp v1 v2) := by
  have c1 := (h.alive v1).1 ok.p1
  have c2 := (h.alive v2).1 ok.p2
  unfold bindGrp
  by_cases t1 : tag g0 v1 = 1
  · have g1n : r.grp v1 = none := (h.ungr v1 ok.p1).2 t1
    rw [if_pos t1]
    by_cases t2 : tag g0 v2 = 1
    · have g2n : r.grp v2 = none := (h.ungr v2 ok.p2).2 t2
      rw [if_pos t2]
      obtain ⟨b, hfe, hb2, hb16, hemp⟩ := free_slot g0 r h (ok.newGrp g1n g2n)
      rw [hfe]
      -- nobody carries tag b, nobody carries group `fresh`
      have notag : ∀ w ∈ r.ids, tag g0 w ≠ b := by
        intro w hw he
        have hwc := (h.alive w).1 hw
        have := h.inv.own w hwc.1 (by omega)
        rw [he, hemp] at this; cases this
      have nofresh : ∀ w ∈ r.ids, r.grp w ≠ some r.fresh := by
        intro w hw he; have := h.lt w hw _ he; omega
      obtain ⟨ga, hja⟩ := joinGrp_some g0 v1 b (by simp [hemp])
      have ra := rel_joinGrp g0 ga r v1 b r.fresh (r.fresh + 1) h ok.p1 t1 hb2 hb16
        (fun w hw => ⟨fun e => absurd e (nofresh w hw), fun e => absurd e (notag w hw)⟩)
        (by omega) (by omega) hja
      -- second join
      have memga : mem ga b = [v1] := by
        unfold joinGrp at hja; rw [if_pos (by simp [hemp])] at hja; cases hja
        unfold enroll; split <;> simp [mem_pushMem, hemp, h.inv.brsz, hb16]
      have tagga : ∀ w, tag ga w = if v1 = w then b else tag g0 w := by
        intro w
        unfold joinGrp at hja; rw [if_pos (by simp [hemp])] at hja; cases hja
        unfold enroll; split <;> simp [tag_setTag] <;> grind
      obtain ⟨gb, hjb⟩ := joinGrp_some ga v2 b (by simp [memga])
      have t2a : tag ga v2 = 1 := by rw [tagga]; simp [ok.ne, t2]
      have rb := rel_joinGrp ga gb _ v2 b r.fresh (r.fresh + 1) ra ok.p2 t2a hb2 hb16
        (by
          intro w hw
          simp only [upd_get]
          rw [tagga]
          by_cases hw1 : w = v1
          · subst hw1; simp
          · have : ¬ v1 = w := fun e => hw1 e.symm
            simp [hw1, this]
            exact ⟨fun e => absurd e (nofresh w hw), fun e => absurd e (notag w hw)⟩)
        (by omega) (by simp) hjb
      refine ⟨gb, by simp [hja, hjb], ?_⟩
      simpa [R.bindGrp, g1n, g2n] using rb
    · rw [if_neg t2]
      obtain ⟨k, hk⟩ : ∃ k, r.grp v2 = some k := by
        cases hg : r.grp v2 with
        | none => exact absurd ((h.ungr v2 ok.p2).1 hg) t2
        | some k => exact ⟨k, rfl⟩
      have hb2 : 2 ≤ tag g0 v2 := ((h.same v2 ok.p2 v2 ok.p2).1 ⟨by simp [hk], rfl⟩).1
      have hb16 := h.inv.taglt v2 c2.1
      have hlen : (mem g0 (tag g0 v2)).length < 16 := by
        rw [← members_length g0 r h v2 ok.p2 k hk]; exact ok.join1 g1n k hk
      obtain ⟨ga, hja⟩ := joinGrp_some g0 v1 _ hlen
      have ra := rel_joinGrp g0 ga r v1 _ k r.fresh h ok.p1 t1 hb2 hb16
        (by
          intro w hw
          have := h.same v2 ok.p2 w hw
          constructor
          · intro e; exact (this.1 ⟨by simp [hk], by rw [hk, e]⟩).2.symm
          · intro e; have := (this.2 ⟨hb2, e.symm⟩).2; rw [← this, hk])
        (h.lt v2 ok.p2 k hk) (by omega) hja
      refine ⟨ga, hja, ?_⟩
      simpa [R.bindGrp, g1n, hk] using ra
  · rw [if_neg t1]
    obtain ⟨k, hk⟩ : ∃ k, r.grp v1 = some k := by
      cases hg : r.grp v1 with
      | none => exact absurd ((h.ungr v1 ok.p1).1 hg) t1
      | some k => exact ⟨k, rfl⟩
    by_cases t2 : tag g0 v2 = 1
    · have g2n : r.grp v2 = none := (h.ungr v2 ok.p2).2 t2
      rw [if_pos t2]
      have hb2 : 2 ≤ tag g0 v1 := ((h.same v1 ok.p1 v1 ok.p1).1 ⟨by simp [hk], rfl⟩).1
      have hb16 := h.inv.taglt v1 c1.1
      have hlen : (mem g0 (tag g0 v1)).length < 16 := by
        rw [← members_length g0 r h v1 ok.p1 k hk]; exact ok.join2 g2n k hk
      obtain ⟨ga, hja⟩ := joinGrp_some g0 v2 _ hlen
      have ra := rel_joinGrp g0 ga r v2 _ k r.fresh h ok.p2 t2 hb2 hb16
        (by
          intro w hw
          have := h.same v1 ok.p1 w hw
          constructor
          · intro e; exact (this.1 ⟨by simp [hk], by rw [hk, e]⟩).2.symm
          · intro e; have := (this.2 ⟨hb2, e.symm⟩).2; rw [← this, hk])
        (h.lt v1 ok.p1 k hk) (by omega) hja
      refine ⟨ga, hja, ?_⟩
      simpa [R.bindGrp, g2n, hk] using ra
    · rw [if_neg t2]
      obtain ⟨k2, hk2⟩ : ∃ k, r.grp v2 = some k := by
        cases hg : r.grp v2 with
        | none => exact absurd ((h.ungr v2 ok.p2).1 hg) t2
        | some k => exact ⟨k, rfl⟩
      refine ⟨g0, rfl, ?_⟩
      simpa [R.bindGrp, hk, hk2] using h


/-! ### histories, with outputs -/

inductive Op (L D : Type)
  | add (v : Nat) | bind (v1 v2 : Nat) (a : L) | put (v : Nat) (d : D) | data (v : Nat)
  | kid (v : Nat) (a : L) | kids (v : Nat) | keys | nextId

inductive Out (L D : Type)
  | unit | data (d : Option D) | kid (t : Option Nat) | kids (es : List (L × Nat)) | keys (ks : List Nat) | id (i : Nat)

/-- the reference, one call; `cap` only bounds the enumeration of `keys` and the allocator's search -/
def R.step (cap : Nat) (r : R L D) : Op L D → R L D × Out L D
  | .add v => (r.add v, .unit)
  | .bind v1 v2 a => (r.bind v1 v2 a, .unit)
  | .put v d => (r.put v d, .unit)
  | .data v => (r.data v, .data (r.dat v))
  | .kid v a => (r, .kid (lookup (r.edg v) a))
  | .kids v => (r, .kids (r.edg v))
  | .keys => (r, .keys (r.keys cap))
  | .nextId => match r.nextId cap with
    | some (r', i) => (r', .id i)
    | none => (r, .unit)

/-- the model, one call; `none` = panic -/
def step (g : G L D) : Op L D → Option (G L D × Out L D)
  | .add v => (add g v).map (·, .unit)
  | .bind v1 v2 a => (bind g v1 v2 a).map (·, .unit)
  | .put v d => (put g v d).map (·, .unit)
  | .data v => (data g v).map (fun x => (x.1, .data x.2))
  | .kid v a => (kid g v a).map (fun t => (g, .kid t))
  | .kids v => (kids g v).map (fun es => (g, .kids es))
  | .keys => some (g, .keys (keys g))
  | .nextId => (nextId g).map (fun x => (x.1, .id x.2))

/-- validity of one call: limits and preconditions, on the reference and the two size parameters only -/
def OkStep (n cap : Nat) (r : R L D) : Op L D → Prop
  | .add v => v < cap
  | .bind v1 v2 a => BindOk r v1 v2 ∧ (upsert (r.edg v1) a v2).length ≤ n
  | .put v _ => v ∈ r.ids
  | .data v => v ∈ r.ids
  | .kid v _ => v ∈ r.ids
  | .kids v => v ∈ r.ids
  | .keys => True
  | .nextId => ∃ i, i < cap ∧ i ∉ r.ids ∧ r.pos ≤ i

theorem joinGrp_shape (g g' : G L D) (v b : Nat) (h : joinGrp g v b = some g') : cap g' = cap g ∧ g'.n = g.n := by
  unfold joinGrp at h; split at h
  · cases h; unfold enroll; split <;> simp
  · cases h

theorem bindGrp_shape (g g' : G L D) (v1 v2 : Nat) (h : bindGrp g v1 v2 = some g') : cap g' = cap g ∧ g'.n = g.n := by
  unfold bindGrp at h
  split at h
  · split at h
    · split at h
      next b _ =>
        cases h1 : joinGrp g v1 b with
        | none => simp [h1] at h
        | some g1 =>
          simp [h1] at h
          have a := joinGrp_shape g g1 v1 b h1
          have c := joinGrp_shape g1 g' v2 b h
          exact ⟨c.1.trans a.1, c.2.trans a.2⟩
      · cases h
    · exact joinGrp_shape g g' v1 _ h
  · split at h
    · exact joinGrp_shape g g' v2 _ h
    · cases h; exact ⟨rfl, rfl⟩

theorem data_shape (g g' : G L D) (v : Nat) (o) (h : data g v = some (g', o)) : cap g' = cap g ∧ g'.n = g.n := by
  unfold data at h
  split at h
  · split at h
    · cases h; exact ⟨rfl, rfl⟩
    · cases h; exact ⟨rfl, rfl⟩
    · simp only at h
      split at h
      · cases h; exact ⟨by simp, rfl⟩
      · split at h
        · split at h
          · cases h
          · split at h
            · cases h; exact ⟨by simp, rfl⟩
            · cases h; exact ⟨by simp, rfl⟩
        · cases h
  · cases h

theorem rel_setNext (g : G L D) (r : R L D) (k : Nat) (h : Rel g r) : Rel (setNext g k) { r with pos := k } :=
  ⟨Inv.of_same g _ h.inv rfl (fun _ => rfl) (fun _ => rfl) (fun _ => rfl) (fun _ => rfl) rfl rfl, h.nd,
    h.alive, h.ungr, h.same, h.unr, h.lt, h.edges, h.data, rfl⟩

theorem find_congr {p q : Nat → Bool} (l : List Nat) (h : ∀ x ∈ l, p x = q x) : l.find? p = l.find? q := by
  induction l with
  | nil => rfl
  | cons x xs ih =>
    simp only [List.find?_cons, h x (by simp)]
    rw [ih (fun y hy => h y (by simp [hy]))]

theorem rel_step (g : G L D) (r : R L D) (op : Op L D) (h : Rel g r) (ok : OkStep g.n (cap g) r op) :
    ∃ g', step g op = some (g', (R.step (cap g) r op).2) ∧ Rel g' (R.step (cap g) r op).1 ∧
      cap g' = cap g ∧ g'.n = g.n := by
  cases op with
  | add v =>
    have : ∃ g', add g v = some g' := by
      unfold add; simp only [OkStep] at ok; rw [if_pos ok]; split <;> exact ⟨_, rfl⟩
    obtain ⟨g', hg⟩ := this
    refine ⟨g', by simp [step, hg, R.step], rel_add g g' r v h hg, ?_, ?_⟩
    · unfold add at hg; split at hg
      · split at hg <;> cases hg <;> simp [cap]
      · cases hg
    · unfold add at hg; split at hg
      · split at hg <;> cases hg <;> rfl
      · cases hg
  | bind v1 v2 a =>
    obtain ⟨okb, hN⟩ := ok
    have c1 := (h.alive v1).1 okb.p1
    have c2 := (h.alive v2).1 okb.p2
    have hN' : (upsert (edg g v1) a v2).length ≤ g.n := by rw [h.edges v1 okb.p1]; exact hN
    have h0 := rel_setEdge g r v1 v2 a h okb.p1
    have okb' : BindOk (r.setEdge v1 v2 a) v1 v2 := ⟨okb.p1, okb.p2, okb.ne, okb.newGrp, okb.join1, okb.join2⟩
    obtain ⟨g', hb, hr⟩ := rel_bindGrp _ _ v1 v2 h0 okb'
    refine ⟨g', ?_, hr, ?_, ?_⟩
    · simp only [step, R.step, bind, if_pos (And.intro c1.1 c2.1), if_pos hN', hb, Option.map_some]
    · have := bindGrp_shape _ _ v1 v2 hb; simpa using this.1
    · have := bindGrp_shape _ _ v1 v2 hb; simpa using this.2
  | put v d =>
    have hvc := (h.alive v).1 ok
    have : ∃ g', put g v d = some g' := by
      unfold put; rw [if_pos hvc.1]; simp only
      split
      · have := h.inv.taglt v hvc.1; rw [if_pos this]; exact ⟨_, rfl⟩
      · exact ⟨_, rfl⟩
    obtain ⟨g', hg⟩ := this
    refine ⟨g', by simp [step, hg, R.step], rel_put g g' r v d h ok hg, ?_, ?_⟩
    · unfold put at hg; rw [if_pos hvc.1] at hg; simp only at hg
      split at hg
      · split at hg <;> cases hg; simp
      · cases hg; simp
    · unfold put at hg; rw [if_pos hvc.1] at hg; simp only at hg
      split at hg
      · split at hg <;> cases hg; simp
      · cases hg; simp
  | data v =>
    have hvc := (h.alive v).1 ok
    have : ∃ x, data g v = some x := by
      unfold data; rw [if_pos hvc.1]
      split
      · exact ⟨_, rfl⟩
      · exact ⟨_, rfl⟩
      next hp =>
        simp only
        split
        · exact ⟨_, rfl⟩
        next hb1 =>
          have hlt := h.inv.taglt v hvc.1
          have hb2 : 2 ≤ tag g v := by omega
          rw [if_pos hlt]
          have hvm := h.inv.own v hvc.1 hb2
          have hone := unread_setPers_of_mem g _ (h.inv.nodup _ hb2 hlt) v hvm hvc.1 hp
          have hcnt := h.inv.count _ hb2 hlt
          have : cnt g (tag g v) ≠ 0 := by omega
          rw [if_neg this]
          split <;> exact ⟨_, rfl⟩
    obtain ⟨⟨g', out⟩, hg⟩ := this
    obtain ⟨hr, ho⟩ := rel_data g g' r v out h ok hg
    have sh := data_shape g g' v out hg
    exact ⟨g', by simp [step, hg, R.step, ho], hr, sh.1, sh.2⟩
  | kid v a =>
    have hvc := (h.alive v).1 ok
    exact ⟨g, by simp [step, kid, hvc.1, R.step, h.edges v ok], h, rfl, rfl⟩
  | kids v =>
    have hvc := (h.alive v).1 ok
    exact ⟨g, by simp [step, kids, hvc.1, R.step, h.edges v ok], h, rfl, rfl⟩
  | keys =>
    have e : keys g = r.keys (cap g) := by
      unfold keys R.keys
      apply List.filter_congr
      intro v hv
      have := h.alive v
      simp only [List.mem_range] at hv
      simp [this, hv]
    exact ⟨g, by simp [step, R.step, e], h, rfl, rfl⟩
  | nextId =>
    obtain ⟨i, hi, hni, hpi⟩ := ok
    have e : (List.range (cap g)).find? (fun v => decide (tag g v = 0 ∧ r.pos ≤ v)) =
        (List.range (cap g)).find? (fun v => decide (v ∉ r.ids ∧ r.pos ≤ v)) := by
      apply find_congr
      intro x hx
      simp only [List.mem_range] at hx
      have := h.alive x
      simp [this, hx]
    have hsome : ((List.range (cap g)).find? (fun v => decide (v ∉ r.ids ∧ r.pos ≤ v))).isSome := by
      rw [List.find?_isSome]
      exact ⟨i, by simp [hi], by simp [hni, hpi]⟩
    obtain ⟨id, hid⟩ := Option.isSome_iff_exists.1 hsome
    simp only [step, R.step, nextId, R.nextId, h.pos, e, hid]
    by_cases hlt : r.pos < id + 1
    · simp only [hlt, if_true, Option.map_some]
      exact ⟨_, rfl, rel_setNext g r (id + 1) h, by simp, by simp⟩
    · simp only [hlt, if_false, Option.map_some]
      exact ⟨_, rfl, h, rfl, rfl⟩


/-- run a history on the reference, collecting outputs -/
def R.run (cap : Nat) (r : R L D) : List (Op L D) → List (Out L D)
  | [] => []
  | op :: ops => (R.step cap r op).2 :: R.run cap (R.step cap r op).1 ops

/-- run a history on the model; `none` = some call panicked -/
def run (g : G L D) : List (Op L D) → Option (List (Out L D))
  | [] => some []
  | op :: ops => match step g op with
    | none => none
    | some (g', o) => (run g' ops).map (o :: ·)

/-- every call of the history is within the limits, judged on the reference -/
def Valid (n cap : Nat) (r : R L D) : List (Op L D) → Prop
  | [] => True
  | op :: ops => OkStep n cap r op ∧ Valid n cap (R.step cap r op).1 ops

/-- **Theorem A**: for every valid history, of any length, for every N and capacity, no call of the model
    panics and the model's outputs are the reference's outputs. -/
theorem theoremA (ops : List (Op L D)) : ∀ (g : G L D) (r : R L D), Rel g r → Valid g.n (cap g) r ops →
    run g ops = some (R.run (cap g) r ops) := by
  induction ops with
  | nil => intro g r _ _; rfl
  | cons op ops ih =>
    intro g r h hv
    obtain ⟨ok, hrest⟩ := hv
    obtain ⟨g', hs, hr, hc, hn⟩ := rel_step g r op h ok
    have := ih g' _ hr (by rw [hc, hn]; exact hrest)
    simp only [run, hs, this, R.run, hc, Option.map_some]

theorem rel_empty (n c : Nat) : Rel (empty n c : G L D) R.empty := by
  have e : ∀ b, 2 ≤ b → b < 16 → mem (empty n c : G L D) b = [] := by
    intro b h2 h16; unfold mem empty; grind
  have t : ∀ v, tag (empty n c : G L D) v = 0 := by
    intro v; unfold tag empty; by_cases hv : v < c <;> simp [hv, blank] <;> rfl
  have hi : Inv (empty n c : G L D) := by
    refine ⟨by simp [empty], by simp [empty], by simp [mem, empty], by simp [mem, empty], ?_, ?_, ?_, ?_, ?_⟩
    · intro v _; rw [t]; omega
    · intro b h2 h16 v hv; rw [e b h2 h16] at hv; cases hv
    · intro b h2 h16; rw [e b h2 h16]; simp
    · intro v _ h2; rw [t] at h2; omega
    · intro b h2 h16; rw [e b h2 h16]; simp [unread, cnt, empty]; grind
  refine ⟨hi, by simp [R.empty], ?_, ?_, ?_, ?_, ?_, ?_, ?_, rfl⟩ <;> simp [R.empty, t]

/-- the statement for whole runs from `empty` -/
theorem theoremA_empty (n c : Nat) (ops : List (Op L D)) (hv : Valid n c (R.empty : R L D) ops) :
    run (empty n c : G L D) ops = some (R.run c R.empty ops) := by
  have := theoremA ops (empty n c : G L D) R.empty (rel_empty n c) (by simpa [empty, cap] using hv)
  simpa [empty, cap] using this

#print axioms theoremA_empty
end Sodg
