import Core.MergeBridge
set_option linter.unusedSectionVars false
/-! C11 probe, part 2: tree-likeness of the left graph (label paths are injective) is preserved, because for
    tree-shaped right graphs the only edge change `merge_rec` makes is "allocate, add, bind under a label
    that was absent". -/
namespace Sodg
namespace MT

variable {L D : Type} [DecidableEq L] [Inhabited D]

def PathInj (r : RG L D) (root : Nat) : Prop :=
  ∀ p q u, walk r root p = some u → walk r root q = some u → p = q

/-- where a path of the extended graph ends -/
theorem walk_newKid (r : RG L D) (left : Nat) (a : L) (id : Nat) (hl : r.alive left = true) (hid : r.alive id = false)
    (hk : r.kid left a = none) (hc : Closed r) :
    ∀ p root u, r.alive root = true → walk (newKid r left a id) root p = some u →
      (u ≠ id ∧ walk r root p = some u) ∨
      (u = id ∧ ∃ p0, p = p0 ++ [a] ∧ walk r root p0 = some left) := by
  have hl' := (alive_iff r left).1 hl
  have hid' := (alive_false_iff r id).1 hid
  have hne : left ≠ id := by rintro rfl; exact hid' hl'
  have kid' := newKid_kid r left a id hid' hne
  intro p
  induction p with
  | nil =>
    intro root u hr h
    simp only [walk, Option.some.injEq] at h; subst h
    exact Or.inl ⟨(by rintro rfl; rw [hr] at hid; cases hid), rfl⟩
  | cons x p ih =>
    intro root u hr h
    have hrid : root ≠ id := by rintro rfl; rw [hr] at hid; cases hid
    simp only [walk] at h
    rw [kid'] at h
    by_cases h1 : root = left
    · subst h1
      by_cases hxa : x = a
      · subst hxa
        simp at h
        -- we are at the new vertex, which has no edges
        cases p with
        | nil =>
          simp only [walk, Option.some.injEq] at h; subst h
          exact Or.inr ⟨rfl, [], rfl, rfl⟩
        | cons y p =>
          simp only [walk] at h
          rw [kid'] at h
          simp [Ne.symm hne] at h
      · simp [hxa] at h
        split at h
        · cases h
        next w hw =>
          have hwa := hc root hr x w hw
          rcases ih w u hwa h with ⟨hu, hwk⟩ | ⟨hu, p0, hp, hwk⟩
          · exact Or.inl ⟨hu, by simp only [walk, hw]; exact hwk⟩
          · exact Or.inr ⟨hu, x :: p0, by simp [hp], by simp only [walk, hw]; exact hwk⟩
    · simp [h1, hrid] at h
      split at h
      · cases h
      next w hw =>
        have hwa := hc root hr x w hw
        rcases ih w u hwa h with ⟨hu, hwk⟩ | ⟨hu, p0, hp, hwk⟩
        · exact Or.inl ⟨hu, by simp only [walk, hw]; exact hwk⟩
        · exact Or.inr ⟨hu, x :: p0, by simp [hp], by simp only [walk, hw]; exact hwk⟩

theorem newKid_pathInj (r : RG L D) (left : Nat) (a : L) (id root : Nat) (hl : r.alive left = true) (hid : r.alive id = false)
    (hk : r.kid left a = none) (hc : Closed r) (hr : r.alive root = true) (hi : PathInj r root) :
    PathInj (newKid r left a id) root := by
  intro p q u hp hq
  rcases walk_newKid r left a id hl hid hk hc p root u hr hp with ⟨hu, hp'⟩ | ⟨hu, p0, rfl, hp'⟩
  · rcases walk_newKid r left a id hl hid hk hc q root u hr hq with ⟨_, hq'⟩ | ⟨hu', _⟩
    · exact hi p q u hp' hq'
    · exact absurd hu' hu
  · rcases walk_newKid r left a id hl hid hk hc q root u hr hq with ⟨hu', _⟩ | ⟨_, q0, rfl, hq'⟩
    · exact absurd hu hu'
    · rw [hi p0 q0 left hp' hq']

theorem walk_put (r : RG L D) (v : Nat) (d) : ∀ p root, walk (r.put v d) root p = walk r root p := by
  intro p
  induction p with
  | nil => intro root; rfl
  | cons a p ih =>
    intro root
    simp only [walk]
    have : (r.put v d).kid root a = r.kid root a := rfl
    rw [this]
    cases r.kid root a with
    | none => rfl
    | some w => exact ih w

theorem pathInj_put (r : RG L D) (v : Nat) (d) (root : Nat) (h : PathInj r root) : PathInj (r.put v d) root := by
  intro p q u hp hq
  rw [walk_put] at hp hq
  exact h p q u hp hq

/-- tree-likeness from every present root is preserved by the whole merge -/
structure Keeps (r r' : RG L D) : Prop where
  inj : ∀ root, r.alive root = true → PathInj r root → PathInj r' root

theorem Keeps.refl (r : RG L D) : Keeps r r := ⟨fun _ _ h => h⟩

variable (fresh : RG L D → Nat)

mutual
theorem mergeT_keeps (hf : FreshOk fresh) (r : RG L D) (left : Nat) (hl : r.alive left = true) (hc : Closed r) :
    (t : T L D) → Keeps r (mergeT fresh r left t).1
  | .node id d kids => by
    cases d with
    | none => simpa [mergeT] using mergeKids_keeps hf r left hl hc kids
    | some b =>
      have := mergeKids_keeps hf (r.put left b) left hl (put_closed r left b hc) kids
      refine ⟨fun root hr hi => ?_⟩
      simpa [mergeT] using this.inj root hr (pathInj_put r left b root hi)
theorem mergeKids_keeps (hf : FreshOk fresh) (r : RG L D) (left : Nat) (hl : r.alive left = true) (hc : Closed r) :
    (kids : List (L × T L D)) → Keeps r (mergeKids fresh r left kids).1
  | [] => by simpa [mergeKids] using Keeps.refl r
  | (a0, c0) :: rest => by
    have step1 : ∃ r1 t, findOrCreate fresh r left a0 = (r1, t) ∧
        Ext r r1 ∧ Closed r1 ∧ r1.kid left a0 = some t ∧ Keeps r r1 := by
      unfold findOrCreate
      cases hk : r.kid left a0 with
      | some t => exact ⟨r, t, rfl, Ext.refl r, hc, hk, Keeps.refl r⟩
      | none =>
        obtain ⟨e, c, k⟩ := newKid_spec r left a0 (fresh r) hl (hf r) hk hc
        exact ⟨_, _, rfl, e, c, k, ⟨fun root hr hi => newKid_pathInj r left a0 (fresh r) root hl (hf r) hk hc hr hi⟩⟩
    obtain ⟨r1, t, heq, he1, hc1, hk1, hk⟩ := step1
    have hl1 : r1.alive left = true := (he1 left hl).1
    have ht1 : r1.alive t = true := hc1 left hl1 a0 t hk1
    have s2 := mergeT_spec fresh hf r1 t ht1 hc1 c0
    have k2 := mergeT_keeps hf r1 t ht1 hc1 c0
    have hl2 : (mergeT fresh r1 t c0).1.alive left = true := (s2.ext left hl1).1
    have k3 := mergeKids_keeps hf (mergeT fresh r1 t c0).1 left hl2 s2.closed rest
    rw [mergeKids_cons, heq]
    refine ⟨fun root hr hi => ?_⟩
    have h1 := hk.inj root hr hi
    have hr1 := (he1 root hr).1
    have h2 := k2.inj root hr1 h1
    have hr2 := (s2.ext root hr1).1
    exact k3.inj root hr2 h2
end

#print axioms mergeT_keeps
end MT
end Sodg
