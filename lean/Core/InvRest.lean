import Core.InvData
set_option linter.unusedSectionVars false
namespace Sodg

variable {L D : Type} [DecidableEq L] [Inhabited D]

theorem unread_setPers_stored_of_mem (g : G L D) (ms : List Nat) (hn : ms.Nodup) (v : Nat) (hv : v ∈ ms) (hc : v < cap g)
    (hp : pers g v ≠ .stored) : unread (setPers g v .stored) ms = unread g ms + 1 := by
  unfold unread
  induction ms with
  | nil => cases hv
  | cons m ms ih =>
    simp only [List.nodup_cons] at hn
    by_cases hm : m = v
    · subst hm
      have : ms.filter (fun w => decide (pers (setPers g m .stored) w = .stored)) =
             ms.filter (fun w => decide (pers g w = .stored)) := by
        apply List.filter_congr; intro w hw
        have : m ≠ w := by rintro rfl; exact hn.1 hw
        simp [pers_setPers, this]
      have e1 : pers (setPers g m .stored) m = .stored := by simp [pers_setPers, hc]
      simp only [List.filter_cons, hp, e1, this]
      simp
    · have hv' : v ∈ ms := by simpa [Ne.symm hm] using hv
      have := ih hn.2 hv'
      have e : pers (setPers g v .stored) m = pers g m := by simp [pers_setPers, Ne.symm hm]
      simp only [List.filter_cons, e]
      split <;> simp_all

theorem inv_put (g g' : G L D) (v : Nat) (d) (hi : Inv g) (hpres : tag g v ≠ 0) (h : put g v d = some g') : Inv g' := by
  unfold put at h
  split at h
  next hv =>
    simp only at h
    have hbr := hi.brsz
    have hst := hi.stsz
    have hlt := hi.taglt v hv
    split at h
    next hc =>
      cases h
      have hb2 : 2 ≤ tag g v := by omega
      have hvm := hi.own v hv hb2
      have hnd := hi.nodup _ hb2 hlt
      refine ⟨hbr, by simp [hst], hi.s0, hi.s1, ?_, ?_, ?_, ?_, ?_⟩
      · intro w hw; simpa using hi.taglt w (by simpa using hw)
      · intro c h2 h16 w hw; simpa using hi.memb c h2 h16 w hw
      · intro c h2 h16; exact hi.nodup c h2 h16
      · intro w hw h2; simpa using hi.own w (by simpa using hw) (by simpa using h2)
      · intro c h2 h16
        have hu : unread (incr (setData (setPers g v .stored) v d) (tag g v)) (mem g c)
            = unread (setPers g v .stored) (mem g c) := by
          apply unread_congr; intro x _; simp
        simp only [mem_incr, mem_setData, mem_setPers]
        rw [hu]
        by_cases hcc : tag g v = c
        · subst hcc
          rw [unread_setPers_stored_of_mem g _ hnd v hvm hv hc.1, ← hi.count _ hb2 hlt]
          simp [cnt_incr, hst, hlt]
        · rw [unread_setPers_of_not_mem, ← hi.count c h2 h16]
          · simp [cnt_incr, hcc]
          · intro hm; exact hcc (hi.memb c h2 h16 v hm).2
    next hc =>
      cases h
      refine ⟨hbr, hst, hi.s0, hi.s1, ?_, ?_, ?_, ?_, ?_⟩
      · intro w hw; simpa using hi.taglt w (by simpa using hw)
      · intro c h2 h16 w hw; simpa using hi.memb c h2 h16 w hw
      · intro c h2 h16; exact hi.nodup c h2 h16
      · intro w hw h2; simpa using hi.own w (by simpa using hw) (by simpa using h2)
      · intro c h2 h16
        have hu : unread (setData (setPers g v .stored) v d) (mem g c)
            = unread (setPers g v .stored) (mem g c) := by
          apply unread_congr; intro x _; simp
        simp only [mem_setData, mem_setPers, cnt_setData, cnt_setPers]
        rw [hu, hi.count c h2 h16]
        symm
        apply unread_congr
        intro w hw
        by_cases hvw : v = w
        · subst hvw
          have ht := (hi.memb c h2 h16 v hw).2
          have : pers g v = .stored := by
            by_cases hp : pers g v = .stored
            · exact hp
            · exfalso; apply hc; exact ⟨hp, by omega⟩
          simp [pers_setPers, hv, this]
        · simp [pers_setPers, hvw]
  · cases h

theorem inv_add (g g' : G L D) (v : Nat) (hi : Inv g) (h : add g v = some g') : Inv g' := by
  unfold add at h
  split at h
  next hv =>
    split at h
    next ht =>
      cases h
      have tag' : ∀ w, tag { g with vs := g.vs.setIfInBounds v { (blank : Vertex L D) with branch := 1 } } w =
          if v = w then 1 else tag g w := by
        intro w; unfold tag cap at *; by_cases hw : w < g.vs.size <;> grind [blank]
      have pers' : ∀ w, v ≠ w → pers { g with vs := g.vs.setIfInBounds v { (blank : Vertex L D) with branch := 1 } } w = pers g w := by
        intro w hne; unfold pers; by_cases hw : w < g.vs.size <;> grind
      have hvn : ∀ c, 2 ≤ c → c < 16 → v ∉ mem g c := by
        intro c h2 h16 hm; have := (hi.memb c h2 h16 v hm).2; omega
      refine ⟨hi.brsz, hi.stsz, hi.s0, hi.s1, ?_, ?_, ?_, ?_, ?_⟩
      · intro w hw; rw [tag']; have := hi.taglt w (by simpa [cap] using hw); grind
      · intro c h2 h16 w hw
        have hm := hi.memb c h2 h16 w hw
        have : v ≠ w := by rintro rfl; exact hvn c h2 h16 hw
        refine ⟨by simpa [cap] using hm.1, ?_⟩
        rw [tag']; simp [this]; exact hm.2
      · intro c h2 h16; exact hi.nodup c h2 h16
      · intro w hw h2
        rw [tag'] at h2 ⊢
        by_cases hvw : v = w
        · simp [hvw] at h2
        · simp [hvw] at h2 ⊢; exact hi.own w (by simpa [cap] using hw) h2
      · intro c h2 h16
        show cnt g c = _
        rw [hi.count c h2 h16]; symm
        apply unread_congr; intro w hw
        apply pers'; rintro rfl; exact hvn c h2 h16 hw
    · cases h; exact hi
  · cases h

theorem inv_setEdges (g : G L D) (v : Nat) (e) (hi : Inv g) : Inv (setEdges g v e) := by
  refine ⟨hi.brsz, hi.stsz, hi.s0, hi.s1, ?_, ?_, ?_, ?_, ?_⟩
  · intro w hw; simpa using hi.taglt w (by simpa using hw)
  · intro c h2 h16 w hw; simpa using hi.memb c h2 h16 w hw
  · intro c h2 h16; exact hi.nodup c h2 h16
  · intro w hw h2; simpa using hi.own w (by simpa using hw) (by simpa using h2)
  · intro c h2 h16
    show cnt g c = _
    rw [hi.count c h2 h16]; symm; apply unread_congr; intro x _; simp

theorem firstEmpty_spec (g : G L D) (b : Nat) (h : firstEmpty g = some b) : b < 16 ∧ mem g b = [] := by
  unfold firstEmpty at h
  have := List.find?_some h
  have hm := List.mem_of_find?_eq_some h
  simp at this hm
  exact ⟨hm, this⟩

#print axioms inv_put
#print axioms inv_add
end Sodg
