import Core.TheoremA
import Core.InvData
import Core.RelData
set_option linter.unusedSectionVars false
/-! # The total step: every call on every state, including what a panic leaves behind

`step` (Core/TheoremA.lean) ends at the first panic (`none`) and, like the reference, does not speak about a 15th
group. `stepT` is total: it returns the state the call leaves behind **even when it panics** (the mutations made
before the panic point, as `catch_unwind` sees them) and it transcribes what the code does when no group slot is
free (it goes on with slot 1). It agrees with `step` wherever `step` answers (`stepT_of_step`), so every theorem
about `step` is a theorem about `stepT`; what it adds is the quantifier of C07: **every** call sequence.

* `MS` — the memory-safety invariant: both 16-entry tables have 16 entries, every tag is below 16, every recorded
  member and every stored edge target is below the capacity, no member list is longer than 16 and no vertex has
  more than `N` edges. `ms_stepT`: kept by every call from every such state, panicking or not, valid or not.
* `panics_iff` — in such a state a call panics exactly at an id at or above the capacity, an (N+1)-th label, a 17-th
  member, a first read with a zero counter, or an exhausted allocator; in particular never because an index the
  code computed by itself was out of range. -/
namespace Sodg

variable {L D : Type} [DecidableEq L] [Inhabited D]

/-- `joinGrp` with the state the panicking `push` leaves behind: the tag is already written -/
def joinGrpT (g : G L D) (v b : Nat) : G L D × Bool :=
  if (mem g b).length < 16 then (enroll (pushMem (setTag g v b) b v) v b, true) else (setTag g v b, false)

/-- the group part of `bind`; with no free slot the code goes on with slot 1 (`ours` keeps its value) -/
def bindGrpT (g0 : G L D) (v1 v2 : Nat) : G L D × Bool :=
  if tag g0 v1 = 1 then
    if tag g0 v2 = 1 then
      match firstEmpty g0 with
      | some b => if (joinGrpT g0 v1 b).2 then joinGrpT (joinGrpT g0 v1 b).1 v2 b else joinGrpT g0 v1 b
      | none => joinGrpT (enroll g0 v1 1) v2 1
    else joinGrpT g0 v1 (tag g0 v2)
  else if tag g0 v2 = 1 then joinGrpT g0 v2 (tag g0 v1)
  else (g0, true)

def addT (g : G L D) (v : Nat) : G L D × Bool :=
  match add g v with
  | some g' => (g', true)
  | none => (g, false)

def bindT (g : G L D) (v1 v2 : Nat) (a : L) : G L D × Bool :=
  if v1 < cap g ∧ v2 < cap g then
    if (upsert (edg g v1) a v2).length ≤ g.n then
      bindGrpT (setEdges g v1 (upsert (edg g v1) a v2)) v1 v2
    else (g, false)
  else (g, false)

def putT (g : G L D) (v : Nat) (d : D) : G L D × Bool :=
  if v < cap g then
    if pers g v ≠ .stored ∧ tag g v ≠ 1 then
      (if tag g v < 16 then (incr (setData (setPers g v .stored) v d) (tag g v), true)
       else (setData (setPers g v .stored) v d, false))
    else (setData (setPers g v .stored) v d, true)
  else (g, false)

/-- `data`: the persistence is already *Taken* when the subtraction overflows -/
def dataT (g : G L D) (v : Nat) : G L D × Option (Option D) :=
  if v < cap g then
    match pers g v with
    | .empty => (g, some none)
    | .taken => (g, some (some (dat g v)))
    | .stored =>
      if tag g v = 1 then (setPers g v .taken, some (some (dat g v)))
      else if tag g v < 16 then
        if cnt g (tag g v) = 0 then (setPers g v .taken, none)
        else if cnt g (tag g v) = 1 then (collect (decr (setPers g v .taken) (tag g v)) (tag g v), some (some (dat g v)))
        else (decr (setPers g v .taken) (tag g v), some (some (dat g v)))
      else (setPers g v .taken, none)
  else (g, none)

/-- the total step: the state after the call and its output, `none` = the call panicked -/
def stepT (g : G L D) : Op L D → G L D × Option (Out L D)
  | .add v => let r := addT g v; (r.1, if r.2 then some .unit else none)
  | .bind v1 v2 a => let r := bindT g v1 v2 a; (r.1, if r.2 then some .unit else none)
  | .put v d => let r := putT g v d; (r.1, if r.2 then some .unit else none)
  | .data v => let r := dataT g v; (r.1, r.2.map .data)
  | .kid v a => (g, (kid g v a).map .kid)
  | .kids v => (g, (kids g v).map .kids)
  | .keys => (g, some (.keys (keys g)))
  | .nextId => match nextId g with
    | some (g', i) => (g', some (.id i))
    | none => (g, none)

/-- run any call sequence: the outputs (`none` where a call panicked) and the final state -/
def runT (g : G L D) : List (Op L D) → G L D × List (Option (Out L D))
  | [] => (g, [])
  | op :: ops => let r := runT (stepT g op).1 ops; (r.1, (stepT g op).2 :: r.2)

/-! ### agreement with `step` -/

theorem joinGrpT_of_joinGrp (g g' : G L D) (v b : Nat) (h : joinGrp g v b = some g') : joinGrpT g v b = (g', true) := by
  unfold joinGrp at h; unfold joinGrpT
  split at h
  · rename_i hl; rw [if_pos hl]; cases h; rfl
  · cases h

theorem bindGrpT_of_bindGrp (g g' : G L D) (v1 v2 : Nat) (h : bindGrp g v1 v2 = some g') : bindGrpT g v1 v2 = (g', true) := by
  unfold bindGrp at h; unfold bindGrpT
  by_cases h1 : tag g v1 = 1
  · rw [if_pos h1] at h ⊢
    by_cases h2 : tag g v2 = 1
    · rw [if_pos h2] at h ⊢
      cases hf : firstEmpty g with
      | none => rw [hf] at h; cases h
      | some b =>
        rw [hf] at h
        simp only at h ⊢
        cases hj : joinGrp g v1 b with
        | none => rw [hj] at h; cases h
        | some g1 =>
          rw [hj] at h
          simp only [Option.bind_some] at h
          rw [joinGrpT_of_joinGrp g g1 v1 b hj]
          simp only [if_true]
          exact joinGrpT_of_joinGrp g1 g' v2 b h
    · rw [if_neg h2] at h ⊢; exact joinGrpT_of_joinGrp _ _ _ _ h
  · rw [if_neg h1] at h ⊢
    by_cases h2 : tag g v2 = 1
    · rw [if_pos h2] at h ⊢; exact joinGrpT_of_joinGrp _ _ _ _ h
    · rw [if_neg h2] at h ⊢; cases h; rfl

theorem addT_of_add (g g' : G L D) (v : Nat) (h : add g v = some g') : addT g v = (g', true) := by
  simp [addT, h]

theorem bindT_of_bind (g g' : G L D) (v1 v2 : Nat) (a : L) (h : Sodg.bind g v1 v2 a = some g') :
    bindT g v1 v2 a = (g', true) := by
  unfold Sodg.bind at h; unfold bindT
  by_cases hc : v1 < cap g ∧ v2 < cap g
  · rw [if_pos hc] at h ⊢
    by_cases hl : (upsert (edg g v1) a v2).length ≤ g.n
    · rw [if_pos hl] at h ⊢; exact bindGrpT_of_bindGrp _ _ _ _ h
    · rw [if_neg hl] at h; cases h
  · rw [if_neg hc] at h; cases h

theorem putT_of_put (g g' : G L D) (v : Nat) (d : D) (h : put g v d = some g') : putT g v d = (g', true) := by
  unfold put at h; unfold putT
  by_cases hc : v < cap g
  · rw [if_pos hc] at h ⊢
    simp only at h ⊢
    by_cases hp : pers g v ≠ .stored ∧ tag g v ≠ 1
    · rw [if_pos hp] at h ⊢
      by_cases ht : tag g v < 16
      · rw [if_pos ht] at h ⊢; cases h; rfl
      · rw [if_neg ht] at h; cases h
    · rw [if_neg hp] at h ⊢; cases h; rfl
  · rw [if_neg hc] at h; cases h

theorem dataT_of_data (g : G L D) (v : Nat) (x : G L D × Option D) (h : data g v = some x) :
    dataT g v = (x.1, some x.2) := by
  unfold data at h; unfold dataT
  by_cases hc : v < cap g
  · rw [if_pos hc] at h ⊢
    cases hp : pers g v with
    | empty => rw [hp] at h; simp only at h ⊢; cases h; rfl
    | taken => rw [hp] at h; simp only at h ⊢; cases h; rfl
    | stored =>
      rw [hp] at h
      simp only at h ⊢
      by_cases h1 : tag g v = 1
      · rw [if_pos h1] at h ⊢; cases h; rfl
      · rw [if_neg h1] at h ⊢
        by_cases h16 : tag g v < 16
        · rw [if_pos h16] at h ⊢
          by_cases h0 : cnt g (tag g v) = 0
          · rw [if_pos h0] at h; cases h
          · rw [if_neg h0] at h ⊢
            by_cases hone : cnt g (tag g v) = 1
            · rw [if_pos hone] at h ⊢; cases h; rfl
            · rw [if_neg hone] at h ⊢; cases h; rfl
        · rw [if_neg h16] at h; cases h
  · rw [if_neg hc] at h; cases h

/-- **wherever `step` answers, `stepT` gives the same state and the same output** -/
theorem stepT_of_step (g g' : G L D) (op : Op L D) (o : Out L D) (h : step g op = some (g', o)) :
    stepT g op = (g', some o) := by
  cases op with
  | add v =>
    simp only [step, Option.map_eq_some_iff] at h
    obtain ⟨x, hx, he⟩ := h; cases he
    simp [stepT, addT_of_add _ _ _ hx]
  | bind v1 v2 a =>
    simp only [step, Option.map_eq_some_iff] at h
    obtain ⟨x, hx, he⟩ := h; cases he
    simp [stepT, bindT_of_bind _ _ _ _ _ hx]
  | put v d =>
    simp only [step, Option.map_eq_some_iff] at h
    obtain ⟨x, hx, he⟩ := h; cases he
    simp [stepT, putT_of_put _ _ _ _ hx]
  | data v =>
    simp only [step, Option.map_eq_some_iff] at h
    obtain ⟨x, hx, he⟩ := h; cases he
    simp [stepT, dataT_of_data _ _ _ hx]
  | kid v a =>
    simp only [step, Option.map_eq_some_iff] at h
    obtain ⟨x, hx, he⟩ := h; cases he
    simp [stepT, hx]
  | kids v =>
    simp only [step, Option.map_eq_some_iff] at h
    obtain ⟨x, hx, he⟩ := h; cases he
    simp [stepT, hx]
  | keys => simp only [step, Option.some.injEq] at h; cases h; rfl
  | nextId =>
    simp only [step, Option.map_eq_some_iff] at h
    obtain ⟨x, hx, he⟩ := h; cases he
    simp [stepT, hx]

/-- a whole run that `run` completes is the run of `runT`, call by call -/
theorem runT_of_run (ops : List (Op L D)) : ∀ (g : G L D) (outs : List (Out L D)), run g ops = some outs →
    (runT g ops).2 = outs.map some := by
  induction ops with
  | nil => intro g outs h; simp only [run, Option.some.injEq] at h; subst h; rfl
  | cons op ops ih =>
    intro g outs h
    simp only [run] at h
    cases hs : step g op with
    | none => rw [hs] at h; cases h
    | some x =>
      obtain ⟨g', o⟩ := x
      rw [hs] at h
      simp only [Option.map_eq_some_iff] at h
      obtain ⟨rest, hr, he⟩ := h; subst he
      have e := stepT_of_step g g' op o hs
      simp only [runT, e, List.map_cons, ih g' rest hr]

/-! ### the memory-safety invariant -/

theorem capT_enroll (g : G L D) (v b : Nat) : cap (enroll g v b) = cap g := by unfold enroll; split <;> simp


structure MS (g : G L D) : Prop where
  brsz : g.br.size = 16
  stsz : g.st.size = 16
  taglt : ∀ v, v < cap g → tag g v < 16
  memb : ∀ b, b < 16 → ∀ v ∈ mem g b, v < cap g
  room : ∀ b, b < 16 → (mem g b).length ≤ 16
  tgt : ∀ u, u < cap g → ∀ e ∈ edg g u, e.2 < cap g
  deg : ∀ u, u < cap g → (edg g u).length ≤ g.n

theorem ms_empty (n c : Nat) (hc : 0 < c) : MS (empty n c : G L D) := by
  have t : ∀ v, tag (empty n c : G L D) v = 0 := by
    intro v; unfold tag empty; by_cases hv : v < c <;> simp [hv, blank] <;> rfl
  have e : ∀ v, edg (empty n c : G L D) v = [] := by
    intro v; unfold edg empty; by_cases hv : v < c <;> simp [hv, blank] <;> rfl
  have m : ∀ b, b < 16 → (mem (empty n c : G L D) b = [] ∨ mem (empty n c : G L D) b = [0]) := by
    intro b hb
    by_cases h0 : b = 0
    · subst h0; right; simp [mem, empty]
    · by_cases h1 : b = 1
      · subst h1; right; simp [mem, empty]
      · left; unfold mem empty; grind
  have hcap : cap (empty n c : G L D) = c := by simp [cap, empty]
  refine ⟨by simp [empty], by simp [empty], ?_, ?_, ?_, ?_, ?_⟩
  · intro v _; rw [t]; omega
  · intro b hb v hv; rw [hcap]; rcases m b hb with h | h <;> rw [h] at hv <;> simp at hv; omega
  · intro b hb; rcases m b hb with h | h <;> rw [h] <;> simp
  · intro u _ x hx; rw [e] at hx; cases hx
  · intro u _; rw [e]; simp

/-- a state with the same capacity, tables of the same sizes, tags below 16, members, lengths, edge targets and
    degrees bounded as required -/
theorem MS.of (g g' : G L D) (h : MS g) (hc : cap g' = cap g) (hb : g'.br.size = g.br.size) (hs : g'.st.size = g.st.size)
    (ht : ∀ v, v < cap g → tag g' v < 16) (hm : ∀ b, b < 16 → ∀ v ∈ mem g' b, v < cap g)
    (hr : ∀ b, b < 16 → (mem g' b).length ≤ 16) (he : ∀ u, u < cap g → ∀ e ∈ edg g' u, e.2 < cap g)
    (hd : ∀ u, u < cap g → (edg g' u).length ≤ g'.n) : MS g' :=
  ⟨by rw [hb]; exact h.brsz, by rw [hs]; exact h.stsz, by rw [hc]; exact ht, by rw [hc]; exact hm, hr,
    by rw [hc]; exact he, by rw [hc]; exact hd⟩

theorem ms_setTag (g : G L D) (h : MS g) (v b : Nat) (hb : b < 16) : MS (setTag g v b) := by
  refine MS.of g _ h (by simp) rfl rfl ?_ (by simpa using h.memb) (by simpa using h.room) (by simpa using h.tgt)
    (by simpa using h.deg)
  intro w hw; rw [tag_setTag]; split
  · exact hb
  · exact h.taglt w hw

theorem ms_setPers (g : G L D) (h : MS g) (v : Nat) (p : Pers) : MS (setPers g v p) :=
  MS.of g _ h (by simp) rfl rfl (by simpa using h.taglt) (by simpa using h.memb) (by simpa using h.room)
    (by simpa using h.tgt) (by simpa using h.deg)

theorem ms_setData (g : G L D) (h : MS g) (v : Nat) (d : D) : MS (setData g v d) :=
  MS.of g _ h (by simp) rfl rfl (by simpa using h.taglt) (by simpa using h.memb) (by simpa using h.room)
    (by simpa using h.tgt) (by simpa using h.deg)

theorem ms_incr (g : G L D) (h : MS g) (b : Nat) : MS (incr g b) :=
  MS.of g _ h rfl rfl (by simp) (by simpa using h.taglt) (by simpa using h.memb) (by simpa using h.room)
    (by simpa using h.tgt) (by simpa using h.deg)

theorem ms_decr (g : G L D) (h : MS g) (b : Nat) : MS (decr g b) :=
  MS.of g _ h rfl rfl (by simp) (by simpa using h.taglt) (by simpa using h.memb) (by simpa using h.room)
    (by simpa using h.tgt) (by simpa using h.deg)

theorem ms_setNext (g : G L D) (h : MS g) (k : Nat) : MS (setNext g k) :=
  MS.of g _ h rfl rfl rfl (by simpa using h.taglt) (by simpa using h.memb) (by simpa using h.room)
    (by simpa using h.tgt) (by simpa using h.deg)

theorem ms_enroll (g : G L D) (h : MS g) (v b : Nat) : MS (enroll g v b) := by
  unfold enroll; split
  · exact ms_incr g h b
  · exact h

theorem ms_setEdges (g : G L D) (h : MS g) (v : Nat) (e : List (L × Nat)) (ht : ∀ x ∈ e, x.2 < cap g)
    (hl : e.length ≤ g.n) : MS (setEdges g v e) := by
  refine MS.of g _ h (by simp) rfl rfl (by simpa using h.taglt) (by simpa using h.memb) (by simpa using h.room) ?_ ?_
  · intro u hu x hx; rw [edg_setEdges] at hx; split at hx
    · exact ht x hx
    · exact h.tgt u hu x hx
  · intro u hu; rw [edg_setEdges]; split
    · simpa using hl
    · simpa using h.deg u hu

theorem ms_pushMem (g : G L D) (h : MS g) (b v : Nat) (hv : v < cap g) (hl : (mem g b).length < 16) : MS (pushMem g b v) := by
  refine MS.of g _ h rfl (by simp) rfl (by simpa using h.taglt) ?_ ?_ (by simpa using h.tgt) (by simpa using h.deg)
  · intro c hc w hw; rw [mem_pushMem] at hw; split at hw
    · rcases List.mem_append.1 hw with h1 | h1
      · exact h.memb c hc w h1
      · simp at h1; omega
    · exact h.memb c hc w hw
  · intro c hc; rw [mem_pushMem]; split
    · rename_i hbc; rw [← hbc.1]; simp; omega
    · exact h.room c hc

theorem ms_collect (g : G L D) (h : MS g) (b : Nat) : MS (collect g b) := by
  refine MS.of g _ h (by simp) (by simp) rfl ?_ ?_ ?_ (by simpa using h.tgt) (fun u hu => by rw [edg_collect]; exact h.deg u hu)
  · intro w hw; rw [tag_collect]; split
    · omega
    · exact h.taglt w hw
  · intro c hc w hw; rw [mem_collect] at hw; split at hw
    · cases hw
    · exact h.memb c hc w hw
  · intro c hc; rw [mem_collect]; split
    · simp
    · exact h.room c hc

theorem ms_joinGrpT (g : G L D) (h : MS g) (v b : Nat) (hv : v < cap g) (hb : b < 16) : MS (joinGrpT g v b).1 := by
  unfold joinGrpT; split
  · rename_i hl
    apply ms_enroll
    apply ms_pushMem _ (ms_setTag g h v b hb) b v (by simpa using hv) (by simpa using hl)
  · exact ms_setTag g h v b hb

theorem cap_joinGrpT (g : G L D) (v b : Nat) : cap (joinGrpT g v b).1 = cap g := by
  unfold joinGrpT; split
  · rw [capT_enroll]; simp
  · simp

theorem ms_bindGrpT (g : G L D) (h : MS g) (v1 v2 : Nat) (h1 : v1 < cap g) (h2 : v2 < cap g) : MS (bindGrpT g v1 v2).1 := by
  unfold bindGrpT
  split
  · split
    · split
      · rename_i b hb
        have hb16 := (firstEmpty_spec g b hb).1
        split
        · exact ms_joinGrpT _ (ms_joinGrpT g h v1 b h1 hb16) v2 b (by rw [cap_joinGrpT]; exact h2) hb16
        · exact ms_joinGrpT g h v1 b h1 hb16
      · exact ms_joinGrpT _ (ms_enroll g h v1 1) v2 1 (by rw [capT_enroll]; exact h2) (by omega)
    · exact ms_joinGrpT g h v1 _ h1 (h.taglt v2 h2)
  · split
    · exact ms_joinGrpT g h v2 _ h2 (h.taglt v1 h1)
    · exact h

theorem upsert_tgt (es : List (L × Nat)) (a : L) (t c : Nat) (h : ∀ x ∈ es, x.2 < c) (ht : t < c) :
    ∀ x ∈ upsert es a t, x.2 < c := by
  induction es with
  | nil => intro x hx; simp [upsert] at hx; subst hx; exact ht
  | cons e es ih =>
    obtain ⟨b, u⟩ := e
    intro x hx
    simp only [upsert] at hx
    split at hx
    · rcases List.mem_cons.1 hx with hx | hx
      · subst hx; exact ht
      · exact h x (List.mem_cons_of_mem _ hx)
    · rcases List.mem_cons.1 hx with hx | hx
      · subst hx; exact h (b, u) (List.mem_cons_self ..)
      · exact ih (fun y hy => h y (List.mem_cons_of_mem _ hy)) x hx

theorem ms_addT (g : G L D) (h : MS g) (v : Nat) : MS (addT g v).1 := by
  unfold addT
  cases ha : add g v with
  | none => exact h
  | some g' =>
    simp only
    unfold add at ha
    split at ha
    · rename_i hv
      split at ha
      · cases ha
        have hcap : cap ({ g with vs := g.vs.setIfInBounds v { (blank : Vertex L D) with branch := 1 } } : G L D) = cap g := by
          simp [cap]
        have tg : ∀ w, tag ({ g with vs := g.vs.setIfInBounds v { (blank : Vertex L D) with branch := 1 } } : G L D) w
            = if w = v then 1 else tag g w := by
          intro w; unfold tag cap at *; by_cases hw : w < g.vs.size <;> grind
        have ed : ∀ w, edg ({ g with vs := g.vs.setIfInBounds v { (blank : Vertex L D) with branch := 1 } } : G L D) w
            = if w = v then [] else edg g w := by
          intro w; unfold edg cap blank at *; by_cases hw : w < g.vs.size <;> grind
        refine MS.of g _ h hcap rfl rfl ?_ h.memb h.room ?_ ?_
        · intro w hw; rw [tg]; split
          · omega
          · exact h.taglt w hw
        · intro u hu x hx; rw [ed] at hx; split at hx
          · cases hx
          · exact h.tgt u hu x hx
        · intro u hu; rw [ed]; split
          · simp
          · exact h.deg u hu
      · cases ha; exact h
    · cases ha

theorem ms_bindT (g : G L D) (h : MS g) (v1 v2 : Nat) (a : L) : MS (bindT g v1 v2 a).1 := by
  unfold bindT
  split
  · rename_i hc
    split
    · rename_i hl
      apply ms_bindGrpT _ _ v1 v2 (by simpa using hc.1) (by simpa using hc.2)
      exact ms_setEdges g h v1 _ (upsert_tgt _ a v2 _ (h.tgt v1 hc.1) hc.2) hl
    · exact h
  · exact h

theorem ms_putT (g : G L D) (h : MS g) (v : Nat) (d : D) : MS (putT g v d).1 := by
  unfold putT
  split
  · have h1 := ms_setData _ (ms_setPers g h v .stored) v d
    split
    · split
      · exact ms_incr _ h1 _
      · exact h1
    · exact h1
  · exact h

theorem ms_dataT (g : G L D) (h : MS g) (v : Nat) : MS (dataT g v).1 := by
  unfold dataT
  split
  · split
    · exact h
    · exact h
    · have h1 := ms_setPers g h v .taken
      split
      · exact h1
      · split
        · split
          · exact h1
          · split
            · exact ms_collect _ (ms_decr _ h1 _) _
            · exact ms_decr _ h1 _
        · exact h1
  · exact h

theorem ms_nextId (g g' : G L D) (h : MS g) (i : Nat) (hn : nextId g = some (g', i)) : MS g' := by
  unfold nextId at hn
  split at hn
  · cases hn
  · simp only [Option.some.injEq, Prod.mk.injEq] at hn
    obtain ⟨rfl, _⟩ := hn
    split
    · exact ms_setNext g h _
    · exact h

/-- **every call keeps the memory-safety invariant**, whether it completes or panics, whether it is within the
    limits and preconditions or not -/
theorem ms_stepT (g : G L D) (h : MS g) (op : Op L D) : MS (stepT g op).1 := by
  cases op with
  | add v => exact ms_addT g h v
  | bind v1 v2 a => exact ms_bindT g h v1 v2 a
  | put v d => exact ms_putT g h v d
  | data v => exact ms_dataT g h v
  | kid v a => exact h
  | kids v => exact h
  | keys => exact h
  | nextId =>
    simp only [stepT]
    cases hn : nextId g with
    | none => exact h
    | some x => exact ms_nextId g x.1 h x.2 hn

/-- … hence after **any** call sequence -/
theorem ms_runT (ops : List (Op L D)) : ∀ (g : G L D), MS g → MS (runT g ops).1 := by
  induction ops with
  | nil => intro g h; exact h
  | cons op ops ih => intro g h; exact ih _ (ms_stepT g h op)

theorem cap_bindGrpT (g : G L D) (v1 v2 : Nat) : cap (bindGrpT g v1 v2).1 = cap g := by
  unfold bindGrpT
  repeat' split
  all_goals simp [cap_joinGrpT, capT_enroll]

theorem cap_addT (g : G L D) (v : Nat) : cap (addT g v).1 = cap g := by
  unfold addT
  cases ha : add g v with
  | none => rfl
  | some g' =>
    unfold add at ha; split at ha
    · split at ha <;> cases ha <;> simp [cap]
    · cases ha

theorem cap_bindT (g : G L D) (v1 v2 : Nat) (a : L) : cap (bindT g v1 v2 a).1 = cap g := by
  unfold bindT
  repeat' split
  all_goals simp [cap_bindGrpT]

theorem cap_putT (g : G L D) (v : Nat) (d : D) : cap (putT g v d).1 = cap g := by
  unfold putT
  repeat' split
  all_goals simp

theorem cap_dataT (g : G L D) (v : Nat) : cap (dataT g v).1 = cap g := by
  unfold dataT
  repeat' split
  all_goals simp

/-- the capacity never changes -/
theorem cap_stepT (g : G L D) (op : Op L D) : cap (stepT g op).1 = cap g := by
  cases op with
  | add v => exact cap_addT g v
  | bind v1 v2 a => exact cap_bindT g v1 v2 a
  | put v d => exact cap_putT g v d
  | data v => exact cap_dataT g v
  | kid v a => rfl
  | kids v => rfl
  | keys => rfl
  | nextId =>
    simp only [stepT]
    cases hn : nextId g with
    | none => rfl
    | some x =>
      unfold nextId at hn
      split at hn
      · cases hn
      · simp only [Option.some.injEq] at hn; subst hn; simp only; split <;> simp

/-! ### where a call panics -/

/-- the list a `bind` pushes to that may be full, if any: (list, …) -/
def pushTarget (g : G L D) (v1 v2 : Nat) : Option Nat :=
  if tag g v1 = 1 then
    if tag g v2 = 1 then (if (firstEmpty g).isSome then none else some 1)
    else some (tag g v2)
  else if tag g v2 = 1 then some (tag g v1)
  else none

/-- the explicit list of panic points -/
def Panics (g : G L D) : Op L D → Prop
  | .add v => cap g ≤ v
  | .bind v1 v2 a => cap g ≤ v1 ∨ cap g ≤ v2 ∨ g.n < (upsert (edg g v1) a v2).length ∨
      ∃ b, pushTarget g v1 v2 = some b ∧ 16 ≤ (mem g b).length
  | .put v _ => cap g ≤ v ∨ (pers g v ≠ .stored ∧ tag g v ≠ 1 ∧ 16 ≤ tag g v)
  | .data v => cap g ≤ v ∨ (pers g v = .stored ∧ tag g v ≠ 1 ∧ (16 ≤ tag g v ∨ cnt g (tag g v) = 0))
  | .kid v _ => cap g ≤ v
  | .kids v => cap g ≤ v
  | .keys => False
  | .nextId => ∀ v, v < cap g → ¬ (tag g v = 0 ∧ g.next ≤ v)

theorem joinGrpT_ok (g : G L D) (v b : Nat) : (joinGrpT g v b).2 = true ↔ (mem g b).length < 16 := by
  unfold joinGrpT; split <;> simp_all

theorem memT_enroll (g : G L D) (v b c : Nat) : mem (enroll g v b) c = mem g c := by unfold enroll; split <;> simp

theorem bindGrpT_panics (g : G L D) (v1 v2 : Nat) :
    (bindGrpT g v1 v2).2 = false ↔ ∃ b, pushTarget g v1 v2 = some b ∧ 16 ≤ (mem g b).length := by
  unfold bindGrpT pushTarget
  by_cases h1 : tag g v1 = 1
  · rw [if_pos h1, if_pos h1]
    by_cases h2 : tag g v2 = 1
    · rw [if_pos h2, if_pos h2]
      cases hf : firstEmpty g with
      | some b =>
        have he := (firstEmpty_spec g b hf).2
        have j1 : (joinGrpT g v1 b).2 = true := (joinGrpT_ok g v1 b).2 (by rw [he]; simp)
        have j2 : (joinGrpT (joinGrpT g v1 b).1 v2 b).2 = true := by
          rw [joinGrpT_ok]
          unfold joinGrpT; rw [if_pos (by rw [he]; simp)]
          simp only [memT_enroll, mem_pushMem, mem_setTag, he]
          split <;> simp
        simp [j1, j2]
      | none =>
        simp only [Option.isSome_none, Bool.false_eq_true, if_false, Option.some.injEq, exists_eq_left']
        rw [← Bool.not_eq_true, joinGrpT_ok, memT_enroll]; omega
    · rw [if_neg h2, if_neg h2]
      simp only [Option.some.injEq, exists_eq_left']
      rw [← Bool.not_eq_true, joinGrpT_ok]; omega
  · rw [if_neg h1, if_neg h1]
    by_cases h2 : tag g v2 = 1
    · rw [if_pos h2, if_pos h2]
      simp only [Option.some.injEq, exists_eq_left']
      rw [← Bool.not_eq_true, joinGrpT_ok]; omega
    · rw [if_neg h2, if_neg h2]; simp

theorem pushTarget_setEdges (g : G L D) (v : Nat) (e : List (L × Nat)) (v1 v2 : Nat) :
    pushTarget (setEdges g v e) v1 v2 = pushTarget g v1 v2 := by
  have hf : firstEmpty (setEdges g v e) = firstEmpty g := rfl
  unfold pushTarget; simp only [tag_setEdges, hf]

theorem addT_panics (g : G L D) (v : Nat) : (addT g v).2 = false ↔ cap g ≤ v := by
  unfold addT add
  by_cases hv : v < cap g
  · rw [if_pos hv]
    by_cases ht : tag g v = 0
    · rw [if_pos ht]; simp only [Bool.true_eq_false, false_iff]; omega
    · rw [if_neg ht]; simp only [Bool.true_eq_false, false_iff]; omega
  · rw [if_neg hv]; simp only [true_iff]; omega

theorem bindT_panics (g : G L D) (v1 v2 : Nat) (a : L) : (bindT g v1 v2 a).2 = false ↔
    (cap g ≤ v1 ∨ cap g ≤ v2 ∨ g.n < (upsert (edg g v1) a v2).length ∨
      ∃ b, pushTarget g v1 v2 = some b ∧ 16 ≤ (mem g b).length) := by
  unfold bindT
  by_cases hc : v1 < cap g ∧ v2 < cap g
  · rw [if_pos hc]
    by_cases hl : (upsert (edg g v1) a v2).length ≤ g.n
    · rw [if_pos hl]
      have := bindGrpT_panics (setEdges g v1 (upsert (edg g v1) a v2)) v1 v2
      simp only [pushTarget_setEdges, mem_setEdges] at this
      rw [this]
      constructor
      · intro h; right; right; right; exact h
      · rintro (h | h | h | h)
        · omega
        · omega
        · omega
        · exact h
    · rw [if_neg hl]; simp only [true_iff]; right; right; left; omega
  · rw [if_neg hc]; simp only [true_iff]
    by_cases h1 : v1 < cap g
    · right; left; have : ¬ v2 < cap g := fun h2 => hc ⟨h1, h2⟩; omega
    · left; omega

theorem putT_panics (g : G L D) (v : Nat) (d : D) : (putT g v d).2 = false ↔
    (cap g ≤ v ∨ (pers g v ≠ .stored ∧ tag g v ≠ 1 ∧ 16 ≤ tag g v)) := by
  unfold putT
  by_cases hv : v < cap g
  · rw [if_pos hv]
    by_cases hp : pers g v ≠ .stored ∧ tag g v ≠ 1
    · rw [if_pos hp]
      by_cases ht : tag g v < 16
      · rw [if_pos ht]; simp only [Bool.true_eq_false, false_iff]
        rintro (h | ⟨_, _, h⟩) <;> omega
      · rw [if_neg ht]; simp only [true_iff]; right; exact ⟨hp.1, hp.2, by omega⟩
    · rw [if_neg hp]; simp only [Bool.true_eq_false, false_iff]
      rintro (h | ⟨h1, h2, _⟩)
      · omega
      · exact hp ⟨h1, h2⟩
  · rw [if_neg hv]; simp only [true_iff]; left; omega

theorem dataT_panics (g : G L D) (v : Nat) : (dataT g v).2 = none ↔
    (cap g ≤ v ∨ (pers g v = .stored ∧ tag g v ≠ 1 ∧ (16 ≤ tag g v ∨ cnt g (tag g v) = 0))) := by
  unfold dataT
  by_cases hv : v < cap g
  · rw [if_pos hv]
    cases hp : pers g v with
    | empty => simp; omega
    | taken => simp; omega
    | stored =>
      simp only
      by_cases h1 : tag g v = 1
      · rw [if_pos h1]; simp [h1]; omega
      · rw [if_neg h1]
        by_cases h16 : tag g v < 16
        · rw [if_pos h16]
          by_cases h0 : cnt g (tag g v) = 0
          · rw [if_pos h0]; simp [h0, h1]
          · rw [if_neg h0]
            have : ¬ (cap g ≤ v ∨ (True ∧ tag g v ≠ 1 ∧ (16 ≤ tag g v ∨ cnt g (tag g v) = 0))) := by
              rintro (h | ⟨_, _, h | h⟩) <;> omega
            split <;> simpa using this
        · rw [if_neg h16]; simp only [true_iff]; right; exact ⟨trivial, h1, Or.inl (by omega)⟩
  · rw [if_neg hv]; simp only [true_iff]; left; omega

theorem ite_unit_none {α} (b : Bool) (x : α) : (if b = true then some x else none) = none ↔ b = false := by
  cases b <;> simp

/-- **a call panics exactly at one of the listed points**, in every state -/
theorem panics_iff (g : G L D) (op : Op L D) : (stepT g op).2 = none ↔ Panics g op := by
  cases op with
  | add v => simp only [stepT, Panics, ite_unit_none]; exact addT_panics g v
  | bind v1 v2 a => simp only [stepT, Panics, ite_unit_none]; exact bindT_panics g v1 v2 a
  | put v d => simp only [stepT, Panics, ite_unit_none]; exact putT_panics g v d
  | data v => simp only [stepT, Panics, Option.map_eq_none_iff]; exact dataT_panics g v
  | kid v a =>
    simp only [stepT, Panics, kid]
    by_cases hv : v < cap g <;> simp [hv] <;> omega
  | kids v =>
    simp only [stepT, Panics, kids]
    by_cases hv : v < cap g <;> simp [hv] <;> omega
  | keys => simp [stepT, Panics]
  | nextId =>
    simp only [stepT, Panics]
    unfold nextId
    cases hf : (List.range (cap g)).find? (fun v => decide (tag g v = 0 ∧ g.next ≤ v)) with
    | none =>
      simp only [true_iff]
      intro v hv hc
      have := List.find?_eq_none.1 hf v (by simpa using hv)
      simp at this
      exact absurd hc.2 (by have := this hc.1; omega)
    | some i =>
      simp only [reduceCtorEq, false_iff]
      intro hall
      have hm := List.mem_of_find?_eq_some hf
      have hp := List.find?_some hf
      simp at hm hp
      exact hall i hm hp

/-- in a state that satisfies the memory-safety invariant — every state any call sequence reaches — the tag of a
    slot is never what makes `put` or `data` panic: the indices the code computes itself are in range -/
theorem panics_ms (g : G L D) (h : MS g) (v : Nat) (d : D) :
    ((stepT g (.put v d)).2 = none ↔ cap g ≤ v) ∧
    ((stepT g (.data v)).2 = none ↔ (cap g ≤ v ∨ (pers g v = .stored ∧ tag g v ≠ 1 ∧ cnt g (tag g v) = 0))) := by
  rw [panics_iff, panics_iff]
  simp only [Panics]
  constructor
  · constructor
    · rintro (h1 | ⟨_, _, h3⟩)
      · exact h1
      · by_cases hv : v < cap g
        · have := h.taglt v hv; omega
        · omega
    · intro h1; left; exact h1
  · constructor
    · rintro (h1 | ⟨h2, h3, h4 | h4⟩)
      · left; exact h1
      · by_cases hv : v < cap g
        · have := h.taglt v hv; omega
        · left; omega
      · right; exact ⟨h2, h3, h4⟩
    · rintro (h1 | ⟨h2, h3, h4⟩)
      · left; exact h1
      · right; exact ⟨h2, h3, Or.inr h4⟩

end Sodg
