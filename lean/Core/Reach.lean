import Core.Linked
import Core.ValidB
set_option linter.unusedSectionVars false
/-! Reachable states: the model state, the reference state and the ghost list of bind pairs after a valid
    history, of any length. Every reachable triple satisfies the refinement relation `Rel`, the linkage invariant
    `GI` and the partner invariant `PI` (a grouped vertex has an alive partner of the same group with a recorded
    bind pair). The per-call property theorems are stated on reachable triples. -/
namespace Sodg

variable {L D : Type} [DecidableEq L] [Inhabited D]

inductive Reach (n c : Nat) : G L D → R L D → List (Nat × Nat) → Prop
  | init : Reach n c (empty n c) R.empty []
  | step {g : G L D} {r : R L D} {P : List (Nat × Nat)} (op : Op L D) (g' : G L D) (o : Out L D) :
      Reach n c g r P → OkStep n c r op → Sodg.step g op = some (g', o) →
      Reach n c g' (R.step c r op).1 (pairsStep r P op)

/-- a grouped alive vertex has an alive partner in its group with which it was bound -/
def PI (r : R L D) (P : List (Nat × Nat)) : Prop :=
  ∀ x ∈ r.ids, ∀ k, r.grp x = some k → ∃ y ∈ r.ids, y ≠ x ∧ r.grp y = some k ∧ ((x, y) ∈ P ∨ (y, x) ∈ P)

theorem R.grp_data (r : R L D) (v z : Nat) : (r.data v).grp z = r.grp z := by
  simp only [R.data]; split
  · split
    · rfl
    · split <;> rfl
  · rfl

theorem R.ids_data_sub (r : R L D) (v z : Nat) (hz : z ∈ (r.data v).ids) : z ∈ r.ids := by
  simp only [R.data] at hz
  split at hz
  · split at hz
    · exact hz
    · split at hz
      · simp only [List.mem_filter] at hz; exact hz.1
      · exact hz
  · exact hz

theorem pi_add (r : R L D) (P) (v : Nat) (h : PI r P) : PI (r.add v) (pairsStep r P (.add v)) := by
  by_cases hv : v ∈ r.ids
  · simpa [R.add, hv, pairsStep] using h
  · intro x hx k hk
    simp only [R.add, hv, if_false] at hx hk
    simp only [List.mem_cons] at hx
    rcases hx with rfl | hx
    · simp [upd_get] at hk
    · have hxv : x ≠ v := by rintro rfl; exact hv hx
      simp only [upd_get, hxv, if_false] at hk
      obtain ⟨y, hy, hyx, hgy, hp⟩ := h x hx k hk
      have hyv : y ≠ v := by rintro rfl; exact hv hy
      refine ⟨y, by simp [R.add, hv, hy], hyx, by simp [R.add, hv, upd_get, hyv, hgy], ?_⟩
      simp only [pairsStep, hv, if_false, List.mem_filter, decide_eq_true_eq]
      rcases hp with hp | hp
      · exact Or.inl ⟨hp, hxv, hyv⟩
      · exact Or.inr ⟨hp, hyv, hxv⟩

theorem pi_bind (r : R L D) (P) (v1 v2 : Nat) (a : L) (h : PI r P) (hf : FreshOK r)
    (h1 : v1 ∈ r.ids) (h2 : v2 ∈ r.ids) (hne : v1 ≠ v2) : PI (r.bind v1 v2 a) (pairsStep r P (.bind v1 v2 a)) := by
  intro x hx k hk
  rw [R.ids_bind] at hx
  simp only [pairsStep]
  rw [R.grp_bind] at hk
  -- the old partner, whenever the group of `x` did not change
  have old : r.grp x = some k → (∀ y, r.grp y = some k → (r.bind v1 v2 a).grp y = some k) →
      ∃ y ∈ (r.bind v1 v2 a).ids, y ≠ x ∧ (r.bind v1 v2 a).grp y = some k ∧
        ((x, y) ∈ (v1, v2) :: P ∨ (y, x) ∈ (v1, v2) :: P) := by
    intro hgx keep
    obtain ⟨y, hy, hyx, hgy, hp⟩ := h x hx k hgx
    exact ⟨y, by rw [R.ids_bind]; exact hy, hyx, keep y hgy, hp.imp (List.mem_cons_of_mem _) (List.mem_cons_of_mem _)⟩
  cases g1 : r.grp v1 with
  | none =>
    cases g2 : r.grp v2 with
    | none =>
      simp only [g1, g2] at hk
      by_cases hx2 : x = v2
      · subst hx2
        simp only [upd_get, if_true] at hk
        refine ⟨v1, by rw [R.ids_bind]; exact h1, hne, ?_, Or.inr (by simp)⟩
        rw [R.grp_bind]; simp only [g1, g2, upd_get, hne, if_false, if_true]; exact hk
      · by_cases hx1 : x = v1
        · subst hx1
          simp only [upd_get, hx2, if_false, if_true] at hk
          refine ⟨v2, by rw [R.ids_bind]; exact h2, fun e => hne e.symm, ?_, Or.inl (by simp)⟩
          rw [R.grp_bind]; simp only [g1, g2, upd_get, if_true]; exact hk
        · simp only [upd_get, hx2, hx1, if_false] at hk
          apply old hk
          intro y hgy
          rw [R.grp_bind]; simp only [g1, g2, upd_get]
          have hy2 : y ≠ v2 := by rintro rfl; rw [g2] at hgy; cases hgy
          have hy1 : y ≠ v1 := by rintro rfl; rw [g1] at hgy; cases hgy
          simp [hy1, hy2, hgy]
    | some k0 =>
      simp only [g1, g2] at hk
      by_cases hx1 : x = v1
      · subst hx1
        simp only [upd_get, if_true] at hk
        refine ⟨v2, by rw [R.ids_bind]; exact h2, fun e => hne e.symm, ?_, Or.inl (by simp)⟩
        rw [R.grp_bind]; simp only [g1, g2, upd_get]
        simpa using hk
      · simp only [upd_get, hx1, if_false] at hk
        apply old hk
        intro y hgy
        rw [R.grp_bind]; simp only [g1, g2, upd_get]
        have hy1 : y ≠ v1 := by rintro rfl; rw [g1] at hgy; cases hgy
        simp [hy1, hgy]
  | some k1 =>
    cases g2 : r.grp v2 with
    | none =>
      simp only [g1, g2] at hk
      by_cases hx2 : x = v2
      · subst hx2
        simp only [upd_get, if_true] at hk
        refine ⟨v1, by rw [R.ids_bind]; exact h1, hne, ?_, Or.inr (by simp)⟩
        rw [R.grp_bind]; simp only [g1, g2, upd_get]
        simpa using hk
      · simp only [upd_get, hx2, if_false] at hk
        apply old hk
        intro y hgy
        rw [R.grp_bind]; simp only [g1, g2, upd_get]
        have hy2 : y ≠ v2 := by rintro rfl; rw [g2] at hgy; cases hgy
        simp [hy2, hgy]
    | some k2 =>
      simp only [g1, g2] at hk
      apply old hk
      intro y hgy
      rw [R.grp_bind]; simp only [g1, g2]; exact hgy

theorem pi_data (r : R L D) (P) (v : Nat) (h : PI r P) : PI (r.data v) P := by
  intro x hx k hk
  rw [R.grp_data] at hk
  have hx0 := R.ids_data_sub r v x hx
  obtain ⟨y, hy, hyx, hgy, hp⟩ := h x hx0 k hk
  refine ⟨y, ?_, hyx, by rw [R.grp_data]; exact hgy, hp⟩
  -- `y` is in the group of `x`, which survived: so `y` survives
  apply Classical.byContradiction
  intro hgone
  obtain ⟨hu, k', hk', hky, hlast⟩ := R.data_removes r v y hy hgone
  have hkk : k' = k := by rw [hgy] at hky; cases hky; rfl
  subst hkk
  have := (R.data_collects r v k' hu hk' hlast x).1 hx
  exact this.2 hk

theorem R.step_other (c : Nat) (r : R L D) (op : Op L D)
    (h1 : ∀ v, op ≠ .add v) (h2 : ∀ v1 v2 a, op ≠ .bind v1 v2 a) (h3 : ∀ v, op ≠ .data v) :
    (R.step c r op).1.ids = r.ids ∧ (R.step c r op).1.grp = r.grp := by
  cases op with
  | add v => exact absurd rfl (h1 v)
  | bind v1 v2 a => exact absurd rfl (h2 v1 v2 a)
  | data v => exact absurd rfl (h3 v)
  | put v d => exact ⟨rfl, rfl⟩
  | kid v a => exact ⟨rfl, rfl⟩
  | kids v => exact ⟨rfl, rfl⟩
  | keys => exact ⟨rfl, rfl⟩
  | nextId =>
    simp only [R.step]
    cases h : r.nextId c with
    | none => exact ⟨rfl, rfl⟩
    | some x =>
      obtain ⟨r', id⟩ := x
      simp only [R.nextId] at h
      split at h
      · cases h
      · split at h <;> cases h <;> exact ⟨rfl, rfl⟩

/-- **every reachable triple satisfies the invariants** (induction over the history, any length) -/
theorem Reach.inv {n c : Nat} {g : G L D} {r : R L D} {P : List (Nat × Nat)} (h : Reach n c g r P) :
    Rel g r ∧ cap g = c ∧ g.n = n ∧ GI r P ∧ PI r P := by
  induction h with
  | init =>
    refine ⟨rel_empty n c, by simp [empty, cap], rfl, ?_, ?_⟩
    · intro k v w hv _; simp [InG, R.empty] at hv
    · intro x hx; simp [R.empty] at hx
  | @step g r P op g' o _ ok hs ih =>
    obtain ⟨hr, hc, hn, hgi, hpi⟩ := ih
    obtain ⟨g'', hs', hr', hc', hn'⟩ := rel_step g r op hr (by rw [hc, hn]; exact ok)
    rw [hs] at hs'
    have e : g' = g'' := by cases hs'; rfl
    subst e
    rw [hc] at hr'
    refine ⟨hr', hc'.trans hc, hn'.trans hn, ?_, ?_⟩
    · cases op with
      | add v => exact gi_add r P v hgi
      | bind v1 v2 a => exact gi_bind r P v1 v2 a hgi hr.lt ok.1.p1 ok.1.p2 ok.1.ne
      | data v => exact gi_data r P v hgi
      | put v d => exact hgi
      | kid v a => exact hgi
      | kids v => exact hgi
      | keys => exact hgi
      | nextId =>
        have := R.step_other c r .nextId (by intro v; simp) (by intro _ _ _; simp) (by intro v; simp)
        unfold GI; rw [this.1, this.2]; exact hgi
    · cases op with
      | add v => exact pi_add r P v hpi
      | bind v1 v2 a => exact pi_bind r P v1 v2 a hpi hr.lt ok.1.p1 ok.1.p2 ok.1.ne
      | data v => exact pi_data r P v hpi
      | put v d => exact hpi
      | kid v a => exact hpi
      | kids v => exact hpi
      | keys => exact hpi
      | nextId =>
        have := R.step_other c r .nextId (by intro v; simp) (by intro _ _ _; simp) (by intro v; simp)
        unfold PI; rw [this.1, this.2]; exact hpi

/-- a reachable state never refuses a valid call, and answers as the reference does -/
theorem Reach.next {n c : Nat} {g : G L D} {r : R L D} {P : List (Nat × Nat)} (h : Reach n c g r P)
    (op : Op L D) (ok : OkStep n c r op) :
    ∃ g', Sodg.step g op = some (g', (R.step c r op).2) ∧ Reach n c g' (R.step c r op).1 (pairsStep r P op) := by
  obtain ⟨hr, hc, hn, _, _⟩ := h.inv
  obtain ⟨g', hs, _, _, _⟩ := rel_step g r op hr (by rw [hc, hn]; exact ok)
  rw [hc] at hs
  exact ⟨g', hs, Reach.step op g' _ h ok hs⟩

/-- the alive set of a reachable model state is the reference's -/
theorem Reach.keys {n c : Nat} {g : G L D} {r : R L D} {P : List (Nat × Nat)} (h : Reach n c g r P) :
    Sodg.keys g = r.keys c ∧ ∀ v, v ∈ Sodg.keys g ↔ v ∈ r.ids := by
  obtain ⟨hr, hc, _, _, _⟩ := h.inv
  have e : Sodg.keys g = r.keys (cap g) := by
    unfold Sodg.keys R.keys
    apply List.filter_congr
    intro v hv
    have := hr.alive v
    simp only [List.mem_range] at hv
    simp [this, hv]
  refine ⟨by rw [e, hc], ?_⟩
  intro v
  simp only [Sodg.keys, List.mem_filter, List.mem_range, decide_eq_true_eq]
  exact (hr.alive v).symm

end Sodg
