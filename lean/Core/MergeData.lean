import Core.MergeInj
set_option linter.unusedSectionVars false
/-! Probe v2, C11: the table only holds images of tree paths, distinct tree vertices land on distinct graph
    vertices, and every tree vertex with data ends up with exactly its data — given that label paths from `left`
    are injective in the left graph (it is a tree) and labels are distinct below every tree node. -/
namespace Sodg
namespace MT

variable {L D : Type} [DecidableEq L] [Inhabited D]

mutual
/-- distinct labels below every node -/
def LabelsOK : T L D → Prop
  | .node _ _ kids => LabelsOKK kids
def LabelsOKK : List (L × T L D) → Prop
  | [] => True
  | (a, c) :: rest => klookup rest a = none ∧ LabelsOK c ∧ LabelsOKK rest
end

theorem walk_cons (r : RG L D) (v : Nat) (a : L) (p : List L) (t : Nat) (h : r.kid v a = some t) :
    walk r v (a :: p) = walk r t p := by simp [walk, h]

theorem newKid_data (r : RG L D) (left : Nat) (a : L) (id : Nat) (hid : id ∉ r.ids) (v : Nat) :
    (newKid r left a id).data v = if v = id then none else r.data v := by
  simp [newKid, RG.bind, RG.add, hid, upd]

variable (fresh : RG L D → Nat)

/-- the additional guarantees; `lab` says which first labels the paths may start with (all for a node) -/
structure Spec2 (r : RG L D) (left : Nat) (r' : RG L D) (m : List (Nat × Nat))
    (paths : List L → Option (T L D)) : Prop where
  only : ∀ i u, (i, u) ∈ m → ∃ p c, paths p = some c ∧ c.id = i ∧ walk r' left p = some u
  dataOk : ∀ p c b, paths p = some c → c.data = some b → ∃ u, walk r' left p = some u ∧ r'.data u = some b
  dframe : ∀ v, r'.data v ≠ r.data v → ∃ p c, paths p = some c ∧ walk r' left p = some v

/-- the paths into the kids of a node: first label selects the kid -/
def kidPaths (kids : List (L × T L D)) : List L → Option (T L D)
  | [] => none
  | a :: p => match klookup kids a with
    | none => none
    | some c => c.walk p

theorem walk_node (id : Nat) (d : Option D) (kids : List (L × T L D)) (a : L) (p : List L) :
    (T.node id d kids).walk (a :: p) = kidPaths kids (a :: p) := rfl

mutual
theorem mergeT_spec2 (hf : FreshOk fresh) (r : RG L D) (left : Nat) (hl : r.alive left = true) (hc : Closed r)
    (hi : PathInj r left) : (t : T L D) → LabelsOK t →
    Spec2 r left (mergeT fresh r left t).1 (mergeT fresh r left t).2 t.walk
  | .node id d kids, hlab => by
    -- r1: the state after the optional put
    have key : ∀ r1 : RG L D, Closed r1 → Ext r r1 → r1.alive left = true → PathInj r1 left →
        (∀ v, r1.data v = if v = left ∧ d.isSome then d else r.data v) →
        Spec2 r left (mergeKids fresh r1 left kids).1 ((id, left) :: (mergeKids fresh r1 left kids).2)
          (T.node id d kids).walk := by
      intro r1 hc1 he1 hl1 hi1 hd1
      have sk := mergeKids_spec2 hf r1 left hl1 hc1 hi1 kids hlab
      have s1 := mergeKids_spec fresh hf r1 left hl1 hc1 kids
      have k1 := mergeKids_keeps fresh hf r1 left hl1 hc1 kids
      have hi2 : PathInj (mergeKids fresh r1 left kids).1 left := k1.inj left hl1 hi1
      -- data at `left` is not touched by the kids
      have dleft : (mergeKids fresh r1 left kids).1.data left = r1.data left := by
        apply Classical.byContradiction
        intro hne
        obtain ⟨p, c, hp, hw⟩ := sk.dframe left hne
        cases p with
        | nil => simp [kidPaths] at hp
        | cons a q => have := hi2 (a :: q) [] left hw (by simp [walk]); cases this
      refine ⟨?_, ?_, ?_⟩
      · intro i u hm
        simp only [List.mem_cons, Prod.mk.injEq] at hm
        rcases hm with ⟨rfl, rfl⟩ | hm
        · exact ⟨[], _, rfl, rfl, by simp [walk]⟩
        · obtain ⟨p, c, hp, hid, hw⟩ := sk.only i u hm
          cases p with
          | nil => simp [kidPaths] at hp
          | cons a q => exact ⟨a :: q, c, by rw [walk_node]; exact hp, hid, hw⟩
      · intro p c b hp hb
        cases p with
        | nil =>
          simp only [T.walk, Option.some.injEq] at hp; subst hp
          refine ⟨left, by simp [walk], ?_⟩
          rw [dleft, hd1]
          simp only [T.data] at hb
          simp [hb]
        | cons a q =>
          rw [walk_node] at hp
          exact sk.dataOk (a :: q) c b hp hb
      · intro v hne
        by_cases hv : (mergeKids fresh r1 left kids).1.data v = r1.data v
        · -- then the put changed it
          rw [hv, hd1] at hne
          by_cases hvl : v = left ∧ d.isSome
          · exact ⟨[], _, rfl, by simp [walk, hvl.1]⟩
          · simp [hvl] at hne
        · obtain ⟨p, c, hp, hw⟩ := sk.dframe v hv
          cases p with
          | nil => simp [kidPaths] at hp
          | cons a q => exact ⟨a :: q, c, by rw [walk_node]; exact hp, hw⟩
    cases d with
    | none =>
      have := key r hc (Ext.refl r) hl hi (by intro v; simp)
      simpa [mergeT] using this
    | some b =>
      have := key (r.put left b) (put_closed r left b hc) (put_ext r left b) hl (pathInj_put r left b left hi)
        (by intro v; simp only [RG.put, upd, Option.isSome_some, and_true])
      simpa [mergeT] using this

theorem mergeKids_spec2 (hf : FreshOk fresh) (r : RG L D) (left : Nat) (hl : r.alive left = true) (hc : Closed r)
    (hi : PathInj r left) : (kids : List (L × T L D)) → LabelsOKK kids →
    Spec2 r left (mergeKids fresh r left kids).1 (mergeKids fresh r left kids).2 (kidPaths kids)
  | [], _ => by
    refine ⟨by simp [mergeKids], ?_, ?_⟩
    · intro p c b hp; cases p <;> simp [kidPaths, klookup] at hp
    · intro v hne; simp [mergeKids] at hne
  | (a0, c0) :: rest, hlab => by
    obtain ⟨hfresh0, hlab0, hlabr⟩ := hlab
    -- step 1: find or create
    have step1 : ∃ r1 t, findOrCreate fresh r left a0 = (r1, t) ∧
        Ext r r1 ∧ Closed r1 ∧ r1.kid left a0 = some t ∧ Keeps r r1 ∧
        (∀ v, r1.data v ≠ r.data v → walk r1 left [a0] = some v) := by
      unfold findOrCreate
      cases hk : r.kid left a0 with
      | some t => exact ⟨r, t, rfl, Ext.refl r, hc, hk, Keeps.refl r, fun v h => absurd rfl h⟩
      | none =>
        obtain ⟨e, c, k⟩ := newKid_spec r left a0 (fresh r) hl (hf r) hk hc
        refine ⟨_, _, rfl, e, c, k,
          ⟨fun root hr hi => newKid_pathInj r left a0 (fresh r) root hl (hf r) hk hc hr hi⟩, ?_⟩
        intro v hne
        rw [newKid_data r left a0 (fresh r) ((alive_false_iff _ _).1 (hf r))] at hne
        by_cases hv : v = fresh r
        · subst hv; simp [walk, k]
        · simp [hv] at hne
    obtain ⟨r1, t, heq, he1, hc1, hk1, hkeep1, hd1⟩ := step1
    have hl1 : r1.alive left = true := (he1 left hl).1
    have ht1 : r1.alive t = true := hc1 left hl1 a0 t hk1
    have hi1 : PathInj r1 left := hkeep1.inj left hl hi
    -- tree-likeness below `t`: paths from t are suffixes of paths from left
    have hit : PathInj r1 t := by
      intro p q u hp hq
      have := hi1 (a0 :: p) (a0 :: q) u (by rw [walk_cons r1 left a0 p t hk1]; exact hp)
        (by rw [walk_cons r1 left a0 q t hk1]; exact hq)
      simpa using this
    have s2 := mergeT_spec fresh hf r1 t ht1 hc1 c0
    have s2' := mergeT_spec2 hf r1 t ht1 hc1 hit c0 hlab0
    have k2 := mergeT_keeps fresh hf r1 t ht1 hc1 c0
    have hl2 : (mergeT fresh r1 t c0).1.alive left = true := (s2.ext left hl1).1
    have hi2 : PathInj (mergeT fresh r1 t c0).1 left := k2.inj left hl1 hi1
    have s3 := mergeKids_spec fresh hf (mergeT fresh r1 t c0).1 left hl2 s2.closed rest
    have s3' := mergeKids_spec2 hf (mergeT fresh r1 t c0).1 left hl2 s2.closed hi2 rest hlabr
    have k3 := mergeKids_keeps fresh hf (mergeT fresh r1 t c0).1 left hl2 s2.closed rest
    have hi3 : PathInj (mergeKids fresh (mergeT fresh r1 t c0).1 left rest).1 left := k3.inj left hl2 hi2
    have kid2 : (mergeT fresh r1 t c0).1.kid left a0 = some t := (s2.ext left hl1).2 a0 t hk1
    have kid3 : (mergeKids fresh (mergeT fresh r1 t c0).1 left rest).1.kid left a0 = some t :=
      (s3.ext left hl2).2 a0 t kid2
    have ht2 : (mergeT fresh r1 t c0).1.alive t = true := (s2.ext t ht1).1
    -- a path below c0, lifted to the final state
    have lift : ∀ p u, walk (mergeT fresh r1 t c0).1 t p = some u →
        walk (mergeKids fresh (mergeT fresh r1 t c0).1 left rest).1 left (a0 :: p) = some u := by
      intro p u hw
      rw [walk_cons _ left a0 p t kid3]
      exact walk_mono s2.closed s3.ext p t u ht2 hw
    -- paths of the rest never start with a0
    have restNo : ∀ q, kidPaths rest (a0 :: q) = none := by intro q; simp [kidPaths, hfresh0]
    have pathsEq : ∀ a q, a ≠ a0 → kidPaths ((a0, c0) :: rest) (a :: q) = kidPaths rest (a :: q) := by
      intro a q ha
      have : ¬ a0 = a := fun e => ha e.symm
      simp [kidPaths, klookup, this]
    have pathsA0 : ∀ q, kidPaths ((a0, c0) :: rest) (a0 :: q) = c0.walk q := by intro q; simp [kidPaths, klookup]
    rw [mergeKids_cons, heq]
    refine ⟨?_, ?_, ?_⟩
    · intro i u hm
      simp only [List.mem_append] at hm
      rcases hm with hm | hm
      · obtain ⟨p, c, hp, hid, hw⟩ := s2'.only i u hm
        exact ⟨a0 :: p, c, by rw [pathsA0]; exact hp, hid, lift p u hw⟩
      · obtain ⟨p, c, hp, hid, hw⟩ := s3'.only i u hm
        cases p with
        | nil => simp [kidPaths] at hp
        | cons a q =>
          have ha : a ≠ a0 := by rintro rfl; rw [restNo] at hp; cases hp
          exact ⟨a :: q, c, by rw [pathsEq a q ha]; exact hp, hid, hw⟩
    · intro p c b hp hb
      cases p with
      | nil => simp [kidPaths] at hp
      | cons a q =>
        by_cases ha : a = a0
        · subst ha
          rw [pathsA0] at hp
          obtain ⟨u, hw, hd⟩ := s2'.dataOk q c b hp hb
          refine ⟨u, lift q u hw, ?_⟩
          -- the rest does not overwrite it: its changes are at images of paths with another first label
          apply Classical.byContradiction
          intro hne
          have hne' : (mergeKids fresh (mergeT fresh r1 t c0).1 left rest).1.data u ≠ (mergeT fresh r1 t c0).1.data u := by
            rw [hd]; exact hne
          obtain ⟨p', c', hp', hw'⟩ := s3'.dframe u hne'
          cases p' with
          | nil => simp [kidPaths] at hp'
          | cons a' q' =>
            have := hi3 (a' :: q') (a :: q) u hw' (lift q u hw)
            simp only [List.cons.injEq] at this
            rw [this.1, restNo] at hp'; cases hp'
        · rw [pathsEq a q ha] at hp
          exact s3'.dataOk (a :: q) c b hp hb
    · intro v hne
      by_cases h3 : (mergeKids fresh (mergeT fresh r1 t c0).1 left rest).1.data v = (mergeT fresh r1 t c0).1.data v
      · rw [h3] at hne
        by_cases h2 : (mergeT fresh r1 t c0).1.data v = r1.data v
        · rw [h2] at hne
          -- changed by find-or-create: v is the new vertex, image of the path [a0]
          have hw1 := hd1 v hne
          have hv : v = t := by simp [walk, hk1] at hw1; exact hw1.symm
          subst hv
          exact ⟨[a0], c0, by rw [pathsA0]; rfl, by rw [walk_cons _ left a0 [] v kid3]; simp [walk]⟩
        · obtain ⟨p, c, hp, hw⟩ := s2'.dframe v h2
          exact ⟨a0 :: p, c, by rw [pathsA0]; exact hp, lift p v hw⟩
      · obtain ⟨p, c, hp, hw⟩ := s3'.dframe v h3
        cases p with
        | nil => simp [kidPaths] at hp
        | cons a q =>
          have ha : a ≠ a0 := by rintro rfl; rw [restNo] at hp; cases hp
          exact ⟨a :: q, c, by rw [pathsEq a q ha]; exact hp, hw⟩
end

/-- **C11 (a), complete**: same data; and distinct tree vertices land on distinct graph vertices -/
theorem merge_data_and_injective (hf : FreshOk fresh) (r : RG L D) (left : Nat) (hl : r.alive left = true)
    (hc : Closed r) (hi : PathInj r left) (t : T L D) (hlab : LabelsOK t) :
    let res := mergeT fresh r left t
    (∀ p c b, t.walk p = some c → c.data = some b → ∃ u, walk res.1 left p = some u ∧ res.1.data u = some b) ∧
    (∀ i j u, (i, u) ∈ res.2 → (j, u) ∈ res.2 → i = j) := by
  have s := mergeT_spec2 fresh hf r left hl hc hi t hlab
  have k := mergeT_keeps fresh hf r left hl hc t
  have hi' := k.inj left hl hi
  refine ⟨s.dataOk, ?_⟩
  intro i j u hiu hju
  obtain ⟨p, c, hp, rfl, hw⟩ := s.only i u hiu
  obtain ⟨q, c', hq, rfl, hw'⟩ := s.only j u hju
  have := hi' p q u hw hw'
  subst this
  rw [hp] at hq; cases hq; rfl

/-- the same two statements for the program `merge_rec` run on the reference (via `bridge`) -/
theorem mergeProg_data_and_injective (c : Nat) (h : RightView L D) (t : T L D) (hrep : HRepr h t)
    (hnd : (allIds t).Nodup) (hlab : LabelsOK t) (fuel left : Nat) (r r' : R L D) (m' : Mapped)
    (hl : left ∈ r.ids) (hc : Closed (proj r)) (hi : PathInj (proj r) left)
    (hrun : P.runR (R.step c) (mergeRec h fuel left t.id []) r = some (m', r')) :
    (∀ p ch b, t.walk p = some ch → ch.data = some b → ∃ u, walk (proj r') left p = some u ∧ r'.dat u = some b) ∧
    (∀ i j u, (i, u) ∈ m' → (j, u) ∈ m' → i = j) := by
  obtain ⟨e1, e2, _⟩ := (bridge c h fuel).1 t left [] r m' r' hrep hnd (by simp [mkeys]) hrun
  have g := merge_data_and_injective (freshC c) (freshC_ok c) (proj r) left ((alive_iff _ _).2 hl) hc hi t hlab
  refine ⟨?_, ?_⟩
  · intro p ch b hw hb
    obtain ⟨u, hu, hd⟩ := g.1 p ch b hw hb
    rw [← e1] at hu hd
    exact ⟨u, hu, hd⟩
  · intro i j u hiu hju
    have a1 := (e2 (i, u)).1 hiu
    have a2 := (e2 (j, u)).1 hju
    simp only [List.not_mem_nil, false_or] at a1 a2
    exact g.2 i j u a1 a2

#print axioms mergeProg_data_and_injective
end MT
end Sodg
