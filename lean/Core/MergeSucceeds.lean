import Core.MergeAssembly
set_option linter.unusedSectionVars false
/-! C11, assembly (2): the two-pass program never fails on a tree when it has fuel for the depth of the tree and
    every call it makes is within the limits (in particular every `next_id` finds an absent id) — the only `fail`
    sites of the program are an exhausted fuel and an allocator without a free id. With `two_pass_eq_first_pass`
    this gives: `merge` of a tree returns `Ok`. -/
namespace Sodg
namespace MT
open P

variable {L D : Type} [DecidableEq L] [Inhabited D]

mutual
def T.depth : T L D → Nat
  | .node _ _ kids => depthK kids + 1
def depthK : List (L × T L D) → Nat
  | [] => 0
  | (_, c) :: rest => max c.depth (depthK rest)
end

theorem validRun_bind {σ α β : Type} (stepR : σ → Op L D → σ × Out L D) (Ok : σ → Op L D → Prop)
    (p : Prog (Op L D) (Out L D) α) (f : α → Prog (Op L D) (Out L D) β) :
    ∀ r, ValidRun stepR Ok (p.bind f) r →
      ValidRun stepR Ok p r ∧ ∀ a r', runR stepR p r = some (a, r') → ValidRun stepR Ok (f a) r' := by
  induction p with
  | ret a => intro r hv; exact ⟨trivial, fun a' r' h => by simp [runR] at h; obtain ⟨rfl, rfl⟩ := h; exact hv⟩
  | fail => intro r _; exact ⟨trivial, fun a' r' h => by simp [runR] at h⟩
  | call op k ih =>
    intro r hv
    obtain ⟨hok, hrest⟩ := hv
    obtain ⟨h1, h2⟩ := ih _ _ hrest
    exact ⟨⟨hok, h1⟩, fun a r' h => h2 a r' (by simpa [runR] using h)⟩

theorem secondPass_isSome (c : Nat) (left : Nat) : ∀ (es : List (L × Nat)) (m : Mapped) (r : R L D),
    (runR (R.step c) (secondPass left es m) r).isSome := by
  intro es
  induction es with
  | nil => intro m r; rfl
  | cons e rest ih =>
    intro m r
    obtain ⟨a, to⟩ := e
    simp only [secondPass, runR, R.step]
    cases lookup (r.edg left) a with
    | none => exact ih m r
    | some first =>
      simp only
      cases mlookup m to with
      | none => exact ih m r
      | some second =>
        simp only
        split
        · rfl
        · exact ih m r

def NFT (n c : Nat) (h : RightView L D) (fuel : Nat) : Prop :=
  ∀ (t : T L D) (left : Nat) (m : Mapped) (r : R L D), HRepr h t → t.depth ≤ fuel →
    ValidRun (R.step c) (OkStep n c) (mergeRec2 h fuel left t.id m) r →
    (runR (R.step c) (mergeRec2 h fuel left t.id m) r).isSome

def NFK (n c : Nat) (h : RightView L D) (fuel : Nat) : Prop :=
  ∀ (ks : List (L × T L D)) (left : Nat) (m : Mapped) (r : R L D), HReprK h ks → depthK ks ≤ fuel →
    ValidRun (R.step c) (OkStep n c) (kidsFold2 h fuel left (viewKids ks) m) r →
    (runR (R.step c) (kidsFold2 h fuel left (viewKids ks) m) r).isSome

theorem nfK_of_T (n c : Nat) (h : RightView L D) (fuel : Nat) (hT : NFT n c h fuel) : NFK n c h fuel := by
  intro ks
  induction ks with
  | nil => intro left m r _ _ _; simp [viewKids, kidsFold2, runR]
  | cons e rest ih =>
    intro left m r hrep hdep hv
    obtain ⟨a, ch⟩ := e
    obtain ⟨hrc, hrr⟩ := hrep
    simp only [depthK] at hdep
    have hd1 : ch.depth ≤ fuel := by omega
    have hd2 : depthK rest ≤ fuel := by omega
    -- the continuation after the matched vertex is known
    have cont : ∀ (t : Nat) (r0 : R L D),
        ValidRun (R.step c) (OkStep n c)
          ((mergeRec2 h fuel t ch.id m).bind (afterRec (fun m' => kidsFold2 h fuel left (viewKids rest) m'))) r0 →
        (runR (R.step c) ((mergeRec2 h fuel t ch.id m).bind (afterRec (fun m' => kidsFold2 h fuel left (viewKids rest) m'))) r0).isSome := by
      intro t r0 hv0
      obtain ⟨v1, v2⟩ := validRun_bind _ _ _ _ r0 hv0
      rw [runR_bind]
      have s1 := hT ch t m r0 hrc hd1 v1
      cases h1 : runR (R.step c) (mergeRec2 h fuel t ch.id m) r0 with
      | none => rw [h1] at s1; cases s1
      | some x =>
        obtain ⟨om, r1⟩ := x
        simp only
        cases om with
        | none => rfl
        | some m1 => exact ih left m1 r1 hrr hd2 (v2 (some m1) r1 h1)
    simp only [viewKids, kidsFold2, ValidRun, R.step] at hv
    obtain ⟨_, hv⟩ := hv
    simp only [viewKids, kidsFold2, runR, R.step]
    cases hk : lookup (r.edg left) a with
    | some t => rw [hk] at hv; exact cont t r hv
    | none =>
      rw [hk] at hv
      simp only at hv ⊢
      cases hml : mlookup m ch.id with
      | some t =>
        rw [hml] at hv
        simp only [ValidRun, R.step, runR] at hv ⊢
        exact cont t _ hv.2
      | none =>
        rw [hml] at hv
        simp only [ValidRun, R.step, runR] at hv ⊢
        obtain ⟨hok, hv⟩ := hv
        -- a valid `next_id` finds an absent id
        obtain ⟨i0, hi0, hni0, hpi0⟩ := hok
        have hsome : (r.nextId c).isSome := by
          unfold R.nextId
          have : ((List.range c).find? (fun v => decide (v ∉ r.ids ∧ r.pos ≤ v))).isSome := by
            rw [List.find?_isSome]; exact ⟨i0, by simp [hi0], by simp [hni0, hpi0]⟩
          cases hf : (List.range c).find? (fun v => decide (v ∉ r.ids ∧ r.pos ≤ v)) with
          | none => rw [hf] at this; cases this
          | some j => rfl
        cases hn : r.nextId c with
        | none => rw [hn] at hsome; cases hsome
        | some x =>
          obtain ⟨r1, i⟩ := x
          rw [hn] at hv
          simp only [ValidRun, R.step, runR] at hv ⊢
          exact cont i _ hv.2.2

theorem never_fails (n c : Nat) (h : RightView L D) : ∀ fuel, NFT n c h fuel ∧ NFK n c h fuel := by
  intro fuel
  induction fuel with
  | zero =>
    have hT : NFT n c h 0 := by
      intro t left m r _ hd _
      cases t with
      | node id d kids => simp [T.depth] at hd
    exact ⟨hT, nfK_of_T n c h 0 hT⟩
  | succ fuel ih =>
    obtain ⟨_, ihK⟩ := ih
    have hT : NFT n c h (fuel + 1) := by
      intro t left m r hrep hdep hv
      cases t with
      | node id d kids =>
        obtain ⟨hE, hD, hK⟩ := hrep
        simp only [T.depth] at hdep
        have hdk : depthK kids ≤ fuel := by omega
        simp only [T.id] at hv ⊢
        rw [mergeRec2] at hv ⊢
        split
        · rfl
        next hmapped =>
          rw [if_neg hmapped] at hv
          simp only [hE, hD] at hv ⊢
          have key : ∀ r1, ValidRun (R.step c) (OkStep n c)
              ((kidsFold2 h fuel left (viewKids kids) ((id, left) :: m)).bind (afterKids left (viewKids kids))) r1 →
              (runR (R.step c) ((kidsFold2 h fuel left (viewKids kids) ((id, left) :: m)).bind (afterKids left (viewKids kids))) r1).isSome := by
            intro r1 hv1
            obtain ⟨v1, _⟩ := validRun_bind _ _ _ _ r1 hv1
            rw [runR_bind]
            have s1 := ihK kids left ((id, left) :: m) r1 hK hdk v1
            cases hk : runR (R.step c) (kidsFold2 h fuel left (viewKids kids) ((id, left) :: m)) r1 with
            | none => rw [hk] at s1; cases s1
            | some x =>
              obtain ⟨om, r2⟩ := x
              simp only
              cases om with
              | none => rfl
              | some m2 =>
                simp only [afterKids]
                rw [runR_bind]
                have s2 := secondPass_isSome c left (viewKids kids) m2 r2
                cases hs : runR (R.step c) (secondPass left (viewKids kids) m2) r2 with
                | none => rw [hs] at s2; cases s2
                | some y =>
                  obtain ⟨ok, r3⟩ := y
                  cases ok with
                  | none => rfl
                  | some u => rfl
          cases d with
          | none => simp only [putP, Prog.bind] at hv ⊢; exact key r hv
          | some b => simp only [putP, Prog.bind, ValidRun, runR, R.step] at hv ⊢; exact key _ hv.2
    exact ⟨hT, nfK_of_T n c h (fuel + 1) hT⟩

/-- **merge of a tree succeeds and is the first-pass merge**: with fuel for the depth of the tree and every call
    within the limits, the two-pass run returns a table, and the first-pass run returns the same table and state -/
theorem merge_run_succeeds (n c : Nat) (h : RightView L D) (t : T L D) (hrep : HRepr h t) (hnd : (allIds t).Nodup)
    (hlab : LabelsOK t) (fuel left : Nat) (hf : t.depth ≤ fuel) (r : R L D) (hl : left ∈ r.ids) (hc : Closed (proj r))
    (hv : ValidRun (R.step c) (OkStep n c) (mergeRec2 h fuel left t.id []) r) :
    ∃ m' r', runR (R.step c) (mergeRec2 h fuel left t.id []) r = some (some m', r') ∧
      runR (R.step c) (mergeRec h fuel left t.id []) r = some (m', r') := by
  have hs := (never_fails n c h fuel).1 t left [] r hrep hf hv
  have he := two_pass_eq_first_pass c h t hrep hnd hlab fuel left r hl hc
  cases h1 : runR (R.step c) (mergeRec h fuel left t.id []) r with
  | none => rw [he, h1] at hs; cases hs
  | some x =>
    obtain ⟨m', r'⟩ := x
    exact ⟨m', r', by rw [he, h1]; rfl, rfl⟩

end MT
end Sodg

namespace Sodg
namespace MT
open P

variable {L D : Type} [DecidableEq L] [Inhabited D]

mutual
theorem depth_le_ids : (t : T L D) → t.depth ≤ (allIds t).length
  | .node id d kids => by
    have := depthK_le_ids kids
    simp only [T.depth, allIds, List.length_cons]; omega
theorem depthK_le_ids : (ks : List (L × T L D)) → depthK ks ≤ (allIdsK ks).length
  | [] => by simp [depthK, allIdsK]
  | (a, c) :: rest => by
    have h1 := depth_le_ids c
    have h2 := depthK_le_ids rest
    simp only [depthK, allIdsK, List.length_append]; omega
end

theorem keys_nodup (g : G L D) : (keys g).Nodup := by
  unfold keys; exact List.filter_sublist.nodup List.nodup_range

/-- **C11, end to end on the model**: the right graph `hg` is (the view of) a tree `t` with distinct ids and
    distinct labels below every node, and its present vertices are exactly the ids of the tree; the left graph `g`
    is related to the reference state `r`, `left` is present, edge targets of present vertices are present, and
    every call the merge makes is within the limits. Then `g.merge(&hg, left, t.id)` returns `Ok`, the new state is
    again related to a reference state `r'` — so everything proved about reachable states keeps applying —, `r'` is
    what the first-pass program computes (hence `Props.C11.grafts`, `data_and_injective`, `new_vertices` apply to
    it), everything the left graph had is still there and every labelled path of the tree exists from `left`. -/
theorem merge_of_tree (n c : Nat) (g hg : G L D) (r : R L D) (hrel : RelAt n c g r)
    (t : T L D) (hrep : HRepr (viewOf hg) t) (hnd : (allIds t).Nodup) (hlab : LabelsOK t)
    (hkeys : ∀ v, v ∈ keys hg ↔ v ∈ allIds t) (left : Nat) (hl : left ∈ r.ids) (hc : Closed (proj r))
    (hv : ValidRun (R.step c) (OkStep n c) (mergeRec2 (viewOf hg) (cap hg + 1) left t.id []) r) :
    ∃ g' r' m', merge g hg left t.id = some (g', .ok) ∧ RelAt n c g' r' ∧
      runR (R.step c) (mergeRec (viewOf hg) (cap hg + 1) left t.id []) r = some (m', r') ∧
      Ext (proj r) (proj r') ∧
      (∀ p ch, t.walk p = some ch → ∃ u, walk (proj r') left p = some u ∧ (ch.id, u) ∈ m') := by
  -- ids of the tree are below the capacity of the right graph
  have hlt : ∀ v ∈ allIds t, v < cap hg := by
    intro v hv'
    have := (hkeys v).2 hv'
    simp only [keys, List.mem_filter, List.mem_range] at this
    exact this.1
  have hright : t.id < cap hg := hlt _ (id_mem_allIds t)
  have hdepth : t.depth ≤ cap hg + 1 := by
    have h1 := depth_le_ids t
    have h2 : (allIds t).length ≤ cap hg := by
      have := hnd.length_le_of_subset (l₂ := List.range (cap hg)) (fun v hv' => by simpa using hlt v hv')
      simpa using this
    omega
  obtain ⟨m', r', h2, h1⟩ := merge_run_succeeds n c (viewOf hg) t hrep hnd hlab (cap hg + 1) left hdepth r hl hc hv
  -- the model runs the same program
  have hm := prog_refines n c (mergeRec2 (viewOf hg) (cap hg + 1) left t.id []) g r hrel hv
  rcases hm with ⟨hn, _⟩ | ⟨a, g', r'', hM, hR, hrel'⟩
  · rw [h2] at hn; cases hn
  · rw [h2] at hR
    cases hR
    -- the completeness test of `merge` passes
    have hlen : (mkeys m').length = (keys hg).length := by
      obtain ⟨_, _, e3⟩ := (bridge c (viewOf hg) (cap hg + 1)).1 t left [] r m' r' hrep hnd (by simp [mkeys]) h1
      have sp := (table_spec (R.step c) (viewOf hg) (fun _ => True) (fun _ _ _ _ _ => trivial) (cap hg + 1)).1
        left t.id [] r m' r' trivial h1
      have nd : (mkeys m').Nodup := sp.nodup (by simp [mkeys])
      have p1 : (mkeys m').Perm (keys hg) := by
        rw [List.perm_ext_iff_of_nodup nd (keys_nodup hg)]
        intro v
        rw [e3 v, hkeys v]; simp [mkeys]
      exact p1.length_eq
    have g12 := mergeProg_grafts c (viewOf hg) t hrep hnd (cap hg + 1) left r r' m' hl hc h1
    refine ⟨g', r', m', ?_, hrel', h1, g12.1, g12.2⟩
    unfold merge
    rw [if_pos hright, hM]
    simp only [hlen, if_true]

end MT
end Sodg
