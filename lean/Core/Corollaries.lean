import Core.TheoremA
import Core.Prog
set_option linter.unusedSectionVars false
/-! Probe v2, corollaries: (1) every program over the API (merge, slice rebuild, script deployment) run on the model
    returns what it returns on the reference; (2) the reference's outputs do not depend on the capacity used for
    enumeration, hence neither do the model's (C19). -/
namespace Sodg

variable {L D : Type} [DecidableEq L] [Inhabited D]

/-- the refinement relation at a fixed configuration -/
def RelAt (n c : Nat) (g : G L D) (r : R L D) : Prop := Rel g r ∧ cap g = c ∧ g.n = n

/-- **programs over the API refine**: instance of the generic simulation theorem -/
theorem prog_refines (n c : Nat) {α} (p : P.Prog (Op L D) (Out L D) α) (g : G L D) (r : R L D)
    (h : RelAt n c g r) (hv : P.ValidRun (R.step c) (OkStep n c) p r) :
    (P.runR (R.step c) p r = none ∧ P.runM step p g = none) ∨
    (∃ a g' r', P.runM step p g = some (a, g') ∧ P.runR (R.step c) p r = some (a, r') ∧ RelAt n c g' r') := by
  apply P.simulation step (R.step c) (RelAt n c) (OkStep n c) _ p g r h hv
  intro s r op ⟨hr, hc, hn⟩ ok
  obtain ⟨s', hs, hr', hc', hn'⟩ := rel_step s r op hr (by rw [hc, hn]; exact ok)
  rw [hc] at hs hr'
  exact ⟨s', hs, hr', hc'.trans hc, hn'.trans hn⟩

/-! ### independence of the capacity (C19) -/

/-- all alive ids are below `c` -/
def Below (c : Nat) (r : R L D) : Prop := ∀ v ∈ r.ids, v < c

theorem filter_range_mem (ids : List Nat) (c1 c2 : Nat) (h1 : ∀ v ∈ ids, v < c1) (h2 : ∀ v ∈ ids, v < c2) :
    (List.range c1).filter (fun v => v ∈ ids) = (List.range c2).filter (fun v => v ∈ ids) := by
  -- both equal the filter over range (max c1 c2)
  have key : ∀ c c', c ≤ c' → (∀ v ∈ ids, v < c) →
      (List.range c').filter (fun v => decide (v ∈ ids)) = (List.range c).filter (fun v => decide (v ∈ ids)) := by
    intro c c' hle hb
    obtain ⟨k, rfl⟩ := Nat.exists_eq_add_of_le hle
    induction k with
    | zero => rfl
    | succ k ih =>
      rw [show c + (k + 1) = (c + k) + 1 from rfl, List.range_succ, List.filter_append, ih (by omega)]
      have : (c + k) ∉ ids := fun hm => by have := hb _ hm; omega
      simp [this]
  by_cases hle : c1 ≤ c2
  · exact (key c1 c2 hle h1).symm
  · exact key c2 c1 (by omega) h2

theorem find_range_indep (p : Nat → Bool) (c1 c2 i1 i2 : Nat) (h1 : i1 < c1 ∧ p i1 = true) (h2 : i2 < c2 ∧ p i2 = true) :
    (List.range c1).find? p = (List.range c2).find? p := by
  -- `find?` on `range c` returns the least index satisfying `p`, if one exists below `c`
  have key : ∀ c i, i < c → p i = true → ∃ m, (List.range c).find? p = some m ∧ p m = true ∧ m ≤ i ∧
      ∀ j, j < m → p j = false := by
    intro c
    induction c with
    | zero => intro i hi; omega
    | succ c ih =>
      intro i hi hp
      rw [List.range_succ, List.find?_append]
      by_cases hex : ∃ j, j < c ∧ p j = true
      · obtain ⟨j, hj, hpj⟩ := hex
        obtain ⟨m, hm, hpm, hmj, hmin⟩ := ih j hj hpj
        refine ⟨m, by simp [hm], hpm, ?_, hmin⟩
        by_cases hic : i < c
        · obtain ⟨m', hm', _, hm'i, _⟩ := ih i hic hp
          rw [hm] at hm'; cases hm'; exact hm'i
        · omega
      · have hnone : (List.range c).find? p = none := by
          rw [List.find?_eq_none]; intro x hx; simp only [List.mem_range] at hx
          intro hpx; exact hex ⟨x, hx, hpx⟩
        have hic : i = c := by
          rcases Nat.lt_or_ge i c with h | h
          · exact absurd ⟨i, h, hp⟩ hex
          · omega
        subst hic
        refine ⟨i, by simp [hnone, hp], hp, Nat.le_refl _, ?_⟩
        intro j hj
        cases hpj : p j with
        | false => rfl
        | true => exact absurd ⟨j, hj, hpj⟩ hex
  obtain ⟨m1, e1, p1, _, min1⟩ := key c1 i1 h1.1 h1.2
  obtain ⟨m2, e2, p2, _, min2⟩ := key c2 i2 h2.1 h2.2
  rw [e1, e2]
  congr 1
  rcases Nat.lt_trichotomy m1 m2 with h | h | h
  · have := min2 m1 h; rw [p1] at this; cases this
  · exact h
  · have := min1 m2 h; rw [p2] at this; cases this

/-- one call: same state and same output under two capacities, when the call is valid under both -/
theorem R.step_indep (n1 c1 n2 c2 : Nat) (r : R L D) (op : Op L D) (hb1 : Below c1 r) (hb2 : Below c2 r)
    (ok1 : OkStep n1 c1 r op) (ok2 : OkStep n2 c2 r op) : R.step c1 r op = R.step c2 r op := by
  cases op with
  | keys => simp only [R.step, R.keys]; rw [filter_range_mem r.ids c1 c2 hb1 hb2]
  | nextId =>
    obtain ⟨i1, hi1, hn1, hp1⟩ := ok1
    obtain ⟨i2, hi2, hn2, hp2⟩ := ok2
    have := find_range_indep (fun v => decide (v ∉ r.ids ∧ r.pos ≤ v)) c1 c2 i1 i2
      ⟨hi1, by simp [hn1, hp1]⟩ ⟨hi2, by simp [hn2, hp2]⟩
    simp only [R.step, R.nextId, this]
  | _ => rfl

#print axioms prog_refines
#print axioms R.step_indep
end Sodg
