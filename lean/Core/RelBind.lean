import Core.RelOps
set_option linter.unusedSectionVars false
namespace Sodg

variable {L D : Type} [DecidableEq L] [Inhabited D]

def dedup : List Nat → List Nat
  | [] => []
  | x :: xs => if x ∈ xs then dedup xs else x :: dedup xs

theorem mem_dedup (l : List Nat) (x : Nat) : x ∈ dedup l ↔ x ∈ l := by
  induction l with
  | nil => simp [dedup]
  | cons y ys ih =>
    unfold dedup; split
    · rw [ih]; simp; rintro rfl; assumption
    · simp [ih]

theorem nodup_dedup (l : List Nat) : (dedup l).Nodup := by
  induction l with
  | nil => simp [dedup]
  | cons y ys ih =>
    unfold dedup; split
    · exact ih
    · rename_i hn; exact List.nodup_cons.2 ⟨by rwa [mem_dedup], ih⟩

/-- live reference groups -/
def R.groups (r : R L D) : List Nat := dedup (r.ids.filterMap r.grp)

theorem mem_groups (r : R L D) (k : Nat) : k ∈ r.groups ↔ ∃ v ∈ r.ids, r.grp v = some k := by
  simp [R.groups, mem_dedup, List.mem_filterMap]

theorem members_length (g : G L D) (r : R L D) (h : Rel g r) (v : Nat) (hv : v ∈ r.ids) (k : Nat)
    (hk : r.grp v = some k) : (r.members k).length = (mem g (tag g v)).length := by
  have hb2 : 2 ≤ tag g v := ((h.same v hv v hv).1 ⟨by simp [hk], rfl⟩).1
  have hlt := h.inv.taglt v ((h.alive v).1 hv).1
  have n1 : (r.members k).Nodup := h.nd.filter _
  have n2 := h.inv.nodup _ hb2 hlt
  have e := members_iff g r h v hv k hk
  apply Nat.le_antisymm
  · exact n1.length_le_of_subset (fun w hw => (e w).1 hw)
  · exact n2.length_le_of_subset (fun w hw => (e w).2 hw)

/-- every occupied slot in `S` carries its own live reference group -/
theorem slots_inject (g : G L D) (r : R L D) (h : Rel g r) (S : List Nat) (hS : S.Nodup)
    (hr : ∀ b ∈ S, 2 ≤ b ∧ b < 16 ∧ mem g b ≠ []) :
    ∃ L : List Nat, L.Nodup ∧ L.length = S.length ∧
      ∀ k ∈ L, ∃ b ∈ S, ∃ v ∈ r.ids, tag g v = b ∧ r.grp v = some k := by
  induction S with
  | nil => exact ⟨[], by simp, rfl, by simp⟩
  | cons b S ih =>
    simp only [List.nodup_cons] at hS
    obtain ⟨L, hLn, hLl, hLk⟩ := ih hS.2 (fun c hc => hr c (List.mem_cons_of_mem _ hc))
    obtain ⟨hb2, hb16, hne⟩ := hr b (by simp)
    obtain ⟨v, hvm⟩ := List.exists_mem_of_ne_nil _ hne
    have hmb := h.inv.memb b hb2 hb16 v hvm
    have hv : v ∈ r.ids := (h.alive v).2 ⟨hmb.1, by omega⟩
    obtain ⟨k, hk⟩ : ∃ k, r.grp v = some k := by
      cases hg : r.grp v with
      | none => have := (h.ungr v hv).1 hg; omega
      | some k => exact ⟨k, rfl⟩
    refine ⟨k :: L, List.nodup_cons.2 ⟨?_, hLn⟩, by simp [hLl], ?_⟩
    · intro hkL
      obtain ⟨c, hc, w, hw, htw, hgw⟩ := hLk k hkL
      have := (h.same v hv w hw).1 ⟨by simp [hk], by rw [hk, hgw]⟩
      have : b = c := by omega
      subst this; exact hS.1 hc
    · intro k' hk'
      simp only [List.mem_cons] at hk'
      rcases hk' with rfl | hk'
      · exact ⟨b, by simp, v, hv, hmb.2, hk⟩
      · obtain ⟨c, hc, rest⟩ := hLk k' hk'
        exact ⟨c, List.mem_cons_of_mem _ hc, rest⟩

theorem free_slot (g : G L D) (r : R L D) (h : Rel g r) (hlim : r.groups.length < 14) :
    ∃ b, firstEmpty g = some b ∧ 2 ≤ b ∧ b < 16 ∧ mem g b = [] := by
  have hex : ∃ b, 2 ≤ b ∧ b < 16 ∧ mem g b = [] := by
    apply Classical.byContradiction; intro hno
    have hall : ∀ b ∈ List.range' 2 14, 2 ≤ b ∧ b < 16 ∧ mem g b ≠ [] := by
      intro b hb
      simp [List.mem_range'] at hb
      refine ⟨by omega, by omega, ?_⟩
      intro he; exact hno ⟨b, by omega, by omega, he⟩
    obtain ⟨L, hLn, hLl, hLk⟩ := slots_inject g r h _ (List.nodup_range' (step := 1) (by omega)) hall
    have hsub : L ⊆ r.groups := by
      intro k hk
      obtain ⟨_, _, v, hv, _, hg⟩ := hLk k hk
      exact (mem_groups r k).2 ⟨v, hv, hg⟩
    have := hLn.length_le_of_subset hsub
    simp at hLl
    omega
  obtain ⟨b0, h2, h16, he⟩ := hex
  have : (firstEmpty g).isSome := by
    unfold firstEmpty
    rw [List.find?_isSome]
    exact ⟨b0, by simp [h16], by simp [he]⟩
  obtain ⟨b, hb⟩ := Option.isSome_iff_exists.1 this
  have sp := firstEmpty_spec g b hb
  refine ⟨b, hb, ?_, sp.1, sp.2⟩
  have s0 := h.inv.s0
  have s1 := h.inv.s1
  apply Classical.byContradiction; intro hlt
  have : b = 0 ∨ b = 1 := by omega
  rcases this with rfl | rfl
  · rw [sp.2] at s0; cases s0
  · rw [sp.2] at s1; cases s1

#print axioms free_slot
#print axioms members_length
end Sodg
