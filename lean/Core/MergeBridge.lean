import Core.MergeTree
set_option linter.unusedSectionVars false
/-! Probe v2, C11 bridge: run on the reference, `merge_rec` (the program of `MergeProg`) applied to the view of an
    inductive tree with distinct ids never takes the `mapped` shortcuts and computes exactly the tree-recursive
    `mergeT` of `MergeTree` — so `merge_grafts` speaks about what the program does. -/
namespace Sodg
namespace MT
open P

variable {L D : Type} [DecidableEq L] [Inhabited D]

/-- what `merge` sees of the reference -/
def proj (r : R L D) : RG L D := ⟨r.ids, r.edg, r.dat, r.pos⟩

/-- the allocator of the reference, as a function of the projected state (with a dead fallback so that it is total) -/
def freshC (c : Nat) (g : RG L D) : Nat :=
  match (List.range c).find? (fun v => decide (v ∉ g.ids ∧ g.pos ≤ v)) with
  | some i => i
  | none => g.ids.foldl max 0 + 1

theorem le_foldl_max (l : List Nat) (a x : Nat) (h : x ∈ l ∨ x ≤ a) : x ≤ l.foldl max a := by
  induction l generalizing a with
  | nil => simpa using h
  | cons y ys ih =>
    simp only [List.foldl_cons]
    apply ih
    rcases h with h | h
    · simp only [List.mem_cons] at h
      rcases h with rfl | h
      · right; exact Nat.le_max_right _ _
      · left; exact h
    · right; exact Nat.le_trans h (Nat.le_max_left _ _)

theorem freshC_ok (c : Nat) : FreshOk (freshC (L := L) (D := D) c) := by
  intro g
  rw [alive_false_iff]
  unfold freshC
  split
  next i hf => have := List.find?_some hf; simp at this; exact this.1
  · intro hm
    have := le_foldl_max g.ids 0 _ (Or.inl hm)
    omega

/-! commutation of the calls with the projection -/
theorem proj_put (r : R L D) (v : Nat) (d : D) : proj (r.put v d) = (proj r).put v d := rfl
theorem proj_bind (r : R L D) (v1 v2 : Nat) (a : L) : proj (r.bind v1 v2 a) = (proj r).bind v1 v2 a := by
  unfold R.bind R.bindGrp R.setEdge; simp only; split <;> rfl
theorem proj_add (r : R L D) (v : Nat) : proj (r.add v) = (proj r).add v := by
  unfold R.add RG.add proj; simp only; split <;> rfl
theorem proj_kid (r : R L D) (v : Nat) (a : L) : lookup (r.edg v) a = (proj r).kid v a := rfl

theorem nextId_fresh (c : Nat) (r r' : R L D) (i : Nat) (h : r.nextId c = some (r', i)) :
    i = freshC c (proj r) ∧ proj r' = { proj r with pos := i + 1 } := by
  unfold R.nextId at h
  split at h
  · cases h
  next j hf =>
    have hp := List.find?_some hf
    simp only [decide_eq_true_eq] at hp
    have hi : j = freshC c (proj r) := by unfold freshC proj; simp only; rw [hf]
    split at h <;> cases h
    · exact ⟨hi, rfl⟩
    · omega

/-! the right graph as the view of a tree -/
mutual
def HRepr (h : RightView L D) : T L D → Prop
  | .node id d kids => h.edges id = viewKids kids ∧ h.data id = d ∧ HReprK h kids
def HReprK (h : RightView L D) : List (L × T L D) → Prop
  | [] => True
  | (_, c) :: rest => HRepr h c ∧ HReprK h rest
def viewKids : List (L × T L D) → List (L × Nat)
  | [] => []
  | (a, c) :: rest => (a, c.id) :: viewKids rest
def allIds : T L D → List Nat
  | .node id _ kids => id :: allIdsK kids
def allIdsK : List (L × T L D) → List Nat
  | [] => []
  | (_, c) :: rest => allIds c ++ allIdsK rest
end

theorem id_mem_allIds (t : T L D) : t.id ∈ allIds t := by
  cases t with | node id d kids => simp [allIds, T.id]

theorem mergeT_node (fresh : RG L D → Nat) (r : RG L D) (left id : Nat) (d : Option D) (kids : List (L × T L D)) :
    mergeT fresh r left (.node id d kids) =
      ((mergeKids fresh (match d with | some b => r.put left b | none => r) left kids).1,
       (id, left) :: (mergeKids fresh (match d with | some b => r.put left b | none => r) left kids).2) := by
  cases d <;> simp [mergeT]

/-- the bridge statement for one tree / for the kids of a node -/
def BridgeT (c : Nat) (h : RightView L D) (fuel : Nat) : Prop :=
  ∀ (t : T L D) left m r m' r', HRepr h t → (allIds t).Nodup → (∀ k ∈ allIds t, k ∉ mkeys m) →
    runR (R.step c) (mergeRec h fuel left t.id m) r = some (m', r') →
    proj r' = (mergeT (freshC c) (proj r) left t).1 ∧
    (∀ p, p ∈ m' ↔ (p ∈ m ∨ p ∈ (mergeT (freshC c) (proj r) left t).2)) ∧
    (∀ k, k ∈ mkeys m' ↔ (k ∈ mkeys m ∨ k ∈ allIds t))

def BridgeK (c : Nat) (h : RightView L D) (fuel : Nat) : Prop :=
  ∀ (ks : List (L × T L D)) left m r m' r', HReprK h ks → (allIdsK ks).Nodup → (∀ k ∈ allIdsK ks, k ∉ mkeys m) →
    runR (R.step c) (kidsFold h fuel left (viewKids ks) m) r = some (m', r') →
    proj r' = (mergeKids (freshC c) (proj r) left ks).1 ∧
    (∀ p, p ∈ m' ↔ (p ∈ m ∨ p ∈ (mergeKids (freshC c) (proj r) left ks).2)) ∧
    (∀ k, k ∈ mkeys m' ↔ (k ∈ mkeys m ∨ k ∈ allIdsK ks))

theorem bridgeK_of_T (c : Nat) (h : RightView L D) (fuel : Nat) (hT : BridgeT c h fuel) : BridgeK c h fuel := by
  intro ks
  induction ks with
  | nil =>
    intro left m r m' r' _ _ _ hrun
    simp [viewKids, kidsFold, runR] at hrun
    obtain ⟨rfl, rfl⟩ := hrun
    simp [mergeKids, allIdsK]
  | cons e rest ih =>
    intro left m r m' r' hrep hnd hdis hrun
    obtain ⟨a, ch⟩ := e
    obtain ⟨hrc, hrr⟩ := hrep
    simp only [allIdsK] at hnd hdis
    rw [List.nodup_append] at hnd
    obtain ⟨nd1, nd2, ndx⟩ := hnd
    have hcid : ch.id ∉ mkeys m := hdis _ (List.mem_append_left _ (id_mem_allIds ch))
    -- the continuation, once `matched` and the state after find-or-create are known
    have cont : ∀ matched r0, proj r0 = (findOrCreate (freshC c) (proj r) left a).1 →
        matched = (findOrCreate (freshC c) (proj r) left a).2 →
        runR (R.step c) ((mergeRec h fuel matched ch.id m).bind (fun m1 => kidsFold h fuel left (viewKids rest) m1)) r0
          = some (m', r') →
        proj r' = (mergeKids (freshC c) (proj r) left ((a, ch) :: rest)).1 ∧
        (∀ p, p ∈ m' ↔ (p ∈ m ∨ p ∈ (mergeKids (freshC c) (proj r) left ((a, ch) :: rest)).2)) ∧
        (∀ k, k ∈ mkeys m' ↔ (k ∈ mkeys m ∨ k ∈ allIds ch ++ allIdsK rest)) := by
      intro matched r0 hp0 hm0 hc
      rw [runR_bind] at hc
      cases h1 : runR (R.step c) (mergeRec h fuel matched ch.id m) r0 with
      | none => simp [h1] at hc
      | some x =>
        obtain ⟨m1, r1⟩ := x
        simp only [h1] at hc
        obtain ⟨e1, e2, e3⟩ := hT ch matched m r0 m1 r1 hrc nd1
          (fun k hk => hdis k (List.mem_append_left _ hk)) h1
        have hdis1 : ∀ k ∈ allIdsK rest, k ∉ mkeys m1 := by
          intro k hk hk1
          rcases (e3 k).1 hk1 with h0 | h0
          · exact hdis k (List.mem_append_right _ hk) h0
          · exact ndx k h0 k hk rfl
        obtain ⟨f1, f2, f3⟩ := ih left m1 r1 m' r' hrr nd2 hdis1 hc
        rw [mergeKids_cons, ← hp0, ← hm0, ← e1]
        refine ⟨f1, ?_, ?_⟩
        · intro p
          rw [f2, e2]
          simp only [List.mem_append]
          constructor
          · rintro ((h0 | h0) | h0)
            · exact Or.inl h0
            · exact Or.inr (Or.inl h0)
            · exact Or.inr (Or.inr h0)
          · rintro (h0 | h0 | h0)
            · exact Or.inl (Or.inl h0)
            · exact Or.inl (Or.inr h0)
            · exact Or.inr h0
        · intro k
          rw [f3, e3]
          simp only [List.mem_append]
          constructor
          · rintro ((h0 | h0) | h0)
            · exact Or.inl h0
            · exact Or.inr (Or.inl h0)
            · exact Or.inr (Or.inr h0)
          · rintro (h0 | h0 | h0)
            · exact Or.inl (Or.inl h0)
            · exact Or.inl (Or.inr h0)
            · exact Or.inr h0
    simp only [viewKids, kidsFold, runR, R.step] at hrun
    rw [proj_kid] at hrun
    unfold findOrCreate at cont
    cases hk : (proj r).kid left a with
    | some t =>
      simp only [hk] at hrun cont
      simpa [allIdsK] using cont t r rfl rfl hrun
    | none =>
      simp only [hk] at hrun cont
      have hl : mlookup m ch.id = none := (mlookup_none_iff m ch.id).2 hcid
      simp only [hl, runR, R.step] at hrun
      cases hn : r.nextId c with
      | none => simp [hn, runR] at hrun
      | some x =>
        obtain ⟨r1, i⟩ := x
        simp only [hn, runR, R.step] at hrun
        obtain ⟨hi, hp1⟩ := nextId_fresh c r r1 i hn
        have hp2 : proj ((r1.add i).bind left i a) = newKid (proj r) left a (freshC c (proj r)) := by
          rw [proj_bind, proj_add, hp1, ← hi]; rfl
        simpa [allIdsK] using cont i _ hp2 hi hrun

theorem bridge (c : Nat) (h : RightView L D) : ∀ fuel, BridgeT c h fuel ∧ BridgeK c h fuel := by
  intro fuel
  induction fuel with
  | zero =>
    have hT : BridgeT c h 0 := by
      intro t left m r m' r' _ _ _ hrun; simp [mergeRec, runR] at hrun
    exact ⟨hT, bridgeK_of_T c h 0 hT⟩
  | succ fuel ih =>
    obtain ⟨_, ihK⟩ := ih
    have hT : BridgeT c h (fuel + 1) := by
      intro t left m r m' r' hrep hnd hdis hrun
      cases t with
      | node id d kids =>
        obtain ⟨hE, hD, hK⟩ := hrep
        simp only [allIds, List.nodup_cons] at hnd hdis
        have hid : id ∉ mkeys m := hdis id (by simp)
        have hl : mlookup m id = none := (mlookup_none_iff m id).2 hid
        simp only [T.id] at hrun
        rw [mergeRec] at hrun
        simp only [hl, Option.isSome_none, Bool.false_eq_true, if_false, hE, hD, runR_bind] at hrun
        have hdisK : ∀ k ∈ allIdsK kids, k ∉ mkeys ((id, left) :: m) := by
          intro k hk hk1
          simp only [mkeys, List.map_cons, List.mem_cons] at hk1
          rcases hk1 with rfl | hk1
          · exact hnd.1 hk
          · exact hdis k (List.mem_cons_of_mem _ hk) (by simpa [mkeys] using hk1)
        -- the state after the optional put
        have key : ∀ r1, proj r1 = (match d with | some b => (proj r).put left b | none => proj r) →
            runR (R.step c) (kidsFold h fuel left (viewKids kids) ((id, left) :: m)) r1 = some (m', r') →
            proj r' = (mergeT (freshC c) (proj r) left (.node id d kids)).1 ∧
            (∀ p, p ∈ m' ↔ (p ∈ m ∨ p ∈ (mergeT (freshC c) (proj r) left (.node id d kids)).2)) ∧
            (∀ k, k ∈ mkeys m' ↔ (k ∈ mkeys m ∨ k ∈ id :: allIdsK kids)) := by
          intro r1 hp1 hk1
          obtain ⟨f1, f2, f3⟩ := ihK kids left ((id, left) :: m) r1 m' r' hK hnd.2 hdisK hk1
          have hm : mergeT (freshC c) (proj r) left (.node id d kids) =
              ((mergeKids (freshC c) (proj r1) left kids).1, (id, left) :: (mergeKids (freshC c) (proj r1) left kids).2) := by
            rw [mergeT_node, hp1]
          rw [hm]
          refine ⟨f1, ?_, ?_⟩
          · intro p; rw [f2]; simp only [List.mem_cons]
            constructor
            · rintro ((h0 | h0) | h0)
              · exact Or.inr (Or.inl h0)
              · exact Or.inl h0
              · exact Or.inr (Or.inr h0)
            · rintro (h0 | h0 | h0)
              · exact Or.inl (Or.inr h0)
              · exact Or.inl (Or.inl h0)
              · exact Or.inr h0
          · intro k; rw [f3]; simp only [mkeys, List.map_cons, List.mem_cons]
            constructor
            · rintro ((h0 | h0) | h0)
              · exact Or.inr (Or.inl h0)
              · exact Or.inl h0
              · exact Or.inr (Or.inr h0)
            · rintro (h0 | h0 | h0)
              · exact Or.inl (Or.inr h0)
              · exact Or.inl (Or.inl h0)
              · exact Or.inr h0
        cases d with
        | none =>
          simp only [runR] at hrun
          simpa [allIds] using key r rfl hrun
        | some b =>
          simp only [runR, R.step] at hrun
          simpa [allIds] using key (r.put left b) (proj_put r left b) hrun
    exact ⟨hT, bridgeK_of_T c h (fuel + 1) hT⟩

/-- **C11 (a) paths and (b) nothing lost, for the program**: if `merge_rec`, run on the reference against the view of
    a tree with distinct ids, returns, then every path of the tree exists from `left` and ends in the vertex the table
    assigns, and every vertex and edge the reference had is still there. -/
theorem mergeProg_grafts (c : Nat) (h : RightView L D) (t : T L D) (hrep : HRepr h t) (hnd : (allIds t).Nodup)
    (fuel left : Nat) (r r' : R L D) (m' : Mapped)
    (hl : left ∈ r.ids) (hc : Closed (proj r))
    (hrun : runR (R.step c) (mergeRec h fuel left t.id []) r = some (m', r')) :
    Ext (proj r) (proj r') ∧
    ∀ p ch, t.walk p = some ch → ∃ u, walk (proj r') left p = some u ∧ (ch.id, u) ∈ m' := by
  obtain ⟨e1, e2, _⟩ := (bridge c h fuel).1 t left [] r m' r' hrep hnd (by simp [mkeys]) hrun
  have g := merge_grafts (freshC c) (freshC_ok c) (proj r) left ((alive_iff _ _).2 hl) hc t
  rw [e1]
  refine ⟨g.1, ?_⟩
  intro p ch hw
  obtain ⟨u, hu, hm⟩ := g.2 p ch hw
  exact ⟨u, hu, (e2 _).2 (Or.inr hm)⟩

#print axioms mergeProg_grafts
end MT
end Sodg
