import Core.TheoremA
set_option linter.unusedSectionVars false
/-! The validity predicate of Theorem A as an executable Boolean function, with the proof that the two coincide.
    The generators filter their proposals with `okStepB`, the monitors use it to recognise the histories the
    theorems quantify over. -/
namespace Sodg

variable {L D : Type} [DecidableEq L] [Inhabited D]

def bindOkB (r : R L D) (v1 v2 : Nat) : Bool :=
  decide (v1 ∈ r.ids) && decide (v2 ∈ r.ids) && decide (v1 ≠ v2) &&
  (match r.grp v1, r.grp v2 with
   | none, none => decide (r.groups.length < 14)
   | none, some k => decide ((r.members k).length < 16)
   | some k, none => decide ((r.members k).length < 16)
   | some _, some _ => true)

theorem bindOkB_iff (r : R L D) (v1 v2 : Nat) : bindOkB r v1 v2 = true ↔ BindOk r v1 v2 := by
  unfold bindOkB
  constructor
  · intro h
    simp only [Bool.and_eq_true, decide_eq_true_eq] at h
    obtain ⟨⟨⟨h1, h2⟩, h3⟩, h4⟩ := h
    refine ⟨h1, h2, h3, ?_, ?_, ?_⟩
    · intro a b; rw [a, b] at h4; simpa using h4
    · intro a k b; rw [a, b] at h4; simpa using h4
    · intro a k b; rw [a, b] at h4; simpa using h4
  · intro ⟨h1, h2, h3, h4, h5, h6⟩
    simp only [Bool.and_eq_true, decide_eq_true_eq]
    refine ⟨⟨⟨h1, h2⟩, h3⟩, ?_⟩
    cases a : r.grp v1 <;> cases b : r.grp v2 <;> simp
    · exact h4 a b
    · exact h5 a _ b
    · exact h6 b _ a

def okStepB (n cap : Nat) (r : R L D) : Op L D → Bool
  | .add v => decide (v < cap)
  | .bind v1 v2 a => bindOkB r v1 v2 && decide ((upsert (r.edg v1) a v2).length ≤ n)
  | .put v _ => decide (v ∈ r.ids)
  | .data v => decide (v ∈ r.ids)
  | .kid v _ => decide (v ∈ r.ids)
  | .kids v => decide (v ∈ r.ids)
  | .keys => true
  | .nextId => (List.range cap).any (fun i => decide (i ∉ r.ids ∧ r.pos ≤ i))

theorem okStepB_iff (n cap : Nat) (r : R L D) (op : Op L D) : okStepB n cap r op = true ↔ OkStep n cap r op := by
  cases op with
  | bind v1 v2 a => simp [okStepB, OkStep, bindOkB_iff]
  | nextId =>
    simp only [okStepB, OkStep, List.any_eq_true, List.mem_range, decide_eq_true_eq]
  | _ => simp [okStepB, OkStep]

/-- validity of a whole history, executable -/
def validB (n cap : Nat) (r : R L D) : List (Op L D) → Bool
  | [] => true
  | op :: ops => okStepB n cap r op && validB n cap (R.step cap r op).1 ops

theorem validB_iff (n cap : Nat) (ops : List (Op L D)) : ∀ r : R L D, validB n cap r ops = true ↔ Valid n cap r ops := by
  induction ops with
  | nil => intro r; simp [validB, Valid]
  | cons op ops ih => intro r; simp [validB, Valid, okStepB_iff, ih]

end Sodg
