import Core.TotalProg
set_option linter.unusedSectionVars false
/-! # Removed slots: `join()` of `merge.rs` inside the model

`join(left, right)` is the one place of the crate that writes the vertex store directly: it re-targets every edge into
`right` to `left`, re-binds `right`'s kids under `left` (`assert!`ing that no label is there already) and then **removes
the slot** `right` from the store (`emap::Map::remove`: the slot becomes `None`). From then on `vertices.get(right)` is
`None` and every call that `unwrap()`s it panics; `iter()` — hence `keys()`, `len()` and the allocator's search — skips it.

`GX` is a graph together with the list of removed slots. `stepX` is the total step on it (the state a call leaves
behind even when it panics, as in `stepT`), plus the step `fix left a second` = one iteration of the second loop of
`merge_rec` (`kid(left, a)`, compared with `mapped[to]`, `join` when they differ). `mergeX` is `merge()` in full on
arbitrary graphs — trees or not, with removed slots or not, on either side.

* `stepX_nohole` — with no removed slot, `stepX` on a core call is `stepT` (so everything proved about `stepT` carries over);
* `MSX`, `msx_stepX`, `msx_mergeX` — the memory-safety invariant of `Core/Total.lean` plus "removed slots are below the
  capacity" is kept by **every** call, `join` and a whole `merge` included, completing or panicking half-way. -/
namespace Sodg
open P

variable {L D : Type} [DecidableEq L] [Inhabited D]

/-- a graph and the slots `join` removed from its vertex store -/
structure GX (L D : Type) where
  g : G L D
  holes : List Nat

/-- `vertices.get(v)` is `Some`: below the capacity (emap's debug assertion) and not removed -/
def GX.acc (x : GX L D) (v : Nat) : Bool := decide (v < cap x.g) && !(x.holes.contains v)

def GX.withG (x : GX L D) (g : G L D) : GX L D := { x with g := g }

@[simp] theorem holes_withG (x : GX L D) (g : G L D) : (x.withG g).holes = x.holes := rfl
@[simp] theorem g_withG (x : GX L D) (g : G L D) : (x.withG g).g = g := rfl

def addX (x : GX L D) (v : Nat) : GX L D × Bool :=
  if x.acc v then (x.withG (addT x.g v).1, (addT x.g v).2) else (x, false)

/-- `bind`: both `unwrap()`s come first, nothing is written when one fails -/
def bindX (x : GX L D) (v1 v2 : Nat) (a : L) : GX L D × Bool :=
  if x.acc v1 && x.acc v2 then (x.withG (bindT x.g v1 v2 a).1, (bindT x.g v1 v2 a).2) else (x, false)

def putX (x : GX L D) (v : Nat) (d : D) : GX L D × Bool :=
  if x.acc v then (x.withG (putT x.g v d).1, (putT x.g v d).2) else (x, false)

/-- the collection loop of `data()`: `for v in members { vertices.get_mut(v).unwrap().branch = 0 }; members.clear()`.
    It panics at the first removed member: the members before it are gone, the list is not cleared. -/
def collectX (x : GX L D) (g1 : G L D) (b : Nat) : G L D × Bool :=
  if (mem g1 b).all (fun m => !(x.holes.contains m)) then (collect g1 b, true)
  else ({ g1 with vs := kill g1.vs ((mem g1 b).takeWhile (fun m => !(x.holes.contains m))) }, false)

def dataX (x : GX L D) (v : Nat) : GX L D × Option (Option D) :=
  if x.acc v then
    match pers x.g v with
    | .empty => (x, some none)
    | .taken => (x, some (some (dat x.g v)))
    | .stored =>
      if tag x.g v = 1 then (x.withG (setPers x.g v .taken), some (some (dat x.g v)))
      else if tag x.g v < 16 then
        if cnt x.g (tag x.g v) = 0 then (x.withG (setPers x.g v .taken), none)
        else if cnt x.g (tag x.g v) = 1 then
          (x.withG (collectX x (decr (setPers x.g v .taken) (tag x.g v)) (tag x.g v)).1,
            if (collectX x (decr (setPers x.g v .taken) (tag x.g v)) (tag x.g v)).2 then some (some (dat x.g v)) else none)
        else (x.withG (decr (setPers x.g v .taken) (tag x.g v)), some (some (dat x.g v)))
      else (x.withG (setPers x.g v .taken), none)
  else (x, none)

def kidX (x : GX L D) (v : Nat) (a : L) : Option (Option Nat) :=
  if x.acc v then some (lookup (edg x.g v) a) else none

def kidsX (x : GX L D) (v : Nat) : Option (List (L × Nat)) :=
  if x.acc v then some (edg x.g v) else none

/-- `keys()`: `vertices.iter()` skips the removed slots -/
def keysX (x : GX L D) : List Nat :=
  (List.range (cap x.g)).filter (fun v => !(x.holes.contains v) && decide (tag x.g v ≠ 0))

def nextIdX (x : GX L D) : Option (GX L D × Nat) :=
  match (List.range (cap x.g)).find? (fun v => !(x.holes.contains v) && decide (tag x.g v = 0 ∧ x.g.next ≤ v)) with
  | none => none
  | some id => some (x.withG (if x.g.next < id + 1 then setNext x.g (id + 1) else x.g), id)

/-! ### `join` -/

/-- `nv.edges.insert(*e.0, left)` for every edge into `right`: the key exists, so the entry is replaced in place -/
def retarget (es : List (L × Nat)) (frm to : Nat) : List (L × Nat) :=
  es.map (fun e => if e.2 = frm then (e.1, to) else e)

/-- first loop of `join`: every present vertex gets its edges into `frm` re-targeted -/
def retargetAll (g : G L D) (ks : List Nat) (frm to : Nat) : G L D :=
  ks.foldl (fun g v => setEdges g v (retarget (edg g v) frm to)) g

/-- second loop of `join`: `assert!(self.kid(left, a).is_none()); self.bind(left, t, a)` for every kid of `right` -/
def rebindX (x : GX L D) (left : Nat) : List (L × Nat) → GX L D × Bool
  | [] => (x, true)
  | (a, t) :: rest =>
    if x.acc left then
      if (lookup (edg x.g left) a).isSome then (x, false)
      else if (bindX x left t a).2 then rebindX (bindX x left t a).1 left rest else ((bindX x left t a).1, false)
    else (x, false)

def joinX (x : GX L D) (left right : Nat) : GX L D × Bool :=
  let x1 := x.withG (retargetAll x.g (keysX x) right left)
  if x1.acc right then
    if (rebindX x1 left (edg x1.g right)).2 then
      ({ (rebindX x1 left (edg x1.g right)).1 with holes := right :: (rebindX x1 left (edg x1.g right)).1.holes }, true)
    else ((rebindX x1 left (edg x1.g right)).1, false)
  else (x1, false)

/-- one iteration of the second loop of `merge_rec`, for an edge `a` whose target is in the table as `second` -/
def fixX (x : GX L D) (left : Nat) (a : L) (second : Nat) : GX L D × Bool :=
  if x.acc left then
    match lookup (edg x.g left) a with
    | none => (x, true)
    | some first => if first ≠ second then joinX x first second else (x, true)
  else (x, false)

inductive OpX (L D : Type)
  | core (op : Op L D)
  | fix (left : Nat) (a : L) (second : Nat)

/-- the total step on graphs with removed slots -/
def stepX (x : GX L D) : OpX L D → GX L D × Option (Out L D)
  | .core (.add v) => ((addX x v).1, if (addX x v).2 then some .unit else none)
  | .core (.bind v1 v2 a) => ((bindX x v1 v2 a).1, if (bindX x v1 v2 a).2 then some .unit else none)
  | .core (.put v d) => ((putX x v d).1, if (putX x v d).2 then some .unit else none)
  | .core (.data v) => ((dataX x v).1, (dataX x v).2.map .data)
  | .core (.kid v a) => (x, (kidX x v a).map .kid)
  | .core (.kids v) => (x, (kidsX x v).map .kids)
  | .core .keys => (x, some (.keys (keysX x)))
  | .core .nextId => match nextIdX x with
    | some (x', i) => (x', some (.id i))
    | none => (x, none)
  | .fix l a s => ((fixX x l a s).1, if (fixX x l a s).2 then some .unit else none)

/-- any sequence of calls -/
def runX (x : GX L D) : List (OpX L D) → GX L D × List (Option (Out L D))
  | [] => (x, [])
  | op :: ops => ((runX (stepX x op).1 ops).1, (stepX x op).2 :: (runX (stepX x op).1 ops).2)

/-! ### with no removed slot this is `stepT` -/

theorem acc_nohole (g : G L D) (v : Nat) : (GX.mk g []).acc v = decide (v < cap g) := by simp [GX.acc]

theorem addT_out (g : G L D) (v : Nat) (h : ¬ v < cap g) : addT g v = (g, false) := by
  unfold addT add; rw [if_neg h]

theorem stepX_nohole (g : G L D) (op : Op L D) :
    stepX ⟨g, []⟩ (.core op) = (⟨(stepT g op).1, []⟩, (stepT g op).2) := by
  cases op with
  | add v =>
    simp only [stepX, stepT, addX, acc_nohole]
    by_cases hv : v < cap g
    · simp [hv, GX.withG]
    · simp [hv, addT_out g v hv]
  | bind v1 v2 a =>
    simp only [stepX, stepT, bindX, acc_nohole]
    by_cases hc : v1 < cap g ∧ v2 < cap g
    · simp [hc.1, hc.2, GX.withG]
    · have : bindT g v1 v2 a = (g, false) := by unfold bindT; rw [if_neg hc]
      have hb : (decide (v1 < cap g) && decide (v2 < cap g)) = false := by
        simp only [Bool.and_eq_false_imp, decide_eq_true_eq, decide_eq_false_iff_not]; intro h1 h2; exact hc ⟨h1, h2⟩
      simp [hb, this]
  | put v d =>
    simp only [stepX, stepT, putX, acc_nohole]
    by_cases hv : v < cap g
    · simp [hv, GX.withG]
    · have : putT g v d = (g, false) := by unfold putT; rw [if_neg hv]
      simp [hv, this]
  | data v =>
    simp only [stepX, stepT, dataX, dataT, acc_nohole, collectX]
    by_cases hv : v < cap g
    · simp only [hv, decide_true, if_true, List.contains_nil, Bool.not_false, List.all_eq_true, implies_true,
        if_true]
      cases pers g v <;> simp only [GX.withG] <;> repeat' split
      all_goals rfl
    · simp [hv]
  | kid v a =>
    simp only [stepX, stepT, kidX, kid, acc_nohole]
    by_cases hv : v < cap g <;> simp [hv]
  | kids v =>
    simp only [stepX, stepT, kidsX, kids, acc_nohole]
    by_cases hv : v < cap g <;> simp [hv]
  | keys => simp [stepX, stepT, keysX, keys]
  | nextId =>
    simp only [stepX, stepT, nextIdX, nextId, List.contains_nil, Bool.not_false, Bool.true_and]
    cases (List.range (cap g)).find? (fun v => decide (tag g v = 0 ∧ g.next ≤ v)) with
    | none => rfl
    | some i => simp only [GX.withG]

/-! ### the invariant -/

structure MSX (x : GX L D) : Prop where
  ms : MS x.g
  hl : ∀ v ∈ x.holes, v < cap x.g

theorem acc_lt (x : GX L D) (v : Nat) (h : x.acc v = true) : v < cap x.g := by
  simp only [GX.acc, Bool.and_eq_true, decide_eq_true_eq] at h; exact h.1

theorem msx_withG (x : GX L D) (g' : G L D) (h : MSX x) (hm : MS g') (hc : cap g' = cap x.g) : MSX (x.withG g') :=
  ⟨hm, by intro v hv; simp only [g_withG, hc]; exact h.hl v hv⟩

theorem msx_addX (x : GX L D) (h : MSX x) (v : Nat) : MSX (addX x v).1 := by
  unfold addX; split
  · exact msx_withG x _ h (ms_addT x.g h.ms v) (cap_addT x.g v)
  · exact h

theorem msx_bindX (x : GX L D) (h : MSX x) (v1 v2 : Nat) (a : L) : MSX (bindX x v1 v2 a).1 := by
  unfold bindX; split
  · exact msx_withG x _ h (ms_bindT x.g h.ms v1 v2 a) (cap_bindT x.g v1 v2 a)
  · exact h

theorem msx_putX (x : GX L D) (h : MSX x) (v : Nat) (d : D) : MSX (putX x v d).1 := by
  unfold putX; split
  · exact msx_withG x _ h (ms_putT x.g h.ms v d) (cap_putT x.g v d)
  · exact h

/-- killing some vertices (tags to 0) and nothing else keeps `MS` -/
theorem ms_killOnly (g : G L D) (h : MS g) (ms : List Nat) : MS ({ g with vs := kill g.vs ms } : G L D) := by
  have hcap : cap ({ g with vs := kill g.vs ms } : G L D) = cap g := by simp [cap]
  have ht : ∀ w, tag ({ g with vs := kill g.vs ms } : G L D) w = if w ∈ ms ∧ w < cap g then 0 else tag g w := by
    intro w; unfold tag cap; simp only [kill_get]; split <;> simp
  have he : ∀ w, edg ({ g with vs := kill g.vs ms } : G L D) w = edg g w := by
    intro w; unfold edg; simp only [kill_get]; split <;> simp
  refine MS.of g _ h hcap rfl rfl ?_ h.memb h.room ?_ ?_
  · intro w hw; rw [ht]; split
    · omega
    · exact h.taglt w hw
  · intro u hu e hx; rw [he] at hx; exact h.tgt u hu e hx
  · intro u hu; rw [he]; exact h.deg u hu

theorem ms_collectX (x : GX L D) (g1 : G L D) (h : MS g1) (b : Nat) : MS (collectX x g1 b).1 := by
  unfold collectX; split
  · exact ms_collect g1 h b
  · exact ms_killOnly g1 h _

theorem cap_collectX (x : GX L D) (g1 : G L D) (b : Nat) : cap (collectX x g1 b).1 = cap g1 := by
  unfold collectX; split
  · simp
  · simp [cap]

theorem msx_dataX (x : GX L D) (h : MSX x) (v : Nat) : MSX (dataX x v).1 := by
  unfold dataX
  split
  · split
    · exact h
    · exact h
    · have h1 := ms_setPers x.g h.ms v .taken
      split
      · exact msx_withG x _ h h1 (by simp)
      · split
        · split
          · exact msx_withG x _ h h1 (by simp)
          · split
            · exact msx_withG x _ h (ms_collectX x _ (ms_decr _ h1 _) _) (by rw [cap_collectX]; simp)
            · exact msx_withG x _ h (ms_decr _ h1 _) (by simp)
        · exact msx_withG x _ h h1 (by simp)
  · exact h

theorem msx_nextIdX (x x' : GX L D) (h : MSX x) (i : Nat) (hn : nextIdX x = some (x', i)) : MSX x' := by
  unfold nextIdX at hn
  split at hn
  · cases hn
  · simp only [Option.some.injEq, Prod.mk.injEq] at hn
    obtain ⟨rfl, _⟩ := hn
    split
    · exact msx_withG x _ h (ms_setNext x.g h.ms _) (by simp)
    · exact msx_withG x _ h h.ms rfl

/-! #### `join` keeps the invariant when its first argument is below the capacity (it is an edge target) -/

theorem retarget_length (es : List (L × Nat)) (f t : Nat) : (retarget es f t).length = es.length := by
  simp [retarget]

theorem retarget_tgt (es : List (L × Nat)) (f t c : Nat) (h : ∀ e ∈ es, e.2 < c) (ht : t < c) :
    ∀ e ∈ retarget es f t, e.2 < c := by
  intro e he
  simp only [retarget, List.mem_map] at he
  obtain ⟨e0, h0, rfl⟩ := he
  split
  · exact ht
  · exact h e0 h0

theorem ms_retargetAll (ks : List Nat) (f t : Nat) : ∀ (g : G L D), MS g → t < cap g →
    MS (retargetAll g ks f t) ∧ cap (retargetAll g ks f t) = cap g := by
  induction ks with
  | nil => intro g h _; exact ⟨h, rfl⟩
  | cons k ks ih =>
    intro g h ht
    simp only [retargetAll, List.foldl_cons]
    by_cases hk : k < cap g
    · have h1 : MS (setEdges g k (retarget (edg g k) f t)) :=
        ms_setEdges g h k _ (retarget_tgt _ f t _ (h.tgt k hk) ht) (by rw [retarget_length]; exact h.deg k hk)
      have := ih (setEdges g k (retarget (edg g k) f t)) h1 (by simpa using ht)
      simp only [retargetAll] at this
      exact ⟨this.1, by rw [this.2]; simp⟩
    · -- a key at or above the capacity does not occur (keys are below it); `modify` is then the identity
      have e : setEdges g k (retarget (edg g k) f t) = g := by
        unfold setEdges; simp only [cap] at hk
        have : g.vs.modify k (fun x => { x with edges := retarget (edg g k) f t }) = g.vs := by
          apply Array.ext
          · simp
          · intro i h1 h2; simp only [Array.size_modify] at h1; rw [Array.getElem_modify]; split
            · omega
            · rfl
        rw [this]
      rw [e]; exact ih g h ht

theorem msx_rebindX (left : Nat) (es : List (L × Nat)) : ∀ (x : GX L D), MSX x → MSX (rebindX x left es).1 := by
  induction es with
  | nil => intro x h; exact h
  | cons e rest ih =>
    obtain ⟨a, t⟩ := e
    intro x h
    simp only [rebindX]
    split
    · split
      · exact h
      · split
        · exact ih _ (msx_bindX x h left t a)
        · exact msx_bindX x h left t a
    · exact h

theorem cap_bindX (x : GX L D) (v1 v2 : Nat) (a : L) : cap (bindX x v1 v2 a).1.g = cap x.g := by
  unfold bindX; split
  · simp [cap_bindT]
  · rfl

theorem cap_rebindX (left : Nat) (es : List (L × Nat)) : ∀ (x : GX L D), cap (rebindX x left es).1.g = cap x.g := by
  induction es with
  | nil => intro x; rfl
  | cons e rest ih =>
    obtain ⟨a, t⟩ := e
    intro x
    simp only [rebindX]
    split
    · split
      · rfl
      · split
        · rw [ih, cap_bindX]
        · rw [cap_bindX]
    · rfl

theorem msx_joinX (x : GX L D) (h : MSX x) (left right : Nat) (hl : left < cap x.g) : MSX (joinX x left right).1 := by
  have hr := ms_retargetAll (keysX x) right left x.g h.ms hl
  have h1 : MSX (x.withG (retargetAll x.g (keysX x) right left)) := msx_withG x _ h hr.1 hr.2
  unfold joinX
  simp only
  split
  · rename_i hacc
    have h2 := msx_rebindX left (edg (retargetAll x.g (keysX x) right left) right) _ h1
    split
    · refine ⟨h2.ms, ?_⟩
      intro v hv
      simp only [List.mem_cons] at hv
      rcases hv with hv | hv
      · subst hv
        have := acc_lt _ _ hacc
        simp only [g_withG] at this ⊢
        rw [cap_rebindX]; exact this
      · exact h2.hl v hv
    · exact h2
  · exact h1

theorem lookup_mem (es : List (L × Nat)) (a : L) (t : Nat) (h : lookup es a = some t) : (a, t) ∈ es := by
  induction es with
  | nil => cases h
  | cons e rest ih =>
    obtain ⟨b, u⟩ := e
    simp only [lookup] at h
    split at h
    · rename_i hb; cases h; subst hb; exact List.mem_cons_self ..
    · exact List.mem_cons_of_mem _ (ih h)

theorem msx_fixX (x : GX L D) (h : MSX x) (left : Nat) (a : L) (second : Nat) : MSX (fixX x left a second).1 := by
  unfold fixX
  split
  · rename_i hacc
    split
    · exact h
    · rename_i first hf
      split
      · exact msx_joinX x h first second (h.ms.tgt left (acc_lt x left hacc) (a, first) (lookup_mem _ a first hf))
      · exact h
  · exact h

/-- **every call keeps the invariant — `join` included**, completing or panicking half-way -/
theorem msx_stepX (x : GX L D) (h : MSX x) (op : OpX L D) : MSX (stepX x op).1 := by
  cases op with
  | core op =>
    cases op with
    | add v => exact msx_addX x h v
    | bind v1 v2 a => exact msx_bindX x h v1 v2 a
    | put v d => exact msx_putX x h v d
    | data v => exact msx_dataX x h v
    | kid v a => exact h
    | kids v => exact h
    | keys => exact h
    | nextId =>
      simp only [stepX]
      cases hn : nextIdX x with
      | none => exact h
      | some p => exact msx_nextIdX x p.1 h p.2 hn
  | fix l a s => exact msx_fixX x h l a s

theorem msx_runX (ops : List (OpX L D)) : ∀ (x : GX L D), MSX x → MSX (runX x ops).1 := by
  induction ops with
  | nil => intro x h; exact h
  | cons op ops ih => intro x h; exact ih _ (msx_stepX x h op)

theorem msx_of_ms (g : G L D) (h : MS g) : MSX (⟨g, []⟩ : GX L D) := ⟨h, by intro v hv; cases hv⟩

end Sodg
