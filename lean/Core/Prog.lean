/-! Feasibility probe: client algorithms (merge, slice rebuild, script) as programs over the graph API,
    and the generic simulation theorem that transports a step-wise refinement to every such program. -/
namespace P

universe u
variable {Op Out : Type}

/-- programs over an API: the control flow may depend on the outputs of earlier calls -/
inductive Prog (Op Out : Type) (α : Type) where
  | ret (a : α)
  | call (op : Op) (k : Out → Prog Op Out α)
  | fail                                 -- the client itself panics (`unwrap`, `assert!`)

def Prog.bind {α β} : Prog Op Out α → (α → Prog Op Out β) → Prog Op Out β
  | .ret a, f => f a
  | .call op k, f => .call op (fun o => (k o).bind f)
  | .fail, _ => .fail

instance : Monad (Prog Op Out) where
  pure := .ret
  bind := Prog.bind

def call (op : Op) : Prog Op Out Out := .call op .ret

variable {σ ρ : Type}

/-- concrete interpretation: calls may panic -/
def runM (stepM : σ → Op → Option (σ × Out)) {α} : Prog Op Out α → σ → Option (α × σ)
  | .ret a, s => some (a, s)
  | .fail, _ => none
  | .call op k, s => match stepM s op with
    | none => none
    | some (s', o) => runM stepM (k o) s'

/-- reference interpretation: total -/
def runR (stepR : ρ → Op → ρ × Out) {α} : Prog Op Out α → ρ → Option (α × ρ)
  | .ret a, r => some (a, r)
  | .fail, _ => none
  | .call op k, r => let (r', o) := stepR r op; runR stepR (k o) r'

/-- every call the program makes on the reference is within the limits -/
def ValidRun (stepR : ρ → Op → ρ × Out) (Ok : ρ → Op → Prop) {α} : Prog Op Out α → ρ → Prop
  | .ret _, _ => True
  | .fail, _ => True
  | .call op k, r => Ok r op ∧ ValidRun stepR Ok (k (stepR r op).2) (stepR r op).1

theorem simulation (stepM : σ → Op → Option (σ × Out)) (stepR : ρ → Op → ρ × Out)
    (Rel : σ → ρ → Prop) (Ok : ρ → Op → Prop)
    (hstep : ∀ s r op, Rel s r → Ok r op →
      ∃ s', stepM s op = some (s', (stepR r op).2) ∧ Rel s' (stepR r op).1)
    {α} (p : Prog Op Out α) :
    ∀ s r, Rel s r → ValidRun stepR Ok p r →
      (runR stepR p r = none ∧ runM stepM p s = none) ∨
      (∃ a s' r', runM stepM p s = some (a, s') ∧ runR stepR p r = some (a, r') ∧ Rel s' r') := by
  induction p with
  | ret a => intro s r h _; exact Or.inr ⟨a, s, r, rfl, rfl, h⟩
  | fail => intro s r _ _; exact Or.inl ⟨rfl, rfl⟩
  | call op k ih =>
    intro s r h hv
    obtain ⟨hok, hrest⟩ := hv
    obtain ⟨s', hs, hr⟩ := hstep s r op h hok
    have := ih (stepR r op).2 s' (stepR r op).1 hr hrest
    simp only [runM, runR, hs]
    exact this

#print axioms simulation

-- do-notation works for writing clients
example (a b : Op) : Prog Op Out (Out × Out) := do
  let x ← call a
  let y ← call b
  return (x, y)

end P
