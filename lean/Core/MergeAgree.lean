import Core.MergeHoles
set_option linter.unusedSectionVars false
/-! # `mergeX` extends `merge`: wherever `merge` answers without reaching `join`, `mergeX` gives the same graph

`mergeT` / `merge` (Core/TotalProg.lean, Core/MergeFull.lean) stop with `joined` when `join` would be called; `mergeX`
(Core/MergeHoles.lean) performs it. `mergeX_of_mergeT`: on graphs without removed slots, with every edge target of the right
graph below its capacity (every reachable right graph: `EdgesBelow`), whenever `mergeT` returns `Ok`, `Err missed` or a
panic-free outcome other than `joined`, `mergeX` returns the same left graph, no removed slot and the same outcome. So all
theorems about `merge` on trees (C11, C12) are theorems about `mergeX`, the model of `merge()` in full. -/
namespace P
variable {Op Out σ : Type}

theorem runT_bind (stepT : σ → Op → σ × Option Out) {α β} (p : Prog Op Out α) (f : α → Prog Op Out β) :
    ∀ s, runT stepT (p.bind f) s = match runT stepT p s with
      | (s', none) => (s', none)
      | (s', some a) => runT stepT (f a) s' := by
  induction p with
  | ret a => intro s; rfl
  | fail => intro s; rfl
  | call op k ih =>
    intro s
    simp only [Prog.bind, runT]
    cases hs : stepT s op with
    | mk s' o =>
      cases o with
      | none => rfl
      | some o => exact ih o s'

end P

namespace Sodg
open P

variable {L D : Type} [DecidableEq L] [Inhabited D]

theorem runX_call_core (op : Op L D) {α} (k : Out L D → XProg L D α) (g : G L D) :
    P.runT stepX (.call (.core op) k) ⟨g, []⟩ = match stepT g op with
      | (g1, none) => (⟨g1, []⟩, none)
      | (g1, some o) => P.runT stepX (k o) ⟨g1, []⟩ := by
  simp only [P.runT, stepX_nohole]
  cases stepT g op with
  | mk g1 o => cases o <;> rfl

theorem runT_call (op : Op L D) {α} (k : Out L D → MProg L D α) (g : G L D) :
    P.runT stepT (.call op k) g = match stepT g op with
      | (g1, none) => (g1, none)
      | (g1, some o) => P.runT stepT (k o) g1 := by
  simp only [P.runT]
  cases stepT g op with
  | mk g1 o => cases o <;> rfl

theorem stepT_kid (g : G L D) (left : Nat) (a : L) :
    stepT g (.kid left a) = (g, if left < cap g then some (.kid (lookup (edg g left) a)) else none) := by
  simp only [stepT, kid]; split <;> rfl

theorem acc_nohole' (g : G L D) (v : Nat) (h : v < cap g) : (GX.mk g []).acc v = true := by simp [GX.acc, h]

/-- the second loop: when `merge_rec` finds nothing to join, neither does `mergeRecX`, and nothing changes -/
theorem secondPass_agree (left : Nat) (m : Mapped) (es : List (L × Nat)) : ∀ (g g' : G L D),
    P.runT stepT (secondPass left es m) g = (g', some (some ())) →
    g' = g ∧ P.runT stepX (secondPassX left es m) ⟨g, []⟩ = (⟨g, []⟩, some ()) := by
  induction es with
  | nil => intro g g' h; simp only [secondPass, P.runT, Prod.mk.injEq] at h; exact ⟨h.1.symm, rfl⟩
  | cons e rest ih =>
    obtain ⟨a, to⟩ := e
    intro g g' h
    simp only [secondPass, runT_call, stepT_kid] at h
    by_cases hl : left < cap g
    · rw [if_pos hl] at h
      simp only at h
      simp only [secondPassX]
      cases hm : mlookup m to with
      | none =>
        simp only [runX_call_core, stepT_kid, if_pos hl]
        rw [hm] at h
        cases hk : lookup (edg g left) a with
        | none => rw [hk] at h; exact ih g g' h
        | some first => rw [hk] at h; exact ih g g' h
      | some second =>
        rw [hm] at h
        have hfix : ∀ x, lookup (edg g left) a = x → (x = none ∨ x = some second) →
            stepX (⟨g, []⟩ : GX L D) (.fix left a second) = (⟨g, []⟩, some .unit) := by
          intro x hx hor
          simp only [stepX, fixX, acc_nohole' g left hl, if_true, hx]
          rcases hor with rfl | rfl
          · rfl
          · simp
        cases hk : lookup (edg g left) a with
        | none =>
          rw [hk] at h
          simp only [P.runT, hfix none hk (Or.inl rfl)]
          exact ih g g' h
        | some first =>
          rw [hk] at h
          simp only at h
          by_cases hne : first ≠ second
          · rw [if_pos hne] at h; simp [P.runT] at h
          · rw [if_neg hne] at h
            have : first = second := by simpa using hne
            subst this
            simp only [P.runT, hfix (some first) hk (Or.inr rfl)]
            exact ih g g' h
    · rw [if_neg hl] at h; simp at h

theorem putP_agree (left : Nat) (od : Option D) (g : G L D) :
    P.runT stepX (putPX left od) ⟨g, []⟩ =
      (⟨(P.runT stepT (putP (L := L) left od) g).1, []⟩, (P.runT stepT (putP (L := L) left od) g).2) := by
  cases od with
  | none => rfl
  | some d =>
    simp only [putPX, putP, runX_call_core, runT_call]
    cases stepT g (.put left d) with
    | mk g1 o => cases o <;> rfl

variable (h : G L D) (htgt : ∀ u, ∀ e ∈ edg h u, e.2 < cap h)

/-- statement for `merge_rec` at a given fuel -/
def AgT (fuel : Nat) : Prop :=
  ∀ (left right : Nat) (m : Mapped) (g g' : G L D) (m' : Mapped), right < cap h →
    P.runT stepT (mergeRec2 (viewOf h) fuel left right m) g = (g', some (some m')) →
    P.runT stepX (mergeRecX (viewOfX ⟨h, []⟩) fuel left right m) ⟨g, []⟩ = (⟨g', []⟩, some m')

/-- statement for the loop over the kids at a given fuel -/
def AgK (fuel : Nat) : Prop :=
  ∀ (left : Nat) (es : List (L × Nat)) (m : Mapped) (g g' : G L D) (m' : Mapped), (∀ e ∈ es, e.2 < cap h) →
    P.runT stepT (kidsFold2 (viewOf h) fuel left es m) g = (g', some (some m')) →
    P.runT stepX (kidsFoldX (viewOfX ⟨h, []⟩) fuel left es m) ⟨g, []⟩ = (⟨g', []⟩, some m')

/-- the recursive call followed by the rest of the loop -/
theorem tail_agree (fuel : Nat) (hT : AgT h fuel) (left : Nat) (rest : List (L × Nat)) (to : Nat) (hto : to < cap h)
    (ih : ∀ (m : Mapped) (g g' : G L D) (m' : Mapped),
      P.runT stepT (kidsFold2 (viewOf h) fuel left rest m) g = (g', some (some m')) →
      P.runT stepX (kidsFoldX (viewOfX ⟨h, []⟩) fuel left rest m) ⟨g, []⟩ = (⟨g', []⟩, some m'))
    (t : Nat) (m : Mapped) (g g' : G L D) (m' : Mapped)
    (hr : P.runT stepT ((mergeRec2 (viewOf h) fuel t to m).bind
        (afterRec (fun m' => kidsFold2 (viewOf h) fuel left rest m'))) g = (g', some (some m'))) :
    P.runT stepX ((mergeRecX (viewOfX ⟨h, []⟩) fuel t to m).bind
        (fun m' => kidsFoldX (viewOfX ⟨h, []⟩) fuel left rest m')) ⟨g, []⟩ = (⟨g', []⟩, some m') := by
  rw [P.runT_bind] at hr ⊢
  cases h1 : P.runT stepT (mergeRec2 (viewOf h) fuel t to m) g with
  | mk g1 o =>
    rw [h1] at hr
    cases o with
    | none => simp at hr
    | some om =>
      cases om with
      | none => simp [afterRec, P.runT] at hr
      | some m1 =>
        simp only [afterRec] at hr
        rw [hT t to m g g1 m1 hto h1]
        exact ih m1 g1 g' m' hr

theorem agK_of_agT (fuel : Nat) (hT : AgT h fuel) : AgK h fuel := by
  intro left es
  induction es with
  | nil =>
    intro m g g' m' _ hr
    simp only [kidsFold2, P.runT, Prod.mk.injEq, Option.some.injEq] at hr
    obtain ⟨rfl, rfl⟩ := hr
    simp [kidsFoldX, P.runT]
  | cons e rest ih =>
    obtain ⟨a, to⟩ := e
    intro m g g' m' hes hr
    have hto : to < cap h := hes (a, to) (List.mem_cons_self ..)
    have ih' := fun m g g' m' => ih m g g' m' (fun e he => hes e (List.mem_cons_of_mem _ he))
    have tl := tail_agree h fuel hT left rest to hto ih'
    simp only [kidsFold2, runT_call, stepT_kid] at hr
    simp only [kidsFoldX, runX_call_core, stepT_kid]
    by_cases hl : left < cap g
    · rw [if_pos hl] at hr ⊢
      simp only at hr ⊢
      cases hk : lookup (edg g left) a with
      | some t =>
        rw [hk] at hr; simp only at hr ⊢
        exact tl t m g g' m' hr
      | none =>
        rw [hk] at hr; simp only at hr ⊢
        cases hm : mlookup m to with
        | some t =>
          rw [hm] at hr; simp only at hr ⊢
          rw [runT_call] at hr; rw [runX_call_core]
          cases hs : stepT g (.bind left t a) with
          | mk g1 o =>
            rw [hs] at hr
            cases o with
            | none => simp at hr
            | some o => simp only at hr ⊢; exact tl t m g1 g' m' hr
        | none =>
          rw [hm] at hr; simp only at hr ⊢
          rw [runT_call] at hr; rw [runX_call_core]
          cases hs : stepT g .nextId with
          | mk g1 o =>
            rw [hs] at hr
            cases o with
            | none => simp at hr
            | some o =>
              simp only at hr ⊢
              cases o with
              | id i =>
                simp only at hr ⊢
                rw [runT_call] at hr; rw [runX_call_core]
                cases hs2 : stepT g1 (.add i) with
                | mk g2 o2 =>
                  rw [hs2] at hr
                  cases o2 with
                  | none => simp at hr
                  | some o2 =>
                    simp only at hr ⊢
                    rw [runT_call] at hr; rw [runX_call_core]
                    cases hs3 : stepT g2 (.bind left i a) with
                    | mk g3 o3 =>
                      rw [hs3] at hr
                      cases o3 with
                      | none => simp at hr
                      | some o3 => simp only at hr ⊢; exact tl i m g3 g' m' hr
              | unit => simp [P.runT] at hr
              | data _ => simp [P.runT] at hr
              | kid _ => simp [P.runT] at hr
              | kids _ => simp [P.runT] at hr
              | keys _ => simp [P.runT] at hr
    · rw [if_neg hl] at hr; simp at hr

include htgt in
theorem agT_succ (fuel : Nat) (hK : AgK h fuel) : AgT h (fuel + 1) := by
  intro left right m g g' m' hright hr
  simp only [mergeRec2] at hr
  simp only [mergeRecX]
  by_cases hs : (mlookup m right).isSome = true
  · rw [if_pos hs] at hr ⊢
    simp only [P.runT, Prod.mk.injEq, Option.some.injEq] at hr
    obtain ⟨rfl, rfl⟩ := hr
    rfl
  · rw [if_neg hs] at hr ⊢
    have hacc : (viewOfX (⟨h, []⟩ : GX L D)).accv right = true := acc_nohole' h right hright
    rw [if_pos hacc]
    rw [P.runT_bind] at hr ⊢
    have hd : (viewOfX (⟨h, []⟩ : GX L D)).data right = (viewOf h).data right := rfl
    have he : (viewOfX (⟨h, []⟩ : GX L D)).edges right = (viewOf h).edges right := rfl
    rw [hd, he, putP_agree]
    cases h1 : P.runT stepT (putP (L := L) left ((viewOf h).data right)) g with
    | mk g1 o =>
      rw [h1] at hr
      cases o with
      | none => simp at hr
      | some u =>
        simp only at hr ⊢
        rw [P.runT_bind] at hr ⊢
        cases h2 : P.runT stepT (kidsFold2 (viewOf h) fuel left ((viewOf h).edges right) ((right, left) :: m)) g1 with
        | mk g2 o2 =>
          rw [h2] at hr
          cases o2 with
          | none => simp at hr
          | some om =>
            cases om with
            | none => simp [afterKids, P.runT] at hr
            | some m2 =>
              simp only [afterKids] at hr
              rw [hK left ((viewOf h).edges right) ((right, left) :: m) g1 g2 m2 (fun e he => htgt right e he) h2]
              simp only [afterKidsX]
              rw [P.runT_bind] at hr ⊢
              cases h3 : P.runT stepT (secondPass left ((viewOf h).edges right) m2) g2 with
              | mk g3 o3 =>
                rw [h3] at hr
                cases o3 with
                | none => simp at hr
                | some ou =>
                  cases ou with
                  | none => simp [afterSecond, P.runT] at hr
                  | some uu =>
                    cases uu
                    simp only [afterSecond, P.runT, Prod.mk.injEq, Option.some.injEq] at hr
                    obtain ⟨rfl, rfl⟩ := hr
                    obtain ⟨rfl, hx⟩ := secondPass_agree left m2 _ g2 g3 h3
                    rw [hx]
                    rfl

include htgt in
theorem agT_all : ∀ fuel, AgT h fuel := by
  intro fuel
  induction fuel with
  | zero => intro left right m g g' m' _ hr; simp [mergeRec2, P.runT] at hr
  | succ fuel ih => exact agT_succ h htgt fuel (agK_of_agT h fuel ih)

/-- the outcome of `mergeT`, as `mergeX` reports it -/
def MergeOut.toX : MergeOut → Option MergeOutX
  | .ok => some .ok
  | .err ms => some (.err ms)
  | .joined => none

theorem keysX_nohole (g : G L D) : keysX (⟨g, []⟩ : GX L D) = keys g := by simp [keysX, keys]

include htgt in
/-- **wherever `merge` completes without reaching `join`, `mergeX` is `merge`**: same left graph, no removed slot, same
    outcome (`Ok`, or `Err` with the same missed vertices) -/
theorem mergeX_of_mergeT (g g' : G L D) (left right : Nat) (out : MergeOut) (ox : MergeOutX)
    (hm : mergeT g h left right = (g', some out)) (hox : out.toX = some ox) :
    mergeX ⟨g, []⟩ ⟨h, []⟩ left right = (⟨g', []⟩, some ox) := by
  unfold mergeT at hm
  unfold mergeX
  by_cases hr : right < cap h
  · rw [if_pos hr] at hm
    cases h1 : P.runT stepT (mergeRec2 (viewOf h) (cap h + 1) left right []) g with
    | mk g1 o =>
      rw [h1] at hm
      cases o with
      | none => simp at hm
      | some om =>
        cases om with
        | none =>
          simp only [Prod.mk.injEq, Option.some.injEq] at hm
          obtain ⟨_, rfl⟩ := hm
          simp [MergeOut.toX] at hox
        | some m1 =>
          simp only at hm
          rw [agT_all h htgt (cap h + 1) left right [] g g1 m1 hr h1]
          simp only [keysX_nohole]
          split at hm
          · rename_i hlen
            simp only [Prod.mk.injEq, Option.some.injEq] at hm
            obtain ⟨rfl, rfl⟩ := hm
            simp only [MergeOut.toX, Option.some.injEq] at hox
            subst hox
            rw [if_pos hlen]
          · rename_i hlen
            simp only [Prod.mk.injEq, Option.some.injEq] at hm
            obtain ⟨rfl, rfl⟩ := hm
            simp only [MergeOut.toX, Option.some.injEq] at hox
            subst hox
            rw [if_neg hlen]
  · rw [if_neg hr] at hm; simp at hm

end Sodg
