import Core.Reach
set_option linter.unusedSectionVars false
/-! A model-level invariant that needs no validity hypothesis: every stored edge — also in the stale slot of a
    collected vertex — points below the capacity. `slice`, `inspect` and `merge` read slots by raw target id and
    rely on it. -/
namespace Sodg

variable {L D : Type} [DecidableEq L] [Inhabited D]

def EdgesBelow (g : G L D) : Prop := ∀ u, ∀ e ∈ edg g u, e.2 < cap g

theorem mem_upsert (es : List (L × Nat)) (a : L) (t : Nat) (e : L × Nat) (h : e ∈ upsert es a t) :
    e ∈ es ∨ e.2 = t := by
  induction es with
  | nil => simp [upsert] at h; right; rw [h]
  | cons x xs ih =>
    obtain ⟨b, u⟩ := x
    simp only [upsert] at h
    split at h
    · simp only [List.mem_cons] at h
      rcases h with h | h
      · right; rw [h]
      · left; simp [h]
    · simp only [List.mem_cons] at h
      rcases h with h | h
      · left; simp [h]
      · rcases ih h with h' | h'
        · left; simp [h']
        · right; exact h'

theorem edg_enroll (g : G L D) (v b w : Nat) : edg (enroll g v b) w = edg g w := by unfold enroll; split <;> simp
theorem cap_enroll (g : G L D) (v b : Nat) : cap (enroll g v b) = cap g := by unfold enroll; split <;> simp

theorem eb_joinGrp (g g' : G L D) (v b : Nat) (h : EdgesBelow g) (hj : joinGrp g v b = some g') : EdgesBelow g' := by
  unfold joinGrp at hj
  split at hj
  · cases hj
    intro u e he
    rw [edg_enroll] at he
    simp only [edg_pushMem, edg_setTag] at he
    rw [cap_enroll]; simpa using h u e he
  · cases hj

theorem eb_bindGrp (g g' : G L D) (v1 v2 : Nat) (h : EdgesBelow g) (hb : bindGrp g v1 v2 = some g') : EdgesBelow g' := by
  unfold bindGrp at hb
  split at hb
  · split at hb
    · split at hb
      next b _ =>
        cases h1 : joinGrp g v1 b with
        | none => simp [h1] at hb
        | some g1 =>
          simp [h1] at hb
          exact eb_joinGrp g1 g' v2 b (eb_joinGrp g g1 v1 b h h1) hb
      · cases hb
    · exact eb_joinGrp g g' v1 _ h hb
  · split at hb
    · exact eb_joinGrp g g' v2 _ h hb
    · cases hb; exact h

theorem eb_empty (n c : Nat) : EdgesBelow (empty n c : G L D) := by
  intro u e he
  have : edg (empty n c : G L D) u = [] := by
    unfold edg empty; by_cases hu : u < c <;> simp [hu, blank] <;> rfl
  rw [this] at he; cases he

/-- every call, valid or not, that does not panic keeps the invariant -/
theorem eb_step (g g' : G L D) (op : Op L D) (o : Out L D) (h : EdgesBelow g) (hs : step g op = some (g', o)) :
    EdgesBelow g' := by
  cases op with
  | add v =>
    simp only [step, Option.map_eq_some_iff] at hs
    obtain ⟨g1, ha, he⟩ := hs
    cases he
    unfold add at ha
    split at ha
    · split at ha
      · cases ha
        intro u e he
        simp only [edg, cap] at *
        have hsz : (g.vs.setIfInBounds v { (blank : Vertex L D) with branch := 1 }).size = g.vs.size := by simp
        rw [hsz]
        by_cases huv : u = v
        · subst huv
          have : (g.vs.setIfInBounds u { (blank : Vertex L D) with branch := 1 })[u]!.edges = [] := by
            simp only [cap] at *; grind [blank]
          rw [this] at he; cases he
        · have : (g.vs.setIfInBounds v { (blank : Vertex L D) with branch := 1 })[u]!.edges = g.vs[u]!.edges := by
            grind
          rw [this] at he; exact h u e he
      · cases ha; exact h
    · cases ha
  | bind v1 v2 a =>
    simp only [step, Option.map_eq_some_iff] at hs
    obtain ⟨g1, hb, he⟩ := hs
    cases he
    unfold bind at hb
    split at hb
    next hc =>
      split at hb
      · apply eb_bindGrp _ _ v1 v2 _ hb
        intro u e he
        rw [edg_setEdges] at he
        simp only [cap_setEdges]
        split at he
        · rcases mem_upsert _ _ _ _ he with h' | h'
          · exact h _ e h'
          · rw [h']; exact hc.2
        · exact h u e he
      · cases hb
    · cases hb
  | put v d =>
    simp only [step, Option.map_eq_some_iff] at hs
    obtain ⟨g1, hp, he⟩ := hs
    cases he
    unfold put at hp
    split at hp
    · simp only at hp
      split at hp
      · split at hp
        · cases hp; intro u e he; simp at he; simpa using h u e he
        · cases hp
      · cases hp; intro u e he; simp at he; simpa using h u e he
    · cases hp
  | data v =>
    simp only [step, Option.map_eq_some_iff] at hs
    obtain ⟨x, hd, he⟩ := hs
    cases he
    unfold data at hd
    split at hd
    · split at hd
      · cases hd; exact h
      · cases hd; exact h
      · simp only at hd
        split at hd
        · cases hd; intro u e he; simp at he; simpa using h u e he
        · split at hd
          · split at hd
            · cases hd
            · split at hd
              · cases hd
                intro u e he
                rw [edg_collect] at he
                rw [cap_collect]
                simp at he; simpa using h u e he
              · cases hd; intro u e he; simp at he; simpa using h u e he
          · cases hd
    · cases hd
  | kid v a =>
    simp only [step, Option.map_eq_some_iff] at hs
    obtain ⟨_, _, he⟩ := hs; cases he; exact h
  | kids v =>
    simp only [step, Option.map_eq_some_iff] at hs
    obtain ⟨_, _, he⟩ := hs; cases he; exact h
  | keys => simp only [step] at hs; cases hs; exact h
  | nextId =>
    simp only [step, Option.map_eq_some_iff] at hs
    obtain ⟨x, hn, he⟩ := hs
    cases he
    unfold nextId at hn
    split at hn
    · cases hn
    · cases hn
      split
      · intro u e he; simp at he; simpa using h u e he
      · exact h

theorem Reach.edgesBelow {n c : Nat} {g : G L D} {r : R L D} {P : List (Nat × Nat)} (h : Reach n c g r P) :
    EdgesBelow g := by
  induction h with
  | init => exact eb_empty n c
  | step op g' o _ _ hs ih => exact eb_step _ g' op o ih hs

end Sodg
