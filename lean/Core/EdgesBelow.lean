import Core.Reach
set_option linter.unusedSectionVars false
/-! A model-level invariant that needs no validity hypothesis: every stored edge — also in the stale slot of a
    collected vertex — points below the capacity. `slice`, `inspect` and `merge` read slots by raw target id and
    rely on it. -/
namespace Sodg

variable {L D : Type} [DecidableEq L] [Inhabited D]

def EdgesBelow (g : G L D) : Prop := ∀ u, ∀ e ∈ edg g u, e.2 < cap g

theorem mem_upsert (es : List (L × Nat)) (a : L) (t : Nat) (e : L × Nat) (h : e ∈ upsert es a t) :
    e ∈ es ∨ e.2 = t := by
  induction es with
  | nil => simp [upsert] at h; right; rw [h]
  | cons x xs ih =>
    obtain ⟨b, u⟩ := x
    simp only [upsert] at h
    split at h
    · simp only [List.mem_cons] at h
      rcases h with h | h
      · right; rw [h]
      · left; simp [h]
    · simp only [List.mem_cons] at h
      rcases h with h | h
      · left; simp [h]
      · rcases ih h with h' | h'
        · left; simp [h']
        · right; exact h'

theorem edg_enroll (g : G L D) (v b w : Nat) : edg (enroll g v b) w = edg g w := by unfold enroll; split <;> simp
theorem cap_enroll (g : G L D) (v b : Nat) : cap (enroll g v b) = cap g := by unfold enroll; split <;> simp

theorem eb_joinGrp (g g' : G L D) (v b : Nat) (h : EdgesBelow g) (hj : joinGrp g v b = some g') : EdgesBelow g' := by
  unfold joinGrp at hj
  split at hj
  · cases hj
    intro u e he
    rw [edg_enroll] at he
    simp only [edg_pushMem, edg_setTag] at he
    rw [cap_enroll]; simpa using h u e he
  · cases hj

theorem eb_bindGrp (g g' : G L D) (v1 v2 : Nat) (h : EdgesBelow g) (hb : bindGrp g v1 v2 = some g') : EdgesBelow g' := by
  unfold bindGrp at hb
  split at hb
  · split at hb
    · split at hb
      next b _ =>
        cases h1 : joinGrp g v1 b with
        | none => simp [h1] at hb
        | some g1 =>
          simp [h1] at hb
          exact eb_joinGrp g1 g' v2 b (eb_joinGrp g g1 v1 b h h1) hb
      · cases hb
    · exact eb_joinGrp g g' v1 _ h hb
  · split at hb
    · exact eb_joinGrp g g' v2 _ h hb
    · cases hb; exact h

theorem eb_empty (n c : Nat) : EdgesBelow (empty n c : G L D) := by
  intro u e he
  have : edg (empty n c : G L D) u = [] := by
    unfold edg empty; by_cases hu : u < c <;> simp [hu, blank] <;> rfl
  rw [this] at he; cases he

/-- every call, valid or not, that does not panic keeps the invariant -/
theorem eb_step (g g' : G L D) (op : Op L D) (o : Out L D) (h : EdgesBelow g) (hs : step g op = some (g', o)) :
    EdgesBelow g' := by
  cases op with
  | add v =>
    simp only [step, Option.map_eq_some_iff] at hs
    obtain ⟨g1, ha, he⟩ := hs
    cases he
    unfold add at ha
    split at ha
    · split at ha
      · cases ha
        intro u e he
        simp only [edg, cap] at *
        have hsz : (g.vs.setIfInBounds v { (blank : Vertex L D) with branch := 1 }).size = g.vs.size := by simp
        rw [hsz]
        by_cases huv : u = v
        · subst huv
          have : (g.vs.setIfInBounds u { (blank : Vertex L D) with branch := 1 })[u]!.edges = [] := by
            simp only [cap] at *; grind [blank]
          rw [this] at he; cases he
        · have : (g.vs.setIfInBounds v { (blank : Vertex L D) with branch := 1 })[u]!.edges = g.vs[u]!.edges := by
            grind
          rw [this] at he; exact h u e he
      · cases ha; exact h
    · cases ha
  | bind v1 v2 a =>
    simp only [step, Option.map_eq_some_iff] at hs
    obtain ⟨g1, hb, he⟩ := hs
    cases he
    unfold bind at hb
    split at hb
    next hc =>
      split at hb
      · apply eb_bindGrp _ _ v1 v2 _ hb
        intro u e he
        rw [edg_setEdges] at he
        simp only [cap_setEdges]
        split at he
        · rcases mem_upsert _ _ _ _ he with h' | h'
          · exact h _ e h'
          · rw [h']; exact hc.2
        · exact h u e he
      · cases hb
    · cases hb
  | put v d =>
    simp only [step, Option.map_eq_some_iff] at hs
    obtain ⟨g1, hp, he⟩ := hs
    cases he
    unfold put at hp
    split at hp
    · simp only at hp
      split at hp
      · split at hp
        · cases hp; intro u e he; simp at he; simpa using h u e he
        · cases hp
      · cases hp; intro u e he; simp at he; simpa using h u e he
    · cases hp
  | data v =>
    simp only [step, Option.map_eq_some_iff] at hs
    obtain ⟨x, hd, he⟩ := hs
    cases he
    unfold data at hd
    split at hd
    · split at hd
      · cases hd; exact h
      · cases hd; exact h
      · simp only at hd
        split at hd
        · cases hd; intro u e he; simp at he; simpa using h u e he
        · split at hd
          · split at hd
            · cases hd
            · split at hd
              · cases hd
                intro u e he
                rw [edg_collect] at he
                rw [cap_collect]
                simp at he; simpa using h u e he
              · cases hd; intro u e he; simp at he; simpa using h u e he
          · cases hd
    · cases hd
  | kid v a =>
    simp only [step, Option.map_eq_some_iff] at hs
    obtain ⟨_, _, he⟩ := hs; cases he; exact h
  | kids v =>
    simp only [step, Option.map_eq_some_iff] at hs
    obtain ⟨_, _, he⟩ := hs; cases he; exact h
  | keys => simp only [step] at hs; cases hs; exact h
  | nextId =>
    simp only [step, Option.map_eq_some_iff] at hs
    obtain ⟨x, hn, he⟩ := hs
    cases he
    unfold nextId at hn
    split at hn
    · cases hn
    · cases hn
      split
      · intro u e he; simp at he; simpa using h u e he
      · exact h

theorem Reach.edgesBelow {n c : Nat} {g : G L D} {r : R L D} {P : List (Nat × Nat)} (h : Reach n c g r P) :
    EdgesBelow g := by
  induction h with
  | init => exact eb_empty n c
  | step op g' o _ _ hs ih => exact eb_step _ g' op o ih hs

end Sodg

namespace Sodg
variable {L D : Type} [DecidableEq L] [Inhabited D]

/-- labels below a vertex are distinct and no edge is a self-loop — in every slot, stale ones included -/
def EdgesOK (g : G L D) : Prop :=
  (∀ x, ((edg g x).map Prod.fst).Nodup) ∧ (∀ x, ∀ p ∈ edg g x, p.2 ≠ x)

theorem upsert_keys (es : List (L × Nat)) (a : L) (t : Nat) :
    ∀ b, b ∈ (upsert es a t).map Prod.fst ↔ (b ∈ es.map Prod.fst ∨ b = a) := by
  induction es with
  | nil => intro b; simp [upsert]
  | cons x xs ih =>
    intro b
    obtain ⟨c, u⟩ := x
    simp only [upsert]
    split
    next h =>
      subst h
      simp only [List.map_cons, List.mem_cons]
      constructor
      · rintro (hh | hh)
        · exact Or.inr hh
        · exact Or.inl (Or.inr hh)
      · rintro ((hh | hh) | hh)
        · exact Or.inl hh
        · exact Or.inr hh
        · exact Or.inl hh
    next h =>
      simp only [List.map_cons, List.mem_cons, ih b]
      constructor
      · rintro (hh | hh | hh) <;> simp [hh]
      · rintro ((hh | hh) | hh) <;> simp [hh]

theorem upsert_nodup (es : List (L × Nat)) (a : L) (t : Nat) (h : (es.map Prod.fst).Nodup) :
    ((upsert es a t).map Prod.fst).Nodup := by
  induction es with
  | nil => simp [upsert]
  | cons x xs ih =>
    obtain ⟨c, u⟩ := x
    simp only [List.map_cons, List.nodup_cons] at h
    simp only [upsert]
    split
    · simpa [List.map_cons, List.nodup_cons] using h
    next hne =>
      simp only [List.map_cons, List.nodup_cons]
      refine ⟨?_, ih h.2⟩
      rw [upsert_keys]
      rintro (hh | hh)
      · exact h.1 hh
      · exact hne hh

theorem edg_eq_of_step_other (g g' : G L D) (op : Op L D) (o : Out L D) (hs : step g op = some (g', o))
    (h1 : ∀ v, op ≠ .add v) (h2 : ∀ v1 v2 a, op ≠ .bind v1 v2 a) : ∀ u, edg g' u = edg g u := by
  intro u
  cases op with
  | add v => exact absurd rfl (h1 v)
  | bind v1 v2 a => exact absurd rfl (h2 v1 v2 a)
  | put v d =>
    simp only [step, Option.map_eq_some_iff] at hs
    obtain ⟨g1, hp, he⟩ := hs
    cases he
    unfold put at hp
    split at hp
    · simp only at hp
      split at hp
      · split at hp
        · cases hp; simp
        · cases hp
      · cases hp; simp
    · cases hp
  | data v =>
    simp only [step, Option.map_eq_some_iff] at hs
    obtain ⟨x, hd, he⟩ := hs
    cases he
    unfold data at hd
    split at hd
    · split at hd
      · cases hd; rfl
      · cases hd; rfl
      · simp only at hd
        split at hd
        · cases hd; simp
        · split at hd
          · split at hd
            · cases hd
            · split at hd
              · cases hd; rw [edg_collect]; simp
              · cases hd; simp
          · cases hd
    · cases hd
  | kid v a =>
    simp only [step, Option.map_eq_some_iff] at hs
    obtain ⟨_, _, he⟩ := hs; cases he; rfl
  | kids v =>
    simp only [step, Option.map_eq_some_iff] at hs
    obtain ⟨_, _, he⟩ := hs; cases he; rfl
  | keys => simp only [step] at hs; cases hs; rfl
  | nextId =>
    simp only [step, Option.map_eq_some_iff] at hs
    obtain ⟨x, hn, he⟩ := hs
    cases he
    unfold nextId at hn
    split at hn
    · cases hn
    · cases hn
      split
      · simp
      · rfl

theorem edg_joinGrp (g g' : G L D) (v b : Nat) (hj : joinGrp g v b = some g') : ∀ u, edg g' u = edg g u := by
  intro u
  unfold joinGrp at hj
  split at hj
  · cases hj; rw [edg_enroll]; simp
  · cases hj

theorem edg_bindGrp (g g' : G L D) (v1 v2 : Nat) (hb : bindGrp g v1 v2 = some g') : ∀ u, edg g' u = edg g u := by
  intro u
  unfold bindGrp at hb
  split at hb
  · split at hb
    · split at hb
      next b _ =>
        cases h1 : joinGrp g v1 b with
        | none => simp [h1] at hb
        | some g1 =>
          simp [h1] at hb
          rw [edg_joinGrp g1 g' v2 b hb, edg_joinGrp g g1 v1 b h1]
      · cases hb
    · exact edg_joinGrp g g' v1 _ hb u
  · split at hb
    · exact edg_joinGrp g g' v2 _ hb u
    · cases hb; rfl

theorem Reach.edgesOK {n c : Nat} {g : G L D} {r : R L D} {P : List (Nat × Nat)} (h : Reach n c g r P) : EdgesOK g := by
  induction h with
  | init =>
    have : ∀ u, edg (empty n c : G L D) u = [] := by
      intro u; unfold edg empty; by_cases hu : u < c <;> simp [hu, blank] <;> rfl
    exact ⟨fun x => by rw [this]; simp, fun x p hp => by rw [this] at hp; cases hp⟩
  | @step g r P op g' o _ ok hs ih =>
    cases op with
    | add v =>
      simp only [Sodg.step, Option.map_eq_some_iff] at hs
      obtain ⟨g1, ha, he⟩ := hs
      cases he
      unfold add at ha
      split at ha
      · split at ha
        · cases ha
          have key : ∀ u, edg ({ g with vs := g.vs.setIfInBounds v { (blank : Vertex L D) with branch := 1 } } : G L D) u =
              if u = v ∧ v < cap g then [] else edg g u := by
            intro u
            simp only [edg, cap]
            by_cases huv : u = v
            · subst huv
              by_cases hlt : u < g.vs.size
              · simp [hlt]; try grind [blank]
              · simp [hlt]; try grind
            · simp [huv]; try grind
          constructor
          · intro x; rw [key]; split
            · simp
            · exact ih.1 x
          · intro x p hp; rw [key] at hp; split at hp
            · cases hp
            · exact ih.2 x p hp
        · cases ha; exact ih
      · cases ha
    | bind v1 v2 a =>
      simp only [Sodg.step, Option.map_eq_some_iff] at hs
      obtain ⟨g1, hb, he⟩ := hs
      cases he
      unfold bind at hb
      split at hb
      next hc =>
        split at hb
        · have e := edg_bindGrp _ _ v1 v2 hb
          have hne : v1 ≠ v2 := ok.1.ne
          constructor
          · intro x; rw [e, edg_setEdges]; split
            · exact upsert_nodup _ _ _ (ih.1 v1)
            · exact ih.1 x
          · intro x p hp; rw [e, edg_setEdges] at hp; split at hp
            next hx =>
              rcases mem_upsert _ _ _ _ hp with h' | h'
              · rw [← hx.1]; exact ih.2 v1 p h'
              · rw [h', ← hx.1]; exact fun e => hne e.symm
            · exact ih.2 x p hp
        · cases hb
      · cases hb
    | put v d =>
      have e := edg_eq_of_step_other _ _ _ _ hs (by intro v; simp) (by intro _ _ _; simp)
      exact ⟨fun x => by rw [e]; exact ih.1 x, fun x p hp => by rw [e] at hp; exact ih.2 x p hp⟩
    | data v =>
      have e := edg_eq_of_step_other _ _ _ _ hs (by intro v; simp) (by intro _ _ _; simp)
      exact ⟨fun x => by rw [e]; exact ih.1 x, fun x p hp => by rw [e] at hp; exact ih.2 x p hp⟩
    | kid v a =>
      have e := edg_eq_of_step_other _ _ _ _ hs (by intro v; simp) (by intro _ _ _; simp)
      exact ⟨fun x => by rw [e]; exact ih.1 x, fun x p hp => by rw [e] at hp; exact ih.2 x p hp⟩
    | kids v =>
      have e := edg_eq_of_step_other _ _ _ _ hs (by intro v; simp) (by intro _ _ _; simp)
      exact ⟨fun x => by rw [e]; exact ih.1 x, fun x p hp => by rw [e] at hp; exact ih.2 x p hp⟩
    | keys =>
      have e := edg_eq_of_step_other _ _ _ _ hs (by intro v; simp) (by intro _ _ _; simp)
      exact ⟨fun x => by rw [e]; exact ih.1 x, fun x p hp => by rw [e] at hp; exact ih.2 x p hp⟩
    | nextId =>
      have e := edg_eq_of_step_other _ _ _ _ hs (by intro v; simp) (by intro _ _ _; simp)
      exact ⟨fun x => by rw [e]; exact ih.1 x, fun x p hp => by rw [e] at hp; exact ih.2 x p hp⟩

end Sodg
