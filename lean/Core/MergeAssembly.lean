import Core.MergeLink
import Core.MergeJoin
set_option linter.unusedSectionVars false
/-! C11, assembly: on (the view of) a tree with distinct ids and distinct labels below every node, merged into a
    reference state in which `left` is alive and edge targets of alive vertices are alive, the two-pass program
    `mergeRec2` — the one the driver executes — never asks for `join`: its run is the run of the first-pass program
    `mergeRec`, with the table wrapped in `some`. The second pass finds, for every kid of every node, that
    `kid(left, a)` and the table agree. -/
namespace Sodg
namespace MT
open P

variable {L D : Type} [DecidableEq L] [Inhabited D]

def liftR {ρ : Type} (x : Option (Mapped × ρ)) : Option (Option Mapped × ρ) := x.map (fun y => (some y.1, y.2))

/-- with distinct labels among the kids, every listed kid is found under its label -/
theorem klookup_of_mem : ∀ (ks : List (L × T L D)) (a : L) (ch : T L D), LabelsOKK ks → (a, ch) ∈ ks →
    klookup ks a = some ch
  | [], _, _, _, h => by cases h
  | (b, c0) :: rest, a, ch, hl, hm => by
    simp only [LabelsOKK] at hl
    obtain ⟨h1, _, h3⟩ := hl
    simp only [List.mem_cons, Prod.mk.injEq] at hm
    rcases hm with ⟨rfl, rfl⟩ | hm
    · simp [klookup]
    · have := klookup_of_mem rest a ch h3 hm
      simp only [klookup]
      split
      next hb => subst hb; rw [h1] at this; cases this
      · exact this

theorem mem_viewKids : ∀ (ks : List (L × T L D)) (a : L) (to : Nat), (a, to) ∈ viewKids ks →
    ∃ ch, (a, ch) ∈ ks ∧ ch.id = to
  | [], _, _, h => by simp [viewKids] at h
  | (b, c0) :: rest, a, to, h => by
    simp only [viewKids, List.mem_cons, Prod.mk.injEq] at h
    rcases h with ⟨rfl, rfl⟩ | h
    · exact ⟨c0, by simp, rfl⟩
    · obtain ⟨ch, h1, h2⟩ := mem_viewKids rest a to h
      exact ⟨ch, List.mem_cons_of_mem _ h1, h2⟩

/-- the second pass finds nothing to join when, for every listed edge, the edge of `left` and the table agree -/
theorem secondPass_ok (c : Nat) (left : Nat) : ∀ (es : List (L × Nat)) (m : Mapped) (r : R L D),
    (∀ a to, (a, to) ∈ es → ∃ u, lookup (r.edg left) a = some u ∧ mlookup m to = some u) →
    runR (R.step c) (secondPass left es m) r = some (some (), r) := by
  intro es
  induction es with
  | nil => intro m r _; rfl
  | cons e rest ih =>
    intro m r h
    obtain ⟨a, to⟩ := e
    obtain ⟨u, h1, h2⟩ := h a to (by simp)
    simp only [secondPass, runR, R.step, h1, h2]
    simp only [ne_eq, not_true_eq_false, if_false]
    exact ih m r (fun a' to' hm => h a' to' (List.mem_cons_of_mem _ hm))

/-- what a first-pass run on a subtree leaves behind (from `bridge`, `mergeT_spec` and `table_spec`) -/
theorem firstPass_facts (c : Nat) (h : RightView L D) (fuel : Nat) (t : T L D) (left : Nat) (m : Mapped) (r : R L D)
    (m1 : Mapped) (r1 : R L D) (hrep : HRepr h t) (hnd : (allIds t).Nodup) (hdis : ∀ k ∈ allIds t, k ∉ mkeys m)
    (hmn : (mkeys m).Nodup) (hl : left ∈ r.ids) (hc : Closed (proj r))
    (hrun : runR (R.step c) (mergeRec h fuel left t.id m) r = some (m1, r1)) :
    Closed (proj r1) ∧ Ext (proj r) (proj r1) ∧ (mkeys m1).Nodup ∧ (∀ k, k ∈ mkeys m1 ↔ (k ∈ mkeys m ∨ k ∈ allIds t)) := by
  obtain ⟨e1, _, e3⟩ := (bridge c h fuel).1 t left m r m1 r1 hrep hnd hdis hrun
  have sp := mergeT_spec (freshC c) (freshC_ok c) (proj r) left ((alive_iff _ _).2 hl) hc t
  rw [← e1] at sp
  have ts := (table_spec (R.step c) h (fun _ => True) (fun _ _ _ _ _ => trivial) fuel).1 left t.id m r m1 r1 trivial hrun
  exact ⟨sp.closed, sp.ext, ts.nodup hmn, e3⟩

def EqT (c : Nat) (h : RightView L D) (fuel : Nat) : Prop :=
  ∀ (t : T L D) (left : Nat) (m : Mapped) (r : R L D), HRepr h t → (allIds t).Nodup → LabelsOK t →
    (∀ k ∈ allIds t, k ∉ mkeys m) → (mkeys m).Nodup → left ∈ r.ids → Closed (proj r) →
    runR (R.step c) (mergeRec2 h fuel left t.id m) r = liftR (runR (R.step c) (mergeRec h fuel left t.id m) r)

def EqK (c : Nat) (h : RightView L D) (fuel : Nat) : Prop :=
  ∀ (ks : List (L × T L D)) (left : Nat) (m : Mapped) (r : R L D), HReprK h ks → (allIdsK ks).Nodup → LabelsOKK ks →
    (∀ k ∈ allIdsK ks, k ∉ mkeys m) → (mkeys m).Nodup → left ∈ r.ids → Closed (proj r) →
    runR (R.step c) (kidsFold2 h fuel left (viewKids ks) m) r = liftR (runR (R.step c) (kidsFold h fuel left (viewKids ks) m) r)

theorem eqK_of_T (c : Nat) (h : RightView L D) (fuel : Nat) (hT : EqT c h fuel) : EqK c h fuel := by
  intro ks
  induction ks with
  | nil => intro left m r _ _ _ _ _ _ _; simp [viewKids, kidsFold2, kidsFold, runR, liftR]
  | cons e rest ih =>
    intro left m r hrep hnd hlab hdis hmn hl hc
    obtain ⟨a, ch⟩ := e
    obtain ⟨hrc, hrr⟩ := hrep
    simp only [LabelsOKK] at hlab
    obtain ⟨_, hlc, hlr⟩ := hlab
    simp only [allIdsK] at hnd hdis
    rw [List.nodup_append] at hnd
    obtain ⟨nd1, nd2, ndx⟩ := hnd
    have hcid : ch.id ∉ mkeys m := hdis _ (List.mem_append_left _ (id_mem_allIds ch))
    -- the continuation once the matched vertex `t` and the state `r0` after find-or-create are known
    have cont : ∀ (t : Nat) (r0 : R L D), t ∈ r0.ids → left ∈ r0.ids → Closed (proj r0) →
        runR (R.step c) ((mergeRec2 h fuel t ch.id m).bind (afterRec (fun m' => kidsFold2 h fuel left (viewKids rest) m'))) r0 =
        liftR (runR (R.step c) ((mergeRec h fuel t ch.id m).bind (fun m' => kidsFold h fuel left (viewKids rest) m')) r0) := by
      intro t r0 ht hl0 hc0
      rw [runR_bind, runR_bind]
      rw [hT ch t m r0 hrc nd1 hlc (fun k hk => hdis k (List.mem_append_left _ hk)) hmn ht hc0]
      cases h1 : runR (R.step c) (mergeRec h fuel t ch.id m) r0 with
      | none => rfl
      | some x =>
        obtain ⟨m1, r1⟩ := x
        simp only [liftR, Option.map_some, afterRec]
        obtain ⟨hc1, he1, hn1, hk1⟩ := firstPass_facts c h fuel ch t m r0 m1 r1 hrc nd1
          (fun k hk => hdis k (List.mem_append_left _ hk)) hmn ht hc0 h1
        have hl1 : left ∈ r1.ids := (alive_iff _ _).1 (he1 left ((alive_iff _ _).2 hl0)).1
        have hdis1 : ∀ k ∈ allIdsK rest, k ∉ mkeys m1 := by
          intro k hk hkm
          rcases (hk1 k).1 hkm with h0 | h0
          · exact hdis k (List.mem_append_right _ hk) h0
          · exact ndx k h0 k hk rfl
        exact ih left m1 r1 hrr nd2 hlr hdis1 hn1 hl1 hc1
    simp only [viewKids, kidsFold2, kidsFold, runR, R.step]
    cases hk : lookup (r.edg left) a with
    | some t =>
      simp only
      have ht : t ∈ r.ids := (alive_iff _ _).1 (hc left ((alive_iff _ _).2 hl) a t hk)
      exact cont t r ht hl hc
    | none =>
      simp only
      have hml : mlookup m ch.id = none := (mlookup_none_iff m ch.id).2 hcid
      simp only [hml, runR, R.step]
      cases hn : r.nextId c with
      | none => simp [runR, liftR]
      | some x =>
        obtain ⟨r1, i⟩ := x
        simp only [runR, R.step]
        obtain ⟨hi, hp1⟩ := nextId_fresh c r r1 i hn
        have hp2 : proj ((r1.add i).bind left i a) = newKid (proj r) left a (freshC c (proj r)) := by
          rw [proj_bind, proj_add, hp1, ← hi]; rfl
        have hfresh := freshC_ok (L := L) (D := D) c (proj r)
        obtain ⟨hext, hclosed, hkid⟩ := newKid_spec (proj r) left a (freshC c (proj r)) ((alive_iff _ _).2 hl) hfresh
          (by simpa [proj_kid] using hk) hc
        rw [← hp2] at hext hclosed hkid
        have hl0 : left ∈ ((r1.add i).bind left i a).ids := (alive_iff _ _).1 (hext left ((alive_iff _ _).2 hl)).1
        have hi0 : i ∈ ((r1.add i).bind left i a).ids :=
          (alive_iff _ _).1 (hclosed left ((alive_iff _ _).2 hl0) a i (by rw [hkid, hi]))
        exact cont i _ hi0 hl0 hclosed

theorem eq_two_pass (c : Nat) (h : RightView L D) : ∀ fuel, EqT c h fuel ∧ EqK c h fuel := by
  intro fuel
  induction fuel with
  | zero =>
    have hT : EqT c h 0 := by intro t left m r _ _ _ _ _ _ _; simp [mergeRec2, mergeRec, runR, liftR]
    exact ⟨hT, eqK_of_T c h 0 hT⟩
  | succ fuel ih =>
    obtain ⟨_, ihK⟩ := ih
    have hT : EqT c h (fuel + 1) := by
      intro t left m r hrep hnd hlab hdis hmn hl hc
      cases t with
      | node id d kids =>
        obtain ⟨hE, hD, hK⟩ := hrep
        simp only [LabelsOK] at hlab
        simp only [allIds, List.nodup_cons] at hnd
        have hid : id ∉ mkeys m := hdis id (by simp [allIds])
        have hml : mlookup m id = none := (mlookup_none_iff m id).2 hid
        simp only [T.id]
        rw [mergeRec2, mergeRec]
        simp only [hml, Option.isSome_none, Bool.false_eq_true, if_false, hE, hD]
        have hdisK : ∀ k ∈ allIdsK kids, k ∉ mkeys ((id, left) :: m) := by
          intro k hk hk1
          simp only [mkeys, List.map_cons, List.mem_cons] at hk1
          rcases hk1 with rfl | hk1
          · exact hnd.1 hk
          · exact hdis k (by simp [allIds, hk]) (by simpa [mkeys] using hk1)
        have hmn1 : (mkeys ((id, left) :: m)).Nodup := by
          simp only [mkeys, List.map_cons, List.nodup_cons]
          exact ⟨by simpa [mkeys] using hid, by simpa [mkeys] using hmn⟩
        -- after the optional put, in a state `r1` with the same alive set and edges
        have key : ∀ r1 : R L D, left ∈ r1.ids → Closed (proj r1) →
            runR (R.step c) ((kidsFold2 h fuel left (viewKids kids) ((id, left) :: m)).bind (afterKids left (viewKids kids))) r1 =
            liftR (runR (R.step c) (kidsFold h fuel left (viewKids kids) ((id, left) :: m)) r1) := by
          intro r1 hl1 hc1
          rw [runR_bind, ihK kids left ((id, left) :: m) r1 hK hnd.2 hlab hdisK hmn1 hl1 hc1]
          cases hk : runR (R.step c) (kidsFold h fuel left (viewKids kids) ((id, left) :: m)) r1 with
          | none => rfl
          | some x =>
            obtain ⟨m2, r2⟩ := x
            simp only [liftR, Option.map_some, afterKids]
            rw [runR_bind]
            -- the second pass: every kid's edge and table entry agree
            obtain ⟨f1, f2, _⟩ := (bridge c h fuel).2 kids left ((id, left) :: m) r1 m2 r2 hK hnd.2 hdisK hk
            have sk := mergeKids_spec (freshC c) (freshC_ok c) (proj r1) left ((alive_iff _ _).2 hl1) hc1 kids
            have ts := (table_spec (R.step c) h (fun _ => True) (fun _ _ _ _ _ => trivial) fuel).2 left (viewKids kids)
              ((id, left) :: m) r1 m2 r2 (fun _ _ => trivial) hk
            have hn2 : (mkeys m2).Nodup := ts.nodup hmn1
            have hsp : runR (R.step c) (secondPass left (viewKids kids) m2) r2 = some (some (), r2) := by
              apply secondPass_ok
              intro a to hm
              obtain ⟨ch, hch, rfl⟩ := mem_viewKids kids a to hm
              have hkl := klookup_of_mem kids a ch hlab hch
              obtain ⟨u, hu, hmu⟩ := sk.paths a ch [] ch hkl (by cases ch; simp [T.walk])
              rw [← f1] at hu
              refine ⟨u, ?_, mlookup_of_mem m2 ch.id u hn2 ((f2 _).2 (Or.inr hmu))⟩
              simp only [walk] at hu
              split at hu
              · cases hu
              next w hkid => simp only [Option.some.injEq] at hu; subst hu; exact hkid
            rw [hsp]
            rfl
        cases d with
        | none =>
          simp only [putP, Prog.bind]
          exact key r hl hc
        | some b =>
          simp only [putP, Prog.bind, runR, R.step]
          exact key (r.put left b) hl (by rw [proj_put]; exact put_closed _ _ _ hc)
    exact ⟨hT, eqK_of_T c h (fuel + 1) hT⟩

/-- **on trees the two-pass program is the first-pass program**: it never asks for `join` -/
theorem two_pass_eq_first_pass (c : Nat) (h : RightView L D) (t : T L D) (hrep : HRepr h t) (hnd : (allIds t).Nodup)
    (hlab : LabelsOK t) (fuel left : Nat) (r : R L D) (hl : left ∈ r.ids) (hc : Closed (proj r)) :
    runR (R.step c) (mergeRec2 h fuel left t.id []) r = liftR (runR (R.step c) (mergeRec h fuel left t.id []) r) :=
  (eq_two_pass c h fuel).1 t left [] r hrep hnd hlab (by simp [mkeys]) (by simp [mkeys]) hl hc

end MT
end Sodg
