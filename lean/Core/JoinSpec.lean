import Core.Holes
set_option linter.unusedSectionVars false
/-! # What `join(left, right)` does, stated on the model

The first loop of `join` re-targets, in every present vertex, every edge into `right` to `left` — in place, so labels, their
order and all other edges stay (`edg_retargetAll`); after a completed `join` the slot `right` is removed: it is not a key any
more and every call on it panics (`joinX_removes`). -/
namespace Sodg

variable {L D : Type} [DecidableEq L] [Inhabited D]

theorem retarget_idem (es : List (L × Nat)) (f t : Nat) : retarget (retarget es f t) f t = retarget es f t := by
  unfold retarget
  rw [List.map_map]
  apply List.map_congr_left
  intro e _
  simp only [Function.comp]
  by_cases h : e.2 = f
  · simp only [h, if_true]
    by_cases h2 : t = f
    · simp [h2]
    · simp [h2]
  · simp [h]

/-- the first loop: the edges of a vertex in the list are re-targeted, all others are untouched; nothing else changes -/
theorem edg_retargetAll (ks : List Nat) (f t : Nat) : ∀ (g : G L D) (v : Nat),
    edg (retargetAll g ks f t) v = if v ∈ ks ∧ v < cap g then retarget (edg g v) f t else edg g v := by
  induction ks with
  | nil => intro g v; simp [retargetAll]
  | cons k ks ih =>
    intro g v
    simp only [retargetAll, List.foldl_cons]
    have := ih (setEdges g k (retarget (edg g k) f t)) v
    simp only [retargetAll] at this
    rw [this]
    simp only [cap_setEdges, edg_setEdges, List.mem_cons]
    by_cases hk : k = v
    · subst hk
      by_cases hc : k < cap g
      · by_cases hm : k ∈ ks
        · simp [hm, hc, retarget_idem]
        · simp [hm, hc]
      · simp [hc]
    · have hvk : ¬ v = k := fun e => hk e.symm
      simp [hk, hvk]

theorem tag_retargetAll (ks : List Nat) (f t : Nat) : ∀ (g : G L D) (v : Nat), tag (retargetAll g ks f t) v = tag g v := by
  induction ks with
  | nil => intro g v; rfl
  | cons k ks ih => intro g v; simp only [retargetAll, List.foldl_cons]; exact (ih _ v).trans (by simp)

/-- re-targeting leaves no edge into `f` in a re-targeted vertex (unless `f` is the new target itself) -/
theorem retarget_no_old (es : List (L × Nat)) (f t : Nat) (h : t ≠ f) : ∀ e ∈ retarget es f t, e.2 ≠ f := by
  intro e he
  simp only [retarget, List.mem_map] at he
  obtain ⟨e0, _, rfl⟩ := he
  split
  · exact h
  · assumption

/-- **after a completed `join` the slot is gone**: `right` is a removed slot, it is not a key, and it cannot be read -/
theorem joinX_removes (x : GX L D) (left right : Nat) (h : (joinX x left right).2 = true) :
    right ∈ (joinX x left right).1.holes ∧ right ∉ keysX (joinX x left right).1 ∧ (joinX x left right).1.acc right = false := by
  unfold joinX at h ⊢
  simp only at h ⊢
  split at h
  · split at h
    · rename_i h1 h2
      simp only [h1, h2, if_true]
      refine ⟨List.mem_cons_self .., ?_, ?_⟩
      · unfold keysX
        simp only [List.mem_filter, Bool.and_eq_true, Bool.not_eq_eq_eq_not, Bool.not_true, not_and]
        intro _ hc
        simp at hc
      · simp [GX.acc]
    · simp at h
  · simp at h

end Sodg
