import Core.RefProps
set_option linter.unusedSectionVars false
/-! Probe v2, C13: the second loop of `slice_some` (rebuild the kept part by `add`/`bind` on a fresh graph), on the
    reference: the result's vertices are exactly the kept ones, and each kept vertex has exactly the source's edges
    into kept vertices, in the source's order. -/
namespace Sodg

variable {L D : Type} [DecidableEq L] [Inhabited D]

variable (src : Nat → List (L × Nat)) (kept : Nat → Bool)

/-- `for (k, v2) in &vtx.edges { if done.contains(v2) { ng.add(*v2); ng.bind(v1, *v2, *k); } }` -/
def rebuildEdges (x : Nat) : R L D → List (L × Nat) → R L D
  | r, [] => r
  | r, (a, t) :: es => if kept t then rebuildEdges x ((r.add t).bind x t a) es else rebuildEdges x r es

/-- `for (v1, vtx) in … .filter(done.contains) { ng.add(v1); … }` over the kept ids in ascending order -/
def rebuild : R L D → List Nat → R L D
  | r, [] => r
  | r, x :: xs => rebuild (rebuildEdges kept x (r.add x) (src x)) xs

theorem edg_bind (r : R L D) (v1 v2 : Nat) (a : L) :
    (r.bind v1 v2 a).edg = upd r.edg v1 (upsert (r.edg v1) a v2) := by
  unfold R.bind R.bindGrp R.setEdge; simp only; split <;> rfl

theorem upsert_fresh (es : List (L × Nat)) (a : L) (t : Nat) (h : a ∉ es.map Prod.fst) :
    upsert es a t = es ++ [(a, t)] := by
  induction es with
  | nil => rfl
  | cons e r ih =>
    obtain ⟨b, u⟩ := e
    simp only [List.map_cons, List.mem_cons, not_or] at h
    have : ¬ b = a := fun e => h.1 e.symm
    simp [upsert, this, ih h.2]

/-- one vertex: starting with `edg x = pre`, the loop appends the kept edges of `es` in order, touches no other
    vertex's edges except blanking newly added targets, and adds only kept ids -/
theorem rebuildEdges_spec (x : Nat) : ∀ (es : List (L × Nat)) (r : R L D) (pre : List (L × Nat)),
    x ∈ r.ids → r.edg x = pre → ((pre ++ es).map Prod.fst).Nodup → (∀ p ∈ es, p.2 ≠ x) →
    let r' := rebuildEdges kept x r es
    r'.edg x = pre ++ es.filter (fun p => kept p.2) ∧
    (∀ v, v ∈ r'.ids ↔ (v ∈ r.ids ∨ ∃ p ∈ es, kept p.2 = true ∧ p.2 = v)) ∧
    (∀ v, v ≠ x → v ∈ r.ids → r'.edg v = r.edg v) ∧
    (∀ v, v ∉ r.ids → v ∈ r'.ids → r'.edg v = []) := by
  intro es
  induction es with
  | nil =>
    intro r pre hx he _ _
    refine ⟨by simp [rebuildEdges, he], by simp [rebuildEdges], fun _ _ _ => rfl, fun v h1 h2 => absurd h2 h1⟩
  | cons e rest ih =>
    intro r pre hx he hnd hne
    obtain ⟨a, t⟩ := e
    have htx : t ≠ x := hne (a, t) (by simp)
    simp only [rebuildEdges]
    cases hk : kept t with
    | false =>
      simp only [Bool.false_eq_true, if_false]
      have hnd' : ((pre ++ rest).map Prod.fst).Nodup := by
        simp only [List.map_append, List.map_cons] at hnd ⊢
        exact hnd.sublist (List.Sublist.append_left (List.sublist_cons_self _ _) _)
      obtain ⟨h1, h2, h3, h4⟩ := ih r pre hx he hnd' (fun p hp => hne p (List.mem_cons_of_mem _ hp))
      refine ⟨by simp [List.filter_cons, hk, h1], ?_, h3, h4⟩
      intro v; rw [h2]
      constructor
      · rintro (h0 | ⟨p, hp, hkp, rfl⟩)
        · exact Or.inl h0
        · exact Or.inr ⟨p, List.mem_cons_of_mem _ hp, hkp, rfl⟩
      · rintro (h0 | ⟨p, hp, hkp, rfl⟩)
        · exact Or.inl h0
        · simp only [List.mem_cons] at hp
          rcases hp with rfl | hp
          · simp [hk] at hkp
          · exact Or.inr ⟨p, hp, hkp, rfl⟩
    | true =>
      simp only [if_true]
      -- the state after `add t; bind x t a`
      have hx1 : x ∈ (r.add t).ids := R.ids_add r t x hx
      have hex1 : (r.add t).edg x = pre := by
        by_cases ht : t ∈ r.ids
        · rw [R.add_present_noop r t ht]; exact he
        · rw [((R.add_absent_blank r t ht).2.2.2.2.2 x (Ne.symm htx)).2.1]; exact he
      have hfresh : a ∉ pre.map Prod.fst := by
        simp only [List.map_append, List.map_cons] at hnd
        intro hm
        have := (List.nodup_append.1 hnd).2.2 a hm a (by simp)
        exact this rfl
      have hx2 : x ∈ ((r.add t).bind x t a).ids := by rw [R.ids_bind]; exact hx1
      have hex2 : ((r.add t).bind x t a).edg x = pre ++ [(a, t)] := by
        rw [edg_bind, upd_same, hex1, upsert_fresh pre a t hfresh]
      have hnd' : (((pre ++ [(a, t)]) ++ rest).map Prod.fst).Nodup := by simpa using hnd
      obtain ⟨h1, h2, h3, h4⟩ := ih ((r.add t).bind x t a) (pre ++ [(a, t)]) hx2 hex2 hnd'
        (fun p hp => hne p (List.mem_cons_of_mem _ hp))
      have ids2 : ∀ v, v ∈ ((r.add t).bind x t a).ids ↔ (v ∈ r.ids ∨ v = t) := by
        intro v
        rw [R.ids_bind]
        by_cases ht : t ∈ r.ids
        · rw [R.add_present_noop r t ht]
          constructor
          · exact Or.inl
          · rintro (h0 | rfl); exact h0; exact ht
        · simp [R.add, ht]
          constructor
          · rintro (h0 | h0); exact Or.inr h0; exact Or.inl h0
          · rintro (h0 | h0); exact Or.inr h0; exact Or.inl h0
      have edg2 : ∀ v, v ≠ x → ((r.add t).bind x t a).edg v = (r.add t).edg v := by
        intro v hv; rw [edg_bind, upd_get]; simp [hv]
      refine ⟨by simp [List.filter_cons, hk, h1], ?_, ?_, ?_⟩
      · intro v; rw [h2, ids2]
        constructor
        · rintro ((h0 | rfl) | ⟨p, hp, hkp, rfl⟩)
          · exact Or.inl h0
          · exact Or.inr ⟨(a, v), by simp, hk, rfl⟩
          · exact Or.inr ⟨p, List.mem_cons_of_mem _ hp, hkp, rfl⟩
        · rintro (h0 | ⟨p, hp, hkp, rfl⟩)
          · exact Or.inl (Or.inl h0)
          · simp only [List.mem_cons] at hp
            rcases hp with rfl | hp
            · exact Or.inl (Or.inr rfl)
            · exact Or.inr ⟨p, hp, hkp, rfl⟩
      · intro v hvx hv
        rw [h3 v hvx ((ids2 v).2 (Or.inl hv)), edg2 v hvx]
        by_cases ht : t ∈ r.ids
        · rw [R.add_present_noop r t ht]
        · have : v ≠ t := by rintro rfl; exact ht hv
          exact ((R.add_absent_blank r t ht).2.2.2.2.2 v this).2.1
      · intro v hv hv'
        by_cases hvt : v = t
        · subst hvt
          rw [h3 v htx ((ids2 v).2 (Or.inr rfl)), edg2 v htx]
          exact (R.add_absent_blank r v hv).2.1
        · have hv2 : v ∉ ((r.add t).bind x t a).ids := by rw [ids2]; simp [hv, hvt]
          exact h4 v hv2 hv'

/-- the invariant of the outer loop: `P` are the kept vertices already rebuilt -/
structure RB (r : R L D) (P : List Nat) : Prop where
  allKept : ∀ v ∈ r.ids, kept v = true
  done : ∀ x ∈ P, x ∈ r.ids ∧ r.edg x = (src x).filter (fun p => kept p.2)
  blank : ∀ v ∈ r.ids, v ∉ P → r.edg v = []

/-- well-formed source: distinct labels per vertex, no self-loops (bind endpoints are distinct) -/
structure SrcOK : Prop where
  nodup : ∀ x, ((src x).map Prod.fst).Nodup
  noself : ∀ x, ∀ p ∈ src x, p.2 ≠ x

theorem rebuild_spec (hs : SrcOK src) : ∀ (xs : List Nat) (r : R L D) (P : List Nat),
    RB src kept r P → (∀ x ∈ xs, kept x = true ∧ x ∉ P) → xs.Nodup →
    RB src kept (rebuild src kept r xs) (xs.reverse ++ P) ∧
    (∀ v, v ∈ (rebuild src kept r xs).ids → v ∈ r.ids ∨ v ∈ xs ∨ ∃ x ∈ xs, ∃ p ∈ src x, kept p.2 = true ∧ p.2 = v) ∧
    (∀ v, v ∈ r.ids ∨ v ∈ xs → v ∈ (rebuild src kept r xs).ids) := by
  intro xs
  induction xs with
  | nil => intro r P h _ _; simp [rebuild]; exact h
  | cons x rest ih =>
    intro r P h hxs hnd
    simp only [List.nodup_cons] at hnd
    obtain ⟨hkx, hxP⟩ := hxs x (by simp)
    -- after `add x`
    have hx1 : x ∈ (r.add x).ids := by
      by_cases hx : x ∈ r.ids
      · rw [R.add_present_noop r x hx]; exact hx
      · exact (R.add_absent_blank r x hx).1
    have he1 : (r.add x).edg x = [] := by
      by_cases hx : x ∈ r.ids
      · rw [R.add_present_noop r x hx]; exact h.blank x hx hxP
      · exact (R.add_absent_blank r x hx).2.1
    obtain ⟨e1, e2, e3, e4⟩ := rebuildEdges_spec kept x (src x) (r.add x) [] hx1 he1
      (by simpa using hs.nodup x) (hs.noself x)
    simp only [List.nil_append] at e1
    -- facts about `r.add x` relative to `r`
    have ids1 : ∀ v, v ∈ (r.add x).ids ↔ (v ∈ r.ids ∨ v = x) := by
      intro v
      by_cases hx : x ∈ r.ids
      · rw [R.add_present_noop r x hx]
        exact ⟨Or.inl, fun h0 => h0.elim id (fun e => e ▸ hx)⟩
      · simp [R.add, hx]
        exact ⟨fun h0 => h0.elim Or.inr Or.inl, fun h0 => h0.elim Or.inr Or.inl⟩
    have edg1 : ∀ v, v ≠ x → (r.add x).edg v = r.edg v := by
      intro v hv
      by_cases hx : x ∈ r.ids
      · rw [R.add_present_noop r x hx]
      · exact ((R.add_absent_blank r x hx).2.2.2.2.2 v hv).2.1
    -- the invariant after rebuilding x
    have inv1 : RB src kept (rebuildEdges kept x (r.add x) (src x)) (x :: P) := by
      refine ⟨?_, ?_, ?_⟩
      · intro v hv
        rcases (e2 v).1 hv with h0 | ⟨p, _, hkp, rfl⟩
        · rcases (ids1 v).1 h0 with h1 | rfl
          · exact h.allKept v h1
          · exact hkx
        · exact hkp
      · intro y hy
        simp only [List.mem_cons] at hy
        rcases hy with rfl | hy
        · exact ⟨(e2 y).2 (Or.inl hx1), e1⟩
        · have hyx : y ≠ x := by rintro rfl; exact hxP hy
          obtain ⟨hy1, hy2⟩ := h.done y hy
          have hy3 : y ∈ (r.add x).ids := (ids1 y).2 (Or.inl hy1)
          exact ⟨(e2 y).2 (Or.inl hy3), by rw [e3 y hyx hy3, edg1 y hyx]; exact hy2⟩
      · intro v hv hvP
        simp only [List.mem_cons, not_or] at hvP
        by_cases hv1 : v ∈ (r.add x).ids
        · rw [e3 v hvP.1 hv1, edg1 v hvP.1]
          rcases (ids1 v).1 hv1 with h1 | h1
          · exact h.blank v h1 hvP.2
          · exact absurd h1 hvP.1
        · exact e4 v hv1 hv
    have hrest : ∀ y ∈ rest, kept y = true ∧ y ∉ x :: P := by
      intro y hy
      obtain ⟨hk, hp⟩ := hxs y (List.mem_cons_of_mem _ hy)
      refine ⟨hk, ?_⟩
      simp only [List.mem_cons, not_or]
      exact ⟨by rintro rfl; exact hnd.1 hy, hp⟩
    obtain ⟨f1, f2, f3⟩ := ih _ (x :: P) inv1 hrest hnd.2
    simp only [rebuild]
    refine ⟨by simpa using f1, ?_, ?_⟩
    · intro v hv
      rcases f2 v hv with h0 | h0 | ⟨y, hy, p, hp, hkp, rfl⟩
      · rcases (e2 v).1 h0 with h1 | ⟨p, hp, hkp, rfl⟩
        · rcases (ids1 v).1 h1 with h2 | rfl
          · exact Or.inl h2
          · exact Or.inr (Or.inl (by simp))
        · exact Or.inr (Or.inr ⟨x, by simp, p, hp, hkp, rfl⟩)
      · exact Or.inr (Or.inl (List.mem_cons_of_mem _ h0))
      · exact Or.inr (Or.inr ⟨y, List.mem_cons_of_mem _ hy, p, hp, hkp, rfl⟩)
    · intro v hv
      apply f3
      rcases hv with h0 | h0
      · exact Or.inl ((e2 v).2 (Or.inl ((ids1 v).2 (Or.inl h0))))
      · simp only [List.mem_cons] at h0
        rcases h0 with rfl | h0
        · exact Or.inl ((e2 v).2 (Or.inl hx1))
        · exact Or.inr h0

/-- **C13, rebuild**: from the empty reference, over the kept ids (each once, any order in which the slots are
    visited), when kept is closed under the kept edges: the vertices are exactly the kept ones and every kept vertex
    has exactly the source's edges into kept vertices, in source order. -/
theorem slice_rebuild (hs : SrcOK src) (xs : List Nat) (hnd : xs.Nodup) (hall : ∀ v, kept v = true ↔ v ∈ xs)
    (hclosed : ∀ x ∈ xs, ∀ p ∈ src x, kept p.2 = true → p.2 ∈ xs) :
    let r' := rebuild src kept (R.empty : R L D) xs
    (∀ v, v ∈ r'.ids ↔ v ∈ xs) ∧ ∀ x ∈ xs, r'.edg x = (src x).filter (fun p => kept p.2) := by
  have h0 : RB src kept (R.empty : R L D) [] := ⟨by simp [R.empty], by simp, by simp [R.empty]⟩
  obtain ⟨f1, f2, f3⟩ := rebuild_spec src kept hs xs R.empty [] h0
    (fun x hx => ⟨(hall x).2 hx, by simp⟩) hnd
  refine ⟨?_, ?_⟩
  · intro v
    constructor
    · intro hv
      rcases f2 v hv with h1 | h1 | ⟨x, hx, p, hp, hkp, rfl⟩
      · simp [R.empty] at h1
      · exact h1
      · exact hclosed x hx p hp hkp
    · intro hv; exact f3 v (Or.inr hv)
  · intro x hx
    exact (f1.done x (by simp [hx])).2

#print axioms slice_rebuild
end Sodg
