import Core.RelData
set_option linter.unusedSectionVars false
namespace Sodg

variable {L D : Type} [DecidableEq L] [Inhabited D]

theorem rel_setEdge (g : G L D) (r : R L D) (v1 v2 : Nat) (a : L) (h : Rel g r) (hv : v1 ∈ r.ids) :
    Rel (setEdges g v1 (upsert (edg g v1) a v2)) (r.setEdge v1 v2 a) := by
  have hvc := (h.alive v1).1 hv
  refine ⟨inv_setEdges g v1 _ h.inv, h.nd, by simpa [R.setEdge] using h.alive, by simpa [R.setEdge] using h.ungr, by simpa [R.setEdge] using h.same,
    by simpa [R.setEdge] using h.unr, h.lt, ?_, by simpa [R.setEdge] using h.data, h.pos⟩
  intro w hw
  simp only [R.setEdge, upd_get, edg_setEdges]
  by_cases hwv : v1 = w
  · subst hwv; simp [hvc.1, h.edges v1 hv]
  · have : ¬ w = v1 := fun e => hwv e.symm
    simp [hwv, this]; exact h.edges w hw

theorem rel_add (g g' : G L D) (r : R L D) (v : Nat) (h : Rel g r) (ha : add g v = some g') : Rel g' (r.add v) := by
  have hinv' := inv_add g g' v h.inv ha
  unfold add at ha
  split at ha
  next hv =>
    split at ha
    next ht =>
      cases ha
      have hvn : v ∉ r.ids := by intro hm; exact ((h.alive v).1 hm).2 ht
      have tag' : ∀ w, tag { g with vs := g.vs.setIfInBounds v { (blank : Vertex L D) with branch := 1 } } w =
          if v = w then 1 else tag g w := by
        intro w; unfold tag cap at *; by_cases hw : w < g.vs.size <;> grind [blank]
      have pers' : ∀ w, pers { g with vs := g.vs.setIfInBounds v { (blank : Vertex L D) with branch := 1 } } w =
          if v = w then .empty else pers g w := by
        intro w; unfold pers cap at *; by_cases hw : w < g.vs.size <;> grind [blank]
      have cap' : cap { g with vs := g.vs.setIfInBounds v { (blank : Vertex L D) with branch := 1 } } = cap g := by simp [cap]
      have edg' : ∀ w, edg { g with vs := g.vs.setIfInBounds v { (blank : Vertex L D) with branch := 1 } } w =
          if v = w then [] else edg g w := by
        intro w; unfold edg cap at *; by_cases hw : w < g.vs.size <;> grind [blank]
      have dat' : ∀ w, v ≠ w → dat { g with vs := g.vs.setIfInBounds v { (blank : Vertex L D) with branch := 1 } } w = dat g w := by
        intro w hne; unfold dat; by_cases hw : w < g.vs.size <;> grind
      simp only [R.add, hvn, if_false]
      refine ⟨hinv', List.nodup_cons.2 ⟨hvn, h.nd⟩, ?_, ?_, ?_, ?_, ?_, ?_, ?_, h.pos⟩
      · intro w; rw [tag', cap']; simp only [List.mem_cons]
        by_cases hvw : v = w
        · subst hvw; simp [hv]
        · have : ¬ w = v := fun e => hvw e.symm
          simp [hvw, this]; exact h.alive w
      · intro w hw; rw [tag']; simp only [List.mem_cons] at hw
        by_cases hvw : v = w
        · subst hvw; simp
        · have hne : ¬ w = v := fun e => hvw e.symm
          simp [hvw, upd_get, hne]; exact h.ungr w (by simpa [hne] using hw)
      · intro w hw x hx
        simp only [List.mem_cons] at hw hx
        rw [tag', tag']
        by_cases hvw : v = w
        · subst hvw; simp
        · have hne : ¬ w = v := fun e => hvw e.symm
          have hw' : w ∈ r.ids := by simpa [hne] using hw
          by_cases hvx : v = x
          · subst hvx
            simp [hvw, upd_get, hne]
            intro hg1 hg2
            omega
          · have hnx : ¬ x = v := fun e => hvx e.symm
            have hx' : x ∈ r.ids := by simpa [hnx] using hx
            simp [hvw, hvx, upd_get, hne, hnx]; simpa using h.same w hw' x hx'
      · intro w hw; simp only [List.mem_cons] at hw; rw [pers']
        by_cases hvw : v = w
        · subst hvw; simp
        · have hne : ¬ w = v := fun e => hvw e.symm
          simp [hvw, upd_get, hne]; exact h.unr w (by simpa [hne] using hw)
      · intro w hw k hk; simp only [List.mem_cons] at hw
        by_cases hvw : w = v
        · subst hvw; simp at hk
        · simp [upd_get, hvw] at hk; exact h.lt w (by simpa [hvw] using hw) k hk
      · intro w hw; simp only [List.mem_cons] at hw; rw [edg']
        by_cases hvw : v = w
        · subst hvw; simp
        · have hne : ¬ w = v := fun e => hvw e.symm
          simp [hvw, upd_get, hne]; exact h.edges w (by simpa [hne] using hw)
      · intro w hw; simp only [List.mem_cons] at hw; rw [pers']
        by_cases hvw : v = w
        · subst hvw; simp
        · have hne : ¬ w = v := fun e => hvw e.symm
          simp only [hvw, if_false, upd_get, hne]; rw [dat' w hvw]; exact h.data w (by simpa [hne] using hw)
    next ht =>
      cases ha
      have : v ∈ r.ids := (h.alive v).2 ⟨hv, ht⟩
      simp [R.add, this]; exact h
  · cases ha

theorem rel_put (g g' : G L D) (r : R L D) (v : Nat) (d) (h : Rel g r) (hv : v ∈ r.ids)
    (hp : put g v d = some g') : Rel g' (r.put v d) := by
  have hvc := (h.alive v).1 hv
  have hinv' := inv_put g g' v d h.inv hvc.2 hp
  have key : ∀ g1 : G L D, (∀ w, tag g1 w = tag g w) → cap g1 = cap g →
      (∀ w, pers g1 w = if v = w then .stored else pers g w) →
      (∀ w, edg g1 w = edg g w) → (∀ w, dat g1 w = if v = w then d else dat g w) → g1.next = g.next →
      Inv g1 → Rel g1 (r.put v d) := by
    intro g1 ht hc hpe hed hda hnx hi
    refine ⟨hi, h.nd, ?_, ?_, ?_, ?_, h.lt, ?_, ?_, by rw [hnx]; exact h.pos⟩
    rotate_left 4
    · intro w hw; rw [hed]; exact h.edges w hw
    · intro w hw; rw [hpe, hda]; simp only [R.put, upd_get]
      by_cases hvw : v = w
      · subst hvw; simp
      · have hne : ¬ w = v := fun e => hvw e.symm
        simp only [hvw, if_false, hne]; exact h.data w hw
    · intro w; rw [ht, hc]; exact h.alive w
    · intro w hw; rw [ht]; exact h.ungr w hw
    · intro w hw x hx; rw [ht, ht]; exact h.same w hw x hx
    · intro w hw; rw [hpe]; simp only [R.put]
      by_cases hvw : v = w
      · subst hvw; simp
      · have hne : ¬ w = v := fun e => hvw e.symm
        simp [hvw, upd_get, hne]; exact h.unr w hw
  unfold put at hp
  rw [if_pos hvc.1] at hp
  simp only at hp
  have hpers : ∀ w, pers (setData (setPers g v .stored) v d) w = if v = w then .stored else pers g w := by
    intro w; simp [pers_setPers]
    by_cases hvw : v = w
    · subst hvw; simp [hvc.1]
    · simp [hvw]
  have hdat : ∀ w, dat (setData (setPers g v .stored) v d) w = if v = w then d else dat g w := by
    intro w; simp [dat_setData]
    by_cases hvw : v = w
    · subst hvw; simp [hvc.1]
    · simp [hvw]
  split at hp
  · split at hp
    · cases hp; exact key _ (by simp) (by simp) (by simpa using hpers) (by simp) (by simpa using hdat) (by simp) hinv'
    · cases hp
  · cases hp; exact key _ (by simp) (by simp) hpers (by simp) hdat (by simp) hinv'

/-- joining an ungrouped vertex `v` to slot `b` that stands for reference group `k` -/
theorem rel_joinGrp (g g' : G L D) (r : R L D) (v b k f' : Nat) (h : Rel g r) (hv : v ∈ r.ids)
    (ht : tag g v = 1) (hb2 : 2 ≤ b) (hb16 : b < 16)
    (H : ∀ w ∈ r.ids, (r.grp w = some k ↔ tag g w = b)) (hk : k < f') (hf : r.fresh ≤ f')
    (hj : joinGrp g v b = some g') :
    Rel g' { r with grp := upd r.grp v (some k), fresh := f' } := by
  have hvc := (h.alive v).1 hv
  have hinv' := inv_joinGrp g g' v b h.inv hvc.1 ht hb2 hb16 hj
  unfold joinGrp at hj
  split at hj
  next hlen =>
    cases hj
    have tag' : ∀ w, tag (enroll (pushMem (setTag g v b) b v) v b) w = if v = w then b else tag g w := by
      intro w; unfold enroll; split <;> simp [tag_setTag] <;> grind
    have pers' : ∀ w, pers (enroll (pushMem (setTag g v b) b v) v b) w = pers g w := by
      intro w; unfold enroll; split <;> simp
    have cap' : cap (enroll (pushMem (setTag g v b) b v) v b) = cap g := by
      unfold enroll; split <;> simp
    have edg' : ∀ w, edg (enroll (pushMem (setTag g v b) b v) v b) w = edg g w := by
      intro w; unfold enroll; split <;> simp
    have dat' : ∀ w, dat (enroll (pushMem (setTag g v b) b v) v b) w = dat g w := by
      intro w; unfold enroll; split <;> simp
    have next' : (enroll (pushMem (setTag g v b) b v) v b).next = g.next := by
      unfold enroll; split <;> simp
    refine ⟨hinv', h.nd, ?_, ?_, ?_, ?_, ?_, ?_, ?_, by rw [next']; exact h.pos⟩
    rotate_left 5
    · intro w hw; rw [edg']; exact h.edges w hw
    · intro w hw; rw [pers', dat']; exact h.data w hw
    · intro w; rw [tag', cap']
      by_cases hvw : v = w
      · subst hvw; simp [hv, hvc.1]; omega
      · simp [hvw]; exact h.alive w
    · intro w hw; rw [tag']
      by_cases hvw : v = w
      · subst hvw; simp; omega
      · have hne : ¬ w = v := fun e => hvw e.symm
        simp [hvw, upd_get, hne]; exact h.ungr w hw
    · intro w hw x hx
      rw [tag', tag']
      simp only [upd_get]
      by_cases hvw : w = v <;> by_cases hvx : x = v
      · subst hvw; subst hvx; simp; omega
      · subst hvw
        have hxv : ¬ w = x := fun e => hvx e.symm
        simp [hvx, hxv]
        have := H x hx
        constructor
        · intro hg; exact ⟨hb2, (this.1 hg.symm).symm⟩
        · intro ⟨_, hb⟩; exact (this.2 hb.symm).symm
      · subst hvx
        have hwv : ¬ x = w := fun e => hvw e.symm
        simp [hvw, hwv]
        have := H w hw
        constructor
        · intro ⟨_, hg⟩; have hb := this.1 hg; exact ⟨by omega, hb⟩
        · intro ⟨_, hb⟩; have := this.2 hb; exact ⟨by simp [this], this⟩
      · have h1 : ¬ v = w := fun e => hvw e.symm
        have h2 : ¬ v = x := fun e => hvx e.symm
        simp [hvw, hvx, h1, h2]; simpa using h.same w hw x hx
    · intro w hw; rw [pers']; exact h.unr w hw
    · intro w hw k' hk'
      show k' < f'
      simp only [upd_get] at hk'
      by_cases hvw : w = v
      · simp [hvw] at hk'; omega
      · simp [hvw] at hk'; have := h.lt w hw k' hk'; omega
  · cases hj

#print axioms rel_add
#print axioms rel_put
#print axioms rel_joinGrp
end Sodg
