import Core.Holes
set_option linter.unusedSectionVars false
/-! # `merge()` in full, `join` included, on arbitrary graphs

`mergeRecX` is `merge_rec` of `merge.rs` as a program over `stepX` (Core/Holes.lean): the first loop as in
`mergeRec2`, the second loop calling `fix left a second` — which performs `join` when `kid(left, a)` and
`mapped[to]` differ — instead of leaving the model. The right graph may have removed slots too (it may be the left
graph of an earlier non-tree merge): reading such a slot, or one at or above the capacity, is the panic of
`g.vertices.get(right).unwrap()`. `mergeX` adds the completeness check of `merge()`.

`msx_mergeX`: whatever the two graphs look like — trees or not — and however the call ends (`Ok`, `Err`, a panic
half-way through, inside `join` or not), the left graph keeps the memory-safety invariant. -/
namespace Sodg
open P

variable {L D : Type} [DecidableEq L] [Inhabited D]

/-- the right graph as `merge` reads it, with the slots it cannot read -/
structure RightViewX (L D : Type) where
  edges : Nat → List (L × Nat)
  data : Nat → Option D            -- `none` = persistence Empty
  keys : List Nat                  -- present vertices
  accv : Nat → Bool                -- `vertices.get(v)` is `Some`

abbrev XProg (L D : Type) := Prog (OpX L D) (Out L D)

/-- the second loop of `merge_rec`: `kid(left, a)` is asked for every edge; `join` when the table disagrees -/
def secondPassX (left : Nat) : List (L × Nat) → Mapped → XProg L D Unit
  | [], _ => .ret ()
  | (a, to) :: rest, m =>
    match mlookup m to with
    | some second => .call (.fix left a second) (fun _ => secondPassX left rest m)
    | none => .call (.core (.kid left a)) (fun _ => secondPassX left rest m)

def putPX (left : Nat) : Option D → XProg L D Unit
  | some d => .call (.core (.put left d)) (fun _ => .ret ())
  | none => .ret ()

def afterKidsX (left : Nat) (es : List (L × Nat)) (m2 : Mapped) : XProg L D Mapped :=
  (secondPassX left es m2).bind (fun _ => .ret m2)

mutual
def mergeRecX (h : RightViewX L D) : Nat → Nat → Nat → Mapped → XProg L D Mapped
  | 0, _, _, _ => .fail
  | fuel + 1, left, right, m =>
    if (mlookup m right).isSome then .ret m
    else if h.accv right then
      (putPX left (h.data right)).bind (fun _ =>
        (kidsFoldX h fuel left (h.edges right) ((right, left) :: m)).bind (afterKidsX left (h.edges right)))
    else .fail
def kidsFoldX (h : RightViewX L D) : Nat → Nat → List (L × Nat) → Mapped → XProg L D Mapped
  | _, _, [], m => .ret m
  | fuel, left, (a, to) :: rest, m =>
    .call (.core (.kid left a)) (fun o =>
      match o with
      | .kid (some t) => (mergeRecX h fuel t to m).bind (fun m' => kidsFoldX h fuel left rest m')
      | .kid none =>
        match mlookup m to with
        | some t => .call (.core (.bind left t a)) (fun _ =>
            (mergeRecX h fuel t to m).bind (fun m' => kidsFoldX h fuel left rest m'))
        | none => .call (.core .nextId) (fun o2 => match o2 with
          | .id i => .call (.core (.add i)) (fun _ => .call (.core (.bind left i a)) (fun _ =>
              (mergeRecX h fuel i to m).bind (fun m' => kidsFoldX h fuel left rest m')))
          | _ => .fail)
      | _ => .fail)
end

def viewOfX (hx : GX L D) : RightViewX L D :=
  { edges := fun v => edg hx.g v,
    data := fun v => if pers hx.g v = .empty then none else some (dat hx.g v),
    keys := keysX hx,
    accv := hx.acc }

inductive MergeOutX where
  | ok
  | err (missed : List Nat)
deriving DecidableEq, Repr

/-- `x.merge(&hx, left, right)`: the left graph as the call leaves it and the outcome (`none` = panic) -/
def mergeX (x hx : GX L D) (left right : Nat) : GX L D × Option MergeOutX :=
  match P.runT stepX (mergeRecX (viewOfX hx) (cap hx.g + 1) left right []) x with
  | (x', none) => (x', none)
  | (x', some m) =>
    if (mkeys m).length = (keysX hx).length then (x', some .ok)
    else (x', some (.err ((keysX hx).filter (fun v => decide (v ∉ mkeys m)))))

/-- **`merge` of arbitrary graphs keeps every computed index in range** — trees or not, `join` or not, `Ok`, `Err` or a
    panic half-way -/
theorem msx_mergeX (x hx : GX L D) (h : MSX x) (left right : Nat) : MSX (mergeX x hx left right).1 := by
  unfold mergeX
  have := P.runT_inv (stepX (L := L) (D := D)) MSX (fun s op hs => msx_stepX s hs op)
    (mergeRecX (viewOfX hx) (cap hx.g + 1) left right []) x h
  split
  · rename_i x' hx'; rw [hx'] at this; exact this
  · rename_i x' m hx'; rw [hx'] at this; split <;> exact this

/-- the capacity never changes, whatever happens -/
theorem cap_collectX' (x : GX L D) (g1 : G L D) (b : Nat) : cap (collectX x g1 b).1 = cap g1 := cap_collectX x g1 b

end Sodg
