import Core.InvOps
set_option linter.unusedSectionVars false
namespace Sodg

variable {L D : Type} [DecidableEq L] [Inhabited D]

@[simp] theorem kill_size (vs : Array (Vertex L D)) (ms : List Nat) : (kill vs ms).size = vs.size := by
  unfold kill
  induction ms generalizing vs with
  | nil => simp
  | cons m ms ih => simp [List.foldl_cons, ih]

theorem kill_get (vs : Array (Vertex L D)) (ms : List Nat) (w : Nat) :
    (kill vs ms)[w]! = if w ∈ ms ∧ w < vs.size then { vs[w]! with branch := 0 } else vs[w]! := by
  unfold kill
  induction ms generalizing vs with
  | nil => simp
  | cons m ms ih =>
    simp only [List.foldl_cons]
    rw [ih]
    by_cases hw : w < vs.size <;> by_cases hm : w ∈ ms <;> by_cases he : m = w <;> grind

@[simp] theorem cap_collect (g : G L D) (b : Nat) : cap (collect g b) = cap g := by simp [cap, collect]
theorem tag_collect (g : G L D) (b w : Nat) :
    tag (collect g b) w = if w ∈ mem g b ∧ w < cap g then 0 else tag g w := by
  unfold tag collect cap; simp only [kill_get]; split <;> simp
@[simp] theorem pers_collect (g : G L D) (b w : Nat) : pers (collect g b) w = pers g w := by
  unfold pers collect; simp only [kill_get]; split <;> simp
theorem mem_collect (g : G L D) (b c : Nat) :
    mem (collect g b) c = if b = c ∧ c < g.br.size then [] else mem g c := by
  unfold mem collect; by_cases h : c < g.br.size <;> grind
@[simp] theorem cnt_collect (g : G L D) (b c : Nat) : cnt (collect g b) c = cnt g c := rfl
@[simp] theorem brsize_collect (g : G L D) (b : Nat) : (collect g b).br.size = g.br.size := by simp [collect]
@[simp] theorem stsize_collect (g : G L D) (b : Nat) : (collect g b).st.size = g.st.size := rfl

theorem unread_setPers_of_mem (g : G L D) (ms : List Nat) (hn : ms.Nodup) (v : Nat) (hv : v ∈ ms) (hc : v < cap g)
    (hp : pers g v = .stored) : unread g ms = unread (setPers g v .taken) ms + 1 := by
  unfold unread
  induction ms with
  | nil => cases hv
  | cons m ms ih =>
    simp only [List.nodup_cons] at hn
    by_cases hm : m = v
    · subst hm
      have : ms.filter (fun w => decide (pers (setPers g m .taken) w = .stored)) =
             ms.filter (fun w => decide (pers g w = .stored)) := by
        apply List.filter_congr; intro w hw
        have : m ≠ w := by rintro rfl; exact hn.1 hw
        simp [pers_setPers, this]
      have e1 : pers (setPers g m .taken) m = .taken := by simp [pers_setPers, hc]
      simp only [List.filter_cons, hp, e1, this]
      simp
    · have hv' : v ∈ ms := by simpa [Ne.symm hm] using hv
      have := ih hn.2 hv'
      have e : pers (setPers g v .taken) m = pers g m := by simp [pers_setPers, Ne.symm hm]
      simp only [List.filter_cons, e]
      split <;> simp_all

theorem unread_setPers_of_not_mem (g : G L D) (ms : List Nat) (v : Nat) (p : Pers) (hv : v ∉ ms) :
    unread (setPers g v p) ms = unread g ms := by
  apply unread_congr; intro w hw
  have : v ≠ w := by rintro rfl; exact hv hw
  simp [pers_setPers, this]

theorem inv_data (g g' : G L D) (v : Nat) (r) (hi : Inv g) (hpres : tag g v ≠ 0) (h : data g v = some (g', r)) : Inv g' := by
  unfold data at h
  split at h
  next hv =>
    split at h
    · cases h; exact hi
    · cases h; exact hi
    next hp =>
      simp only at h
      have hbr := hi.brsz
      have hst := hi.stsz
      -- facts about setPers g v .taken that do not depend on the case
      have base : ∀ c, 2 ≤ c → c < 16 → c ≠ tag g v → cnt g c = unread (setPers g v .taken) (mem g c) := by
        intro c h2 h16 hne
        rw [unread_setPers_of_not_mem, hi.count c h2 h16]
        intro hm; exact hne (hi.memb c h2 h16 v hm).2.symm
      split at h
      next hb1 =>
        cases h
        refine ⟨hbr, hst, hi.s0, hi.s1, ?_, ?_, ?_, ?_, ?_⟩
        · intro w hw; simpa using hi.taglt w (by simpa using hw)
        · intro c h2 h16 w hw; simpa using hi.memb c h2 h16 w hw
        · intro c h2 h16; exact hi.nodup c h2 h16
        · intro w hw h2; simpa using hi.own w (by simpa using hw) (by simpa using h2)
        · intro c h2 h16; simp; exact base c h2 h16 (by omega)
      next hb1 =>
        split at h
        next hlt =>
          have hb2 : 2 ≤ tag g v := by omega
          have hvm : v ∈ mem g (tag g v) := hi.own v hv hb2
          have hnd := hi.nodup _ hb2 hlt
          have hcnt := hi.count _ hb2 hlt
          have hone := unread_setPers_of_mem g _ hnd v hvm hv hp
          split at h
          · cases h
          next hnz =>
            split at h
            next h1 =>
              -- last unread datum: collect the group
              cases h
              refine ⟨by simp [hbr], by simp [hst], ?_, ?_, ?_, ?_, ?_, ?_, ?_⟩
              · rw [mem_collect]; simp; have := hi.s0; grind
              · rw [mem_collect]; simp; have := hi.s1; grind
              · intro w hw; rw [tag_collect]; split
                · omega
                · simpa using hi.taglt w (by simpa using hw)
              · intro c h2 h16 w hw
                rw [mem_collect] at hw
                split at hw
                · cases hw
                next hne =>
                  simp at hw
                  have hm := hi.memb c h2 h16 w hw
                  refine ⟨by simpa using hm.1, ?_⟩
                  rw [tag_collect]
                  have : w ∉ mem g (tag g v) := by
                    intro hw'
                    have := (hi.memb _ hb2 hlt w hw').2
                    have hc : tag g v = c := by omega
                    apply hne; simp [hc, hbr, h16]
                  simp [this]; simpa using hm.2
              · intro c h2 h16; rw [mem_collect]; split
                · simp
                · simpa using hi.nodup c h2 h16
              · intro w hw h2
                rw [tag_collect] at h2 ⊢
                split at h2
                · omega
                next hnm =>
                  have hw' : w < cap g := by simpa using hw
                  simp at h2
                  have ho := hi.own w hw' h2
                  have hne : tag g w ≠ tag g v := by
                    intro he; rw [he] at ho; simp [hw'] at hnm; exact hnm ho
                  simp only [hnm, if_false]
                  rw [mem_collect]
                  simp [tag_setPers, Ne.symm hne]; simpa using ho
              · intro c h2 h16
                rw [mem_collect]
                by_cases hc : tag g v = c
                · subst hc
                  simp [hbr, hlt, cnt_decr, hst, unread]
                  omega
                · simp [hc, cnt_decr]
                  have hu : unread (collect (decr (setPers g v .taken) (tag g v)) (tag g v)) (mem g c)
                      = unread (setPers g v .taken) (mem g c) := by
                    apply unread_congr; intro x _; simp
                  rw [hu]; exact base c h2 h16 (Ne.symm hc)
            next h1 =>
              cases h
              refine ⟨hbr, by simp [hst], hi.s0, hi.s1, ?_, ?_, ?_, ?_, ?_⟩
              · intro w hw; simpa using hi.taglt w (by simpa using hw)
              · intro c h2 h16 w hw; simpa using hi.memb c h2 h16 w hw
              · intro c h2 h16; exact hi.nodup c h2 h16
              · intro w hw h2; simpa using hi.own w (by simpa using hw) (by simpa using h2)
              · intro c h2 h16
                have hu : unread (decr (setPers g v .taken) (tag g v)) (mem g c)
                      = unread (setPers g v .taken) (mem g c) := by
                    apply unread_congr; intro x _; simp
                simp only [mem_decr, mem_setPers]
                rw [hu]
                by_cases hc : tag g v = c
                · subst hc; simp [cnt_decr, hst, hlt]; omega
                · simp [cnt_decr, hc]; exact base c h2 h16 (Ne.symm hc)
        · cases h
  · cases h

#print axioms inv_data
end Sodg
