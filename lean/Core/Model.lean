/-! Probe v2: the repaired graph core, polymorphic in the label type `L` and the datum type `D`
    (the framework instantiates `L := Label`, `D := Hex`), with every public operation and its output. -/
namespace Sodg

inductive Pers | empty | stored | taken
deriving DecidableEq, Repr, Inhabited

structure Vertex (L D : Type) where
  branch : Nat
  data : D
  pers : Pers
  edges : List (L × Nat)
deriving Repr

structure G (L D : Type) where
  n : Nat
  vs : Array (Vertex L D)
  br : Array (List Nat)
  st : Array Nat
  next : Nat

variable {L D : Type} [DecidableEq L] [Inhabited D]

def blank : Vertex L D := ⟨0, default, .empty, []⟩

instance : Inhabited (Vertex L D) := ⟨blank⟩

def empty (n cap : Nat) : G L D :=
  { n, vs := Array.replicate cap blank,
    br := ((Array.replicate 16 ([] : List Nat)).setIfInBounds 0 [0]).setIfInBounds 1 [0],
    st := Array.replicate 16 0, next := 0 }

def tag (g : G L D) (v : Nat) : Nat := g.vs[v]!.branch
def pers (g : G L D) (v : Nat) : Pers := g.vs[v]!.pers
def dat (g : G L D) (v : Nat) : D := g.vs[v]!.data
def edg (g : G L D) (v : Nat) : List (L × Nat) := g.vs[v]!.edges
def mem (g : G L D) (b : Nat) : List Nat := g.br[b]!
def cnt (g : G L D) (b : Nat) : Nat := g.st[b]!
def cap (g : G L D) : Nat := g.vs.size

def upsert (es : List (L × Nat)) (a : L) (t : Nat) : List (L × Nat) :=
  match es with
  | [] => [(a, t)]
  | (b, u) :: r => if b = a then (b, t) :: r else (b, u) :: upsert r a t

def lookup (es : List (L × Nat)) (a : L) : Option Nat :=
  match es with
  | [] => none
  | (b, u) :: r => if b = a then some u else lookup r a

-- micro-steps -------------------------------------------------------------
def setTag (g : G L D) (v b : Nat) : G L D := { g with vs := g.vs.modify v (fun x => { x with branch := b }) }
def setPers (g : G L D) (v : Nat) (p : Pers) : G L D := { g with vs := g.vs.modify v (fun x => { x with pers := p }) }
def setData (g : G L D) (v : Nat) (d : D) : G L D := { g with vs := g.vs.modify v (fun x => { x with data := d }) }
def setEdges (g : G L D) (v : Nat) (e : List (L × Nat)) : G L D := { g with vs := g.vs.modify v (fun x => { x with edges := e }) }
def pushMem (g : G L D) (b v : Nat) : G L D := { g with br := g.br.modify b (· ++ [v]) }
def incr (g : G L D) (b : Nat) : G L D := { g with st := g.st.modify b (· + 1) }
def decr (g : G L D) (b : Nat) : G L D := { g with st := g.st.modify b (· - 1) }
def kill (vs : Array (Vertex L D)) (ms : List Nat) : Array (Vertex L D) :=
  ms.foldl (fun a v => a.modify v (fun x => { x with branch := 0 })) vs
def collect (g : G L D) (b : Nat) : G L D := { g with vs := kill g.vs (mem g b), br := g.br.setIfInBounds b [] }
def enroll (g : G L D) (v b : Nat) : G L D := if pers g v = .stored then incr g b else g
def setNext (g : G L D) (k : Nat) : G L D := { g with next := k }

def joinGrp (g : G L D) (v b : Nat) : Option (G L D) :=
  if (mem g b).length < 16 then some (enroll (pushMem (setTag g v b) b v) v b) else none

def firstEmpty (g : G L D) : Option Nat := (List.range 16).find? (fun b => mem g b = [])

-- operations (none = panic) ------------------------------------------------
def add (g : G L D) (v : Nat) : Option (G L D) :=
  if v < cap g then
    if tag g v = 0 then some { g with vs := g.vs.setIfInBounds v { (blank : Vertex L D) with branch := 1 } } else some g
  else none

def put (g : G L D) (v : Nat) (d : D) : Option (G L D) :=
  if v < cap g then
    let g1 := setData (setPers g v .stored) v d
    if pers g v ≠ .stored ∧ tag g v ≠ 1 then
      (if tag g v < 16 then some (incr g1 (tag g v)) else none)
    else some g1
  else none

def data (g : G L D) (v : Nat) : Option (G L D × Option D) :=
  if v < cap g then
    match pers g v with
    | .empty => some (g, none)
    | .taken => some (g, some (dat g v))
    | .stored =>
      let b := tag g v
      let g1 := setPers g v .taken
      if b = 1 then some (g1, some (dat g v))
      else if b < 16 then
        if cnt g b = 0 then none
        else if cnt g b = 1 then some (collect (decr g1 b) b, some (dat g v))
        else some (decr g1 b, some (dat g v))
      else none
  else none

/-- the group part of `bind`, on the state in which the edge is already written -/
def bindGrp (g0 : G L D) (v1 v2 : Nat) : Option (G L D) :=
  if tag g0 v1 = 1 then
    if tag g0 v2 = 1 then
      match firstEmpty g0 with
      | some b => (joinGrp g0 v1 b).bind (fun g1 => joinGrp g1 v2 b)
      | none => none
    else joinGrp g0 v1 (tag g0 v2)
  else if tag g0 v2 = 1 then joinGrp g0 v2 (tag g0 v1)
  else some g0

def bind (g : G L D) (v1 v2 : Nat) (a : L) : Option (G L D) :=
  if v1 < cap g ∧ v2 < cap g then
    if (upsert (edg g v1) a v2).length ≤ g.n then
      bindGrp (setEdges g v1 (upsert (edg g v1) a v2)) v1 v2
    else none
  else none

def kid (g : G L D) (v : Nat) (a : L) : Option (Option Nat) :=
  if v < cap g then some (lookup (edg g v) a) else none

def kids (g : G L D) (v : Nat) : Option (List (L × Nat)) :=
  if v < cap g then some (edg g v) else none

def keys (g : G L D) : List Nat := (List.range (cap g)).filter (fun v => tag g v ≠ 0)

def nextId (g : G L D) : Option (G L D × Nat) :=
  match (List.range (cap g)).find? (fun v => tag g v = 0 ∧ g.next ≤ v) with
  | none => none
  | some id => some (if g.next < id + 1 then setNext g (id + 1) else g, id)

end Sodg
