import Core.MergeAgree
set_option linter.unusedSectionVars false
/-! # `merge` terminates on every pair of graphs, and the fuel of the model is never what stops it

`merge_rec` has no measure of its own: it recurses along the edges of the right graph, which may be cyclic (it is only
*expected* to be a tree). What stops it is the table `mapped`: a vertex that is in it is not entered again, and every call
that goes on first puts its `right` into it. `mergeRecX` (Core/MergeHoles.lean) is written with a fuel argument and `mergeX`
starts it with `cap + 1`. `fuel_irrelevant`: with the table duplicate-free and its keys readable right vertices (below the
capacity), any two fuels `f` with `f + |table| ≥ cap + 1` give the same run — in particular every fuel ≥ `cap + 1` gives the
run of `mergeX`, so the `fail` of the exhausted fuel is never reached (`mergeX_fuel`). -/
namespace Sodg
open P

variable {L D : Type} [DecidableEq L] [Inhabited D]

/-- the table is duplicate-free and holds vertices below `c` only -/
def TabOk (c : Nat) (m : Mapped) : Prop := (mkeys m).Nodup ∧ ∀ k ∈ mkeys m, k < c

theorem tabOk_length (c : Nat) (m : Mapped) (h : TabOk c m) : m.length ≤ c := by
  have sub : ∀ k ∈ mkeys m, k ∈ List.range c := fun k hk => by simp [h.2 k hk]
  have := h.1.length_le_of_subset sub
  simpa [mkeys] using this

theorem tabOk_cons (c : Nat) (m : Mapped) (r l : Nat) (h : TabOk c m) (hr : r < c) (hn : mlookup m r = none) :
    TabOk c ((r, l) :: m) := by
  have hnm := (mlookup_none_iff m r).1 hn
  refine ⟨?_, ?_⟩
  · simp only [mkeys, List.map_cons, List.nodup_cons]; exact ⟨hnm, h.1⟩
  · intro k hk
    simp only [mkeys, List.map_cons, List.mem_cons] at hk
    rcases hk with rfl | hk
    · exact hr
    · exact h.2 k hk

variable (h : RightViewX L D) (c : Nat) (hacc : ∀ v, h.accv v = true → v < c)

/-- two fuels, both large enough for the table: the same run, and the table only grows -/
def FuelT (f1 : Nat) : Prop :=
  ∀ (f2 left right : Nat) (m : Mapped) (x : GX L D), TabOk c m → c + 1 ≤ f1 + m.length → c + 1 ≤ f2 + m.length →
    P.runT stepX (mergeRecX h f1 left right m) x = P.runT stepX (mergeRecX h f2 left right m) x ∧
    ∀ x' m', P.runT stepX (mergeRecX h f1 left right m) x = (x', some m') → TabOk c m' ∧ m.length ≤ m'.length

def FuelK (f1 : Nat) : Prop :=
  ∀ (f2 left : Nat) (es : List (L × Nat)) (m : Mapped) (x : GX L D), TabOk c m → c + 1 ≤ f1 + m.length →
    c + 1 ≤ f2 + m.length →
    P.runT stepX (kidsFoldX h f1 left es m) x = P.runT stepX (kidsFoldX h f2 left es m) x ∧
    ∀ x' m', P.runT stepX (kidsFoldX h f1 left es m) x = (x', some m') → TabOk c m' ∧ m.length ≤ m'.length

/-- the recursive call followed by the rest of the loop, for two fuels -/
theorem fuel_tail (f1 : Nat) (hT : FuelT h c f1) (f2 left : Nat) (rest : List (L × Nat))
    (ih : ∀ (m : Mapped) (x : GX L D), TabOk c m → c + 1 ≤ f1 + m.length → c + 1 ≤ f2 + m.length →
      P.runT stepX (kidsFoldX h f1 left rest m) x = P.runT stepX (kidsFoldX h f2 left rest m) x ∧
      ∀ x' m', P.runT stepX (kidsFoldX h f1 left rest m) x = (x', some m') → TabOk c m' ∧ m.length ≤ m'.length)
    (t to : Nat) (m : Mapped) (x : GX L D) (hm : TabOk c m) (h1 : c + 1 ≤ f1 + m.length) (h2 : c + 1 ≤ f2 + m.length) :
    P.runT stepX ((mergeRecX h f1 t to m).bind (fun m' => kidsFoldX h f1 left rest m')) x =
      P.runT stepX ((mergeRecX h f2 t to m).bind (fun m' => kidsFoldX h f2 left rest m')) x ∧
    ∀ x' m', P.runT stepX ((mergeRecX h f1 t to m).bind (fun m' => kidsFoldX h f1 left rest m')) x = (x', some m') →
      TabOk c m' ∧ m.length ≤ m'.length := by
  obtain ⟨e, g⟩ := hT f2 t to m x hm h1 h2
  rw [P.runT_bind, P.runT_bind, ← e]
  cases hr : P.runT stepX (mergeRecX h f1 t to m) x with
  | mk x1 o =>
    cases o with
    | none => simp
    | some m1 =>
      obtain ⟨ok1, le1⟩ := g x1 m1 hr
      obtain ⟨e2, g2⟩ := ih m1 x1 ok1 (by omega) (by omega)
      simp only
      refine ⟨e2, ?_⟩
      intro x' m' hx
      obtain ⟨ok2, le2⟩ := g2 x' m' hx
      exact ⟨ok2, by omega⟩

theorem fuelK_of_fuelT (f1 : Nat) (hT : FuelT h c f1) : FuelK h c f1 := by
  intro f2 left es
  induction es with
  | nil =>
    intro m x hm _ _
    simp only [kidsFoldX, P.runT, Prod.mk.injEq, Option.some.injEq, true_and]
    intro x' m' hx; obtain ⟨_, rfl⟩ := hx; exact ⟨hm, Nat.le_refl _⟩
  | cons e rest ih =>
    obtain ⟨a, to⟩ := e
    intro m x hm h1 h2
    have tl := fuel_tail h c f1 hT f2 left rest (fun m x => ih m x)
    simp only [kidsFoldX, P.runT]
    cases hs : stepX x (.core (.kid left a)) with
    | mk x1 o =>
      cases o with
      | none => simp
      | some o =>
        simp only
        cases o with
        | kid ot =>
          cases ot with
          | some t => simp only; exact tl t to m x1 hm h1 h2
          | none =>
            simp only
            cases hml : mlookup m to with
            | some t =>
              simp only [P.runT]
              cases hs2 : stepX x1 (.core (.bind left t a)) with
              | mk x2 o2 =>
                cases o2 with
                | none => simp
                | some o2 => simp only; exact tl t to m x2 hm h1 h2
            | none =>
              simp only [P.runT]
              cases hs2 : stepX x1 (.core .nextId) with
              | mk x2 o2 =>
                cases o2 with
                | none => simp
                | some o2 =>
                  simp only
                  cases o2 with
                  | id i =>
                    simp only [P.runT]
                    cases hs3 : stepX x2 (.core (.add i)) with
                    | mk x3 o3 =>
                      cases o3 with
                      | none => simp
                      | some o3 =>
                        simp only
                        cases hs4 : stepX x3 (.core (.bind left i a)) with
                        | mk x4 o4 =>
                          cases o4 with
                          | none => simp
                          | some o4 => simp only; exact tl i to m x4 hm h1 h2
                  | unit => simp [P.runT]
                  | data _ => simp [P.runT]
                  | kid _ => simp [P.runT]
                  | kids _ => simp [P.runT]
                  | keys _ => simp [P.runT]
        | unit => simp [P.runT]
        | data _ => simp [P.runT]
        | kids _ => simp [P.runT]
        | keys _ => simp [P.runT]
        | id _ => simp [P.runT]

include hacc in
theorem fuelT_succ (f1 : Nat) (hK : FuelK h c f1) : FuelT h c (f1 + 1) := by
  intro f2 left right m x hm h1 h2
  have hlen := tabOk_length c m hm
  -- the other fuel is positive too
  cases f2 with
  | zero => omega
  | succ f2 =>
    simp only [mergeRecX]
    by_cases hs : (mlookup m right).isSome = true
    · rw [if_pos hs, if_pos hs]
      refine ⟨rfl, ?_⟩
      intro x' m' hx
      simp only [P.runT, Prod.mk.injEq, Option.some.injEq] at hx
      obtain ⟨_, rfl⟩ := hx
      exact ⟨hm, Nat.le_refl _⟩
    · rw [if_neg hs, if_neg hs]
      by_cases ha : h.accv right = true
      · rw [if_pos ha, if_pos ha]
        have hnone : mlookup m right = none := by
          cases hq : mlookup m right with
          | none => rfl
          | some v => rw [hq] at hs; simp at hs
        have hm1 := tabOk_cons c m right left hm (hacc right ha) hnone
        rw [P.runT_bind, P.runT_bind]
        cases hp : P.runT stepX (putPX left (h.data right)) x with
        | mk x1 o =>
          cases o with
          | none => simp
          | some u =>
            simp only
            obtain ⟨e, g⟩ := hK f2 left (h.edges right) ((right, left) :: m) x1 hm1
              (by simp only [List.length_cons]; omega) (by simp only [List.length_cons]; omega)
            rw [P.runT_bind, P.runT_bind, ← e]
            cases hk : P.runT stepX (kidsFoldX h f1 left (h.edges right) ((right, left) :: m)) x1 with
            | mk x2 o2 =>
              cases o2 with
              | none => simp
              | some m2 =>
                obtain ⟨ok2, le2⟩ := g x2 m2 hk
                simp only [List.length_cons] at le2
                simp only [true_and]
                intro x' m' hx
                simp only [afterKidsX] at hx
                rw [P.runT_bind] at hx
                cases h3 : P.runT stepX (secondPassX left (h.edges right) m2) x2 with
                | mk x3 o3 =>
                  rw [h3] at hx
                  cases o3 with
                  | none => simp at hx
                  | some u3 =>
                    simp only [P.runT, Prod.mk.injEq, Option.some.injEq] at hx
                    obtain ⟨_, rfl⟩ := hx
                    exact ⟨ok2, by omega⟩
      · rw [if_neg ha, if_neg ha]
        refine ⟨rfl, ?_⟩
        intro x' m' hx; simp [P.runT] at hx

include hacc in
theorem fuelT_all : ∀ f1, FuelT h c f1 := by
  intro f1
  induction f1 with
  | zero =>
    intro f2 left right m x hm h1 _
    have := tabOk_length c m hm
    omega
  | succ f1 ih => exact fuelT_succ h c hacc f1 (fuelK_of_fuelT h c f1 ih)

include hacc in
/-- **the fuel is irrelevant**: from the empty table, every fuel above the bound gives the same run -/
theorem fuel_irrelevant (f left right : Nat) (x : GX L D) (hf : c + 1 ≤ f) :
    P.runT stepX (mergeRecX h f left right []) x = P.runT stepX (mergeRecX h (c + 1) left right []) x :=
  (fuelT_all h c hacc f (c + 1) left right [] x ⟨by simp [mkeys], by intro k hk; simp [mkeys] at hk⟩
    (by simpa using hf) (by simp)).1

/-- for `mergeX`: readable right vertices are below the capacity, so `cap + 1` is enough — whatever the two graphs look
    like, the recursion of `merge` ends by itself -/
theorem mergeX_fuel (x hx : GX L D) (f left right : Nat) (hf : cap hx.g + 1 ≤ f) :
    P.runT stepX (mergeRecX (viewOfX hx) f left right []) x =
      P.runT stepX (mergeRecX (viewOfX hx) (cap hx.g + 1) left right []) x :=
  fuel_irrelevant (viewOfX hx) (cap hx.g) (fun v hv => acc_lt hx v hv) f left right x hf

end Sodg
