import Core.MergeProg
import Core.RefProps
set_option linter.unusedSectionVars false
/-! Feasibility probe for C11 (a),(b): merging an inductive tree into a reference graph keeps every path of the
    tree and everything the graph had. Labels are Nat; group bookkeeping is irrelevant here. -/
namespace Sodg
namespace MT

variable {L D : Type} [DecidableEq L] [Inhabited D]

/-- the part of the reference that `merge` looks at and changes -/
structure RG (L D : Type) where
  ids : List Nat
  edges : Nat → List (L × Nat)
  data : Nat → Option D
  pos : Nat

def RG.alive (r : RG L D) (v : Nat) : Bool := decide (v ∈ r.ids)

-- reference semantics of the calls `merge_rec` issues
def RG.kid (r : RG L D) (v : Nat) (a : L) : Option Nat := lookup (r.edges v) a
def RG.put (r : RG L D) (v : Nat) (d : D) : RG L D := { r with data := upd r.data v (some d) }
def RG.bind (r : RG L D) (v1 v2 : Nat) (a : L) : RG L D := { r with edges := upd r.edges v1 (upsert (r.edges v1) a v2) }
def RG.add (r : RG L D) (v : Nat) : RG L D :=
  if v ∈ r.ids then r else { r with ids := v :: r.ids, edges := upd r.edges v [], data := upd r.data v none }

inductive T (L D : Type) where
  | node (id : Nat) (data : Option D) (kids : List (L × T L D))

def T.id : T L D → Nat | .node i _ _ => i
def T.data : T L D → Option D | .node _ d _ => d
def T.kids : T L D → List (L × T L D) | .node _ _ k => k

variable (fresh : RG L D → Nat)

mutual
def mergeT (r : RG L D) (left : Nat) : T L D → RG L D × List (Nat × Nat)
  | .node id d kids =>
    let r1 := match d with | some b => r.put left b | none => r
    let (r2, m) := mergeKids r1 left kids
    (r2, (id, left) :: m)
def mergeKids (r : RG L D) (left : Nat) : List (L × T L D) → RG L D × List (Nat × Nat)
  | [] => (r, [])
  | (a, c) :: rest =>
    let (r1, t) := match r.kid left a with
      | some t => (r, t)
      | none =>
        let id := fresh r
        (({ r with pos := id + 1 }.add id).bind left id a, id)
    let (r2, m1) := mergeT r1 t c
    let (r3, m2) := mergeKids r2 left rest
    (r3, m1 ++ m2)
end


/-! ### specification -/

def walk (r : RG L D) : Nat → List L → Option Nat
  | v, [] => some v
  | v, a :: p => match r.kid v a with
    | none => none
    | some w => walk r w p

def klookup (ks : List (L × T L D)) (a : L) : Option (T L D) :=
  match ks with
  | [] => none
  | (b, c) :: r => if b = a then some c else klookup r a

def T.walk : T L D → List L → Option (T L D)
  | t, [] => some t
  | .node _ _ kids, a :: p => match klookup kids a with
    | none => none
    | some c => c.walk p

/-- edge targets of present vertices are present (the graph is "a tree of present vertices") -/
def Closed (r : RG L D) : Prop := ∀ v, r.alive v = true → ∀ a t, r.kid v a = some t → r.alive t = true

/-- everything `r` had is still in `r'` -/
def Ext (r r' : RG L D) : Prop :=
  ∀ v, r.alive v = true → r'.alive v = true ∧ ∀ a t, r.kid v a = some t → r'.kid v a = some t

theorem Ext.refl (r : RG L D) : Ext r r := fun _ h => ⟨h, fun _ _ h => h⟩
theorem Ext.trans {a b c : RG L D} (h1 : Ext a b) (h2 : Ext b c) : Ext a c := by
  intro v hv
  obtain ⟨hb, kb⟩ := h1 v hv
  obtain ⟨hc, kc⟩ := h2 v hb
  exact ⟨hc, fun x t h => kc x t (kb x t h)⟩

theorem walk_mono {r r' : RG L D} (hc : Closed r) (he : Ext r r') :
    ∀ p v u, r.alive v = true → walk r v p = some u → walk r' v p = some u := by
  intro p
  induction p with
  | nil => intro v u _ h; simpa [walk] using h
  | cons a p ih =>
    intro v u hv h
    simp only [walk] at h ⊢
    split at h
    · cases h
    next w hk =>
      rw [(he v hv).2 a w hk]
      exact ih w u (hc v hv a w hk) h

/-- the allocator returns an id that is not present -/
def FreshOk (fresh : RG L D → Nat) : Prop := ∀ r : RG L D, r.alive (fresh r) = false

theorem put_ext (r : RG L D) (v d) : Ext r (r.put v d) := fun _ h => ⟨h, fun _ _ h => h⟩
theorem put_closed (r : RG L D) (v d) (h : Closed r) : Closed (r.put v d) := h

/-- allocate, add, bind: one new child of `left` under a label `left` did not have -/
def newKid (r : RG L D) (left : Nat) (a : L) (id : Nat) : RG L D := ({ r with pos := id + 1 }.add id).bind left id a

theorem alive_iff (r : RG L D) (v : Nat) : r.alive v = true ↔ v ∈ r.ids := by simp [RG.alive]
theorem alive_false_iff (r : RG L D) (v : Nat) : r.alive v = false ↔ v ∉ r.ids := by simp [RG.alive]

theorem newKid_ids (r : RG L D) (left : Nat) (a : L) (id : Nat) (hid : id ∉ r.ids) :
    (newKid r left a id).ids = id :: r.ids := by
  simp [newKid, RG.bind, RG.add, hid]

theorem newKid_kid (r : RG L D) (left : Nat) (a : L) (id : Nat) (hid : id ∉ r.ids) (hne : left ≠ id) (v : Nat) (x : L) :
    (newKid r left a id).kid v x =
      if v = left then (if x = a then some id else r.kid left x)
      else if v = id then none else r.kid v x := by
  simp only [newKid, RG.bind, RG.add, hid, if_false, RG.kid]
  by_cases h1 : v = left
  · subst h1; simp [upd, hne, lookup_upsert]
  · by_cases h2 : v = id
    · subst h2; simp [upd, h1, lookup]
    · simp [upd, h1, h2]

theorem newKid_spec (r : RG L D) (left : Nat) (a : L) (id : Nat) (hl : r.alive left = true) (hid : r.alive id = false)
    (hk : r.kid left a = none) (hc : Closed r) :
    Ext r (newKid r left a id) ∧ Closed (newKid r left a id) ∧ (newKid r left a id).kid left a = some id := by
  have hl' := (alive_iff r left).1 hl
  have hid' := (alive_false_iff r id).1 hid
  have hne : left ≠ id := by rintro rfl; exact hid' hl'
  have alive' : ∀ v, (newKid r left a id).alive v = true ↔ (v = id ∨ r.alive v = true) := by
    intro v; simp [alive_iff, newKid_ids r left a id hid']
  have kid' := newKid_kid r left a id hid' hne
  refine ⟨?_, ?_, ?_⟩
  · intro v hv
    have hvid : v ≠ id := by rintro rfl; rw [hv] at hid; cases hid
    refine ⟨(alive' v).2 (Or.inr hv), ?_⟩
    intro x t hx
    rw [kid']
    by_cases h1 : v = left
    · subst h1
      have : x ≠ a := by rintro rfl; rw [hk] at hx; cases hx
      simp [this, hx]
    · simp [h1, hvid, hx]
  · intro v hv x t hx
    rw [alive'] at hv ⊢
    rw [kid'] at hx
    by_cases h1 : v = left
    · subst h1
      simp at hx
      by_cases hxa : x = a
      · simp [hxa] at hx; left; exact hx.symm
      · simp [hxa] at hx
        right; exact hc v hl x t hx
    · simp [h1] at hx
      by_cases h2 : v = id
      · simp [h2] at hx
      · simp [h2] at hx
        rcases hv with hv | hv
        · exact absurd hv h2
        · right; exact hc v hv x t hx
  · rw [kid']; simp

/-- find the child of `left` under `a`, or create it -/
def findOrCreate (fresh : RG L D → Nat) (r : RG L D) (left : Nat) (a : L) : RG L D × Nat :=
  match r.kid left a with
  | some t => (r, t)
  | none => (newKid r left a (fresh r), fresh r)

theorem mergeKids_cons (fresh : RG L D → Nat) (r : RG L D) (left : Nat) (a : L) (c : T L D) (rest : List (L × T L D)) :
    mergeKids fresh r left ((a, c) :: rest) =
      ((mergeKids fresh (mergeT fresh (findOrCreate fresh r left a).1 (findOrCreate fresh r left a).2 c).1 left rest).1,
       (mergeT fresh (findOrCreate fresh r left a).1 (findOrCreate fresh r left a).2 c).2 ++
       (mergeKids fresh (mergeT fresh (findOrCreate fresh r left a).1 (findOrCreate fresh r left a).2 c).1 left rest).2) := by
  rw [mergeKids]
  unfold findOrCreate newKid
  cases r.kid left a <;> rfl

/-- what merging a tree (or the kids of a node) guarantees -/
structure SpecT (r : RG L D) (left : Nat) (t : T L D) (r' : RG L D) (m : List (Nat × Nat)) : Prop where
  closed : Closed r'
  ext : Ext r r'
  paths : ∀ p c, t.walk p = some c → ∃ u, walk r' left p = some u ∧ (c.id, u) ∈ m

structure SpecK (r : RG L D) (left : Nat) (kids : List (L × T L D)) (r' : RG L D) (m : List (Nat × Nat)) : Prop where
  closed : Closed r'
  ext : Ext r r'
  paths : ∀ a c p c', klookup kids a = some c → c.walk p = some c' →
    ∃ u, walk r' left (a :: p) = some u ∧ (c'.id, u) ∈ m

mutual
theorem mergeT_spec (hf : FreshOk fresh) (r : RG L D) (left : Nat) (hl : r.alive left = true) (hc : Closed r) :
    (t : T L D) → SpecT r left t (mergeT fresh r left t).1 (mergeT fresh r left t).2
  | .node id d kids => by
    -- the state after the optional put
    have key : ∀ r1 : RG L D, Closed r1 → Ext r r1 → r1.alive left = true →
        SpecT r left (.node id d kids) (mergeKids fresh r1 left kids).1 ((id, left) :: (mergeKids fresh r1 left kids).2) := by
      intro r1 hc1 he1 hl1
      have sk := mergeKids_spec hf r1 left hl1 hc1 kids
      refine ⟨sk.closed, he1.trans sk.ext, ?_⟩
      intro p c hw
      cases p with
      | nil =>
        simp [T.walk] at hw; subst hw
        exact ⟨left, by simp [walk], by simp [T.id]⟩
      | cons a p =>
        simp only [T.walk] at hw
        split at hw
        · cases hw
        next c0 hk =>
          obtain ⟨u, hu, hm⟩ := sk.paths a c0 p c hk hw
          exact ⟨u, hu, List.mem_cons_of_mem _ hm⟩
    cases d with
    | none => simpa [mergeT] using key r hc (Ext.refl r) hl
    | some b => simpa [mergeT] using key (r.put left b) (put_closed r left b hc) (put_ext r left b) hl

theorem mergeKids_spec (hf : FreshOk fresh) (r : RG L D) (left : Nat) (hl : r.alive left = true) (hc : Closed r) :
    (kids : List (L × T L D)) → SpecK r left kids (mergeKids fresh r left kids).1 (mergeKids fresh r left kids).2
  | [] => by
    refine ⟨by simpa [mergeKids] using hc, by simpa [mergeKids] using Ext.refl r, ?_⟩
    intro a c p c' h; simp [klookup] at h
  | (a0, c0) :: rest => by
    -- step 1: find or create the child
    have step1 : ∃ r1 t, findOrCreate fresh r left a0 = (r1, t) ∧
        Ext r r1 ∧ Closed r1 ∧ r1.kid left a0 = some t := by
      unfold findOrCreate
      cases hk : r.kid left a0 with
      | some t => exact ⟨r, t, rfl, Ext.refl r, hc, hk⟩
      | none =>
        obtain ⟨e, c, k⟩ := newKid_spec r left a0 (fresh r) hl (hf r) hk hc
        exact ⟨_, _, rfl, e, c, k⟩
    obtain ⟨r1, t, heq, he1, hc1, hk1⟩ := step1
    have hl1 : r1.alive left = true := (he1 left hl).1
    have ht1 : r1.alive t = true := hc1 left hl1 a0 t hk1
    have s2 := mergeT_spec hf r1 t ht1 hc1 c0
    have hl2 : (mergeT fresh r1 t c0).1.alive left = true := (s2.ext left hl1).1
    have s3 := mergeKids_spec hf (mergeT fresh r1 t c0).1 left hl2 s2.closed rest
    rw [mergeKids_cons, heq]
    refine ⟨s3.closed, (he1.trans s2.ext).trans s3.ext, ?_⟩
    intro a c p c' hlk hw
    simp only [klookup] at hlk
    by_cases ha : a0 = a
    · subst ha
      simp at hlk; subst hlk
      obtain ⟨u, hu, hm⟩ := s2.paths p c' hw
      refine ⟨u, ?_, List.mem_append_left _ hm⟩
      have k3 : (mergeKids fresh (mergeT fresh r1 t c0).1 left rest).1.kid left a0 = some t :=
        (s3.ext left hl2).2 a0 t ((s2.ext left hl1).2 a0 t hk1)
      have hw3 := walk_mono s2.closed s3.ext p t u ((s2.ext t ht1).1) hu
      simp only [walk]
      rw [k3]
      exact hw3
    · simp [ha] at hlk
      obtain ⟨u, hu, hm⟩ := s3.paths a c p c' hlk hw
      exact ⟨u, hu, List.mem_append_right _ hm⟩
end

/-- **C11 (a, paths) and (b, nothing lost) in miniature** -/
theorem merge_grafts (hf : FreshOk fresh) (r : RG L D) (left : Nat) (hl : r.alive left = true) (hc : Closed r) (t : T L D) :
    let res := mergeT fresh r left t
    Ext r res.1 ∧ ∀ p c, t.walk p = some c → ∃ u, walk res.1 left p = some u ∧ (c.id, u) ∈ res.2 := by
  have s := mergeT_spec fresh hf r left hl hc t
  exact ⟨s.ext, s.paths⟩

#print axioms merge_grafts
end MT
end Sodg
