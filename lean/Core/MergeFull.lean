import Core.MergeProg
set_option linter.unusedSectionVars false
/-! `merge()` in full: `merge_rec` with its second pass (which calls `join` when `kid(left, a)` and `mapped[to]`
    differ), and the completeness check of `merge`. The program stops with `none` as soon as `join` would be called:
    that leaves the modelled fragment (`join` removes a slot of the vertex store). -/
namespace Sodg
open P

variable {L D : Type} [DecidableEq L] [Inhabited D]

/-- second pass over the edges of `right`: `some ()` = no join needed, `none` = `join` would be called -/
def secondPass (left : Nat) : List (L × Nat) → Mapped → MProg L D (Option Unit)
  | [], _ => .ret (some ())
  | (a, to) :: rest, m =>
    .call (.kid left a) (fun o =>
      match o with
      | .kid (some first) =>
        match mlookup m to with
        | some second => if first ≠ second then .ret none else secondPass left rest m
        | none => secondPass left rest m
      | .kid none => secondPass left rest m
      | _ => .fail)

/-- continuations, named so that lemmas can refer to them -/
def afterSecond (m2 : Mapped) : Option Unit → MProg L D (Option Mapped)
  | some () => .ret (some m2)
  | none => .ret none

def afterKids (left : Nat) (es : List (L × Nat)) : Option Mapped → MProg L D (Option Mapped)
  | none => .ret none
  | some m2 => (secondPass left es m2).bind (afterSecond m2)

def afterRec (k : Mapped → MProg L D (Option Mapped)) : Option Mapped → MProg L D (Option Mapped)
  | none => .ret none
  | some m' => k m'

def putP (left : Nat) : Option D → MProg L D Unit
  | some d => .call (.put left d) (fun _ => .ret ())
  | none => .ret ()

mutual
/-- `merge_rec`, both passes; the table is `none` once `join` would be called -/
def mergeRec2 (h : RightView L D) : Nat → Nat → Nat → Mapped → MProg L D (Option Mapped)
  | 0, _, _, _ => .fail
  | fuel + 1, left, right, m =>
    if (mlookup m right).isSome then .ret (some m)
    else
      (putP left (h.data right)).bind (fun _ =>
        (kidsFold2 h fuel left (h.edges right) ((right, left) :: m)).bind (afterKids left (h.edges right)))
def kidsFold2 (h : RightView L D) : Nat → Nat → List (L × Nat) → Mapped → MProg L D (Option Mapped)
  | _, _, [], m => .ret (some m)
  | fuel, left, (a, to) :: rest, m =>
    .call (.kid left a) (fun o =>
      match o with
      | .kid (some t) => (mergeRec2 h fuel t to m).bind (afterRec (fun m' => kidsFold2 h fuel left rest m'))
      | .kid none =>
        match mlookup m to with
        | some t => .call (.bind left t a) (fun _ =>
            (mergeRec2 h fuel t to m).bind (afterRec (fun m' => kidsFold2 h fuel left rest m')))
        | none => .call .nextId (fun o2 => match o2 with
          | .id i => .call (.add i) (fun _ => .call (.bind left i a) (fun _ =>
              (mergeRec2 h fuel i to m).bind (afterRec (fun m' => kidsFold2 h fuel left rest m'))))
          | _ => .fail)
      | _ => .fail)
end

/-- the right graph as `merge` reads it -/
def viewOf (h : G L D) : RightView L D :=
  { edges := fun v => edg h v, data := fun v => if pers h v = .empty then none else some (dat h v), keys := keys h }

inductive MergeOut where
  | ok
  | err (missed : List Nat)      -- `Err(… missed: …)`, ids ascending
  | joined                       -- `join` would be called: outside the model
deriving DecidableEq, Repr

/-- `g.merge(&h, left, right)`; `none` = panic. The left graph is changed also when `Err` is returned. -/
def merge (g h : G L D) (left right : Nat) : Option (G L D × MergeOut) :=
  if right < cap h then
    match runM step (mergeRec2 (viewOf h) (cap h + 1) left right []) g with
    | none => none
    | some (none, g') => some (g', .joined)
    | some (some m, g') =>
      if (mkeys m).length = (keys h).length then some (g', .ok)
      else some (g', .err ((keys h).filter (fun v => decide (v ∉ mkeys m))))
  else none

end Sodg
