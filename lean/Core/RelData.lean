import Core.Ref
set_option linter.unusedSectionVars false
namespace Sodg

variable {L D : Type} [DecidableEq L] [Inhabited D]

@[simp] theorem dat_collect (g : G L D) (b w : Nat) : dat (collect g b) w = dat g w := by
  unfold dat collect; simp only [kill_get]; split <;> simp
@[simp] theorem edg_collect (g : G L D) (b w : Nat) : edg (collect g b) w = edg g w := by
  unfold edg collect; simp only [kill_get]; split <;> simp
@[simp] theorem next_collect (g : G L D) (b : Nat) : (collect g b).next = g.next := rfl

theorem unread_eq_zero_iff (g : G L D) (ms : List Nat) :
    unread g ms = 0 ↔ ∀ w ∈ ms, pers g w ≠ .stored := by
  simp [unread, List.filter_eq_nil_iff]

/-- members of the reference group of `v` are exactly the member list of `v`'s slot -/
theorem members_iff (g : G L D) (r : R L D) (h : Rel g r) (v : Nat) (hv : v ∈ r.ids) (k : Nat)
    (hk : r.grp v = some k) (w : Nat) : w ∈ r.members k ↔ w ∈ mem g (tag g v) := by
  have hb2 : 2 ≤ tag g v := by
    have := (h.same v hv v hv).1 ⟨by simp [hk], rfl⟩; exact this.1
  have hvc := (h.alive v).1 hv
  have hlt := h.inv.taglt v hvc.1
  unfold R.members
  simp only [List.mem_filter, decide_eq_true_eq]
  constructor
  · rintro ⟨hw, hg⟩
    have := (h.same v hv w hw).1 ⟨by simp [hk], by rw [hk, hg]⟩
    have hwc := (h.alive w).1 hw
    have := h.inv.own w hwc.1 (by omega)
    grind
  · intro hm
    have hmb := h.inv.memb _ hb2 hlt w hm
    have hw : w ∈ r.ids := (h.alive w).2 ⟨hmb.1, by omega⟩
    refine ⟨hw, ?_⟩
    have := (h.same v hv w hw).2 ⟨hb2, hmb.2.symm⟩
    rw [← this.2, hk]

theorem rel_data (g g' : G L D) (r : R L D) (v : Nat) (out) (h : Rel g r) (hv : v ∈ r.ids)
    (hd : data g v = some (g', out)) : Rel g' (r.data v) ∧ out = r.dat v := by
  have hvc := (h.alive v).1 hv
  have hinv' : Inv g' := inv_data g g' v out h.inv hvc.2 hd
  unfold data at hd
  rw [if_pos hvc.1] at hd
  split at hd
  next hp =>
    cases hd
    have : r.unr v = false := by
      have := (h.unr v hv); cases hu : r.unr v <;> simp_all
    have hd0 := h.data v hv
    simp [R.data, this]; exact ⟨h, by rw [hd0]; simp [hp]⟩
  next hp =>
    cases hd
    have : r.unr v = false := by
      have := (h.unr v hv); cases hu : r.unr v <;> simp_all
    have hd0 := h.data v hv
    simp [R.data, this]; exact ⟨h, by rw [hd0]; simp [hp]⟩
  next hp =>
    have hu : r.unr v = true := (h.unr v hv).2 hp
    simp only at hd
    -- the reference after clearing v
    have unr1 : ∀ w ∈ r.ids, (upd r.unr v false w = true ↔ pers (setPers g v .taken) w = .stored) := by
      intro w hw
      have := h.unr w hw
      by_cases hwv : w = v
      · subst hwv; simp [pers_setPers, hvc.1]
      · have hvw : ¬ v = w := fun e => hwv e.symm
        simp [upd_get, hwv, pers_setPers, hvw, this]
    have hout : some (dat g v) = r.dat v := by rw [h.data v hv]; simp [hp]
    have dat1 : ∀ w ∈ r.ids, r.dat w =
        if pers (setPers g v .taken) w = .empty then none else some (dat (setPers g v .taken) w) := by
      intro w hw
      rw [h.data w hw]
      by_cases hwv : v = w
      · subst hwv; simp [pers_setPers, hvc.1, hp]
      · simp [pers_setPers, hwv]
    split at hd
    next hb1 =>
      cases hd
      have hg : r.grp v = none := (h.ungr v hv).2 hb1
      simp only [R.data, hu, if_true, hg]
      exact ⟨⟨hinv', h.nd, by simpa using h.alive, by simpa using h.ungr, by simpa using h.same, unr1,
        h.lt, by simpa using h.edges, dat1, h.pos⟩, hout⟩
    next hb1 =>
      have hb2 : 2 ≤ tag g v := by omega
      have hlt := h.inv.taglt v hvc.1
      rw [if_pos hlt] at hd
      obtain ⟨k, hk⟩ : ∃ k, r.grp v = some k := by
        cases hg : r.grp v with
        | none => exact absurd ((h.ungr v hv).1 hg) hb1
        | some k => exact ⟨k, rfl⟩
      have hvm : v ∈ mem g (tag g v) := h.inv.own v hvc.1 hb2
      have hnd := h.inv.nodup _ hb2 hlt
      have hcnt := h.inv.count _ hb2 hlt
      have hone := unread_setPers_of_mem g _ hnd v hvm hvc.1 hp
      have hmem := members_iff g r h v hv k hk
      split at hd
      · cases hd
      next hnz =>
        -- the reference's "all read" test agrees with `cnt = 1`
        have hall : ((({ r with unr := upd r.unr v false } : R L D).members k).all
              (fun w => !(upd r.unr v false w))) = true ↔ cnt g (tag g v) = 1 := by
          rw [List.all_eq_true]
          have hm' : ∀ w, w ∈ ({ r with unr := upd r.unr v false } : R L D).members k ↔ w ∈ mem g (tag g v) := hmem
          constructor
          · intro hA
            have : unread (setPers g v .taken) (mem g (tag g v)) = 0 := by
              rw [unread_eq_zero_iff]; intro w hw
              have hwi : w ∈ r.ids := by
                have := (hm' w).2 hw; unfold R.members at this; simp at this; exact this.1
              have := hA w ((hm' w).2 hw)
              have h1 := unr1 w hwi
              intro hst; rw [h1.2 hst] at this; simp at this
            omega
          · intro h1 w hw
            have hz : unread (setPers g v .taken) (mem g (tag g v)) = 0 := by omega
            rw [unread_eq_zero_iff] at hz
            have hw' := (hm' w).1 hw
            have hwi : w ∈ r.ids := by unfold R.members at hw; simp at hw; exact hw.1
            have := hz w hw'
            have h1 := unr1 w hwi
            cases hx : upd r.unr v false w with
            | false => rfl
            | true => exact absurd (h1.1 hx) this
        split at hd
        next h1 =>
          cases hd
          simp only [R.data, hu, if_true, hk, hall.2 h1]
          -- collected
          refine ⟨⟨hinv', h.nd.filter _, ?_, ?_, ?_, ?_, ?_, ?_, ?_, h.pos⟩, hout⟩
          · intro w
            simp only [List.mem_filter, decide_eq_true_eq, cap_collect, cap_decr, cap_setPers, tag_collect,
              mem_decr, mem_setPers, tag_decr, tag_setPers, ne_eq]
            constructor
            · rintro ⟨hw, hg⟩
              have hwc := (h.alive w).1 hw
              refine ⟨hwc.1, ?_⟩
              have : w ∉ mem g (tag g v) := by
                intro hm; have := (hmem w).2 hm; unfold R.members at this; simp at this; exact hg (by simpa using this.2)
              simp [this]; exact hwc.2
            · rintro ⟨hwc, ht⟩
              by_cases hm : w ∈ mem g (tag g v)
              · simp [hm, hwc] at ht
              · simp [hm] at ht
                have hw := (h.alive w).2 ⟨hwc, ht⟩
                refine ⟨hw, ?_⟩
                intro hg; apply hm; apply (hmem w).1; unfold R.members; simp [hw]; simpa using hg
          · intro w hw
            simp only [List.mem_filter, decide_eq_true_eq] at hw
            have : w ∉ mem g (tag g v) := by
              intro hm; have := (hmem w).2 hm; unfold R.members at this; simp at this; exact hw.2 (by simpa using this.2)
            simp [tag_collect, this]; exact h.ungr w hw.1
          · intro w hw x hx
            simp only [List.mem_filter, decide_eq_true_eq] at hw hx
            have hwn : w ∉ mem g (tag g v) := by
              intro hm; have := (hmem w).2 hm; unfold R.members at this; simp at this; exact hw.2 (by simpa using this.2)
            have hxn : x ∉ mem g (tag g v) := by
              intro hm; have := (hmem x).2 hm; unfold R.members at this; simp at this; exact hx.2 (by simpa using this.2)
            simp [tag_collect, hwn, hxn]; exact h.same w hw.1 x hx.1
          · intro w hw
            simp only [List.mem_filter, decide_eq_true_eq] at hw
            simpa using unr1 w hw.1
          · intro w hw; simp only [List.mem_filter, decide_eq_true_eq] at hw; exact h.lt w hw.1
          · intro w hw; simp only [List.mem_filter, decide_eq_true_eq] at hw; simpa using h.edges w hw.1
          · intro w hw; simp only [List.mem_filter, decide_eq_true_eq] at hw; simpa using dat1 w hw.1
        next h1 =>
          cases hd
          have : ¬ ((({ r with unr := upd r.unr v false } : R L D).members k).all
              (fun w => !(upd r.unr v false w))) = true := fun hA => h1 (hall.1 hA)
          simp only [R.data, hu, if_true, hk, this]
          exact ⟨⟨hinv', h.nd, by simpa using h.alive, by simpa using h.ungr, by simpa using h.same,
            by simpa using unr1, h.lt, by simpa using h.edges, by simpa using dat1, h.pos⟩, hout⟩

#print axioms rel_data
end Sodg
