import Core.Holes
set_option linter.unusedSectionVars false
/-! # `next_id()` on a graph with removed slots (C05 there)

`next_id()` walks `vertices.iter()`, which skips the slots `join` removed. `nextIdX_spec`: the id it returns is below the
capacity, is not a removed slot, is absent, is at or above the allocator position, and the position moves just past it —
so it is never an id `keys()` lists, and never one that `add()` would panic on. `next_stepX`: no call — `join` included —
moves the allocator position back. -/
namespace Sodg

variable {L D : Type} [DecidableEq L] [Inhabited D]

theorem nextIdX_spec (x x' : GX L D) (i : Nat) (h : nextIdX x = some (x', i)) :
    i < cap x.g ∧ i ∉ x.holes ∧ tag x.g i = 0 ∧ x.g.next ≤ i ∧ i ∉ keysX x ∧ x.acc i = true ∧
    x'.holes = x.holes ∧ x'.g.next = i + 1 ∧ x.g.next ≤ x'.g.next := by
  unfold nextIdX at h
  split at h
  · cases h
  · rename_i id hf
    simp only [Option.some.injEq, Prod.mk.injEq] at h
    obtain ⟨rfl, rfl⟩ := h
    have hm := List.mem_of_find?_eq_some hf
    have hp := List.find?_some hf
    simp only [List.mem_range] at hm
    simp only [Bool.and_eq_true, Bool.not_eq_eq_eq_not, Bool.not_true, decide_eq_true_eq] at hp
    have hnh : id ∉ x.holes := by simpa using hp.1
    refine ⟨hm, hnh, hp.2.1, hp.2.2, ?_, ?_, rfl, ?_, ?_⟩
    · unfold keysX
      simp only [List.mem_filter, List.mem_range, Bool.and_eq_true, Bool.not_eq_eq_eq_not, Bool.not_true,
        decide_eq_true_eq, not_and]
      intro _ _ ht; exact ht hp.2.1
    · simp only [GX.acc, hm, decide_true, Bool.true_and, Bool.not_eq_eq_eq_not, Bool.not_true]
      simpa using hnh
    · simp only [g_withG]; split
      · simp [setNext]
      · rename_i hlt; have := hp.2.2; omega
    · simp only [g_withG]; split
      · simp only [setNext]; have := hp.2.2; omega
      · exact Nat.le_refl _

/-! the allocator position never moves back -/

theorem next_enroll (g : G L D) (v b : Nat) : (enroll g v b).next = g.next := by unfold enroll; split <;> rfl

theorem next_joinGrpT (g : G L D) (v b : Nat) : (joinGrpT g v b).1.next = g.next := by
  unfold joinGrpT; split
  · rw [next_enroll]; rfl
  · rfl

theorem next_bindGrpT (g : G L D) (v1 v2 : Nat) : (bindGrpT g v1 v2).1.next = g.next := by
  unfold bindGrpT
  repeat' split
  all_goals simp only [next_joinGrpT, next_enroll]

theorem next_addT (g : G L D) (v : Nat) : (addT g v).1.next = g.next := by
  unfold addT
  cases ha : add g v with
  | none => rfl
  | some g' =>
    unfold add at ha; split at ha
    · split at ha <;> cases ha <;> rfl
    · cases ha

theorem next_bindT (g : G L D) (v1 v2 : Nat) (a : L) : (bindT g v1 v2 a).1.next = g.next := by
  unfold bindT
  repeat' split
  all_goals first | rfl | (rw [next_bindGrpT]; rfl)

theorem next_putT (g : G L D) (v : Nat) (d : D) : (putT g v d).1.next = g.next := by
  unfold putT
  repeat' split
  all_goals rfl

theorem next_collectX (x : GX L D) (g1 : G L D) (b : Nat) : (collectX x g1 b).1.next = g1.next := by
  unfold collectX; split <;> rfl

theorem next_dataX (x : GX L D) (v : Nat) : (dataX x v).1.g.next = x.g.next := by
  unfold dataX
  repeat' split
  all_goals first | rfl | (simp only [g_withG, next_collectX]; rfl)

theorem next_bindX (x : GX L D) (v1 v2 : Nat) (a : L) : (bindX x v1 v2 a).1.g.next = x.g.next := by
  unfold bindX; split
  · simp only [g_withG, next_bindT]
  · rfl

theorem next_retargetAll (ks : List Nat) (f t : Nat) : ∀ (g : G L D), (retargetAll g ks f t).next = g.next := by
  induction ks with
  | nil => intro g; rfl
  | cons k ks ih => intro g; simp only [retargetAll, List.foldl_cons]; exact (ih _).trans rfl

theorem next_rebindX (left : Nat) (es : List (L × Nat)) : ∀ (x : GX L D), (rebindX x left es).1.g.next = x.g.next := by
  induction es with
  | nil => intro x; rfl
  | cons e rest ih =>
    obtain ⟨a, t⟩ := e
    intro x
    simp only [rebindX]
    split
    · split
      · rfl
      · split
        · rw [ih, next_bindX]
        · rw [next_bindX]
    · rfl

theorem next_joinX (x : GX L D) (left right : Nat) : (joinX x left right).1.g.next = x.g.next := by
  unfold joinX
  simp only
  split
  · split
    · simp only [next_rebindX, g_withG, next_retargetAll]
    · simp only [next_rebindX, g_withG, next_retargetAll]
  · simp only [g_withG, next_retargetAll]

theorem next_fixX (x : GX L D) (left : Nat) (a : L) (second : Nat) : (fixX x left a second).1.g.next = x.g.next := by
  unfold fixX
  split
  · split
    · rfl
    · split
      · exact next_joinX x _ _
      · rfl
  · rfl

/-- **no call moves the allocator position back**, on any graph, `join` included -/
theorem next_stepX (x : GX L D) (op : OpX L D) : x.g.next ≤ (stepX x op).1.g.next := by
  cases op with
  | core op =>
    cases op with
    | add v =>
      simp only [stepX, addX]; split
      · simp only [g_withG, next_addT]; exact Nat.le_refl _
      · exact Nat.le_refl _
    | bind v1 v2 a => simp only [stepX, next_bindX]; exact Nat.le_refl _
    | put v d =>
      simp only [stepX, putX]; split
      · simp only [g_withG, next_putT]; exact Nat.le_refl _
      · exact Nat.le_refl _
    | data v => simp only [stepX, next_dataX]; exact Nat.le_refl _
    | kid v a => exact Nat.le_refl _
    | kids v => exact Nat.le_refl _
    | keys => exact Nat.le_refl _
    | nextId =>
      simp only [stepX]
      cases hn : nextIdX x with
      | none => exact Nat.le_refl _
      | some p => exact (nextIdX_spec x p.1 p.2 hn).2.2.2.2.2.2.2.2
  | fix l a s => simp only [stepX, next_fixX]; exact Nat.le_refl _

theorem next_runX (ops : List (OpX L D)) : ∀ (x : GX L D), x.g.next ≤ (runX x ops).1.g.next := by
  induction ops with
  | nil => intro x; exact Nat.le_refl _
  | cons op ops ih => intro x; exact Nat.le_trans (next_stepX x op) (ih _)

/-- **C05 on graphs with removed slots, for every call sequence**: an id `next_id()` returned is never returned again,
    whatever is called in between — valid or not, panicking or not, `join` included: later ids are strictly larger -/
theorem nextIdX_never_again (x x1 x2 x3 : GX L D) (i j : Nat) (ops : List (OpX L D))
    (h1 : nextIdX x = some (x1, i)) (hr : (runX x1 ops).1 = x2) (h2 : nextIdX x2 = some (x3, j)) : i < j := by
  have a := (nextIdX_spec x x1 i h1).2.2.2.2.2.2.2.1
  have b := next_runX ops x1
  rw [hr] at b
  have c := (nextIdX_spec x2 x3 j h2).2.2.2.1
  omega

end Sodg
