import Core.Total
import Core.MergeFull
set_option linter.unusedSectionVars false
/-! # Programs over the API on the total model: `merge` for every call sequence

`P.runT` interprets a program (`merge`, the rebuild of `slice`, a script) over a *total* step: when a call panics the
program stops and the state is the one the panicking call left behind. `runT_of_runM`: it agrees with the partial
interpretation wherever that one completes; `runT_inv`: an invariant of the total step is an invariant of every program.
Instantiated with `stepT` and `MS`: `merge`, completing, refusing or panicking half-way, keeps every computed index in
range (`ms_mergeT`) — as long as it does not reach `join` (the non-tree paths, outside the model). -/
namespace P
variable {Op Out σ : Type}

/-- total interpretation: the state where the program stopped, and its result unless a call (or the client) panicked -/
def runT (stepT : σ → Op → σ × Option Out) {α} : Prog Op Out α → σ → σ × Option α
  | .ret a, s => (s, some a)
  | .fail, s => (s, none)
  | .call op k, s =>
    match stepT s op with
    | (s', none) => (s', none)
    | (s', some o) => runT stepT (k o) s'

theorem runT_of_runM (stepM : σ → Op → Option (σ × Out)) (stepT : σ → Op → σ × Option Out)
    (h : ∀ s op s' o, stepM s op = some (s', o) → stepT s op = (s', some o)) {α} (p : Prog Op Out α) :
    ∀ s a s', runM stepM p s = some (a, s') → runT stepT p s = (s', some a) := by
  induction p with
  | ret a => intro s a' s' hr; simp only [runM, Option.some.injEq, Prod.mk.injEq] at hr; obtain ⟨rfl, rfl⟩ := hr; rfl
  | fail => intro s a s' hr; cases hr
  | call op k ih =>
    intro s a s' hr
    simp only [runM] at hr
    cases hs : stepM s op with
    | none => rw [hs] at hr; cases hr
    | some x =>
      obtain ⟨s1, o⟩ := x
      rw [hs] at hr
      simp only [runT, h s op s1 o hs]
      exact ih o s1 a s' hr

theorem runT_inv (stepT : σ → Op → σ × Option Out) (Inv : σ → Prop) (h : ∀ s op, Inv s → Inv (stepT s op).1)
    {α} (p : Prog Op Out α) : ∀ s, Inv s → Inv (runT stepT p s).1 := by
  induction p with
  | ret a => intro s hs; exact hs
  | fail => intro s hs; exact hs
  | call op k ih =>
    intro s hs
    have h1 := h s op hs
    simp only [runT]
    cases hx : stepT s op with
    | mk s' o =>
      rw [hx] at h1
      cases o with
      | none => exact h1
      | some o => exact ih o s' h1

end P

namespace Sodg
open P
variable {L D : Type} [DecidableEq L] [Inhabited D]

/-- `g.merge(&h, left, right)` on the total model: the left graph as the call leaves it — also when it panics half-way —
    and the outcome (`none` = panic) -/
def mergeT (g h : G L D) (left right : Nat) : G L D × Option MergeOut :=
  if right < cap h then
    match P.runT stepT (mergeRec2 (viewOf h) (cap h + 1) left right []) g with
    | (g', none) => (g', none)
    | (g', some none) => (g', some .joined)
    | (g', some (some m)) =>
      if (mkeys m).length = (keys h).length then (g', some .ok)
      else (g', some (.err ((keys h).filter (fun v => decide (v ∉ mkeys m)))))
  else (g, none)

/-- wherever `merge` answers, `mergeT` gives the same graph and the same outcome -/
theorem mergeT_of_merge (g h g' : G L D) (left right : Nat) (out : MergeOut) (hm : merge g h left right = some (g', out)) :
    mergeT g h left right = (g', some out) := by
  unfold merge at hm; unfold mergeT
  by_cases hr : right < cap h
  · rw [if_pos hr] at hm ⊢
    cases hx : runM step (mergeRec2 (viewOf h) (cap h + 1) left right []) g with
    | none => rw [hx] at hm; cases hm
    | some x =>
      obtain ⟨res, g1⟩ := x
      rw [hx] at hm
      have := P.runT_of_runM step stepT (fun s op s' o hs => stepT_of_step s s' op o hs) _ g res g1 hx
      rw [this]
      cases res with
      | none => simp only at hm ⊢; cases hm; rfl
      | some m =>
        simp only at hm ⊢
        split at hm <;> split <;> simp_all
  · rw [if_neg hr] at hm; cases hm

/-- **`merge` keeps every computed index in range**, whether it returns `Ok`, `Err`, or panics half-way -/
theorem ms_mergeT (g h : G L D) (hg : MS g) (left right : Nat) : MS (mergeT g h left right).1 := by
  unfold mergeT
  split
  · have := P.runT_inv (stepT (L := L) (D := D)) MS (fun s op hs => ms_stepT s hs op)
      (mergeRec2 (viewOf h) (cap h + 1) left right []) g hg
    split
    · rename_i g' hx; rw [hx] at this; exact this
    · rename_i g' hx; rw [hx] at this; exact this
    · rename_i g' m hx; rw [hx] at this; split <;> exact this
  · exact hg

end Sodg
