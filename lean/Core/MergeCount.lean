import Core.MergeData
set_option linter.unusedSectionVars false
/-! Probe v2, C11 (c): every vertex `merge` creates is the image of a tree vertex, under an id that was not present;
    a tree vertex gets a new image exactly when its path was lacking in the left graph. With injectivity
    (`MergeData`) this is "exactly one new vertex per h path that g lacked". -/
namespace Sodg
namespace MT

variable {L D : Type} [DecidableEq L] [Inhabited D]

/-- old paths: in the extended graph, a path from an old root that ends in an old vertex is a path of the old graph -/
def OldPaths (r r' : RG L D) : Prop :=
  ∀ root, r.alive root = true → ∀ p u, walk r' root p = some u → r.alive u = true → walk r root p = some u

theorem OldPaths.refl (r : RG L D) : OldPaths r r := fun _ _ _ _ h _ => h

theorem OldPaths.trans {a b c : RG L D} (hab : Ext a b) (h1 : OldPaths a b) (h2 : OldPaths b c) : OldPaths a c := by
  intro root hr p u hw hu
  exact h1 root hr p u (h2 root (hab root hr).1 p u hw (hab u hu).1) hu

theorem oldPaths_put (r : RG L D) (v : Nat) (d : D) : OldPaths r (r.put v d) := by
  intro root _ p u hw _; rw [walk_put] at hw; exact hw

theorem oldPaths_newKid (r : RG L D) (left : Nat) (a : L) (id : Nat) (hl : r.alive left = true)
    (hid : r.alive id = false) (hk : r.kid left a = none) (hc : Closed r) : OldPaths r (newKid r left a id) := by
  intro root hr p u hw hu
  rcases walk_newKid r left a id hl hid hk hc p root u hr hw with ⟨_, h⟩ | ⟨rfl, _⟩
  · exact h
  · rw [hu] at hid; cases hid

variable (fresh : RG L D → Nat)

/-- the additional guarantees about the vertex set -/
structure Spec3 (r r' : RG L D) (m : List (Nat × Nat)) : Prop where
  old : OldPaths r r'
  newAreImages : ∀ v, r'.alive v = true → r.alive v = false → ∃ i, (i, v) ∈ m

mutual
theorem mergeT_spec3 (hf : FreshOk fresh) (r : RG L D) (left : Nat) (hl : r.alive left = true) (hc : Closed r) :
    (t : T L D) → Spec3 r (mergeT fresh r left t).1 (mergeT fresh r left t).2
  | .node id d kids => by
    have key : ∀ r1 : RG L D, Closed r1 → Ext r r1 → r1.alive left = true → OldPaths r r1 →
        (∀ v, r1.alive v = r.alive v) →
        Spec3 r (mergeKids fresh r1 left kids).1 ((id, left) :: (mergeKids fresh r1 left kids).2) := by
      intro r1 hc1 he1 hl1 ho1 ha1
      have sk := mergeKids_spec3 hf r1 left hl1 hc1 kids
      refine ⟨OldPaths.trans he1 ho1 sk.old, ?_⟩
      intro v hv hnv
      obtain ⟨i, hi⟩ := sk.newAreImages v hv (by rw [ha1]; exact hnv)
      exact ⟨i, List.mem_cons_of_mem _ hi⟩
    cases d with
    | none => simpa [mergeT] using key r hc (Ext.refl r) hl (OldPaths.refl r) (fun _ => rfl)
    | some b =>
      simpa [mergeT] using key (r.put left b) (put_closed r left b hc) (put_ext r left b) hl
        (oldPaths_put r left b) (fun _ => rfl)
theorem mergeKids_spec3 (hf : FreshOk fresh) (r : RG L D) (left : Nat) (hl : r.alive left = true) (hc : Closed r) :
    (kids : List (L × T L D)) → Spec3 r (mergeKids fresh r left kids).1 (mergeKids fresh r left kids).2
  | [] => by
    refine ⟨by simpa [mergeKids] using OldPaths.refl r, ?_⟩
    intro v hv hnv; simp [mergeKids] at hv; rw [hv] at hnv; cases hnv
  | (a0, c0) :: rest => by
    have step1 : ∃ r1 t, findOrCreate fresh r left a0 = (r1, t) ∧
        Ext r r1 ∧ Closed r1 ∧ r1.kid left a0 = some t ∧ OldPaths r r1 ∧
        (∀ v, r1.alive v = true → r.alive v = false → v = t) := by
      unfold findOrCreate
      cases hk : r.kid left a0 with
      | some t =>
        exact ⟨r, t, rfl, Ext.refl r, hc, hk, OldPaths.refl r, fun v h1 h2 => by rw [h1] at h2; cases h2⟩
      | none =>
        obtain ⟨e, c, k⟩ := newKid_spec r left a0 (fresh r) hl (hf r) hk hc
        refine ⟨_, _, rfl, e, c, k, oldPaths_newKid r left a0 (fresh r) hl (hf r) hk hc, ?_⟩
        intro v hv hnv
        rw [alive_iff, newKid_ids r left a0 (fresh r) ((alive_false_iff _ _).1 (hf r))] at hv
        simp only [List.mem_cons] at hv
        rcases hv with hv | hv
        · exact hv
        · rw [(alive_iff r v).2 hv] at hnv; cases hnv
    obtain ⟨r1, t, heq, he1, hc1, hk1, ho1, hnew1⟩ := step1
    have hl1 : r1.alive left = true := (he1 left hl).1
    have ht1 : r1.alive t = true := hc1 left hl1 a0 t hk1
    have s2 := mergeT_spec fresh hf r1 t ht1 hc1 c0
    have s2' := mergeT_spec3 hf r1 t ht1 hc1 c0
    have hl2 : (mergeT fresh r1 t c0).1.alive left = true := (s2.ext left hl1).1
    have s3 := mergeKids_spec fresh hf (mergeT fresh r1 t c0).1 left hl2 s2.closed rest
    have s3' := mergeKids_spec3 hf (mergeT fresh r1 t c0).1 left hl2 s2.closed rest
    rw [mergeKids_cons, heq]
    refine ⟨OldPaths.trans (he1.trans s2.ext) (OldPaths.trans he1 ho1 s2'.old) s3'.old, ?_⟩
    intro v hv hnv
    by_cases h2 : (mergeT fresh r1 t c0).1.alive v = true
    · by_cases h1 : r1.alive v = true
      · -- created by find-or-create: it is `t`, the image of c0 itself (path [])
        have hvt := hnew1 v h1 hnv
        subst hvt
        obtain ⟨u, hu, hm⟩ := s2.paths [] c0 rfl
        simp only [walk, Option.some.injEq] at hu; subst hu
        exact ⟨c0.id, List.mem_append_left _ hm⟩
      · obtain ⟨i, hi⟩ := s2'.newAreImages v h2 (by simpa using h1)
        exact ⟨i, List.mem_append_left _ hi⟩
    · obtain ⟨i, hi⟩ := s3'.newAreImages v hv (by simpa using h2)
      exact ⟨i, List.mem_append_right _ hi⟩
end

/-- **C11 (c)**: a vertex of the merged graph that was not present before is the image of a tree vertex (and, by
    `merge_data_and_injective`, of exactly one); and a tree vertex's image is new exactly when its path was lacking
    in the left graph. -/
theorem merge_new_vertices (hf : FreshOk fresh) (r : RG L D) (left : Nat) (hl : r.alive left = true) (hc : Closed r)
    (t : T L D) :
    let res := mergeT fresh r left t
    (∀ v, res.1.alive v = true → r.alive v = false → ∃ i, (i, v) ∈ res.2) ∧
    (∀ p c u, t.walk p = some c → walk res.1 left p = some u →
      (r.alive u = false ↔ walk r left p = none)) := by
  have s := mergeT_spec fresh hf r left hl hc t
  have s3 := mergeT_spec3 fresh hf r left hl hc t
  refine ⟨s3.newAreImages, ?_⟩
  intro p c u _ hw
  constructor
  · intro hnu
    cases hwr : walk r left p with
    | none => rfl
    | some u' =>
      -- an old path keeps its end point
      have hmono := walk_mono hc s.ext p left u' hl hwr
      rw [hw] at hmono; cases hmono
      -- u is the end of an old path from a present vertex in a closed graph: present
      have : ∀ q v w, r.alive v = true → walk r v q = some w → r.alive w = true := by
        intro q
        induction q with
        | nil => intro v w hv h; simp [walk] at h; subst h; exact hv
        | cons a q ih =>
          intro v w hv h
          simp only [walk] at h
          split at h
          · cases h
          next x hx => exact ih x w (hc v hv a x hx) h
      rw [this p left u hl hwr] at hnu; cases hnu
  · intro hnone
    cases hu : r.alive u with
    | false => rfl
    | true =>
      have := s3.old left hl p u hw hu
      rw [hnone] at this; cases this

#print axioms merge_new_vertices
end MT
end Sodg
