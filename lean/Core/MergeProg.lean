import Core.Corollaries
set_option linter.unusedSectionVars false
/-! Probe v2: `merge_rec` as a program over the graph API (Appendix A.3), and C12: `Ok` only if every present vertex
    of the right graph has been mapped. -/
namespace Sodg
open P

variable {L D : Type} [DecidableEq L] [Inhabited D]

abbrev Mapped := List (Nat × Nat)          -- right id ↦ left id, newest first
abbrev MProg (L D : Type) := Prog (Op L D) (Out L D)

def mlookup (m : Mapped) (k : Nat) : Option Nat :=
  match m with
  | [] => none
  | (a, b) :: r => if a = k then some b else mlookup r k

def mkeys (m : Mapped) : List Nat := m.map Prod.fst

/-- the right graph, read only -/
structure RightView (L D : Type) where
  edges : Nat → List (L × Nat)
  data : Nat → Option D            -- `none` = persistence Empty
  keys : List Nat                  -- present vertices

mutual
/-- `merge_rec`, first pass (the second pass, which may call `join`, is `joinCheck` below) -/
def mergeRec (h : RightView L D) : Nat → Nat → Nat → Mapped → MProg L D Mapped
  | 0, _, _, _ => .fail
  | fuel + 1, left, right, m =>
    if (mlookup m right).isSome then .ret m
    else
      let m1 := (right, left) :: m
      let putP : MProg L D Unit := match h.data right with
        | some d => .call (.put left d) (fun _ => .ret ())
        | none => .ret ()
      putP.bind (fun _ => kidsFold h fuel left (h.edges right) m1)
def kidsFold (h : RightView L D) : Nat → Nat → List (L × Nat) → Mapped → MProg L D Mapped
  | _, _, [], m => .ret m
  | fuel, left, (a, to) :: rest, m =>
    .call (.kid left a) (fun o =>
      let cont : Nat → MProg L D Mapped := fun matched =>
        (mergeRec h fuel matched to m).bind (fun m' => kidsFold h fuel left rest m')
      match o with
      | .kid (some t) => cont t
      | .kid none =>
        match mlookup m to with
        | some t => .call (.bind left t a) (fun _ => cont t)
        | none => .call .nextId (fun o2 => match o2 with
          | .id i => .call (.add i) (fun _ => .call (.bind left i a) (fun _ => cont i))
          | _ => .fail)
      | _ => .fail)
end

/-! ### interpreting programs on the reference -/

theorem runR_bind {ρ α β} (stepR : ρ → Op L D → ρ × Out L D) (p : MProg L D α) (f : α → MProg L D β) (r : ρ) :
    runR stepR (p.bind f) r = match runR stepR p r with
      | none => none
      | some (a, r') => runR stepR (f a) r' := by
  induction p generalizing r with
  | ret a => rfl
  | fail => rfl
  | call op k ih => simp only [Prog.bind, runR]; exact ih _ _

/-! ### C12 -/

/-- vertices of the right graph reachable from `v` along its edges -/
inductive HReach (h : RightView L D) (v : Nat) : Nat → Prop
  | refl : HReach h v v
  | step {u a w} : HReach h v u → (a, w) ∈ h.edges u → HReach h v w

/-- what the first pass guarantees about the table, whatever the left graph answers -/
structure TableSpec (h : RightView L D) (S : Nat → Prop) (m m' : Mapped) : Prop where
  nodup : (mkeys m).Nodup → (mkeys m').Nodup
  sub : (∀ k ∈ mkeys m, S k) → ∀ k ∈ mkeys m', S k
  keep : ∀ k ∈ mkeys m, k ∈ mkeys m'

theorem mlookup_none_iff (m : Mapped) (k : Nat) : mlookup m k = none ↔ k ∉ mkeys m := by
  induction m with
  | nil => simp [mlookup, mkeys]
  | cons e r ih =>
    obtain ⟨a, b⟩ := e
    simp only [mlookup, mkeys, List.map_cons, List.mem_cons, not_or] at ih ⊢
    by_cases hak : a = k
    · simp [hak]
    · have : ¬ k = a := fun e => hak e.symm
      simp [hak, this, ih]

variable {ρ : Type} (stepR : ρ → Op L D → ρ × Out L D)

/-- the set `S` must contain `right` and be closed under the right graph's edges -/
theorem table_spec (h : RightView L D) (S : Nat → Prop) (hS : ∀ u a w, S u → (a, w) ∈ h.edges u → S w) :
    ∀ fuel,
      (∀ left right m r m' r', S right → runR stepR (mergeRec h fuel left right m) r = some (m', r') →
        TableSpec h S m m') ∧
      (∀ left es m r m' r', (∀ p ∈ es, S p.2) → runR stepR (kidsFold h fuel left es m) r = some (m', r') →
        TableSpec h S m m') := by
  intro fuel
  induction fuel with
  | zero =>
    refine ⟨?_, ?_⟩
    · intro left right m r m' r' _ hrun; simp [mergeRec, runR] at hrun
    · intro left es
      induction es with
      | nil =>
        intro m r m' r' _ hrun
        simp [kidsFold, runR] at hrun; obtain ⟨rfl, _⟩ := hrun
        exact ⟨fun h => h, fun h => h, fun _ h => h⟩
      | cons e rest ih =>
        intro m r m' r' hes hrun
        obtain ⟨a, to⟩ := e
        exfalso
        simp only [kidsFold, runR] at hrun
        -- every branch runs `mergeRec h 0 …`, which fails
        generalize (stepR r (Op.kid left a)) = x at hrun
        obtain ⟨r1, o⟩ := x
        simp only at hrun
        cases o with
        | kid t =>
          cases t with
          | some t => simp [runR_bind, mergeRec, runR] at hrun
          | none =>
            simp only at hrun
            cases hl : mlookup m to with
            | some t => simp [hl, runR, runR_bind, mergeRec] at hrun
            | none =>
              simp only [hl, runR] at hrun
              generalize (stepR r1 Op.nextId) = y at hrun
              obtain ⟨r2, o2⟩ := y
              cases o2 <;> simp [runR, runR_bind, mergeRec] at hrun
        | unit => simp [runR] at hrun
        | data _ => simp [runR] at hrun
        | kids _ => simp [runR] at hrun
        | keys _ => simp [runR] at hrun
        | id _ => simp [runR] at hrun
  | succ fuel ih =>
    obtain ⟨ihM, ihK⟩ := ih
    -- mergeRec at fuel+1 uses kidsFold at fuel
    have specM : ∀ left right m r m' r', S right → runR stepR (mergeRec h (fuel + 1) left right m) r = some (m', r') →
        TableSpec h S m m' := by
      intro left right m r m' r' hSr hrun
      rw [mergeRec] at hrun
      split at hrun
      · simp [runR] at hrun; obtain ⟨rfl, _⟩ := hrun
        exact ⟨fun h => h, fun h => h, fun _ h => h⟩
      next hnot =>
        have hnk : right ∉ mkeys m := by
          rw [← mlookup_none_iff]; cases hx : mlookup m right with
          | none => rfl
          | some _ => simp [hx] at hnot
        simp only [runR_bind] at hrun
        -- the optional put does not touch the table
        have : ∃ r1, runR stepR (kidsFold h fuel left (h.edges right) ((right, left) :: m)) r1 = some (m', r') := by
          cases hd : h.data right with
          | none => simp [hd, runR] at hrun; exact ⟨r, hrun⟩
          | some d => simp [hd, runR] at hrun; exact ⟨_, hrun⟩
        obtain ⟨r1, hk⟩ := this
        have sp := ihK left (h.edges right) ((right, left) :: m) r1 m' r'
          (fun p hp => hS right p.1 p.2 hSr (by simpa using hp)) hk
        refine ⟨?_, ?_, ?_⟩
        · intro hn; exact sp.nodup (by simp [mkeys] at hnk ⊢; exact ⟨hnk, hn⟩)
        · intro hsub; exact sp.sub (by
            intro k hk; simp [mkeys] at hk; rcases hk with rfl | hk
            · exact hSr
            · exact hsub k (by simpa [mkeys] using hk))
        · intro k hk; exact sp.keep k (by simp [mkeys] at hk ⊢; exact Or.inr hk)
    refine ⟨specM, ?_⟩
    intro left es
    induction es with
    | nil =>
      intro m r m' r' _ hrun
      simp [kidsFold, runR] at hrun; obtain ⟨rfl, _⟩ := hrun
      exact ⟨fun h => h, fun h => h, fun _ h => h⟩
    | cons e rest ihes =>
      intro m r m' r' hes hrun
      obtain ⟨a, to⟩ := e
      have hSto : S to := hes (a, to) (by simp)
      have hrest : ∀ p ∈ rest, S p.2 := fun p hp => hes p (List.mem_cons_of_mem _ hp)
      -- whatever `matched` is, the continuation is: mergeRec (fuel+1) matched to m, then the rest
      have contSpec : ∀ matched r0, runR stepR ((mergeRec h (fuel + 1) matched to m).bind
          (fun m1 => kidsFold h (fuel + 1) left rest m1)) r0 = some (m', r') → TableSpec h S m m' := by
        intro matched r0 hc
        rw [runR_bind] at hc
        cases h1 : runR stepR (mergeRec h (fuel + 1) matched to m) r0 with
        | none => simp [h1] at hc
        | some x =>
          obtain ⟨m1, r1⟩ := x
          simp only [h1] at hc
          have s1 := specM matched to m r0 m1 r1 hSto h1
          have s2 := ihes m1 r1 m' r' hrest hc
          exact ⟨fun hn => s2.nodup (s1.nodup hn), fun hs => s2.sub (s1.sub hs), fun k hk => s2.keep k (s1.keep k hk)⟩
      simp only [kidsFold, runR] at hrun
      generalize (stepR r (Op.kid left a)) = x at hrun
      obtain ⟨r1, o⟩ := x
      simp only at hrun
      cases o with
      | kid t =>
        cases t with
        | some t => exact contSpec t r1 hrun
        | none =>
          simp only at hrun
          cases hl : mlookup m to with
          | some t => simp only [hl, runR] at hrun; exact contSpec t _ hrun
          | none =>
            simp only [hl, runR] at hrun
            generalize (stepR r1 Op.nextId) = y at hrun
            obtain ⟨r2, o2⟩ := y
            cases o2 with
            | id i => simp only [runR] at hrun; exact contSpec i _ hrun
            | unit => simp [runR] at hrun
            | data _ => simp [runR] at hrun
            | kid _ => simp [runR] at hrun
            | kids _ => simp [runR] at hrun
            | keys _ => simp [runR] at hrun
      | unit => simp [runR] at hrun
      | data _ => simp [runR] at hrun
      | kids _ => simp [runR] at hrun
      | keys _ => simp [runR] at hrun
      | id _ => simp [runR] at hrun

/-- **C12**: if every edge target of the right graph is present and the table has as many keys as the right graph
    has present vertices, then every present vertex is in the table — `merge` cannot report success while having
    missed one. -/
theorem ok_implies_complete (h : RightView L D) (hk : h.keys.Nodup) (right : Nat) (hr : right ∈ h.keys)
    (closed : ∀ u ∈ h.keys, ∀ p ∈ h.edges u, p.2 ∈ h.keys)
    (fuel left : Nat) (r : ρ) (m' : Mapped) (r' : ρ)
    (hrun : runR stepR (mergeRec h fuel left right []) r = some (m', r'))
    (hlen : (mkeys m').length = h.keys.length) : ∀ v ∈ h.keys, v ∈ mkeys m' := by
  have sp := (table_spec stepR h (fun v => v ∈ h.keys) (fun u a w hu he => closed u hu (a, w) he) fuel).1
    left right [] r m' r' hr hrun
  have nd : (mkeys m').Nodup := sp.nodup (by simp [mkeys])
  have sub : ∀ k ∈ mkeys m', k ∈ h.keys := sp.sub (by simp [mkeys])
  -- a duplicate-free sublist of the same length is the whole list
  intro v hv
  apply Classical.byContradiction
  intro hnv
  have : ∀ k ∈ mkeys m', k ∈ h.keys.erase v := by
    intro k hkm
    rw [List.Nodup.mem_erase_iff hk]
    exact ⟨by rintro rfl; exact hnv hkm, sub k hkm⟩
  have h1 := nd.length_le_of_subset this
  rw [List.length_erase_of_mem hv] at h1
  have : 0 < h.keys.length := List.length_pos_of_mem hv
  omega

#print axioms ok_implies_complete
end Sodg
