import Core.Frame
set_option linter.unusedSectionVars false
namespace Sodg

variable {L D : Type} [DecidableEq L] [Inhabited D]

theorem inv_joinGrp (g g' : G L D) (v b : Nat) (hi : Inv g) (hv : v < cap g) (ht : tag g v = 1)
    (hb2 : 2 ≤ b) (hb16 : b < 16) (h : joinGrp g v b = some g') : Inv g' := by
  unfold joinGrp at h
  split at h
  next hlen =>
    cases h
    have hvn : ∀ c, 2 ≤ c → c < 16 → v ∉ mem g c := by
      intro c h2 h16 hm
      have := (hi.memb c h2 h16 v hm).2
      omega
    have hbr := hi.brsz
    have hst := hi.stsz
    -- abbreviations
    have tag' : ∀ w, tag (enroll (pushMem (setTag g v b) b v) v b) w = if v = w then b else tag g w := by
      intro w
      unfold enroll; split <;> simp [tag_setTag] <;> grind
    have pers' : ∀ w, pers (enroll (pushMem (setTag g v b) b v) v b) w = pers g w := by
      intro w; unfold enroll; split <;> simp
    have mem' : ∀ c, mem (enroll (pushMem (setTag g v b) b v) v b) c = if b = c then mem g c ++ [v] else mem g c := by
      intro c; unfold enroll; split <;> simp [mem_pushMem] <;> grind
    have cnt' : ∀ c, cnt (enroll (pushMem (setTag g v b) b v) v b) c =
        if b = c ∧ pers g v = .stored then cnt g c + 1 else cnt g c := by
      intro c; unfold enroll
      split
      next hp => simp at hp; simp [cnt_incr, hp]; grind
      next hp => simp at hp; simp [hp]
    have cap' : cap (enroll (pushMem (setTag g v b) b v) v b) = cap g := by
      unfold enroll; split <;> simp
    refine ⟨?_, ?_, ?_, ?_, ?_, ?_, ?_, ?_, ?_⟩
    · unfold enroll; split <;> simp [hbr]
    · unfold enroll; split <;> simp [hst]
    · rw [mem']; have := hi.s0; grind
    · rw [mem']; have := hi.s1; grind
    · intro w hw; rw [tag']; rw [cap'] at hw; have := hi.taglt w hw; grind
    · intro c h2 h16 w hw
      rw [mem'] at hw; rw [tag', cap']
      by_cases hbc : b = c
      · subst hbc
        simp at hw
        rcases hw with hw | rfl
        · have := hi.memb b h2 h16 w hw
          have : v ≠ w := by rintro rfl; exact hvn b h2 h16 hw
          grind
        · simp [hv]
      · simp [hbc] at hw
        have := hi.memb c h2 h16 w hw
        have : v ≠ w := by rintro rfl; exact hvn c h2 h16 hw
        grind
    · intro c h2 h16
      rw [mem']
      by_cases hbc : b = c
      · subst hbc; simp
        rw [List.nodup_append]
        refine ⟨hi.nodup b h2 h16, by simp, ?_⟩
        intro a ha x hx; simp at hx; subst hx; rintro rfl; exact hvn b h2 h16 ha
      · simp [hbc]; exact hi.nodup c h2 h16
    · intro w hw h2
      rw [tag'] at h2 ⊢; rw [cap'] at hw; rw [mem']
      by_cases hvw : v = w
      · subst hvw; simp
      · simp [hvw] at h2 ⊢
        have := hi.own w hw h2
        grind
    · intro c h2 h16
      rw [cnt', mem']
      have hc := hi.count c h2 h16
      have hu : ∀ ms, unread (enroll (pushMem (setTag g v b) b v) v b) ms = unread g ms := by
        intro ms; apply unread_congr; intro x _; exact pers' x
      rw [hu]
      by_cases hbc : b = c
      · subst hbc
        simp only [true_and, if_true]
        rw [unread_append, ← hc]
        by_cases hp : pers g v = .stored <;> simp [unread, hp]
      · simp [hbc, hc]
  · cases h

#print axioms inv_joinGrp
end Sodg
