import Core.TheoremA
set_option linter.unusedSectionVars false
/-! Probe v2: the property statements on the slot-free reference (C01, C03, C04, C05). By Theorem A they hold of
    the model's outputs for every valid history. -/
namespace Sodg

variable {L D : Type} [DecidableEq L] [Inhabited D]

/-! ### C04 -/

theorem R.add_present_noop (r : R L D) (v : Nat) (h : v ∈ r.ids) : r.add v = r := by simp [R.add, h]

theorem R.add_absent_blank (r : R L D) (v : Nat) (h : v ∉ r.ids) :
    v ∈ (r.add v).ids ∧ (r.add v).edg v = [] ∧ (r.add v).dat v = none ∧ (r.add v).grp v = none ∧
      (r.add v).unr v = false ∧
      ∀ w, w ≠ v → ((w ∈ (r.add v).ids ↔ w ∈ r.ids) ∧ (r.add v).edg w = r.edg w ∧ (r.add v).dat w = r.dat w ∧
        (r.add v).grp w = r.grp w ∧ (r.add v).unr w = r.unr w) := by
  simp only [R.add, h, if_false, upd_same, List.mem_cons, true_or, true_and]
  intro w hw
  simp [upd_get, hw]

theorem add_present_noop (g : G L D) (v : Nat) (hv : v < cap g) (h : tag g v ≠ 0) : add g v = some g := by
  simp [add, hv, h]

/-! ### C01: the alive set shrinks only in a first read, by exactly one whole group without unread data -/

theorem R.ids_add (r : R L D) (v w : Nat) (h : w ∈ r.ids) : w ∈ (r.add v).ids := by
  unfold R.add; split <;> simp [h]

theorem R.ids_bind (r : R L D) (v1 v2 : Nat) (a : L) : (r.bind v1 v2 a).ids = r.ids := by
  unfold R.bind R.bindGrp R.setEdge; simp only; split <;> rfl

theorem R.ids_put (r : R L D) (v : Nat) (d : D) : (r.put v d).ids = r.ids := rfl

/-- a read that is not a first read removes nothing -/
theorem R.data_not_unread (r : R L D) (v : Nat) (h : r.unr v = false) : r.data v = r := by simp [R.data, h]

/-- what a first read removes: nothing, or exactly the alive members of the reader's group, none of which holds
    an unread datum any more; ungrouped vertices are never removed -/
theorem R.data_removes (r : R L D) (v w : Nat) (hw : w ∈ r.ids) (hgone : w ∉ (r.data v).ids) :
    r.unr v = true ∧ ∃ k, r.grp v = some k ∧ r.grp w = some k ∧
      ∀ x ∈ r.ids, r.grp x = some k → x ≠ v → r.unr x = false := by
  unfold R.data at hgone
  cases hu : r.unr v with
  | false => simp [hu] at hgone; exact absurd hw hgone
  | true =>
    simp only [hu, if_true] at hgone
    cases hg : r.grp v with
    | none => simp [hg] at hgone; exact absurd hw hgone
    | some k =>
      simp only [hg] at hgone
      split at hgone
      next hall =>
        simp only [List.mem_filter, decide_eq_true_eq, not_and] at hgone
        have hkw : r.grp w = some k := Classical.byContradiction (fun hne => hgone hw hne)
        refine ⟨rfl, k, rfl, hkw, ?_⟩
        intro x hx hgx hxv
        rw [List.all_eq_true] at hall
        have := hall x (by simp [R.members, hx, hgx])
        simpa [upd_get, hxv] using this
      · exact absurd hw hgone

/-- members of other groups, and ungrouped vertices, survive every read -/
theorem R.data_keeps (r : R L D) (v w : Nat) (hw : w ∈ r.ids) (h : r.grp w ≠ r.grp v ∨ r.grp w = none) :
    w ∈ (r.data v).ids := by
  apply Classical.byContradiction
  intro hgone
  obtain ⟨_, k, hk, hkw, _⟩ := R.data_removes r v w hw hgone
  rcases h with h | h
  · exact h (by rw [hk, hkw])
  · rw [h] at hkw; cases hkw

/-- exactness (C02): the read of the last unread datum of a group removes every alive member of it -/
theorem R.data_collects (r : R L D) (v k : Nat) (hu : r.unr v = true) (hk : r.grp v = some k)
    (hlast : ∀ x ∈ r.ids, r.grp x = some k → x ≠ v → r.unr x = false) :
    ∀ w, w ∈ (r.data v).ids ↔ (w ∈ r.ids ∧ r.grp w ≠ some k) := by
  intro w
  have hall : ((({ r with unr := upd r.unr v false } : R L D).members k).all
      (fun x => !(upd r.unr v false x))) = true := by
    rw [List.all_eq_true]
    intro x hx
    simp only [R.members, List.mem_filter, decide_eq_true_eq] at hx
    by_cases hxv : x = v
    · simp [hxv]
    · simp [upd_get, hxv, hlast x hx.1 hx.2 hxv]
  simp [R.data, hu, hk, hall]

/-! ### C05: ids handed out by `next_id` are absent, below the bound, and never repeat -/

theorem R.nextId_spec (r r' : R L D) (c id : Nat) (h : r.nextId c = some (r', id)) :
    id < c ∧ id ∉ r.ids ∧ r.pos ≤ id ∧ id < r'.pos ∧ r.pos ≤ r'.pos ∧ r'.ids = r.ids := by
  unfold R.nextId at h
  split at h
  · cases h
  next i hf =>
    have hm := List.mem_of_find?_eq_some hf
    have hp := List.find?_some hf
    simp only [List.mem_range] at hm
    simp only [decide_eq_true_eq] at hp
    split at h <;> cases h
    · exact ⟨hm, hp.1, hp.2, by show id < id + 1; omega, by show r.pos ≤ id + 1; omega, rfl⟩
    · exact ⟨hm, hp.1, hp.2, by omega, Nat.le_refl _, rfl⟩

theorem R.pos_mono (c : Nat) (r : R L D) (op : Op L D) : r.pos ≤ (R.step c r op).1.pos := by
  cases op with
  | add v => simp only [R.step, R.add]; split <;> exact Nat.le_refl _
  | bind v1 v2 a => simp only [R.step, R.bind, R.bindGrp, R.setEdge]; split <;> exact Nat.le_refl _
  | put v d => exact Nat.le_refl _
  | data v =>
    simp only [R.step, R.data]
    split
    · split
      · exact Nat.le_refl _
      · split <;> exact Nat.le_refl _
    · exact Nat.le_refl _
  | kid v a => exact Nat.le_refl _
  | kids v => exact Nat.le_refl _
  | keys => exact Nat.le_refl _
  | nextId =>
    simp only [R.step]
    cases h : r.nextId c with
    | none => exact Nat.le_refl _
    | some x => obtain ⟨r', id⟩ := x; exact (R.nextId_spec r r' c id h).2.2.2.2.1

/-- the ids returned by the `next_id` calls of a run -/
def returned : List (Out L D) → List Nat
  | [] => []
  | .id i :: os => i :: returned os
  | _ :: os => returned os

theorem R.returned_ge (c : Nat) (ops : List (Op L D)) : ∀ (r : R L D), ∀ i ∈ returned (R.run c r ops), r.pos ≤ i := by
  induction ops with
  | nil => intro r i hi; simp [R.run, returned] at hi
  | cons op ops ih =>
    intro r i hi
    have hmono := R.pos_mono c r op
    simp only [R.run] at hi
    cases op with
    | nextId =>
      simp only [R.step] at hi hmono ih
      cases h : r.nextId c with
      | none =>
        rw [h] at hi; simp only [returned] at hi
        exact ih r i hi
      | some x =>
        obtain ⟨r', id⟩ := x
        rw [h] at hi hmono
        simp only [returned, List.mem_cons] at hi
        have sp := R.nextId_spec r r' c id h
        rcases hi with rfl | hi
        · exact sp.2.2.1
        · have := ih r' i hi; omega
    | add v => simp only [R.step, returned] at hi hmono; have := ih _ i hi; omega
    | bind v1 v2 a => simp only [R.step, returned] at hi hmono; have := ih _ i hi; omega
    | put v d => simp only [R.step, returned] at hi hmono; have := ih _ i hi; omega
    | data v => simp only [R.step, returned] at hi hmono; have := ih _ i hi; omega
    | kid v a => simp only [R.step, returned] at hi hmono; have := ih _ i hi; omega
    | kids v => simp only [R.step, returned] at hi hmono; have := ih _ i hi; omega
    | keys => simp only [R.step, returned] at hi hmono; have := ih _ i hi; omega

/-- **C05**: along any run the ids returned by `next_id` never repeat -/
theorem R.returned_nodup (c : Nat) (ops : List (Op L D)) : ∀ (r : R L D), (returned (R.run c r ops)).Nodup := by
  induction ops with
  | nil => intro r; simp [R.run, returned]
  | cons op ops ih =>
    intro r
    simp only [R.run]
    cases op with
    | nextId =>
      simp only [R.step]
      cases h : r.nextId c with
      | none => simp only [returned]; exact ih r
      | some x =>
        obtain ⟨r', id⟩ := x
        simp only [returned]
        refine List.nodup_cons.2 ⟨?_, ih r'⟩
        intro hm
        have := R.returned_ge c ops r' id hm
        have sp := R.nextId_spec r r' c id h
        omega
    | add v => simp only [R.step, returned]; exact ih _
    | bind v1 v2 a => simp only [R.step, returned]; exact ih _
    | put v d => simp only [R.step, returned]; exact ih _
    | data v => simp only [R.step, returned]; exact ih _
    | kid v a => simp only [R.step, returned]; exact ih _
    | kids v => simp only [R.step, returned]; exact ih _
    | keys => simp only [R.step, returned]; exact ih _

/-! ### C03: what was last written is what is read, and other calls do not disturb it -/

theorem lookup_upsert (es : List (L × Nat)) (a b : L) (t : Nat) :
    lookup (upsert es a t) b = if b = a then some t else lookup es b := by
  induction es with
  | nil =>
    simp only [upsert, lookup]
    by_cases h : a = b
    · subst h; simp
    · have : ¬ b = a := fun e => h e.symm
      simp [h, this]
  | cons e r ih =>
    obtain ⟨c, u⟩ := e
    unfold upsert
    by_cases hca : c = a
    · subst hca
      simp only [if_true, lookup]
      by_cases hcb : c = b
      · subst hcb; simp
      · have : ¬ b = c := fun e => hcb e.symm
        simp [hcb, this]
    · simp only [hca, if_false, lookup, ih]
      by_cases hcb : c = b
      · subst hcb
        have : ¬ c = a := hca
        simp [this]
      · simp [hcb]

/-- after `bind v t a`, `kid v a` is `t` -/
theorem R.kid_after_bind (r : R L D) (v t : Nat) (a : L) : lookup ((r.bind v t a).edg v) a = some t := by
  have : (r.bind v t a).edg = upd r.edg v (upsert (r.edg v) a t) := by
    unfold R.bind R.bindGrp R.setEdge; simp only; split <;> rfl
  rw [this, upd_same, lookup_upsert]; simp

/-- a `bind` under another label, or from another vertex, does not change `kid v a` -/
theorem R.kid_frame_bind (r : R L D) (v v1 v2 : Nat) (a b : L) (h : v1 ≠ v ∨ b ≠ a) :
    lookup ((r.bind v1 v2 b).edg v) a = lookup (r.edg v) a := by
  have : (r.bind v1 v2 b).edg = upd r.edg v1 (upsert (r.edg v1) b v2) := by
    unfold R.bind R.bindGrp R.setEdge; simp only; split <;> rfl
  rw [this, upd_get]
  by_cases hv : v = v1
  · subst hv
    rcases h with h | h
    · exact absurd rfl h
    · simp only [if_true, lookup_upsert]
      have : ¬ a = b := fun e => h e.symm
      simp [this]
  · simp [hv]

/-- `put`, `data`, the queries and `next_id` change no edge; `add` changes none of a present vertex -/
theorem R.edg_frame (c : Nat) (r : R L D) (op : Op L D) (v : Nat) (hv : v ∈ r.ids)
    (hop : ∀ v1 v2 a, op ≠ .bind v1 v2 a) : (R.step c r op).1.edg v = r.edg v := by
  cases op with
  | add w =>
    simp only [R.step, R.add]
    split
    · rfl
    next hw => simp only [upd_get]; have : v ≠ w := by rintro rfl; exact hw hv
               simp [this]
  | bind v1 v2 a => exact absurd rfl (hop v1 v2 a)
  | put w d => rfl
  | data w =>
    simp only [R.step, R.data]
    split
    · split
      · rfl
      · split <;> rfl
    · rfl
  | kid w a => rfl
  | kids w => rfl
  | keys => rfl
  | nextId => simp only [R.step]; cases h : r.nextId c with
    | none => rfl
    | some x => obtain ⟨r', id⟩ := x; simp only [R.nextId] at h; split at h
                · cases h
                · split at h <;> cases h <;> rfl

/-- after `put v d` every read returns `d`, until the next `put v` (or the death of `v`) -/
theorem R.dat_after_put (r : R L D) (v : Nat) (d : D) : (r.put v d).dat v = some d := by simp [R.put]

theorem R.dat_frame (c : Nat) (r : R L D) (op : Op L D) (v : Nat) (hv : v ∈ r.ids)
    (hop : ∀ d, op ≠ .put v d) : (R.step c r op).1.dat v = r.dat v := by
  cases op with
  | add w =>
    simp only [R.step, R.add]
    split
    · rfl
    next hw => simp only [upd_get]; have : v ≠ w := by rintro rfl; exact hw hv
               simp [this]
  | bind v1 v2 a => simp only [R.step, R.bind, R.bindGrp, R.setEdge]; split <;> rfl
  | put w d =>
    simp only [R.step, R.put, upd_get]
    have : v ≠ w := by rintro rfl; exact hop d rfl
    simp [this]
  | data w =>
    simp only [R.step, R.data]
    split
    · split
      · rfl
      · split <;> rfl
    · rfl
  | kid w a => rfl
  | kids w => rfl
  | keys => rfl
  | nextId => simp only [R.step]; cases h : r.nextId c with
    | none => rfl
    | some x => obtain ⟨r', id⟩ := x; simp only [R.nextId] at h; split at h
                · cases h
                · split at h <;> cases h <;> rfl

#print axioms R.data_removes
#print axioms R.data_collects
#print axioms R.returned_nodup
#print axioms R.edg_frame
end Sodg
