import Core.EdgesBelow
set_option linter.unusedSectionVars false
/-! Bounds that the image of a graph needs and that `Inv` does not contain: the two reserved counters stay 0, a
    member list never exceeds 16 entries, at most `N` edges per slot, and every stored label and datum satisfies the
    well-formedness predicate of the calls that wrote it. Proved for every state reachable by a valid history whose
    `bind` labels and `put` data are well-formed (`ReachW`). Generic in the two predicates. -/
namespace Sodg

variable {L D : Type} [DecidableEq L] [Inhabited D]
variable (wl : L → Prop) (wd : D → Prop)

/-- what a call carries -/
def OpWf : Op L D → Prop
  | .bind _ _ a => wl a
  | .put _ d => wd d
  | _ => True

structure WfS (g : G L D) : Prop where
  c0 : cnt g 0 = 0
  c1 : cnt g 1 = 0
  len : ∀ b, (mem g b).length ≤ 16
  dat : ∀ u, wd (dat g u)
  elen : ∀ u, (edg g u).length ≤ g.n
  labs : ∀ u, ∀ e ∈ edg g u, wl e.1

/-- reachable by a valid history of well-formed calls -/
inductive ReachW (n c : Nat) : G L D → R L D → List (Nat × Nat) → Prop
  | init : ReachW n c (empty n c) R.empty []
  | step {g : G L D} {r : R L D} {P : List (Nat × Nat)} (op : Op L D) (g' : G L D) (o : Out L D) :
      ReachW n c g r P → OkStep n c r op → OpWf wl wd op → Sodg.step g op = some (g', o) →
      ReachW n c g' (R.step c r op).1 (pairsStep r P op)

theorem ReachW.reach {n c : Nat} {g : G L D} {r : R L D} {P : List (Nat × Nat)} (h : ReachW wl wd n c g r P) :
    Reach n c g r P := by
  induction h with
  | init => exact .init
  | step op g' o _ ok _ hs ih => exact .step op g' o ih ok hs

theorem mem_upsert_label (es : List (L × Nat)) (a : L) (t : Nat) (e : L × Nat) (h : e ∈ upsert es a t) :
    e ∈ es ∨ e.1 = a := by
  induction es with
  | nil => simp [upsert] at h; right; rw [h]
  | cons x xs ih =>
    obtain ⟨b, u⟩ := x
    simp only [upsert] at h
    split at h
    next hb =>
      simp only [List.mem_cons] at h
      rcases h with h | h
      · right; rw [h]; exact hb
      · left; simp [h]
    · simp only [List.mem_cons] at h
      rcases h with h | h
      · left; simp [h]
      · rcases ih h with h' | h'
        · left; simp [h']
        · right; exact h'

theorem dat_enroll (g : G L D) (v b w : Nat) : dat (enroll g v b) w = dat g w := by unfold enroll; split <;> simp
theorem mem_enroll (g : G L D) (v b c : Nat) : mem (enroll g v b) c = mem g c := by unfold enroll; split <;> simp
theorem n_enroll (g : G L D) (v b : Nat) : (enroll g v b).n = g.n := by unfold enroll; split <;> simp
theorem cnt_enroll_other (g : G L D) (v b c : Nat) (h : b ≠ c) : cnt (enroll g v b) c = cnt g c := by
  unfold enroll; split
  · rw [cnt_incr]; simp [h]
  · rfl

theorem wfs_joinGrp (g g' : G L D) (v b : Nat) (h : WfS wl wd g) (hb : 2 ≤ b) (hj : joinGrp g v b = some g') :
    WfS wl wd g' := by
  unfold joinGrp at hj
  split at hj
  next hlen =>
    cases hj
    refine ⟨?_, ?_, ?_, ?_, ?_, ?_⟩
    · rw [cnt_enroll_other _ _ _ _ (by omega)]; simpa using h.c0
    · rw [cnt_enroll_other _ _ _ _ (by omega)]; simpa using h.c1
    · intro c
      rw [mem_enroll, mem_pushMem]
      split
      next hc => simp only [mem_setTag, List.length_append, List.length_singleton]; rw [← hc.1]; omega
      · simpa using h.len c
    · intro u; rw [dat_enroll]; simpa using h.dat u
    · intro u; rw [edg_enroll, n_enroll]; simpa using h.elen u
    · intro u e he; rw [edg_enroll] at he; simp at he; exact h.labs u e he
  · cases hj

theorem ReachW.wfs (hdef : wd (default : D)) {n c : Nat} {g : G L D} {r : R L D} {P : List (Nat × Nat)}
    (h : ReachW wl wd n c g r P) : WfS wl wd g := by
  induction h with
  | init =>
    have hm : ∀ b, (mem (empty n c : G L D) b).length ≤ 16 := by
      intro b; unfold mem empty
      by_cases hb : b < 16
      · have : ∀ b, b < 16 → ((((Array.replicate 16 ([] : List Nat)).setIfInBounds 0 [0]).setIfInBounds 1 [0])[b]!).length ≤ 16 := by decide
        exact this b hb
      · have hs : (((Array.replicate 16 ([] : List Nat)).setIfInBounds 0 [0]).setIfInBounds 1 [0]).size = 16 := by simp
        have : (((Array.replicate 16 ([] : List Nat)).setIfInBounds 0 [0]).setIfInBounds 1 [0])[b]! = [] := by
          rw [getElem!_def, Array.getElem?_eq_none (by omega)]; rfl
        rw [this]; simp
    have he : ∀ u, edg (empty n c : G L D) u = [] := by
      intro u; unfold edg empty; by_cases hu : u < c <;> simp [hu, blank] <;> rfl
    have hd : ∀ u, dat (empty n c : G L D) u = default := by
      intro u; unfold dat empty; by_cases hu : u < c <;> simp [hu, blank] <;> rfl
    refine ⟨by simp [cnt, empty], by simp [cnt, empty], hm, ?_, ?_, ?_⟩
    · intro u; rw [hd]; exact hdef
    · intro u; rw [he]; simp
    · intro u e hx; rw [he] at hx; cases hx
  | @step g r P op g' o hprev ok hop hs ih =>
    obtain ⟨hr, hc, hn, _, _⟩ := hprev.reach.inv
    have hi := hr.inv
    cases op with
    | add v =>
      simp only [Sodg.step, Option.map_eq_some_iff] at hs
      obtain ⟨g1, ha, he⟩ := hs
      cases he
      unfold add at ha
      split at ha
      · split at ha
        · cases ha
          have key : ∀ u, (g.vs.setIfInBounds v { (blank : Vertex L D) with branch := 1 })[u]! =
              if u = v ∧ v < g.vs.size then { (blank : Vertex L D) with branch := 1 } else g.vs[u]! := by
            intro u
            by_cases huv : u = v
            · subst huv
              by_cases hlt : u < g.vs.size
              · simp [hlt]
              · simp [hlt]; try grind
            · simp [huv]; try grind
          refine ⟨ih.c0, ih.c1, ih.len, ?_, ?_, ?_⟩
          · intro u; simp only [dat]; rw [key]; split
            · exact hdef
            · exact ih.dat u
          · intro u; simp only [edg]; rw [key]; split
            · simp [blank]
            · exact ih.elen u
          · intro u e hx; simp only [edg] at hx; rw [key] at hx; split at hx
            · simp [blank] at hx
            · exact ih.labs u e hx
        · cases ha; exact ih
      · cases ha
    | bind v1 v2 a =>
      simp only [Sodg.step, Option.map_eq_some_iff] at hs
      obtain ⟨g1, hb, he⟩ := hs
      cases he
      have p1 := (hr.alive v1).1 ok.1.p1
      have p2 := (hr.alive v2).1 ok.1.p2
      unfold bind at hb
      split at hb
      next hcap =>
        split at hb
        next hN =>
          -- the state with the edge written
          have w0 : WfS wl wd (setEdges g v1 (upsert (edg g v1) a v2)) := by
            refine ⟨by simpa using ih.c0, by simpa using ih.c1, fun b => by simpa using ih.len b, fun u => by simpa using ih.dat u, ?_, ?_⟩
            · intro u; rw [edg_setEdges]; split
              · simpa using hN
              · simpa using ih.elen u
            · intro u e hx; rw [edg_setEdges] at hx; split at hx
              · rcases mem_upsert_label _ _ _ _ hx with h' | h'
                · exact ih.labs v1 e h'
                · rw [h']; exact hop
              · exact ih.labs u e hx
          generalize hg0 : setEdges g v1 (upsert (edg g v1) a v2) = g0 at hb w0
          have t1 : tag g0 v1 = tag g v1 := by rw [← hg0]; simp
          have t2 : tag g0 v2 = tag g v2 := by rw [← hg0]; simp
          have m0 : ∀ b, mem g0 b = mem g b := by intro b; rw [← hg0]; simp
          unfold bindGrp at hb
          split at hb
          · split at hb
            · split at hb
              next b hfe =>
                have hb2 : 2 ≤ b := by
                  have := (firstEmpty_spec g0 b hfe).2
                  rw [m0] at this
                  rcases Nat.lt_or_ge b 2 with hlt | hge
                  · have : b = 0 ∨ b = 1 := by omega
                    rcases this with rfl | rfl
                    · rw [hi.s0] at this; cases this
                    · rw [hi.s1] at this; cases this
                  · exact hge
                cases hj1 : joinGrp g0 v1 b with
                | none => simp [hj1] at hb
                | some ga =>
                  simp [hj1] at hb
                  exact wfs_joinGrp wl wd ga _ v2 b (wfs_joinGrp wl wd g0 ga v1 b w0 hb2 hj1) hb2 hb
              · cases hb
            next ht1 ht2 =>
              have : 2 ≤ tag g0 v2 := by rw [t2]; rw [t2] at ht2; have := p2.2; omega
              exact wfs_joinGrp wl wd g0 _ v1 _ w0 this hb
          · split at hb
            next ht1 ht2 =>
              have : 2 ≤ tag g0 v1 := by rw [t1]; rw [t1] at ht1; have := p1.2; omega
              exact wfs_joinGrp wl wd g0 _ v2 _ w0 this hb
            · cases hb; exact w0
        · cases hb
      · cases hb
    | put v d =>
      simp only [Sodg.step, Option.map_eq_some_iff] at hs
      obtain ⟨g1, hp, he⟩ := hs
      cases he
      have pv := (hr.alive v).1 ok
      unfold put at hp
      split at hp
      · simp only at hp
        have w1 : WfS wl wd (setData (setPers g v .stored) v d) := by
          refine ⟨by simpa using ih.c0, by simpa using ih.c1, fun b => by simpa using ih.len b, ?_, fun u => by simpa using ih.elen u,
            fun u e hx => by simp at hx; exact ih.labs u e hx⟩
          intro u; rw [dat_setData]; split
          · exact hop
          · simpa using ih.dat u
        split at hp
        next hcond =>
          split at hp
          · cases hp
            have hb2 : 2 ≤ tag g v := by have := pv.2; have := hcond.2; omega
            refine ⟨?_, ?_, fun b => by simpa using w1.len b, fun u => by simpa using w1.dat u, fun u => by simpa using w1.elen u,
              fun u e hx => by simp at hx; exact ih.labs u e hx⟩
            · rw [cnt_incr]; rw [if_neg (by omega)]; exact w1.c0
            · rw [cnt_incr]; rw [if_neg (by omega)]; exact w1.c1
          · cases hp
        · cases hp; exact w1
      · cases hp
    | data v =>
      simp only [Sodg.step, Option.map_eq_some_iff] at hs
      obtain ⟨x, hd, he⟩ := hs
      cases he
      have pv := (hr.alive v).1 ok
      unfold data at hd
      split at hd
      · split at hd
        · cases hd; exact ih
        · cases hd; exact ih
        · simp only at hd
          have w1 : WfS wl wd (setPers g v .taken) :=
            ⟨by simpa using ih.c0, by simpa using ih.c1, fun b => by simpa using ih.len b, fun u => by simpa using ih.dat u,
              fun u => by simpa using ih.elen u, fun u e hx => by simp at hx; exact ih.labs u e hx⟩
          split at hd
          · cases hd; exact w1
          next hb1 =>
            have hb2 : 2 ≤ tag g v := by have := pv.2; omega
            have w2 : WfS wl wd (decr (setPers g v .taken) (tag g v)) := by
              refine ⟨?_, ?_, fun b => by simpa using w1.len b, fun u => by simpa using w1.dat u, fun u => by simpa using w1.elen u,
                fun u e hx => by simp at hx; exact ih.labs u e hx⟩
              · rw [cnt_decr]; rw [if_neg (by omega)]; exact w1.c0
              · rw [cnt_decr]; rw [if_neg (by omega)]; exact w1.c1
            split at hd
            · split at hd
              · cases hd
              · split at hd
                · cases hd
                  refine ⟨by simpa using w2.c0, by simpa using w2.c1, ?_, fun u => by simpa using w2.dat u, ?_, ?_⟩
                  · intro b; rw [mem_collect]; split
                    · simp
                    · exact w2.len b
                  · intro u; rw [edg_collect]; simpa [collect] using w2.elen u
                  · intro u e hx; rw [edg_collect] at hx; exact w2.labs u e hx
                · cases hd; exact w2
            · cases hd
      · cases hd
    | kid v a =>
      simp only [Sodg.step, Option.map_eq_some_iff] at hs
      obtain ⟨_, _, he⟩ := hs; cases he; exact ih
    | kids v =>
      simp only [Sodg.step, Option.map_eq_some_iff] at hs
      obtain ⟨_, _, he⟩ := hs; cases he; exact ih
    | keys => simp only [Sodg.step] at hs; cases hs; exact ih
    | nextId =>
      simp only [Sodg.step, Option.map_eq_some_iff] at hs
      obtain ⟨x, hnx, he⟩ := hs
      cases he
      unfold nextId at hnx
      split at hnx
      · cases hnx
      · cases hnx
        split
        · exact ⟨by simpa using ih.c0, by simpa using ih.c1, fun b => by simpa using ih.len b, fun u => by simpa using ih.dat u,
            fun u => by simpa using ih.elen u, fun u e hx => by simp at hx; exact ih.labs u e hx⟩
        · exact ih

end Sodg
