import Core.RefProps
set_option linter.unusedSectionVars false
/-! Probe v2, C01 (b): the members of a group are linked through the `bind` calls made between the current
    incarnations of vertices. `P` is a ghost list of those bind pairs, maintained next to the reference. -/
namespace Sodg

variable {L D : Type} [DecidableEq L] [Inhabited D]

/-- the ghost: a creating `add` forgets the pairs of the id's previous incarnation; `bind` records its pair -/
def pairsStep (r : R L D) (P : List (Nat × Nat)) : Op L D → List (Nat × Nat)
  | .add v => if v ∈ r.ids then P else P.filter (fun p => decide (p.1 ≠ v ∧ p.2 ≠ v))
  | .bind v1 v2 _ => (v1, v2) :: P
  | _ => P

/-- connected by recorded pairs, inside `S` -/
inductive Conn (P : List (Nat × Nat)) (S : Nat → Prop) : Nat → Nat → Prop
  | refl (a) : S a → Conn P S a a
  | base (a b) : ((a, b) ∈ P ∨ (b, a) ∈ P) → S a → S b → Conn P S a b
  | trans (a b c) : Conn P S a b → Conn P S b c → Conn P S a c

theorem Conn.mono {P P' : List (Nat × Nat)} {S S' : Nat → Prop} (hP : ∀ p ∈ P, p ∈ P') (hS : ∀ x, S x → S' x)
    {a b : Nat} (h : Conn P S a b) : Conn P' S' a b := by
  induction h with
  | refl a ha => exact .refl a (hS a ha)
  | base a b hp ha hb => exact .base a b (hp.imp (hP _) (hP _)) (hS a ha) (hS b hb)
  | trans a b c _ _ ih1 ih2 => exact .trans a b c ih1 ih2

theorem Conn.symm {P : List (Nat × Nat)} {S : Nat → Prop} {a b : Nat} (h : Conn P S a b) : Conn P S b a := by
  induction h with
  | refl a ha => exact .refl a ha
  | base a b hp ha hb => exact .base b a hp.symm hb ha
  | trans a b c _ _ ih1 ih2 => exact .trans c b a ih2 ih1

/-- the alive members of group `k`, on the raw components -/
def InG (ids : List Nat) (grp : Nat → Option Nat) (k x : Nat) : Prop := x ∈ ids ∧ grp x = some k

/-- **the invariant**: two alive members of a group are connected by recorded pairs inside that group -/
def GIraw (ids : List Nat) (grp : Nat → Option Nat) (P : List (Nat × Nat)) : Prop :=
  ∀ k v w, InG ids grp k v → InG ids grp k w → Conn P (InG ids grp k) v w

def GI (r : R L D) (P : List (Nat × Nat)) : Prop := GIraw r.ids r.grp P

/-- group numbers in use are below `fresh` -/
def FreshOK (r : R L D) : Prop := ∀ v ∈ r.ids, ∀ k, r.grp v = some k → k < r.fresh

theorem gi_add (r : R L D) (P) (v : Nat) (h : GI r P) : GI (r.add v) (pairsStep r P (.add v)) := by
  by_cases hv : v ∈ r.ids
  · rw [R.add_present_noop r v hv]; simp only [pairsStep, hv, if_true]; exact h
  · simp only [pairsStep, hv, if_false]
    obtain ⟨hin, _, _, hg, _, hrest⟩ := R.add_absent_blank r v hv
    intro k x0 y0 hx0 hy0
    have conv : ∀ x, InG (r.add v).ids (r.add v).grp k x ↔ InG r.ids r.grp k x := by
      intro x
      unfold InG
      by_cases hx : x = v
      · subst hx; simp [hg, hv]
      · have := hrest x hx; rw [this.1, this.2.2.2.1]
    have := h k x0 y0 ((conv x0).1 hx0) ((conv y0).1 hy0)
    -- the derivation only uses pairs between alive vertices, so none of them mentions the dead id `v`
    have key : ∀ {x y}, Conn P (InG r.ids r.grp k) x y →
        Conn (P.filter (fun p => decide (p.1 ≠ v ∧ p.2 ≠ v))) (InG r.ids r.grp k) x y := by
      intro x y hc
      induction hc with
      | refl a ha => exact .refl a ha
      | base a b hp ha hb =>
        have hav : a ≠ v := by rintro rfl; exact hv ha.1
        have hbv : b ≠ v := by rintro rfl; exact hv hb.1
        refine .base a b ?_ ha hb
        rcases hp with hp | hp
        · left; simp [List.mem_filter, hp, hav, hbv]
        · right; simp [List.mem_filter, hp, hav, hbv]
      | trans a b c _ _ ih1 ih2 => exact .trans a b c ih1 ih2
    exact (key this).mono (fun _ hp => hp) (fun x hx => (conv x).2 hx)

theorem R.grp_bind (r : R L D) (v1 v2 : Nat) (a : L) :
    (r.bind v1 v2 a).grp = match r.grp v1, r.grp v2 with
      | none, none => upd (upd r.grp v1 (some r.fresh)) v2 (some r.fresh)
      | none, some k => upd r.grp v1 (some k)
      | some k, none => upd r.grp v2 (some k)
      | some _, some _ => r.grp := by
  cases g1 : r.grp v1 <;> cases g2 : r.grp v2 <;> simp [R.bind, R.bindGrp, R.setEdge, g1, g2]

/-- an ungrouped vertex `u` joins the group `k0` of `t` (or both found a new group): the enlarged group stays connected -/
theorem gi_join (ids : List Nat) (grp : Nat → Option Nat) (P) (u t k0 : Nat) (pair : (u, t) ∈ P ∨ (t, u) ∈ P)
    (h : GIraw ids grp P) (hu : u ∈ ids) (ht : t ∈ ids) (gu : grp u = none) (gt : grp t = some k0) :
    GIraw ids (upd grp u (some k0)) P := by
  intro k x y hx hy
  unfold InG at hx hy
  simp only [upd_get] at hx hy
  have up : ∀ z, InG ids grp k z → InG ids (upd grp u (some k0)) k z := by
    intro z hz
    unfold InG; simp only [upd_get]
    have hzu : z ≠ u := by rintro rfl; have hz2' := hz.2; rw [gu] at hz2'; cases hz2'
    simp [hzu]; exact hz
  by_cases hk : k = k0
  · subst hk
    have Su : InG ids (upd grp u (some k)) k u := ⟨hu, by simp [upd_get]⟩
    have St := up t ⟨ht, gt⟩
    have cut : Conn P (InG ids (upd grp u (some k)) k) u t := .base u t pair Su St
    have toT : ∀ z, z ∈ ids → (if z = u then some k else grp z) = some k →
        Conn P (InG ids (upd grp u (some k)) k) z t := by
      intro z hz hg
      by_cases hzu : z = u
      · subst hzu; exact cut
      · simp [hzu] at hg
        exact (h k z t ⟨hz, hg⟩ ⟨ht, gt⟩).mono (fun _ hp => hp) up
    exact .trans x t y (toT x hx.1 hx.2) (toT y hy.1 hy.2).symm
  · have old : ∀ z, z ∈ ids → (if z = u then some k0 else grp z) = some k → InG ids grp k z := by
      intro z hz hg
      by_cases hzu : z = u
      · simp [hzu] at hg; exact absurd hg.symm hk
      · simp [hzu] at hg; exact ⟨hz, hg⟩
    exact (h k x y (old x hx.1 hx.2) (old y hy.1 hy.2)).mono (fun _ hp => hp) up

theorem GIraw.monoP {ids grp} {P P' : List (Nat × Nat)} (h : GIraw ids grp P) (hP : ∀ p ∈ P, p ∈ P') :
    GIraw ids grp P' := fun k v w hv hw => (h k v w hv hw).mono hP (fun _ hx => hx)

theorem gi_bind (r : R L D) (P) (v1 v2 : Nat) (a : L) (h : GI r P) (hf : FreshOK r)
    (h1 : v1 ∈ r.ids) (h2 : v2 ∈ r.ids) (hne : v1 ≠ v2) : GI (r.bind v1 v2 a) (pairsStep r P (.bind v1 v2 a)) := by
  unfold GI
  rw [R.ids_bind, R.grp_bind]
  simp only [pairsStep]
  have hP : ∀ p ∈ P, p ∈ (v1, v2) :: P := fun p hp => List.mem_cons_of_mem _ hp
  have h' : GIraw r.ids r.grp ((v1, v2) :: P) := GIraw.monoP h hP
  cases g1 : r.grp v1 with
  | none =>
    cases g2 : r.grp v2 with
    | none =>
      simp only
      -- first v1 founds the group `fresh` on its own, then v2 joins it
      have nobody : ∀ z ∈ r.ids, r.grp z ≠ some r.fresh := by
        intro z hz he; have := hf z hz _ he; omega
      have step1 : GIraw r.ids (upd r.grp v1 (some r.fresh)) ((v1, v2) :: P) := by
        intro k x y hx hy
        unfold InG at hx hy
        simp only [upd_get] at hx hy
        by_cases hk : k = r.fresh
        · subst hk
          have ex : ∀ z, z ∈ r.ids → (if z = v1 then some r.fresh else r.grp z) = some r.fresh → z = v1 := by
            intro z hz hg
            by_cases hz1 : z = v1
            · exact hz1
            · simp [hz1] at hg; exact absurd hg (nobody z hz)
          rw [ex x hx.1 hx.2, ex y hy.1 hy.2]
          exact .refl _ ⟨h1, by simp [upd_get]⟩
        · have old : ∀ z, z ∈ r.ids → (if z = v1 then some r.fresh else r.grp z) = some k → InG r.ids r.grp k z := by
            intro z hz hg
            by_cases hz1 : z = v1
            · simp [hz1] at hg; exact absurd hg.symm hk
            · simp [hz1] at hg; exact ⟨hz, hg⟩
          refine (h' k x y (old x hx.1 hx.2) (old y hy.1 hy.2)).mono (fun _ hp => hp) ?_
          intro z hz
          unfold InG; simp only [upd_get]
          have hz1 : z ≠ v1 := by rintro rfl; have hz2' := hz.2; rw [g1] at hz2'; cases hz2'
          simp [hz1]; exact hz
      exact gi_join r.ids (upd r.grp v1 (some r.fresh)) _ v2 v1 r.fresh (Or.inr (by simp)) step1 h2 h1
        (by simp [upd_get, Ne.symm hne, g2]) (by simp [upd_get])
    | some k0 =>
      simp only
      exact gi_join r.ids r.grp _ v1 v2 k0 (Or.inl (by simp)) h' h1 h2 g1 g2
  | some k0 =>
    cases g2 : r.grp v2 with
    | none =>
      simp only
      exact gi_join r.ids r.grp _ v2 v1 k0 (Or.inr (by simp)) h' h2 h1 g2 g1
    | some k1 => simp only; exact h'

theorem gi_data (r : R L D) (P) (v : Nat) (h : GI r P) : GI (r.data v) P := by
  intro k x y hx hy
  have grpEq : ∀ z, (r.data v).grp z = r.grp z := by
    intro z; simp only [R.data]; split
    · split
      · rfl
      · split <;> rfl
    · rfl
  have idsSub : ∀ z, z ∈ (r.data v).ids → z ∈ r.ids := by
    intro z hz
    simp only [R.data] at hz
    split at hz
    · split at hz
      · exact hz
      · split at hz
        · simp only [List.mem_filter] at hz; exact hz.1
        · exact hz
    · exact hz
  have sub : ∀ z, InG (r.data v).ids (r.data v).grp k z → InG r.ids r.grp k z :=
    fun z hz => ⟨idsSub z hz.1, by rw [← grpEq]; exact hz.2⟩
  -- x, a member of k, survived the read; so k is not the collected group and every member of k survives
  have surv : ∀ z, InG r.ids r.grp k z → InG (r.data v).ids (r.data v).grp k z := by
    intro z hz
    refine ⟨?_, by rw [grpEq]; exact hz.2⟩
    apply Classical.byContradiction
    intro hgone
    obtain ⟨hu, k', hk', hkz, hlast⟩ := R.data_removes r v z hz.1 hgone
    have hkk : k' = k := by rw [hz.2] at hkz; cases hkz; rfl
    subst hkk
    have := (R.data_collects r v k' hu hk' hlast x).1 hx.1
    exact this.2 (sub x hx).2
  exact (h k x y (sub x hx) (sub y hy)).mono (fun _ hp => hp) surv

#print axioms gi_add
#print axioms gi_bind
#print axioms gi_data
end Sodg
