import Core.MergeFull
set_option linter.unusedSectionVars false
/-! The two-pass program `mergeRec2` (what the driver executes) and the first-pass program `mergeRec` (what the
    grafting theorems are about): whenever the two-pass program ends without asking for `join`, the first-pass
    program ends with the same table in the same state — the second pass only issues `kid` queries, which change
    nothing. Stated for any interpretation in which `kid` leaves the state alone. -/
namespace Sodg
open P

variable {L D : Type} [DecidableEq L] [Inhabited D]
variable {ρ : Type} (stepR : ρ → Op L D → ρ × Out L D)

theorem secondPass_state (hkid : ∀ r v a, (stepR r (.kid v a)).1 = r) (left : Nat) :
    ∀ (es : List (L × Nat)) (m : Mapped) (r r' : ρ) (x : Option Unit),
      runR stepR (secondPass left es m) r = some (x, r') → r' = r := by
  intro es
  induction es with
  | nil => intro m r r' x h; simp [secondPass, runR] at h; exact h.2.symm
  | cons e rest ih =>
    intro m r r' x h
    obtain ⟨a, to⟩ := e
    simp only [secondPass, runR] at h
    have hs := hkid r left a
    generalize hso : stepR r (Op.kid left a) = so at h hs
    obtain ⟨r1, o⟩ := so
    simp only at h hs
    subst hs
    cases o with
    | kid t =>
      cases t with
      | none => exact ih m _ r' x h
      | some first =>
        simp only at h
        cases hm : mlookup m to with
        | none => rw [hm] at h; exact ih m _ r' x h
        | some second =>
          rw [hm] at h
          simp only at h
          split at h
          · simp [runR] at h; exact h.2.symm
          · exact ih m _ r' x h
    | unit => simp [runR] at h
    | data d => simp [runR] at h
    | kids es => simp [runR] at h
    | keys ks => simp [runR] at h
    | id i => simp [runR] at h

/-- the recursion step shared by the three ways `kidsFold2` continues after the matched vertex is known -/
theorem cont_link (h : RightView L D) (fuel left to : Nat) (rest : List (L × Nat)) (m m' : Mapped) (r' : ρ)
    (hA : ∀ left right m r m' r', runR stepR (mergeRec2 h fuel left right m) r = some (some m', r') →
      runR stepR (mergeRec h fuel left right m) r = some (m', r'))
    (ih : ∀ m r m' r', runR stepR (kidsFold2 h fuel left rest m) r = some (some m', r') →
      runR stepR (kidsFold h fuel left rest m) r = some (m', r'))
    (t : Nat) (x : ρ)
    (hx : runR stepR ((mergeRec2 h fuel t to m).bind (afterRec (fun m' => kidsFold2 h fuel left rest m'))) x = some (some m', r')) :
    runR stepR ((mergeRec h fuel t to m).bind (fun m' => kidsFold h fuel left rest m')) x = some (m', r') := by
  rw [runR_bind] at hx ⊢
  cases hmr : runR stepR (mergeRec2 h fuel t to m) x with
  | none => rw [hmr] at hx; cases hx
  | some mr =>
    obtain ⟨om, x1⟩ := mr
    rw [hmr] at hx
    cases om with
    | none => simp only [afterRec, runR] at hx; cases hx
    | some m1 =>
      simp only [afterRec] at hx
      rw [hA t to m x m1 x1 hmr]
      exact ih m1 x1 m' r' hx

/-- `kidsFold2` links to `kidsFold`, given that `mergeRec2` links to `mergeRec` at the same fuel -/
theorem kids_link (h : RightView L D) (fuel : Nat)
    (hA : ∀ left right m r m' r', runR stepR (mergeRec2 h fuel left right m) r = some (some m', r') →
      runR stepR (mergeRec h fuel left right m) r = some (m', r')) (left : Nat) :
    ∀ es m r m' r', runR stepR (kidsFold2 h fuel left es m) r = some (some m', r') →
      runR stepR (kidsFold h fuel left es m) r = some (m', r') := by
  intro es
  induction es with
  | nil => intro m r m' r' hr; simp [kidsFold2, runR] at hr; simp [kidsFold, runR, hr]
  | cons e rest ih =>
    intro m r m' r' hr
    obtain ⟨a, to⟩ := e
    simp only [kidsFold2, kidsFold, runR] at hr ⊢
    generalize stepR r (Op.kid left a) = so at hr ⊢
    obtain ⟨r1, o⟩ := so
    simp only at hr ⊢
    cases o with
    | kid t =>
      cases t with
      | some t => exact cont_link stepR h fuel left to rest m m' r' hA ih t r1 hr
      | none =>
        simp only at hr ⊢
        cases hm : mlookup m to with
        | some t =>
          rw [hm] at hr; simp only [runR] at hr ⊢
          exact cont_link stepR h fuel left to rest m m' r' hA ih t _ hr
        | none =>
          rw [hm] at hr
          simp only [runR] at hr ⊢
          generalize stepR r1 Op.nextId = so2 at hr ⊢
          obtain ⟨r2, o2⟩ := so2
          cases o2 with
          | id i => simp only [runR] at hr ⊢; exact cont_link stepR h fuel left to rest m m' r' hA ih i _ hr
          | unit => simp [runR] at hr
          | data d => simp [runR] at hr
          | kid t => simp [runR] at hr
          | kids es => simp [runR] at hr
          | keys ks => simp [runR] at hr
    | unit => simp [runR] at hr
    | data d => simp [runR] at hr
    | kids es => simp [runR] at hr
    | keys ks => simp [runR] at hr
    | id i => simp [runR] at hr

theorem link (hkid : ∀ r v a, (stepR r (.kid v a)).1 = r) (h : RightView L D) : ∀ fuel left right m r m' r',
    runR stepR (mergeRec2 h fuel left right m) r = some (some m', r') →
    runR stepR (mergeRec h fuel left right m) r = some (m', r') := by
  intro fuel
  induction fuel with
  | zero => intro left right m r m' r' hr; simp [mergeRec2, runR] at hr
  | succ fuel ihA =>
    have ihB := kids_link stepR h fuel ihA
    intro left right m r m' r' hr
    simp only [mergeRec2, mergeRec] at hr ⊢
    split
    next hmapped =>
      rw [if_pos hmapped] at hr
      simp [runR] at hr; simp [runR, hr]
    next hmapped =>
      rw [if_neg hmapped] at hr
      -- the optional put is the same call on both sides
      have key : ∀ r1, runR stepR ((kidsFold2 h fuel left (h.edges right) ((right, left) :: m)).bind
            (afterKids left (h.edges right))) r1 = some (some m', r') →
          runR stepR (kidsFold h fuel left (h.edges right) ((right, left) :: m)) r1 = some (m', r') := by
        intro r1 hx
        rw [runR_bind] at hx
        cases hk : runR stepR (kidsFold2 h fuel left (h.edges right) ((right, left) :: m)) r1 with
        | none => rw [hk] at hx; cases hx
        | some kr =>
          obtain ⟨om, r2⟩ := kr
          rw [hk] at hx
          cases om with
          | none => simp only [afterKids, runR] at hx; cases hx
          | some m2 =>
            simp only [afterKids] at hx
            rw [runR_bind] at hx
            cases hs : runR stepR (secondPass left (h.edges right) m2) r2 with
            | none => rw [hs] at hx; cases hx
            | some sr =>
              obtain ⟨ok, r3⟩ := sr
              rw [hs] at hx
              have e3 := secondPass_state stepR hkid left _ m2 r2 r3 ok hs
              subst e3
              cases ok with
              | none => simp only [afterSecond, runR] at hx; cases hx
              | some u' =>
                simp only [afterSecond, runR] at hx
                cases hx
                exact ihB left (h.edges right) _ r1 m' r' hk
      cases hd : h.data right with
      | none =>
        simp only [hd, putP, Prog.bind] at hr ⊢
        exact key r hr
      | some d =>
        simp only [hd, putP, Prog.bind, runR] at hr ⊢
        exact key _ hr

/-- on the reference, `kid` leaves the state alone -/
theorem R.kid_state (c : Nat) (r : R L D) (v : Nat) (a : L) : (R.step c r (.kid v a)).1 = r := rfl

end Sodg
