import Core.ValidB
import Core.RefProps
set_option linter.unusedSectionVars false
/-! Reference states that agree below the capacity are indistinguishable by valid histories: same validity, same
    outputs, and they keep agreeing. Used for `Drv.compactR` (the driver flattens the closure tables of the reference
    every few calls): the flattened state is observationally the same state. -/
namespace Sodg

variable {L D : Type} [DecidableEq L] [Inhabited D]

/-- agreement of two reference states on everything a valid history can look at -/
structure Eqv (c : Nat) (r r' : R L D) : Prop where
  ids : r.ids = r'.ids
  fresh : r.fresh = r'.fresh
  pos : r.pos = r'.pos
  grp : ∀ v, v < c → r.grp v = r'.grp v
  unr : ∀ v, v < c → r.unr v = r'.unr v
  edg : ∀ v, v < c → r.edg v = r'.edg v
  dat : ∀ v, v < c → r.dat v = r'.dat v

/-- every alive id is below the capacity -/
def IdsBelow (c : Nat) (r : R L D) : Prop := ∀ v ∈ r.ids, v < c

theorem Eqv.refl (c : Nat) (r : R L D) : Eqv c r r := ⟨rfl, rfl, rfl, fun _ _ => rfl, fun _ _ => rfl, fun _ _ => rfl, fun _ _ => rfl⟩

theorem Eqv.members {c : Nat} {r r' : R L D} (h : Eqv c r r') (hb : IdsBelow c r) (k : Nat) : r.members k = r'.members k := by
  unfold R.members
  rw [← h.ids]
  apply List.filter_congr
  intro w hw
  rw [h.grp w (hb w hw)]

theorem Eqv.groups {c : Nat} {r r' : R L D} (h : Eqv c r r') (hb : IdsBelow c r) : r.groups = r'.groups := by
  unfold R.groups
  rw [← h.ids]
  congr 1
  have : ∀ (l : List Nat), (∀ w ∈ l, w < c) → l.filterMap r.grp = l.filterMap r'.grp := by
    intro l
    induction l with
    | nil => intro _; rfl
    | cons x xs ih =>
      intro hl
      simp only [List.filterMap_cons]
      rw [h.grp x (hl x (by simp)), ih (fun w hw => hl w (List.mem_cons_of_mem _ hw))]
  exact this r.ids hb

theorem Eqv.bindOk {c : Nat} {r r' : R L D} (h : Eqv c r r') (hb : IdsBelow c r) (v1 v2 : Nat) (ok : BindOk r v1 v2) :
    BindOk r' v1 v2 := by
  have h1 := hb v1 ok.p1
  have h2 := hb v2 ok.p2
  refine ⟨h.ids ▸ ok.p1, h.ids ▸ ok.p2, ok.ne, ?_, ?_, ?_⟩
  · intro a b; rw [← h.groups hb]; exact ok.newGrp (by rw [h.grp v1 h1]; exact a) (by rw [h.grp v2 h2]; exact b)
  · intro a k b; rw [← h.members hb]; exact ok.join1 (by rw [h.grp v1 h1]; exact a) k (by rw [h.grp v2 h2]; exact b)
  · intro a k b; rw [← h.members hb]; exact ok.join2 (by rw [h.grp v2 h2]; exact a) k (by rw [h.grp v1 h1]; exact b)

theorem Eqv.okStep {n c : Nat} {r r' : R L D} (h : Eqv c r r') (hb : IdsBelow c r) (op : Op L D) (ok : OkStep n c r op) :
    OkStep n c r' op := by
  cases op with
  | add v => exact ok
  | bind v1 v2 a =>
    refine ⟨h.bindOk hb v1 v2 ok.1, ?_⟩
    rw [← h.edg v1 (hb v1 ok.1.p1)]; exact ok.2
  | put v d => show v ∈ r'.ids; rw [← h.ids]; exact ok
  | data v => show v ∈ r'.ids; rw [← h.ids]; exact ok
  | kid v a => show v ∈ r'.ids; rw [← h.ids]; exact ok
  | kids v => show v ∈ r'.ids; rw [← h.ids]; exact ok
  | keys => trivial
  | nextId =>
    obtain ⟨i, h1, h2, h3⟩ := ok
    exact ⟨i, h1, h.ids ▸ h2, h.pos ▸ h3⟩

theorem all_congr_mem {α} (p q : α → Bool) : ∀ (l : List α), (∀ w ∈ l, p w = q w) → l.all p = l.all q := by
  intro l
  induction l with
  | nil => intro _; rfl
  | cons x xs ih =>
    intro h
    simp only [List.all_cons]
    rw [h x (by simp), ih (fun w hw => h w (List.mem_cons_of_mem _ hw))]

theorem upd_agree {α} {c : Nat} {f f' : Nat → α} (h : ∀ v, v < c → f v = f' v) (x : Nat) (a : α) :
    ∀ v, v < c → upd f x a v = upd f' x a v := by
  intro v hv; simp only [upd_get]; split
  · rfl
  · exact h v hv

theorem Eqv.add {c : Nat} {r r' : R L D} (h : Eqv c r r') (v : Nat) : Eqv c (r.add v) (r'.add v) := by
  unfold R.add
  rw [← h.ids]
  split
  · exact h
  · exact ⟨by simp [h.ids], h.fresh, h.pos, upd_agree h.grp v none, upd_agree h.unr v false, upd_agree h.edg v [],
      upd_agree h.dat v none⟩

theorem Eqv.bind {c : Nat} {r r' : R L D} (h : Eqv c r r') (v1 v2 : Nat) (a : L) (h1 : v1 < c) (h2 : v2 < c) :
    Eqv c (r.bind v1 v2 a) (r'.bind v1 v2 a) := by
  have e1 := h.grp v1 h1
  have e2 := h.grp v2 h2
  have ee := h.edg v1 h1
  unfold R.bind R.bindGrp R.setEdge
  simp only
  rw [← e1, ← e2, ← ee, ← h.fresh]
  have hedg : ∀ v, v < c → upd r.edg v1 (upsert (r.edg v1) a v2) v = upd r'.edg v1 (upsert (r.edg v1) a v2) v :=
    upd_agree h.edg v1 _
  split
  · exact ⟨h.ids, rfl, h.pos, upd_agree (upd_agree h.grp v1 _) v2 _, h.unr, hedg, h.dat⟩
  · exact ⟨h.ids, rfl, h.pos, upd_agree h.grp v1 _, h.unr, hedg, h.dat⟩
  · exact ⟨h.ids, rfl, h.pos, upd_agree h.grp v2 _, h.unr, hedg, h.dat⟩
  · exact ⟨h.ids, rfl, h.pos, h.grp, h.unr, hedg, h.dat⟩

theorem Eqv.put {c : Nat} {r r' : R L D} (h : Eqv c r r') (v : Nat) (d : D) : Eqv c (r.put v d) (r'.put v d) :=
  ⟨h.ids, h.fresh, h.pos, h.grp, upd_agree h.unr v true, h.edg, upd_agree h.dat v (some d)⟩

theorem Eqv.data {c : Nat} {r r' : R L D} (h : Eqv c r r') (hb : IdsBelow c r) (v : Nat) (hv : v < c) :
    Eqv c (r.data v) (r'.data v) := by
  unfold R.data
  rw [← h.unr v hv]
  split
  · rw [← h.grp v hv]
    have h1 : Eqv c { r with unr := upd r.unr v false } { r' with unr := upd r'.unr v false } :=
      ⟨h.ids, h.fresh, h.pos, h.grp, upd_agree h.unr v false, h.edg, h.dat⟩
    have hb1 : IdsBelow c ({ r with unr := upd r.unr v false } : R L D) := hb
    cases hg : r.grp v with
    | none => exact h1
    | some k =>
      simp only
      have hm := h1.members hb1 k
      have hall : (({ r with unr := upd r.unr v false } : R L D).members k).all (fun w => !upd r.unr v false w) =
          (({ r' with unr := upd r'.unr v false } : R L D).members k).all (fun w => !upd r'.unr v false w) := by
        rw [← hm]
        apply all_congr_mem
        intro w hw
        have hw' : w ∈ r.ids := by
          have := List.mem_filter.1 hw; exact this.1
        rw [upd_agree h.unr v false w (hb w hw')]
      rw [← hall]
      split
      · refine ⟨?_, h.fresh, h.pos, h.grp, upd_agree h.unr v false, h.edg, h.dat⟩
        simp only
        rw [← h.ids]
        apply List.filter_congr
        intro w hw
        rw [h.grp w (hb w hw)]
      · exact h1
  · exact h

theorem IdsBelow.step {n c : Nat} {r : R L D} (hb : IdsBelow c r) (op : Op L D) (ok : OkStep n c r op) :
    IdsBelow c (R.step c r op).1 := by
  cases op with
  | add v =>
    intro w hw
    simp only [R.step, R.add] at hw
    split at hw
    · exact hb w hw
    · simp only [List.mem_cons] at hw
      rcases hw with rfl | hw
      · exact ok
      · exact hb w hw
  | bind v1 v2 a => intro w hw; simp only [R.step, R.ids_bind] at hw; exact hb w hw
  | put v d => exact hb
  | data v =>
    intro w hw
    simp only [R.step, R.data] at hw
    split at hw
    · split at hw
      · exact hb w hw
      · split at hw
        · exact hb w (List.mem_filter.1 hw).1
        · exact hb w hw
    · exact hb w hw
  | kid v a => exact hb
  | kids v => exact hb
  | keys => exact hb
  | nextId =>
    intro w hw
    simp only [R.step, R.nextId] at hw
    cases hf : (List.range c).find? (fun v => decide (v ∉ r.ids ∧ r.pos ≤ v)) with
    | none => rw [hf] at hw; exact hb w hw
    | some id =>
      rw [hf] at hw
      simp only at hw
      split at hw
      · exact hb w hw
      · exact hb w hw

/-- **states that agree below the capacity are indistinguishable**: one valid call is valid on both, gives the same
    output on both, and the successor states agree again -/
theorem Eqv.step {n c : Nat} {r r' : R L D} (h : Eqv c r r') (hb : IdsBelow c r) (op : Op L D) (ok : OkStep n c r op) :
    OkStep n c r' op ∧ (R.step c r op).2 = (R.step c r' op).2 ∧ Eqv c (R.step c r op).1 (R.step c r' op).1 := by
  refine ⟨h.okStep hb op ok, ?_⟩
  cases op with
  | add v => exact ⟨rfl, h.add v⟩
  | bind v1 v2 a => exact ⟨rfl, h.bind v1 v2 a (hb v1 ok.1.p1) (hb v2 ok.1.p2)⟩
  | put v d => exact ⟨rfl, h.put v d⟩
  | data v =>
    have hv : v < c := hb v ok
    exact ⟨by simp only [R.step]; rw [h.dat v hv], h.data hb v hv⟩
  | kid v a =>
    have hv : v < c := hb v ok
    exact ⟨by simp only [R.step]; rw [h.edg v hv], h⟩
  | kids v =>
    have hv : v < c := hb v ok
    exact ⟨by simp only [R.step]; rw [h.edg v hv], h⟩
  | keys => exact ⟨by simp only [R.step, R.keys]; rw [h.ids], h⟩
  | nextId =>
    simp only [R.step, R.nextId]
    rw [← h.ids, ← h.pos]
    cases hf : (List.range c).find? (fun v => decide (v ∉ r.ids ∧ r.pos ≤ v)) with
    | none => exact ⟨rfl, h⟩
    | some id =>
      simp only
      split
      · exact ⟨trivial, ⟨rfl, h.fresh, rfl, h.grp, h.unr, h.edg, h.dat⟩⟩
      · exact ⟨trivial, h⟩

/-- whole histories: same validity, same outputs -/
theorem Eqv.run {n c : Nat} : ∀ (ops : List (Op L D)) (r r' : R L D), Eqv c r r' → IdsBelow c r → Valid n c r ops →
    Valid n c r' ops ∧ R.run c r ops = R.run c r' ops := by
  intro ops
  induction ops with
  | nil => intro r r' _ _ _; exact ⟨trivial, rfl⟩
  | cons op rest ih =>
    intro r r' h hb hv
    obtain ⟨ok', ho, hs⟩ := h.step hb op hv.1
    obtain ⟨v', e'⟩ := ih _ _ hs (hb.step op hv.1) hv.2
    refine ⟨⟨ok', v'⟩, ?_⟩
    simp only [R.run]
    rw [ho, e']

end Sodg
