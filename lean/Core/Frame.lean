import Core.Model
set_option linter.unusedSectionVars false
namespace Sodg

variable {L D : Type} [DecidableEq L] [Inhabited D]

section
variable (g : G L D) (v w b c k : Nat) (p : Pers) (d : D) (e : List (L × Nat))

@[simp] theorem cap_setTag : cap (setTag g v b) = cap g := by simp [cap, setTag]
@[simp] theorem cap_setPers : cap (setPers g v p) = cap g := by simp [cap, setPers]
@[simp] theorem cap_setData : cap (setData g v d) = cap g := by simp [cap, setData]
@[simp] theorem cap_setEdges : cap (setEdges g v e) = cap g := by simp [cap, setEdges]
@[simp] theorem cap_pushMem : cap (pushMem g b v) = cap g := rfl
@[simp] theorem cap_incr : cap (incr g b) = cap g := rfl
@[simp] theorem cap_decr : cap (decr g b) = cap g := rfl
@[simp] theorem cap_setNext : cap (setNext g k) = cap g := rfl
theorem tag_setTag : tag (setTag g v b) w = if v = w ∧ w < cap g then b else tag g w := by
  unfold tag setTag cap; by_cases h : w < g.vs.size <;> grind
@[simp] theorem pers_setTag : pers (setTag g v b) w = pers g w := by
  unfold pers setTag; by_cases h : w < g.vs.size <;> grind
@[simp] theorem dat_setTag : dat (setTag g v b) w = dat g w := by
  unfold dat setTag; by_cases h : w < g.vs.size <;> grind
@[simp] theorem edg_setTag : edg (setTag g v b) w = edg g w := by
  unfold edg setTag; by_cases h : w < g.vs.size <;> grind
@[simp] theorem mem_setTag : mem (setTag g v b) c = mem g c := rfl
@[simp] theorem cnt_setTag : cnt (setTag g v b) c = cnt g c := rfl
@[simp] theorem brsize_setTag : (setTag g v b).br.size = g.br.size := rfl
@[simp] theorem stsize_setTag : (setTag g v b).st.size = g.st.size := rfl
@[simp] theorem next_setTag : (setTag g v b).next = g.next := rfl
@[simp] theorem n_setTag : (setTag g v b).n = g.n := rfl
@[simp] theorem tag_setPers : tag (setPers g v p) w = tag g w := by
  unfold tag setPers; by_cases h : w < g.vs.size <;> grind
theorem pers_setPers : pers (setPers g v p) w = if v = w ∧ w < cap g then p else pers g w := by
  unfold pers setPers cap; by_cases h : w < g.vs.size <;> grind
@[simp] theorem dat_setPers : dat (setPers g v p) w = dat g w := by
  unfold dat setPers; by_cases h : w < g.vs.size <;> grind
@[simp] theorem edg_setPers : edg (setPers g v p) w = edg g w := by
  unfold edg setPers; by_cases h : w < g.vs.size <;> grind
@[simp] theorem mem_setPers : mem (setPers g v p) c = mem g c := rfl
@[simp] theorem cnt_setPers : cnt (setPers g v p) c = cnt g c := rfl
@[simp] theorem brsize_setPers : (setPers g v p).br.size = g.br.size := rfl
@[simp] theorem stsize_setPers : (setPers g v p).st.size = g.st.size := rfl
@[simp] theorem next_setPers : (setPers g v p).next = g.next := rfl
@[simp] theorem n_setPers : (setPers g v p).n = g.n := rfl
@[simp] theorem tag_setData : tag (setData g v d) w = tag g w := by
  unfold tag setData; by_cases h : w < g.vs.size <;> grind
@[simp] theorem pers_setData : pers (setData g v d) w = pers g w := by
  unfold pers setData; by_cases h : w < g.vs.size <;> grind
theorem dat_setData : dat (setData g v d) w = if v = w ∧ w < cap g then d else dat g w := by
  unfold dat setData cap; by_cases h : w < g.vs.size <;> grind
@[simp] theorem edg_setData : edg (setData g v d) w = edg g w := by
  unfold edg setData; by_cases h : w < g.vs.size <;> grind
@[simp] theorem mem_setData : mem (setData g v d) c = mem g c := rfl
@[simp] theorem cnt_setData : cnt (setData g v d) c = cnt g c := rfl
@[simp] theorem brsize_setData : (setData g v d).br.size = g.br.size := rfl
@[simp] theorem stsize_setData : (setData g v d).st.size = g.st.size := rfl
@[simp] theorem next_setData : (setData g v d).next = g.next := rfl
@[simp] theorem n_setData : (setData g v d).n = g.n := rfl
@[simp] theorem tag_setEdges : tag (setEdges g v e) w = tag g w := by
  unfold tag setEdges; by_cases h : w < g.vs.size <;> grind
@[simp] theorem pers_setEdges : pers (setEdges g v e) w = pers g w := by
  unfold pers setEdges; by_cases h : w < g.vs.size <;> grind
@[simp] theorem dat_setEdges : dat (setEdges g v e) w = dat g w := by
  unfold dat setEdges; by_cases h : w < g.vs.size <;> grind
theorem edg_setEdges : edg (setEdges g v e) w = if v = w ∧ w < cap g then e else edg g w := by
  unfold edg setEdges cap; by_cases h : w < g.vs.size <;> grind
@[simp] theorem mem_setEdges : mem (setEdges g v e) c = mem g c := rfl
@[simp] theorem cnt_setEdges : cnt (setEdges g v e) c = cnt g c := rfl
@[simp] theorem brsize_setEdges : (setEdges g v e).br.size = g.br.size := rfl
@[simp] theorem stsize_setEdges : (setEdges g v e).st.size = g.st.size := rfl
@[simp] theorem next_setEdges : (setEdges g v e).next = g.next := rfl
@[simp] theorem n_setEdges : (setEdges g v e).n = g.n := rfl
@[simp] theorem tag_pushMem : tag (pushMem g b v) w = tag g w := rfl
@[simp] theorem pers_pushMem : pers (pushMem g b v) w = pers g w := rfl
@[simp] theorem dat_pushMem : dat (pushMem g b v) w = dat g w := rfl
@[simp] theorem edg_pushMem : edg (pushMem g b v) w = edg g w := rfl
@[simp] theorem next_pushMem : (pushMem g b v).next = g.next := rfl
@[simp] theorem n_pushMem : (pushMem g b v).n = g.n := rfl
@[simp] theorem tag_incr : tag (incr g b) w = tag g w := rfl
@[simp] theorem pers_incr : pers (incr g b) w = pers g w := rfl
@[simp] theorem dat_incr : dat (incr g b) w = dat g w := rfl
@[simp] theorem edg_incr : edg (incr g b) w = edg g w := rfl
@[simp] theorem next_incr : (incr g b).next = g.next := rfl
@[simp] theorem n_incr : (incr g b).n = g.n := rfl
@[simp] theorem tag_decr : tag (decr g b) w = tag g w := rfl
@[simp] theorem pers_decr : pers (decr g b) w = pers g w := rfl
@[simp] theorem dat_decr : dat (decr g b) w = dat g w := rfl
@[simp] theorem edg_decr : edg (decr g b) w = edg g w := rfl
@[simp] theorem next_decr : (decr g b).next = g.next := rfl
@[simp] theorem n_decr : (decr g b).n = g.n := rfl
@[simp] theorem tag_setNext : tag (setNext g k) w = tag g w := rfl
@[simp] theorem pers_setNext : pers (setNext g k) w = pers g w := rfl
@[simp] theorem dat_setNext : dat (setNext g k) w = dat g w := rfl
@[simp] theorem edg_setNext : edg (setNext g k) w = edg g w := rfl
@[simp] theorem n_setNext : (setNext g k).n = g.n := rfl
@[simp] theorem next_setNext : (setNext g k).next = k := rfl
@[simp] theorem mem_setNext : mem (setNext g k) c = mem g c := rfl
@[simp] theorem cnt_setNext : cnt (setNext g k) c = cnt g c := rfl
@[simp] theorem brsize_setNext : (setNext g k).br.size = g.br.size := rfl
@[simp] theorem stsize_setNext : (setNext g k).st.size = g.st.size := rfl
theorem mem_pushMem : mem (pushMem g b v) c = if b = c ∧ c < g.br.size then mem g c ++ [v] else mem g c := by
  unfold mem pushMem; by_cases h : c < g.br.size <;> grind
@[simp] theorem mem_incr : mem (incr g b) c = mem g c := rfl
@[simp] theorem mem_decr : mem (decr g b) c = mem g c := rfl
@[simp] theorem cnt_pushMem : cnt (pushMem g b v) c = cnt g c := rfl
theorem cnt_incr : cnt (incr g b) c = if b = c ∧ c < g.st.size then cnt g c + 1 else cnt g c := by
  unfold cnt incr; by_cases h : c < g.st.size <;> grind
theorem cnt_decr : cnt (decr g b) c = if b = c ∧ c < g.st.size then cnt g c - 1 else cnt g c := by
  unfold cnt decr; by_cases h : c < g.st.size <;> grind
@[simp] theorem brsize_pushMem : (pushMem g b v).br.size = g.br.size := by simp [pushMem]
@[simp] theorem brsize_incr : (incr g b).br.size = g.br.size := rfl
@[simp] theorem brsize_decr : (decr g b).br.size = g.br.size := rfl
@[simp] theorem stsize_pushMem : (pushMem g b v).st.size = g.st.size := rfl
@[simp] theorem stsize_incr : (incr g b).st.size = g.st.size := by simp [incr]
@[simp] theorem stsize_decr : (decr g b).st.size = g.st.size := by simp [decr]
end

/-- number of members with an unread datum -/
def unread (g : G L D) (ms : List Nat) : Nat := (ms.filter (fun v => pers g v = .stored)).length

structure Inv (g : G L D) : Prop where
  brsz : g.br.size = 16
  stsz : g.st.size = 16
  s0 : mem g 0 = [0]
  s1 : mem g 1 = [0]
  taglt : ∀ v, v < cap g → tag g v < 16
  memb : ∀ b, 2 ≤ b → b < 16 → ∀ v ∈ mem g b, v < cap g ∧ tag g v = b
  nodup : ∀ b, 2 ≤ b → b < 16 → (mem g b).Nodup
  own : ∀ v, v < cap g → 2 ≤ tag g v → v ∈ mem g (tag g v)
  count : ∀ b, 2 ≤ b → b < 16 → cnt g b = unread g (mem g b)

theorem unread_congr (g g' : G L D) (ms : List Nat) (h : ∀ v ∈ ms, pers g' v = pers g v) :
    unread g' ms = unread g ms := by
  unfold unread; congr 1; apply List.filter_congr; intro v hv; rw [h v hv]

theorem unread_append (g : G L D) (a b : List Nat) : unread g (a ++ b) = unread g a + unread g b := by
  simp [unread, List.filter_append]

/-- a state that differs from `g` only in data, edges and `next` still satisfies the invariant -/
theorem Inv.of_same (g g' : G L D) (hi : Inv g) (hc : cap g' = cap g) (ht : ∀ w, tag g' w = tag g w)
    (hp : ∀ w, pers g' w = pers g w) (hm : ∀ c, mem g' c = mem g c) (hn : ∀ c, cnt g' c = cnt g c)
    (hb : g'.br.size = g.br.size) (hs : g'.st.size = g.st.size) : Inv g' := by
  refine ⟨by rw [hb]; exact hi.brsz, by rw [hs]; exact hi.stsz, by rw [hm]; exact hi.s0, by rw [hm]; exact hi.s1,
    ?_, ?_, ?_, ?_, ?_⟩
  · intro v hv; rw [ht]; exact hi.taglt v (by rwa [hc] at hv)
  · intro b h2 h16 v hv; rw [hm] at hv; rw [hc, ht]; exact hi.memb b h2 h16 v hv
  · intro b h2 h16; rw [hm]; exact hi.nodup b h2 h16
  · intro v hv h2; rw [ht] at h2 ⊢; rw [hm]; exact hi.own v (by rwa [hc] at hv) h2
  · intro b h2 h16; rw [hn, hm, hi.count b h2 h16]; symm; apply unread_congr; intro x _; exact hp x

end Sodg
