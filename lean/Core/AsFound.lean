import Core.TheoremA
set_option linter.unusedSectionVars false
/-! Probe v2: the graph operations **as found** at the pinned commit (DESIGN.md §2), next to the repaired ones, and
    kernel-checked witnesses that the as-found code does not refine the reference on valid histories (D1–D5).
    These are the model-level counter-examples that are replayed on the implementation before each `fix:`. -/
namespace Sodg

variable {L D : Type} [DecidableEq L] [Inhabited D]

/-- `self.vertices.get_mut(v1).unwrap().branch = 1;` -/
def addF (g : G L D) (v : Nat) : Option (G L D) :=
  if v < cap g then some (setTag g v 1) else none

/-- unconditional `stores[branch] += 1` -/
def putF (g : G L D) (v : Nat) (d : D) : Option (G L D) :=
  if v < cap g then
    if tag g v < 16 then some (incr (setData (setPers g v .stored) v d) (tag g v)) else none
  else none

/-- no special case for ungrouped vertices; `*s -= 1` panics at zero -/
def dataF (g : G L D) (v : Nat) : Option (G L D × Option D) :=
  if v < cap g then
    match pers g v with
    | .empty => some (g, none)
    | .taken => some (g, some (dat g v))
    | .stored =>
      let b := tag g v
      let g1 := setPers g v .taken
      if b < 16 then
        if cnt g b = 0 then none
        else if cnt g b = 1 then some (collect (decr g1 b) b, some (dat g v))
        else some (decr g1 b, some (dat g v))
      else none
  else none

def joinGrpF (g : G L D) (v b : Nat) : Option (G L D) :=
  if (mem g b).length < 16 then some (pushMem (setTag g v b) b v) else none

def bindGrpF (g0 : G L D) (v1 v2 : Nat) : Option (G L D) :=
  if tag g0 v1 = 1 then
    if tag g0 v2 = 1 then
      match firstEmpty g0 with
      | some b => (joinGrpF g0 v1 b).bind (fun g1 => joinGrpF g1 v2 b)
      | none => none
    else joinGrpF g0 v1 (tag g0 v2)
  else if tag g0 v2 = 1 then joinGrpF g0 v2 (tag g0 v1)
  else some g0

def bindF (g : G L D) (v1 v2 : Nat) (a : L) : Option (G L D) :=
  if v1 < cap g ∧ v2 < cap g then
    if (upsert (edg g v1) a v2).length ≤ g.n then
      bindGrpF (setEdges g v1 (upsert (edg g v1) a v2)) v1 v2
    else none
  else none

def stepF (g : G L D) : Op L D → Option (G L D × Out L D)
  | .add v => (addF g v).map (·, .unit)
  | .bind v1 v2 a => (bindF g v1 v2 a).map (·, .unit)
  | .put v d => (putF g v d).map (·, .unit)
  | .data v => (dataF g v).map (fun x => (x.1, .data x.2))
  | .kid v a => (kid g v a).map (fun t => (g, .kid t))
  | .kids v => (kids g v).map (fun es => (g, .kids es))
  | .keys => some (g, .keys (keys g))
  | .nextId => (nextId g).map (fun x => (x.1, .id x.2))

def runF (g : G L D) : List (Op L D) → Option (List (Out L D))
  | [] => some []
  | op :: ops => match stepF g op with
    | none => none
    | some (g', o) => (runF g' ops).map (o :: ·)

/-! ### witnesses (labels and data are `Nat` here) -/

def lastKeys (os : Option (List (Out Nat Nat))) : Option (List Nat) :=
  os.bind (fun l => l.getLast?.bind (fun o => match o with | .keys ks => some ks | _ => none))

def refKeys (c : Nat) (ops : List (Op Nat Nat)) : Option (List Nat) :=
  lastKeys (some (R.run c (R.empty : R Nat Nat) ops))

abbrev G0 : G Nat Nat := empty 4 8

/-- D1: reading a lone vertex removes the unrelated vertex 0 -/
def d1 : List (Op Nat Nat) := [.add 0, .add 5, .put 5 7, .data 5, .keys]
example : lastKeys (runF G0 d1) = some [5] ∧ refKeys 8 d1 = some [0, 5] ∧ lastKeys (run G0 d1) = some [0, 5] := by
  decide +kernel

/-- D2: overwriting an unread datum — the group never dies -/
def d2 : List (Op Nat Nat) := [.add 1, .add 2, .bind 1 2 0, .put 2 7, .put 2 8, .data 2, .keys]
example : lastKeys (runF G0 d2) = some [1, 2] ∧ refKeys 8 d2 = some [] ∧ lastKeys (run G0 d2) = some [] := by
  decide +kernel

/-- D3: put before bind — the read panics (`attempt to subtract with overflow`) -/
def d3 : List (Op Nat Nat) := [.add 1, .add 2, .put 2 7, .bind 1 2 0, .data 2, .keys]
example : runF G0 d3 = none ∧ refKeys 8 d3 = some [] ∧ lastKeys (run G0 d3) = some [] := by
  decide +kernel

/-- D4: `add` on a member of a group un-groups it — its datum is counted for nobody, the read collects nothing -/
def d4 : List (Op Nat Nat) := [.add 1, .add 2, .bind 1 2 0, .add 2, .put 2 7, .add 0, .data 2, .keys]
example : lastKeys (runF G0 d4) ≠ refKeys 8 d4 ∧ lastKeys (run G0 d4) = refKeys 8 d4 := by
  decide +kernel

/-- D5: a re-added id shows the edges of its previous incarnation -/
def d5 : List (Op Nat Nat) := [.add 1, .add 2, .bind 1 2 0, .put 2 7, .data 2, .add 1, .kids 1]
def lastKids (os : Option (List (Out Nat Nat))) : Option (List (Nat × Nat)) :=
  os.bind (fun l => l.getLast?.bind (fun o => match o with | .kids es => some es | _ => none))
example : lastKids (runF G0 d5) = some [(0, 2)] ∧ lastKids (run G0 d5) = some [] ∧
    lastKids (some (R.run 8 (R.empty : R Nat Nat) d5)) = some [] := by
  decide +kernel

end Sodg
