import Core.Holes
set_option linter.unusedSectionVars false
/-! # Where a call panics on a graph with removed slots

`panicsX_iff`: a core call on a graph with removed slots panics **exactly** when an id argument is not readable (at or
above the capacity, or removed by `join`), or at one of the points listed in `Panics` (Core/Total.lean), or — `data` only —
when the read makes a group die that has a removed member (`vertices.get_mut(member).unwrap()` in the collection loop). -/
namespace Sodg

variable {L D : Type} [DecidableEq L] [Inhabited D]

def PanicsX (x : GX L D) : Op L D → Prop
  | .add v => x.acc v = false
  | .bind v1 v2 a => x.acc v1 = false ∨ x.acc v2 = false ∨ Panics x.g (.bind v1 v2 a)
  | .put v d => x.acc v = false ∨ Panics x.g (.put v d)
  | .data v => x.acc v = false ∨ Panics x.g (.data v) ∨
      (pers x.g v = .stored ∧ tag x.g v ≠ 1 ∧ tag x.g v < 16 ∧ cnt x.g (tag x.g v) = 1 ∧
        ∃ m ∈ mem x.g (tag x.g v), m ∈ x.holes)
  | .kid v _ => x.acc v = false
  | .kids v => x.acc v = false
  | .keys => False
  | .nextId => ∀ v, v < cap x.g → ¬ (v ∉ x.holes ∧ tag x.g v = 0 ∧ x.g.next ≤ v)

theorem acc_false_of_ge (x : GX L D) (v : Nat) (h : cap x.g ≤ v) : x.acc v = false := by
  simp only [GX.acc, Bool.and_eq_false_imp, decide_eq_true_eq]; intro h'; omega

theorem collectX_ok (x : GX L D) (g1 : G L D) (b : Nat) :
    (collectX x g1 b).2 = false ↔ ∃ m ∈ mem g1 b, m ∈ x.holes := by
  unfold collectX
  by_cases he : ∃ m ∈ mem g1 b, m ∈ x.holes
  · have hn : ¬ ((mem g1 b).all (fun m => !(x.holes.contains m)) = true) := by
      intro ha
      obtain ⟨m, hm, hh⟩ := he
      have := List.all_eq_true.1 ha m hm
      simp [hh] at this
    rw [if_neg hn]; simp only [true_iff]; exact he
  · have hp : (mem g1 b).all (fun m => !(x.holes.contains m)) = true := by
      rw [List.all_eq_true]
      intro m hm
      by_cases hh : m ∈ x.holes
      · exact absurd ⟨m, hm, hh⟩ he
      · simp [hh]
    rw [if_pos hp]; simp only [Bool.true_eq_false, false_iff]; exact he

theorem panicsX_iff (x : GX L D) (op : Op L D) : (stepX x (.core op)).2 = none ↔ PanicsX x op := by
  cases op with
  | add v =>
    simp only [stepX, PanicsX, ite_unit_none]
    by_cases ha : x.acc v = true
    · have e : (addX x v).2 = (addT x.g v).2 := by unfold addX; rw [if_pos ha]
      have hnp : ¬ (addT x.g v).2 = false := fun hf => by
        have h1 := (addT_panics x.g v).1 hf; have h2 := acc_lt x v ha; omega
      rw [e]; simp [ha, hnp]
    · have e : (addX x v).2 = false := by unfold addX; rw [if_neg ha]
      rw [e]; simpa using ha
  | bind v1 v2 a =>
    simp only [stepX, PanicsX, ite_unit_none]
    by_cases ha : (x.acc v1 && x.acc v2) = true
    · have e : (bindX x v1 v2 a).2 = (bindT x.g v1 v2 a).2 := by unfold bindX; rw [if_pos ha]
      simp only [Bool.and_eq_true] at ha
      have hp := panics_iff x.g (.bind v1 v2 a)
      simp only [stepT, ite_unit_none] at hp
      rw [e, hp]
      simp [ha.1, ha.2]
    · have e : (bindX x v1 v2 a).2 = false := by unfold bindX; rw [if_neg ha]
      rw [e]
      simp only [true_iff]
      cases h1 : x.acc v1 with
      | false => left; rfl
      | true =>
        cases h2 : x.acc v2 with
        | false => right; left; rfl
        | true => simp [h1, h2] at ha
  | put v d =>
    simp only [stepX, PanicsX, ite_unit_none]
    by_cases ha : x.acc v = true
    · have e : (putX x v d).2 = (putT x.g v d).2 := by unfold putX; rw [if_pos ha]
      have hp := panics_iff x.g (.put v d)
      simp only [stepT, ite_unit_none] at hp
      rw [e, hp]
      simp [ha]
    · have e : (putX x v d).2 = false := by unfold putX; rw [if_neg ha]
      rw [e]; simp only [true_iff]; left; simpa using ha
  | data v =>
    simp only [stepX, PanicsX, Option.map_eq_none_iff, dataX]
    by_cases ha : x.acc v = true
    · rw [if_pos ha]
      have hv := acc_lt x v ha
      have hp := panics_iff x.g (.data v)
      simp only [stepT, Option.map_eq_none_iff, Panics] at hp
      simp only [ha, reduceCtorEq, false_or, Panics]
      cases hpers : pers x.g v with
      | empty => simp; omega
      | taken => simp; omega
      | stored =>
        simp only
        by_cases h1 : tag x.g v = 1
        · rw [if_pos h1]; simp [h1]; omega
        · rw [if_neg h1]
          by_cases h16 : tag x.g v < 16
          · rw [if_pos h16]
            by_cases h0 : cnt x.g (tag x.g v) = 0
            · rw [if_pos h0]; simp only [true_iff]; left; right; exact ⟨trivial, h1, Or.inr h0⟩
            · rw [if_neg h0]
              by_cases hc1 : cnt x.g (tag x.g v) = 1
              · rw [if_pos hc1]
                simp only [ite_eq_right_iff, reduceCtorEq, imp_false, Bool.not_eq_true]
                rw [collectX_ok]
                simp only [mem_decr, mem_setPers]
                constructor
                · intro he; right; exact ⟨trivial, h1, h16, hc1, he⟩
                · rintro (h | h)
                  · rcases h with h | ⟨_, _, h | h⟩ <;> omega
                  · exact h.2.2.2.2
              · rw [if_neg hc1]
                simp only [reduceCtorEq, false_iff]
                rintro (h | h)
                · rcases h with h | ⟨_, _, h | h⟩ <;> omega
                · exact hc1 h.2.2.2.1
          · rw [if_neg h16]; simp only [true_iff]; left; right; exact ⟨trivial, h1, Or.inl (by omega)⟩
    · rw [if_neg ha]; simp only [true_iff]; left; simpa using ha
  | kid v a =>
    simp only [stepX, PanicsX, kidX]
    by_cases ha : x.acc v = true <;> simp [ha]
  | kids v =>
    simp only [stepX, PanicsX, kidsX]
    by_cases ha : x.acc v = true <;> simp [ha]
  | keys => simp [stepX, PanicsX]
  | nextId =>
    simp only [stepX, PanicsX]
    unfold nextIdX
    cases hf : (List.range (cap x.g)).find?
        (fun v => !(x.holes.contains v) && decide (tag x.g v = 0 ∧ x.g.next ≤ v)) with
    | none =>
      simp only [true_iff]
      intro v hv hc
      have := List.find?_eq_none.1 hf v (by simpa using hv)
      simp only [Bool.and_eq_true, Bool.not_eq_eq_eq_not, Bool.not_true, decide_eq_true_eq, not_and] at this
      have h1 : x.holes.contains v = false := by simpa using hc.1
      exact this h1 hc.2.1 hc.2.2
    | some i =>
      simp only [reduceCtorEq, false_iff]
      intro hall
      have hm := List.mem_of_find?_eq_some hf
      have hp := List.find?_some hf
      simp only [List.mem_range] at hm
      simp only [Bool.and_eq_true, Bool.not_eq_eq_eq_not, Bool.not_true, decide_eq_true_eq] at hp
      exact hall i hm ⟨by simpa using hp.1, hp.2.1, hp.2.2⟩

end Sodg
