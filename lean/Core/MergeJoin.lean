import Core.MergeCount
set_option linter.unusedSectionVars false
/-! Probe v2, C11: the second pass of `merge_rec` compares, for every edge `(a, to)` of the right vertex,
    `kid(left, a)` with `mapped[to]` and calls `join` when they differ. On trees they never differ. -/
namespace Sodg
namespace MT
open P

variable {L D : Type} [DecidableEq L] [Inhabited D]

theorem mlookup_of_mem (m : Mapped) (k v : Nat) (hn : (mkeys m).Nodup) (h : (k, v) ∈ m) : mlookup m k = some v := by
  induction m with
  | nil => cases h
  | cons e rest ih =>
    obtain ⟨a, b⟩ := e
    simp only [mkeys, List.map_cons, List.nodup_cons] at hn
    simp only [List.mem_cons, Prod.mk.injEq] at h
    simp only [mlookup]
    rcases h with ⟨rfl, rfl⟩ | h
    · simp
    · have : a ≠ k := by
        rintro rfl
        exact hn.1 (List.mem_map_of_mem (f := Prod.fst) h)
      simp [this]
      exact ih hn.2 h

/-- after the first pass on (the view of) a tree with distinct ids, for every kid `(a, c)` of the root the edge of
    `left` under `a` leads exactly where the table sends `c` — the `first != second` test of the second pass fails -/
theorem second_pass_is_noop (c : Nat) (h : RightView L D) (t : T L D) (hrep : HRepr h t) (hnd : (allIds t).Nodup)
    (fuel left : Nat) (r r' : R L D) (m' : Mapped) (hl : left ∈ r.ids) (hc : Closed (proj r))
    (hrun : runR (R.step c) (mergeRec h fuel left t.id []) r = some (m', r')) :
    ∀ a ch, klookup t.kids a = some ch →
      ∃ u, lookup (r'.edg left) a = some u ∧ mlookup m' ch.id = some u := by
  intro a ch hk
  obtain ⟨e1, e2, e3⟩ := (bridge c h fuel).1 t left [] r m' r' hrep hnd (by simp [mkeys]) hrun
  have hn' : (mkeys m').Nodup := by
    have sp := (table_spec (R.step c) h (fun _ => True) (fun _ _ _ _ _ => trivial) fuel).1 left t.id [] r m' r' trivial hrun
    exact sp.nodup (by simp [mkeys])
  have g := mergeProg_grafts c h t hrep hnd fuel left r r' m' hl hc hrun
  have hw : t.walk [a] = some ch := by
    cases t with
    | node id d kids => simp only [T.kids] at hk; simp [T.walk, hk]
  obtain ⟨u, hu, hm⟩ := g.2 [a] ch hw
  refine ⟨u, ?_, mlookup_of_mem m' ch.id u hn' hm⟩
  simp only [walk] at hu
  split at hu
  · cases hu
  next w hkid => simp only [Option.some.injEq] at hu; subst hu; exact hkid

#print axioms second_pass_is_noop
end MT
end Sodg
