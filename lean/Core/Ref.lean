import Core.InvRest
set_option linter.unusedSectionVars false
/-! Probe v2: the slot-free reference with every observable, and the refinement relation -/
namespace Sodg

variable {L D : Type} [DecidableEq L] [Inhabited D]

structure R (L D : Type) where
  ids : List Nat              -- alive vertices
  grp : Nat → Option Nat      -- group birth number, none = ungrouped
  unr : Nat → Bool            -- holds a put-but-unread datum
  fresh : Nat
  edg : Nat → List (L × Nat)
  dat : Nat → Option D
  pos : Nat

def R.empty : R L D :=
  { ids := [], grp := fun _ => none, unr := fun _ => false, fresh := 0, edg := fun _ => [], dat := fun _ => none, pos := 0 }

def upd {α} (f : Nat → α) (v : Nat) (x : α) : Nat → α := fun w => if w = v then x else f w

@[simp] theorem upd_same {α} (f : Nat → α) (v : Nat) (x : α) : upd f v x v = x := by simp [upd]
theorem upd_get {α} (f : Nat → α) (v w : Nat) (x : α) : upd f v x w = if w = v then x else f w := rfl

def R.add (r : R L D) (v : Nat) : R L D :=
  if v ∈ r.ids then r
  else { r with ids := v :: r.ids, grp := upd r.grp v none, unr := upd r.unr v false,
                edg := upd r.edg v [], dat := upd r.dat v none }

/-- the group part of bind -/
def R.bindGrp (r : R L D) (v1 v2 : Nat) : R L D :=
  match r.grp v1, r.grp v2 with
  | none, none => { r with grp := upd (upd r.grp v1 (some r.fresh)) v2 (some r.fresh), fresh := r.fresh + 1 }
  | none, some k => { r with grp := upd r.grp v1 (some k) }
  | some k, none => { r with grp := upd r.grp v2 (some k) }
  | some _, some _ => r

def R.setEdge (r : R L D) (v1 v2 : Nat) (a : L) : R L D := { r with edg := upd r.edg v1 (upsert (r.edg v1) a v2) }

def R.bind (r : R L D) (v1 v2 : Nat) (a : L) : R L D := (r.setEdge v1 v2 a).bindGrp v1 v2

def R.put (r : R L D) (v : Nat) (d : D) : R L D := { r with unr := upd r.unr v true, dat := upd r.dat v (some d) }

def R.members (r : R L D) (k : Nat) : List Nat := r.ids.filter (fun w => r.grp w = some k)

def R.data (r : R L D) (v : Nat) : R L D :=
  if r.unr v then
    let r1 := { r with unr := upd r.unr v false }
    match r.grp v with
    | none => r1
    | some k =>
      if (r1.members k).all (fun w => !r1.unr w) then
        { r1 with ids := r1.ids.filter (fun w => r1.grp w ≠ some k) }
      else r1
  else r

def R.keys (r : R L D) (cap : Nat) : List Nat := (List.range cap).filter (fun v => v ∈ r.ids)

def R.nextId (r : R L D) (cap : Nat) : Option (R L D × Nat) :=
  match (List.range cap).find? (fun v => v ∉ r.ids ∧ r.pos ≤ v) with
  | none => none
  | some id => some (if r.pos < id + 1 then { r with pos := id + 1 } else r, id)

structure Rel (g : G L D) (r : R L D) : Prop where
  inv : Inv g
  nd : r.ids.Nodup
  alive : ∀ v, v ∈ r.ids ↔ (v < cap g ∧ tag g v ≠ 0)
  ungr : ∀ v ∈ r.ids, r.grp v = none ↔ tag g v = 1
  same : ∀ v ∈ r.ids, ∀ w ∈ r.ids, (r.grp v ≠ none ∧ r.grp v = r.grp w) ↔ (2 ≤ tag g v ∧ tag g v = tag g w)
  unr : ∀ v ∈ r.ids, r.unr v = true ↔ pers g v = .stored
  lt : ∀ v ∈ r.ids, ∀ k, r.grp v = some k → k < r.fresh
  edges : ∀ v ∈ r.ids, edg g v = r.edg v
  data : ∀ v ∈ r.ids, r.dat v = if pers g v = .empty then none else some (dat g v)
  pos : g.next = r.pos

end Sodg
