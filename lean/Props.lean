import Props.C01
import Props.C02
import Props.C03
import Props.C04
import Props.C05
import Props.C06
import Props.C19
