/-! C15 probe, leaf: the i64/f64 conversions are bit casts through eight big-endian bytes. The integer (or the
    float) is represented by its 64-bit pattern `n < 2^64`. -/
namespace HI

def encLE : Nat → Nat → List UInt8
  | 0, _ => []
  | k + 1, n => UInt8.ofNat (n % 256) :: encLE k (n / 256)

/-- value of little-endian bytes -/
def valLE : List UInt8 → Nat
  | [] => 0
  | b :: r => b.toNat + 256 * valLE r

theorem encLE_length (k n : Nat) : (encLE k n).length = k := by
  induction k generalizing n with
  | zero => rfl
  | succ k ih => simp [encLE, ih]

theorem valLE_encLE (k n : Nat) (h : n < 256 ^ k) : valLE (encLE k n) = n := by
  induction k generalizing n with
  | zero => simp at h; subst h; rfl
  | succ k ih =>
    have hq : n / 256 < 256 ^ k := by
      rw [Nat.div_lt_iff_lt_mul (by decide)]; rw [Nat.pow_succ] at h; exact h
    simp only [encLE, valLE, ih (n / 256) hq]
    have : (UInt8.ofNat (n % 256)).toNat = n % 256 := by simp [UInt8.toNat_ofNat']
    rw [this]; omega

theorem valLE_lt (l : List UInt8) : valLE l < 256 ^ l.length := by
  induction l with
  | nil => simp [valLE]
  | cons b r ih =>
    simp only [valLE, List.length_cons, Nat.pow_succ]
    have := b.toNat_lt
    omega

theorem encLE_valLE (l : List UInt8) : encLE l.length (valLE l) = l := by
  induction l with
  | nil => rfl
  | cons b r ih =>
    simp only [List.length_cons, encLE, valLE]
    have hb := b.toNat_lt
    have e1 : (b.toNat + 256 * valLE r) % 256 = b.toNat := by omega
    have e2 : (b.toNat + 256 * valLE r) / 256 = valLE r := by omega
    rw [e1, e2, ih]
    simp

/-- `From<i64>` / `From<f64>`: eight big-endian bytes of the pattern -/
def ofBits (n : Nat) : List UInt8 := (encLE 8 n).reverse

/-- `to_i64` / `to_f64`: exactly eight bytes, else an error -/
def toBits (bytes : List UInt8) : Option Nat := if bytes.length = 8 then some (valLE bytes.reverse) else none

theorem ofBits_length (n : Nat) : (ofBits n).length = 8 := by simp [ofBits, encLE_length]

/-- bit-exact inverse of `From` -/
theorem toBits_ofBits (n : Nat) (h : n < 2 ^ 64) : toBits (ofBits n) = some n := by
  unfold toBits
  rw [if_pos (ofBits_length n)]
  simp only [ofBits, List.reverse_reverse]
  rw [valLE_encLE 8 n (by simpa using h)]

/-- fails for any length other than eight -/
theorem toBits_wrong_length (bytes : List UInt8) (h : bytes.length ≠ 8) : toBits bytes = none := by
  simp [toBits, h]

/-- and the other way round: eight bytes survive conversion to a number and back -/
theorem ofBits_toBits (bytes : List UInt8) (n : Nat) (h : toBits bytes = some n) : ofBits n = bytes ∧ n < 2 ^ 64 := by
  unfold toBits at h
  split at h
  next h8 =>
    cases h
    have hr : bytes.reverse.length = 8 := by simpa using h8
    refine ⟨?_, ?_⟩
    · unfold ofBits
      rw [← hr, encLE_valLE]; simp
    · have := valLE_lt bytes.reverse
      rw [hr] at this
      simpa using this
  · cases h

/-- `From<i32>` / `From<i16>` / `From<i8>` / `From<f32>`: the `w` big-endian bytes of the `8·w`-bit pattern -/
def ofBitsW (w n : Nat) : List UInt8 := (encLE w n).reverse

theorem ofBitsW_length (w n : Nat) : (ofBitsW w n).length = w := by simp [ofBitsW, encLE_length]

/-- the pattern can be read back from the bytes -/
theorem val_ofBitsW (w n : Nat) (h : n < 256 ^ w) : valLE (ofBitsW w n).reverse = n := by
  simp only [ofBitsW, List.reverse_reverse]; exact valLE_encLE w n h

/-- the eight-byte conversion is the `w = 8` instance -/
theorem ofBitsW_eight (n : Nat) : ofBitsW 8 n = ofBits n := rfl

/-- `From<bool>`: one byte, 1 or 0 -/
def ofBool (b : Bool) : List UInt8 := [if b then 1 else 0]

/-- `to_bool`: the first byte is 1; `none` = panic (index 0 of an empty slice) -/
def toBool (bytes : List UInt8) : Option Bool := bytes[0]?.map (· == 1)

theorem toBool_ofBool (b : Bool) : toBool (ofBool b) = some b := by cases b <;> rfl

theorem toBool_panics_iff (bytes : List UInt8) : toBool bytes = none ↔ bytes = [] := by
  cases bytes <;> simp [toBool]

end HI
