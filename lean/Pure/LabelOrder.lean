import Pure.Label
/-! C18 probe, leaf: the derived `Ord` of `Label` (variant rank, then code point / number / array order) is a strict
    total order — the hypothesis `StrictTotal` of `Render.lean`. -/
namespace LO

abbrev Label := Lb.Label

def lexLt : List Char → List Char → Bool
  | [], [] => false
  | [], _ :: _ => true
  | _ :: _, [] => false
  | a :: as, b :: bs => if a.toNat < b.toNat then true else if b.toNat < a.toNat then false else lexLt as bs

def lt : Label → Label → Bool
  | .greek a, .greek b => decide (a.toNat < b.toNat)
  | .greek _, _ => true
  | .alpha _, .greek _ => false
  | .alpha m, .alpha n => decide (m < n)
  | .alpha _, .str _ => true
  | .str a, .str b => lexLt a b
  | .str _, _ => false

theorem toNat_inj (a b : Char) (h : a.toNat = b.toNat) : a = b := by
  apply Char.ext; apply UInt32.toNat_inj.1; exact h

theorem lex_irrefl : ∀ a, lexLt a a = false
  | [] => rfl
  | x :: xs => by simp [lexLt, lex_irrefl xs]

theorem lex_trans : ∀ a b c, lexLt a b = true → lexLt b c = true → lexLt a c = true
  | [], [], _, h, _ => by simp [lexLt] at h
  | [], _ :: _, [], _, h => by simp [lexLt] at h
  | [], _ :: _, _ :: _, _, _ => rfl
  | _ :: _, [], _, h, _ => by simp [lexLt] at h
  | _ :: _, _ :: _, [], _, h => by simp [lexLt] at h
  | x :: xs, y :: ys, z :: zs, h1, h2 => by
    simp only [lexLt] at h1 h2 ⊢
    by_cases hxy : x.toNat < y.toNat
    · by_cases hyz : y.toNat < z.toNat
      · have : x.toNat < z.toNat := by omega
        simp [this]
      · simp only [hyz, if_false] at h2
        by_cases hzy : z.toNat < y.toNat
        · simp [hzy] at h2
        · have : x.toNat < z.toNat := by omega
          simp [this]
    · simp only [hxy, if_false] at h1
      by_cases hyx : y.toNat < x.toNat
      · simp [hyx] at h1
      · simp only [hyx, if_false] at h1
        have hxy' : x.toNat = y.toNat := by omega
        by_cases hyz : y.toNat < z.toNat
        · have : x.toNat < z.toNat := by omega
          simp [this]
        · simp only [hyz, if_false] at h2
          by_cases hzy : z.toNat < y.toNat
          · simp [hzy] at h2
          · simp only [hzy, if_false] at h2
            have h1' : ¬ x.toNat < z.toNat := by omega
            have h2' : ¬ z.toNat < x.toNat := by omega
            simp only [h1', h2', if_false]
            exact lex_trans xs ys zs h1 h2

theorem lex_total : ∀ a b, a ≠ b → lexLt a b = true ∨ lexLt b a = true
  | [], [], h => absurd rfl h
  | [], _ :: _, _ => Or.inl rfl
  | _ :: _, [], _ => Or.inr rfl
  | x :: xs, y :: ys, h => by
    simp only [lexLt]
    by_cases hxy : x.toNat < y.toNat
    · left; simp [hxy]
    · by_cases hyx : y.toNat < x.toNat
      · right; simp [hyx]
      · have he : x = y := toNat_inj x y (by omega)
        subst he
        have hne : xs ≠ ys := by intro e; exact h (by rw [e])
        simp only [hxy, if_false]
        exact lex_total xs ys hne

theorem lt_irrefl (a : Label) : lt a a = false := by
  cases a <;> simp [lt, lex_irrefl]

theorem lt_trans (a b c : Label) (h1 : lt a b = true) (h2 : lt b c = true) : lt a c = true := by
  cases a <;> cases b <;> cases c <;> simp only [lt, decide_eq_true_eq] at h1 h2 ⊢ <;>
    first
    | omega
    | rfl
    | (cases h1; done)
    | (cases h2; done)
    | (exact lex_trans _ _ _ h1 h2)

theorem lt_total (a b : Label) (h : a ≠ b) : lt a b = true ∨ lt b a = true := by
  cases a with
  | greek x =>
    cases b with
    | greek y =>
      simp only [lt, decide_eq_true_eq]
      have : x.toNat ≠ y.toNat := fun e => h (by rw [toNat_inj x y e])
      omega
    | alpha _ => exact Or.inl rfl
    | str _ => exact Or.inl rfl
  | alpha m =>
    cases b with
    | greek _ => exact Or.inr rfl
    | alpha n =>
      simp only [lt, decide_eq_true_eq]
      have : m ≠ n := fun e => h (by rw [e])
      omega
    | str _ => exact Or.inl rfl
  | str x =>
    cases b with
    | greek _ => exact Or.inr rfl
    | alpha _ => exact Or.inr rfl
    | str y =>
      simp only [lt]
      exact lex_total x y (fun e => h (by rw [e]))

#print axioms lt_trans
#print axioms lt_total
end LO
