/-! Feasibility probe for C15/C16: `Hex` is its byte string whatever its representation; every index and range
    panics exactly when the same index on the byte slice would; `concat` as found and repaired. -/
namespace Hx

inductive Hex where
  | vector (v : List UInt8)
  | inline (a : List UInt8) (len : Nat)      -- `Bytes([u8; 8], usize)`
deriving Repr, DecidableEq

/-- `Hex::empty()` -/
instance : Inhabited Hex := ⟨.inline (List.replicate 8 0) 0⟩

/-- well-formed representations: the array has 8 cells and the length does not exceed it (padding is arbitrary) -/
def Hex.WF : Hex → Prop
  | .vector _ => True
  | .inline a len => a.length = 8 ∧ len ≤ 8

def Hex.toBytes : Hex → List UInt8
  | .vector v => v
  | .inline a len => a.take len

def Hex.len : Hex → Nat
  | .vector v => v.length
  | .inline _ len => len

/-- `from_slice` / `from_vec` -/
def Hex.ofBytes (s : List UInt8) : Hex :=
  if s.length ≤ 8 then .inline (s ++ List.replicate (8 - s.length) 0) s.length else .vector s

/-! Rust slice indexing, `none` = panic. `maxU` is `usize::MAX`. -/
def maxU : Nat := 2 ^ 64 - 1

def sliceRange (l : List UInt8) (s e : Nat) : Option (List UInt8) :=
  if s ≤ e ∧ e ≤ l.length then some ((l.drop s).take (e - s)) else none
def sliceIncl (l : List UInt8) (s e : Nat) : Option (List UInt8) :=
  if e = maxU then none else sliceRange l s (e + 1)

/-! the accessors of `hex.rs` -/
def Hex.index (h : Hex) (i : Nat) : Option UInt8 :=
  match h with
  | .vector v => v[i]?
  | .inline a len => if i < len then a[i]? else none

def Hex.range (h : Hex) (s e : Nat) : Option (List UInt8) :=
  match h with
  | .vector v => sliceRange v s e
  | .inline a len => if e ≤ len then sliceRange a s e else none

def Hex.rangeFrom (h : Hex) (s : Nat) : Option (List UInt8) :=
  match h with
  | .vector v => sliceRange v s v.length
  | .inline a len => if s ≤ len then sliceRange a s len else none

def Hex.rangeFull (h : Hex) : Option (List UInt8) :=
  match h with
  | .vector v => some v
  | .inline a len => sliceRange a 0 len

def Hex.rangeIncl (h : Hex) (s e : Nat) : Option (List UInt8) :=
  match h with
  | .vector v => sliceIncl v s e
  | .inline a len => if e < len then sliceIncl a s e else none

/-- a `RangeInclusive` that was iterated to its end carries the flag `exhausted`; `into_slice_range` turns `s..=e` into
    `e+1 .. e+1` then: the empty slice if `e` is an index of the slice, a panic otherwise, whatever `s` -/
def sliceInclX (bs : List UInt8) (e : Nat) : Option (List UInt8) := if e < bs.length then some [] else none

def Hex.rangeInclX (h : Hex) (e : Nat) : Option (List UInt8) :=
  match h with
  | .vector v => sliceInclX v e
  | .inline a len => if e < len then sliceInclX a e else none

def Hex.rangeTo (h : Hex) (e : Nat) : Option (List UInt8) :=
  match h with
  | .vector v => sliceRange v 0 e
  | .inline a len => if e ≤ len then sliceRange a 0 e else none

def Hex.rangeToIncl (h : Hex) (e : Nat) : Option (List UInt8) :=
  match h with
  | .vector v => sliceIncl v 0 e
  | .inline a len => if e < len then sliceIncl a 0 e else none

def Hex.byteAt (h : Hex) (i : Nat) : Option UInt8 := h.toBytes[i]?
def Hex.tail (h : Hex) (skip : Nat) : Option Hex := (sliceRange h.toBytes skip h.toBytes.length).map Hex.ofBytes

/-! ### representation independence -/

theorem bytes_len (h : Hex) (w : h.WF) : h.toBytes.length = h.len := by
  cases h with
  | vector v => rfl
  | inline a len => obtain ⟨h8, hl⟩ := w; simp [Hex.toBytes, Hex.len, h8]; omega

theorem ofBytes_wf (s : List UInt8) : (Hex.ofBytes s).WF := by
  unfold Hex.ofBytes; split
  · simp [Hex.WF]; omega
  · trivial

theorem ofBytes_bytes (s : List UInt8) : (Hex.ofBytes s).toBytes = s := by
  unfold Hex.ofBytes; split <;> simp [Hex.toBytes]

theorem take_drop_take (a : List UInt8) (len s e : Nat) (h : e ≤ len) :
    ((a.take len).drop s).take (e - s) = (a.drop s).take (e - s) := by
  rw [List.drop_take, List.take_take]
  congr 1
  omega

theorem sliceRange_take (a : List UInt8) (len s e : Nat) (hl : len ≤ a.length) (he : e ≤ len) :
    sliceRange (a.take len) s e = sliceRange a s e := by
  unfold sliceRange
  have h1 : (a.take len).length = len := by simp; omega
  by_cases hs : s ≤ e
  · have c1 : s ≤ e ∧ e ≤ (a.take len).length := ⟨hs, by omega⟩
    have c2 : s ≤ e ∧ e ≤ a.length := ⟨hs, by omega⟩
    rw [if_pos c1, if_pos c2, take_drop_take a len s e he]
  · have c1 : ¬ (s ≤ e ∧ e ≤ (a.take len).length) := fun h => hs h.1
    have c2 : ¬ (s ≤ e ∧ e ≤ a.length) := fun h => hs h.1
    rw [if_neg c1, if_neg c2]

theorem index_eq (h : Hex) (w : h.WF) (i : Nat) : h.index i = h.toBytes[i]? := by
  cases h with
  | vector v => rfl
  | inline a len =>
    obtain ⟨h8, hl⟩ := w
    simp only [Hex.index, Hex.toBytes]
    split
    next hi => rw [List.getElem?_take]; simp [hi]
    next hi => symm; rw [List.getElem?_eq_none_iff]; simp; omega

theorem range_eq (h : Hex) (w : h.WF) (s e : Nat) : h.range s e = sliceRange h.toBytes s e := by
  cases h with
  | vector v => rfl
  | inline a len =>
    obtain ⟨h8, hl⟩ := w
    simp only [Hex.range, Hex.toBytes]
    split
    next he => rw [sliceRange_take a len s e (by omega) he]
    next he =>
      unfold sliceRange
      have : ¬ (s ≤ e ∧ e ≤ (a.take len).length) := by simp; omega
      rw [if_neg this]

theorem rangeFrom_eq (h : Hex) (w : h.WF) (s : Nat) : h.rangeFrom s = sliceRange h.toBytes s h.toBytes.length := by
  cases h with
  | vector v => rfl
  | inline a len =>
    obtain ⟨h8, hl⟩ := w
    have h1 : (a.take len).length = len := by simp; omega
    simp only [Hex.rangeFrom, Hex.toBytes, h1]
    split
    next hs => rw [sliceRange_take a len s len (by omega) (Nat.le_refl _)]
    next hs =>
      unfold sliceRange
      have : ¬ (s ≤ len ∧ len ≤ (a.take len).length) := fun h => hs h.1
      rw [if_neg this]

theorem rangeFull_eq (h : Hex) (w : h.WF) : h.rangeFull = some h.toBytes := by
  cases h with
  | vector v => rfl
  | inline a len =>
    obtain ⟨h8, hl⟩ := w
    simp only [Hex.rangeFull, Hex.toBytes, sliceRange]
    have : 0 ≤ len ∧ len ≤ a.length := ⟨Nat.zero_le _, by omega⟩
    rw [if_pos this]; simp

theorem rangeInclX_eq (h : Hex) (w : h.WF) (e : Nat) : h.rangeInclX e = sliceInclX h.toBytes e := by
  cases h with
  | vector v => rfl
  | inline a len =>
    obtain ⟨h8, hl⟩ := w
    simp only [Hex.rangeInclX, Hex.toBytes, sliceInclX]
    have hl' : (a.take len).length = len := by simp; omega
    by_cases he : e < len
    · rw [if_pos he, if_pos (by omega)]; symm; exact if_pos (by rw [hl']; exact he)
    · rw [if_neg he]; symm; exact if_neg (by rw [hl']; exact he)

theorem rangeIncl_eq (h : Hex) (w : h.WF) (s e : Nat) : h.rangeIncl s e = sliceIncl h.toBytes s e := by
  cases h with
  | vector v => rfl
  | inline a len =>
    obtain ⟨h8, hl⟩ := w
    simp only [Hex.rangeIncl, Hex.toBytes, sliceIncl]
    split
    next he =>
      split
      · rfl
      · rw [sliceRange_take a len s (e + 1) (by omega) (by omega)]
    next he =>
      split
      · rfl
      · unfold sliceRange
        have : ¬ (s ≤ e + 1 ∧ e + 1 ≤ (a.take len).length) := by simp; omega
        rw [if_neg this]

theorem rangeTo_eq (h : Hex) (w : h.WF) (e : Nat) : h.rangeTo e = sliceRange h.toBytes 0 e := by
  cases h with
  | vector v => rfl
  | inline a len =>
    obtain ⟨h8, hl⟩ := w
    simp only [Hex.rangeTo, Hex.toBytes]
    split
    next he => rw [sliceRange_take a len 0 e (by omega) he]
    next he =>
      unfold sliceRange
      have : ¬ (0 ≤ e ∧ e ≤ (a.take len).length) := by simp; omega
      rw [if_neg this]

theorem rangeToIncl_eq (h : Hex) (w : h.WF) (e : Nat) : h.rangeToIncl e = sliceIncl h.toBytes 0 e := by
  have := rangeIncl_eq h w 0 e
  cases h <;> simpa [Hex.rangeToIncl, Hex.rangeIncl] using this

/-! ### concat -/

def Hex.concatAsFound (x h : Hex) : Hex :=
  match x with
  | .vector v => .vector (v ++ h.toBytes)
  | .inline a l =>
    if l + h.len ≤ 8 then .inline (a.take l ++ h.toBytes ++ a.drop (l + h.len)) (l + h.len)
    else .vector (a ++ h.toBytes)                       -- `v.extend_from_slice(b)`: all eight cells

def Hex.concatRepaired (x h : Hex) : Hex :=
  match x with
  | .vector v => .vector (v ++ h.toBytes)
  | .inline a l =>
    if l + h.len ≤ 8 then .inline (a.take l ++ h.toBytes ++ a.drop (l + h.len)) (l + h.len)
    else .vector (a.take l ++ h.toBytes)

/-- the class of inputs on which the code as found is wrong -/
def Defect (x h : Hex) : Prop :=
  match x with
  | .vector _ => False
  | .inline _ l => l < 8 ∧ 8 < l + h.len

theorem inline_fit (a : List UInt8) (l : Nat) (h : Hex) (h8 : a.length = 8) (hl : l ≤ 8) (hw : h.WF)
    (hfit : l + h.len ≤ 8) :
    (Hex.toBytes (.inline (a.take l ++ h.toBytes ++ a.drop (l + h.len)) (l + h.len))) = a.take l ++ h.toBytes := by
  have hb := bytes_len h hw
  generalize h.toBytes = B at hb ⊢
  have hlen : (a.take l ++ B).length = l + h.len := by simp [hb, h8]; omega
  show (a.take l ++ B ++ a.drop (l + h.len)).take (l + h.len) = a.take l ++ B
  rw [← hlen]
  exact List.take_left' rfl

theorem concatRepaired_law (x h : Hex) (wx : x.WF) (wh : h.WF) :
    (x.concatRepaired h).toBytes = x.toBytes ++ h.toBytes := by
  cases x with
  | vector v => rfl
  | inline a l =>
    obtain ⟨h8, hl⟩ := wx
    simp only [Hex.concatRepaired]
    split
    next hfit => rw [inline_fit a l h h8 hl wh hfit]; rfl
    next hfit => rfl

theorem concat_partial (x h : Hex) (wx : x.WF) (wh : h.WF) (hd : ¬ Defect x h) :
    (x.concatAsFound h).toBytes = x.toBytes ++ h.toBytes := by
  cases x with
  | vector v => rfl
  | inline a l =>
    obtain ⟨h8, hl⟩ := wx
    simp only [Hex.concatAsFound]
    split
    next hfit => rw [inline_fit a l h h8 hl wh hfit]; rfl
    next hfit =>
      -- not in the defect class and not fitting: l = 8
      have : l = 8 := by simp [Defect] at hd; omega
      subst this
      simp [Hex.toBytes, ← h8]

theorem concat_defect_shape (a : List UInt8) (l : Nat) (h : Hex) (hd : Defect (.inline a l) h) :
    (Hex.concatAsFound (.inline a l) h).toBytes = a ++ h.toBytes := by
  obtain ⟨h1, h2⟩ := hd
  simp only [Hex.concatAsFound]
  rw [if_neg (by omega)]; rfl

/-- the full law fails for the code as found: D9 of DESIGN.md, the replay of the known finding -/
theorem concat_law_fails : ∃ x h : Hex, x.WF ∧ h.WF ∧ (x.concatAsFound h).toBytes ≠ x.toBytes ++ h.toBytes :=
  ⟨.inline [1, 2, 0, 0, 0, 0, 0, 0] 2, .inline [3, 3, 3, 3, 3, 3, 3, 0] 7, by simp [Hex.WF], by simp [Hex.WF], by decide⟩

#print axioms index_eq
#print axioms rangeIncl_eq
#print axioms concat_partial
#print axioms concatRepaired_law
#print axioms concat_law_fails
end Hx
