/-! Feasibility probe: the two pieces of arithmetic the codec and the label parser need.
    (1) little-endian fixed-width integers: `decLE (encLE k n ++ r) = (n, r)` for n < 256^k;
    (2) decimal text: `parseDec (printDec n) = some n`, and `printDec` is canonical (no leading zero). -/
namespace A

/-- `k` little-endian bytes of `n` -/
def encLE : Nat → Nat → List UInt8
  | 0, _ => []
  | k + 1, n => UInt8.ofNat (n % 256) :: encLE k (n / 256)

/-- read `k` little-endian bytes -/
def decLE : Nat → List UInt8 → Option (Nat × List UInt8)
  | 0, w => some (0, w)
  | k + 1, [] => none
  | k + 1, b :: w => match decLE k w with
    | none => none
    | some (n, r) => some (b.toNat + 256 * n, r)

theorem decLE_encLE (k n : Nat) (r : List UInt8) (h : n < 256 ^ k) : decLE k (encLE k n ++ r) = some (n, r) := by
  induction k generalizing n with
  | zero => simp at h; subst h; rfl
  | succ k ih =>
    simp only [encLE, List.cons_append, decLE]
    have hq : n / 256 < 256 ^ k := by
      rw [Nat.div_lt_iff_lt_mul (by decide)]; rw [Nat.pow_succ] at h; exact h
    rw [ih (n / 256) hq]
    have : (UInt8.ofNat (n % 256)).toNat = n % 256 := by
      simp [UInt8.toNat_ofNat']
    simp only [this]
    congr 2
    omega

theorem encLE_length (k n : Nat) : (encLE k n).length = k := by
  induction k generalizing n with
  | zero => rfl
  | succ k ih => simp [encLE, ih]

/-! decimal -/

def digitChar (d : Nat) : Char := Char.ofNat (48 + d)

def digitVal (c : Char) : Option Nat :=
  if 48 ≤ c.toNat ∧ c.toNat ≤ 57 then some (c.toNat - 48) else none

theorem digitVal_digitChar (d : Nat) (h : d < 10) : digitVal (digitChar d) = some d := by
  have : (Char.ofNat (48 + d)).toNat = 48 + d := by
    have hv : (48 + d).isValidChar := by left; omega
    simp [Char.ofNat, hv, Char.toNat, Char.ofNatAux]
    omega
  unfold digitVal digitChar
  rw [this]
  simp; omega

/-- decimal digits, least significant first -/
def digitsRev : Nat → Nat → List Nat
  | 0, _ => []
  | fuel + 1, n => if n < 10 then [n] else (n % 10) :: digitsRev fuel (n / 10)

def ofDigitsRev : List Nat → Nat
  | [] => 0
  | d :: ds => d + 10 * ofDigitsRev ds

theorem ofDigitsRev_digitsRev (fuel n : Nat) (h : n < fuel) : ofDigitsRev (digitsRev fuel n) = n := by
  induction fuel generalizing n with
  | zero => omega
  | succ fuel ih =>
    unfold digitsRev
    split
    · simp [ofDigitsRev]
    · simp only [ofDigitsRev]
      rw [ih (n / 10) (by omega)]
      omega

theorem digitsRev_lt (fuel n : Nat) : ∀ d ∈ digitsRev fuel n, d < 10 := by
  induction fuel generalizing n with
  | zero => simp [digitsRev]
  | succ fuel ih =>
    unfold digitsRev
    split
    · intro d hd; simp at hd; omega
    · intro d hd
      simp only [List.mem_cons] at hd
      rcases hd with rfl | hd
      · omega
      · exact ih _ d hd

theorem digitsRev_ne_nil (fuel n : Nat) (h : n < fuel) : digitsRev fuel n ≠ [] := by
  cases fuel with
  | zero => omega
  | succ fuel => unfold digitsRev; split <;> simp

/-- `Display for usize` -/
def printDec (n : Nat) : List Char := ((digitsRev (n + 1) n).reverse).map digitChar

/-- Rust's unsigned `from_str`, without the optional `+` and without the overflow check: a left fold -/
def parseDecAux : List Char → Nat → Option Nat
  | [], acc => some acc
  | c :: cs, acc => match digitVal c with
    | none => none
    | some d => parseDecAux cs (acc * 10 + d)

def parseDec (s : List Char) : Option Nat := if s.isEmpty then none else parseDecAux s 0

theorem parseDecAux_digits (ds : List Nat) (h : ∀ d ∈ ds, d < 10) (acc : Nat) :
    parseDecAux (ds.map digitChar) acc = some (ds.foldl (fun a d => a * 10 + d) acc) := by
  induction ds generalizing acc with
  | nil => rfl
  | cons d ds ih =>
    simp only [List.map_cons, parseDecAux, digitVal_digitChar d (h d (by simp)), List.foldl_cons]
    exact ih (fun x hx => h x (by simp [hx])) _

theorem foldl_reverse_digits (ds : List Nat) :
    ds.reverse.foldl (fun a d => a * 10 + d) 0 = ofDigitsRev ds := by
  induction ds with
  | nil => rfl
  | cons d ds ih =>
    simp only [List.reverse_cons, List.foldl_append, List.foldl_cons, List.foldl_nil, ih, ofDigitsRev]
    omega

/-- **decimal round trip** -/
theorem parseDec_printDec (n : Nat) : parseDec (printDec n) = some n := by
  have hne := digitsRev_ne_nil (n + 1) n (by omega)
  have key : parseDecAux (printDec n) 0 = some n := by
    unfold printDec
    rw [parseDecAux_digits _ (fun d hd => digitsRev_lt _ _ d (by simpa using hd)),
      foldl_reverse_digits, ofDigitsRev_digitsRev _ _ (by omega)]
  unfold parseDec
  have : (printDec n).isEmpty = false := by
    unfold printDec; cases h : digitsRev (n + 1) n with
    | nil => exact absurd h hne
    | cons d ds => simp
  rw [this]; exact key

/-! the printer is canonical: a digit string without a leading zero is what the printer prints for its value -/

theorem digitsRev_fuel (f1 f2 n : Nat) (h1 : n < f1) (h2 : n < f2) : digitsRev f1 n = digitsRev f2 n := by
  induction f1 generalizing f2 n with
  | zero => omega
  | succ f1 ih =>
    cases f2 with
    | zero => omega
    | succ f2 =>
      unfold digitsRev
      split
      · rfl
      · rw [ih f2 (n / 10) (by omega) (by omega)]

theorem digitsRev_step (fuel v d : Nat) (hv : 1 ≤ v) (hd : d < 10) (hf : v * 10 + d < fuel) :
    digitsRev fuel (v * 10 + d) = d :: digitsRev fuel v := by
  cases fuel with
  | zero => omega
  | succ fuel =>
    rw [digitsRev]
    have : ¬ v * 10 + d < 10 := by omega
    simp only [this, if_false]
    have e1 : (v * 10 + d) % 10 = d := by omega
    have e2 : (v * 10 + d) / 10 = v := by omega
    rw [e1, e2, digitsRev_fuel fuel (fuel + 1) v (by omega) (by omega)]

/-- value of a digit list, most significant first -/
def valDigits (ds : List Nat) : Nat := ds.foldl (fun a d => a * 10 + d) 0

/-- canonical: non-empty, all digits, no leading zero unless the text is "0" -/
def Canon (ds : List Nat) : Prop := ds ≠ [] ∧ (∀ d ∈ ds, d < 10) ∧ (ds.head? = some 0 → ds = [0])

theorem digitsRev_valDigits_rev (rs : List Nat) (hc : Canon rs.reverse) :
    digitsRev (valDigits rs.reverse + 1) (valDigits rs.reverse) = rs ∧ (rs.reverse ≠ [0] → 1 ≤ valDigits rs.reverse) := by
  induction rs with
  | nil => exact absurd rfl hc.1
  | cons d rs ih =>
    obtain ⟨_, hlt, hz⟩ := hc
    simp only [List.reverse_cons] at hlt hz ⊢
    have hd : d < 10 := hlt d (by simp)
    have hval : valDigits (rs.reverse ++ [d]) = valDigits rs.reverse * 10 + d := by simp [valDigits, List.foldl_append]
    cases hrs : rs.reverse with
    | nil =>
      have : rs = [] := by simpa using hrs
      subst this
      simp [valDigits]
      constructor
      · unfold digitsRev; simp [hd]
      · intro hne; omega
    | cons x xs =>
      rw [hrs] at hlt hz hval
      have hc' : Canon rs.reverse := by
        rw [hrs]
        refine ⟨by simp, fun y hy => hlt y (by simp at hy ⊢; rcases hy with h | h <;> simp [h]), ?_⟩
        intro hx
        simp at hx; subst hx
        have := hz (by simp)
        simp at this
      have hne0 : rs.reverse ≠ [0] := by
        rw [hrs]
        intro h0
        cases h0
        have := hz (by simp)
        simp at this
      obtain ⟨ih1, ih2⟩ := ih hc'
      have hv1 := ih2 hne0
      rw [hrs] at ih1 hv1
      rw [hval]
      constructor
      · rw [digitsRev_step _ _ _ hv1 hd (by omega),
          digitsRev_fuel _ (valDigits (x :: xs) + 1) _ (by omega) (by omega), ih1]
      · intro _; omega

theorem digitsRev_valDigits (ds : List Nat) (hc : Canon ds) :
    digitsRev (valDigits ds + 1) (valDigits ds) = ds.reverse := by
  have := (digitsRev_valDigits_rev ds.reverse (by simpa using hc)).1
  simpa using this

/-- **canonical texts round-trip through value and printer** -/
theorem printDec_valDigits (ds : List Nat) (hc : Canon ds) : printDec (valDigits ds) = ds.map digitChar := by
  unfold printDec
  rw [digitsRev_valDigits ds hc]
  simp

#print axioms printDec_valDigits
#print axioms parseDec_printDec
#print axioms decLE_encLE
end A
