/-! Feasibility probe shared by C14 (`PUT` data) and C15 (`from_str(print(h))`): hexadecimal text, in either case
    and with any separators from the stripped set in any position, decodes to the bytes it spells. -/
namespace HD

/-- value of a hex digit, both cases -/
def hexVal (c : Char) : Option Nat :=
  let n := c.toNat
  if 48 ≤ n ∧ n ≤ 57 then some (n - 48)
  else if 65 ≤ n ∧ n ≤ 70 then some (n - 55)
  else if 97 ≤ n ∧ n ≤ 102 then some (n - 87)
  else none

def upperDigit (d : Nat) : Char := if d < 10 then Char.ofNat (48 + d) else Char.ofNat (55 + d)
def lowerDigit (d : Nat) : Char := if d < 10 then Char.ofNat (48 + d) else Char.ofNat (87 + d)

theorem toNat_ofNat_small (n : Nat) (h : n < 128) : (Char.ofNat n).toNat = n := by
  have hv : n.isValidChar := by left; omega
  simp [Char.ofNat, hv, Char.toNat, Char.ofNatAux]

theorem hexVal_upper (d : Nat) (h : d < 16) : hexVal (upperDigit d) = some d := by
  unfold upperDigit hexVal
  by_cases h10 : d < 10
  · simp only [h10, if_true]; rw [toNat_ofNat_small _ (by omega)]; simp; omega
  · simp only [h10, if_false]; rw [toNat_ofNat_small _ (by omega)]
    have : ¬ (48 ≤ 55 + d ∧ 55 + d ≤ 57) := by omega
    simp only [this, if_false]
    have : 65 ≤ 55 + d ∧ 55 + d ≤ 70 := by omega
    simp only [this, and_self, if_true]; congr 1; omega

theorem hexVal_lower (d : Nat) (h : d < 16) : hexVal (lowerDigit d) = some d := by
  unfold lowerDigit hexVal
  by_cases h10 : d < 10
  · simp only [h10, if_true]; rw [toNat_ofNat_small _ (by omega)]; simp; omega
  · simp only [h10, if_false]; rw [toNat_ofNat_small _ (by omega)]
    have h1 : ¬ (48 ≤ 87 + d ∧ 87 + d ≤ 57) := by omega
    have h2 : ¬ (65 ≤ 87 + d ∧ 87 + d ≤ 70) := by omega
    have h3 : 97 ≤ 87 + d ∧ 87 + d ≤ 102 := by omega
    simp only [h1, h2, h3, and_self, if_true, if_false]; congr 1; omega

/-- a character that spells the hex digit `d`, in some case -/
def Spells (c : Char) (d : Nat) : Prop := hexVal c = some d

/-- `hex::decode` on a digit string: pairs, most significant first -/
def decodePairs : List Char → Option (List UInt8)
  | [] => some []
  | [_] => none
  | a :: b :: rest =>
    match hexVal a, hexVal b, decodePairs rest with
    | some x, some y, some bs => some (UInt8.ofNat (16 * x + y) :: bs)
    | _, _, _ => none

/-- the digit string of a byte list: any characters spelling the two nibbles of each byte -/
inductive DigitsOf : List UInt8 → List Char → Prop
  | nil : DigitsOf [] []
  | cons (b : UInt8) (bs : List UInt8) (a c : Char) (ds : List Char) :
      Spells a (b.toNat / 16) → Spells c (b.toNat % 16) → DigitsOf bs ds → DigitsOf (b :: bs) (a :: c :: ds)

theorem decodePairs_digits (bs : List UInt8) (ds : List Char) (h : DigitsOf bs ds) : decodePairs ds = some bs := by
  induction h with
  | nil => rfl
  | cons b bs a c ds ha hc _ ih =>
    simp only [decodePairs, ha, hc, ih, Spells] at *
    rw [ha, hc]
    simp only
    congr 2
    have : 16 * (b.toNat / 16) + b.toNat % 16 = b.toNat := by omega
    rw [this]; simp

/-- `parse_data` of script.rs: delete the separators, require at least one pair, decode -/
def isSep (c : Char) : Bool := c == ' ' || c == '\t' || c == '\n' || c == '\r' || c == '-'

def parseData (s : List Char) : Option (List UInt8) :=
  let d := s.filter (fun c => !isSep c)
  if d.isEmpty then none else decodePairs d

/-- **C14, data argument**: whatever separators are sprinkled in, and whatever the case of the digits, a text whose
    non-separator characters spell the bytes decodes to those bytes -/
theorem parseData_spelled (bs : List UInt8) (hne : bs ≠ []) (txt : List Char) (ds : List Char)
    (hd : DigitsOf bs ds) (hf : txt.filter (fun c => !isSep c) = ds) : parseData txt = some bs := by
  unfold parseData
  simp only [hf]
  have : ds.isEmpty = false := by
    cases hd with
    | nil => exact absurd rfl hne
    | cons => rfl
  rw [this]
  simp only [Bool.false_eq_true, if_false]
  exact decodePairs_digits bs ds hd

/-- `Hex::print`: upper-case pairs joined by `-` (and `--` for the empty string) -/
def printPairs : List UInt8 → List Char
  | [] => []
  | [b] => [upperDigit (b.toNat / 16), upperDigit (b.toNat % 16)]
  | b :: b' :: rest => upperDigit (b.toNat / 16) :: upperDigit (b.toNat % 16) :: '-' :: printPairs (b' :: rest)

def print (bs : List UInt8) : List Char := if bs.isEmpty then ['-', '-'] else printPairs bs

/-- `Hex::from_str`: delete the dashes, `hex::decode` -/
def fromStr (s : List Char) : Option (List UInt8) := decodePairs (s.filter (fun c => c != '-'))

theorem upperDigit_ne_dash (d : Nat) (h : d < 16) : upperDigit d ≠ '-' := by
  intro he
  have := hexVal_upper d h
  rw [he] at this
  simp [hexVal] at this

theorem filter_printPairs (bs : List UInt8) : DigitsOf bs ((printPairs bs).filter (fun c => c != '-')) := by
  induction bs with
  | nil => exact .nil
  | cons b rest ih =>
    have h1 : b.toNat / 16 < 16 := by have := b.toNat_lt; omega
    have h2 : b.toNat % 16 < 16 := by omega
    have n1 := upperDigit_ne_dash _ h1
    have n2 := upperDigit_ne_dash _ h2
    cases rest with
    | nil =>
      simp only [printPairs, List.filter_cons, List.filter_nil]
      simp only [bne_iff_ne, ne_eq, n1, n2, not_false_eq_true, if_true]
      exact .cons b [] _ _ [] (hexVal_upper _ h1) (hexVal_upper _ h2) .nil
    | cons b' rest' =>
      simp only [printPairs, List.filter_cons]
      simp only [bne_iff_ne, ne_eq, n1, n2, not_false_eq_true, if_true, not_true_eq_false, if_false]
      exact .cons b _ _ _ _ (hexVal_upper _ h1) (hexVal_upper _ h2) ih

/-- **C15**: `from_str(print(h))` gives back the bytes -/
theorem fromStr_print (bs : List UInt8) : fromStr (print bs) = some bs := by
  unfold fromStr print
  cases bs with
  | nil => simp [decodePairs]
  | cons b rest =>
    simp only [List.isEmpty_cons, Bool.false_eq_true, if_false]
    exact decodePairs_digits _ _ (filter_printPairs (b :: rest))

#print axioms parseData_spelled
#print axioms fromStr_print
end HD
