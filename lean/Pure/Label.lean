import Pure.Arith
/-! Feasibility probe for C17: the label parser and printer (repaired single-character rule), with the theorems
    of DESIGN.md §7 C17, and the as-found variant with its counter-example. -/
namespace Lb
open A

inductive Label where
  | greek (c : Char)
  | alpha (n : Nat)
  | str (a : List Char)          -- `[char; 8]`: always 8 characters, padded with blanks
deriving DecidableEq, Repr

def alphaSign : Char := 'α'

/-- `usize::from_str`: optional `+`, at least one ASCII digit, value below 2^64 -/
def parseUsize (t : List Char) : Option Nat :=
  let ds := match t with
    | '+' :: r => r
    | r => r
  match parseDec ds with
  | some n => if n < 2 ^ 64 then some n else none
  | none => none

def pad8 (s : List Char) : List Char := s ++ List.replicate (8 - s.length) ' '

/-- `Label::from_str`, with `single` deciding the one-character rule -/
def parseWith (single : List Char → Bool) (s : List Char) : Option Label :=
  if s.head? = some alphaSign then (parseUsize s.tail).map .alpha
  else if single s then s.head?.map .greek
  else if 8 < s.length then none
  else some (.str (pad8 s))

/-- repaired code: one *character* -/
def parse : List Char → Option Label := parseWith (fun s => s.length == 1)

/-- code as found: one *byte* -/
def utf8Len (s : List Char) : Nat := (s.map Char.utf8Size).sum
def parseAsFound : List Char → Option Label := parseWith (fun s => utf8Len s == 1)

def print : Label → List Char
  | .greek c => [c]
  | .alpha n => alphaSign :: printDec n
  | .str a => a.filter (fun c => c != ' ')

/-! ### lemmas -/

theorem digitChar_ne_plus (d : Nat) (h : d < 10) : digitChar d ≠ '+' := by
  intro he
  have h1 := digitVal_digitChar d h
  rw [he] at h1
  simp [digitVal] at h1

theorem parseUsize_printDec (n : Nat) (h : n < 2 ^ 64) : parseUsize (printDec n) = some n := by
  unfold parseUsize
  have hne : ∀ r, printDec n ≠ '+' :: r := by
    intro r he
    unfold printDec at he
    have hnn := digitsRev_ne_nil (n + 1) n (by omega)
    cases hr : (digitsRev (n + 1) n).reverse with
    | nil => simp at hr; exact hnn hr
    | cons d ds =>
      rw [hr] at he
      simp only [List.map_cons, List.cons.injEq] at he
      have hd : d < 10 := digitsRev_lt (n + 1) n d (by
        have : d ∈ (digitsRev (n + 1) n).reverse := by rw [hr]; simp
        simpa using this)
      exact digitChar_ne_plus d hd he.1
  have : (match printDec n with | '+' :: r => r | r => r) = printDec n := by
    split
    next r he => exact absurd he (hne r)
    · rfl
  simp only [this, parseDec_printDec, h, if_true]

theorem filter_pad8 (s : List Char) (hs : ∀ c ∈ s, c ≠ ' ') : (pad8 s).filter (fun c => c != ' ') = s := by
  unfold pad8
  rw [List.filter_append]
  have h1 : s.filter (fun c => c != ' ') = s := by
    rw [List.filter_eq_self]; intro c hc; simpa using hs c hc
  have h2 : (List.replicate (8 - s.length) ' ').filter (fun c => c != ' ') = [] := by
    rw [List.filter_eq_nil_iff]; intro c hc; simp [List.eq_of_mem_replicate hc]
  rw [h1, h2]; simp

/-! ### the theorems of C17 -/

/-- label → text → label, for canonical values -/
inductive CanonLabel : Label → Prop
  | greek (c : Char) (h1 : c ≠ ' ') (h2 : c ≠ alphaSign) : CanonLabel (.greek c)
  | alpha (n : Nat) (h : n < 2 ^ 64) : CanonLabel (.alpha n)
  | str (s : List Char) (h2 : 2 ≤ s.length) (h8 : s.length ≤ 8) (hs : ∀ c ∈ s, c ≠ ' ')
      (ha : s.head? ≠ some alphaSign) : CanonLabel (.str (pad8 s))

theorem parse_print_label (l : Label) (h : CanonLabel l) : parse (print l) = some l := by
  cases h with
  | greek c h1 h2 =>
    simp [parse, parseWith, print, h2]
  | alpha n hn =>
    simp [parse, parseWith, print, parseUsize_printDec n hn]
  | str s h2 h8 hs ha =>
    simp only [print, filter_pad8 s hs, parse, parseWith, ha, if_false]
    have h1 : (s.length == 1) = false := by simp; omega
    have h9 : ¬ 8 < s.length := by omega
    simp [h1, h9]

/-- text → label → text, for legal label texts of 1..8 characters -/
structure LegalText (t : List Char) : Prop where
  ne : 1 ≤ t.length
  le : t.length ≤ 8
  nosp : ∀ c ∈ t, c ≠ ' '
  alphaOk : t.head? = some alphaSign → ∃ ds, Canon ds ∧ valDigits ds < 2 ^ 64 ∧ t.tail = ds.map digitChar

theorem parseDec_digits (ds : List Nat) (hc : Canon ds) : parseDec (ds.map digitChar) = some (valDigits ds) := by
  unfold parseDec
  have : (ds.map digitChar).isEmpty = false := by
    cases ds with
    | nil => exact absurd rfl hc.1
    | cons _ _ => rfl
  rw [this]
  simp only [Bool.false_eq_true, if_false]
  rw [parseDecAux_digits ds hc.2.1]; rfl

theorem print_parse_text (t : List Char) (h : LegalText t) : ∃ l, parse t = some l ∧ print l = t := by
  by_cases ha : t.head? = some alphaSign
  · obtain ⟨ds, hc, hv, ht⟩ := h.alphaOk ha
    refine ⟨.alpha (valDigits ds), ?_, ?_⟩
    · simp only [parse, parseWith, ha, if_true, ht]
      have hnp : ∀ r, ds.map digitChar ≠ '+' :: r := by
        intro r he
        cases ds with
        | nil => exact absurd rfl hc.1
        | cons d ds' =>
          simp only [List.map_cons, List.cons.injEq] at he
          exact digitChar_ne_plus d (hc.2.1 d (by simp)) he.1
      have : (match ds.map digitChar with | '+' :: r => r | r => r) = ds.map digitChar := by
        split
        next r he => exact absurd he (hnp r)
        · rfl
      simp only [parseUsize, this, parseDec_digits ds hc, hv, if_true, Option.map_some]
    · simp only [print, printDec_valDigits ds hc, ← ht]
      cases t with
      | nil => simp at ha
      | cons c cs => simp at ha; simp [ha]
  · by_cases h1 : t.length = 1
    · cases t with
      | nil => simp at h1
      | cons c cs =>
        have : cs = [] := by simpa using h1
        subst this
        have hca : ¬ c = alphaSign := by simpa using ha
        exact ⟨.greek c, by simp [parse, parseWith, hca], rfl⟩
    · refine ⟨.str (pad8 t), ?_, by simp only [print]; exact filter_pad8 t h.nosp⟩
      have h1' : (t.length == 1) = false := by simp [h1]
      have h9 : ¬ 8 < t.length := by have := h.le; omega
      simp [parse, parseWith, ha, h1', h9]

/-- distinct legal texts give distinct labels -/
theorem parse_injective (t1 t2 : List Char) (h1 : LegalText t1) (h2 : LegalText t2) (he : parse t1 = parse t2) :
    t1 = t2 := by
  obtain ⟨l1, p1, q1⟩ := print_parse_text t1 h1
  obtain ⟨l2, p2, q2⟩ := print_parse_text t2 h2
  rw [p1, p2] at he
  cases he
  rw [← q1, ← q2]

/-- texts that do not start with the alpha sign and are longer than 8 characters are rejected -/
theorem too_long_err (t : List Char) (ha : t.head? ≠ some alphaSign) (h : 8 < t.length) : parse t = none := by
  have h1 : (t.length == 1) = false := by simp; omega
  simp [parse, parseWith, ha, h1, h]

/-- an alpha sign followed by anything the integer grammar rejects is rejected -/
theorem bad_index_err (r : List Char) (h : parseUsize r = none) : parse (alphaSign :: r) = none := by
  simp [parse, parseWith, h]

/-- the code as found violates `parse_print_label`: `Greek('ρ')` prints as "ρ", which parses to a different label -/
theorem asFound_counterexample : parseAsFound (print (.greek 'ρ')) ≠ some (.greek 'ρ') := by
  decide

#print axioms parse_print_label
#print axioms print_parse_text
#print axioms parse_injective
#print axioms asFound_counterexample
end Lb
