import Drv.Gen
/-! Generator for C14: abstract programs of ADD/BIND/PUT over literal ids and variables, valid against the
    reference, rendered with random legal formatting; the same program as direct calls on a second graph; and
    single-fault corruptions of the text. Also the reference run of a parsed script (used by the monitor). -/
namespace Drv
open Sodg S

abbrev ACmdC := ACmd Label Hex

/-- run parsed commands on the reference: state, outcome (`ok`/`err`), commands completed, all calls valid, and the
    concrete calls that were made (variables resolved; a `next_id` per new variable) -/
def refScript (n c : Nat) : List (Option ACmdC) → R → List (List Char × Nat) → Nat → Bool → List Op →
    R × String × Nat × Bool × List Op
  | [], r, _, k, v, acc => (r, "ok", k, v, acc)
  | none :: _, r, _, k, v, acc => (r, "err", k, v, acc)
  | some cmd :: rest, r, vars, k, v, acc =>
    let resolve (t : VTok) (r : R) (vars : List (List Char × Nat)) (acc : List Op) :
        Option (Nat × R × List (List Char × Nat) × List Op) :=
      match t with
      | .lit x => some (x, r, vars, acc)
      | .var name => match Ss.varLookup vars name with
        | some i => some (i, r, vars, acc)
        | none => match r.nextId c with
          | some (r', i) => some (i, r', (name, i) :: vars, acc ++ [.nextId])
          | none => none
    match cmd with
    | .add t => match resolve t r vars acc with
      | some (i, r, vars, acc) =>
        refScript n c rest (R.step c r (.add i)).1 vars (k + 1) (v && okStepB n c r (.add i)) (acc ++ [.add i])
      | none => (r, "panic", k, false, acc)
    | .bind t1 t2 l => match resolve t1 r vars acc with
      | some (i1, r, vars, acc) => match resolve t2 r vars acc with
        | some (i2, r, vars, acc) =>
          refScript n c rest (R.step c r (.bind i1 i2 l)).1 vars (k + 1) (v && okStepB n c r (.bind i1 i2 l)) (acc ++ [.bind i1 i2 l])
        | none => (r, "panic", k, false, acc)
      | none => (r, "panic", k, false, acc)
    | .put t d => match resolve t r vars acc with
      | some (i, r, vars, acc) =>
        refScript n c rest (R.step c r (.put i d)).1 vars (k + 1) (v && okStepB n c r (.put i d)) (acc ++ [.put i d])
      | none => (r, "panic", k, false, acc)

def wsPool : List Char := [' ', ' ', ' ', '\t', '\n', '\r', Char.ofNat 0xA0, Char.ofNat 0x2003, Char.ofNat 0x3000, Char.ofNat 0x85]

def genWs (rng : Rng) (maxLen : Nat) : Rng × List Char :=
  let (rng, k) := rng.below (maxLen + 1)
  (List.range k).foldl (fun (acc : Rng × List Char) _ => let (r, c) := acc.1.pick wsPool; (r, c :: acc.2)) (rng, [])

def genFiller (rng : Rng) : Rng × List Char :=
  let (rng, k) := rng.below 4
  if k = 0 then
    let (rng, a) := genWs rng 2
    let (rng, body) := rng.pick ["", " a comment", "ADD(9); PUT(1, ff)", " ; ) ( , # again"]
    let (rng, b) := genWs rng 2
    (rng, a ++ ['#'] ++ body.toList ++ ['\n'] ++ b)
  else genWs rng 3

def showVTok (rng : Rng) : VTok → Rng × List Char
  | .lit x =>
    let (rng, k) := rng.below 3
    (rng, (if k = 0 then ['ν'] else []) ++ (toString x).toList)
  | .var name => (rng, '$' :: name)

def showDataText (rng : Rng) (bs : List UInt8) : Rng × List Char :=
  bs.foldl (fun (acc : Rng × List Char) b =>
    let (r, k) := acc.1.below 6
    let (r, up) := r.below 2
    let dig (x : Nat) : Char := if x < 10 then Char.ofNat (48 + x) else if up = 0 then Char.ofNat (87 + x) else Char.ofNat (55 + x)
    let sep : List Char := if acc.2.isEmpty then [] else if k = 0 then ['-'] else if k = 1 then [' '] else if k = 2 then ['-', '\n', ' '] else []
    (r, acc.2 ++ sep ++ [dig (b.toNat / 16), dig (b.toNat % 16)])) (rng, [])

def padArg (rng : Rng) (t : List Char) : Rng × List Char :=
  let (rng, a) := genWs rng 2
  let (rng, b) := genWs rng 2
  (rng, a ++ t ++ b)

def renderCmdText (rng : Rng) (c : ACmdC) : Rng × List Char :=
  let (rng, sp) := rng.below 3
  let blanks := List.replicate sp ' '
  match c with
  | .add v =>
    let (rng, t) := showVTok rng v
    let (rng, a) := padArg rng t
    (rng, "ADD".toList ++ blanks ++ ['('] ++ a ++ [')'])
  | .bind v1 v2 l =>
    let (rng, t1) := showVTok rng v1
    let (rng, a1) := padArg rng t1
    let (rng, t2) := showVTok rng v2
    let (rng, a2) := padArg rng t2
    let (rng, a3) := padArg rng (Lb.print l)
    (rng, "BIND".toList ++ blanks ++ ['('] ++ a1 ++ [','] ++ a2 ++ [','] ++ a3 ++ [')'])
  | .put v d =>
    let (rng, t) := showVTok rng v
    let (rng, a1) := padArg rng t
    let (rng, dt) := showDataText rng d.toBytes
    let (rng, a2) := padArg rng dt
    (rng, "PUT".toList ++ blanks ++ ['('] ++ a1 ++ [','] ++ a2 ++ [')'])

def renderProgText (rng : Rng) (prog : List ACmdC) : Rng × List Char :=
  let (rng, body) := prog.foldl (fun (acc : Rng × List Char) c =>
    let (r, f) := genFiller acc.1
    let (r, t) := renderCmdText r c
    let (r, post) := genWs r 2
    (r, acc.2 ++ f ++ t ++ post ++ [';'])) (rng, [])
  let (rng, trail) := genFiller rng
  (rng, body ++ trail)

def scriptLabels (n : Nat) : List Label :=
  (List.range (n + 1)).map Lb.Label.alpha ++ ['x', 'ρ', 'σ', Char.ofNat 0x1D711].map .greek ++
    ["foo", "hello", "βγ", "abcdefgh", "a-b"].map (fun s => .str (Lb.pad8 s.toList)) ++
    -- labels that look like the other kinds of argument: a variable in use, an unknown variable, a vertex, a number
    [Lb.Label.greek '$'] ++ ["$a", "$b", "$zz", "ν1", "42"].map (fun s => .str (Lb.pad8 s.toList)) ++
    -- words of 2-8 characters that are longer than 8 bytes in UTF-8 (Cyrillic, CJK, 4-byte characters)
    ["привет", "тест", "жизнь12", "日本語", "数据结构算法", "𝜑𝜑𝜑", "ÀÉÎÕÜàéî"].map (fun s => .str (Lb.pad8 s.toList))

-- among the names: ones that are all digits (`$3` beside the literals `3` and `ν3`), one that is `ν` alone, the empty one
def varNames : List (List Char) := ["a", "b", "x1", "ν", "v_2", "Δ", "", "1", "3", "05"].map String.toList

structure SG where
  rng : Rng
  n : Nat
  cap : Nat
  r : R := Sodg.R.empty
  vars : List (List Char × Nat) := []
  prog : List ACmdC := []
  direct : Array String := #[]

/-- a vertex reference: a literal or a variable; returns the token, the id it resolves to, and the state after
    (a new variable takes `next_id`) -/
def SG.pickRef (s : SG) (aliveBias : Nat) : SG × Option (VTok × Nat × Bool) :=
  let (rng, k) := s.rng.below 10
  let s := { s with rng := rng }
  if k < 6 then
    let (rng, v) := pickId s.rng s.r s.cap aliveBias
    ({ s with rng := rng }, some (.lit v, v, false))
  else
    let (rng, name) := s.rng.pick varNames
    let s := { s with rng := rng }
    match Ss.varLookup s.vars name with
    | some i => (s, some (.var name, i, false))
    | none => match s.r.nextId s.cap with
      | some (r', i) => ({ s with r := r', vars := (name, i) :: s.vars }, some (.var name, i, true))
      | none => (s, none)

def SG.step (s : SG) : SG :=
  let (rng, kind) := s.rng.below 10
  let s0 := { s with rng := rng }
  let try1 (s1 : SG) (cmd : ACmdC) (op : Op) (newVars : Nat) : SG :=
    if okStepB s1.n s1.cap s1.r op then
      { s1 with r := (R.step s1.cap s1.r op).1, prog := s1.prog ++ [cmd],
                direct := (s1.direct ++ Array.replicate newVars "nextid g1").push (opLine "g1" op) }
    else { s with rng := s1.rng }   -- rejected: the state (incl. variables) is rolled back, the PRNG moves on
  if kind < 4 then
    match s0.pickRef 40 with
    | (s1, some (t, i, fresh)) => try1 s1 (.add t) (.add i) (if fresh then 1 else 0)
    | (s1, _) => { s with rng := s1.rng }
  else if kind < 8 then
    match s0.pickRef 95 with
    | (s1, some (t1, i1, f1)) =>
      match s1.pickRef 95 with
      | (s2, some (t2, i2, f2)) =>
        let (rng, l) := s2.rng.pick (scriptLabels s2.n)
        try1 { s2 with rng := rng } (.bind t1 t2 l) (.bind i1 i2 l) ((if f1 then 1 else 0) + (if f2 then 1 else 0))
      | (s2, _) => { s with rng := s2.rng }
    | (s1, _) => { s with rng := s1.rng }
  else
    match s0.pickRef 95 with
    | (s1, some (t, i, fresh)) =>
      let (rng, bs) := genBytes s1.rng
      let bs := if bs.isEmpty then [0x2A] else bs
      let d := Hx.Hex.ofBytes bs
      try1 { s1 with rng := rng } (.put t d) (.put i d) (if fresh then 1 else 0)
    | (s1, _) => { s with rng := s1.rng }

/-- one character deleted, inserted or replaced -/
def corrupt (rng : Rng) (text : List Char) : Rng × List Char :=
  let (rng, pos) := rng.below (text.length + 1)
  let (rng, kind) := rng.below 3
  let (rng, c) := rng.pick ['(', ')', ',', ';', '#', '$', 'ν', 'α', 'x', '9', ' ', '\n', 'A', 'g', '-', '+']
  if kind = 0 then (rng, text.take pos ++ text.drop (pos + 1))
  else if kind = 1 then (rng, text.take pos ++ [c] ++ text.drop pos)
  else (rng, text.take pos ++ [c] ++ text.drop (pos + 1))

def genScript (rng : Rng) (len : Nat) (faulty : Bool) : Rng × Array String :=
  let (rng, n) := rng.pick [2, 3, 4, 16]
  let (rng, cap) := rng.pick [4, 6, 9, 14, 24]
  let s : SG := { rng, n, cap }
  -- some scripts start from a non-empty graph: the prefix is deployed by direct calls on both graphs
  let s := (List.range len).foldl (fun s _ => s.step) s
  let (rng, text) := renderProgText s.rng s.prog
  let head : Array String := #["reset", s!"new g0 {n} {cap}", s!"new g1 {n} {cap}"]
  if faulty then
    let (rng, text') := corrupt rng text
    -- after the script, failed or not: every vertex it left behind is read (collections), then the allocator is asked — an id a
    -- variable of the script took must not come back, whether the script got to its end or not (C05)
    let st := (Ss.deploy text' (Sodg.empty n cap : G)).1
    let reads := (Sodg.keys st.g).toArray.map (fun v => s!"data g0 {v}")
    (rng, head ++ #[s!"script g0 {showTextTok text'}", "observe g0"] ++ reads ++
      #["observe g0", "nextid g0", "nextid g0", "nextid g0", "observe g0"])
  else
    let lines := head ++ #[s!"script g0 {showTextTok text}"] ++ s.direct ++ #["observe g0", "observe g1", "same g0 g1"]
    -- drain both graphs
    let ids := R.keys s.r cap
    let (_, lines) := ids.foldl (fun (acc : R × Array String) v =>
      if v ∈ acc.1.ids then ((R.step cap acc.1 (.data v)).1, (acc.2.push s!"data g0 {v}").push s!"data g1 {v}") else acc) (s.r, lines)
    (rng, lines ++ #["observe g0", "observe g1", "same g0 g1"])

end Drv
