import Drv.Basic
/-! Structural parsers of the text exports: they read a text (the implementation's or the model's) back into
    records, so that correspondence and monitors compare *structure* (ids, edge entries, data) and a changed header,
    indentation or comment does not count as a difference. -/
namespace Drv

def hexValP (c : Char) : Nat :=
  let n := c.toNat
  if 48 ≤ n ∧ n ≤ 57 then n - 48 else if 65 ≤ n ∧ n ≤ 70 then n - 55 else if 97 ≤ n ∧ n ≤ 102 then n - 87 else 0

/-- inverse of `esc` -/
def unescChars : List Char → List Char
  | '%' :: a :: b :: r => Char.ofNat (hexValP a * 16 + hexValP b) :: unescChars r
  | c :: r => c :: unescChars r
  | [] => []

def unesc (s : String) : String := String.ofList (unescChars s.toList)

structure PNode where
  id : Nat
  edges : List (String × Nat) := []     -- label text, target, in order of appearance
  data : Option String := none          -- data text as printed, blanks and dashes removed
deriving Repr, BEq

def trimWs (s : String) : String :=
  String.ofList ((s.toList.dropWhile (fun c => c = ' ' ∨ c = '\t')).reverse.dropWhile (fun c => c = ' ' ∨ c = '\t' ∨ c = '\r')).reverse

def squeeze (s : String) : String := String.ofList (s.toList.filter (fun c => c ≠ ' ' ∧ c ≠ '-'))

def natPrefix (cs : List Char) : Option Nat :=
  let ds := cs.takeWhile Char.isDigit
  if ds.isEmpty then none else (String.ofList ds).toNat?

def between (s a b : String) : Option String :=
  match s.splitOn a with
  | _ :: rest :: _ => match rest.splitOn b with
    | x :: _ => some x
    | [] => none
  | _ => none

/-- close the node under construction -/
def pushNode (acc : List PNode) (cur : Option PNode) : List PNode :=
  match cur with
  | some n => acc ++ [{ n with edges := n.edges }]
  | none => acc

def parseXml (text : String) : Option (List PNode) := Id.run do
  let mut acc : List PNode := []
  let mut cur : Option PNode := none
  for raw in text.splitOn "\n" do
    let l := trimWs raw
    if l.startsWith "<v " then
      match (l.splitOn "\"") with
      | _ :: idt :: rest =>
        match idt.toNat? with
        | some i =>
          acc := pushNode acc cur
          cur := none
          if (rest.getLastD "").endsWith "/>" then acc := acc ++ [{ id := i }] else cur := some { id := i }
        | none => return none
      | _ => return none
    else if l.startsWith "<e " then
      match l.splitOn "\"", cur with
      | _ :: a :: _ :: t :: _, some n =>
        match t.toNat? with
        | some t => cur := some { n with edges := n.edges ++ [(a, t)] }
        | none => return none
      | _, _ => return none
    else if l.startsWith "<data>" then
      match between l "<data>" "</data>", cur with
      | some d, some n => cur := some { n with data := some (squeeze d) }
      | _, _ => return none
    else if l.startsWith "</v>" then
      acc := pushNode acc cur
      cur := none
  return some (pushNode acc cur)

def parseDot (text : String) : Option (List PNode) := Id.run do
  let mut acc : List PNode := []
  for raw in text.splitOn "\n" do
    let l := trimWs raw
    if l.startsWith "v" then
      if (l.splitOn " -> ").length = 2 then
        -- edge: vI -> vT [label="L"…];
        match l.splitOn " -> " with
        | [a, b] =>
          match natPrefix (a.toList.drop 1), natPrefix (b.toList.drop 1), b.splitOn "\"" with
          | some i, some t, _ :: lab :: _ =>
            acc := acc.map (fun n => if n.id = i then { n with edges := n.edges ++ [(lab, t)] } else n)
            if ¬ acc.any (fun n => n.id = i) then return none
          | _, _, _ => return none
        | _ => return none
      else if (l.splitOn "[shape=").length = 2 then
        match natPrefix (l.toList.drop 1) with
        | some i =>
          let d := (between l "/* " " */").map squeeze
          acc := acc ++ [{ id := i, data := d }]
        | none => return none
  return some acc

/-- `Debug`/`Display`: the vertex records and, separately, the `b…` lines (which expose slot numbers) -/
def parseDebug (text : String) : Option (List PNode × List String) := Id.run do
  let mut acc : List PNode := []
  let mut cur : Option PNode := none
  let mut bs : List String := []
  -- an item is an edge `L ➞ νT` or the data text; items are separated by ", " and the record ends with "⟧"
  let addItems (n : PNode) (s : String) : Option PNode := Id.run do
    let mut n := n
    for it in (s.splitOn ", ") do
      let it := trimWs it
      if it = "" then continue
      match it.splitOn " ➞ ν" with
      | [a, t] =>
        match t.toNat? with
        | some t => n := { n with edges := n.edges ++ [(a, t)] }
        | none => return none
      | _ => n := { n with data := some (squeeze it) }
    return some n
  for raw in text.splitOn "\n" do
    if raw.startsWith "ν" ∧ (raw.splitOn " -> ⟦").length = 2 then
      acc := pushNode acc cur
      match raw.splitOn " -> ⟦" with
      | [a, rest] =>
        match natPrefix (a.toList.drop 1) with
        | some i =>
          let closed := rest.endsWith "⟧"
          let body := if closed then (rest.dropEnd 1).toString else rest
          match addItems { id := i } body with
          | some n => if closed then acc := acc ++ [n]; cur := none else cur := some n
          | none => return none
        | none => return none
      | _ => return none
    else if raw.startsWith "\t" then
      match cur with
      | some n =>
        let closed := raw.endsWith "⟧"
        let body := if closed then (raw.dropEnd 1).toString else raw
        match addItems n body with
        | some n => if closed then acc := acc ++ [n]; cur := none else cur := some n
        | none => return none
      | none => return none
    else if raw.startsWith "b" then bs := bs ++ [raw]
    else if trimWs raw = "" then continue
    else return none
  return some (pushNode acc cur, bs)

/-- `v_print`: id, data marker, labels -/
def parseVPrint (text : String) : Option (Nat × Bool × List String) :=
  match text.splitOn "⟦" with
  | [a, rest] =>
    match natPrefix (a.toList.drop 1) with
    | some v =>
      let body := if rest.endsWith "⟧" then (rest.dropEnd 1).toString else rest
      let items := (body.splitOn ", ").map trimWs |>.filter (· ≠ "")
      some (v, items.head? = some "Δ", items.filter (· ≠ "Δ"))
    | none => none
  | _ => none

structure ILine where
  depth : Nat
  label : String
  target : Nat
  ellipsis : Bool
deriving Repr, BEq

/-- `inspect`: the start vertex and the edge lines -/
def parseInspect (text : String) : Option (Nat × List ILine) := Id.run do
  match text.splitOn "\n" with
  | [] => return none
  | first :: rest =>
    match natPrefix (first.toList.drop 1) with
    | none => return none
    | some v =>
      let mut ls : List ILine := []
      for raw in rest do
        if trimWs raw = "" then continue
        let sp := (raw.toList.takeWhile (· = ' ')).length
        let body := String.ofList (raw.toList.drop sp)
        if ¬ body.startsWith "." ∨ sp < 2 then return none
        match ((body.drop 1).toString).splitOn " ➞ ν" with
        | [a, t] =>
          let ell := t.endsWith "…"
          match natPrefix t.toList with
          | some t => ls := ls ++ [⟨sp / 2 - 1, a, t, ell⟩]
          | none => return none
        | _ => return none
      return some (v, ls)

def showPNodes (ns : List PNode) : String :=
  " ".intercalate (ns.map (fun n =>
    s!"{n.id}[" ++ ",".intercalate (n.edges.map (fun e => e.1 ++ ">" ++ toString e.2)) ++ "]" ++
      (match n.data with
       | some d => "!" ++ d
       | none => "")))

def showILines (ls : List ILine) : String :=
  " ".intercalate (ls.map (fun l => s!"{l.depth}:{l.label}>{l.target}" ++ (if l.ellipsis then "…" else "")))

/-- the structural reading of an observation line of a render call (`S …`), or the line itself -/
def structLine (opLine obsLine : String) : String :=
  match words opLine, words obsLine with
  | cmd :: _, ["ok", t] =>
    let text := unesc t
    if cmd = "xml" then match parseXml text with
      | some ns => "S xml " ++ showPNodes ns
      | none => "S xml unparsable"
    else if cmd = "dot" then match parseDot text with
      | some ns => "S dot " ++ showPNodes ns
      | none => "S dot unparsable"
    else if cmd = "debug" ∨ cmd = "display" then match parseDebug text with
      | some (ns, _) => "S debug " ++ showPNodes ns
      | none => "S debug unparsable"
    else if cmd = "vprint" then match parseVPrint text with
      | some (v, m, ls) => s!"S vprint {v} {m} {ls}"
      | none => "S vprint unparsable"
    else if cmd = "inspect" then match parseInspect text with
      | some (v, ls) => s!"S inspect {v} " ++ showILines ls
      | none => "S inspect unparsable"
    else obsLine
  | _, _ => obsLine

end Drv
