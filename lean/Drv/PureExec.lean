import Drv.Basic
import Codec.Utf8All
/-! The pure sub-protocols (no graph handle): `hex …` (C15, C16) and `label …` (C17). Every hex line shows the
    result of the accessor under test and, after ` ; `, the answer of the byte-slice oracle computed from the bytes
    the token was built from. -/
namespace Drv

/-- text token: `T:<cp>.<cp>…` (`T:` is the empty text) -/
def parseTextTok (s : String) : Option (List Char) :=
  match s.toList with
  | 'T' :: ':' :: r =>
    if r.isEmpty then some []
    else ((String.ofList r).splitOn ".").mapM (fun (x : String) => x.toNat?.map Char.ofNat)
  | _ => none

def showTextTok (cs : List Char) : String := "T:" ++ ".".intercalate (cs.map (fun c => toString c.toNat))

def showOptBytes : Option (List UInt8) → String
  | none => "panic"
  | some bs => "ok " ++ showBytes bs

def showOptByte : Option UInt8 → String
  | none => "panic"
  | some b => "ok " ++ toString b.toNat

def parseNat (s : String) : Option Nat := s.toNat?

def showOptBool : Option Bool → String
  | none => "panic"
  | some b => toString b

structure PureCfg where
  concatRepaired : Bool := false

def concatOf (cfg : PureCfg) (a b : Hex) : Hex := if cfg.concatRepaired then a.concatRepaired b else a.concatAsFound b

open Hx in
def execHex (cfg : PureCfg) : List String → String
  | ["view", h] =>
    match parseHexTok h with
    | some x => s!"ok {x.len} {String.ofList (HD.print x.toBytes)} {showBytes x.toBytes} ; {x.toBytes.length} {showBytes x.toBytes}"
    | none => "bad-op"
  | ["fmt", h] =>
    -- `Display` and `Debug` of a Hex are its `print()`
    match parseHexTok h with
    | some _ => "ok true true ; ok true true"
    | none => "bad-op"
  | ["empty"] =>
    -- `Hex::empty()`
    let x : Hex := default
    s!"ok {x.len} {String.ofList (HD.print x.toBytes)} {showBytes x.toBytes} {x.len == 0} {decide (x.toBytes = (Hex.ofBytes []).toBytes)} ; ok 0 -- x true true"
  | ["index", h, i] =>
    match parseHexTok h, parseNat i with
    | some x, some i => showOptByte (x.index i) ++ " ; " ++ showOptByte (x.toBytes[i]?)
    | _, _ => "bad-op"
  | ["indexmut", h, i] =>
    -- `IndexMut`: in range exactly when `Index` is; the written byte lands at position `i` of the byte string
    match parseHexTok h, parseNat i with
    | some x, some i =>
      let r := (x.index i).map (fun _ => x.toBytes.set i 0xEE)
      showOptBytes r ++ " ; " ++ showOptBytes ((x.toBytes[i]?).map (fun _ => x.toBytes.set i 0xEE))
    | _, _ => "bad-op"
  | ["byteat", h, i] =>
    match parseHexTok h, parseNat i with
    | some x, some i => showOptByte (x.byteAt i) ++ " ; " ++ showOptByte (x.toBytes[i]?)
    | _, _ => "bad-op"
  | ["range", h, s, e] =>
    match parseHexTok h, parseNat s, parseNat e with
    | some x, some s, some e => showOptBytes (x.range s e) ++ " ; " ++ showOptBytes (sliceRange x.toBytes s e)
    | _, _, _ => "bad-op"
  | ["rangeincl", h, s, e] =>
    match parseHexTok h, parseNat s, parseNat e with
    | some x, some s, some e => showOptBytes (x.rangeIncl s e) ++ " ; " ++ showOptBytes (sliceIncl x.toBytes s e)
    | _, _, _ => "bad-op"
  | ["rangeinclx", h, s, e] =>
    -- the same inclusive range after it was iterated to its end (flag `exhausted`); an empty range cannot be exhausted
    match parseHexTok h, parseNat s, parseNat e with
    | some x, some s, some e =>
      if s ≤ e then showOptBytes (x.rangeInclX e) ++ " ; " ++ showOptBytes (sliceInclX x.toBytes e)
      else showOptBytes (x.rangeIncl s e) ++ " ; " ++ showOptBytes (sliceIncl x.toBytes s e)
    | _, _, _ => "bad-op"
  | ["rangefrom", h, s] =>
    match parseHexTok h, parseNat s with
    | some x, some s => showOptBytes (x.rangeFrom s) ++ " ; " ++ showOptBytes (sliceRange x.toBytes s x.toBytes.length)
    | _, _ => "bad-op"
  | ["rangeto", h, e] =>
    match parseHexTok h, parseNat e with
    | some x, some e => showOptBytes (x.rangeTo e) ++ " ; " ++ showOptBytes (sliceRange x.toBytes 0 e)
    | _, _ => "bad-op"
  | ["rangetoincl", h, e] =>
    match parseHexTok h, parseNat e with
    | some x, some e => showOptBytes (x.rangeToIncl e) ++ " ; " ++ showOptBytes (sliceIncl x.toBytes 0 e)
    | _, _ => "bad-op"
  | ["rangefull", h] =>
    match parseHexTok h with
    | some x => showOptBytes x.rangeFull ++ " ; " ++ showOptBytes (some x.toBytes)
    | none => "bad-op"
  | ["tail", h, k] =>
    match parseHexTok h, parseNat k with
    | some x, some k =>
      showOptBytes ((x.tail k).map Hex.toBytes) ++ " ; " ++ showOptBytes (sliceRange x.toBytes k x.toBytes.length)
    | _, _ => "bad-op"
  | ["eq", a, b] =>
    match parseHexTok a, parseHexTok b with
    | some x, some y => s!"ok {decide (x.toBytes = y.toBytes)} ; ok {decide (x.toBytes = y.toBytes)}"
    | _, _ => "bad-op"
  | ["roundtrip", h] =>
    match parseHexTok h with
    | some x =>
      (match HD.fromStr (HD.print x.toBytes) with
        | some bs => "ok " ++ showBytes bs
        | none => "err") ++ " ; ok " ++ showBytes x.toBytes
    | none => "bad-op"
  | ["fromstr", t] =>
    match parseTextTok t with
    | some cs => match HD.fromStr cs with
      | some bs => "ok " ++ showBytes bs
      | none => "err"
    | none => "bad-op"
  | ["tobits", h] =>
    -- `to_i64` and `to_f64` (as bit patterns): both are the eight big-endian bytes, or an error
    match parseHexTok h with
    | some x =>
      let r := match HI.toBits x.toBytes with
        | some n => s!"ok {n} {n}"
        | none => "err err"
      r ++ " ; " ++ r
    | none => "bad-op"
  | ["ofbits", n] =>
    -- `From<i64>` and `From<f64>` of the pattern, then the conversion back
    match parseNat n with
    | some n =>
      if n < 2 ^ 64 then
        let bs := HI.ofBits n
        let back := match HI.toBits bs with
          | some m => toString m
          | none => "err"
        s!"ok {showBytes bs} {back} {showBytes bs} {back} ; ok {showBytes bs} {n} {showBytes bs} {n}"
      else "bad-op"
    | none => "bad-op"
  | ["ofint", w, n] =>
    -- `From<i8>` / `From<i16>` / `From<i32>` (and `From<f32>` at four bytes) of the pattern
    match parseNat w, parseNat n with
    | some w, some n =>
      if (w = 1 ∨ w = 2 ∨ w = 4) ∧ n < 256 ^ w then
        let b := showBytes (HI.ofBitsW w n)
        let f := if w = 4 then b else "-"
        s!"ok {b} {f} ; ok {b} {f}"
      else "bad-op"
    | _, _ => "bad-op"
  | ["ofbool", b] =>
    if b = "1" ∨ b = "0" then
      let bs := HI.ofBool (b = "1")
      let r := s!"ok {showBytes bs} {showOptBool (HI.toBool bs)}"
      r ++ " ; " ++ s!"ok {showBytes bs} {showOptBool (some (decide (b = "1")))}"
    else "bad-op"
  | ["bool", h] =>
    -- `to_bool` (panics on the empty byte string) and `is_empty`
    match parseHexTok h with
    | some x =>
      s!"{showOptBool (HI.toBool x.toBytes)} {x.len == 0} ; {showOptBool (x.toBytes[0]?.map (· == 1))} {x.toBytes.isEmpty}"
    | none => "bad-op"
  | ["utf8", h] =>
    -- `to_utf8`: the text, or `Err` when the bytes are not UTF-8
    match parseHexTok h with
    | some x =>
      let r := match U8.decAll x.toBytes with
        | some cs => "ok " ++ showTextTok cs
        | none => "err"
      r ++ " ; " ++ r
    | none => "bad-op"
  | ["ofstr", t] =>
    -- `from_str_bytes`, then `to_utf8` of the result
    match parseTextTok t with
    | some cs =>
      let bs := U8.encAll cs
      let back := match U8.decAll bs with
        | some cs' => showTextTok cs'
        | none => "err"
      s!"ok {showBytes bs} {back} ; ok {showBytes bs} {showTextTok cs}"
    | none => "bad-op"
  | ["concat", a, b] =>
    match parseHexTok a, parseHexTok b with
    | some x, some y =>
      "ok " ++ showBytes (concatOf cfg x y).toBytes ++ " same same ; ok " ++ showBytes (x.toBytes ++ y.toBytes) ++ " same same"
    | _, _ => "bad-op"
  | _ => "bad-op"

def execLabel : List String → String
  | ["parse", t] =>
    match parseTextTok t with
    | some cs => match Lb.parse cs with
      | some l => s!"ok {showLabelTok l} {showTextTok (Lb.print l)}"
      | none => "err"
    | none => "bad-op"
  | ["print", l] =>
    match parseLabelTok l with
    | some l =>
      let t := Lb.print l
      "ok " ++ showTextTok t ++ " " ++ (match Lb.parse t with
        | some l' => showLabelTok l'
        | none => "err")
    | none => "bad-op"
  | ["kid", t, l] =>
    -- bind under the parsed name, look up under the constructed one
    match parseTextTok t, parseLabelTok l with
    | some cs, some l => match Lb.parse cs with
      | some p => if p = l then "ok 1" else "ok none"
      | none => "err"
    | _, _ => "bad-op"
  | _ => "bad-op"

end Drv
