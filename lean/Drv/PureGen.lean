import Drv.PureExec
/-! Generators for the pure sub-protocols: exhaustive small scopes plus seeded random cases. -/
namespace Drv

def maxU : Nat := 2 ^ 64 - 1

def patBytes (len salt : Nat) : List UInt8 := (List.range len).map (fun i => UInt8.ofNat ((i + 1) * 17 + salt * 5 + 1))

/-- the representations of one byte string: `from_vec`, heap, and for short ones inline with three paddings -/
def repsOf (bs : List UInt8) : List String :=
  let base := ["x" ++ hexOfBytes bs, "V:" ++ hexOfBytes bs]
  if bs.length ≤ 8 then
    let pad (p : Nat → UInt8) := bs ++ (List.range (8 - bs.length)).map p
    base ++ [s!"B:{hexOfBytes (pad (fun _ => 0))}:{bs.length}", s!"B:{hexOfBytes (pad (fun _ => 0xFF))}:{bs.length}",
             s!"B:{hexOfBytes (pad (fun i => UInt8.ofNat (0xA0 + i)))}:{bs.length}"]
  else base

/-- byte strings of one length: a counting pattern, all zeros, all 0xFF, zeros with a last non-zero byte -/
def specialBytes (len salt : Nat) : List (List UInt8) :=
  [patBytes len salt, List.replicate len 0, List.replicate len 0xFF] ++
    (if len ≥ 2 then [List.replicate (len - 1) 0 ++ [7]] else [])

def genHex15 (seed : Nat) (maxLen : Nat) (randomCases : Nat) : Array String := Id.run do
  let mut out : Array String := #["reset"]
  let mut rng : Rng := ⟨UInt64.ofNat (seed * 7919 + 15)⟩
  let mut allReps : Array String := #[]
  for len in [0:maxLen + 1] do
    let (r', salt) := rng.below 40
    rng := r'
    for bs in specialBytes len salt do
     for h in repsOf bs do
      allReps := allReps.push h
      out := out.push s!"hex view {h}"
      out := out.push s!"hex rangefull {h}"
      out := out.push s!"hex roundtrip {h}"
      out := out.push s!"hex tobits {h}"
      out := out.push s!"hex fmt {h}"
      out := out.push s!"hex bool {h}"
      out := out.push s!"hex utf8 {h}"
      let idx := (List.range (len + 3)) ++ [maxU, maxU - 1]
      for i in idx do
        out := out.push s!"hex index {h} {i}"
        out := out.push s!"hex byteat {h} {i}"
        out := out.push s!"hex indexmut {h} {i}"
        out := out.push s!"hex rangefrom {h} {i}"
        out := out.push s!"hex rangeto {h} {i}"
        out := out.push s!"hex rangetoincl {h} {i}"
        out := out.push s!"hex tail {h} {i}"
      for s in idx do
        for e in idx do
          out := out.push s!"hex range {h} {s} {e}"
          out := out.push s!"hex rangeincl {h} {s} {e}"
          if s ≤ e then out := out.push s!"hex rangeinclx {h} {s} {e}"
  -- equality over all pairs of a subset of the representations
  let sub := allReps.toList.filter (fun h => h.length < 24)
  for a in sub do
    for b in sub do
      out := out.push s!"hex eq {a} {b}"
  -- conversions: boundary and random 64-bit patterns (NaNs, -0.0, subnormals are just patterns here)
  let special : List Nat := [0, 1, 255, 256, 2 ^ 31, 2 ^ 32 - 1, 2 ^ 63 - 1, 2 ^ 63, 2 ^ 64 - 1, 0x7FF0000000000000, 0x7FF8000000000001,
    0xFFF0000000000000, 0x8000000000000000, 0x0000000000000001, 0x000FFFFFFFFFFFFF, 0x3FF0000000000000, 0x7FF0000000000001]
  for n in special do
    out := out.push s!"hex ofbits {n}"
  for _ in [0:randomCases] do
    let (r', x) := rng.next
    rng := r'
    out := out.push s!"hex ofbits {x.toNat}"
    let (r', len) := rng.below 14
    rng := r'
    let (r', bs) := (List.range len).foldl (fun (acc : Rng × List UInt8) _ =>
      let (r, b) := acc.1.below 256; (r, UInt8.ofNat b :: acc.2)) (r', [])
    rng := r'
    for h in repsOf bs do
      out := out.push s!"hex roundtrip {h}"
      out := out.push s!"hex tobits {h}"
      out := out.push s!"hex view {h}"
  -- the narrower conversions: From<i8/i16/i32/f32>, From<bool>
  for w in [1, 2, 4] do
    let top := 256 ^ w
    for n in [0, 1, 2, 127, 128, 255, 256, 32767, 32768, 65535, 65536, 0x7F800000, 0x7FC00001, 0x7F800001, 0xFF800000, 0x80000000, 0x3F800000, 2 ^ 31 - 1, 2 ^ 32 - 1] do
      if n < top then out := out.push s!"hex ofint {w} {n}"
    for _ in [0:randomCases / 4 + 4] do
      let (r', x) := rng.below top
      rng := r'
      out := out.push s!"hex ofint {w} {x}"
  out := out.push "hex empty"
  out := out.push "hex ofbool 0"
  out := out.push "hex ofbool 1"
  -- text: from_str_bytes / to_utf8. Boundary code points of every encoded width, then byte strings that are
  -- almost UTF-8 (overlong forms, surrogates, beyond U+10FFFF, truncated and stray continuation bytes)
  let cps : List Nat := [0, 1, 0x41, 0x7F, 0x80, 0x3B1, 0x7FF, 0x800, 0xD7FF, 0xE000, 0xFFFD, 0xFFFF, 0x10000, 0x1D711, 0x10FFFF]
  for a in cps do
    out := out.push s!"hex ofstr {showTextTok [Char.ofNat a]}"
    for b in [0x41, 0x3B1, 0x20AC, 0x1F600] do
      out := out.push s!"hex ofstr {showTextTok [Char.ofNat a, Char.ofNat b]}"
      out := out.push s!"hex ofstr {showTextTok [Char.ofNat b, Char.ofNat a, Char.ofNat b]}"
  out := out.push "hex ofstr T:"
  let almost : List (List UInt8) := [[0xC0, 0x80], [0xC1, 0xBF], [0xC2], [0xC2, 0x41], [0xC2, 0x80], [0xDF, 0xBF], [0xE0, 0x80, 0x80], [0xE0, 0x9F, 0xBF],
    [0xE0, 0xA0, 0x80], [0xE0, 0xA0], [0xED, 0x9F, 0xBF], [0xED, 0xA0, 0x80], [0xED, 0xBF, 0xBF], [0xEE, 0x80, 0x80], [0xEF, 0xBF, 0xBF],
    [0xF0, 0x80, 0x80, 0x80], [0xF0, 0x8F, 0xBF, 0xBF], [0xF0, 0x90, 0x80, 0x80], [0xF0, 0x90, 0x80], [0xF4, 0x8F, 0xBF, 0xBF], [0xF4, 0x90, 0x80, 0x80],
    [0xF5, 0x80, 0x80, 0x80], [0xF8, 0x88, 0x80, 0x80, 0x80], [0xFF], [0xFE], [0x80], [0xBF], [0x41, 0x80], [0x41, 0xC3], [0xC3, 0xA9, 0x80],
    [0x41, 0xE2, 0x82, 0xAC, 0x42], [0x41, 0xE2, 0x82], [0xE2, 0x28, 0xA1], [0xE2, 0x82, 0x28], [0xF0, 0x9F, 0x98, 0x80, 0xF0, 0x9F, 0x98], [0xF0, 0x28, 0x8C, 0xBC],
    [0xF0, 0x90, 0x28, 0xBC], [0xF0, 0x28, 0x8C, 0x28], [0xC3, 0xA9, 0xC3, 0xA9, 0xC3, 0xA9, 0xC3, 0xA9], [0xC3, 0xA9, 0xC3, 0xA9, 0xC3, 0xA9, 0xC3, 0xA9, 0xC3]]
  for bs in almost do
    for h in repsOf bs do
      out := out.push s!"hex utf8 {h}"
  -- random texts over a mixed alphabet, and their bytes with one byte damaged
  let alpha : List Nat := [0x41, 0x7A, 0x20, 0xE9, 0x3B1, 0x7FF, 0x800, 0x20AC, 0xFFFD, 0x10000, 0x1F600, 0x10FFFF]
  for _ in [0:randomCases] do
    let (r', len) := rng.below 6
    rng := r'
    let (r', cs) := (List.range len).foldl (fun (acc : Rng × List Char) _ =>
      let (r, a) := acc.1.pick alpha; (r, Char.ofNat a :: acc.2)) (r', [])
    rng := r'
    out := out.push s!"hex ofstr {showTextTok cs}"
    let bs := U8.encAll cs
    for h in repsOf bs do
      out := out.push s!"hex utf8 {h}"
    if bs ≠ [] then
      let (r', i) := rng.below bs.length
      let (r', v) := r'.below 256
      rng := r'
      for h in repsOf (bs.set i (UInt8.ofNat v)) do
        out := out.push s!"hex utf8 {h}"
  -- malformed texts for from_str
  for t in ["0", "0g", "zz", "0-1", "-", "--", "AB-cd", "ab cd", "é", "0é", "01-02-", "-01"] do
    out := out.push s!"hex fromstr {showTextTok t.toList}"
  return out

def genConcat16 (seed : Nat) (maxLen : Nat) : Array String := Id.run do
  let mut out : Array String := #["reset"]
  let mut rng : Rng := ⟨UInt64.ofNat (seed * 7919 + 16)⟩
  for la in [0:maxLen + 1] do
    for lb in [0:maxLen + 1] do
      let (r', sa) := rng.below 40
      let (r', sb) := r'.below 40
      rng := r'
      for a in repsOf (patBytes la sa) do
        for b in repsOf (patBytes lb (sb + 1)) do
          out := out.push s!"hex concat {a} {b}"
      -- content classes: first byte below / at or above 0x80 on either side (sign bits of word-wise arithmetic), and
      -- random bytes; every combination of the representations again
      let (r', lo1) := rng.below 22
      let (r', lo2) := r'.below 22
      let (r', hi1) := r'.below 19
      let (r', hi2) := r'.below 19
      let mut r2 := r'
      let mut ra : List UInt8 := []
      let mut rb : List UInt8 := []
      for _ in [0:la] do
        let (r3, x) := r2.below 256
        r2 := r3
        ra := ra ++ [UInt8.ofNat x]
      for _ in [0:lb] do
        let (r3, x) := r2.below 256
        r2 := r3
        rb := rb ++ [UInt8.ofNat x]
      rng := r2
      for (ca, cb) in [(patBytes la lo1, patBytes lb (hi2 + 22)), (patBytes la (hi1 + 22), patBytes lb lo2),
                       (patBytes la (hi1 + 22), patBytes lb (hi2 + 22)), (patBytes la lo1, patBytes lb lo2), (ra, rb)] do
        for a in repsOf ca do
          for b in repsOf cb do
            out := out.push s!"hex concat {a} {b}"
      -- degenerate contents: all-zero / all-ones receivers and operands (an all-zero inline array looks "blank")
      for ba in (specialBytes la sa).drop 1 do
        for bb in [patBytes lb (sb + 1), List.replicate lb 0] do
          for a in repsOf ba do
            for b in (repsOf bb).take 2 do
              out := out.push s!"hex concat {a} {b}"
  -- long operands: total lengths around the wrap-around points of narrower integers (one and two bytes), on inline
  -- receivers (empty, short, full) and on a heap receiver
  for la in [0, 3, 8, 9] do
    for total in [255, 256, 257, 258, 263, 264, 265, 511, 512, 513, 520] do
      let lb := total - la
      let (r', sa) := rng.below 40
      rng := r'
      for a in (repsOf (patBytes la (sa + 1))).take 2 do
        for b in (repsOf (patBytes lb (sa + 2))).take 2 do
          out := out.push s!"hex concat {a} {b}"
          out := out.push s!"hex concat {b} {a}"
  for total in [65535, 65536, 65537, 65544] do
    for a in (repsOf (patBytes 8 5)).take 1 do
      for b in (repsOf (patBytes (total - 8) 6)).take 1 do
        out := out.push s!"hex concat {a} {b}"
  return out

def labelAlphabet : List Char := ['a', 'Z', '0', '5', '9', '+', '-', 'α', 'ρ', 'ν', 'é', Char.ofNat 0x1D711, ' ', 'x', '\'', '"', '\\']

def stringsUpTo (alpha : List Char) : Nat → List (List Char)
  | 0 => [[]]
  | n + 1 =>
    let prev := stringsUpTo alpha n
    prev ++ (prev.filter (fun s => s.length = n)).flatMap (fun s => alpha.map (fun c => s ++ [c]))

def genLabel17 (seed : Nat) (exhaustLen : Nat) (randomCases : Nat) : Array String := Id.run do
  let mut out : Array String := #["reset"]
  let mut rng : Rng := ⟨UInt64.ofNat (seed * 7919 + 17)⟩
  for t in stringsUpTo labelAlphabet exhaustLen do
    out := out.push s!"label parse {showTextTok t}"
  for _ in [0:randomCases] do
    let (r', len) := rng.below 11
    rng := r'
    let (r', cs) := (List.range len).foldl (fun (acc : Rng × List Char) _ =>
      let (r, c) := acc.1.pick labelAlphabet; (r, c :: acc.2)) (r', [])
    rng := r'
    out := out.push s!"label parse {showTextTok cs}"
    -- the same text without blanks (more legal texts)
    out := out.push s!"label parse {showTextTok (cs.filter (· ≠ ' '))}"
  -- index texts around every boundary
  for t in ["α0", "α00", "α05", "α+5", "α-1", "α", "α ", "α5 ", "αx", "α1x", "α9", "α10", "α9999999", "α10000000", "α12345678",
            "α18446744073709551615", "α18446744073709551616", "α99999999999999999999", "α+", "α++1", "αα1", "α1α",
            "abcdefgh", "abcdefghi", "ρρρρρρρρ", "ρρρρρρρρρ", "12345678", "123456789", "hello", "𝜑", "ρ", "x", "xy"] do
    out := out.push s!"label parse {showTextTok t.toList}"
  -- canonical label values
  for c in labelAlphabet do
    if c ≠ ' ' ∧ c ≠ 'α' then
      out := out.push s!"label print {showLabelTok (.greek c)}"
      out := out.push s!"label kid {showTextTok [c]} {showLabelTok (.greek c)}"
  for n in [0, 1, 9, 10, 99, 9999999, 10000000, 99999999, 100000000, 2 ^ 32, 2 ^ 63, 2 ^ 64 - 1] do
    out := out.push s!"label print {showLabelTok (.alpha n)}"
    out := out.push s!"label kid {showTextTok (Lb.print (.alpha n))} {showLabelTok (.alpha n)}"
  -- distinct texts give distinct labels, as `==` sees them (C17): an edge bound under one name is not found under another — all
  -- ordered pairs of names that are prefixes of one another, differ in the last character only, or look alike
  let family : List String := ["fo", "foo", "foobar", "fooba", "ab", "abc", "abcdefg", "abcdefgh", "x", "xy", "α1", "α10", "ρ", "ρρ", "1", "12"]
  for t1 in family do
    for t2 in family do
      match Lb.parse t2.toList with
      | some l2 => out := out.push s!"label kid {showTextTok t1.toList} {showLabelTok l2}"
      | none => pure ()
  let noBlank := labelAlphabet.filter (· ≠ ' ')
  for _ in [0:randomCases] do
    let (r', len) := rng.below 7
    rng := r'
    let (r', first) := rng.pick (noBlank.filter (· ≠ 'α'))
    rng := r'
    let (r', cs) := (List.range (len + 1)).foldl (fun (acc : Rng × List Char) _ =>
      let (r, c) := acc.1.pick noBlank; (r, c :: acc.2)) (r', [])
    rng := r'
    let l : Label := .str (Lb.pad8 (first :: cs))
    out := out.push s!"label print {showLabelTok l}"
    out := out.push s!"label kid {showTextTok (first :: cs)} {showLabelTok l}"
  return out

end Drv
