import Core
import Pure
/-! Driver basics: the concrete instance `L := Lb.Label`, `D := Hx.Hex` of the proved core, and the text encoding of
    labels, data and lists used by the line protocol (shared with the Rust harness). -/
namespace Drv

abbrev Label := Lb.Label
abbrev Hex := Hx.Hex

instance : Inhabited Label := ⟨.alpha 0⟩

abbrev G := Sodg.G Label Hex
abbrev R := Sodg.R Label Hex
abbrev Op := Sodg.Op Label Hex
abbrev Out := Sodg.Out Label Hex

/-- the reference keeps its per-vertex tables as functions updated by `upd`; a long history makes every lookup
    walk a long chain of closures. `compactR` rebuilds the four tables from arrays (extensionally the same on ids
    below `cap`, and equal to the initial defaults above it, where nothing is ever written in a valid history).
    Used by the generators and the monitors only; the theorems are about `R` as it is. -/
def compactR (cap : Nat) (r : R) : R :=
  let g : Array (Option Nat) := Array.ofFn (n := cap) (fun i => r.grp i.val)
  let u : Array Bool := Array.ofFn (n := cap) (fun i => r.unr i.val)
  let e : Array (List (Label × Nat)) := Array.ofFn (n := cap) (fun i => r.edg i.val)
  let d : Array (Option Hex) := Array.ofFn (n := cap) (fun i => r.dat i.val)
  { r with grp := fun w => g.getD w none, unr := fun w => u.getD w false, edg := fun w => e.getD w [], dat := fun w => d.getD w none }

/-! ### text helpers -/

def words (s : String) : List String := (s.trimAscii.toString.splitOn " ").filter (· ≠ "")

def hexDigit (n : Nat) : Char := if n < 10 then Char.ofNat (48 + n) else Char.ofNat (87 + n)

def hexOfBytes (bs : List UInt8) : String :=
  String.ofList (bs.flatMap (fun b => [hexDigit (b.toNat / 16), hexDigit (b.toNat % 16)]))

def hexVal (c : Char) : Option Nat :=
  let n := c.toNat
  if 48 ≤ n ∧ n ≤ 57 then some (n - 48)
  else if 97 ≤ n ∧ n ≤ 102 then some (n - 87)
  else if 65 ≤ n ∧ n ≤ 70 then some (n - 55)
  else none

def bytesOfHexChars : List Char → Option (List UInt8)
  | [] => some []
  | [_] => none
  | a :: b :: r => do
    let x ← hexVal a
    let y ← hexVal b
    let rest ← bytesOfHexChars r
    pure (UInt8.ofNat (x * 16 + y) :: rest)

def bytesOfHex (s : String) : Option (List UInt8) := bytesOfHexChars s.toList

/-- data token: `x<hex>` (built by `Hex::from_vec`), `V:<hex>` (heap variant), `B:<16 digits>:<len>` (inline variant) -/
def parseHexTok (s : String) : Option Hex :=
  match s.toList with
  | 'x' :: r => (bytesOfHexChars r).map Hx.Hex.ofBytes
  | 'V' :: ':' :: r => (bytesOfHexChars r).map .vector
  | 'B' :: ':' :: r =>
    match (String.ofList r).splitOn ":" with
    | [a, l] => do
      let arr ← bytesOfHex a
      let len ← l.toNat?
      if arr.length = 8 ∧ len ≤ 8 then pure (.inline arr len) else none
    | _ => none
  | _ => none

def showBytes (bs : List UInt8) : String := "x" ++ hexOfBytes bs

def showHexTok : Hex → String
  | .vector v => "V:" ++ hexOfBytes v
  | .inline a l => "B:" ++ hexOfBytes a ++ ":" ++ toString l

/-- label token at value level: `G:<cp>`, `A:<n>`, `S:<cp>.<cp>…` (the eight cells of the array) -/
def parseLabelTok (s : String) : Option Label :=
  match s.splitOn ":" with
  | ["G", n] => n.toNat?.map (fun k => .greek (Char.ofNat k))
  | ["A", n] => n.toNat?.map .alpha
  | ["S", cs] => ((cs.splitOn ".").mapM (fun (x : String) => x.toNat?)).map (fun ks => .str (ks.map Char.ofNat))
  | _ => none

def showLabelTok : Label → String
  | .greek c => "G:" ++ toString c.toNat
  | .alpha n => "A:" ++ toString n
  | .str a => "S:" ++ ".".intercalate (a.map (fun c => toString c.toNat))

def showNats (l : List Nat) : String := "[" ++ ",".intercalate (l.map toString) ++ "]"

def showEdges (es : List (Label × Nat)) : String :=
  "[" ++ ",".intercalate (es.map (fun e => showLabelTok e.1 ++ ">" ++ toString e.2)) ++ "]"

def showOptNat : Option Nat → String
  | none => "none"
  | some n => toString n

/-! ### PRNG (splitmix64): every random choice of the generators derives from one state -/
structure Rng where
  s : UInt64

def Rng.next (r : Rng) : Rng × UInt64 :=
  let s := r.s + 0x9E3779B97F4A7C15
  let z := s
  let z := (z ^^^ (z >>> 30)) * 0xBF58476D1CE4E5B9
  let z := (z ^^^ (z >>> 27)) * 0x94D049BB133111EB
  (⟨s⟩, z ^^^ (z >>> 31))

/-- uniform-ish number below `n` (`n = 0` gives 0) -/
def Rng.below (r : Rng) (n : Nat) : Rng × Nat :=
  let (r', x) := r.next
  (r', if n = 0 then 0 else x.toNat % n)

def Rng.pick {α} [Inhabited α] (r : Rng) (l : List α) : Rng × α :=
  let (r', i) := r.below l.length
  (r', l.getD i default)

def Rng.chance (r : Rng) (num den : Nat) : Rng × Bool :=
  let (r', x) := r.below den
  (r', x < num)

end Drv
