import Drv.Basic
import Algo
/-! The client algorithms (`merge`, `slice`) run on the *reference*, with a validity check of every call they
    make: used by the generators (to know the state after a merge) and by the monitors (expected outcome). -/
namespace Drv
open Sodg P

/-- run a program on the reference, recording whether every call was within the limits -/
def runRC (n c : Nat) {α : Type} : Prog Op Out α → R → Bool → Option (α × R × Bool)
  | .ret a, r, v => some (a, r, v)
  | .fail, _, _ => none
  | .call op k, r, v => runRC n c (k (R.step c r op).2) (R.step c r op).1 (v && okStepB n c r op)

def viewOfR (rb : R) (capB : Nat) : RightView Label Hex :=
  { edges := rb.edg, data := rb.dat, keys := R.keys rb capB }

/-- `merge` on the reference: the new left state, the outcome, and whether all calls were valid;
    `none` = the program fails (fuel, or a malformed answer) -/
def refMerge (n capA capB : Nat) (ra rb : R) (l r : Nat) : Option (R × MergeOut × Bool) :=
  match runRC n capA (mergeRec2 (viewOfR rb capB) (capB + 1) l r []) ra true with
  | none => none
  | some (none, ra', v) => some (ra', .joined, v)
  | some (some m, ra', v) =>
    let ks := R.keys rb capB
    if (mkeys m).length = ks.length then some (ra', .ok, v)
    else some (ra', .err (ks.filter (fun x => decide (x ∉ mkeys m))), v)

/-- the reachable set of `slice_some` on the reference's edges (fuel: number of alive vertices + 2 rounds) -/
def refSliceDone (r : R) (fuel v : Nat) (p : Nat → Nat → Label → Bool) : Option (List Nat) :=
  Sl.loop r.edg p id fuel [v] []

/-- the rebuilt graph on the reference: state and validity of the calls -/
def refRebuild (n c : Nat) (r : R) (done : List Nat) : R × Bool :=
  let xs := (List.range c).filter (fun u => decide (u ∈ done))
  let ops : List Op := rebuildOps r.edg (fun u => decide (u ∈ done)) xs
  ops.foldl (fun (acc : R × Bool) op => ((R.step c acc.1 op).1, acc.2 && okStepB n c acc.1 op)) (Sodg.R.empty, true)

end Drv
