import Drv.Exec
import Drv.PureGen
import Drv.RefAlgo
/-! Seeded generators of operation histories. Every random choice derives from one PRNG state. The reference `R`
    is stepped alongside so that proposals can be filtered by the (proved-equivalent) validity predicate `okStepB`
    and aimed at the limits. -/
namespace Drv
open Sodg

def showOp : Op → String
  | .add v => s!"add {v}"
  | .bind a b l => s!"bind {a} {b} {showLabelTok l}"
  | .put v d => s!"put {v} {showHexTok d}"
  | .data v => s!"data {v}"
  | .kid v l => s!"kid {v} {showLabelTok l}"
  | .kids v => s!"kids {v}"
  | .keys => "keys"
  | .nextId => "nextid"

/-- `cmd g args` -/
def opLine (h : String) (op : Op) : String :=
  match (showOp op).splitOn " " with
  | c :: rest => " ".intercalate (c :: h :: rest)
  | [] => ""

structure Prof where
  wAdd : Nat := 10
  wAddPresent : Nat := 3
  wBind : Nat := 14
  wPut : Nat := 10
  wPutAgain : Nat := 3      -- put on a vertex that holds an unread datum
  wData : Nat := 10
  wDataUnread : Nat := 6    -- read a vertex that holds an unread datum
  wKid : Nat := 3
  wKids : Nat := 3
  wNext : Nat := 3          -- next_id followed by add of the id
  wKeys : Nat := 1
  invalidPct : Nat := 0     -- chance (percent) of emitting a proposal that fails `okStepB`
  wildPct : Nat := 0        -- chance (percent) that an id argument is at or above the capacity

def profGc : Prof := {}
def profRw : Prof := { wBind := 20, wKid := 12, wKids := 8, wPut := 12, wData := 8 }
def profAlloc : Prof := { wNext := 20, wAdd := 12, wDataUnread := 10 }
def profCycle : Prof := { wAdd := 6, wBind := 10, wPut := 12, wDataUnread := 16, wNext := 6 }
/-- calls that look like reads (`data`, `kid`, `kids`, `keys`, `add` of a present vertex): a memoised result must not
    survive them when they change something (a first read changes the read status and may collect a group) -/
def profReads : Prof := { wAdd := 0, wAddPresent := 4, wBind := 0, wPut := 0, wPutAgain := 0, wData := 8, wDataUnread := 20,
                          wKid := 4, wKids := 4, wNext := 0, wKeys := 2 }

structure GenSt where
  rng : Rng
  n : Nat
  cap : Nat
  r : R := Sodg.R.empty
  lines : Array String := #[]
  h : String := "g0"
  labels : List Label := []

def labelPool (n : Nat) : List Label :=
  -- small indices (n + 2 of them, so that a vertex can be filled up) and a few large ones (8 and more digits when
  -- printed, beyond u8 / u16 / u32, the largest usize)
  let alphas := (List.range (n + 2)).map Lb.Label.alpha ++ [255, 65536, 10000000, 2 ^ 32 + 1, 2 ^ 64 - 1].map Lb.Label.alpha
  let greeks : List Label := ['x', 'ρ', 'σ', 'π', Char.ofNat 0x1D711, 'é'].map .greek
  -- texts, among them two that print alike (`x y` and `xy`: printing drops the blanks), proper prefixes of one another (a comparison that stops at the padding must not confuse them) and
  -- a one-character label that is the first character of a text
  let strs : List Label := ["foo", "hello", "αβ", "x y", "xy", "abcdefgh", "fo", "foobar", "abcdefg", "привет", "日本語"].map (fun s => .str (Lb.pad8 s.toList)) ++
    [Lb.Label.greek 'f']
  alphas ++ greeks ++ strs

def genBytes (rng : Rng) : Rng × List UInt8 :=
  let (rng, k) := rng.below 10
  let (rng, len) :=
    if k < 5 then rng.pick [7, 8, 9]
    else if k < 8 then rng.below 5
    else if k < 9 then rng.below 21
    else
      -- one datum in a hundred is long (lengths around powers of two, beyond u8 and into the kilobytes)
      let (rng, j) := rng.below 10
      if j = 0 then rng.pick [31, 32, 33, 63, 64, 65, 127, 128, 255, 256, 257, 1000, 4096] else rng.below 21
  (List.range len).foldl (fun (acc : Rng × List UInt8) _ =>
    let (r, b) := acc.1.below 256
    (r, UInt8.ofNat b :: acc.2)) (rng, [])

def genHex (rng : Rng) : Rng × Hex :=
  let (rng, bs) := genBytes rng
  let (rng, k) := rng.below 10
  if k < 7 then (rng, Hx.Hex.ofBytes bs)
  else if k < 9 then (rng, .vector bs)
  else
    -- inline with non-zero padding
    let body := bs.take 8
    (rng, .inline (body ++ List.replicate (8 - body.length) 0xAA) body.length)

def pickId (rng : Rng) (r : R) (cap : Nat) (aliveBias : Nat) (wildPct : Nat := 0) : Rng × Nat :=
  let (rng, w) := rng.below 100
  if w < wildPct then rng.pick [cap, cap + 1, 2 ^ 64 - 1, cap + 1000]
  else
    let (rng, a) := rng.below 100
    if a < aliveBias ∧ r.ids ≠ [] then rng.pick r.ids else rng.below cap

def unreadIds (r : R) : List Nat := r.ids.filter (fun v => r.unr v)

/-- one proposal -/
def propose (s : GenSt) (p : Prof) : Rng × List Op :=
  let total := p.wAdd + p.wAddPresent + p.wBind + p.wPut + p.wPutAgain + p.wData + p.wDataUnread + p.wKid + p.wKids + p.wNext + p.wKeys
  let (rng, x) := s.rng.below total
  let r := s.r
  if x < p.wAdd then
    let (rng, v) := rng.below s.cap
    (rng, [.add v])
  else if x < p.wAdd + p.wAddPresent then
    let (rng, v) := pickId rng r s.cap 100 p.wildPct
    (rng, [.add v])
  else if x < p.wAdd + p.wAddPresent + p.wBind then
    let (rng, v1) := pickId rng r s.cap 97 p.wildPct
    let (rng, v2) := pickId rng r s.cap 97 p.wildPct
    let (rng, k) := rng.below 5
    -- an edge that already exists, bound once more under the same label (its target re-created first when it
    -- was removed in the meantime and the edge is dangling)
    if k = 4 ∧ r.edg v1 ≠ [] then
      let (rng, e) := rng.pick (r.edg v1)
      if e.2 ∈ r.ids then (rng, [.bind v1 e.2 e.1]) else (rng, [.add e.2, .bind v1 e.2 e.1])
    else
    -- mostly an existing label of v1 (overwrite) or a fresh one
    let (rng, l) := if k = 0 ∧ r.edg v1 ≠ [] then
        let (rng, e) := rng.pick (r.edg v1); (rng, e.1)
      else rng.pick s.labels
    (rng, [.bind v1 v2 l])
  else if x < p.wAdd + p.wAddPresent + p.wBind + p.wPut then
    let (rng, v) := pickId rng r s.cap 97 p.wildPct
    let (rng, d) := genHex rng
    (rng, [.put v d])
  else if x < p.wAdd + p.wAddPresent + p.wBind + p.wPut + p.wPutAgain then
    let us := unreadIds r
    let (rng, v) := if us ≠ [] then rng.pick us else pickId rng r s.cap 97 p.wildPct
    let (rng, d) := genHex rng
    (rng, [.put v d])
  else if x < p.wAdd + p.wAddPresent + p.wBind + p.wPut + p.wPutAgain + p.wData then
    let (rng, v) := pickId rng r s.cap 97 p.wildPct
    (rng, [.data v])
  else if x < p.wAdd + p.wAddPresent + p.wBind + p.wPut + p.wPutAgain + p.wData + p.wDataUnread then
    let us := unreadIds r
    let (rng, v) := if us ≠ [] then rng.pick us else pickId rng r s.cap 97 p.wildPct
    (rng, [.data v])
  else if x < p.wAdd + p.wAddPresent + p.wBind + p.wPut + p.wPutAgain + p.wData + p.wDataUnread + p.wKid then
    let (rng, v) := pickId rng r s.cap 97 p.wildPct
    let (rng, k) := rng.below 3
    let (rng, l) := if k ≠ 0 ∧ r.edg v ≠ [] then
        let (rng, e) := rng.pick (r.edg v); (rng, e.1)
      else rng.pick s.labels
    (rng, [.kid v l])
  else if x < p.wAdd + p.wAddPresent + p.wBind + p.wPut + p.wPutAgain + p.wData + p.wDataUnread + p.wKid + p.wKids then
    let (rng, v) := pickId rng r s.cap 97 p.wildPct
    (rng, [.kids v])
  else if x < p.wAdd + p.wAddPresent + p.wBind + p.wPut + p.wPutAgain + p.wData + p.wDataUnread + p.wKid + p.wKids + p.wNext then
    match r.nextId s.cap with
    | some (_, i) => (rng, [.nextId, .add i])
    | none => (rng, [.nextId])
  else (rng, [.keys])

def GenSt.emit (s : GenSt) (op : Op) : GenSt :=
  let r' := (R.step s.cap s.r op).1
  let r' := if s.lines.size % 24 = 23 then compactR s.cap r' else r'
  { s with lines := s.lines.push (opLine s.h op), r := r' }

/-- emit a list of calls if every one of them is valid in sequence; returns `none` otherwise -/
def GenSt.tryOps (s : GenSt) (ops : List Op) : Option GenSt :=
  ops.foldlM (fun (s : GenSt) op => if okStepB s.n s.cap s.r op then some (s.emit op) else none) s

/-- one step of the random body: up to 6 proposals until one is valid -/
def GenSt.stepRandom (s : GenSt) (p : Prof) : GenSt :=
  let rec go (fuel : Nat) (s : GenSt) : GenSt :=
    match fuel with
    | 0 => { s with lines := s.lines.push s!"keys {s.h}" }
    | fuel + 1 =>
      let (rng, ops) := propose s p
      let s := { s with rng := rng }
      match s.tryOps ops with
      | some s' => s'
      | none =>
        let (rng, c) := s.rng.below 100
        let s := { s with rng := rng }
        if c < p.invalidPct then
          -- outside the quantifier: emitted literally, the judge stops judging this handle here
          ops.foldl (fun s op => s.emit op) s
        else go fuel s
  go 6 s

/-- the drain epilogue: read every present vertex in id order, then observe -/
def GenSt.drain (s : GenSt) : GenSt :=
  let ids := (R.keys s.r s.cap)
  let s := ids.foldl (fun (s : GenSt) v => if v ∈ s.r.ids then s.emit (.data v) else s) s
  { s with lines := (s.lines.push s!"observe {s.h}").push s!"snap {s.h}" }

/-- a dangling edge: two groups, an edge from one into the other, then the target's group is collected; the
    source keeps an edge into an absent id whose slot still holds stale content -/
def GenSt.dangling (s : GenSt) : GenSt :=
  let free := (List.range s.cap).filter (· ∉ s.r.ids)
  match free with
  | a :: b :: c :: d :: _ =>
    let ops : List Op := [.add a, .add b, .bind a b (.alpha 0), .add c, .add d, .bind c d (.alpha 0), .bind a c (.alpha 1),
      .put d (Hx.Hex.ofBytes [1, 2, 3]), .data d]
    match s.tryOps ops with
    | some s' => s'
    | none => s
  | _ => s

def GenSt.start (rng : Rng) (n cap : Nat) : GenSt :=
  { rng, n, cap, labels := labelPool n, lines := #["reset", s!"new g0 {n} {cap}"] }

def pickConfig (rng : Rng) : Rng × Nat × Nat :=
  let (rng, n) := rng.pick [1, 2, 3, 4, 4, 6, 8, 16, 16, 16, 17, 33]    -- also beyond 16 labels per vertex
  let (rng, k) := rng.below 10
  let (rng, cap) :=
    if k < 4 then let (r, c) := rng.below 11; (r, c + 1)      -- capacity 1 too
    else if k < 8 then let (r, c) := rng.below 24; (r, c + 8)
    else rng.pick [40, 64, 71, 100, 130, 200, 256, 256, 300, 1000]   -- also capacities that are not a multiple of 64 / a power of two, beyond u8
  (rng, n, cap)

def genRandomHistory (rng : Rng) (p : Prof) (len : Nat) : Rng × Array String :=
  let (rng, n, cap) := pickConfig rng
  let s := GenSt.start rng n cap
  -- vertex 0 present in half of the histories
  let (rng, z) := s.rng.below 2
  let s := { s with rng := rng }
  let s := if z = 0 then s.emit (.add 0) else s
  let s := (List.range len).foldl (fun s _ => s.stepRandom p) s
  let s := s.drain
  (s.rng, s.lines)

/-- a capacity beyond 16 bits: a few vertices at small ids and a few at the same ids plus 65536 (ids that agree in their low 16
    bits), groups among the high ones and among the low ones, data, reads (collections), re-creation — ids are `usize`, nothing
    may depend on their low bits only -/
def genBigCap (rng : Rng) (len : Nat) : Rng × Array String :=
  let (rng, n) := rng.pick [2, 4, 16]
  let cap := 65536 + 40
  let s := GenSt.start rng n cap
  let (rng, k) := s.rng.below 4
  let s := { s with rng := rng }
  let lows := (List.range (k + 3)).map (· + 2)
  let highs := lows.map (· + 65536)
  let s := (lows ++ highs).foldl (fun (s : GenSt) v => match s.tryOps [.add v] with | some x => x | none => s) s
  let s := (List.range (len / 2 + 6)).foldl (fun (s : GenSt) _ =>
    let (rng, hi) := s.rng.below 3
    let pool := if hi = 0 then lows else highs
    let (rng, v1) := rng.pick pool
    let (rng, v2) := rng.pick pool
    let (rng, l) := rng.pick (s.labels.take n)
    let (rng, c) := rng.below 4
    let (rng, hx) := genHex rng
    let s := { s with rng := rng }
    let ops : List Op := if c = 0 then [.put v1 hx] else if c = 1 then [.add v1] else [.bind v1 v2 l]
    match s.tryOps ops with | some x => x | none => s) s
  let s := { s with lines := s.lines.push "observe g0" }
  let s := s.drain
  let s := (lows ++ highs).foldl (fun (s : GenSt) v => match s.tryOps [.add v] with | some x => x | none => s) s
  (s.rng, s.lines ++ #["observe g0"])

/-! ### scripted prefixes aiming at the limits -/

/-- create `k` groups of two (ids 2i, 2i+1), then a random body -/
def genManyGroups (rng : Rng) (k : Nat) (len : Nat) (force : Bool := false) : Rng × Array String :=
  let (rng, n) := rng.pick [2, 4, 16]
  let (rng, extra) := rng.below 12
  let cap := 2 * k + 2 + extra
  let s := GenSt.start rng n cap
  let s := (List.range k).foldl (fun (s : GenSt) i =>
    let ops : List Op := [.add (2 * i), .add (2 * i + 1), .bind (2 * i) (2 * i + 1) (.alpha 0), .put (2 * i + 1) (Hx.Hex.ofBytes [UInt8.ofNat i])]
    match s.tryOps ops with
    | some s' => s'
    | none => if force then ops.foldl (fun s op => s.emit op) s else s) s
  let s := (List.range len).foldl (fun s _ => s.stepRandom profGc) s
  let s := s.drain
  (s.rng, s.lines)

/-- one group filled to `m` members, then a random body -/
def genBigGroup (rng : Rng) (m : Nat) (len : Nat) (force : Bool := false) : Rng × Array String :=
  let (rng, n) := rng.pick [1, 2, 16]
  let (rng, extra) := rng.below 8
  let cap := m + 2 + extra
  let s := GenSt.start rng n cap
  let s := (List.range m).foldl (fun (s : GenSt) i =>
    let ops : List Op := if i = 0 then [.add 0] else [.add i, .bind i (i - 1) (.alpha 0)]
    match s.tryOps ops with
    | some s' => s'
    | none => if force then ops.foldl (fun s op => s.emit op) s else s) s
  let s := (List.range len).foldl (fun s _ => s.stepRandom profGc) s
  let s := s.drain
  (s.rng, s.lines)

/-- create-put-read cycles over a rotating id set with `k` long-lived groups -/
def genCycles (rng : Rng) (k cycles : Nat) (rot : Nat := 3) : Rng × Array String :=
  let (rng, n) := rng.pick [2, 4, 16]
  let base := 2 * k
  let cap := base + 8
  let s := GenSt.start rng n cap
  let s := (List.range k).foldl (fun (s : GenSt) i =>
    let ops : List Op := [.add (2 * i), .add (2 * i + 1), .bind (2 * i) (2 * i + 1) (.alpha 0), .put (2 * i) (Hx.Hex.ofBytes [1])]
    match s.tryOps ops with
    | some s' => s'
    | none => s) s
  let s := (List.range cycles).foldl (fun (s : GenSt) c =>
    let a := base + (c % rot) * 2
    let b := a + 1
    let (rng, variant) := s.rng.below 4
    let s := { s with rng := rng }
    let d : Hex := Hx.Hex.ofBytes [UInt8.ofNat c, 2, 3]
    let ops : List Op :=
      if variant = 0 then [.add a, .add b, .bind a b (.alpha 1), .put b d, .keys, .data b, .keys]
      else if variant = 1 then [.add a, .add b, .put a d, .bind a b (.alpha 1), .put a d, .data a, .keys]
      else if variant = 2 then [.add a, .add b, .put a d, .put b d, .bind b a (.alpha 0), .data a, .keys, .data b, .keys]
      else [.add a, .add b, .bind a b (.alpha 0), .add a, .put b d, .data a, .data b, .keys]
    let s := match s.tryOps ops with
      | some s' => s'
      | none => s
    -- now and then a random call in between
    if c % 5 = 0 then s.stepRandom profGc else s) s
  let s := s.drain
  (s.rng, s.lines)

/-- overlapping generations: besides `k` long-lived groups, up to `w + 1` short-lived groups are alive at once; when the
    window is full a burst of them (1 … all) is read out — oldest first, newest first or at random — so that group
    slots are given back in an order that differs from the order in which they were taken, several in a row -/
def genOverlap (rng : Rng) (k w rounds policy : Nat) : Rng × Array String :=
  let (rng, n) := rng.pick [2, 4, 16]
  let base := 2 * k
  let pairs := w + 3
  let cap := base + 2 * pairs + 2
  let s := GenSt.start rng n cap
  let s := (List.range k).foldl (fun (s : GenSt) i =>
    let ops : List Op := [.add (2 * i), .add (2 * i + 1), .bind (2 * i) (2 * i + 1) (.alpha 0), .put (2 * i) (Hx.Hex.ofBytes [1])]
    match s.tryOps ops with
    | some s' => s'
    | none => s) s
  let (s, _) := (List.range rounds).foldl (fun (acc : GenSt × List Nat) c =>
    let (s, alive) := acc
    match (List.range pairs).find? (· ∉ alive) with
    | none => acc
    | some j =>
      let a := base + 2 * j
      let b := a + 1
      let d : Hex := Hx.Hex.ofBytes [UInt8.ofNat c, 7]
      let (rng, variant) := s.rng.below 3
      let s := { s with rng := rng }
      let mk : List Op :=
        if variant = 0 then [.add a, .add b, .bind a b (.alpha 1), .put b d]
        else if variant = 1 then [.add a, .add b, .put b d, .bind b a (.alpha 0)]
        else [.add a, .add b, .bind a b (.alpha 1), .put a d, .put b d, .data a]
      match s.tryOps mk with
      | none => (s, alive)
      | some s =>
        let alive := alive ++ [j]
        if alive.length ≤ w then (s, alive)
        else
          let (rng, burst) := s.rng.below alive.length
          let s := { s with rng := rng }
          (List.range (burst + 1)).foldl (fun (acc : GenSt × List Nat) _ =>
            let (s, alive) := acc
            if alive.isEmpty then acc
            else
              let (rng, r) := s.rng.below alive.length
              let s := { s with rng := rng }
              let idx := if policy = 0 then 0 else if policy = 1 then alive.length - 1 else r
              let j' := alive.getD idx 0
              let s := match s.tryOps [.data (base + 2 * j' + 1), .keys] with
                | some s' => s'
                | none => s
              (s, alive.eraseIdx idx)) (s, alive)) (s, [])
  let s := s.drain
  (s.rng, s.lines)

/-- one kind of event repeated 255, 256 or 257 times (or twice that) between two allocator calls and observations: what an
    8-bit counter of such events would get wrong -/
def genWrap (rng : Rng) (kind : Nat) : Rng × Array String :=
  let (rng, n) := rng.pick [2, 4, 16]
  let reps := [256, 255, 257, 512, 254].getD ((kind / 6) % 5) 256
  let cap := reps + 16
  let s := GenSt.start rng n cap
  let d : Hex := Hx.Hex.ofBytes [7]
  let pre : List Op := [.nextId, .add 0, .add 1, .add 2, .bind 1 2 (.alpha 0), .put 2 d, .nextId]
  let s := match s.tryOps pre with | some s' => s' | none => s
  let body : List Op :=
    if kind % 6 = 0 then (List.range reps).map (fun i => Op.add (i + 5))                       -- creations ahead of the allocator
    else if kind % 6 = 1 then (List.range reps).flatMap (fun _ => [Op.add 9, .add 10, .bind 9 10 (.alpha 1), .put 10 d, .data 10])  -- collections, re-creations
    else if kind % 6 = 2 then (List.range reps).map (fun i => Op.put 2 (Hx.Hex.ofBytes [UInt8.ofNat i, 1]))       -- overwriting puts
    else if kind % 6 = 3 then (List.range reps).map (fun _ => Op.bind 1 2 (.alpha 0))             -- re-binds of one edge
    else if kind % 6 = 4 then (List.range reps).flatMap (fun i => [Op.put 0 (Hx.Hex.ofBytes [UInt8.ofNat i]), .data 0])   -- puts and reads of an ungrouped vertex
    else (List.range reps).flatMap (fun _ => [Op.kid 1 (.alpha 0), .data 1])                         -- look-ups and empty reads
  let s := match s.tryOps body with | some s' => s' | none => s
  let post : List Op := [.nextId, .keys, .nextId, .nextId, .nextId, .add 3, .bind 3 1 (.alpha 2), .put 3 d, .kids 1, .kids 3]
  let s := match s.tryOps post with | some s' => s' | none => s
  let s := s.drain
  (s.rng, s.lines)


/-! ### two handles: clone (C10) and save/reload (C08, C09) -/

/-- continue on two handles that start from the same state (`reloaded`: the second one's allocator restarted):
    phase A applies the same calls to both, phase B different calls with an `observe` of the other handle -/
def twoHandles (s0 : GenSt) (reloaded : Bool) (p : Prof) (lenA lenB : Nat) : GenSt :=
  let s1 : GenSt := { s0 with h := "g1", r := if reloaded then { s0.r with pos := 0 } else s0.r }
  -- phase A
  let (s0, s1) := (List.range lenA).foldl (fun (acc : GenSt × GenSt) _ =>
    let (s0, s1) := acc
    let (rng, ops) := propose s0 p
    let s0 := { s0 with rng := rng }
    -- allocator calls are proposed per handle (the reloaded one may answer differently)
    let isAlloc := ops.any (fun o => match o with | .nextId => true | _ => false)
    if isAlloc then
      let s0' := match s0.tryOps ops with | some x => x | none => s0
      let s1 := { s1 with rng := s0'.rng, lines := s0'.lines }
      let ops1 : List Op := match s1.r.nextId s1.cap with
        | some (_, i) => [.nextId, .add i]
        | none => []
      let s1' := match s1.tryOps ops1 with | some x => x | none => s1
      ({ s0' with rng := s1'.rng, lines := s1'.lines }, s1')
    else
      match s0.tryOps ops with
      | none => (s0, s1)
      | some s0' =>
        let s1 := { s1 with rng := s0'.rng, lines := s0'.lines }
        match s1.tryOps ops with
        | some s1' => ({ s0' with rng := s1'.rng, lines := s1'.lines }, s1')
        | none => (s0', s1)) (s0, s1)
  -- phase B
  let (s0, s1) := (List.range lenB).foldl (fun (acc : GenSt × GenSt) _ =>
    let (s0, s1) := acc
    let (rng, side) := s0.rng.below 2
    if side = 0 then
      let s0 := ({ s0 with rng := rng }).stepRandom p
      let s0 := { s0 with lines := s0.lines.push "observe g1" }
      (s0, { s1 with rng := s0.rng, lines := s0.lines })
    else
      let s1 := ({ s1 with rng := rng, lines := s0.lines }).stepRandom p
      let s1 := { s1 with lines := s1.lines.push "observe g0" }
      ({ s0 with rng := s1.rng, lines := s1.lines }, s1)) (s0, s1)
  let s0 := s0.drain
  let s1 := ({ s1 with rng := s0.rng, lines := s0.lines }).drain
  { s0 with rng := s1.rng, lines := s1.lines }

/-- queries that must answer alike on an original and its clone, also through dangling edges into collected
    vertices (raw slot reads): `inspect` of every present vertex, a `slice` from some, and the internal snapshots -/
def cloneQueries (s : GenSt) (a b : String) (tag : Nat) : GenSt :=
  let ks := R.keys s.r s.cap
  let ls := ks.toArray.flatMap (fun v => #[s!"inspect {a} {v}", s!"inspect {b} {v}"])
  let sl := (ks.take 2).toArray.flatMap (fun v =>
    #[s!"slice {a} {v} g{tag} -", s!"observe g{tag}", s!"slice {b} {v} g{tag + 1} -", s!"observe g{tag + 1}", s!"same g{tag} g{tag + 1}"])
  { s with lines := s.lines ++ ls ++ sl ++ #[s!"snap {a}", s!"snap {b}", s!"samesnap {a} {b}"] }

/-- `groups` groups of two (ids 2i, 2i+1), some with an unread datum: with 14 of them every group slot is in use -/
def GenSt.groupsOfTwo (s : GenSt) (groups : Nat) : GenSt :=
  (List.range groups).foldl (fun (s : GenSt) i =>
    let (rng, c) := s.rng.below 3
    let s := { s with rng := rng }
    let ops : List Op := [.add (2 * i), .add (2 * i + 1), .bind (2 * i) (2 * i + 1) (.alpha 0)] ++
      (if c = 0 then [] else [.put (2 * i + 1) (Hx.Hex.ofBytes [UInt8.ofNat i])])
    match s.tryOps ops with
    | some s' => s'
    | none => s) s

def genFork (rng : Rng) (len : Nat) : Rng × Array String :=
  let (rng, n, cap) := pickConfig rng
  -- where the clone is taken: after a random prefix; after everything was read (often an empty graph whose
  -- allocator has advanced); after allocator calls only; at once; with (nearly) all 14 groups alive
  let (rng, scenario) := rng.below 8
  let (rng, groups) := rng.pick [12, 13, 14, 14]
  let (rng, extra) := rng.below 8
  let cap := if scenario ≥ 6 then 2 * groups + 2 + extra else cap
  let n := if scenario ≥ 6 then max n 2 else n
  let s := GenSt.start rng n cap
  let (rng, k) := s.rng.below 3
  let s := { s with rng := rng }
  let p := if k = 0 then profAlloc else if k = 1 then profCycle else profGc
  let s :=
    if scenario ≥ 6 then
      let s := (List.range groups).foldl (fun (s : GenSt) i =>
        let (rng, c) := s.rng.below 3
        let s := { s with rng := rng }
        let ops : List Op := [.add (2 * i), .add (2 * i + 1), .bind (2 * i) (2 * i + 1) (.alpha 0)] ++
          (if c = 0 then [] else [.put (2 * i + 1) (Hx.Hex.ofBytes [UInt8.ofNat i])])
        match s.tryOps ops with
        | some s' => s'
        | none => s) s
      if scenario = 7 then (List.range 6).foldl (fun s _ => s.stepRandom profGc) s else s
    else if scenario = 0 then
      let s := (List.range (len / 2)).foldl (fun s _ => s.stepRandom p) s
      let ids := R.keys s.r s.cap
      ids.foldl (fun (s : GenSt) v => if v ∈ s.r.ids then s.emit (.data v) else s) s
    else if scenario = 1 then
      (List.range 3).foldl (fun (s : GenSt) _ => match s.tryOps [.nextId] with | some x => x | none => s) s
    else if scenario = 2 then s
    else if scenario = 3 then ((List.range (len / 2)).foldl (fun s _ => s.stepRandom p) s).dangling
    else (List.range (len / 2)).foldl (fun s _ => s.stepRandom p) s
  -- now and then the last thing asked before a vertex was collected is a `kid()` of it, and the id is created again before the
  -- clone: whatever the original remembers of its look-ups, both copies answer from the graph
  let (rng, memo) := s.rng.below 5
  let s := { s with rng := rng }
  let freeM := (List.range s.cap).filter (· ∉ s.r.ids)
  let (s, memoQ) : GenSt × Array String := match memo, freeM with
    | 0, a :: b :: _ =>
      let l : Label := s.labels.headD (.alpha 0)
      (match s.tryOps [.add a, .add b, .bind a b l, .put b (Hx.Hex.ofBytes [1]), .kid a l, .data b, .add a] with
       | some x => (x, #[s!"kid g0 {a} {showLabelTok l}", s!"kid g1 {a} {showLabelTok l}", s!"kids g0 {a}", s!"kids g1 {a}"])
       | none => (s, #[]))
    | _, _ => (s, #[])
  -- one time in four the graph that is cloned came out of `load()` (whatever `save` does not write starts afresh in it:
  -- a clone must copy the graph as it is, not as its unsaved bookkeeping describes it), with a few calls on it since
  let (rng, viaLoad) := s.rng.below 4
  let (rng, after) := rng.below 4
  let s := { s with rng := rng }
  let s := if viaLoad = 0 then
      let s := { s with r := { s.r with pos := 0 }, lines := s.lines.push "reload g0 g0" }
      (List.range after).foldl (fun s _ => s.stepRandom profGc) s
    else s
  -- one time in three the target handle already holds a fresh graph (same N; same or another capacity): the
  -- harness then clones with `clone_from`
  let (rng, pre) := s.rng.below 6
  let s := { s with rng := rng }
  let s := if pre = 0 then { s with lines := s.lines.push s!"new g1 {s.n} {s.cap}" }
    else if pre = 1 then { s with lines := s.lines.push s!"new g1 {s.n} {s.cap + 3}" }
    else if pre = 2 then
      -- the target is an earlier clone of the same graph, which has moved on since (other data unread, other
      -- groups alive): everything the target had must be replaced
      let s := { s with lines := s.lines.push "clone g0 g1" }
      (List.range 8).foldl (fun s _ => s.stepRandom profGc) s
    else s
  let s := { s with lines := s.lines.push "clone g0 g1" ++ memoQ }
  let s := cloneQueries s "g0" "g1" 2
  let s := twoHandles s false p (len / 4) (len / 4)
  (s.rng, s.lines)

def genSer (rng : Rng) (len : Nat) (cutStep : Nat) : Rng × Array String :=
  let (rng, n) := rng.pick [1, 2, 4, 16]
  let (rng, cap) := rng.pick [3, 5, 8, 12, 20, 33, 64, 70, 100]
  -- one history in six starts with 13 or 14 groups alive (every group slot in use at save time)
  let (rng, mg) := rng.below 6
  let (rng, groups) := rng.pick [13, 14, 14]
  let cap := if mg = 0 then 2 * groups + 4 else cap
  let s := GenSt.start rng n cap
  let s := if mg = 0 then s.groupsOfTwo groups else s
  let (rng, k) := s.rng.below 2
  let s := { s with rng := rng }
  let p := if k = 0 then profRw else profGc
  let s := (List.range (if mg = 0 then len / 8 else len / 2)).foldl (fun s _ => s.stepRandom p) s
  let (rng, dg) := s.rng.below 2
  let s := { s with rng := rng }
  let s := if dg = 0 then s.dangling else s
  let s := { s with lines := (s.lines.push "save g0").push s!"loadcuts g0 {cutStep}" }
  -- in half of the histories only read-like calls lie between that save and the save of the reload (a graph that
  -- remembers its last image must forget it on every change, also on those a read makes)
  let (rng, rd) := s.rng.below 2
  let (rng, nr) := rng.below 6
  let s := { s with rng := rng }
  let s := if rd = 0 then (List.range (nr + 1)).foldl (fun s _ => s.stepRandom profReads) s else s
  let s := { s with lines := s.lines.push "reload g0 g1" }
  let s := twoHandles s true p (len / 3) (len / 6)
  (s.rng, s.lines)

/-! ### slice (C13) -/

def showRej (rj : List (Nat × Nat × Label)) : String :=
  if rj.isEmpty then "-" else ",".intercalate (rj.map (fun (a, b, l) => s!"{a}>{b}>{showLabelTok l}"))

/-- a digraph of `k` vertices built through real calls (cycles, shared targets, parallel labels), then slices
    from several start vertices under random rejection tables -/
def genSlice (rng : Rng) (len : Nat) : Rng × Array String :=
  let (rng, n) := rng.pick [2, 3, 4, 16]
  let (rng, k) := rng.below 13
  let k := k + 2
  let (rng, extra) := rng.below 6
  -- one history in four lives at the top of a large, sparse capacity (ids of 57 and more, capacities that are neither
  -- small nor a multiple of 64)
  let (rng, hr) := rng.pick [0, 0, 0, 0, 0, 0, 0, 57, 64, 70, 100, 150, 230, 300, 1000]
  let span := k + extra
  let cap := span + hr
  let s := GenSt.start rng n cap
  -- ids: a random subset of size k
  let (rng, ids) := ((List.range span).map (· + hr)).foldl (fun (acc : Rng × List Nat) v =>
    let (r, c) := acc.1.below span
    if c < k + 2 ∧ acc.2.length < k then (r, v :: acc.2) else (r, acc.2)) (s.rng, [])
  let s := { s with rng := rng }
  let s := ids.foldl (fun (s : GenSt) v => match s.tryOps [.add v] with | some x => x | none => s) s
  let s := (List.range len).foldl (fun (s : GenSt) _ =>
    let (rng, v1) := s.rng.pick ids
    let (rng, v2) := rng.pick ids
    let (rng, l) := rng.pick (s.labels.take (n + 1) ++ [Lb.Label.greek 'ρ'])
    let (rng, c) := rng.below 8
    -- data of every kind (inline, heap, long): a slice copies no data, but it walks over slots that hold them
    let (rng, hx) := genHex rng
    let s := { s with rng := rng }
    let ops : List Op := if c = 0 then [.put v1 hx] else [.bind v1 v2 l]
    match s.tryOps ops with | some x => x | none => s) s
  let s := { s with lines := s.lines.push "observe g0" }
  -- slices
  let allEdges : List (Nat × Nat × Label) := (s.r.ids.flatMap (fun v => (s.r.edg v).map (fun e => (v, e.2, e.1))))
  let s := (List.range 4).foldl (fun (s : GenSt) i =>
    let (rng, v) := s.rng.pick (if s.r.ids.isEmpty then [0] else s.r.ids)
    let (rng, mode) := rng.below 3
    let (rng, rj) := if mode = 0 then (rng, []) else
      allEdges.foldl (fun (acc : Rng × List (Nat × Nat × Label)) e =>
        let (r, c) := acc.1.below 4
        if c = 0 then (r, e :: acc.2) else (r, acc.2)) (rng, [])
    let h' := s!"g{i + 1}"
    -- afterwards the slice is used: data on two of its vertices, then every vertex is read (the reads reveal how
    -- the rebuilt graph was grouped); ids outside the slice make the judge stop judging that handle
    let (rng, w1) := rng.pick (if s.r.ids.isEmpty then [0] else s.r.ids)
    let cont : Array String := #[s!"put {h'} {v} x0102030405060708090a0b0c", s!"put {h'} {w1} x03", s!"data {h'} {v}", s!"keys {h'}", s!"data {h'} {w1}", s!"keys {h'}", s!"snap {h'}"]
    { s with rng := rng, lines := s.lines ++ #[s!"slice g0 {v} {h'} {showRej rj}", s!"observe {h'}", "observe g0"] ++ cont }) s
  let s := s.drain
  (s.rng, s.lines)

/-- slices of a graph beyond the group limit: 14 or 15 groups of two alive, then a component of fresh vertices bound to
    each other (with no group slot free they stay ungrouped, edges and all), sliced from each of its vertices. The calls
    beyond the limit are outside the quantifier of the history monitors; model and implementation are still compared. -/
def genSliceBeyond (rng : Rng) (len : Nat) : Rng × Array String :=
  let (rng, n) := rng.pick [2, 4, 16]
  let (rng, groups) := rng.pick [14, 14, 15, 13]
  let (rng, k) := rng.below 4
  let k := k + 2
  let cap := 2 * groups + k + 3
  let s := GenSt.start rng n cap
  let s := s.groupsOfTwo (min groups 14)
  let s := if groups > 14 then [Op.add 28, .add 29, .bind 28 29 (.alpha 0)].foldl (fun (s : GenSt) op => s.emit op) s else s
  let base := 2 * groups
  let ids := (List.range k).map (· + base)
  let s := ids.foldl (fun (s : GenSt) v => s.emit (.add v)) s
  let s := (List.range (len / 3 + k)).foldl (fun (s : GenSt) _ =>
    let (rng, v1) := s.rng.pick ids
    let (rng, v2) := rng.pick ids
    let (rng, l) := rng.pick (s.labels.take n)
    let s := { s with rng := rng }
    if v1 = v2 ∨ ((s.r.edg v1).length ≥ n ∧ ¬ (s.r.edg v1).any (·.1 = l)) then s else s.emit (.bind v1 v2 l)) s
  let s := { s with lines := s.lines.push "observe g0" }
  let s := (ids.zip (List.range k)).foldl (fun (s : GenSt) (v, i) =>
    let h' := s!"g{i + 1}"
    { s with lines := s.lines ++ #[s!"slice g0 {v} {h'} -", s!"observe {h'}", s!"put {h'} {v} x0102", s!"data {h'} {v}", s!"keys {h'}"] }) s
  (s.rng, s.lines ++ #["observe g0", "snap g0"])

/-! ### merge (C11, C12) -/

structure TNode where
  id : Nat
  parent : Option (Nat × Label)      -- parent id and the label of the edge from it
  data : Option Hex

/-- a random tree of `k` nodes over the given ids; siblings get distinct labels from `pool` -/
def genTree (rng : Rng) (ids : List Nat) (pool : List Label) (dens : Nat := 2) : Rng × List TNode :=
  match ids with
  | [] => (rng, [])
  | root :: rest =>
    let (rng, d) := rng.below dens
    let (rng, hx) := genHex rng
    let rootN : TNode := ⟨root, none, if d = 0 then some hx else none⟩
    rest.foldl (fun (acc : Rng × List TNode) v =>
      let (rng, nodes) := acc
      -- a parent that still has a free label
      let cands := nodes.filter (fun p => (nodes.filter (fun c => match c.parent with | some (q, _) => q = p.id | none => false)).length < pool.length)
      match cands with
      | [] => (rng, nodes)
      | _ =>
        let (rng, p) := rng.pick (cands.map (·.id))
        let used := nodes.filterMap (fun c => match c.parent with | some (q, l) => if q = p then some l else none | none => none)
        let free := pool.filter (· ∉ used)
        let (rng, l) := rng.pick free
        let (rng, d) := rng.below dens
        let (rng, hx) := genHex rng
        (rng, nodes ++ [⟨v, some (p, l), if d = 0 then some hx else none⟩])) (rng, [rootN])

def treeOps (t : List TNode) : List Op :=
  t.map (fun n => Op.add n.id) ++
  t.filterMap (fun n => n.parent.map (fun (p, l) => Op.bind p n.id l)) ++
  t.filterMap (fun n => n.data.map (fun d => Op.put n.id d))

def pickIds (rng : Rng) (cap k : Nat) (off : Nat := 0) : Rng × List Nat :=
  -- k distinct ids below cap (at or above `off`), in random order
  (List.range k).foldl (fun (acc : Rng × List Nat) _ =>
    let free := ((List.range (cap - off)).map (· + off)).filter (· ∉ acc.2)
    if free.isEmpty then acc else
      let (r, v) := acc.1.pick free
      (r, acc.2 ++ [v])) (rng, [])

/-- two trees, merged; `broken` adds isolated vertices / a detached sub-tree / a non-root `right` to the right graph -/
def genMerge (rng : Rng) (broken : Bool) : Rng × Array String :=
  let (rng, n) := rng.pick [2, 3, 4, 16]
  let pool : List Label := ([Lb.Label.alpha 0, .alpha 1, .greek 'ρ', .str (Lb.pad8 "foo".toList)].take (min n 4))
  let (rng, kl) := rng.below 7
  let (rng, kr) := rng.below 7
  let (rng, extraL) := rng.below 6
  let capBig := kl + 1 + kr + 1 + extraL + 2
  -- one time in three the left graph is nearly full: the merge fits only because paths of the two trees overlap
  -- (decided below with the reference run; the larger capacity is used when it would not fit)
  let (rng, tight) := rng.below 3
  let (rng, slack) := rng.below (kr + 2)
  let capL := if tight = 0 then kl + 1 + slack else capBig
  let (rng, extraR) := rng.below 6
  -- breakage of the right graph (mode 4: more lone vertices than a group can have members)
  let (rng, mode) := rng.below 7
  let (rng, many) := rng.below 8
  let many := 14 + many
  let capR := kr + 1 + extraR + 3 + (if broken ∧ mode = 4 then many else 0) + (if broken ∧ mode = 6 then 4 else 0)
  -- one merge in four (never a tight one) has its two trees at the top of large, sparse capacities
  let (rng, hrL) := rng.pick [0, 0, 0, 0, 0, 0, 0, 60, 64, 90, 200, 300, 1000]
  let (rng, hrR) := rng.pick [0, 57, 64, 100, 180, 290, 990]
  let hrL := if tight = 0 then 0 else hrL
  let hrR := if hrL = 0 then 0 else hrR
  let capBig := capBig + hrL
  let capL := capL + hrL
  let capR := capR + hrR
  let (rng, idsL) := pickIds rng capL (kl + 1) hrL
  let (rng, idsR) := pickIds rng capR (kr + 1) hrR
  -- one broken merge in four has its extra vertices a power of two away from vertices of the tree (ids that share a bit, a
  -- word or a bucket with a reached one in a table indexed by id): the right capacity grows by that distance
  let (rng, alias) := rng.pick [0, 0, 0, 0, 0, 0, 8, 16, 32, 32, 64, 64, 128, 256]
  let alias := if broken then alias else 0
  let capR := capR + alias
  -- the left tree often holds few data (so that one vertex holds the last unread datum of its group); now and then
  -- a right vertex carries the very bytes a left vertex holds
  let (rng, densL) := rng.pick [2, 2, 4, 7]
  let (rng, tl) := genTree rng idsL pool densL
  let (rng, tr) := genTree rng idsR pool
  let (rng, same) := rng.below 3
  let leftData := tl.filterMap (·.data)
  let (rng, tr) := if same = 0 ∧ leftData ≠ [] then
      tr.foldl (fun (acc : Rng × List TNode) nd =>
        let (rng, c) := acc.1.below 2
        let (rng, d) := rng.pick leftData
        (rng, acc.2 ++ [if c = 0 ∧ nd.data.isSome then { nd with data := some d } else nd])) (rng, [])
    else (rng, tr)
  -- left graph g0; one time in three a leaf of it (without data, under a parent that is not the root) was collected and
  -- created again before the merge: it is present, ungrouped and blank, its parent is grouped and still holds the edge — a
  -- tree of present vertices like any other, but `merge` finds the kid there *without* the two being in one group
  let rootL := (tl.headD ⟨0, none, none⟩).id
  let isLeaf (nd : TNode) : Bool := !tl.any (fun c => match c.parent with | some (q, _) => q = nd.id | none => false)
  let cands := tl.filter (fun nd => nd.data.isNone && isLeaf nd && (match nd.parent with | some (q, _) => q != rootL | none => false))
  let spare := (List.range capL).filter (· ∉ idsL)
  let (rng, recre) := rng.below 3
  let s0 := GenSt.start rng n capL
  let s0 := match recre, cands, spare with
    | 0, c :: _, d :: _ =>
      (match (s0.tryOps [.add c.id, .add d, .bind c.id d (.alpha 0)]).bind (fun s => s.tryOps (treeOps tl)) with
       | some s1 =>
         (match s1.tryOps [.put d (Hx.Hex.ofBytes [4, 2]), .data d, .add c.id] with
          | some s2 => if d ∈ s2.r.ids then (match s0.tryOps (treeOps tl) with | some x => x | none => s0) else s2
          | none => (match s0.tryOps (treeOps tl) with | some x => x | none => s0))
       | none => (match s0.tryOps (treeOps tl) with | some x => x | none => s0))
    | _, _, _ => (match s0.tryOps (treeOps tl) with | some x => x | none => s0)
  -- some of its data already read (only reads that collect nothing)
  let s0 := tl.foldl (fun (s : GenSt) nd =>
    let (rng, c) := s.rng.below 3
    let s := { s with rng := rng }
    if c = 0 ∧ nd.id ∈ s.r.ids ∧ (R.data s.r nd.id).ids.length = s.r.ids.length then s.emit (.data nd.id) else s) s0
  -- right graph g1
  let s1 : GenSt := { s0 with h := "g1", r := Sodg.R.empty, cap := capR, lines := s0.lines.push s!"new g1 {n} {capR}" }
  -- the allocator of the right graph has often moved (its position is state `merge` can see): sometimes exactly as many
  -- `next_id()` calls as the tree has vertices
  let (rngA, jr) := s1.rng.pick [0, 0, 0, tr.length, tr.length, 1, 2, kr + 2]
  let s1 := { s1 with rng := rngA }
  let s1 := (List.range jr).foldl (fun (s : GenSt) _ => match s.tryOps [.nextId] with | some x => x | none => s) s1
  let s1 := match s1.tryOps (treeOps tr) with | some x => x | none => s1
  -- some data of the right tree were read before the merge (only reads that collect nothing): the right vertex then holds
  -- its bytes with the status *read*; in the left graph they must arrive as a fresh, unread datum all the same
  let s1 := tr.foldl (fun (s : GenSt) nd =>
    let (rng, c) := s.rng.below 3
    let s := { s with rng := rng }
    if c = 0 ∧ nd.id ∈ s.r.ids ∧ nd.data.isSome ∧ (R.data s.r nd.id).ids.length = s.r.ids.length then s.emit (.data nd.id) else s) s1
  let freeR := (List.range capR).filter (· ∉ idsR)
  let aliasIds := ((idsR.take 2).map (· + alias)).filter (fun v => v ∉ idsR ∧ v < capR)
  let s1 := if broken ∧ alias ≠ 0 ∧ aliasIds ≠ [] then
      aliasIds.foldl (fun (s : GenSt) a => match s.tryOps [.add a, .put a (Hx.Hex.ofBytes [3, 2])] with | some x => x | none => s) s1
    else if broken then
      match mode, freeR with
      | 0, a :: _ => match s1.tryOps [.add a] with | some x => x | none => s1
      | 1, a :: b :: _ => match s1.tryOps [.add a, .add b, .bind a b (.alpha 0), .put b (Hx.Hex.ofBytes [9])] with | some x => x | none => s1
      | 2, a :: _ => match s1.tryOps [.add a, .put a (Hx.Hex.ofBytes [7, 7])] with | some x => x | none => s1
      | 4, fr => (fr.reverse.take many).foldl (fun (s : GenSt) a => match s.tryOps [.add a] with | some x => x | none => s) s1
      -- a lone extra vertex whose datum was read already (present, ungrouped, nothing unread), beside another one
      | 5, a :: b :: _ => match s1.tryOps [.add a, .put a (Hx.Hex.ofBytes [5, 5, 5]), .data a, .add b] with | some x => x | none => s1
      | 5, a :: _ => match s1.tryOps [.add a, .put a (Hx.Hex.ofBytes [5, 5, 5]), .data a] with | some x => x | none => s1
      -- a detached sub-tree whose root is pointed to by a vertex of a third group that was collected since: the edge is still
      -- in the slot of the absent vertex, the sub-tree is present and unreachable
      | 6, a :: b :: c :: d :: _ =>
        match s1.tryOps [.add a, .add b, .bind a b (.alpha 0), .add c, .add d, .bind c d (.alpha 0), .bind c a (.alpha 1),
            .put d (Hx.Hex.ofBytes [6, 6]), .data d] with
        | some x => x
        | none => s1
      | _, _ => s1
    else s1
  let (rng, left) := s1.rng.pick (tl.map (·.id))
  let rightId := if broken ∧ mode = 3 ∧ tr.length > 1 then (tr.getD 1 ⟨0, none, none⟩).id else (tr.headD ⟨0, none, none⟩).id
  let fits := match refMerge n capL capR s0.r s1.r left rightId with | some (_, _, v) => v | none => false
  let s1 := if fits then s1 else { s1 with lines := s1.lines.map (fun l => if l = s!"new g0 {n} {capL}" then s!"new g0 {n} {capBig}" else l) }
  let capL := if fits then capL else capBig
  let s0 := { s0 with cap := capL }
  let lines := s1.lines ++ #["observe g0", "observe g1", s!"merge g0 g1 {left} {rightId}", "observe g0", "observe g1"]
  -- the epilogue: read every present vertex of g0 (state after the merge computed on the reference), then observe
  let s0' : GenSt := match refMerge n capL capR s0.r s1.r left rightId with
    | some (ra', _, _) => { s0 with r := ra', lines := lines, rng := rng }
    | none => { s0 with lines := lines, rng := rng }
  let s0' := s0'.drain
  -- the allocator after the merge and the collections: ids handed out inside merge must not come back
  let s0' := (List.range 4).foldl (fun (s : GenSt) _ =>
    match s.r.nextId s.cap with
    | some (_, i) => (match s.tryOps [.nextId, .add i] with | some x => x | none => s)
    | none => s) s0'
  (s0'.rng, s0'.lines)

/-- non-tree merges (C07, `join`): two small random digraphs over a small label pool are merged — `join` fires when a
    vertex of the right graph is reached under two labels that lead to different vertices of the left graph; it removes
    a slot of the left graph's vertex store. Then: every slot of the left graph is touched (the removed one panics),
    random calls, the left graph merged into the right one (a right graph with removed slots), probes, and a third merge.
    The reference is not followed through the merges: the calls after them are random, valid or not. -/
def genJoin (rng : Rng) (len : Nat) : Rng × Array String :=
  let (rng, n) := rng.pick [2, 3, 4, 16]
  let (rng, np) := rng.pick [2, 2, 3]
  let pool : List Label := ([Lb.Label.alpha 0, .alpha 1, .greek 'ρ', .str (Lb.pad8 "foo".toList)].take (min n np))
  let (rng, capL) := rng.pick [6, 8, 10, 12, 16, 24]
  let (rng, capR) := rng.pick [3, 4, 6, 8, 12]
  let prof : Prof := { wAdd := 12, wAddPresent := 1, wBind := 34, wPut := 8, wPutAgain := 1, wData := 2, wDataUnread := 2,
                       wKid := 1, wKids := 1, wNext := 3, wKeys := 0 }
  let wild : Prof := { prof with invalidPct := 100, wildPct := 2, wData := 8, wDataUnread := 6, wKid := 6, wKids := 6 }
  let (rng, kl) := rng.below (len + 6)
  let (rng, kr) := rng.below (len / 2 + 5)
  -- half of the histories start from the situation in which `join` is certain: the left root has two kids under two
  -- labels, the right root has one kid under both
  let (rng, scripted) := rng.below 2
  let (rng, x) := rng.below (capL - 2)
  let (rng, y) := rng.below (capR - 1)
  let la := pool.headD (.alpha 0)
  let lb := pool.getD 1 (.alpha 1)
  let s0 : GenSt := { GenSt.start rng n capL with labels := pool }
  let s0 := if scripted = 0 then
      (match s0.tryOps [.add x, .add (x + 1), .add (x + 2), .bind x (x + 1) la, .bind x (x + 2) lb] with | some t => t | none => s0)
    else s0
  let s0 := (List.range (kl + 4)).foldl (fun s _ => s.stepRandom prof) s0
  let s1 : GenSt := { s0 with h := "g1", r := Sodg.R.empty, cap := capR, lines := s0.lines.push s!"new g1 {n} {capR}" }
  let s1 := if scripted = 0 then
      (match s1.tryOps [.add y, .add (y + 1), .bind y (y + 1) la, .bind y (y + 1) lb] with | some t => t | none => s1)
    else s1
  let s1 := (List.range (kr + 3)).foldl (fun s _ => s.stepRandom prof) s1
  let pickV (rng : Rng) (r : R) (cap : Nat) : Rng × Nat := if r.ids = [] then rng.below cap else rng.pick r.ids
  let (rng, l1) := pickV s1.rng s0.r capL
  let (rng, r1) := pickV rng s1.r capR
  let (l1, r1) := if scripted = 0 then (x, y) else (l1, r1)
  let lines := s1.lines ++ #["observe g0", "observe g1", s!"merge g0 g1 {l1} {r1}", "observe g0", "snap g0"]
  -- every slot of the left graph, removed ones included
  let lines := (List.range capL).foldl (fun (ls : Array String) v => (ls.push s!"kids g0 {v}").push s!"kid g0 {v} A:0") lines
  -- the read-only calls on a graph with a removed slot: the exports skip it, `inspect`/`v_print` of it are `Err`, a slice or
  -- an `inspect` that reaches it panics
  let lines := lines ++ #["xml g0", "dot g0", "debug g0", "display g0"]
  let lines := (List.range capL).foldl (fun (ls : Array String) v =>
    ((ls.push s!"vprint g0 {v}").push s!"inspect g0 {v}").push s!"slice g0 {v} g{3 + v % 3} -") lines
  let lines := lines ++ #["observe g3", "observe g4", "observe g5", "clone g0 g6", "observe g6", "snap g6"]
  -- scripts on it: literal ids (some of them the removed slot, some beyond the capacity), variables, a malformed command
  let (rng, sv) := rng.below capL
  let (rng, sw) := rng.below (capL + 2)
  let scr (t : String) : String := "script g0 " ++ showTextTok t.toList
  let lines := lines ++ #[scr s!"ADD($a); BIND({sv}, $a, foo); PUT($a, 0a-0b);", "observe g0",
    scr s!"ADD({sw}); BIND({sw}, {sv}, α1); PUT({sv}, ff);", scr s!"ADD($b); BIND($b, {sv}); ADD({sw});", "observe g0", "snap g0"]
  let s0 : GenSt := { s0 with rng := rng, lines := lines }
  let s0 := (List.range (len / 2 + 4)).foldl (fun s _ => s.stepRandom wild) s0
  let (rng, l2) := pickV s0.rng s1.r capR
  let (rng, r2) := pickV rng s0.r capL
  let lines := s0.lines ++ #["observe g0", s!"merge g1 g0 {l2} {r2}", "observe g1", "snap g1"]
  let lines := (List.range capR).foldl (fun (ls : Array String) v => (ls.push s!"data g1 {v}").push s!"add g1 {v}") lines
  let s1 : GenSt := { s1 with rng := rng, lines := lines }
  let s1 := (List.range (len / 2 + 4)).foldl (fun s _ => s.stepRandom wild) s1
  let (rng, l3) := pickV s1.rng s0.r capL
  let (rng, r3) := pickV rng s1.r capR
  let lines := s1.lines ++ #[s!"merge g0 g1 {l3} {r3}", "observe g0", "snap g0", "nextid g0", "keys g0", "observe g1", "snap g1"]
  let lines := (List.range capL).foldl (fun (ls : Array String) v => ls.push s!"data g0 {v}") lines
  (rng, lines ++ #["observe g0", "snap g0"])

/-- the image of a graph with a removed slot (C09: *every* reachable graph): the situation in which `join` is certain,
    some further valid calls on both graphs, the merge, then `save`, every cut point of the image, and a reload -/
def genJoinSer (rng : Rng) (len : Nat) : Rng × Array String :=
  let (rng, n) := rng.pick [2, 3, 4, 16]
  let pool : List Label := ([Lb.Label.alpha 0, .alpha 1, .greek 'ρ'].take (min n 3))
  let (rng, capL) := rng.pick [6, 8, 10, 12]
  let (rng, capR) := rng.pick [3, 4, 6]
  let prof : Prof := { wAdd := 10, wAddPresent := 1, wBind := 20, wPut := 12, wPutAgain := 1, wData := 2, wDataUnread := 2,
                       wKid := 1, wKids := 1, wNext := 3, wKeys := 0 }
  -- half of the histories have the shape twice: two merges, two removed slots (an image whose keys have two gaps)
  let (rng, two) := rng.below 2
  let (rng, x) := rng.below (capL - 5)
  let (rng, y) := rng.below (capR - 1)
  let la := pool.headD (.alpha 0)
  let lb := pool.getD 1 (.alpha 1)
  let s0 : GenSt := { GenSt.start rng n capL with labels := pool }
  let s0 := match s0.tryOps [.add x, .add (x + 1), .add (x + 2), .bind x (x + 1) la, .bind x (x + 2) lb] with | some t => t | none => s0
  let s0 := if two = 0 then
      (match s0.tryOps [.add (x + 3), .add (x + 4), .add (x + 5), .bind (x + 3) (x + 4) la, .bind (x + 3) (x + 5) lb] with | some t => t | none => s0)
    else s0
  let s0 := (List.range (len / 2)).foldl (fun s _ => s.stepRandom prof) s0
  let s1 : GenSt := { s0 with h := "g1", r := Sodg.R.empty, cap := capR, lines := s0.lines.push s!"new g1 {n} {capR}" }
  let s1 := match s1.tryOps [.add y, .add (y + 1), .bind y (y + 1) la, .bind y (y + 1) lb] with | some t => t | none => s1
  let s1 := (List.range (len / 4)).foldl (fun s _ => s.stepRandom prof) s1
  let lines := s1.lines ++ #["observe g0", "observe g1", s!"merge g0 g1 {x} {y}"] ++
    (if two = 0 then #["observe g0", s!"merge g0 g1 {x + 3} {y}"] else #[]) ++ #["observe g0", "snap g0", "save g0", "loadcuts g0 1",
    "reload g0 g2", "observe g0"]
  -- and the slices of it (C13: every reachable graph): from every slot, the removed one included
  let lines := (List.range capL).foldl (fun (ls : Array String) v =>
    (((ls.push s!"slice g0 {v} g{3 + v % 3} -").push s!"observe g{3 + v % 3}").push s!"vprint g0 {v}").push s!"inspect g0 {v}") lines
  -- the allocator on a graph with removed slots (C05): ids it returns are not present
  (s1.rng, lines ++ #["xml g0", "dot g0", "debug g0", "display g0", "observe g0",
    -- a clone of it (C10: every reachable graph): the same internal state, and the same ids from the allocator afterwards
    "clone g0 g7", "observe g7", "snap g0", "snap g7", "samesnap g0 g7",
    "nextid g0", "nextid g7", "observe g0", "observe g7", "nextid g0", "nextid g7", "observe g0", "observe g7", "nextid g0", "nextid g7"])

/-- render profile: a history, then every text export of the graph and of each present (and one absent) vertex;
    repeated once more after some further calls. Here: every export of the graph held by handle `h` (which has the
    content of `s.r`) -/
def renderLinesOn (s : GenSt) (h : String) : GenSt :=
  let ks := R.keys s.r s.cap
  let ls := #[s!"xml {h}", s!"dot {h}", s!"debug {h}", s!"display {h}", s!"observe {h}"] ++
    (ks.toArray.flatMap (fun v => #[s!"inspect {h} {v}", s!"vprint {h} {v}"]))
  { s with lines := s.lines ++ ls }

def renderLines (s : GenSt) : GenSt := renderLinesOn s s.h

/-- the same exports of a reloaded copy and of a clone (what an export reads must be what `save` writes and what
    `clone` copies) -/
def renderCopies (s : GenSt) : GenSt :=
  let (rng, k) := s.rng.below 3
  let s := { s with rng := rng }
  if k = 0 then renderLinesOn { s with lines := s.lines.push s!"reload {s.h} g2" } "g2"
  else if k = 1 then renderLinesOn { s with lines := s.lines.push s!"clone {s.h} g3" } "g3"
  else s

/-- a second graph with the same content built in another way: larger capacity, vertices added in descending
    order, edges bound in reverse order, data put last and never read (so no group structure or read status is
    shared with the original); emitted only when every call is valid (no dangling edges) -/
def twinLines (s : GenSt) : GenSt :=
  let ks := (R.keys s.r s.cap).reverse
  let t0 : GenSt := { s with h := "g1", r := Sodg.R.empty, cap := s.cap + 5, lines := #[] }
  let ops : List Op := ks.map .add ++ ks.flatMap (fun v => (s.r.edg v).reverse.map (fun e => .bind v e.2 e.1)) ++
    ks.filterMap (fun v => (s.r.dat v).map (.put v))
  match t0.tryOps ops with
  | some t => { s with lines := (s.lines.push s!"new g1 {s.n} {s.cap + 5}") ++ t.lines ++ #["xml g1", "dot g1", "debug g1"] }
  | none => s

def profRender : Prof := { wBind := 30, wAdd := 10, wPut := 10, wDataUnread := 8, wData := 3 }

def genRender (rng : Rng) (len : Nat) : Rng × Array String :=
  let (rng, n) := rng.pick [2, 3, 4, 8, 16]
  let (rng, cap) := rng.pick [3, 5, 8, 12, 20, 20, 70, 130]
  -- one history in six starts with 13 or 14 groups alive (every group slot in use)
  let (rng, mg) := rng.below 6
  let (rng, groups) := rng.pick [13, 14, 14]
  let cap := if mg = 0 then 2 * groups + 4 else cap
  let s := GenSt.start rng n cap
  let s := if mg = 0 then s.groupsOfTwo groups else s
  let s := (List.range (len / 2)).foldl (fun s _ => s.stepRandom profRender) s
  let (rng, dg) := s.rng.below 3
  let s := { s with rng := rng }
  let s := if dg = 0 then s.dangling else s
  let s := renderLines s
  let s := twinLines s
  let s := (List.range (len / 2)).foldl (fun s _ => s.stepRandom profRender) s
  let s := renderLines s
  let s := twinLines s
  let s := renderCopies s
  let s := s.drain
  let s := renderLines s
  (s.rng, s.lines)

/-- one kind of export repeated 254 … 257 times on one graph value between two other exports: what an 8-bit pass or
    generation number inside the graph would get wrong -/
def genRenderWrap (rng : Rng) (kind : Nat) : Rng × Array String :=
  let (rng, n) := rng.pick [2, 4, 16]
  let reps := [254, 255, 256, 257, 253].getD ((kind / 3) % 5) 255
  let s := GenSt.start rng n 9
  let d : Hex := Hx.Hex.ofBytes [7, 8]
  -- a chain 0 → 1 → 2 → 3 (for the repeated `inspect` of the leaf: nothing else is visited in between) or the chain with a
  -- back edge 3 → 1
  let pre : List Op := [.add 0, .add 1, .add 2, .add 3, .add 5, .bind 0 1 (.alpha 0), .bind 1 2 (.alpha 0), .bind 2 3 (.alpha 0)] ++
    (if kind % 3 = 0 then [] else [.bind 3 1 (.alpha 1)]) ++ [.put 3 d, .put 5 d]
  let s := match s.tryOps pre with | some s' => s' | none => s
  let many (l : String) : Array String := (List.replicate reps l).toArray
  let body : Array String :=
    if kind % 3 = 0 then #["inspect g0 0"] ++ many "inspect g0 3" ++ #["inspect g0 0", "inspect g0 2", "inspect g0 5"]
    else if kind % 3 = 1 then #["xml g0", "dot g0"] ++ many "xml g0" ++ many "dot g0" ++ #["vprint g0 3"] ++ many "vprint g0 5" ++ #["vprint g0 3"]
    else #["debug g0"] ++ many "debug g0" ++ many "display g0" ++ #["inspect g0 1"]
  let s := { s with lines := s.lines ++ body }
  -- then a change that only a read makes, and everything once more
  let s := match s.tryOps [.data 5, .data 3] with | some s' => s' | none => s
  let s := renderLines s
  (s.rng, s.lines)

def genProfile (profile : String) (seed : Nat) (count len : Nat) : Array String := Id.run do
  if profile = "hex15" then return genHex15 seed len count
  if profile = "concat16" then return genConcat16 seed len
  if profile = "label17" then return genLabel17 seed len count
  let mut rng : Rng := ⟨UInt64.ofNat (seed * 1000003 + profile.hash.toNat % 1000003)⟩
  let mut out : Array String := #[]
  for i in [0:count] do
    let (r', lines) :=
      match profile with
      | "gc" => if i = 3 then genBigCap rng len else genRandomHistory rng profGc len
      | "rw" => genRandomHistory rng profRw len
      | "alloc" => genRandomHistory rng profAlloc len
      | "abuse" =>
        if i % 4 = 0 then genRandomHistory rng { profGc with invalidPct := 40, wildPct := 3 } len
        else if i % 4 = 1 then genRandomHistory rng { profGc with invalidPct := 100, wBind := 40, wAdd := 14 } len
        else if i % 4 = 2 then genBigGroup rng (15 + i % 5) len true
        else genManyGroups rng (13 + i % 4) len true
      | "limits" =>
        if i % 3 = 0 then genManyGroups rng (13 + (i / 3) % 2) len
        else if i % 3 = 1 then genBigGroup rng (14 + (i / 3) % 3) len
        else genRandomHistory rng profGc len
      | "cycle" =>
        if i % 3 = 2 then
          let w := 1 + (i / 3) % 5
          genOverlap rng ((i / 15) % (12 - w)) w len ((i / 3) % 3)
        -- one long history over a single pair of ids: more than 256 collections in one graph, the same two ids re-created
        -- more than 256 times
        else if i = 1 then genCycles rng 1 (len * 8) 1
        else genCycles rng (i % 14) len
      | "wrap" => genWrap rng i
      | "fork" => genFork rng len
      | "render" => if i % 25 = 7 then genRenderWrap rng (i / 25) else genRender rng len
      | "slice" => if i % 8 = 5 then genSliceBeyond rng len else genSlice rng len
      | "merge" => genMerge rng false
      | "mergebroken" => genMerge rng true
      | "mergemix" => genMerge rng (i % 2 = 0)     -- failing merges and merges of trees alternate in one process
      | "join" => genJoin rng len
      | "joinser" => genJoinSer rng len
      | "ser" => genSer rng len 7
      | "serall" => genSer rng len 1
      | _ => (rng, #[])
    rng := r'
    out := out ++ lines
  return out

end Drv
