import Drv.Gen
import Drv.Parse
import Drv.RefAlgo
import Drv.ScriptGen
/-! Executable monitors: they judge an *observed* trace (operation lines + observation lines, normally the
    implementation's) against the properties. `C02` compares with the reference `R`; `C01`, `C03`, `C04`, `C05`
    are recomputed from the raw history, independently of `R`. A handle is judged only while its history stays
    inside the quantifier (`okStepB`), and only up to its first rejection. -/
namespace Drv
open Sodg

/-- parsed observation line of a core call -/
structure Obs where
  status : String            -- ok | panic | dead | unmodelled | bad-op
  payload : String := ""
  keys : List Nat := []
  touched : List String := []

def parseNats (s : String) : Option (List Nat) :=
  let t := s.trimAscii.toString
  if t = "[]" then some []
  else if t.startsWith "[" ∧ t.endsWith "]" then
    (((t.drop 1).toString.dropEnd 1).toString.splitOn ",").mapM (fun (x : String) => x.toNat?)
  else none

def parseObs (line : String) : Obs :=
  let parts := line.splitOn " ; "
  match parts with
  | [] => { status := "" }
  | first :: rest =>
    let ws := words first
    let status := ws.headD ""
    let payload := " ".intercalate ws.tail
    match rest with
    | [] => { status, payload }
    | k :: more =>
      { status, payload, keys := (parseNats k).getD [],
        touched := match more with
          | [] => []
          | t :: _ => words t }

/-- the history-based state of the direct monitors, one per handle -/
structure Hist where
  pairs : List (Nat × Nat) := []                       -- bind pairs between current incarnations
  unread : List Nat := []                              -- put and not read since
  bound : List Nat := []                               -- endpoints of a bind since their incarnation began
  edges : List (Nat × List (Label × Nat)) := []        -- per vertex: label -> last target, first-binding order
  puts : List (Nat × List UInt8) := []                 -- last datum put
  issued : List Nat := []                              -- ids returned by next_id (also before a clone)

/-- the history-based state as it would be after calls that produce the reference state `r` (used after `merge`,
    `slice` and scripts, whose internal calls the direct monitors do not see one by one) -/
def Hist.ofR (r : R) (pairs0 : List (Nat × Nat)) (bound0 issued : List Nat) : Hist :=
  { pairs := pairs0 ++ r.ids.flatMap (fun v => (r.edg v).map (fun e => (v, e.2))),
    unread := r.ids.filter (fun v => r.unr v),
    bound := bound0 ++ r.ids.flatMap (fun v => (r.edg v).flatMap (fun e => [v, e.2])),
    edges := r.ids.map (fun v => (v, r.edg v)),
    puts := r.ids.filterMap (fun v => (r.dat v).map (fun d => (v, d.toBytes))),
    issued := issued }

structure HMon where
  n : Nat
  cap : Nat
  r : R := Sodg.R.empty
  judged : Bool := true       -- still inside the quantifier and not yet rejected
  watch : Bool := false       -- rejected, but the reference state keeps following the core calls: a panic inside the limits is still reported
  prevKeys : List Nat := []
  hist : Hist := {}
  origin : String := ""       -- "C10": a clone or an original that was cloned; "C08": a reloaded graph
  steps : Nat := 0

structure Reject where
  prop : String
  line : Nat
  msg : String

structure Stats where
  histories : Nat := 0
  calls : Nat := 0
  judgedCalls : Nat := 0
  collections : Nat := 0       -- judged calls after which `keys` shrank
  collected : Nat := 0
  invalidStops : Nat := 0      -- handles that left the quantifier
  panics : Nat := 0
  nextIds : Nat := 0
  readds : Nat := 0            -- add of an id that was present earlier in the history
  overwrites : Nat := 0
  maxGroups : Nat := 0
  maxMembers : Nat := 0


/-! ### monitors of the pure sub-protocols -/

def isDigit (c : Char) : Bool := 48 ≤ c.toNat ∧ c.toNat ≤ 57

/-- canonical decimal: digits only, no leading zero unless the number is 0, value below 2^64 -/
def canonDecimal (t : List Char) : Bool :=
  t ≠ [] && t.all isDigit && (t.head? ≠ some '0' || t.length = 1) &&
    (t.foldl (fun a c => a * 10 + (c.toNat - 48)) 0 < 2 ^ 64)

/-- Rust's `usize::from_str` accepts it: optional `+`, at least one digit, value below 2^64 -/
def rustUsize (t : List Char) : Bool :=
  let ds := match t with
    | '+' :: r => r
    | r => r
  ds ≠ [] && ds.all isDigit && (ds.foldl (fun a c => a * 10 + (c.toNat - 48)) 0 < 2 ^ 64)

/-- the label texts of the first sentence of C17 -/
def legalText (t : List Char) : Bool :=
  1 ≤ t.length && t.length ≤ 8 && t.all (· ≠ ' ') &&
    (match t with
     | 'α' :: r => canonDecimal r
     | _ => true)

/-- label values in canonical form (second sentence of C17) -/
def canonLabel : Label → Bool
  | .greek c => c ≠ ' ' && c ≠ 'α'
  | .alpha n => n < 2 ^ 64
  | .str a =>
    let body := a.takeWhile (· ≠ ' ')
    a.length = 8 && 2 ≤ body.length && body.head? ≠ some 'α' && a = Lb.pad8 body

structure PureMon where
  seen : List (String × List Char) := []     -- label token -> the legal text that produced it
  hexLines : Nat := 0
  concatLines : Nat := 0
  concatDefect : Nat := 0
  labelLines : Nat := 0
  legalTexts : Nat := 0
  panicsAgreed : Nat := 0

/-- judge a `hex …` or `label …` line; returns rejections as (property, message) -/
def judgePure (pm : PureMon) (ws : List String) (obs : String) : PureMon × List (String × String) :=
  let halves := obs.splitOn " ; "
  let left := halves.headD ""
  let right := (halves.drop 1).headD ""
  match ws with
  | "hex" :: "concat" :: _ =>
    let pm := { pm with concatLines := pm.concatLines + 1 }
    if left = right then (pm, []) else ({ pm with concatDefect := pm.concatDefect + 1 }, [("C16", s!"concat gives '{left}', the byte strings give '{right}'")])
  | "hex" :: "view" :: _ =>
    let pm := { pm with hexLines := pm.hexLines + 1 }
    match words left, words right with
    | ["ok", len, pr, bytes], [olen, obytes] =>
      let want := match bytesOfHex ((obytes.drop 1).toString) with
        | some bs => String.ofList (HD.print bs)
        | none => "?"
      if len = olen ∧ bytes = obytes ∧ pr = want then (pm, [])
      else (pm, [("C15", s!"len/print/bytes/to_vec give '{left}', the byte string is '{right}' (print {want})")])
    | _, _ => (pm, [("C15", s!"len/print/bytes/to_vec give '{left}', the byte string is '{right}'")])
  | "hex" :: "fromstr" :: _ => (pm, [])
  | "hex" :: _ =>
    let pm := { pm with hexLines := pm.hexLines + 1, panicsAgreed := pm.panicsAgreed + (if left = "panic" ∧ right = "panic" then 1 else 0) }
    if left = right then (pm, [])
    else (pm, [("C15", s!"Hex answers '{left}', the byte slice answers '{right}'")] ++
      (if (left.startsWith "panic") ∧ ¬ (right.startsWith "panic") then [("C07", s!"a Hex accessor panicked where the byte slice answers '{right}'")] else []))
  | ["label", "parse", t] =>
    let pm := { pm with labelLines := pm.labelLines + 1 }
    match parseTextTok t with
    | none => (pm, [])
    | some cs =>
      let o := words obs
      if o.head? = some "panic" then (pm, [("C17", "from_str panicked"), ("C07", "Label::from_str panicked: a text is never beyond a limit, the call must complete (with Err for a text that is no label)")])
      else if legalText cs then
        let pm := { pm with legalTexts := pm.legalTexts + 1 }
        match o with
        | ["ok", tok, printed] =>
          if printed ≠ showTextTok cs then (pm, [("C17", s!"legal text prints back as {printed}")])
          else match pm.seen.find? (fun e => e.1 = tok) with
            | some (_, other) =>
              if other = cs then (pm, []) else (pm, [("C17", s!"distinct legal texts {showTextTok other} and {showTextTok cs} give the same label {tok}")])
            | none => ({ pm with seen := (tok, cs) :: pm.seen }, [])
        | _ => (pm, [("C17", s!"legal text answered '{obs}'")])
      else
        let mustErr : Bool := match cs with
          | 'α' :: r => !rustUsize r
          | _ => decide (cs.length > 8)
        if mustErr = true ∧ o.head? ≠ some "err" then (pm, [("C17", s!"text that must be rejected answered '{obs}'")]) else (pm, [])
  | ["label", "print", l] =>
    let pm := { pm with labelLines := pm.labelLines + 1 }
    match parseLabelTok l with
    | none => (pm, [])
    | some lab =>
      if canonLabel lab then
        match words obs with
        | ["ok", _, back] => if back = l then (pm, []) else (pm, [("C17", s!"canonical label {l} prints and parses back as {back}")])
        | _ => (pm, [("C17", s!"canonical label {l} answered '{obs}'")])
      else (pm, [])
  | ["label", "kid", t, l] =>
    let pm := { pm with labelLines := pm.labelLines + 1 }
    -- the edge is bound under the name parsed from the text `t` and looked up under the label `l`: it must be found when `l` is
    -- the (canonical) label that text stands for, and must not be found under any other label (distinct texts, distinct labels)
    match parseLabelTok l, (parseTextTok t).bind Lb.parse with
    | some lab, some parsed =>
      if parsed = lab then
        (if canonLabel lab ∧ obs.trimAscii.toString ≠ "ok 1" then (pm, [("C17", s!"edge bound under the parsed name is not found under {l}: '{obs}'")]) else (pm, []))
      else if obs.trimAscii.toString = "ok 1" then (pm, [("C17", s!"edge bound under the name {t} is found under the different label {l}: distinct texts must give distinct labels")])
      else (pm, [])
    | _, _ => (pm, [])
  | _ => (pm, [])


/-! ### monitors of the text exports (C18, C20): the parsed text against the reference state -/

def upperHex (bs : List UInt8) : String := (hexOfBytes bs).toUpper

def sortStrs (l : List String) : List String := (l.toArray.qsort (· < ·)).toList

def edgeKeys (es : List (String × Nat)) : List String := sortStrs (es.map (fun e => e.1 ++ ">" ++ toString e.2))

/-- what the reference says a document must contain, as parsed nodes with edges in stored order -/
def expectNodes (r : R) (cap : Nat) : List PNode :=
  (R.keys r cap).map (fun v =>
    { id := v, edges := (r.edg v).map (fun e => (String.ofList (Lb.print e.1), e.2)),
      data := (r.dat v).map (fun d => upperHex d.toBytes) })

/-- same ids in the same (ascending) order, per node the same edge entries (as a set) and the same data -/
def nodesAgree (got want : List PNode) : Option String :=
  if got.map (·.id) ≠ want.map (·.id) then some s!"vertices {showNats (got.map (·.id))}, present are {showNats (want.map (·.id))}"
  else
    match (got.zip want).find? (fun p => edgeKeys p.1.edges ≠ edgeKeys p.2.edges ∨ p.1.data ≠ p.2.data) with
    | some (g, w) => some s!"vertex {g.id} shows {showPNodes [g]}, has {showPNodes [w]}"
    | none => none

def contentSig (ns : List PNode) : String :=
  showPNodes (ns.map (fun n => { n with edges := (n.edges.toArray.qsort (fun a b => a.1 ++ ">" ++ toString a.2 < b.1 ++ ">" ++ toString b.2)).toList }))

/-- vertices reachable from `v` through present vertices (BFS over the reference's edges) -/
def reachPresent (r : R) (v : Nat) : List Nat :=
  let step (s : List Nat) : List Nat :=
    s.foldl (fun acc u => (r.edg u).foldl (fun acc e => if e.2 ∈ acc ∨ e.2 ∉ r.ids then acc else acc ++ [e.2]) acc) s
  (List.range (r.ids.length + 1)).foldl (fun s _ => step s) [v]

/-- the lines of an `inspect` text, each with the vertex whose edge it lists -/
def withParents (v : Nat) (ls : List ILine) : List (Nat × ILine) :=
  (ls.foldl (fun (acc : List (Nat × ILine) × List Nat) l =>
    -- `stack[d]` = the vertex whose edges are listed at depth d
    let stack := acc.2.take (l.depth + 1)
    let parent := stack.getLastD v
    (acc.1 ++ [(parent, l)], stack ++ [l.target])) ([], [v])).1

def judgeInspect (r : R) (v : Nat) (ls : List ILine) : Option String :=
  let wp := withParents v ls
  let reach := reachPresent r v
  match reach.find? (fun u =>
    let listed := sortStrs ((wp.filter (·.1 = u)).map (fun p => p.2.label ++ ">" ++ toString p.2.target))
    listed ≠ edgeKeys ((r.edg u).map (fun e => (String.ofList (Lb.print e.1), e.2)))) with
  | some u =>
    let listed := (wp.filter (·.1 = u)).map (fun p => p.2.label ++ ">" ++ toString p.2.target)
    some s!"edges of reachable ν{u} listed as {listed}, it has {showEdges (r.edg u)}"
  | none => none

structure TextMon where
  sigs : List (String × String × String) := []      -- (command, content signature, text)
  xmlDocs : Nat := 0
  dotDocs : Nat := 0
  debugDocs : Nat := 0
  inspects : Nat := 0
  vprints : Nat := 0
  sameContentPairs : Nat := 0
  cyclesSeen : Nat := 0       -- inspect texts with at least one `…` line
  exactTextDiffs : Nat := 0

def judgeText (tm : TextMon) (m : HMon) (cmd : String) (arg : Option Nat) (obs : String) : TextMon × List (String × String) :=
  match words obs with
  | ["ok", t] =>
    let text := unesc t
    let want := expectNodes m.r m.cap
    if cmd = "xml" ∨ cmd = "dot" then
      let tm := if cmd = "xml" then { tm with xmlDocs := tm.xmlDocs + 1 } else { tm with dotDocs := tm.dotDocs + 1 }
      match (if cmd = "xml" then parseXml text else parseDot text) with
      | none => (tm, [("C18", s!"{cmd} text cannot be read back")])
      | some got =>
        match nodesAgree got want with
        | some msg => (tm, [("C18", s!"{cmd}: {msg}")])
        | none =>
          let sg := contentSig want
          match tm.sigs.find? (fun e => e.1 = cmd ∧ e.2.1 = sg) with
          | some (_, _, other) =>
            let tm := { tm with sameContentPairs := tm.sameContentPairs + 1 }
            if other = text then (tm, []) else (tm, [("C18", s!"{cmd}: two graphs with the same content give different texts")])
          | none => ({ tm with sigs := (cmd, sg, text) :: tm.sigs.take 400 }, [])
    else if cmd = "debug" ∨ cmd = "display" then
      let tm := { tm with debugDocs := tm.debugDocs + 1 }
      match parseDebug text with
      | none => (tm, [("C20", s!"{cmd} text cannot be read back")])
      | some (got, _) =>
        match nodesAgree got want with
        | some msg => (tm, [("C20", s!"{cmd}: {msg}")])
        | none => (tm, [])
    else if cmd = "vprint" then
      let tm := { tm with vprints := tm.vprints + 1 }
      match parseVPrint text, arg with
      | some (v, marker, labels), some a =>
        let wantLabels := sortStrs ((m.r.edg a).map (fun e => String.ofList (Lb.print e.1)))
        if a ∉ m.r.ids then (tm, [])
        else if v ≠ a ∨ marker ≠ (m.r.dat a).isSome ∨ sortStrs labels ≠ wantLabels then
          (tm, [("C20", s!"v_print shows marker={marker} labels={labels}; the vertex has data={(m.r.dat a).isSome} labels={wantLabels}")])
        else (tm, [])
      | _, _ => (tm, [("C20", "v_print text cannot be read back")])
    else if cmd = "inspect" then
      let tm := { tm with inspects := tm.inspects + 1 }
      match parseInspect text, arg with
      | some (v, ls), some a =>
        let tm := if ls.any (·.ellipsis) then { tm with cyclesSeen := tm.cyclesSeen + 1 } else tm
        if a ∉ m.r.ids then (tm, [])
        else if v ≠ a then (tm, [("C20", s!"inspect starts at ν{v}")])
        else match judgeInspect m.r a ls with
          | some msg => (tm, [("C20", "inspect: " ++ msg)])
          | none => (tm, [])
      | _, _ => (tm, [("C20", "inspect text cannot be read back")])
    else (tm, [])
  | _ =>
    if cmd = "xml" ∨ cmd = "dot" then (tm, [("C18", s!"{cmd} answered '{obs.take 40}'")])
    else (tm, [("C20", s!"{cmd} answered '{obs.take 40}' (no text: panic, abort or time-out)")])


/-! ### monitors of `slice` (C13) and `merge` (C11, C12) -/

/-- a parsed `observe` line: per present vertex its data marker and its edges (label token, target) -/
structure OEntry where
  id : Nat
  marker : Bool
  edges : List (String × Nat)
deriving BEq

def parseObserve (line : String) : Option (List OEntry) :=
  match words line with
  | "ok" :: ents =>
    ents.mapM (fun (e : String) =>
      match e.splitOn "[" with
      | [hd, tl] =>
        let marker := hd.endsWith "!"
        let idt := if marker then (hd.dropEnd 1).toString else hd
        let body := if tl.endsWith "]" then (tl.dropEnd 1).toString else tl
        let es := if body = "" then some [] else (body.splitOn ",").mapM (fun (x : String) =>
          match x.splitOn ">" with
          | [l, t] => t.toNat?.map (fun t => (l, t))
          | _ => none)
        match idt.toNat?, es with
        | some i, some es => some ⟨i, marker, es⟩
        | _, _ => none
      | _ => none)
  | _ => none

def dedupNat (l : List Nat) : List Nat := l.foldl (fun acc x => if x ∈ acc then acc else acc ++ [x]) []

def sortNats (l : List Nat) : List Nat := (l.toArray.qsort (· < ·)).toList

/-- what the first `observe` of a sliced graph must satisfy -/
structure SliceSpec where
  kept : List Nat
  must : List (Nat × String × Nat)      -- accepted source edges between kept vertices
  may : List (Nat × String × Nat)       -- all source edges of kept vertices

/-- what the first `observe` of the left graph after a merge of two trees must satisfy -/
structure MergeSpec where
  pre : List OEntry                       -- the left graph before
  leftV : Nat
  hPaths : List (Nat × List String × Bool)  -- right-graph vertex, its label path from `right`, has data
  line : Nat

/-- the label paths of every vertex reachable from `root` (first path found; fuel = number of vertices) -/
def labelPaths (r : R) (root : Nat) : List (Nat × List String) :=
  let step (acc : List (Nat × List String)) : List (Nat × List String) :=
    acc.foldl (fun acc (u, path) =>
      (r.edg u).foldl (fun acc e => if acc.any (·.1 = e.2) then acc else acc ++ [(e.2, path ++ [showLabelTok e.1])]) acc) acc
  (List.range (r.ids.length + 1)).foldl (fun acc _ => step acc) [(root, [])]

/-- is the alive part of `r` a tree rooted at `root` (all alive vertices reachable, |edges| = |vertices| - 1,
    every edge target alive)? -/
def isTreeAt (r : R) (root : Nat) : Bool :=
  let reach := (labelPaths r root).map (·.1)
  let edges := r.ids.flatMap (fun v => (r.edg v).map (fun e => e.2))
  root ∈ r.ids && r.ids.all (· ∈ reach) && reach.all (· ∈ r.ids) && edges.length + 1 = r.ids.length && edges.all (· ∈ r.ids)

def isTreeSomewhere (r : R) : Bool := r.ids.any (fun v => isTreeAt r v)

def walkObs (obs : List OEntry) (start : Nat) (path : List String) : Option Nat :=
  path.foldl (fun (cur : Option Nat) l =>
    cur.bind (fun u => (obs.find? (·.id = u)).bind (fun e => (e.edges.find? (·.1 = l)).map (·.2)))) (some start)

def checkGraft (sp : MergeSpec) (post : List OEntry) : Option String :=
  -- (a) every label path of h exists from `left`, ends in a vertex with the data marker when h's vertex has data
  let images := sp.hPaths.map (fun (hv, path, hasData) => (hv, path, hasData, walkObs post sp.leftV path))
  match images.find? (fun (_, _, _, im) => im.isNone) with
  | some (hv, path, _, _) => some s!"path {path} of right vertex {hv} does not exist from ν{sp.leftV}"
  | none =>
    match images.find? (fun (_, _, hasData, im) => hasData ∧ ¬ (post.any (fun e => some e.id = im ∧ e.marker))) with
    | some (hv, _, _, _) => some s!"image of right vertex {hv} carries no data"
    | none =>
      let ims := images.filterMap (·.2.2.2)
      if (dedupNat ims).length ≠ ims.length then some "distinct right vertices land on the same left vertex"
      else
        -- (b) everything the left graph had is still there
        match sp.pre.find? (fun e => ¬ post.any (fun q => q.id = e.id ∧ (e.marker → q.marker) ∧ e.edges.all (fun x => x ∈ q.edges))) with
        | some e => some s!"vertex {e.id} of the left graph lost an edge, its data or itself"
        | none =>
          -- (c) exactly one new vertex per path the left graph lacked
          let lacking := (sp.hPaths.filter (fun (_, path, _) => (walkObs sp.pre sp.leftV path).isNone)).length
          if post.length ≠ sp.pre.length + lacking then
            some s!"{post.length - sp.pre.length} new vertices, {lacking} paths were lacking"
          else
            -- only edges demanded by h are added: a new edge of an old vertex is on the image of an h path
            none

structure JSt where
  mons : Array (Option HMon) := #[]
  rejects : Array Reject := #[]
  stats : Stats := {}
  everAlive : List (Nat × Nat) := []   -- (handle, id) seen present in this history
  histStart : Nat := 0                 -- line number of the current history's `reset`
  histMark : Stats := {}               -- statistics at that line
  hists : Array String := #[]          -- one summary per finished history
  pm : PureMon := {}
  tm : TextMon := {}
  lastObs : List (Nat × List OEntry) := []
  freshObs : List (Nat × List OEntry) := []     -- the last `observe` of a handle, as long as nothing was called on it since
  lastSnap : List (Nat × String) := []
  trails : List (Nat × UInt64) := []    -- per handle: a hash of the calls that made it (lock-step pairs have equal trails)
  snapPairs : Nat := 0
  sliceSpecs : List (Nat × SliceSpec) := []
  mergeSpecs : List (Nat × MergeSpec) := []
  slices : Nat := 0
  slicesJudged : Nat := 0
  sliceWithCycle : Nat := 0
  merges : Nat := 0
  scripts : Nat := 0
  scriptsJudged : Nat := 0
  scriptCommands : Nat := 0
  scriptsMalformed : Nat := 0
  sameChecks : Nat := 0
  mergesJudged : Nat := 0
  mergesOfTrees : Nat := 0
  mergesErr : Nat := 0

def JSt.getMon (j : JSt) (h : Nat) : Option HMon := j.mons.getD h none
def JSt.setMon (j : JSt) (h : Nat) (m : HMon) : JSt :=
  let ms := if h < j.mons.size then j.mons else j.mons ++ Array.replicate (h + 1 - j.mons.size) none
  { j with mons := ms.setIfInBounds h (some m) }
def JSt.reject (j : JSt) (prop : String) (line : Nat) (msg : String) : JSt :=
  { j with rejects := j.rejects.push ⟨prop, line, msg⟩ }

def assocGet {α β} [DecidableEq α] (l : List (α × β)) (k : α) : Option β := (l.find? (fun e => e.1 = k)).map (·.2)
def assocSet {α β} [DecidableEq α] (l : List (α × β)) (k : α) (v : β) : List (α × β) :=
  (k, v) :: l.filter (fun e => e.1 ≠ k)

/-- connected component of `v` in the undirected graph `pairs` (fuel = number of pairs + 1 rounds) -/
def component (pairs : List (Nat × Nat)) (v : Nat) : List Nat :=
  let step (s : List Nat) : List Nat :=
    pairs.foldl (fun s p =>
      if p.1 ∈ s ∧ p.2 ∉ s then p.2 :: s else if p.2 ∈ s ∧ p.1 ∉ s then p.1 :: s else s) s
  (List.range (pairs.length + 1)).foldl (fun s _ => step s) [v]

def showEntryR (r : R) (v : Nat) : String :=
  toString v ++ (if (r.dat v).isNone then "" else "!") ++ showEdges (r.edg v)

/-- expected observation of a core call according to the reference (after the call) -/
def expectR (cap : Nat) (r r' : R) (op : Op) : String × List Nat × List String :=
  let o := (R.step cap r op).2
  (((showOut o).drop 3).toString, R.keys r' cap, ((opArgs op).filter (· ∈ r'.ids)).map (showEntryR r'))

/-- history bookkeeping of the direct monitors, applied after a judged call -/
def Hist.update (hs : Hist) (op : Op) (prevKeys keys : List Nat) (out : String) : Hist :=
  -- vertices that disappeared leave the component graph when re-created (see `add`)
  match op with
  | .add v =>
    if v ∈ prevKeys then hs
    else { hs with pairs := hs.pairs.filter (fun p => p.1 ≠ v ∧ p.2 ≠ v),
                   unread := hs.unread.filter (· ≠ v), bound := hs.bound.filter (· ≠ v),
                   edges := hs.edges.filter (·.1 ≠ v), puts := hs.puts.filter (·.1 ≠ v) }
  | .bind v1 v2 a =>
    let es := (assocGet hs.edges v1).getD []
    { hs with pairs := (v1, v2) :: hs.pairs, bound := v1 :: v2 :: hs.bound,
              edges := assocSet hs.edges v1 (upsert es a v2) }
  | .put v d => { hs with unread := v :: hs.unread.filter (· ≠ v), puts := assocSet hs.puts v d.toBytes }
  | .data v => { hs with unread := hs.unread.filter (· ≠ v) }
  | .nextId => match out.toNat? with
    | some i => { hs with issued := i :: hs.issued }
    | none => hs
  | _ => hs
where upsert := @Sodg.upsert Label _

/-- judge one core call on a handle; returns the new monitor and the rejections -/
def judgeCore (m : HMon) (op : Op) (o : Obs) : HMon × List (String × String) :=
  if ¬ okStepB m.n m.cap m.r op then ({ m with judged := false }, [("", "left the quantifier")])
  else
    let r' := (R.step m.cap m.r op).1
    let (ePayload, eKeys, eTouched) := expectR m.cap m.r r' op
    let hs := m.hist
    let rej : List (String × String) := []
    -- C02 / C07: no panic inside the limits
    if o.status ≠ "ok" then
      ({ m with judged := false }, [("C02", s!"call inside the limits answered '{o.status}'"), ("C07", s!"call inside the limits answered '{o.status}'"),
        ("C06", s!"call inside the limits answered '{o.status}'"),
        -- and of the property that says what this call does
        ((match op with | .add _ => "C04" | .nextId => "C05" | _ => "C03"), s!"call inside the limits answered '{o.status}'")])
    else
      -- C02: alive set equals the reference's
      let rej := if o.keys ≠ eKeys then
          rej ++ [("C02", s!"alive set {showNats o.keys}, reference {showNats eKeys}"), ("C06", s!"alive set {showNats o.keys}, reference {showNats eKeys}")]
        else rej
      -- C01: direct
      let lost := m.prevKeys.filter (· ∉ o.keys)
      let rej := if lost ≠ [] then
          match op with
          | .data v =>
            if v ∉ hs.unread then rej ++ [("C01", s!"{showNats lost} removed by a read of ν{v}, which held no unread datum")]
            else
              let comp := component hs.pairs v
              let bad1 := lost.filter (· ∉ comp)
              let bad2 := lost.filter (fun w => w ≠ v ∧ w ∈ hs.unread)
              let bad3 := lost.filter (· ∉ hs.bound)
              (if bad1 ≠ [] then rej ++ [("C01", s!"{showNats bad1} removed but not linked to ν{v} by binds")] else rej)
                ++ (if bad2 ≠ [] then [("C01", s!"{showNats bad2} removed while holding unread data")] else [])
                ++ (if bad3 ≠ [] then [("C01", s!"{showNats bad3} removed though never bound")] else [])
          | _ => rej ++ [("C01", s!"{showNats lost} removed by a call that is not a read")]
        else rej
      -- C03: direct, from the raw history
      let rej := match op with
        | .kid v a =>
          let want := lookup ((assocGet hs.edges v).getD []) a
          if o.payload ≠ showOptNat want then rej ++ [("C03", s!"kid answered {o.payload}, last bind says {showOptNat want}")] else rej
        | .kids v =>
          let want := showEdges ((assocGet hs.edges v).getD [])
          if o.payload ≠ want then rej ++ [("C03", s!"kids answered {o.payload}, binds say {want}")] else rej
        | .data v =>
          let want := match assocGet hs.puts v with
            | none => "none"
            | some bs => showBytes bs
          if o.payload ≠ want then rej ++ [("C03", s!"data answered {o.payload}, last put says {want}")] else rej
        | _ => rej
      -- touched entries (edges and data marker of the argument vertices) against the reference
      let rej := if o.touched ≠ eTouched then
          rej ++ [((match op with | .add _ => "C04" | _ => "C03"), s!"entries {o.touched}, reference {eTouched}")] ++
            -- a created vertex that shows edges or data yields kid/kids/data answers never written since its creation
            (match op with
             | .add v => if v ∉ m.prevKeys then [("C03", s!"created vertex shows {o.touched}: edges or data not written since it was created")] else []
             | _ => [])
        else rej
      -- C04: direct
      let rej := match op with
        | .add v =>
          if v ∉ m.prevKeys then
            if o.touched ≠ [toString v ++ "[]"] then rej ++ [("C04", s!"add of an absent id shows {o.touched}")] else rej
          else if o.keys ≠ m.prevKeys then rej ++ [("C04", "add of a present id changed the alive set")] else rej
        | _ => rej
      -- C05: direct
      let rej := match op with
        | .nextId =>
          match o.payload.toNat? with
          | none => rej ++ [("C05", s!"next_id answered {o.payload}")]
          | some i =>
            (if i ≥ m.cap then rej ++ [("C05", s!"id {i} not below the capacity")] else rej)
              ++ (if i ∈ m.prevKeys then [("C05", s!"id {i} is present")] else [])
              ++ (if i ∈ hs.issued then [("C05", s!"id {i} was returned before")] else [])
        | _ => rej
      -- payload against the reference (determinism of ids, data, kids order: C19's content; reported with C02's correspondence)
      let rej := if o.payload ≠ ePayload ∧ rej = [] then rej ++ [("REF", s!"answer {o.payload}, reference {ePayload}")] else rej
      -- every 24 calls the closure chains of the reference tables are flattened
      let r' := if m.steps % 24 = 23 then compactR m.cap r' else r'
      let m' := { m with r := r', prevKeys := o.keys, hist := hs.update op m.prevKeys o.keys o.payload,
                         judged := rej = [], watch := rej ≠ [], steps := m.steps + 1 }
      (m', rej)

def noteStats (st : Stats) (m : HMon) (op : Op) (o : Obs) (ever : Bool) : Stats :=
  let lost := (m.prevKeys.filter (· ∉ o.keys)).length
  let st := { st with judgedCalls := st.judgedCalls + 1 }
  let st := if lost > 0 then { st with collections := st.collections + 1, collected := st.collected + lost } else st
  let st := match op with
    | .nextId => { st with nextIds := st.nextIds + 1 }
    | .add v => if v ∉ m.prevKeys ∧ ever then { st with readds := st.readds + 1 } else st
    | .put v _ => if v ∈ m.hist.unread then { st with overwrites := st.overwrites + 1 } else st
    | .bind _ _ _ =>
      let gs := m.r.groups
      let mm := (gs.map (fun k => (m.r.members k).length)).foldl max 0
      { st with maxGroups := max st.maxGroups gs.length, maxMembers := max st.maxMembers mm }
    | _ => st
  st

/-- close the current history: one line `HIST <first> <last> <collections> <readds> <overwrites> <nextids> <judged>` -/
def JSt.closeHist (j : JSt) (lastLine : Nat) : JSt :=
  if j.histStart = 0 then j
  else
    let a := j.histMark
    let b := j.stats
    { j with hists := j.hists.push s!"HIST {j.histStart} {lastLine} {b.collections - a.collections} {b.readds - a.readds} {b.overwrites - a.overwrites} {b.nextIds - a.nextIds} {b.judgedCalls - a.judgedCalls}" }

/-- C13 without a reference state, for a source the history monitors no longer judge (beyond the group limit, after a
    non-tree merge): the statement of C13 read off the last full observation of the source — taken with nothing called on
    it since — when everything reachable from `v` along accepted edges is present there and numbers at most 14 -/
def sliceFree (j : JSt) (lineNo a v b : Nat) (rj : List (Nat × Nat × Label)) (obsLine : String) (m : HMon) : JSt :=
  match j.freshObs.find? (·.1 = a) with
  | none => j
  | some (_, ents) =>
    let present := ents.map OEntry.id
    let edgesOf (x : Nat) : List (String × Nat) := match ents.find? (·.id = x) with | some e => e.edges | none => []
    let accepted (x : Nat) (e : String × Nat) : Bool := match parseLabelTok e.1 with
      | some l => !rj.contains (x, e.2, l)
      | none => true
    let step (acc : List Nat) : List Nat :=
      acc.foldl (fun acc x => (edgesOf x).foldl (fun acc e => if accepted x e ∧ e.2 ∉ acc then acc ++ [e.2] else acc) acc) acc
    let clo := (List.range (present.length + 1)).foldl (fun acc _ => step acc) [v]
    let kept := sortNats clo
    if v ∉ present ∨ ¬ kept.all (· ∈ present) ∨ kept.length > 14 then j
    else
      let o := parseObs obsLine
      let srcE := kept.flatMap (fun x => (edgesOf x).map (fun e => (x, e.1, e.2)))
      let spec : SliceSpec :=
        { kept := kept, must := srcE.filter (fun (x, l, t) => t ∈ kept ∧ accepted x (l, t)), may := srcE }
      let j := { j with slicesJudged := j.slicesJudged + 1, sliceSpecs := (b, spec) :: j.sliceSpecs.filter (·.1 ≠ b) }
      let j := j.setMon b { n := m.n, cap := m.cap, judged := false }
      if o.status ≠ "ok" then
        j.reject "C13" lineNo s!"slice answered '{obsLine}'; in the source as last observed everything reachable from ν{v} is present: {showNats kept}"
      else if o.keys ≠ kept then
        j.reject "C13" lineNo s!"slice holds {showNats o.keys}, reachable along accepted edges (source as last observed) are {showNats kept}"
      else j

/-- C18 / C20 (Debug, Display) without a reference state, for a handle the history monitors no longer judge: the parsed records
    against the last full observation of the handle (nothing was called on it since) — the same vertices in ascending order, per
    vertex the same edge entries, data shown exactly for the vertices that hold data (the bytes are not in an observation) -/
def judgeTextFree (ents : List OEntry) (cmd : String) (obs : String) : List (String × String) :=
  let prop := if cmd = "xml" ∨ cmd = "dot" then "C18" else "C20"
  match words obs with
  | ["ok", t] =>
    let text := unesc t
    let parsed : Option (List PNode) :=
      if cmd = "xml" then parseXml text else if cmd = "dot" then parseDot text else (parseDebug text).map (·.1)
    match parsed with
    | none => [(prop, s!"{cmd} text cannot be read back")]
    | some got =>
      let want : List PNode := ents.map (fun e =>
        { id := e.id,
          edges := e.edges.map (fun x => ((match parseLabelTok x.1 with | some l => String.ofList (Lb.print l) | none => x.1), x.2)),
          data := if e.marker then some "?" else none })
      if got.map (·.id) ≠ want.map (·.id) then
        [(prop, s!"{cmd}: vertices {showNats (got.map (·.id))}, present (as last observed) are {showNats (want.map (·.id))}")]
      else match (got.zip want).find? (fun p => edgeKeys p.1.edges ≠ edgeKeys p.2.edges ∨ p.1.data.isSome ≠ p.2.data.isSome) with
        | some (g, w) => [(prop, s!"{cmd}: vertex {g.id} shows {showPNodes [g]}, has (as last observed) {showPNodes [w]}")]
        | none => []
  | _ => [(prop, s!"{cmd} answered '{obs.take 40}'")]

/-- a stand-in for the reference state read off a full observation: the present vertices, their edges, and *whether* they hold
    data (the bytes are not in an observation) — enough for `inspect` and `v_print` (C20) -/
def rOfObs (ents : List OEntry) : R :=
  { (Sodg.R.empty : R) with
    ids := ents.map (·.id),
    edg := fun v => match ents.find? (·.id = v) with
      | some e => e.edges.filterMap (fun x => (parseLabelTok x.1).map (fun l => (l, x.2)))
      | none => [],
    dat := fun v => match ents.find? (·.id = v) with
      | some e => if e.marker then some default else none
      | none => none }

/-- everything reachable from `v` over the observed edges is present (then `inspect(v)` reads present slots only) -/
def closedInObs (ents : List OEntry) (v : Nat) : Bool :=
  let present := ents.map (·.id)
  let edgesOf (x : Nat) : List Nat := match ents.find? (·.id = x) with | some e => e.edges.map (·.2) | none => []
  let step (acc : List Nat) : List Nat := acc.foldl (fun acc x => (edgesOf x).foldl (fun acc t => if t ∈ acc then acc else acc ++ [t]) acc) acc
  let clo := (List.range (present.length + 1)).foldl (fun acc _ => step acc) [v]
  clo.all (· ∈ present)

def judgeLine2 (j : JSt) (lineNo : Nat) (opLine obsLine : String) : JSt :=
  let j := { j with stats := { j.stats with calls := j.stats.calls + 1 } }
  match words opLine with
  | ["reset"] =>
    let j := j.closeHist (lineNo - 1)
    { j with mons := #[], everAlive := [], lastObs := [], freshObs := [], lastSnap := [], sliceSpecs := [], mergeSpecs := [], histStart := lineNo, histMark := j.stats,
             stats := { j.stats with histories := j.stats.histories + 1 } }
  | ["new", h, n, c] =>
    match parseHandle h, n.toNat?, c.toNat? with
    | some h, some n, some c => j.setMon h { n, cap := c }
    | _, _, _ => j
  | ["clone", a, b] =>
    match parseHandle a, parseHandle b with
    | some a, some b =>
      match j.getMon a with
      | some m =>
        let o := parseObs obsLine
        if m.judged ∧ (o.status ≠ "ok" ∨ o.keys ≠ m.prevKeys) then
          (j.setMon b { m with judged := false }).reject "C10" lineNo s!"clone shows {showNats o.keys}, original {showNats m.prevKeys}"
        else (j.setMon a { m with origin := "C10" }).setMon b { m with origin := "C10" }
      | none => j
    | _, _ => j
  | ["reload", a, b] =>
    match parseHandle a, parseHandle b with
    | some a, some b =>
      match j.getMon a with
      | some m =>
        let o := parseObs obsLine
        -- the reloaded graph: same content, allocator restarted, ids may be handed out again (C05 exempts reload)
        let m' := { m with r := { m.r with pos := 0 }, hist := { m.hist with issued := [] }, origin := "C08" }
        if m.judged ∧ (o.status ≠ "ok" ∨ o.keys ≠ m.prevKeys) then
          (j.setMon b { m' with judged := false }).reject "C08" lineNo s!"reload answers '{obsLine}', original has {showNats m.prevKeys}"
        else j.setMon b m'
      | none => j
    | _, _ => j
  | ["slice", a, v, b, rej] =>
    match parseHandle a, v.toNat?, parseHandle b, parseRej rej with
    | some a, some v, some b, some rj =>
      let j := { j with slices := j.slices + 1 }
      match j.getMon a with
      | some m =>
        if ¬ m.judged then sliceFree j lineNo a v b rj obsLine m
        else
          let p : Nat → Nat → Label → Bool := fun x y l => !rj.contains (x, y, l)
          match refSliceDone m.r (m.cap + 1) v p with
          | none => j
          | some done =>
            let kept := sortNats (dedupNat done)
            -- inside the quantifier: start present, everything reachable present, at most 14 vertices
            if v ∉ m.r.ids ∨ ¬ kept.all (· ∈ m.r.ids) ∨ kept.length > 14 then
              j.setMon b { n := m.n, cap := m.cap, judged := false }
            else
              let o := parseObs obsLine
              let (rb, valid) := refRebuild m.n m.cap m.r kept
              let srcE := kept.flatMap (fun x => (m.r.edg x).map (fun e => (x, e.1, e.2)))
              let spec : SliceSpec :=
                { kept := kept, must := (srcE.filter (fun (x, l, t) => t ∈ kept ∧ p x t l)).map (fun (x, l, t) => (x, showLabelTok l, t)),
                  may := srcE.map (fun (x, l, t) => (x, showLabelTok l, t)) }
              let cyc := kept.any (fun x => (m.r.edg x).any (fun e => e.2 ∈ kept ∧ e.2 ≤ x))
              let j := { j with slicesJudged := j.slicesJudged + 1, sliceWithCycle := j.sliceWithCycle + (if cyc then 1 else 0) }
              let j := (j.setMon a { m with origin := if m.origin = "" then "C13" else m.origin }).setMon b
                { n := m.n, cap := m.cap, r := rb, judged := valid, prevKeys := o.keys, origin := "C13", hist := Hist.ofR rb [] [] [] }
              let j := { j with sliceSpecs := (b, spec) :: j.sliceSpecs.filter (·.1 ≠ b) }
              if o.status ≠ "ok" then j.reject "C13" lineNo s!"slice answered '{obsLine}'"
              else if o.keys ≠ kept then j.reject "C13" lineNo s!"slice holds {showNats o.keys}, reachable along accepted edges are {showNats kept}"
              else j
      | none => j
    | _, _, _, _ => j
  | ["merge", a, b, l, r] =>
    match parseHandle a, parseHandle b, l.toNat?, r.toNat? with
    | some a, some b, some l, some r =>
      let j := { j with merges := j.merges + 1 }
      match j.getMon a, j.getMon b with
      | some ma, some mb =>
        -- a merge from a graph that is no longer judged leaves the left graph in a state the reference does not know
        -- (a right graph that was rejected before but whose reference state is still being followed — `watch` — is
        -- still a known right graph: what is present in it is a matter of the calls made, not of what `keys()` said)
        if ¬ ma.judged ∨ ¬ (mb.judged ∨ mb.watch) then j.setMon a { ma with judged := false, watch := false }
        else
          match refMerge ma.n ma.cap mb.cap ma.r mb.r l r with
          | none => j.setMon a { ma with judged := false }
          | some (_, .joined, _) => j.setMon a { ma with judged := false }
          | some (ra', out, valid) =>
            -- the quantifier: left present, right present, every call within the limits, all edge targets of h present
            let closedH := mb.r.ids.all (fun u => (mb.r.edg u).all (fun e => e.2 ∈ mb.r.ids))
            if ¬ valid ∨ l ∉ ma.r.ids ∨ r ∉ mb.r.ids ∨ ¬ closedH then j.setMon a { ma with judged := false }
            else
              let o := parseObs obsLine
              let j := { j with mergesJudged := j.mergesJudged + 1 }
              let reachH := (labelPaths mb.r r).map (·.1)
              let missedWant := (R.keys mb.r mb.cap).filter (· ∉ reachH)
              let bothTrees : Bool := isTreeAt mb.r r && isTreeSomewhere ma.r
              let j := { j with mergesOfTrees := j.mergesOfTrees + (if bothTrees then 1 else 0),
                                mergesErr := j.mergesErr + (if missedWant ≠ [] then 1 else 0) }
              -- C12, directly from the statement
              let j := if o.status = "ok" ∧ missedWant ≠ [] then
                  j.reject "C12" lineNo s!"merge reports success, present vertices {showNats missedWant} of the right graph cannot be reached from ν{r}"
                else if o.status = "err" ∧ missedWant = [] then
                  j.reject "C12" lineNo s!"merge reports '{obsLine}' though every present vertex is reachable"
                else if o.status = "err" ∧ (words o.payload).headD "" ≠ showNats missedWant then
                  j.reject "C12" lineNo s!"merge names {o.payload}, missed are {showNats missedWant}"
                else if o.status ≠ "ok" ∧ o.status ≠ "err" then j.reject "C12" lineNo s!"merge answered '{obsLine}'"
                else j
              -- C11: trees merge with Ok
              let j := if bothTrees ∧ o.status ≠ "ok" then j.reject "C11" lineNo s!"merge of two trees answered '{obsLine}'" else j
              -- agreement with the reference run of the same algorithm (outcome and alive set)
              let wantOut := match out with
                | .ok => "ok"
                | .err ms => "err " ++ showNats ms
                | .joined => "joined"
              let gotOut := if o.status = "err" then "err " ++ (words o.payload).headD "" else o.status
              let j := if gotOut ≠ wantOut ∨ o.keys ≠ R.keys ra' ma.cap then
                  j.reject (if bothTrees then "C11" else "REF") lineNo s!"merge answers '{gotOut}' with {showNats o.keys}; the reference run gives '{wantOut}' with {showNats (R.keys ra' ma.cap)}"
                else j
              -- merge is not a read: it removes nobody (C01)
              let lostIds := ma.prevKeys.filter (· ∉ o.keys)
              let j := if lostIds ≠ [] ∧ o.status ≠ "panic" then j.reject "C01" lineNo s!"{showNats lostIds} removed by merge, which is not a read" else j
              -- ids created inside merge are fresh (C05)
              let newIds := o.keys.filter (· ∉ ma.prevKeys)
              let j := if newIds.any (· ∈ ma.hist.issued) then j.reject "C05" lineNo s!"merge created a vertex under an id returned before: {showNats newIds}" else j
              let hp : List (Nat × List String × Bool) := (labelPaths mb.r r).map (fun x => (x.1, x.2, (mb.r.dat x.1).isSome))
              let spec : Option MergeSpec :=
                match bothTrees, j.lastObs.find? (·.1 = a) with
                | true, some x => some (MergeSpec.mk x.2 l hp lineNo)
                | _, _ => none
              let j := match spec with
                | some sp => { j with mergeSpecs := (a, sp) :: j.mergeSpecs.filter (·.1 ≠ a) }
                | none => j
              -- the history-based monitors restart from the reference view after a merge
              let h0 : Hist := ma.hist
              let newEdges : List (Nat × List (Label × Nat)) := ra'.ids.map (fun v => (v, ra'.edg v))
              let newPuts : List (Nat × List UInt8) := ra'.ids.filterMap (fun v => (ra'.dat v).map (fun d => (v, d.toBytes)))
              let newUnread : List Nat := ra'.ids.filter (fun v => ra'.unr v)
              let newPairs : List (Nat × Nat) := h0.pairs ++ ra'.ids.flatMap (fun v => (ra'.edg v).map (fun e => (v, e.2)))
              let newBound : List Nat := h0.bound ++ ra'.ids.flatMap (fun v => (ra'.edg v).flatMap (fun e => [v, e.2]))
              let hist' : Hist := Hist.mk newPairs newUnread newBound newEdges newPuts (h0.issued ++ newIds)
              (j.setMon a { ma with r := ra', prevKeys := o.keys, origin := "C11", hist := hist', judged := true }).setMon b { mb with origin := "C11" }
      | _, _ => j
    | _, _, _, _ => j
  | ["same", a, b] =>
    -- the graph after the script and the graph after the direct calls must look the same
    match parseHandle a, parseHandle b with
    | some a, some b =>
      let j := { j with sameChecks := j.sameChecks + 1 }
      match j.lastObs.find? (·.1 = a), j.lastObs.find? (·.1 = b) with
      | some (_, x), some (_, y) =>
        -- judged only where the comparison is meant: after a script on `a` (C14), or on a clone / its slices (C10)
        let origin := match j.getMon a with
          | some m => if m.judged then m.origin else ""
          | none => ""
        if origin = "C14" then
          -- only when the second graph really received the same calls: by the reference, both must hold the same vertices,
          -- edges and data (a candidate of the shrinker that dropped direct calls of the second graph is no counter-example)
          let sameRef : Bool := match j.getMon a, j.getMon b with
            | some ma, some mb =>
              mb.judged && sortNats ma.r.ids == sortNats mb.r.ids &&
                ma.r.ids.all (fun v => ma.r.edg v == mb.r.edg v && (ma.r.dat v).map (·.toBytes) == (mb.r.dat v).map (·.toBytes))
            | _, _ => false
          if x == y || !sameRef then j else j.reject "C14" lineNo "the graph after deploy_to() differs from the graph after the same direct calls"
        else if origin = "C10" ∨ origin = "C13" then
          -- only a pair in lock-step (the same calls on both since the clone) must look the same: a candidate of the
          -- shrinker that dropped a call of one side is not a counter-example
          if x == y then j
          else if (j.trails.find? (·.1 = a)).map (·.2) ≠ (j.trails.find? (·.1 = b)).map (·.2) then j
          else j.reject "C10" lineNo "the same query on the original and on the clone gives different graphs"
        else j
      | _, _ => j
    | _, _ => j
  | ["script", a, t] =>
    match parseHandle a, parseTextTok t with
    | some a, some text =>
      let j := { j with scripts := j.scripts + 1 }
      match j.getMon a with
      | some m =>
        if ¬ m.judged then j.setMon a { m with watch := false }
        else
          let prog : List (Option ACmdC) := S.parseScript Ss.isWs Ss.pV Ss.pL Ss.pD text
          let (r', want, k, valid, calls) := refScript m.n m.cap prog m.r [] 0 true []
          if ¬ valid then j.setMon a { m with judged := false }
          else
            let o := parseObs obsLine
            let wellFormed := prog.all (·.isSome)
            let j := { j with scriptsJudged := j.scriptsJudged + 1, scriptCommands := j.scriptCommands + k,
                              scriptsMalformed := j.scriptsMalformed + (if wellFormed then 0 else 1) }
            let count := (words o.payload).headD ""
            -- every call the script makes is within the limits (`valid`): a panic is a violation of C07 of its own
            let j := if o.status = "panic" then j.reject "C07" lineNo "script whose calls are all within the limits answered 'panic'" else j
            let j := if wellFormed ∧ (o.status ≠ "ok" ∨ count ≠ toString prog.length) then
                j.reject "C14" lineNo s!"well-formed script of {prog.length} commands answered '{o.status} {count}'"
              else if ¬ wellFormed ∧ o.status ≠ "err" then
                j.reject "C14" lineNo s!"script whose command no.{k} is malformed answered '{o.status} {count}' instead of Err"
              else j
            let j := if o.keys ≠ R.keys r' m.cap then
                j.reject "C14" lineNo s!"after the script the graph holds {showNats o.keys}, the same calls give {showNats (R.keys r' m.cap)}"
              else j
            -- the history-based monitors replay the concrete calls the script made, one by one
            let (hist', _, _) := calls.foldl (fun (acc : Hist × R × List Nat) op =>
              let (hs, rr, ks) := acc
              let rr' := (R.step m.cap rr op).1
              let out := match (R.step m.cap rr op).2 with
                | .id i => toString i
                | _ => ""
              (hs.update op ks (R.keys rr' m.cap) out, rr', R.keys rr' m.cap)) (m.hist, m.r, m.prevKeys)
            -- after a malformed command the allocator may have been consulted by the failing command: stop judging
            j.setMon a { m with r := r', prevKeys := o.keys, origin := "C14", hist := hist', judged := wellFormed }
      | none => j
    | _, _ => j
  | ["snap", a] =>
    match parseHandle a with
    | some h => { j with lastSnap := (h, obsLine) :: j.lastSnap.filter (·.1 ≠ h) }
    | none => j
  | ["samesnap", a, b] =>
    -- the complete internal state of an original and its clone (hook), allocator position included
    match parseHandle a, parseHandle b with
    | some a, some b =>
      match j.lastSnap.find? (·.1 = a), j.lastSnap.find? (·.1 = b) with
      | some (_, x), some (_, y) =>
        let bothJudged := match j.getMon a, j.getMon b with
          | some ma, some mb => ma.judged && mb.judged
          | _, _ => false
        if x = y then { j with snapPairs := j.snapPairs + 1 }
        else if !(x.startsWith "ok" && y.startsWith "ok" && bothJudged) then j
        else if (j.trails.find? (·.1 = a)).map (·.2) ≠ (j.trails.find? (·.1 = b)).map (·.2) then j   -- not in lock-step
        else j.reject "C10" lineNo "the internal state of the clone differs from the original's (vertex slots, member lists, counters or allocator position)"
      | _, _ => j
    | _, _ => j
  | ["save", _] => j
  | ["loadcuts", a, _] =>
    match (parseHandle a).bind j.getMon with
    | some m =>
      -- C09 speaks about the file written by save() for *every* reachable graph: a cut image that loads is a violation
      -- also on a handle the history monitors no longer judge (beyond the group limit, after a non-tree merge)
      match words obsLine with
      | ["ok", _, _, bad] => if bad = "bad=[]" then j else j.reject "C09" lineNo s!"prefixes not rejected: {bad}"
      | _ => if m.judged then j.reject "C09" lineNo s!"loadcuts answered '{obsLine}'" else j
    | none => j
  | ["observe", a] =>
    let j := match parseHandle a, parseObserve obsLine with
      | some h, some (ents : List OEntry) =>
        let j := { j with lastObs := (h, ents) :: j.lastObs.filter (·.1 ≠ h) }
        -- first observation of a sliced graph: the statement of C13, directly
        let j := match j.sliceSpecs.find? (·.1 = h) with
          | some (_, sp) =>
            let j := { j with sliceSpecs := j.sliceSpecs.filter (·.1 ≠ h) }
            let got : List (Nat × String × Nat) := ents.flatMap (fun (e : OEntry) => e.edges.map (fun (x : String × Nat) => (e.id, x.1, x.2)))
            if sortNats (ents.map OEntry.id) ≠ sp.kept then j.reject "C13" lineNo s!"slice shows {showNats (ents.map OEntry.id)}, kept are {showNats sp.kept}"
            else match sp.must.find? (· ∉ got) with
              | some (x, l, t) => j.reject "C13" lineNo s!"accepted edge {x} -{l}-> {t} between kept vertices is missing"
              | none => match got.find? (· ∉ sp.may) with
                | some (x, l, t) => j.reject "C13" lineNo s!"edge {x} -{l}-> {t} is not an edge of the source"
                | none => j
          | none => j
        match j.mergeSpecs.find? (fun (x : Nat × MergeSpec) => x.1 = h) with
        | some (_, sp) =>
          let j := { j with mergeSpecs := j.mergeSpecs.filter (·.1 ≠ h) }
          match checkGraft sp ents with
          | some msg => j.reject "C11" lineNo ("after merge: " ++ msg)
          | none => j
        | none => j
      | _, _ => j
    match (parseHandle a).bind j.getMon with
    | some m =>
      if m.judged ∧ m.origin ≠ "" then
        let want := "ok " ++ " ".intercalate ((R.keys m.r m.cap).map (showEntryR m.r))
        if obsLine.trimAscii.toString ≠ want.trimAscii.toString then
          j.reject m.origin lineNo s!"observe shows '{obsLine}', expected '{want}'"
        else j
      else j
    | none => j
  | "hex" :: _ | "label" :: _ =>
    let (pm, rej) := judgePure j.pm (words opLine) obsLine
    let j := { j with pm := pm }
    rej.foldl (fun j (p, msg) => j.reject p lineNo (opLine.trimAscii.toString ++ ": " ++ msg)) j
  | cmd :: h :: rest =>
    match parseHandle h with
    | none => j
    | some a =>
      match j.getMon a with
      | none => j
      | some m =>
        if ¬ m.judged then
          -- after a rejection the reference keeps following the calls (its state does not depend on what was
          -- observed): a call inside the limits that panics is a violation of C02/C06/C07 of its own
          if ¬ m.watch then j
          else match parseCoreOp (cmd :: rest) with
            | none => j
            | some op =>
              if ¬ okStepB m.n m.cap m.r op then j.setMon a { m with watch := false }
              else
                let o := parseObs obsLine
                if o.status ≠ "ok" then
                  let j := j.setMon a { m with watch := false }
                  ["C02", "C06", "C07", (match op with | .add _ => "C04" | .nextId => "C05" | _ => "C03")].foldl (fun j p => j.reject p lineNo (opLine.trimAscii.toString ++ s!": call inside the limits answered '{o.status}' (after an earlier rejection on this handle)")) j
                else
                  let r' := (R.step m.cap m.r op).1
                  let r' := if m.steps % 24 = 23 then compactR m.cap r' else r'
                  j.setMon a { m with r := r', steps := m.steps + 1 }
        else match parseCoreOp (cmd :: rest) with
          | none => j
          | some op =>
            let o := parseObs obsLine
            let ever := match op with
              | .add v => (a, v) ∈ j.everAlive
              | _ => false
            let (m', rej) := judgeCore m op o
            let j := j.setMon a m'
            let j := match rej with
              | [("", _)] => { j with stats := { j.stats with invalidStops := j.stats.invalidStops + 1 } }
              | _ =>
                let j := { j with stats := noteStats j.stats m op o ever }
                let rej := if m.origin ≠ "" ∧ rej ≠ [] then rej ++ [(m.origin, (rej.headD ("", "")).2)] else rej
                rej.foldl (fun j (p, msg) => j.reject p lineNo (opLine.trimAscii.toString ++ ": " ++ msg)) j
            let j := if o.status = "panic" then { j with stats := { j.stats with panics := j.stats.panics + 1 } } else j
            match op with
            | .add v => if (a, v) ∈ j.everAlive then j else { j with everAlive := (a, v) :: j.everAlive }
            | _ => j
  | _ => j

/-- the trail of a handle: a hash of the calls that made the graph it holds. A clone starts with the trail of its
    original; read-only lines leave it alone. Two handles with equal trails have received the same calls. -/
def bumpTrail (j : JSt) (opLine : String) : JSt :=
  let get (h : Nat) : UInt64 := ((j.trails.find? (·.1 = h)).map (·.2)).getD 0
  let set (j : JSt) (h : Nat) (t : UInt64) : JSt := { j with trails := (h, t) :: j.trails.filter (·.1 ≠ h) }
  match words opLine with
  | ["reset"] => { j with trails := [] }
  | ["new", h, n, c] => match parseHandle h with
    | some h => set j h (mixHash 7 (hash (n ++ " " ++ c)))
    | none => j
  | ["clone", a, b] => match parseHandle a, parseHandle b with
    | some a, some b => set j b (get a)
    | _, _ => j
  | ["slice", a, v, b, rej] => match parseHandle a, parseHandle b with
    | some a, some b => set j b (mixHash (get a) (hash ("slice " ++ v ++ " " ++ rej)))
    | _, _ => j
  | ["reload", a, b] => match parseHandle a, parseHandle b with
    | some a, some b => set j b (mixHash (get a) 11)
    | _, _ => j
  | ["merge", a, b, l, r] => match parseHandle a, parseHandle b with
    | some a, some b => set j a (mixHash (mixHash (get a) (get b)) (hash ("merge " ++ l ++ " " ++ r)))
    | _, _ => j
  | cmd :: h :: rest =>
    if cmd ∈ ["observe", "snap", "same", "samesnap", "save", "loadcuts", "xml", "dot", "debug", "display", "inspect", "vprint", "hex", "label"] then j
    else match parseHandle h with
      | some a => set j a (mixHash (get a) (hash (" ".intercalate (cmd :: rest))))
      | none => j
  | _ => j

/-- the text exports first, then everything else -/
def judgeLine1 (j : JSt) (lineNo : Nat) (opLine obsLine : String) : JSt :=
  match words opLine with
  | [cmd, a] =>
    if cmd = "xml" ∨ cmd = "dot" ∨ cmd = "debug" ∨ cmd = "display" then
      match (parseHandle a).bind j.getMon with
      | some m =>
        if m.judged then
          let (tm, rej) := judgeText j.tm m cmd none obsLine
          let j := { j with tm := tm }
          rej.foldl (fun j (p, msg) => j.reject p lineNo (opLine.trimAscii.toString ++ ": " ++ msg)) j
        else match (parseHandle a).bind (fun h => j.freshObs.find? (·.1 = h)) with
          | some (_, ents) =>
            (judgeTextFree ents cmd obsLine).foldl (fun j (p, msg) => j.reject p lineNo (opLine.trimAscii.toString ++ ": " ++ msg)) j
          | none => j
      | none => j
    else judgeLine2 j lineNo opLine obsLine
  | [cmd, a, v] =>
    if cmd = "inspect" ∨ cmd = "vprint" then
      match (parseHandle a).bind j.getMon with
      | some m =>
        if m.judged then
          let (tm, rej) := judgeText j.tm m cmd v.toNat? obsLine
          let j := { j with tm := tm }
          rej.foldl (fun j (p, msg) => j.reject p lineNo (opLine.trimAscii.toString ++ ": " ++ msg)) j
        else
          -- C20 without a reference state: against the last full observation of the handle (nothing called on it since), when
          -- the vertex is present there and everything reachable from it is
          match (parseHandle a).bind (fun h => j.freshObs.find? (·.1 = h)), v.toNat? with
          | some (_, ents), some vv =>
            if ents.any (·.id = vv) ∧ closedInObs ents vv then
              let (tm, rej) := judgeText j.tm { m with r := rOfObs ents } cmd (some vv) obsLine
              let j := { j with tm := tm }
              rej.foldl (fun j (p, msg) => j.reject p lineNo (opLine.trimAscii.toString ++ ": " ++ msg ++ " (as last observed)")) j
            else j
          | _, _ => j
      | none => j
    else judgeLine2 j lineNo opLine obsLine
  | _ => judgeLine2 j lineNo opLine obsLine

/-- the handle a line calls something on that may change it (everything but the read-only calls) -/
def mutatedHandle (ws : List String) : Option Nat :=
  match ws with
  | ["new", h, _, _] => parseHandle h
  | ["clone", _, b] => parseHandle b
  | ["reload", _, b] => parseHandle b
  | ["slice", _, _, b, _] => parseHandle b
  | ["merge", a, _, _, _] => parseHandle a
  | ["script", a, _] => parseHandle a
  | cmd :: h :: _ => if cmd ∈ ["add", "bind", "put", "data", "nextid"] then parseHandle h else none
  | _ => none

/-- C05 without a reference state: an id `next_id()` returns on a handle the history monitors no longer judge must not be one
    the last full observation of that handle (nothing called on it since) shows as present -/
def nextIdFree (j : JSt) (lineNo : Nat) (ws : List String) (obsLine : String) : JSt :=
  match ws with
  | ["nextid", h] =>
    match parseHandle h with
    | some a =>
      match j.getMon a, j.freshObs.find? (·.1 = a), words obsLine with
      | some m, some (_, ents), "ok" :: i :: _ =>
        if m.judged then j
        else match i.toNat? with
          | some id => if ents.any (·.id = id) then j.reject "C05" lineNo s!"nextid {h}: id {id} is present (as last observed)" else j
          | none => j
      | _, _, _ => j
    | none => j
  | _ => j

def judgeLine (j : JSt) (lineNo : Nat) (opLine obsLine : String) : JSt :=
  let ws := words opLine
  let j := nextIdFree j lineNo ws obsLine
  let j := match mutatedHandle ws with
    | some h => { j with freshObs := j.freshObs.filter (·.1 ≠ h) }
    | none => j
  let j := bumpTrail (judgeLine1 j lineNo opLine obsLine) opLine
  match ws with
  | ["observe", a] =>
    match parseHandle a, parseObserve obsLine with
    | some h, some ents => { j with freshObs := (h, ents) :: j.freshObs.filter (·.1 ≠ h) }
    | _, _ => j
  | _ => j

def PureMon.json (p : PureMon) : String :=
  "{" ++ s!"\"hex_lines\":{p.hexLines},\"concat_lines\":{p.concatLines},\"concat_law_failures\":{p.concatDefect},\"label_lines\":{p.labelLines},\"legal_texts\":{p.legalTexts},\"distinct_labels\":{p.seen.length},\"panics_agreed_with_slice\":{p.panicsAgreed}" ++ "}"

def JSt.algoJson (j : JSt) : String :=
  "{" ++ s!"\"slices\":{j.slices},\"slices_judged\":{j.slicesJudged},\"slices_with_cycle_or_back_edge\":{j.sliceWithCycle},\"merges\":{j.merges},\"merges_judged\":{j.mergesJudged},\"merges_of_two_trees\":{j.mergesOfTrees},\"merges_with_unreachable_vertices\":{j.mergesErr},\"scripts\":{j.scripts},\"scripts_judged\":{j.scriptsJudged},\"script_commands_applied\":{j.scriptCommands},\"scripts_malformed\":{j.scriptsMalformed},\"script_vs_direct_comparisons\":{j.sameChecks},\"clone_snapshot_pairs_equal\":{j.snapPairs}" ++ "}"

def TextMon.json (t : TextMon) : String :=
  "{" ++ s!"\"xml_docs\":{t.xmlDocs},\"dot_docs\":{t.dotDocs},\"debug_docs\":{t.debugDocs},\"inspect_texts\":{t.inspects},\"inspect_with_cycle_marks\":{t.cyclesSeen},\"vprint_texts\":{t.vprints},\"same_content_pairs\":{t.sameContentPairs}" ++ "}"

def Stats.json (s : Stats) : String :=
  "{" ++ s!"\"histories\":{s.histories},\"calls\":{s.calls},\"judged_calls\":{s.judgedCalls},\"collections\":{s.collections},\"collected_vertices\":{s.collected},\"left_quantifier\":{s.invalidStops},\"panics\":{s.panics},\"next_ids\":{s.nextIds},\"readds\":{s.readds},\"overwriting_puts\":{s.overwrites},\"max_groups\":{s.maxGroups},\"max_members\":{s.maxMembers}" ++ "}"

end Drv
