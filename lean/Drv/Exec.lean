import Drv.Basic
import Drv.PureExec
import Codec
import Algo
/-! The model side of the line protocol: one operation per line, one observation per line. -/
namespace Drv
open Sodg

abbrev GX := Sodg.GX Label Hex

inductive HS where
  | live (g : G)
  | dead          -- a call on it panicked
  | unmodelled    -- left the modelled fragment (save/load, scripts and text exports of a `total` handle with removed slots)
  | total (x : GX) (panicked : Bool)
      -- outside the fragment of `step`, followed by the total model `stepX` (Core/Holes.lean; `stepT` of
      -- Core/Total.lean as long as no slot was removed): after a 15th group or a `join` inside `merge`
      -- (`panicked = false`), and, when the harness keeps executing calls on a handle that has panicked (soak
      -- mode, C07), in the state the panic left behind (`panicked = true`; the observations carry the prefix `soak`)

structure World where
  hs : Array (Option HS) := #[]
  cfg : PureCfg := {}
  soak : Bool := false

def World.get (w : World) (h : Nat) : Option HS := (w.hs.getD h none)

def World.set (w : World) (h : Nat) (s : HS) : World :=
  let hs := if h < w.hs.size then w.hs else w.hs ++ Array.replicate (h + 1 - w.hs.size) none
  { w with hs := hs.setIfInBounds h (some s) }

def parseHandle (s : String) : Option Nat :=
  match s.toList with
  | 'g' :: r => (String.ofList r).toNat?
  | _ => none

def showOut : Out → String
  | .unit => "ok"
  | .data none => "ok none"
  | .data (some d) => "ok " ++ showBytes d.toBytes
  | .kid t => "ok " ++ showOptNat t
  | .kids es => "ok " ++ showEdges es
  | .keys ks => "ok " ++ showNats ks
  | .id i => "ok " ++ toString i

/-- the one place where the repaired code leaves the modelled fragment inside `bind`: two ungrouped
    vertices and no empty slot (a 15th group) -/
def bindUnmodelled (g : G) (v1 v2 : Nat) : Bool :=
  v1 < cap g && v2 < cap g && tag g v1 == 1 && tag g v2 == 1 && (firstEmpty g).isNone

def parseCoreOp : List String → Option Op
  | ["add", v] => v.toNat?.map .add
  | ["bind", v1, v2, a] => do
    let x ← v1.toNat?
    let y ← v2.toNat?
    let l ← parseLabelTok a
    pure (.bind x y l)
  | ["put", v, d] => do
    let x ← v.toNat?
    let h ← parseHexTok d
    pure (.put x h)
  | ["data", v] => v.toNat?.map .data
  | ["kid", v, a] => do
    let x ← v.toNat?
    let l ← parseLabelTok a
    pure (.kid x l)
  | ["kids", v] => v.toNat?.map .kids
  | ["keys"] => some .keys
  | ["nextid"] => some .nextId
  | _ => none

/-- table of rejected edges for `slice_some`: `-` or `from>to>label,…` -/
def parseRej (s : String) : Option (List (Nat × Nat × Label)) :=
  if s = "-" then some []
  else (s.splitOn ",").mapM (fun (t : String) =>
    match t.splitOn ">" with
    | [a, b, l] => do
      let x ← a.toNat?
      let y ← b.toNat?
      let lab ← parseLabelTok l
      pure (x, y, lab)
    | _ => none)

def showEntry (g : G) (v : Nat) : String :=
  toString v ++ (if pers g v = .empty then "" else "!") ++ showEdges (edg g v)

/-- one-token encoding of a text: `%`, blank, newline, tab and CR are percent-escaped -/
def esc (t : String) : String :=
  String.join (t.toList.map (fun c =>
    if c = '%' then "%25" else if c = ' ' then "%20" else if c = '\n' then "%0A" else if c = '\t' then "%09"
    else if c = '\r' then "%0D" else c.toString))

/-- the complete internal state, in the format the harness prints from the hook `verif_snapshot()` -/
def showSnapX (x : GX) : String :=
  let g := x.g
  let vs := ((List.range (cap g)).filter (fun v => !x.holes.contains v)).map (fun v =>
    let x := g.vs[v]!
    let p := match x.pers with | .empty => 0 | .stored => 1 | .taken => 2
    let heap := match x.data with | .vector _ => 1 | .inline _ _ => 0
    s!"{v}:{x.branch}:{p}:{hexOfBytes x.data.toBytes}:{heap}:" ++ ",".intercalate (x.edges.map (fun e => String.ofList (Lb.print e.1) ++ ">" ++ toString e.2)))
  let bs := (List.range g.br.size).map (fun b => s!"{b}={showNats (mem g b)}")
  let ss := (List.range g.st.size).map (fun b => s!"{b}={cnt g b}")
  s!"ok next={g.next} v " ++ "|".intercalate vs ++ " b " ++ ";".intercalate bs ++ " s " ++ ";".intercalate ss

def showSnap (g : G) : String := showSnapX ⟨g, []⟩

def showObserve (g : G) : String :=
  "ok " ++ " ".intercalate ((keys g).map (showEntry g))

def showObserveX (x : GX) : String :=
  "ok " ++ " ".intercalate ((keysX x).map (showEntry x.g))

def opArgs : Op → List Nat
  | .add v => [v]
  | .bind v1 v2 _ => [v1, v2]
  | .put v _ => [v]
  | .data v => [v]
  | .kid v _ => [v]
  | .kids v => [v]
  | .keys => []
  | .nextId => []

/-- what a call shows besides its result: the present vertices, and the entries of the argument vertices that are
    present after the call -/
def showPost (g : G) (op : Op) : String :=
  showNats (keys g) ++ " ; " ++
    " ".intercalate (((opArgs op).filter (fun v => v < cap g ∧ tag g v ≠ 0)).map (showEntry g))

def showPostX (x : GX) (op : Op) : String :=
  showNats (keysX x) ++ " ; " ++
    " ".intercalate (((opArgs op).filter (fun v => x.acc v ∧ tag x.g v ≠ 0)).map (showEntry x.g))

/-- a core call through the total model: the state the call leaves behind even when it panics -/
def totalCall (soak : Bool) (x : GX) (panicked : Bool) (op : Op) : HS × String :=
  let pre := if panicked then "soak " else ""
  match stepX x (.core op) with
  | (x', some o) => (.total x' panicked, pre ++ showOut o ++ " ; " ++ showPostX x' op)
  | (x', none) => if soak then (.total x' true, pre ++ "panic") else (.dead, "panic")

/-- `merge` through the total model (`join` included) -/
def totalMerge (soak : Bool) (x hx : GX) (panicked : Bool) (l r : Nat) : HS × String :=
  match mergeX x hx l r with
  | (x', some .ok) => (.total x' panicked, "ok ; " ++ showNats (keysX x'))
  | (x', some (.err missed)) => (.total x' panicked, "err " ++ showNats missed ++ " ; " ++ showNats (keysX x'))
  | (x', none) => if soak then (.total x' true, "panic") else (.dead, "panic")

/-- run a core call on a live graph -/
def coreCall (soak : Bool) (g : G) (op : Op) : HS × String :=
  let unm := match op with
    | .bind v1 v2 _ => bindUnmodelled g v1 v2
    | _ => false
  if unm then totalCall soak ⟨g, []⟩ false op
  else match step g op with
    | none => if soak then totalCall soak ⟨g, []⟩ false op else (.dead, "panic")
    | some (g', o) => (.live g', showOut o ++ " ; " ++ showPost g' op)

def execLine2 (w : World) (line : String) : World × String :=
  match words line with
  | [] => (w, "")
  | ["reset"] => ({ w with hs := #[] }, "ok")
  | "hex" :: rest => (w, execHex w.cfg rest)
  | "label" :: rest => (w, execLabel rest)
  | ["new", h, n, c] =>
    match parseHandle h, n.toNat?, c.toNat? with
    | some h, some n, some c => (w.set h (.live (empty n c)), "ok")
    | _, _, _ => (w, "bad-op")
  | ["clone", h, h'] =>
    match parseHandle h, parseHandle h' with
    | some a, some b =>
      match w.get a with
      | some (.live g) => (w.set b (.live g), "ok ; " ++ showNats (keys g))
      | some (.total x _) => (w.set b (.total x false), "ok ; " ++ showNats (keysX x))
      | some .dead => (w.set b .dead, "dead")
      | some .unmodelled => (w.set b .unmodelled, "unmodelled")
      | none => (w, "bad-op")
    | _, _ => (w, "bad-op")
  | ["snap", h] =>
    match (parseHandle h).bind w.get with
    | some (.live g) => (w, (showSnap g).replace " " "_")
    | some (.total x _) => (w, (showSnapX x).replace " " "_")
    | some .dead => (w, "dead")
    | some .unmodelled => (w, "unmodelled")
    | none => (w, "bad-op")
  | ["observe", h] =>
    match parseHandle h with
    | some a =>
      match w.get a with
      | some (.live g) => (w, showObserve g)
      | some (.total x _) => (w, showObserveX x)
      | some .dead => (w, "dead")
      | some .unmodelled => (w, "unmodelled")
      | none => (w, "bad-op")
    | none => (w, "bad-op")
  | ["slice", h, v, h', rej] =>
    match parseHandle h, v.toNat?, parseHandle h', parseRej rej with
    | some a, some v, some b, some rj =>
      match w.get a with
      | some (.live g) =>
        match sliceSome g v (fun x y l => !rj.contains (x, y, l)) with
        | some g' => (w.set b (.live g'), "ok ; " ++ showNats (keys g'))
        | none => (w.set b .dead, "panic")
      | some .dead => (w.set b .dead, "dead")
      | some .unmodelled => (w.set b .unmodelled, "unmodelled")
      | some (.total x _) =>
        -- `slice_some` only reads the source: the same function of the state, whatever calls made it (a removed slot
        -- among the reached vertices is a panic: Algo/SliceHoles.lean)
        let reachesHole : Bool := match sliceDone x.g v (fun x y l => !rj.contains (x, y, l)) with
            | some done => done.any (fun u => x.holes.contains u) | none => false
        if !x.acc v || reachesHole then (w.set b .dead, "panic")
        else match sliceSomeX x v (fun x y l => !rj.contains (x, y, l)) with
          | some g' => (w.set b (.live g'), "ok ; " ++ showNats (keys g'))
          | none => (w.set b .unmodelled, "unmodelled")
      | none => (w, "bad-op")
    | _, _, _, _ => (w, "bad-op")
  | ["merge", h, h', l, r] =>
    match parseHandle h, parseHandle h', l.toNat?, r.toNat? with
    | some a, some b, some l, some r =>
      match w.get a, w.get b with
      | some (.live g), some (.live hg) =>
        match Sodg.merge g hg l r with
        | none =>
          if w.soak then
            let (s, out) := totalMerge w.soak ⟨g, []⟩ ⟨hg, []⟩ false l r
            (w.set a s, out)
          else (w.set a .dead, "panic")
        | some (g', .ok) => (w.set a (.live g'), "ok ; " ++ showNats (keys g'))
        | some (g', .err missed) => (w.set a (.live g'), "err " ++ showNats missed ++ " ; " ++ showNats (keys g'))
        | some (_, .joined) =>
          let (s, out) := totalMerge w.soak ⟨g, []⟩ ⟨hg, []⟩ false l r
          (w.set a s, out)
      | some .dead, _ => (w, "dead")
      | _, some .dead => (w, "dead")
      | some .unmodelled, _ => (w, "unmodelled")
      | some _, some .unmodelled => (w.set a .unmodelled, "unmodelled")
      | some (.total x p), some (.live hg) =>
        let (s, out) := totalMerge w.soak x ⟨hg, []⟩ p l r
        (w.set a s, out)
      | some (.total x p), some (.total hx _) =>
        let (s, out) := totalMerge w.soak x hx p l r
        (w.set a s, out)
      | some (.live g), some (.total hx _) =>
        let (s, out) := totalMerge w.soak ⟨g, []⟩ hx false l r
        (w.set a s, out)
      | _, _ => (w, "bad-op")
    | _, _, _, _ => (w, "bad-op")
  | ["same", _, _] => (w, "ok")
  | ["samesnap", _, _] => (w, "ok")
  | ["script", h, t] =>
    match parseHandle h, parseTextTok t with
    | some a, some text =>
      match w.get a with
      | some (.live g) =>
        match Ss.deploy text g with
        | (s, .ok, k) => (w.set a (.live s.g), s!"ok {k} ; " ++ showNats (keys s.g))
        | (s, .err, _) => (w.set a (.live s.g), "err ; " ++ showNats (keys s.g))
        | (_, .panic, _) =>
          if w.soak then
            -- soak mode: the graph stays in use in the state the panicking call of the script left behind
            (w.set a (.total (Ss.deployX text ⟨g, []⟩).1.x true), "panic")
          else (w.set a .dead, "panic")
      | some .dead => (w, "dead")
      | some .unmodelled => (w, "unmodelled")
      | some (.total x p) =>
        match Ss.deployX text x with
        | (s, .ok, k) => (w.set a (.total s.x p), s!"ok {k} ; " ++ showNats (keysX s.x))
        | (s, .err, _) => (w.set a (.total s.x p), "err ; " ++ showNats (keysX s.x))
        | (s, .panic, _) => if w.soak then (w.set a (.total s.x true), "panic") else (w.set a .dead, "panic")
      | none => (w, "bad-op")
    | _, _ => (w, "bad-op")
  | ["save", h] =>
    match (parseHandle h).bind w.get with
    | some (.live g) => (w, "ok " ++ hexOfBytes (Cd.save g))
    | some .dead => (w, "dead")
    | some .unmodelled => (w, "unmodelled")
    | some (.total x _) => (w, "ok " ++ hexOfBytes (Cd.saveX x))
    | none => (w, "bad-op")
  | ["reload", h, h'] =>
    match parseHandle h, parseHandle h' with
    | some a, some b =>
      match w.get a with
      | some (.live g) =>
        match Cd.load g.n (Cd.save g) with
        | .ok g' => (w.set b (.live g'), "ok ; " ++ showNats (keys g'))
        | .error .panic => (w.set b .dead, "panic")
        | .error _ => (w.set b .dead, "err")
      | some .dead => (w.set b .dead, "dead")
      | some .unmodelled => (w.set b .unmodelled, "unmodelled")
      | some (.total x _) =>
        -- emap sizes the restored table by the entry count: with a gap in the keys the insertion of the keys after the
        -- gap is out of range (a panic in a build with debug assertions); removed slots at the top only leave no gap
        match Cd.loadX x.g.n (Cd.saveX x) with      -- Codec/HolesLoad.lean, `loadX_saveX`: a smaller store, or a panic
        | .ok g' => (w.set b (.total ⟨g', []⟩ false), "ok ; " ++ showNats (keys g'))
        | .error .panic => (w.set b .dead, "panic")
        | .error _ => (w.set b .dead, "err")
      | none => (w, "bad-op")
    | _, _ => (w, "bad-op")
  | ["loadcuts", h, step] =>
    match (parseHandle h).bind w.get, step.toNat? with
    | some (.live g), some step =>
      let img := Cd.save g
      let size := img.length
      let step := max step (size / 20000)
      let ks := (List.range size).filter (fun k => step ≤ 1 ∨ k % step = 0 ∨ size - k ≤ 64 ∨ k < 64)
      let bad := ks.filterMap (fun k => match Cd.load g.n (img.take k) with
        | .ok _ => some s!"{k}:ok"
        | .error .panic => some s!"{k}:panic"
        | .error _ => none)
      (w, s!"ok {size} {ks.length} bad=[{",".intercalate bad}]")
    | some .dead, _ => (w, "dead")
    | some .unmodelled, _ => (w, "unmodelled")
    | some (.total x _), some step =>
      let img := Cd.saveX x
      let size := img.length
      let step := max step (size / 20000)
      let ks := (List.range size).filter (fun k => step ≤ 1 ∨ k % step = 0 ∨ size - k ≤ 64 ∨ k < 64)
      let bad := ks.filterMap (fun k => match Cd.load x.g.n (img.take k) with
        | .ok _ => some s!"{k}:ok"
        | .error .panic => some s!"{k}:panic"
        | .error _ => none)
      (w, s!"ok {size} {ks.length} bad=[{",".intercalate bad}]")
    | _, _ => (w, "bad-op")
  | cmd :: h :: rest =>
    match parseHandle h with
    | none => (w, "bad-op")
    | some a =>
      match w.get a with
      | none => (w, "bad-op")
      | some .dead => (w, "dead")
      | some .unmodelled => (w, "unmodelled")
      | some (.live g) =>
        match parseCoreOp (cmd :: rest) with
        | some op =>
          let (s, out) := coreCall w.soak g op
          (w.set a s, out)
        | none => (w, "bad-op")
      | some (.total g p) =>
        match parseCoreOp (cmd :: rest) with
        | some op =>
          let (s, out) := totalCall w.soak g p op
          (w.set a s, out)
        | none => (w, "bad-op")
  | _ => (w, "bad-op")

/-- the render calls, then everything else -/
def execLine (w : World) (line : String) : World × String :=
  match words line with
  | [cmd, h] =>
    if cmd = "xml" ∨ cmd = "dot" ∨ cmd = "debug" ∨ cmd = "display" then
      match (parseHandle h).bind w.get with
      | some (.live g) =>
        (w, "ok " ++ esc (if cmd = "xml" then Rs.toXml g else if cmd = "dot" then Rs.toDot g else Rs.toDebug g))
      | some .dead => (w, "dead")
      | some .unmodelled => (w, "unmodelled")
      | some (.total x _) =>
        -- the exports only read the state: the same functions of it, whatever calls made it (`vertices.iter()` skips a
        -- removed slot: it is an absent vertex for them)
        let g := blankHoles x
        (w, "ok " ++ esc (if cmd = "xml" then Rs.toXml g else if cmd = "dot" then Rs.toDot g else Rs.toDebug g))
      | none => (w, "bad-op")
    else execLine2 w line
  | [cmd, h, v] =>
    if cmd = "inspect" ∨ cmd = "vprint" then
      match (parseHandle h).bind w.get, v.toNat? with
      | some (.live g), some v =>
        match (if cmd = "inspect" then Rs.toInspect g v else Rs.vPrint g v) with
        | some t => (w, "ok " ++ esc t)
        | none => (w, "panic")
      | some .dead, _ => (w, "dead")
      | some .unmodelled, _ => (w, "unmodelled")
      | some (.total x _), some v =>
        -- a removed slot: `Err` for the vertex asked about, a panic (`unwrap()` in the recursion) when it is reached below it
        let reachesHole : Bool := match sliceDone x.g v (fun _ _ _ => true) with
            | some done => done.any (fun u => x.holes.contains u) | none => false
        if v < cap x.g ∧ x.holes.contains v then (w, "err")
        else if cmd = "inspect" ∧ reachesHole then (w, "panic")
        else
          match (if cmd = "inspect" then Rs.toInspect x.g v else Rs.vPrint x.g v) with
          | some t => (w, "ok " ++ esc t)
          | none => (w, "panic")
      | _, _ => (w, "bad-op")
    else execLine2 w line
  | _ => execLine2 w line

end Drv
