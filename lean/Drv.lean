import Drv.Basic
import Drv.Exec
import Drv.Gen
import Drv.Judge
