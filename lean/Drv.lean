import Drv.Basic
import Drv.Parse
import Drv.RefAlgo
import Drv.Exec
import Drv.Gen
import Drv.ScriptGen
import Drv.Judge
