import Algo.Dfs
import Algo.Fuel
import Algo.Slice
import Algo.Render
import Algo.Script
import Algo.Command
import Algo.Deploy
