import Pure.Arith
import Pure.Hex
import Pure.HexInt
import Pure.HexData
import Pure.Label
import Pure.LabelOrder
