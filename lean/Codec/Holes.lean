import Codec.Bridge
import Core.Holes
/-! # The image of a graph with removed slots, and C09 for it

`Serialize for emap::Map` writes the number of *occupied* slots and then `(key, value)` for the occupied slots in ascending
order. For a graph whose vertex store has slots removed by `join()` (Core/Holes.lean) the keys are therefore no longer
`0 .. count-1`. `saveX` is that image. `load` of the *complete* image of such a graph does not give a graph back (emap sizes
the restored table by the entry count, so the keys after the gap are out of range: the model's decoder answers `invalid`,
the real one panics in a build with debug assertions) — but that is not what C09 is about. C09 is about **cut** images, and
`load_truncatedX` shows that every proper prefix of such an image is rejected with an EOF error too: the decoder reads the
whole length-prefixed sequence before it looks at any key. -/
namespace Cd

section
variable {L D : Type} (n : Nat)
variable (encL : L → List UInt8) (decL : Parser L) (wfL : L → Prop)
variable (encD : D → List UInt8) (decD : Parser D) (wfD : D → Prop)

/-- the image with the vertex table written as explicit `(key, value)` pairs -/
def encImgAt (st : List Nat) (br : List (List Nat)) (kvs : List (Nat × V L D)) : List UInt8 :=
  encEmap (encLE 8) st ++ encEmap (encSeq (encLE 8)) br ++ encSeq (encPair (encLE 8) (encV encL encD)) kvs

/-- the decoder of the image up to, but not including, the look at the keys of the vertex table -/
def decRaw : Parser (List Nat × List (List Nat) × List (Nat × V L D)) :=
  bind (decEmap u64) (fun st => bind (decEmap (decSeq u64 (some 16))) (fun br =>
    bind (decSeq (decPair u64 (decV n decL decD)) none) (fun ps => pure (st, br, ps))))

theorem strict_raw (hL : Strict decL) (hD : Strict decD) : Strict (decRaw n decL decD) :=
  strict_bind _ _ (strict_emap _ (strict_LE 8)) (fun _ =>
    strict_bind _ _ (strict_emap _ (strict_seq _ _ (strict_LE 8))) (fun _ =>
      strict_bind _ _ (strict_seq _ none (strict_pair _ _ (strict_LE 8) (strict_V n decL decD hL hD)))
        (fun _ => strict_pure _)))

/-- where the raw decoder fails, the decoder of the image fails in the same way -/
theorem decImg_of_raw_error (w : List UInt8) (e : Err) (h : decRaw n decL decD w = .error e) :
    decImg n decL decD w = .error e := by
  unfold decRaw at h
  unfold decImg
  simp only [bind] at h ⊢
  cases h1 : decEmap u64 w with
  | error e1 => rw [h1] at h; simpa using h
  | ok p1 =>
    obtain ⟨st, r1⟩ := p1
    rw [h1] at h
    simp only at h ⊢
    cases h2 : decEmap (decSeq u64 (some 16)) r1 with
    | error e2 => rw [h2] at h; simpa using h
    | ok p2 =>
      obtain ⟨br, r2⟩ := p2
      rw [h2] at h
      simp only at h ⊢
      unfold decEmap
      simp only [bind]
      cases h3 : decSeq (decPair u64 (decV n decL decD)) none r2 with
      | error e3 => rw [h3] at h; simpa using h
      | ok p3 => rw [h3] at h; obtain ⟨ps, r3⟩ := p3; simp [pure] at h

def wfAt (st : List Nat) (br : List (List Nat)) (kvs : List (Nat × V L D)) : Prop :=
  (U64 st.length ∧ ∀ x ∈ st, U64 x) ∧
  (U64 br.length ∧ ∀ b ∈ br, U64 b.length ∧ (∀ x ∈ b, U64 x) ∧ b.length ≤ 16) ∧
  (U64 kvs.length ∧ ∀ p ∈ kvs, U64 p.1 ∧ wfV n wfL wfD p.2)

theorem raw_roundtrip (hL : RT encL decL wfL) (hD : RT encD decD wfD) (st : List Nat) (br : List (List Nat))
    (kvs : List (Nat × V L D)) (h : wfAt n wfL wfD st br kvs) :
    decRaw n decL decD (encImgAt encL encD st br kvs) = .ok ((st, br, kvs), []) := by
  obtain ⟨h1, h2, h3⟩ := h
  unfold encImgAt decRaw bind
  simp only [List.append_assoc]
  have a := rt_emap (encLE 8) u64 U64 (rt_LE 8) st
    (encEmap (encSeq (encLE 8)) br ++ encSeq (encPair (encLE 8) (encV encL encD)) kvs) h1
  rw [a]
  simp only
  have b := rt_emap (encSeq (encLE 8)) (decSeq u64 (some 16)) _ (rt_seq (encLE 8) u64 U64 (some 16) (rt_LE 8))
    br (encSeq (encPair (encLE 8) (encV encL encD)) kvs)
    ⟨h2.1, fun x hx => ⟨(h2.2 x hx).1, (h2.2 x hx).2.1, by intro m hm; cases hm; exact (h2.2 x hx).2.2⟩⟩
  rw [b]
  simp only
  have c := rt_seq (encPair (encLE 8) (encV encL encD)) (decPair u64 (decV n decL decD)) _ none
    (rt_pair _ _ _ _ _ _ (rt_LE 8) (rt_V n encL decL wfL encD decD wfD hL hD)) kvs []
    ⟨h3.1, fun p hp => h3.2 p hp, by intro m hm; cases hm⟩
  simp only [List.append_nil] at c
  unfold u64 at *
  rw [c]
  rfl

/-- **C09 for images with gaps in the keys**: every proper prefix is rejected with EOF -/
theorem truncated_rejected_at (hL : RT encL decL wfL) (hD : RT encD decD wfD) (sL : Strict decL) (sD : Strict decD)
    (st : List Nat) (br : List (List Nat)) (kvs : List (Nat × V L D)) (h : wfAt n wfL wfD st br kvs)
    (k : Nat) (hk : k < (encImgAt encL encD st br kvs).length) :
    decImg n decL decD ((encImgAt encL encD st br kvs).take k) = .error .eof :=
  decImg_of_raw_error n decL decD _ _
    (strict_top _ (strict_raw n decL decD sL sD) _ _ (raw_roundtrip n encL decL wfL encD decD wfD hL hD st br kvs h) k hk)

end

open Sodg

/-- the occupied slots of the vertex store with their keys, ascending -/
def slotsX (x : GX Label Hex) : List (Nat × V Label Hex) :=
  ((List.range (cap x.g)).filter (fun v => !(x.holes.contains v))).map (fun v => (v, toV x.g.vs[v]!))

/-- `save` of a graph with removed slots -/
def saveX (x : GX Label Hex) : List UInt8 :=
  encImgAt encLabel encHex x.g.st.toList x.g.br.toList (slotsX x)

/-- sizes and numbers fit their 64-bit fields -/
def WfGX (x : GX Label Hex) : Prop := wfAt x.g.n wfLabel wfHex x.g.st.toList x.g.br.toList (slotsX x)

/-- **C09 for graphs with removed slots**: every proper prefix of the image is rejected with an EOF error — never a
    graph, never a panic -/
theorem load_truncatedX (x : GX Label Hex) (h : WfGX x) (k : Nat) (hk : k < (saveX x).length) :
    load x.g.n ((saveX x).take k) = .error .eof := by
  unfold load saveX
  rw [truncated_rejected_at x.g.n encLabel decLabel wfLabel encHex decHex wfHex rt_label rt_hex strict_label strict_hex
    _ _ _ h k hk]

/-- with no removed slot this is `save` -/
theorem saveX_nohole (g : G Label Hex) : saveX ⟨g, []⟩ = save g := by
  unfold saveX save encImgAt encImg slotsX toImg
  congr 1
  unfold encEmap
  congr 1
  simp only [List.contains_nil, Bool.not_false, cap]
  have hf : (List.range g.vs.size).filter (fun _ => true) = List.range g.vs.size := List.filter_eq_self.2 (fun _ _ => rfl)
  rw [hf]
  have h1 : (List.range g.vs.size).map (fun v => (v, toV g.vs[v]!)) =
      (List.range (g.vs.toList.map toV).length).zip (g.vs.toList.map toV) := by
    apply List.ext_getElem
    · simp
    · intro i h1 h2
      simp only [List.length_map, List.length_range] at h1
      simp [h1]
  rw [h1]

/-- the well-formedness predicate of C08/C09 on the underlying tables is enough: the occupied slots are some of the slots -/
theorem wfGX_of_wfG (x : GX Label Hex) (h : WfG x.g) : WfGX x := by
  obtain ⟨h1, h2, h3⟩ := h
  refine ⟨h1, h2, ?_, ?_⟩
  · have hl : (slotsX x).length ≤ (toImg x.g).vs.length := by
      unfold slotsX toImg
      simp only [List.length_map, Array.length_toList]
      calc _ ≤ (List.range (cap x.g)).length := List.length_filter_le _ _
        _ = x.g.vs.size := by simp [cap]
    exact Nat.lt_of_le_of_lt hl h3.1
  · intro p hp
    unfold slotsX at hp
    simp only [List.mem_map, List.mem_filter, List.mem_range] at hp
    obtain ⟨v, ⟨hv, _⟩, rfl⟩ := hp
    have hvs : v < x.g.vs.size := hv
    refine ⟨?_, ?_⟩
    · have : (toImg x.g).vs.length = x.g.vs.size := by simp [toImg]
      have hu := h3.1
      rw [this] at hu
      unfold U64 at *
      simp only; omega
    · apply h3.2
      simp only [toImg, List.mem_map]
      refine ⟨x.g.vs[v]!, ?_, rfl⟩
      rw [getElem!_pos x.g.vs v hvs]
      exact Array.getElem_mem_toList ..

/-- **C09 for every graph with removed slots whose tables are representable** -/
theorem load_truncatedX' (x : GX Label Hex) (h : WfG x.g) (k : Nat) (hk : k < (saveX x).length) :
    load x.g.n ((saveX x).take k) = .error .eof := load_truncatedX x (wfGX_of_wfG x h) k hk

#print axioms load_truncatedX
end Cd
