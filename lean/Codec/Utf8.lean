/-! Feasibility probe for the `char` codec of the image (bincode writes a char as its UTF-8 bytes): round trip with
    continuation and strictness, from core's UTF-8 theorems plus first-byte mask facts proved by `decide +kernel`. -/
namespace U8

inductive Err | eof | invalid | panic
abbrev Parser (α : Type) := List UInt8 → Except Err (α × List UInt8)

def Strict {α} (p : Parser α) : Prop :=
  ∀ w a r, p w = .ok (a, r) →
    ∃ c, w = c ++ r ∧ (∀ r', p (c ++ r') = .ok (a, r')) ∧ (∀ c', c' <+: c → c' ≠ c → p c' = .error .eof)
def RT {α} (enc : α → List UInt8) (dec : Parser α) (wf : α → Prop) : Prop :=
  ∀ x r, wf x → dec (enc x ++ r) = .ok (x, r)

/-- number of bytes announced by the first byte (valid first bytes only; others fail later as `invalid`) -/
def width (b : UInt8) : Nat :=
  if b.toNat < 128 then 1 else if b.toNat < 224 then 2 else if b.toNat < 240 then 3 else 4

def encChar (c : Char) : List UInt8 := String.utf8EncodeChar c

def decChar : Parser Char := fun w =>
  match w with
  | [] => .error .eof
  | b :: _ =>
    if w.length < width b then .error .eof
    else match w.toByteArray.utf8DecodeChar? 0 with
      | some c => .ok (c, w.drop c.utf8Size)
      | none => .error .invalid

/-! first-byte facts, by exhaustive kernel evaluation over the 256 bytes -/
theorem mask2 (x : UInt8) : 128 ≤ ((x &&& 0x1f) ||| 0xc0).toNat ∧ ((x &&& 0x1f) ||| 0xc0).toNat < 224 := by
  have h : ∀ n : Fin 256, 128 ≤ ((UInt8.ofNat n.val &&& 0x1f) ||| 0xc0).toNat ∧
      ((UInt8.ofNat n.val &&& 0x1f) ||| 0xc0).toNat < 224 := by decide +kernel
  simpa using h ⟨x.toNat, x.toNat_lt⟩
theorem mask3 (x : UInt8) : 224 ≤ ((x &&& 0x0f) ||| 0xe0).toNat ∧ ((x &&& 0x0f) ||| 0xe0).toNat < 240 := by
  have h : ∀ n : Fin 256, 224 ≤ ((UInt8.ofNat n.val &&& 0x0f) ||| 0xe0).toNat ∧
      ((UInt8.ofNat n.val &&& 0x0f) ||| 0xe0).toNat < 240 := by decide +kernel
  simpa using h ⟨x.toNat, x.toNat_lt⟩
theorem mask4 (x : UInt8) : 240 ≤ ((x &&& 0x07) ||| 0xf0).toNat := by
  have h : ∀ n : Fin 256, 240 ≤ ((UInt8.ofNat n.val &&& 0x07) ||| 0xf0).toNat := by decide +kernel
  simpa using h ⟨x.toNat, x.toNat_lt⟩

/-- the first byte of an encoding announces its length -/
theorem width_head (c : Char) : ∃ b t, encChar c = b :: t ∧ width b = c.utf8Size := by
  unfold encChar
  rcases c.utf8Size_eq with h | h | h | h
  · refine ⟨_, _, String.utf8EncodeChar_eq_singleton h, ?_⟩
    have h127 : c.val ≤ 127 := Char.utf8Size_eq_one_iff.1 h
    have hn : c.val.toNat ≤ 127 := by simpa [UInt32.le_iff_toNat_le] using h127
    have e : c.val.toUInt8.toNat = c.val.toNat % 256 := UInt32.toNat_toUInt8 _
    have h2 : c.val.toUInt8.toNat < 128 := by rw [e]; omega
    simp only [width, h]
    rw [if_pos h2]
  · refine ⟨_, _, String.utf8EncodeChar_eq_cons_cons h, ?_⟩
    have := mask2 (c.val >>> 6).toUInt8
    simp only [width, h]
    rw [if_neg (by omega), if_pos this.2]
  · refine ⟨_, _, String.utf8EncodeChar_eq_cons_cons_cons h, ?_⟩
    have := mask3 (c.val >>> 12).toUInt8
    simp only [width, h]
    rw [if_neg (by omega), if_neg (by omega), if_pos this.2]
  · refine ⟨_, _, String.utf8EncodeChar_eq_cons_cons_cons_cons h, ?_⟩
    have := mask4 (c.val >>> 18).toUInt8
    simp only [width, h]
    rw [if_neg (by omega), if_neg (by omega), if_neg (by omega)]

theorem encChar_length (c : Char) : (encChar c).length = c.utf8Size := String.length_utf8EncodeChar c

theorem rt_char : RT encChar decChar (fun _ => True) := by
  intro c r _
  obtain ⟨b, t, he, hw⟩ := width_head c
  have hl := encChar_length c
  unfold decChar
  rw [he, List.cons_append]
  simp only
  have hlen : ¬ (b :: (t ++ r)).length < width b := by
    rw [hw, ← hl, he]; simp
  rw [if_neg hlen]
  have hd : (b :: (t ++ r)).toByteArray.utf8DecodeChar? 0 = some c := by
    have := ByteArray.utf8DecodeChar?_utf8EncodeChar_append (b := r.toByteArray) (c := c)
    rw [← List.toByteArray_append] at this
    show ((b :: t) ++ r).toByteArray.utf8DecodeChar? 0 = some c
    rw [← he]; exact this
  rw [hd]
  simp only
  congr 2
  show ((b :: t) ++ r).drop c.utf8Size = r
  rw [← he, ← hl]
  exact List.drop_left

/-- what a successful decode has read is the encoding of the result -/
theorem decoded_prefix (w : List UInt8) (c : Char) (h : w.toByteArray.utf8DecodeChar? 0 = some c) :
    w.take c.utf8Size = encChar c ∧ c.utf8Size ≤ w.length := by
  have key := String.toByteArray_utf8EncodeChar_of_utf8DecodeChar?_eq_some h
  have hsz : c.utf8Size ≤ w.length := by
    have := congrArg ByteArray.size key
    simp only [List.size_toByteArray, String.length_utf8EncodeChar, ByteArray.size_extract] at this
    omega
  refine ⟨?_, hsz⟩
  have hd := congrArg (fun b => b.data.toList) key
  simp only [List.data_toByteArray, ByteArray.data_extract, Array.toList_extract] at hd
  simp at hd
  unfold encChar
  rw [hd]

theorem strict_char : Strict decChar := by
  intro w c r h
  unfold decChar at h
  cases w with
  | nil => simp at h
  | cons b t =>
    simp only at h
    split at h
    · cases h
    next hlen =>
      split at h
      next c' hdec =>
        cases h
        obtain ⟨hpre, hsz⟩ := decoded_prefix (b :: t) c hdec
        refine ⟨encChar c, ?_, ?_, ?_⟩
        · rw [← hpre]; exact (List.take_append_drop _ _).symm
        · intro r'; exact rt_char c r' trivial
        · intro c' hp hne
          obtain ⟨b0, t0, he, hw⟩ := width_head c
          cases c' with
          | nil => rfl
          | cons x xs =>
            have hx : x = b0 := by
              rw [he] at hp
              obtain ⟨t', ht'⟩ := hp
              simp only [List.cons_append, List.cons.injEq] at ht'
              exact ht'.1
            subst hx
            have hlt : (x :: xs).length < width x := by
              rw [hw, ← encChar_length c]
              have := hp.length_le
              rcases Nat.lt_or_ge (x :: xs).length (encChar c).length with h1 | h1
              · exact h1
              · exfalso; apply hne
                exact List.IsPrefix.eq_of_length_le hp h1
            unfold decChar
            simp only
            rw [if_pos hlt]
      · cases h

#print axioms strict_char
#print axioms rt_char
end U8
