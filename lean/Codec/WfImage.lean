import Core
import Codec.Bridge
/-! Every graph reachable by a valid history of well-formed calls (labels `Alpha n` with n < 2^64 and 8-character
    `Str` arrays, data that fit their length field), with capacity and edge capacity below 2^64, satisfies the
    well-formedness predicate of the image codec — so C08 and C09 hold for every reachable graph. -/
namespace Cd
open Sodg

theorem u64_of_le16 (x : Nat) (h : x ≤ 16) : U64 x := by unfold U64; omega

theorem wfG_of_invariants (g : G Label Hex) (hi : Inv g) (hw : WfS wfLabel wfHex g) (he : EdgesBelow g)
    (hc : cap g < 2 ^ 64) (hn : g.n < 2 ^ 64) : WfG g := by
  have p64 : (2 : Nat) ^ 64 = 256 ^ 8 := by decide
  unfold WfG wfImg toImg
  refine ⟨⟨?_, ?_⟩, ⟨?_, ?_⟩, ⟨?_, ?_⟩⟩
  · simp only [Array.length_toList, hi.stsz]; exact u64_of_le16 _ (by omega)
  · intro x hx
    obtain ⟨b, hb, rfl⟩ := Array.mem_iff_getElem.1 (Array.mem_toList_iff.1 hx)
    have hcnt : g.st[b] = cnt g b := by simp [cnt, hb]
    rw [hcnt]
    rw [hi.stsz] at hb
    by_cases h0 : b = 0
    · subst h0; rw [hw.c0]; exact u64_of_le16 _ (by omega)
    · by_cases h1 : b = 1
      · subst h1; rw [hw.c1]; exact u64_of_le16 _ (by omega)
      · rw [hi.count b (by omega) hb]
        have : unread g (mem g b) ≤ (mem g b).length := by unfold unread; exact List.length_filter_le _ _
        exact u64_of_le16 _ (by have := hw.len b; omega)
  · simp only [Array.length_toList, hi.brsz]; exact u64_of_le16 _ (by omega)
  · intro l hl
    obtain ⟨b, hb, rfl⟩ := Array.mem_iff_getElem.1 (Array.mem_toList_iff.1 hl)
    have hmem : g.br[b] = mem g b := by simp [mem, hb]
    rw [hmem]
    rw [hi.brsz] at hb
    refine ⟨u64_of_le16 _ (hw.len b), ?_, hw.len b⟩
    intro x hx
    by_cases h0 : b = 0
    · subst h0; rw [hi.s0] at hx; simp at hx; subst hx; exact u64_of_le16 _ (by omega)
    · by_cases h1 : b = 1
      · subst h1; rw [hi.s1] at hx; simp at hx; subst hx; exact u64_of_le16 _ (by omega)
      · have := (hi.memb b (by omega) hb x hx).1
        unfold U64; omega
  · simp only [List.length_map, Array.length_toList]; unfold U64; unfold cap at hc; omega
  · intro v hv
    simp only [List.mem_map] at hv
    obtain ⟨x, hx, rfl⟩ := hv
    obtain ⟨u, hu, rfl⟩ := Array.mem_iff_getElem.1 (Array.mem_toList_iff.1 hx)
    have hu' : u < cap g := hu
    have e1 : g.vs[u]! = g.vs[u] := getElem!_pos g.vs u hu
    have hdat := hw.dat u
    have helen := hw.elen u
    have hlabs := hw.labs u
    have htag := hi.taglt u hu'
    have heb := he u
    simp only [dat, edg, tag, e1] at hdat helen hlabs htag heb
    simp only [toV, wfV]
    refine ⟨u64_of_le16 _ (by omega), hdat, ?_, ?_, helen, ?_⟩
    · cases (g.vs[u]).pers <;> simp [persCode]
    · unfold U64; omega
    · intro e hem
      refine ⟨hlabs e hem, ?_⟩
      have := heb e hem
      have hcap : cap g = g.vs.size := rfl
      unfold U64; omega

/-- **every reachable graph has a well-formed image** -/
theorem ReachW.wfG {n c : Nat} {g : G Label Hex} {r : R Label Hex} {P : List (Nat × Nat)}
    (h : ReachW wfLabel wfHex n c g r P) (hc : c < 2 ^ 64) (hn : n < 2 ^ 64) : WfG g := by
  have hdef : wfHex (default : Hex) := by
    show wfHex (.inline (List.replicate 8 0) 0)
    simp [wfHex, U64]
  obtain ⟨hr, hcap, hnn, _, _⟩ := h.reach.inv
  exact wfG_of_invariants g hr.inv (h.wfs wfLabel wfHex hdef) h.reach.edgesBelow (by rw [hcap]; exact hc) (by rw [hnn]; exact hn)

end Cd
