/-! Feasibility probe for C08/C09: strict parsers (exact prefix, independent of the rest, EOF on every proper prefix)
    are closed under sequencing and counted repetition; round trip with continuation composes the same way. -/
namespace SP

inductive Err | eof | invalid | panic
deriving DecidableEq, Repr

abbrev Parser (α : Type) := List UInt8 → Except Err (α × List UInt8)

def byte : Parser UInt8 := fun
  | [] => .error .eof
  | b :: r => .ok (b, r)

def bind {α β} (p : Parser α) (f : α → Parser β) : Parser β := fun w =>
  match p w with
  | .error e => .error e
  | .ok (a, r) => f a r

def pure {α} (a : α) : Parser α := fun w => .ok (a, w)
def fail {α} (e : Err) : Parser α := fun _ => .error e

def rep {α} (p : Parser α) : Nat → Parser (List α)
  | 0 => pure []
  | n + 1 => bind p (fun a => bind (rep p n) (fun as => pure (a :: as)))

def Strict {α} (p : Parser α) : Prop :=
  ∀ w a r, p w = .ok (a, r) →
    ∃ c, w = c ++ r ∧ (∀ r', p (c ++ r') = .ok (a, r')) ∧
      (∀ c', c' <+: c → c' ≠ c → p c' = .error .eof)

theorem strict_byte : Strict byte := by
  intro w a r h
  cases w with
  | nil => simp [byte] at h
  | cons b t =>
    simp [byte] at h
    obtain ⟨rfl, rfl⟩ := h
    refine ⟨[b], rfl, ?_, ?_⟩
    · intro r'; simp [byte]
    · intro c' hp hne
      cases c' with
      | nil => simp [byte]
      | cons x xs =>
        exfalso
        have hl := hp.length_le
        cases xs with
        | nil =>
          obtain ⟨t, ht⟩ := hp
          simp at ht
          exact hne (by simp [ht.1])
        | cons _ _ => simp at hl

theorem strict_pure {α} (a : α) : Strict (pure a) := by
  intro w a' r h
  simp [pure] at h
  obtain ⟨rfl, rfl⟩ := h
  refine ⟨[], rfl, fun r' => rfl, ?_⟩
  intro c' hp hne
  exact absurd (List.prefix_nil.mp hp) hne

theorem strict_fail {α} (e : Err) : Strict (fail e : Parser α) := by
  intro w a r h; simp [fail] at h

theorem strict_bind {α β} (p : Parser α) (f : α → Parser β) (hp : Strict p) (hf : ∀ a, Strict (f a)) :
    Strict (bind p f) := by
  intro w b r h
  unfold bind at h
  split at h
  · cases h
  next a r1 h1 =>
    obtain ⟨c1, rfl, hind1, hpre1⟩ := hp w a r1 h1
    obtain ⟨c2, rfl, hind2, hpre2⟩ := hf a r1 b r h
    refine ⟨c1 ++ c2, by simp, ?_, ?_⟩
    · intro r'
      unfold bind
      rw [List.append_assoc, hind1]
      exact hind2 r'
    · intro c' hpf hne
      unfold bind
      have h12 : c1 <+: c1 ++ c2 := List.prefix_append c1 c2
      rcases List.prefix_or_prefix_of_prefix hpf h12 with hc | hc
      · by_cases he : c' = c1
        · subst he
          have := hind1 []
          simp only [List.append_nil] at this
          rw [this]
          have := hpre2 [] (List.nil_prefix) (by
            intro h0; subst h0; simp at hne)
          simpa using this
        · rw [hpre1 c' hc he]
      · obtain ⟨t, rfl⟩ := hc
        rw [hind1 t]
        have ht : t <+: c2 := by simpa using hpf
        have hne' : t ≠ c2 := by intro h0; subst h0; exact hne rfl
        exact hpre2 t ht hne'

theorem strict_rep {α} (p : Parser α) (hp : Strict p) : ∀ n, Strict (rep p n)
  | 0 => strict_pure []
  | n + 1 => strict_bind _ _ hp (fun a => strict_bind _ _ (strict_rep p hp n) (fun as => strict_pure (a :: as)))

theorem strict_top {α} (p : Parser α) (hp : Strict p) (w : List UInt8) (a : α)
    (h : p w = .ok (a, [])) (k : Nat) (hk : k < w.length) : p (w.take k) = .error .eof := by
  obtain ⟨c, hc, _, hpre⟩ := hp w a [] h
  simp only [List.append_nil] at hc
  subst hc
  apply hpre
  · exact List.take_prefix k w
  · intro h0
    have := congrArg List.length h0
    simp at this
    omega

/-! round trip with continuation -/
def RT {α} (enc : α → List UInt8) (dec : Parser α) (wf : α → Prop) : Prop :=
  ∀ x r, wf x → dec (enc x ++ r) = .ok (x, r)

theorem rt_byte : RT (fun b => [b]) byte (fun _ => True) := by intro x r _; rfl

/-- a length-prefixed (one byte here, eight in bincode) sequence -/
def encSeq {α} (enc : α → List UInt8) (xs : List α) : List UInt8 :=
  UInt8.ofNat xs.length :: (xs.map enc).flatten

def decSeq {α} (dec : Parser α) : Parser (List α) := bind byte (fun n => rep dec n.toNat)

theorem rt_rep {α} (enc : α → List UInt8) (dec : Parser α) (wf : α → Prop) (h : RT enc dec wf) :
    ∀ (xs : List α) r, (∀ x ∈ xs, wf x) → rep dec xs.length ((xs.map enc).flatten ++ r) = .ok (xs, r) := by
  intro xs
  induction xs with
  | nil => intro r _; rfl
  | cons x xs ih =>
    intro r hw
    simp only [List.length_cons, rep, List.map_cons, List.flatten_cons, List.append_assoc]
    unfold bind
    rw [h x _ (hw x (by simp))]
    simp only [bind]
    rw [ih r (fun y hy => hw y (by simp [hy]))]
    rfl

theorem rt_seq {α} (enc : α → List UInt8) (dec : Parser α) (wf : α → Prop) (h : RT enc dec wf) :
    RT (encSeq enc) (decSeq dec) (fun xs => xs.length < 256 ∧ ∀ x ∈ xs, wf x) := by
  intro xs r ⟨hl, hw⟩
  unfold encSeq decSeq bind
  simp only [List.cons_append, byte]
  have : (UInt8.ofNat xs.length).toNat = xs.length := by
    simp [UInt8.toNat_ofNat']; omega
  rw [this]
  exact rt_rep enc dec wf h xs r hw

theorem strict_seq {α} (dec : Parser α) (h : Strict dec) : Strict (decSeq dec) :=
  strict_bind _ _ strict_byte (fun n => strict_rep dec h n.toNat)

/-- **C09 in miniature**: every proper prefix of the image of a sequence of sequences of bytes is rejected with EOF -/
theorem truncated_rejected (xss : List (List UInt8)) (hw : xss.length < 256 ∧ ∀ xs ∈ xss, xs.length < 256 ∧ ∀ x ∈ xs, True)
    (k : Nat) (hk : k < (encSeq (encSeq (fun b => [b])) xss).length) :
    decSeq (decSeq byte) ((encSeq (encSeq (fun b => [b])) xss).take k) = .error .eof := by
  apply strict_top _ (strict_seq _ (strict_seq _ strict_byte)) _ xss _ k hk
  have := rt_seq _ _ _ (rt_seq _ _ _ rt_byte) xss [] hw
  simpa using this

#print axioms truncated_rejected
end SP
