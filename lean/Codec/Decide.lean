import Codec.Bridge
/-! Decidability of the well-formedness predicates of the image (used for the non-vacuity examples). -/
namespace Cd
open Sodg

instance (l : Label) : Decidable (wfLabel l) := by cases l <;> simp only [wfLabel, U64] <;> infer_instance
instance (h : Hex) : Decidable (wfHex h) := by cases h <;> simp only [wfHex, U64] <;> infer_instance
instance (n) (v : V Label Hex) : Decidable (wfV n wfLabel wfHex v) := by simp only [wfV, U64]; infer_instance
instance (g : G Label Hex) : Decidable (WfG g) := by simp only [WfG, wfImg, U64]; infer_instance

/-- a small graph with a multi-byte label, heap data and inline data with non-zero padding -/
def demoG : Option (G Label Hex) := do
  let g ← add (empty 2 3 : G Label Hex) 1
  let g ← add g 2
  let g ← Sodg.bind g 1 2 (.greek 'ρ')
  let g ← put g 2 (.vector [1, 2, 3, 4, 5, 6, 7, 8, 9])
  put g 1 (.inline [1, 2, 0xAA, 0, 0, 0, 0, 0] 2)

end Cd
