import Core.Model
import Codec.Leaf
/-! The image of a graph: `save` = bincode of (stores, branches, vertices), `load` = its decoder, stated on the
    model's state type with the real label and datum types. -/
namespace Cd
open Sodg

def persCode : Pers → Nat
  | .empty => 0
  | .stored => 1
  | .taken => 2

def persOf : Nat → Pers
  | 0 => .empty
  | 1 => .stored
  | _ => .taken

theorem persOf_persCode (p : Pers) : persOf (persCode p) = p := by cases p <;> rfl

def toV (v : Vertex Label Hex) : V Label Hex := ⟨v.branch, v.data, persCode v.pers, v.edges⟩
def ofV (v : V Label Hex) : Vertex Label Hex := ⟨v.branch, v.data, persOf v.pers, v.edges⟩

theorem ofV_toV (v : Vertex Label Hex) : ofV (toV v) = v := by
  cases v; simp [ofV, toV, persOf_persCode]

/-- the serialized fields (the allocator position is skipped) -/
def toImg (g : G Label Hex) : Img Label Hex :=
  { st := g.st.toList, br := g.br.toList, vs := g.vs.toList.map toV }

/-- what deserialization builds: the three tables, the allocator position restarts at 0 -/
def ofImg (n : Nat) (i : Img Label Hex) : G Label Hex :=
  { n, st := i.st.toArray, br := i.br.toArray, vs := (i.vs.map ofV).toArray, next := 0 }

theorem ofImg_toImg (g : G Label Hex) : ofImg g.n (toImg g) = { g with next := 0 } := by
  cases g with
  | mk n vs br st next =>
    simp only [ofImg, toImg, List.map_map]
    have : (ofV ∘ toV) = id := by funext v; exact ofV_toV v
    simp [this]

/-- `save`: the bytes written to the file -/
def save (g : G Label Hex) : List UInt8 := encImg encLabel encHex (toImg g)

/-- `load`: `Except`: `.error .eof` / `.invalid` = `Err`, `.error .panic` = panic -/
def load (n : Nat) (bytes : List UInt8) : Except Err (G Label Hex) :=
  match decImg n decLabel decHex bytes with
  | .ok (i, _) => .ok (ofImg n i)
  | .error e => .error e

/-- sizes and numbers fit their 64-bit fields, at most `N` edges per vertex, at most 16 members per list -/
def WfG (g : G Label Hex) : Prop := wfImg g.n wfLabel wfHex (toImg g)

/-- **C08, codec part**: loading a saved image gives back the graph, with the allocator position at 0 -/
theorem load_save (g : G Label Hex) (h : WfG g) : load g.n (save g) = .ok { g with next := 0 } := by
  unfold load save
  rw [image_roundtrip g.n (toImg g) h]
  simp only [ofImg_toImg]

/-- **C09**: every proper prefix of a saved image is rejected with an EOF error: never a graph, never a panic -/
theorem load_truncated (g : G Label Hex) (h : WfG g) (k : Nat) (hk : k < (save g).length) :
    load g.n ((save g).take k) = .error .eof := by
  unfold load save
  rw [image_truncated g.n (toImg g) h k hk]

end Cd
