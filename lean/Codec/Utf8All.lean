import Codec.Utf8
/-! Whole strings: `String::as_bytes` / `String::from_utf8` as the model sees them (`Hex::from_str_bytes`,
    `Hex::to_utf8`). The decoder is the strict character decoder of the image codec, iterated. -/
namespace U8

def encAll (cs : List Char) : List UInt8 := cs.flatMap encChar

def decAllF : Nat → List UInt8 → Option (List Char)
  | _, [] => some []
  | 0, _ :: _ => none
  | f + 1, b :: t =>
    match decChar (b :: t) with
    | .ok (c, r) => (decAllF f r).map (c :: ·)
    | .error _ => none

/-- `String::from_utf8(bytes)`: `none` = `Err` -/
def decAll (w : List UInt8) : Option (List Char) := decAllF w.length w

theorem encChar_ne_nil (c : Char) : encChar c ≠ [] := by
  obtain ⟨b, t, he, _⟩ := width_head c
  rw [he]; simp

theorem decAllF_encAll : ∀ (cs : List Char) (f : Nat), (encAll cs).length ≤ f → decAllF f (encAll cs) = some cs := by
  intro cs
  induction cs with
  | nil => intro f _; cases f <;> simp [encAll, decAllF]
  | cons c cs ih =>
    intro f hf
    have he : encAll (c :: cs) = encChar c ++ encAll cs := by simp [encAll]
    obtain ⟨b, t, hb, _⟩ := width_head c
    rw [he] at hf ⊢
    have hlen : 1 ≤ (encChar c).length := by rw [hb]; simp
    cases f with
    | zero => exfalso; rw [List.length_append] at hf; omega
    | succ f =>
      have hdec := rt_char c (encAll cs) trivial
      rw [hb, List.cons_append] at hdec ⊢
      simp only [decAllF, hdec]
      rw [ih f (by rw [List.length_append] at hf; omega)]
      rfl

/-- text → bytes → text -/
theorem decAll_encAll (cs : List Char) : decAll (encAll cs) = some cs :=
  decAllF_encAll cs _ (Nat.le_refl _)

/-- whatever decodes is the encoding of the result: `to_utf8` succeeds exactly on encodings -/
theorem encAll_of_decAllF : ∀ (f : Nat) (w : List UInt8) (cs : List Char), decAllF f w = some cs → encAll cs = w := by
  intro f
  induction f with
  | zero =>
    intro w cs h
    cases w with
    | nil => simp [decAllF] at h; subst h; rfl
    | cons b t => simp [decAllF] at h
  | succ f ih =>
    intro w cs h
    cases w with
    | nil => simp [decAllF] at h; subst h; rfl
    | cons b t =>
      simp only [decAllF] at h
      cases hd : decChar (b :: t) with
      | error e => rw [hd] at h; simp at h
      | ok pr =>
        obtain ⟨c, r⟩ := pr
        rw [hd] at h
        simp only [Option.map_eq_some_iff] at h
        obtain ⟨cs', hcs, rfl⟩ := h
        have hrec := ih r cs' hcs
        unfold decChar at hd
        simp only at hd
        split at hd
        · cases hd
        · split at hd
          next c' hdec =>
            cases hd
            obtain ⟨hpre, _⟩ := decoded_prefix (b :: t) c hdec
            have : encAll (c :: cs') = encChar c ++ encAll cs' := by simp [encAll]
            rw [this, hrec, ← hpre]
            exact List.take_append_drop _ _
          next => cases hd

theorem encAll_of_decAll (w : List UInt8) (cs : List Char) (h : decAll w = some cs) : encAll cs = w :=
  encAll_of_decAllF _ w cs h

end U8
