/-! Feasibility probe for C08/C09 on the real image layout (DESIGN.md Appendix A.4), generic in the label and
    datum codecs: `decode (encode g) = ok g` and every proper prefix of `encode g` is rejected with EOF. -/
namespace Cd

inductive Err | eof | invalid | panic
deriving DecidableEq, Repr

abbrev Parser (α : Type) := List UInt8 → Except Err (α × List UInt8)

def bind {α β} (p : Parser α) (f : α → Parser β) : Parser β := fun w =>
  match p w with
  | .error e => .error e
  | .ok (a, r) => f a r
def pure {α} (a : α) : Parser α := fun w => .ok (a, w)
def fail {α} (e : Err) : Parser α := fun _ => .error e
def rep {α} (p : Parser α) : Nat → Parser (List α)
  | 0 => pure []
  | n + 1 => bind p (fun a => bind (rep p n) (fun as => pure (a :: as)))

/-- exact prefix, independent of the rest, EOF on every proper prefix of what was consumed -/
def Strict {α} (p : Parser α) : Prop :=
  ∀ w a r, p w = .ok (a, r) →
    ∃ c, w = c ++ r ∧ (∀ r', p (c ++ r') = .ok (a, r')) ∧ (∀ c', c' <+: c → c' ≠ c → p c' = .error .eof)

/-- round trip with continuation -/
def RT {α} (enc : α → List UInt8) (dec : Parser α) (wf : α → Prop) : Prop :=
  ∀ x r, wf x → dec (enc x ++ r) = .ok (x, r)

theorem strict_pure {α} (a : α) : Strict (pure a) := by
  intro w a' r h
  simp [pure] at h
  obtain ⟨rfl, rfl⟩ := h
  exact ⟨[], rfl, fun r' => rfl, fun c' hp hne => absurd (List.prefix_nil.mp hp) hne⟩

theorem strict_fail {α} (e : Err) : Strict (fail e : Parser α) := by
  intro w a r h; simp [fail] at h

theorem strict_bind {α β} (p : Parser α) (f : α → Parser β) (hp : Strict p) (hf : ∀ a, Strict (f a)) :
    Strict (bind p f) := by
  intro w b r h
  unfold bind at h
  split at h
  · cases h
  next a r1 h1 =>
    obtain ⟨c1, rfl, hind1, hpre1⟩ := hp w a r1 h1
    obtain ⟨c2, rfl, hind2, hpre2⟩ := hf a r1 b r h
    refine ⟨c1 ++ c2, by simp, ?_, ?_⟩
    · intro r'; unfold bind; rw [List.append_assoc, hind1]; exact hind2 r'
    · intro c' hpf hne
      unfold bind
      have h12 : c1 <+: c1 ++ c2 := List.prefix_append c1 c2
      rcases List.prefix_or_prefix_of_prefix hpf h12 with hc | hc
      · by_cases he : c' = c1
        · subst he
          have := hind1 []
          simp only [List.append_nil] at this
          rw [this]
          have := hpre2 [] (List.nil_prefix) (by intro h0; subst h0; simp at hne)
          simpa using this
        · rw [hpre1 c' hc he]
      · obtain ⟨t, rfl⟩ := hc
        rw [hind1 t]
        have ht : t <+: c2 := by simpa using hpf
        have hne' : t ≠ c2 := by intro h0; subst h0; exact hne rfl
        exact hpre2 t ht hne'

theorem strict_rep {α} (p : Parser α) (hp : Strict p) : ∀ n, Strict (rep p n)
  | 0 => strict_pure []
  | n + 1 => strict_bind _ _ hp (fun a => strict_bind _ _ (strict_rep p hp n) (fun as => strict_pure (a :: as)))

theorem strict_top {α} (p : Parser α) (hp : Strict p) (w : List UInt8) (a : α)
    (h : p w = .ok (a, [])) (k : Nat) (hk : k < w.length) : p (w.take k) = .error .eof := by
  obtain ⟨c, hc, _, hpre⟩ := hp w a [] h
  simp only [List.append_nil] at hc
  subst hc
  apply hpre _ (List.take_prefix k _)
  intro h0
  have := congrArg List.length h0
  simp at this; omega

theorem rt_rep {α} (enc : α → List UInt8) (dec : Parser α) (wf : α → Prop) (h : RT enc dec wf) :
    ∀ (xs : List α) r, (∀ x ∈ xs, wf x) → rep dec xs.length ((xs.map enc).flatten ++ r) = .ok (xs, r) := by
  intro xs
  induction xs with
  | nil => intro r _; rfl
  | cons x xs ih =>
    intro r hw
    simp only [List.length_cons, rep, List.map_cons, List.flatten_cons, List.append_assoc]
    unfold bind
    rw [h x _ (hw x (by simp))]
    simp only [bind]
    rw [ih r (fun y hy => hw y (by simp [hy]))]
    rfl

/-! ### fixed-width little-endian integers -/

def encLE : Nat → Nat → List UInt8
  | 0, _ => []
  | k + 1, n => UInt8.ofNat (n % 256) :: encLE k (n / 256)

def decLE : Nat → Parser Nat
  | 0, w => .ok (0, w)
  | _ + 1, [] => .error .eof
  | k + 1, b :: w => match decLE k w with
    | .error e => .error e
    | .ok (n, r) => .ok (b.toNat + 256 * n, r)

theorem rt_LE (k : Nat) : RT (encLE k) (decLE k) (fun n => n < 256 ^ k) := by
  intro n r h
  induction k generalizing n with
  | zero => simp at h; subst h; rfl
  | succ k ih =>
    simp only [encLE, List.cons_append, decLE]
    have hq : n / 256 < 256 ^ k := by
      rw [Nat.div_lt_iff_lt_mul (by decide)]; rw [Nat.pow_succ] at h; exact h
    rw [ih (n / 256) hq]
    have : (UInt8.ofNat (n % 256)).toNat = n % 256 := by simp [UInt8.toNat_ofNat']
    simp only [this]
    congr 2
    omega

theorem strict_LE : ∀ k, Strict (decLE k)
  | 0 => by
    intro w a r h; simp [decLE] at h; obtain ⟨rfl, rfl⟩ := h
    exact ⟨[], rfl, fun r' => rfl, fun c' hp hne => absurd (List.prefix_nil.mp hp) hne⟩
  | k + 1 => by
    intro w a r h
    cases w with
    | nil => simp [decLE] at h
    | cons b t =>
      simp only [decLE] at h
      split at h
      · cases h
      next n r1 h1 =>
        cases h
        obtain ⟨c, rfl, hind, hpre⟩ := strict_LE k t n r h1
        refine ⟨b :: c, rfl, ?_, ?_⟩
        · intro r'; simp only [List.cons_append, decLE, hind r']
        · intro c' hp hne
          cases c' with
          | nil => rfl
          | cons x xs =>
            have hx : x = b ∧ xs <+: c := by
              obtain ⟨t', ht'⟩ := hp
              simp only [List.cons_append, List.cons.injEq] at ht'
              exact ⟨ht'.1, ⟨t', ht'.2⟩⟩
            obtain ⟨rfl, hxs⟩ := hx
            simp only [decLE]
            rw [hpre xs hxs (by intro h0; subst h0; exact hne rfl)]

def u64 : Parser Nat := decLE 8
def u32 : Parser Nat := decLE 4
def U64 (n : Nat) : Prop := n < 256 ^ 8
def U32 (n : Nat) : Prop := n < 256 ^ 4

/-! ### the containers and records of the image -/

/-- length-prefixed sequence (`serialize_seq` / `serialize_map` of bincode: u64 length, then the items) -/
def encSeq {α} (enc : α → List UInt8) (xs : List α) : List UInt8 := encLE 8 xs.length ++ (xs.map enc).flatten
def decSeq {α} (dec : Parser α) (limit : Option Nat) : Parser (List α) :=
  bind u64 (fun n => bind (rep dec n) (fun xs =>
    match limit with
    | some m => if n ≤ m then pure xs else fail .panic      -- micromap beyond N / microstack beyond 16
    | none => pure xs))

theorem strict_seq {α} (dec : Parser α) (limit) (h : Strict dec) : Strict (decSeq dec limit) := by
  apply strict_bind _ _ (strict_LE 8)
  intro n
  apply strict_bind _ _ (strict_rep dec h n)
  intro xs
  cases limit with
  | none => exact strict_pure xs
  | some m => simp only; split; exact strict_pure xs; exact strict_fail _

theorem rt_seq {α} (enc : α → List UInt8) (dec : Parser α) (wf : α → Prop) (limit : Option Nat) (h : RT enc dec wf) :
    RT (encSeq enc) (decSeq dec limit)
      (fun xs => U64 xs.length ∧ (∀ x ∈ xs, wf x) ∧ (∀ m, limit = some m → xs.length ≤ m)) := by
  intro xs r ⟨hl, hw, hm⟩
  unfold encSeq decSeq bind u64
  rw [List.append_assoc, rt_LE 8 xs.length _ hl]
  simp only
  rw [rt_rep enc dec wf h xs r hw]
  cases limit with
  | none => rfl
  | some m => simp only [hm m rfl, if_true]; rfl

/-- pair codec -/
def encPair {α β} (ea : α → List UInt8) (eb : β → List UInt8) (p : α × β) : List UInt8 := ea p.1 ++ eb p.2
def decPair {α β} (da : Parser α) (db : Parser β) : Parser (α × β) := bind da (fun a => bind db (fun b => pure (a, b)))

theorem strict_pair {α β} (da : Parser α) (db : Parser β) (ha : Strict da) (hb : Strict db) : Strict (decPair da db) :=
  strict_bind _ _ ha (fun a => strict_bind _ _ hb (fun b => strict_pure (a, b)))

theorem rt_pair {α β} (ea da wa) (eb db wb) (ha : RT (α := α) ea da wa) (hb : RT (α := β) eb db wb) :
    RT (encPair ea eb) (decPair da db) (fun p => wa p.1 ∧ wb p.2) := by
  intro p r ⟨h1, h2⟩
  unfold encPair decPair bind
  rw [List.append_assoc, ha p.1 _ h1]
  simp only
  rw [hb p.2 _ h2]
  rfl

/-- emap: count, then (key, value) with keys 0..count-1 ascending (what `save` writes; see the note in DESIGN.md) -/
def encEmap {α} (enc : α → List UInt8) (xs : List α) : List UInt8 :=
  encSeq (encPair (encLE 8) enc) ((List.range xs.length).zip xs)
def decEmap {α} (dec : Parser α) : Parser (List α) :=
  bind (decSeq (decPair u64 dec) none) (fun ps =>
    if ps.map Prod.fst = List.range ps.length then pure (ps.map Prod.snd) else fail .invalid)

theorem strict_emap {α} (dec : Parser α) (h : Strict dec) : Strict (decEmap dec) := by
  apply strict_bind _ _ (strict_seq _ none (strict_pair _ _ (strict_LE 8) h))
  intro ps; split; exact strict_pure _; exact strict_fail _

theorem rt_emap {α} (enc : α → List UInt8) (dec : Parser α) (wf : α → Prop) (h : RT enc dec wf) :
    RT (encEmap enc) (decEmap dec) (fun xs => U64 xs.length ∧ ∀ x ∈ xs, wf x) := by
  intro xs r ⟨hl, hw⟩
  unfold encEmap decEmap bind
  have hz : ((List.range xs.length).zip xs).length = xs.length := by simp
  have := rt_seq (encPair (encLE 8) enc) (decPair u64 dec) _ none (rt_pair _ _ _ _ _ _ (rt_LE 8) h)
    ((List.range xs.length).zip xs) r
    ⟨by rw [hz]; exact hl, by
      intro p hp
      have h1 := (List.of_mem_zip hp).1
      have h2 := (List.of_mem_zip hp).2
      simp only [List.mem_range] at h1
      exact ⟨by unfold U64 at hl; omega, hw _ h2⟩, by simp⟩
  unfold u64 at *
  rw [this]
  simp only [hz]
  have e1 : ((List.range xs.length).zip xs).map Prod.fst = List.range xs.length := by
    rw [List.map_fst_zip]; simp
  have e2 : ((List.range xs.length).zip xs).map Prod.snd = xs := by
    rw [List.map_snd_zip]; simp
  simp [e1, e2, pure]

/-! ### the image -/

structure V (L D : Type) where
  branch : Nat
  data : D
  pers : Nat
  edges : List (L × Nat)

structure Img (L D : Type) where
  st : List Nat
  br : List (List Nat)
  vs : List (V L D)

section
variable {L D : Type} (n : Nat)
variable (encL : L → List UInt8) (decL : Parser L) (wfL : L → Prop)
variable (encD : D → List UInt8) (decD : Parser D) (wfD : D → Prop)

def encV (v : V L D) : List UInt8 :=
  encLE 8 v.branch ++ encD v.data ++ encLE 4 v.pers ++ encSeq (encPair encL (encLE 8)) v.edges

def decPers : Parser Nat := bind u32 (fun t => if t < 3 then pure t else fail .invalid)

def decV : Parser (V L D) :=
  bind u64 (fun b => bind decD (fun d => bind decPers (fun p =>
    bind (decSeq (decPair decL u64) (some n)) (fun es => pure ⟨b, d, p, es⟩))))

def wfV (v : V L D) : Prop :=
  U64 v.branch ∧ wfD v.data ∧ v.pers < 3 ∧ U64 v.edges.length ∧ v.edges.length ≤ n ∧
    ∀ e ∈ v.edges, wfL e.1 ∧ U64 e.2

theorem strict_pers : Strict decPers :=
  strict_bind _ _ (strict_LE 4) (fun t => by split; exact strict_pure _; exact strict_fail _)

theorem strict_V (hL : Strict decL) (hD : Strict decD) : Strict (decV n decL decD) :=
  strict_bind _ _ (strict_LE 8) (fun _ => strict_bind _ _ hD (fun _ => strict_bind _ _ strict_pers (fun _ =>
    strict_bind _ _ (strict_seq _ _ (strict_pair _ _ hL (strict_LE 8))) (fun _ => strict_pure _))))

theorem rt_V (hL : RT encL decL wfL) (hD : RT encD decD wfD) :
    RT (encV encL encD) (decV n decL decD) (wfV n wfL wfD) := by
  intro v r ⟨h1, h2, h3, h4, h5, h6⟩
  unfold encV decV bind u64
  simp only [List.append_assoc]
  rw [rt_LE 8 v.branch _ h1]
  simp only
  rw [hD v.data _ h2]
  simp only [decPers, bind, u32]
  rw [rt_LE 4 v.pers _ (Nat.lt_of_lt_of_le h3 (by decide))]
  simp only [h3, if_true, pure]
  have := rt_seq (encPair encL (encLE 8)) (decPair decL u64) _ (some n) (rt_pair _ _ _ _ _ _ hL (rt_LE 8))
    v.edges r ⟨h4, fun e he => h6 e he, by intro m hm; cases hm; exact h5⟩
  unfold u64 at this
  rw [this]

def encImg (g : Img L D) : List UInt8 :=
  encEmap (encLE 8) g.st ++ encEmap (encSeq (encLE 8)) g.br ++ encEmap (encV encL encD) g.vs

def decImg : Parser (Img L D) :=
  bind (decEmap u64) (fun st => bind (decEmap (decSeq u64 (some 16))) (fun br =>
    bind (decEmap (decV n decL decD)) (fun vs => pure ⟨st, br, vs⟩)))

def wfImg (g : Img L D) : Prop :=
  (U64 g.st.length ∧ ∀ x ∈ g.st, U64 x) ∧
  (U64 g.br.length ∧ ∀ b ∈ g.br, U64 b.length ∧ (∀ x ∈ b, U64 x) ∧ b.length ≤ 16) ∧
  (U64 g.vs.length ∧ ∀ v ∈ g.vs, wfV n wfL wfD v)

theorem strict_Img (hL : Strict decL) (hD : Strict decD) : Strict (decImg n decL decD) :=
  strict_bind _ _ (strict_emap _ (strict_LE 8)) (fun _ =>
    strict_bind _ _ (strict_emap _ (strict_seq _ _ (strict_LE 8))) (fun _ =>
      strict_bind _ _ (strict_emap _ (strict_V n decL decD hL hD)) (fun _ => strict_pure _)))

theorem rt_Img (hL : RT encL decL wfL) (hD : RT encD decD wfD) :
    RT (encImg encL encD) (decImg n decL decD) (wfImg n wfL wfD) := by
  intro g r ⟨h1, h2, h3⟩
  unfold encImg decImg bind
  simp only [List.append_assoc]
  have a := rt_emap (encLE 8) u64 U64 (rt_LE 8) g.st (encEmap (encSeq (encLE 8)) g.br ++ (encEmap (encV encL encD) g.vs ++ r)) h1
  rw [a]
  simp only
  have b := rt_emap (encSeq (encLE 8)) (decSeq u64 (some 16)) _ (rt_seq (encLE 8) u64 U64 (some 16) (rt_LE 8))
    g.br (encEmap (encV encL encD) g.vs ++ r)
    ⟨h2.1, fun x hx => ⟨(h2.2 x hx).1, (h2.2 x hx).2.1, by intro m hm; cases hm; exact (h2.2 x hx).2.2⟩⟩
  rw [b]
  simp only
  have c := rt_emap (encV encL encD) (decV n decL decD) _ (rt_V n encL decL wfL encD decD wfD hL hD) g.vs r h3
  rw [c]
  rfl

/-- **C08 (codec part)**: `load(save(g))` is `g` -/
theorem decode_encode (hL : RT encL decL wfL) (hD : RT encD decD wfD) (g : Img L D) (h : wfImg n wfL wfD g) :
    decImg n decL decD (encImg encL encD g) = .ok (g, []) := by
  have := rt_Img n encL decL wfL encD decD wfD hL hD g [] h
  simpa using this

/-- **C09**: every proper prefix of the image is rejected with EOF — never a graph, never a panic -/
theorem truncated_rejected (hL : RT encL decL wfL) (hD : RT encD decD wfD) (sL : Strict decL) (sD : Strict decD)
    (g : Img L D) (h : wfImg n wfL wfD g) (k : Nat) (hk : k < (encImg encL encD g).length) :
    decImg n decL decD ((encImg encL encD g).take k) = .error .eof :=
  strict_top _ (strict_Img n decL decD sL sD) _ g
    (decode_encode n encL decL wfL encD decD wfD hL hD g h) k hk
end

#print axioms decode_encode
#print axioms truncated_rejected
end Cd
