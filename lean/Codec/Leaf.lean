import Codec.Codec
import Pure.Label
import Pure.Hex
/-! C08/C09 probe, leaves: the `char` codec inside the combinator framework of `Codec.lean`, then the codecs of
    `Label` (tag + char / u64 / eight chars) and `Hex` (tag + byte vector / eight bytes + length), each with its
    round trip and strictness — the two hypotheses `decode_encode` and `truncated_rejected` ask for. -/
namespace Cd

/-- number of bytes announced by the first byte (valid first bytes only; others fail later as `invalid`) -/
def width (b : UInt8) : Nat :=
  if b.toNat < 128 then 1 else if b.toNat < 224 then 2 else if b.toNat < 240 then 3 else 4

def encChar (c : Char) : List UInt8 := String.utf8EncodeChar c

def decChar : Parser Char := fun w =>
  match w with
  | [] => .error .eof
  | b :: _ =>
    if w.length < width b then .error .eof
    else match w.toByteArray.utf8DecodeChar? 0 with
      | some c => .ok (c, w.drop c.utf8Size)
      | none => .error .invalid

/-! first-byte facts, by exhaustive kernel evaluation over the 256 bytes -/
theorem mask2 (x : UInt8) : 128 ≤ ((x &&& 0x1f) ||| 0xc0).toNat ∧ ((x &&& 0x1f) ||| 0xc0).toNat < 224 := by
  have h : ∀ n : Fin 256, 128 ≤ ((UInt8.ofNat n.val &&& 0x1f) ||| 0xc0).toNat ∧
      ((UInt8.ofNat n.val &&& 0x1f) ||| 0xc0).toNat < 224 := by decide +kernel
  simpa using h ⟨x.toNat, x.toNat_lt⟩
theorem mask3 (x : UInt8) : 224 ≤ ((x &&& 0x0f) ||| 0xe0).toNat ∧ ((x &&& 0x0f) ||| 0xe0).toNat < 240 := by
  have h : ∀ n : Fin 256, 224 ≤ ((UInt8.ofNat n.val &&& 0x0f) ||| 0xe0).toNat ∧
      ((UInt8.ofNat n.val &&& 0x0f) ||| 0xe0).toNat < 240 := by decide +kernel
  simpa using h ⟨x.toNat, x.toNat_lt⟩
theorem mask4 (x : UInt8) : 240 ≤ ((x &&& 0x07) ||| 0xf0).toNat := by
  have h : ∀ n : Fin 256, 240 ≤ ((UInt8.ofNat n.val &&& 0x07) ||| 0xf0).toNat := by decide +kernel
  simpa using h ⟨x.toNat, x.toNat_lt⟩

/-- the first byte of an encoding announces its length -/
theorem width_head (c : Char) : ∃ b t, encChar c = b :: t ∧ width b = c.utf8Size := by
  unfold encChar
  rcases c.utf8Size_eq with h | h | h | h
  · refine ⟨_, _, String.utf8EncodeChar_eq_singleton h, ?_⟩
    have h127 : c.val ≤ 127 := Char.utf8Size_eq_one_iff.1 h
    have hn : c.val.toNat ≤ 127 := by simpa [UInt32.le_iff_toNat_le] using h127
    have e : c.val.toUInt8.toNat = c.val.toNat % 256 := UInt32.toNat_toUInt8 _
    have h2 : c.val.toUInt8.toNat < 128 := by rw [e]; omega
    simp only [width, h]
    rw [if_pos h2]
  · refine ⟨_, _, String.utf8EncodeChar_eq_cons_cons h, ?_⟩
    have := mask2 (c.val >>> 6).toUInt8
    simp only [width, h]
    rw [if_neg (by omega), if_pos this.2]
  · refine ⟨_, _, String.utf8EncodeChar_eq_cons_cons_cons h, ?_⟩
    have := mask3 (c.val >>> 12).toUInt8
    simp only [width, h]
    rw [if_neg (by omega), if_neg (by omega), if_pos this.2]
  · refine ⟨_, _, String.utf8EncodeChar_eq_cons_cons_cons_cons h, ?_⟩
    have := mask4 (c.val >>> 18).toUInt8
    simp only [width, h]
    rw [if_neg (by omega), if_neg (by omega), if_neg (by omega)]

theorem encChar_length (c : Char) : (encChar c).length = c.utf8Size := String.length_utf8EncodeChar c

theorem rt_char : RT encChar decChar (fun _ => True) := by
  intro c r _
  obtain ⟨b, t, he, hw⟩ := width_head c
  have hl := encChar_length c
  unfold decChar
  rw [he, List.cons_append]
  simp only
  have hlen : ¬ (b :: (t ++ r)).length < width b := by
    rw [hw, ← hl, he]; simp
  rw [if_neg hlen]
  have hd : (b :: (t ++ r)).toByteArray.utf8DecodeChar? 0 = some c := by
    have := ByteArray.utf8DecodeChar?_utf8EncodeChar_append (b := r.toByteArray) (c := c)
    rw [← List.toByteArray_append] at this
    show ((b :: t) ++ r).toByteArray.utf8DecodeChar? 0 = some c
    rw [← he]; exact this
  rw [hd]
  simp only
  congr 2
  show ((b :: t) ++ r).drop c.utf8Size = r
  rw [← he, ← hl]
  exact List.drop_left

/-- what a successful decode has read is the encoding of the result -/
theorem decoded_prefix (w : List UInt8) (c : Char) (h : w.toByteArray.utf8DecodeChar? 0 = some c) :
    w.take c.utf8Size = encChar c ∧ c.utf8Size ≤ w.length := by
  have key := String.toByteArray_utf8EncodeChar_of_utf8DecodeChar?_eq_some h
  have hsz : c.utf8Size ≤ w.length := by
    have := congrArg ByteArray.size key
    simp only [List.size_toByteArray, String.length_utf8EncodeChar, ByteArray.size_extract] at this
    omega
  refine ⟨?_, hsz⟩
  have hd := congrArg (fun b => b.data.toList) key
  simp only [List.data_toByteArray, ByteArray.data_extract, Array.toList_extract] at hd
  simp at hd
  unfold encChar
  rw [hd]

theorem strict_char : Strict decChar := by
  intro w c r h
  unfold decChar at h
  cases w with
  | nil => simp at h
  | cons b t =>
    simp only at h
    split at h
    · cases h
    next hlen =>
      split at h
      next c' hdec =>
        cases h
        obtain ⟨hpre, hsz⟩ := decoded_prefix (b :: t) c hdec
        refine ⟨encChar c, ?_, ?_, ?_⟩
        · rw [← hpre]; exact (List.take_append_drop _ _).symm
        · intro r'; exact rt_char c r' trivial
        · intro c' hp hne
          obtain ⟨b0, t0, he, hw⟩ := width_head c
          cases c' with
          | nil => rfl
          | cons x xs =>
            have hx : x = b0 := by
              rw [he] at hp
              obtain ⟨t', ht'⟩ := hp
              simp only [List.cons_append, List.cons.injEq] at ht'
              exact ht'.1
            subst hx
            have hlt : (x :: xs).length < width x := by
              rw [hw, ← encChar_length c]
              have := hp.length_le
              rcases Nat.lt_or_ge (x :: xs).length (encChar c).length with h1 | h1
              · exact h1
              · exfalso; apply hne
                exact List.IsPrefix.eq_of_length_le hp h1
            unfold decChar
            simp only
            rw [if_pos hlt]
      · cases h


theorem bind_ok {α β} (p : Parser α) (f : α → Parser β) (w : List UInt8) (a : α) (r : List UInt8)
    (h : p w = .ok (a, r)) : bind p f w = f a r := by unfold bind; rw [h]

/-! ### Label -/

abbrev Label := Lb.Label

def encLabel : Label → List UInt8
  | .greek c => encLE 4 0 ++ encChar c
  | .alpha n => encLE 4 1 ++ encLE 8 n
  | .str a => encLE 4 2 ++ (a.map encChar).flatten

def decLabel : Parser Label :=
  bind u32 (fun tag =>
    if tag = 0 then bind decChar (fun c => pure (.greek c))
    else if tag = 1 then bind u64 (fun n => pure (.alpha n))
    else if tag = 2 then bind (rep decChar 8) (fun a => pure (.str a))
    else fail .invalid)

def wfLabel : Label → Prop
  | .greek _ => True
  | .alpha n => U64 n
  | .str a => a.length = 8

theorem strict_label : Strict decLabel := by
  apply strict_bind _ _ (strict_LE 4)
  intro tag
  split
  · exact strict_bind _ _ strict_char (fun _ => strict_pure _)
  · split
    · exact strict_bind _ _ (strict_LE 8) (fun _ => strict_pure _)
    · split
      · exact strict_bind _ _ (strict_rep _ strict_char 8) (fun _ => strict_pure _)
      · exact strict_fail _

theorem rt_label : RT encLabel decLabel wfLabel := by
  intro l r h
  cases l with
  | greek c =>
    simp only [encLabel, decLabel, List.append_assoc, u32, u64]
    rw [bind_ok _ _ _ _ _ (rt_LE 4 0 _ (by decide))]
    simp only [if_true]
    rw [bind_ok _ _ _ _ _ (rt_char c r trivial)]; rfl
  | alpha n =>
    simp only [encLabel, decLabel, List.append_assoc, u32, u64]
    rw [bind_ok _ _ _ _ _ (rt_LE 4 1 _ (by decide))]
    simp only [Nat.succ_ne_zero, if_false, if_true]
    rw [bind_ok _ _ _ _ _ (rt_LE 8 n r h)]; rfl
  | str a =>
    simp only [encLabel, decLabel, List.append_assoc, u32, u64]
    rw [bind_ok _ _ _ _ _ (rt_LE 4 2 _ (by decide))]
    have h8 : a.length = 8 := h
    have := rt_rep encChar decChar (fun _ => True) rt_char a r (fun _ _ => trivial)
    rw [h8] at this
    have e0 : ¬ (2 : Nat) = 0 := by decide
    have e1 : ¬ (2 : Nat) = 1 := by decide
    simp only [e0, e1, if_false, if_true]
    rw [bind_ok _ _ _ _ _ this]; rfl

/-! ### Hex -/

abbrev Hex := Hx.Hex

def byteP : Parser UInt8 := fun
  | [] => .error .eof
  | b :: r => .ok (b, r)

theorem strict_byteP : Strict byteP := by
  intro w a r h
  cases w with
  | nil => simp [byteP] at h
  | cons b t =>
    simp [byteP] at h
    obtain ⟨rfl, rfl⟩ := h
    refine ⟨[b], rfl, fun r' => rfl, ?_⟩
    intro c' hp hne
    cases c' with
    | nil => rfl
    | cons x xs =>
      exfalso
      cases xs with
      | nil =>
        obtain ⟨t', ht'⟩ := hp
        simp at ht'
        exact hne (by simp [ht'.1])
      | cons _ _ => have := hp.length_le; simp at this

theorem rt_byteP : RT (fun b => [b]) byteP (fun _ => True) := by intro x r _; rfl

def encHex : Hex → List UInt8
  | .vector v => encLE 4 0 ++ encSeq (fun b => [b]) v
  | .inline a len => encLE 4 1 ++ (a.map (fun b => [b])).flatten ++ encLE 8 len

def decHex : Parser Hex :=
  bind u32 (fun tag =>
    if tag = 0 then bind (decSeq byteP none) (fun v => pure (.vector v))
    else if tag = 1 then bind (rep byteP 8) (fun a => bind u64 (fun len => pure (.inline a len)))
    else fail .invalid)

def wfHex : Hex → Prop
  | .vector v => U64 v.length
  | .inline a len => a.length = 8 ∧ U64 len

theorem strict_hex : Strict decHex := by
  apply strict_bind _ _ (strict_LE 4)
  intro tag
  split
  · exact strict_bind _ _ (strict_seq _ _ strict_byteP) (fun _ => strict_pure _)
  · split
    · exact strict_bind _ _ (strict_rep _ strict_byteP 8) (fun _ => strict_bind _ _ (strict_LE 8) (fun _ => strict_pure _))
    · exact strict_fail _

theorem rt_hex : RT encHex decHex wfHex := by
  intro x r h
  cases x with
  | vector v =>
    simp only [encHex, decHex, List.append_assoc, u32, u64]
    rw [bind_ok _ _ _ _ _ (rt_LE 4 0 _ (by decide))]
    simp only [if_true]
    have := rt_seq (fun b => [b]) byteP (fun _ => True) none rt_byteP v r ⟨h, fun _ _ => trivial, by simp⟩
    rw [bind_ok _ _ _ _ _ this]; rfl
  | inline a len =>
    obtain ⟨h8, hl⟩ := h
    simp only [encHex, decHex, List.append_assoc, u32, u64]
    rw [bind_ok _ _ _ _ _ (rt_LE 4 1 _ (by decide))]
    have := rt_rep (fun b => [b]) byteP (fun _ => True) rt_byteP a (encLE 8 len ++ r) (fun _ _ => trivial)
    rw [h8] at this
    simp only [Nat.succ_ne_zero, if_false, if_true]
    rw [bind_ok _ _ _ _ _ this, bind_ok _ _ _ _ _ (rt_LE 8 len r hl)]; rfl

/-- **C08 and C09 for the real types**: instantiate the generic image theorems -/
theorem image_roundtrip (n : Nat) (g : Img Label Hex) (h : wfImg n wfLabel wfHex g) :
    decImg n decLabel decHex (encImg encLabel encHex g) = .ok (g, []) :=
  decode_encode n encLabel decLabel wfLabel encHex decHex wfHex rt_label rt_hex g h

theorem image_truncated (n : Nat) (g : Img Label Hex) (h : wfImg n wfLabel wfHex g) (k : Nat)
    (hk : k < (encImg encLabel encHex g).length) :
    decImg n decLabel decHex ((encImg encLabel encHex g).take k) = .error .eof :=
  truncated_rejected n encLabel decLabel wfLabel encHex decHex wfHex rt_label rt_hex strict_label strict_hex g h k hk

#print axioms image_roundtrip
#print axioms image_truncated
end Cd
