import Codec.Holes
/-! # What `load` does with the *complete* image of a graph with removed slots

`Deserialize for emap::Map` collects all entries, builds a table **as long as the entry count** and inserts every entry under its
key; a key at or above that length is the panic of emap's boundary assertion (builds with debug assertions). `loadX` is the image
decoder with that rule for the vertex table (the keys of the two 16-entry tables never have gaps). `loadX_of_load`: wherever `load`
returns a graph, `loadX` returns the same one. `loadX_saveX`: the complete image of a graph with removed slots either has no gap in its
keys — the removed slots are exactly the top ones — and loads into a *smaller* store, or it **panics**; never an `Err`, never a
graph of the old capacity. (C08 is about reachable graphs of tree merges, which have no removed slot; C09 is about cut images, which
are rejected with EOF whatever the keys are: `load_truncatedX`. This file says what happens in between, and is what the driver
follows on `reload` of such a graph.) -/
namespace Cd
open Sodg

/-- a strictly increasing list of naturals, all below its length, is `0, 1, …, length-1` -/
theorem increasing_below_length (l : List Nat) (hp : l.Pairwise (· < ·)) (hb : ∀ x ∈ l, x < l.length) :
    l = List.range l.length := by
  have hC : ∀ d i (h : i + d < l.length), l[i]'(by omega) + d ≤ l[i + d] := by
    intro d
    induction d with
    | zero => intro i h; simp
    | succ d ih =>
      intro i h
      have h1 := ih i (by omega)
      have h2 : l[i + d]'(by omega) < l[i + d + 1]'(by omega) :=
        (List.pairwise_iff_getElem.1 hp) (i + d) (i + d + 1) (by omega) (by omega) (by omega)
      have e : i + (d + 1) = i + d + 1 := by omega
      simp only [e]
      omega
  apply List.ext_getElem
  · simp
  · intro i h1 h2
    simp only [List.getElem_range]
    have lo : i ≤ l[i] := by
      have := hC i 0 (by simpa using h1)
      simp only [Nat.zero_add] at this
      omega
    have hi : l[i] ≤ i := by
      have hlast := hC (l.length - 1 - i) i (by omega)
      have hbnd := hb (l[i + (l.length - 1 - i)]'(by omega)) (List.getElem_mem ..)
      omega
    omega

/-- the image decoder with emap's rule for the vertex table -/
def loadX (n : Nat) (bytes : List UInt8) : Except Err (G Label Hex) :=
  match decRaw n decLabel decHex bytes with
  | .error e => .error e
  | .ok ((st, br, kvs), _) =>
    if kvs.map Prod.fst = List.range kvs.length then .ok (ofImg n ⟨st, br, kvs.map Prod.snd⟩)
    else if kvs.any (fun p => decide (kvs.length ≤ p.1)) then .error .panic
    else .error .invalid

/-- wherever `load` returns a graph, `loadX` returns the same graph -/
theorem loadX_of_load (n : Nat) (w : List UInt8) (g : G Label Hex) (h : load n w = .ok g) : loadX n w = .ok g := by
  unfold load at h
  unfold loadX
  cases hd : decImg n decLabel decHex w with
  | error e => rw [hd] at h; cases h
  | ok p =>
    obtain ⟨img, r⟩ := p
    rw [hd] at h
    simp only [Except.ok.injEq] at h
    subst h
    unfold decImg at hd
    unfold decRaw
    simp only [bind] at hd ⊢
    cases h1 : decEmap u64 w with
    | error e1 => rw [h1] at hd; cases hd
    | ok p1 =>
      obtain ⟨st, r1⟩ := p1
      rw [h1] at hd
      simp only at hd ⊢
      cases h2 : decEmap (decSeq u64 (some 16)) r1 with
      | error e2 => rw [h2] at hd; cases hd
      | ok p2 =>
        obtain ⟨br, r2⟩ := p2
        rw [h2] at hd
        simp only at hd ⊢
        unfold decEmap at hd
        simp only [bind] at hd
        cases h3 : decSeq (decPair u64 (decV n decLabel decHex)) none r2 with
        | error e3 => rw [h3] at hd; cases hd
        | ok p3 =>
          obtain ⟨ps, r3⟩ := p3
          rw [h3] at hd
          simp only at hd ⊢
          by_cases hk : ps.map Prod.fst = List.range ps.length
          · rw [if_pos hk] at hd
            simp only [pure, Except.ok.injEq, Prod.mk.injEq] at hd
            obtain ⟨rfl, _⟩ := hd
            simp only [pure, hk, if_true]
          · rw [if_neg hk] at hd; simp [fail] at hd

theorem slotsX_keys (x : GX Label Hex) :
    (slotsX x).map Prod.fst = (List.range (cap x.g)).filter (fun v => !(x.holes.contains v)) := by
  unfold slotsX
  rw [List.map_map]
  have : (Prod.fst ∘ fun (v : Nat) => (v, toV x.g.vs[v]!)) = id := by funext v; rfl
  rw [this, List.map_id]

/-- **the complete image of a graph with removed slots**: with no gap in the keys it loads (into a store as long as the number
    of occupied slots), with a gap it panics — nothing else -/
theorem loadX_saveX (x : GX Label Hex) (h : WfGX x) :
    loadX x.g.n (saveX x) =
      if (slotsX x).map Prod.fst = List.range (slotsX x).length then
        .ok (ofImg x.g.n ⟨x.g.st.toList, x.g.br.toList, (slotsX x).map Prod.snd⟩)
      else .error .panic := by
  unfold loadX saveX
  rw [raw_roundtrip x.g.n encLabel decLabel wfLabel encHex decHex wfHex rt_label rt_hex _ _ _ h]
  simp only
  by_cases hk : (slotsX x).map Prod.fst = List.range (slotsX x).length
  · rw [if_pos hk, if_pos hk]
  · rw [if_neg hk, if_neg hk]
    have hex : (slotsX x).any (fun p => decide ((slotsX x).length ≤ p.1)) = true := by
      apply Classical.byContradiction
      intro hn
      apply hk
      have hlen : ((slotsX x).map Prod.fst).length = (slotsX x).length := by simp
      rw [← hlen]
      apply increasing_below_length
      · rw [slotsX_keys]
        exact List.Pairwise.filter _ List.pairwise_lt_range
      · intro v hv
        rw [hlen]
        simp only [List.mem_map] at hv
        obtain ⟨p, hp, rfl⟩ := hv
        have : ¬ ((slotsX x).length ≤ p.1) := by
          intro hle
          apply hn
          rw [List.any_eq_true]
          exact ⟨p, hp, by simpa using hle⟩
        omega
    rw [if_pos hex]

#print axioms loadX_saveX
end Cd
