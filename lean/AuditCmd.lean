import Lean
/-! `#audit_props`: lists every theorem of the namespaces `Props.*` visible in the importing file with the axioms
    it depends on, one JSON object per line (`AUDIT {...}`). -/
open Lean Elab Command

elab "#audit_props" : command => do
  let env ← getEnv
  let names := env.constants.fold (init := #[]) fun acc name ci =>
    if (`Props).isPrefixOf name && !name.isInternalDetail then
      match ci with
      | .thmInfo _ => acc.push name
      | _ => acc
    else acc
  let names := names.qsort (fun a b => a.toString < b.toString)
  for n in names do
    let axs ← liftCoreM (collectAxioms n)
    let axs := axs.qsort (fun a b => a.toString < b.toString)
    let js := ",".intercalate (axs.toList.map (fun a => "\"" ++ a.toString ++ "\""))
    IO.println s!"AUDIT \{\"theorem\":\"{n}\",\"axioms\":[{js}]}"
