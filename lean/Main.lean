import Drv

open Drv

partial def modelLoop (h : IO.FS.Stream) (out : IO.FS.Stream) (w : World) : IO Unit := do
  let line ← h.getLine
  if line.isEmpty then return ()
  let (w', o) := execLine w line
  out.putStrLn o
  modelLoop h out w'

def main (args : List String) : IO UInt32 := do
  match args with
  | ["model"] =>
    modelLoop (← IO.getStdin) (← IO.getStdout) {}
    return 0
  | ["model", "--soak"] =>
    -- the harness keeps executing calls on a handle that has panicked (C07): follow it with the total model
    modelLoop (← IO.getStdin) (← IO.getStdout) { soak := true }
    return 0
  | ["model", "--concat-repaired"] =>
    modelLoop (← IO.getStdin) (← IO.getStdout) { cfg := { concatRepaired := true } }
    return 0
  | ["struct", opsFile, obsFile] =>
    let ops ← IO.FS.lines opsFile
    let obs ← IO.FS.lines obsFile
    let out ← IO.getStdout
    for i in [0:ops.size] do
      out.putStrLn (structLine ops[i]! (obs.getD i ""))
    return 0
  | ["judge", opsFile, obsFile] =>
    let ops ← IO.FS.lines opsFile
    let obs ← IO.FS.lines obsFile
    let mut j : JSt := {}
    for i in [0:ops.size] do
      j := judgeLine j (i + 1) ops[i]! (obs.getD i "")
    j := j.closeHist ops.size
    let out ← IO.getStdout
    for h in j.hists do out.putStrLn h
    for r in j.rejects do
      out.putStrLn s!"REJECT {r.prop} line={r.line} {r.msg}"
    out.putStrLn ("STATS " ++ j.stats.json)
    out.putStrLn ("PURE " ++ j.pm.json)
    out.putStrLn ("PURE " ++ j.tm.json)
    out.putStrLn ("PURE " ++ j.algoJson)
    return 0
  | ["gen", profile, seed, count, len] =>
    let lines := if profile = "script" ∨ profile = "scriptfault" then Id.run do
        let mut rng : Rng := ⟨UInt64.ofNat (seed.toNat! * 1000003 + 14)⟩
        let mut out : Array String := #[]
        for _ in [0:count.toNat!] do
          let (r', ls) := genScript rng len.toNat! (profile = "scriptfault")
          rng := r'
          out := out ++ ls
        return out
      else genProfile profile seed.toNat! count.toNat! len.toNat!
    let out ← IO.getStdout
    for l in lines do out.putStrLn l
    return 0
  | _ =>
    IO.eprintln "usage: drv model | gen <profile> <seed> <count> <len>"
    return 2
