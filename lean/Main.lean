import Drv

open Drv

partial def modelLoop (h : IO.FS.Stream) (out : IO.FS.Stream) (w : World) : IO Unit := do
  let line ← h.getLine
  if line.isEmpty then return ()
  let (w', o) := execLine w line
  out.putStrLn o
  modelLoop h out w'

def main (args : List String) : IO UInt32 := do
  match args with
  | ["model"] =>
    modelLoop (← IO.getStdin) (← IO.getStdout) {}
    return 0
  | ["gen", profile, seed, count, len] =>
    let lines := genProfile profile seed.toNat! count.toNat! len.toNat!
    let out ← IO.getStdout
    for l in lines do out.putStrLn l
    return 0
  | _ =>
    IO.eprintln "usage: drv model | gen <profile> <seed> <count> <len>"
    return 2
