import Codec.Parse
import Codec.Codec
import Codec.Utf8
import Codec.Utf8All
import Codec.Leaf
import Codec.Bridge
import Codec.Decide
import Codec.WfImage
