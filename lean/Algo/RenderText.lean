import Algo.RenderSodg
/-! # The XML text determines the document (C18 at the level of the text)

`Rs.xmlChars doc` is the text of `to_xml`, character by character (`Rs.toXml g = String.ofList (xmlChars (exportDoc g))`
by definition; the correspondence check finds it equal to the real text on every export it compares). `readXml` is a
strict reader of exactly that format. `readXml_xmlChars`: for a document whose labels are canonical label values and
contain neither `"` nor a newline (the labels "that need no XML escaping" of C18's quantifier), the reader gives back
the document — ids, every edge with its label *as a label value* and its target, the data *as bytes*. Hence the text
determines the document (`xmlChars_injective`): two graphs with different content cannot print the same XML. -/
namespace Rs
open Sodg

abbrev Node := Rd.VNode Label (List UInt8)

/-! ### small list lemmas -/

theorem takeWhile_append_stop {α} (p : α → Bool) (a : List α) (x : α) (r : List α) (ha : ∀ c ∈ a, p c = true)
    (hx : p x = false) : (a ++ x :: r).takeWhile p = a ∧ (a ++ x :: r).dropWhile p = x :: r := by
  induction a with
  | nil => simp [List.takeWhile, List.dropWhile, hx]
  | cons c cs ih =>
    have hc := ha c (List.mem_cons_self ..)
    have := ih (fun y hy => ha y (List.mem_cons_of_mem _ hy))
    simp [List.takeWhile, List.dropWhile, hc, this.1, this.2]

theorem takeWhile_all {α} (p : α → Bool) (a : List α) (ha : ∀ c ∈ a, p c = true) :
    a.takeWhile p = a ∧ a.dropWhile p = [] := by
  induction a with
  | nil => simp
  | cons c cs ih =>
    have hc := ha c (List.mem_cons_self ..)
    have := ih (fun y hy => ha y (List.mem_cons_of_mem _ hy))
    simp [List.takeWhile, List.dropWhile, hc, this.1, this.2]

/-- strip a known prefix -/
def stripPrefix : List Char → List Char → Option (List Char)
  | [], l => some l
  | _ :: _, [] => none
  | p :: ps, c :: cs => if p = c then stripPrefix ps cs else none

theorem stripPrefix_append (p r : List Char) : stripPrefix p (p ++ r) = some r := by
  induction p with
  | nil => rfl
  | cons c cs ih => simp [stripPrefix, ih]

/-! ### lines -/

/-- split at newlines; every line must be terminated, what follows the last newline is returned separately -/
def splitLines : List Char → List Char → List (List Char) × List Char
  | [], cur => ([], cur.reverse)
  | c :: cs, cur =>
    if c = '\n' then let r := splitLines cs []; (cur.reverse :: r.1, r.2) else splitLines cs (c :: cur)

theorem splitLines_line (l rest cur : List Char) (hl : ∀ c ∈ l, c ≠ '\n') :
    splitLines (l ++ '\n' :: rest) cur = ((cur.reverse ++ l) :: (splitLines rest []).1, (splitLines rest []).2) := by
  induction l generalizing cur with
  | nil => simp [splitLines]
  | cons c cs ih =>
    have hc : c ≠ '\n' := hl c (List.mem_cons_self ..)
    simp only [List.cons_append, splitLines, if_neg hc]
    rw [ih (c :: cur) (fun y hy => hl y (List.mem_cons_of_mem _ hy))]
    simp

theorem splitLines_unlines (ls : List (List Char)) (h : ∀ l ∈ ls, ∀ c ∈ l, c ≠ '\n') :
    splitLines (unlines ls) [] = (ls, []) := by
  induction ls with
  | nil => rfl
  | cons l ls ih =>
    have : unlines (l :: ls) = l ++ '\n' :: unlines ls := by simp [unlines]
    rw [this, splitLines_line l _ [] (h l (List.mem_cons_self ..)), ih (fun x hx => h x (List.mem_cons_of_mem _ hx))]
    simp

/-! ### numbers -/

def isDig (c : Char) : Bool := c.isDigit

/-- a number followed by something: the digits and the rest -/
def readNat (l : List Char) : Option (Nat × List Char) :=
  let ds := l.takeWhile isDig
  if ds.isEmpty then none else some (Nat.ofDigitChars 10 ds 0, l.dropWhile isDig)

theorem nat10_digits (n : Nat) : ∀ c ∈ nat10 n, isDig c = true := by
  intro c hc
  exact Nat.isDigit_of_mem_toDigits (by omega) (by omega) hc

theorem readNat_nat10 (n : Nat) (x : Char) (r : List Char) (hx : isDig x = false) :
    readNat (nat10 n ++ x :: r) = some (n, x :: r) := by
  have h := takeWhile_append_stop isDig (nat10 n) x r (nat10_digits n) hx
  unfold readNat
  simp only [h.1, h.2]
  have hne : (nat10 n).isEmpty = false := by
    have := @Nat.toDigits_ne_nil n 10
    cases hd : nat10 n with
    | nil => exact absurd hd this
    | cons _ _ => rfl
  rw [hne]
  simp [nat10, Nat.ofDigitChars_ten_toDigits]

/-! ### the lines of a node -/

/-- `\t\t<e a="LABEL" to="N" />` -/
def readEdge (l : List Char) : Option (Label × Nat) :=
  match stripPrefix xEdge l with
  | none => none
  | some r =>
    let lab := r.takeWhile (· != '"')
    match stripPrefix xTo (r.dropWhile (· != '"')) with
    | none => none
    | some r2 =>
      match readNat r2, Lb.parse lab with
      | some (t, rest), some a => if rest = xSelf then some (a, t) else none
      | _, _ => none

/-- labels that can stand inside an XML attribute without escaping and read back as the same label value -/
structure SafeLabel (a : Label) : Prop where
  canon : Lb.CanonLabel a
  noQuote : ∀ c ∈ Lb.print a, c ≠ '"'
  noNl : ∀ c ∈ Lb.print a, c ≠ '\n'

theorem readEdge_line (e : Label × Nat) (h : SafeLabel e.1) : readEdge (xEdgeLine e) = some e := by
  unfold readEdge xEdgeLine
  rw [List.append_assoc, List.append_assoc, List.append_assoc, stripPrefix_append]
  have hq : ∀ c ∈ Lb.print e.1, (c != '"') = true := fun c hc => by simpa using h.noQuote c hc
  have hs := takeWhile_append_stop (· != '"') (Lb.print e.1) '"' ([' ', 't', 'o', '=', '"'] ++ (nat10 e.2 ++ xSelf)) hq (by simp)
  have e1 : Lb.print e.1 ++ (xTo ++ (nat10 e.2 ++ xSelf)) = Lb.print e.1 ++ '"' :: ([' ', 't', 'o', '=', '"'] ++ (nat10 e.2 ++ xSelf)) := rfl
  simp only [e1, hs.1, hs.2]
  have e2 : '"' :: ([' ', 't', 'o', '=', '"'] ++ (nat10 e.2 ++ xSelf)) = xTo ++ (nat10 e.2 ++ xSelf) := rfl
  rw [e2, stripPrefix_append]
  have e3 : nat10 e.2 ++ xSelf = nat10 e.2 ++ '"' :: [' ', '/', '>'] := rfl
  simp only [e3, readNat_nat10 e.2 '"' [' ', '/', '>'] (by decide), Lb.parse_print_label e.1 h.canon]
  simp [xSelf]

theorem stripPrefix_xEdge_xData (r : List Char) : stripPrefix xEdge (xData ++ r) = none := by
  simp [stripPrefix, xEdge, xData]

theorem readEdge_data (bs : List UInt8) : readEdge (xDataLine bs) = none := by
  unfold readEdge xDataLine
  rw [List.append_assoc, stripPrefix_xEdge_xData]

theorem readEdge_close : readEdge xClose = none := by
  simp [readEdge, stripPrefix, xEdge, xClose]

def spaceToNothing (l : List Char) : List Char := l.filter (· != ' ')

/-- `\t\t<data>HEX</data>` -/
def readData (l : List Char) : Option (List UInt8) :=
  match stripPrefix xData l with
  | none => none
  | some r =>
    let txt := r.takeWhile (· != '<')
    if r.dropWhile (· != '<') = xDataEnd then HD.decodePairs (spaceToNothing txt) else none

theorem printPairs_chars (bs : List UInt8) : ∀ c ∈ HD.printPairs bs, c = '-' ∨ ∃ d, d < 16 ∧ c = HD.upperDigit d := by
  induction bs with
  | nil => intro c hc; cases hc
  | cons b rest ih =>
    have h1 : b.toNat / 16 < 16 := by have := b.toNat_lt; omega
    have h2 : b.toNat % 16 < 16 := by omega
    cases rest with
    | nil =>
      intro c hc
      simp only [HD.printPairs, List.mem_cons, List.not_mem_nil, or_false] at hc
      rcases hc with rfl | rfl
      · exact Or.inr ⟨_, h1, rfl⟩
      · exact Or.inr ⟨_, h2, rfl⟩
    | cons b' rest' =>
      intro c hc
      simp only [HD.printPairs, List.mem_cons] at hc
      rcases hc with rfl | rfl | rfl | hc
      · exact Or.inr ⟨_, h1, rfl⟩
      · exact Or.inr ⟨_, h2, rfl⟩
      · exact Or.inl rfl
      · exact ih c (by simpa [HD.printPairs] using hc)

theorem upperDigit_plain (d : Nat) (h : d < 16) : HD.upperDigit d ≠ ' ' ∧ HD.upperDigit d ≠ '<' ∧ HD.upperDigit d ≠ '\n' := by
  have : ∀ d : Fin 16, HD.upperDigit d.1 ≠ ' ' ∧ HD.upperDigit d.1 ≠ '<' ∧ HD.upperDigit d.1 ≠ '\n' := by decide
  exact this ⟨d, h⟩

theorem print_chars (bs : List UInt8) : ∀ c ∈ HD.print bs, c = '-' ∨ (c ≠ ' ' ∧ c ≠ '<' ∧ c ≠ '\n' ∧ c ≠ '-') := by
  intro c hc
  unfold HD.print at hc
  split at hc
  · simp at hc; exact Or.inl hc
  · rcases printPairs_chars bs c hc with h | ⟨d, hd, rfl⟩
    · exact Or.inl h
    · have := upperDigit_plain d hd
      exact Or.inr ⟨this.1, this.2.1, this.2.2, HD.upperDigit_ne_dash d hd⟩

/-- deleting the blanks of the XML data text is deleting the dashes of `Hex::print` -/
theorem spaces_are_dashes (l : List Char) (h : ∀ c ∈ l, c = '-' ∨ (c ≠ ' ' ∧ c ≠ '<' ∧ c ≠ '\n' ∧ c ≠ '-')) :
    spaceToNothing (l.map dashToSpace) = l.filter (fun c => c != '-') := by
  induction l with
  | nil => rfl
  | cons c cs ih =>
    have ih' := ih (fun y hy => h y (List.mem_cons_of_mem _ hy))
    unfold spaceToNothing at ih' ⊢
    rcases h c (List.mem_cons_self ..) with rfl | ⟨h1, _, _, h4⟩
    · simp [dashToSpace, ih']
    · simp [dashToSpace, h4, h1, ih']

theorem dataText_plain (bs : List UInt8) : ∀ c ∈ (HD.print bs).map dashToSpace, c ≠ '<' ∧ c ≠ '\n' := by
  intro c hc
  obtain ⟨x, hx, rfl⟩ := List.mem_map.1 hc
  rcases print_chars bs x hx with rfl | ⟨_, h2, h3, h4⟩
  · simp [dashToSpace]
  · simp [dashToSpace, h4, h2, h3]

theorem readData_line (bs : List UInt8) : readData (xDataLine bs) = some bs := by
  unfold readData xDataLine
  rw [List.append_assoc, stripPrefix_append]
  have hq : ∀ c ∈ (HD.print bs).map dashToSpace, (c != '<') = true := fun c hc => by simpa using (dataText_plain bs c hc).1
  have e1 : xDataEnd = '<' :: ['/', 'd', 'a', 't', 'a', '>'] := rfl
  have hs := takeWhile_append_stop (· != '<') ((HD.print bs).map dashToSpace) '<' ['/', 'd', 'a', 't', 'a', '>'] hq (by simp)
  simp only [e1, hs.1, hs.2, if_true]
  rw [spaces_are_dashes _ (print_chars bs)]
  exact HD.fromStr_print bs

theorem readData_close : readData xClose = none := by
  simp [readData, stripPrefix, xData, xClose]

/-- the edge lines at the front -/
def readEdges : List (List Char) → List (Label × Nat) × List (List Char)
  | [] => ([], [])
  | l :: ls => match readEdge l with
    | some e => let r := readEdges ls; (e :: r.1, r.2)
    | none => ([], l :: ls)

theorem readEdges_lines (es : List (Label × Nat)) (h : ∀ e ∈ es, SafeLabel e.1) (x : List Char) (rest : List (List Char))
    (hx : readEdge x = none) : readEdges (es.map xEdgeLine ++ x :: rest) = (es, x :: rest) := by
  induction es with
  | nil => simp [readEdges, hx]
  | cons e es ih =>
    have := ih (fun y hy => h y (List.mem_cons_of_mem _ hy))
    simp [readEdges, readEdge_line e (h e (List.mem_cons_self ..)), this]

/-- one `<v>` element from the front of the lines -/
def readNode : List (List Char) → Option (Node × List (List Char))
  | [] => none
  | l :: ls =>
    match stripPrefix xVOpen l with
    | none => none
    | some r =>
      match readNat r with
      | none => none
      | some (i, rest) =>
        if rest = xSelf then some (⟨i, [], none⟩, ls)
        else if rest = xOpen then
          let es := readEdges ls
          match es.2 with
          | [] => none
          | d :: ls2 =>
            match readData d with
            | some bs =>
              (match ls2 with
               | c :: ls3 => if c = xClose then some (⟨i, es.1, some bs⟩, ls3) else none
               | [] => none)
            | none => if d = xClose then some (⟨i, es.1, none⟩, ls2) else none
        else none

def SafeNode (n : Node) : Prop := ∀ e ∈ n.edges, SafeLabel e.1

theorem readNode_lines (n : Node) (h : SafeNode n) (rest : List (List Char)) :
    readNode (xmlNodeLines n ++ rest) = some (n, rest) := by
  obtain ⟨i, es, d⟩ := n
  unfold xmlNodeLines
  by_cases hself : es.isEmpty ∧ d.isNone
  · rw [if_pos hself]
    have he : es = [] := by simpa using hself.1
    have hd : d = none := by simpa using hself.2
    subst he hd
    simp only [List.singleton_append, readNode]
    rw [List.append_assoc, stripPrefix_append]
    have key : readNat (nat10 i ++ xSelf) = some (i, xSelf) := readNat_nat10 i '"' [' ', '/', '>'] (by decide)
    simp only [key, if_true]
  · rw [if_neg hself]
    simp only [List.append_assoc, List.singleton_append, List.cons_append, readNode]
    rw [stripPrefix_append]
    have key : readNat (nat10 i ++ xOpen) = some (i, xOpen) := readNat_nat10 i '"' ['>'] (by decide)
    have ns : xOpen ≠ xSelf := by decide
    simp only [key, if_neg ns, if_true]
    cases d with
    | some bs =>
      have := readEdges_lines es h (xDataLine bs) ([xClose] ++ rest) (readEdge_data bs)
      simp only [List.nil_append, List.singleton_append, List.cons_append] at this ⊢
      rw [this]
      simp [readData_line]
    | none =>
      have := readEdges_lines es h xClose rest readEdge_close
      simp only [List.nil_append] at this ⊢
      rw [this]
      simp [readData_close]

/-- the elements up to `</sodg>` -/
def readNodes : Nat → List (List Char) → Option (List Node)
  | 0, _ => none
  | fuel + 1, ls =>
    match ls with
    | [l] => if l = xRootEnd then some [] else none
    | _ =>
      match readNode ls with
      | none => none
      | some (n, rest) => (readNodes fuel rest).map (n :: ·)

theorem xmlNodeLines_ne_nil (n : Node) : xmlNodeLines n ≠ [] := by
  unfold xmlNodeLines; split <;> simp

theorem readNodes_lines (doc : List Node) (h : ∀ n ∈ doc, SafeNode n) (fuel : Nat) (hf : doc.length < fuel) :
    readNodes fuel (doc.flatMap xmlNodeLines ++ [xRootEnd]) = some doc := by
  induction doc generalizing fuel with
  | nil =>
    cases fuel with
    | zero => omega
    | succ f => simp [readNodes]
  | cons n ns ih =>
    cases fuel with
    | zero => omega
    | succ f =>
      have hn := readNode_lines n (h n (List.mem_cons_self ..)) (ns.flatMap xmlNodeLines ++ [xRootEnd])
      have e : (n :: ns).flatMap xmlNodeLines ++ [xRootEnd] = xmlNodeLines n ++ (ns.flatMap xmlNodeLines ++ [xRootEnd]) := by
        simp
      rw [e]
      -- the lines of a node are never the single closing line
      have two : ∀ l, xmlNodeLines n ++ (ns.flatMap xmlNodeLines ++ [xRootEnd]) ≠ [l] := by
        intro l hl
        have h1 := xmlNodeLines_ne_nil n
        have := congrArg List.length hl
        simp at this
        cases hx : xmlNodeLines n with
        | nil => exact h1 hx
        | cons a b => rw [hx] at this; simp at this; omega
      unfold readNodes
      split
      · rename_i l heq; exact absurd heq (two l)
      · rw [hn]
        simp only [Option.map_eq_some_iff]
        exact ⟨ns, ih (fun x hx => h x (List.mem_cons_of_mem _ hx)) f (by simp at hf; omega), rfl⟩

theorem length_le_flatMap (doc : List Node) : doc.length ≤ (doc.flatMap xmlNodeLines).length := by
  induction doc with
  | nil => simp
  | cons n ns ih =>
    have : 1 ≤ (xmlNodeLines n).length := by
      cases hx : xmlNodeLines n with
      | nil => exact absurd hx (xmlNodeLines_ne_nil n)
      | cons _ _ => simp
    simp only [List.flatMap_cons, List.length_append, List.length_cons]
    omega

/-- the strict reader of the whole text -/
def readXml (text : List Char) : Option (List Node) :=
  match splitLines text [] with
  | (hd :: root :: rest, []) =>
    if hd ≠ xHeader then none
    else if root = xRootEmpty then (if rest.isEmpty then some [] else none)
    else if root = xRoot then readNodes (rest.length + 1) rest
    else none
  | _ => none

/-! ### no line of the document contains a newline -/

theorem nat10_noNl (n : Nat) : ∀ c ∈ nat10 n, c ≠ '\n' := by
  intro c hc he
  have := nat10_digits n c hc
  rw [he] at this
  exact absurd this (by decide)

theorem xmlNodeLines_noNl (n : Node) (h : SafeNode n) : ∀ l ∈ xmlNodeLines n, ∀ c ∈ l, c ≠ '\n' := by
  intro l hl c hc
  unfold xmlNodeLines at hl
  have fixed : ∀ (k : List Char), k ∈ [xVOpen, xSelf, xOpen, xEdge, xTo, xData, xDataEnd, xClose] → ∀ c ∈ k, c ≠ '\n' := by decide
  split at hl
  · simp only [List.mem_singleton] at hl
    subst hl
    simp only [List.mem_append] at hc
    rcases hc with (hc | hc) | hc
    · exact fixed xVOpen (by simp) c hc
    · exact nat10_noNl _ c hc
    · exact fixed xSelf (by simp) c hc
  · simp only [List.mem_append, List.mem_singleton, List.mem_map] at hl
    rcases hl with ((rfl | ⟨e, he, rfl⟩) | hd) | rfl
    · simp only [List.mem_append] at hc
      rcases hc with (hc | hc) | hc
      · exact fixed xVOpen (by simp) c hc
      · exact nat10_noNl _ c hc
      · exact fixed xOpen (by simp) c hc
    · unfold xEdgeLine at hc
      simp only [List.mem_append] at hc
      rcases hc with (((hc | hc) | hc) | hc) | hc
      · exact fixed xEdge (by simp) c hc
      · exact (h e he).noNl c hc
      · exact fixed xTo (by simp) c hc
      · exact nat10_noNl _ c hc
      · exact fixed xSelf (by simp) c hc
    · cases hdat : n.data with
      | none => rw [hdat] at hd; cases hd
      | some bs =>
        rw [hdat] at hd
        simp only [List.mem_singleton] at hd
        subst hd
        unfold xDataLine at hc
        simp only [List.mem_append] at hc
        rcases hc with (hc | hc) | hc
        · exact fixed xData (by simp) c hc
        · exact (dataText_plain bs c hc).2
        · exact fixed xDataEnd (by simp) c hc
    · exact fixed xClose (by simp) c hc

theorem xmlLines_noNl (doc : List Node) (h : ∀ n ∈ doc, SafeNode n) : ∀ l ∈ xmlLines doc, ∀ c ∈ l, c ≠ '\n' := by
  have fixed : ∀ (k : List Char), k ∈ [xHeader, xRootEmpty, xRoot, xRootEnd] → ∀ c ∈ k, c ≠ '\n' := by decide
  intro l hl c hc
  unfold xmlLines at hl
  rcases List.mem_cons.1 hl with rfl | hl
  · exact fixed xHeader (by simp) c hc
  · split at hl
    · simp only [List.mem_singleton] at hl; subst hl; exact fixed xRootEmpty (by simp) c hc
    · simp only [List.mem_append, List.mem_singleton, List.mem_flatMap] at hl
      rcases hl with (rfl | ⟨n, hn, hl⟩) | rfl
      · exact fixed xRoot (by simp) c hc
      · exact xmlNodeLines_noNl n (h n hn) l hl c hc
      · exact fixed xRootEnd (by simp) c hc

/-- **the XML text reads back as the document**: ids, edges with their labels as label values and their targets, data
    as bytes — for every document whose labels need no escaping -/
theorem readXml_xmlChars (doc : List Node) (h : ∀ n ∈ doc, SafeNode n) : readXml (xmlChars doc) = some doc := by
  unfold readXml xmlChars
  rw [splitLines_unlines _ (xmlLines_noNl doc h)]
  unfold xmlLines
  cases doc with
  | nil => simp [xRootEmpty, xHeader]
  | cons n ns =>
    have ne : ((n :: ns).isEmpty) = false := rfl
    simp only [ne, Bool.false_eq_true, if_false, List.singleton_append, List.cons_append, ne_eq, not_true_eq_false]
    have r1 : xRoot ≠ xRootEmpty := by decide
    simp only [if_neg r1, if_true]
    have hl := length_le_flatMap (n :: ns)
    have := readNodes_lines (n :: ns) h (((n :: ns).flatMap xmlNodeLines ++ [xRootEnd]).length + 1) (by simp at hl ⊢; omega)
    simpa using this

/-- hence **the text determines the document** -/
theorem xmlChars_injective (d1 d2 : List Node) (h1 : ∀ n ∈ d1, SafeNode n) (h2 : ∀ n ∈ d2, SafeNode n)
    (he : xmlChars d1 = xmlChars d2) : d1 = d2 := by
  have a := readXml_xmlChars d1 h1
  have b := readXml_xmlChars d2 h2
  rw [he, b] at a
  exact (Option.some.inj a).symm


/-! ## DOT: the same for `to_dot`

`Rs.dotChars doc` is the text of `to_dot`, character by character. `readDot` is a strict reader of that format; it gives
back the document (`readDot_dotChars`), so the DOT text determines the document too. -/

/-- `  vV -> vT [label="LABEL"ATTRS];` of the vertex `v` -/
def readDotEdge (v : Nat) (l : List Char) : Option (Label × Nat) :=
  match stripPrefix dV l with
  | none => none
  | some r =>
    match readNat r with
    | none => none
    | some (src, r1) =>
      match stripPrefix dArrow r1 with
      | none => none
      | some r2 =>
        match readNat r2 with
        | none => none
        | some (t, r3) =>
          match stripPrefix dLabel r3 with
          | none => none
          | some r4 =>
            match Lb.parse (r4.takeWhile (· != '"')) with
            | none => none
            | some a =>
              if src = v ∧ r4.dropWhile (· != '"') = '"' :: (dotAttrs a ++ dEEnd) then some (a, t) else none

theorem readDotEdge_line (v : Nat) (e : Label × Nat) (h : SafeLabel e.1) : readDotEdge v (dotEdgeLine v e) = some e := by
  unfold readDotEdge dotEdgeLine
  simp only [List.append_assoc]
  rw [stripPrefix_append]
  have a1 : dArrow ++ (nat10 e.2 ++ (dLabel ++ (Lb.print e.1 ++ (['"'] ++ (dotAttrs e.1 ++ dEEnd))))) =
      ' ' :: (['-', '>', ' ', 'v'] ++ (nat10 e.2 ++ (dLabel ++ (Lb.print e.1 ++ (['"'] ++ (dotAttrs e.1 ++ dEEnd)))))) := rfl
  have k1 := readNat_nat10 v ' ' (['-', '>', ' ', 'v'] ++ (nat10 e.2 ++ (dLabel ++ (Lb.print e.1 ++ (['"'] ++ (dotAttrs e.1 ++ dEEnd)))))) (by decide)
  rw [← a1] at k1
  simp only [k1, stripPrefix_append]
  have a2 : dLabel ++ (Lb.print e.1 ++ (['"'] ++ (dotAttrs e.1 ++ dEEnd))) =
      ' ' :: (['[', 'l', 'a', 'b', 'e', 'l', '=', '"'] ++ (Lb.print e.1 ++ (['"'] ++ (dotAttrs e.1 ++ dEEnd)))) := rfl
  have k2 := readNat_nat10 e.2 ' ' (['[', 'l', 'a', 'b', 'e', 'l', '=', '"'] ++ (Lb.print e.1 ++ (['"'] ++ (dotAttrs e.1 ++ dEEnd)))) (by decide)
  rw [← a2] at k2
  simp only [k2, stripPrefix_append]
  have hq : ∀ c ∈ Lb.print e.1, (c != '"') = true := fun c hc => by simpa using h.noQuote c hc
  have hs := takeWhile_append_stop (· != '"') (Lb.print e.1) '"' (dotAttrs e.1 ++ dEEnd) hq (by simp)
  have a3 : Lb.print e.1 ++ (['"'] ++ (dotAttrs e.1 ++ dEEnd)) = Lb.print e.1 ++ '"' :: (dotAttrs e.1 ++ dEEnd) := rfl
  simp only [a3, hs.1, hs.2, Lb.parse_print_label e.1 h.canon, true_and, if_true]

theorem readDotEdge_foot (v : Nat) : readDotEdge v dFoot = none := by
  simp [readDotEdge, stripPrefix, dV, dFoot]

/-- `  vI[shape=circle,label="νI"]; ` or `  vI[shape=circle,label="νI",color="#f96900"]; /* HEX */` -/
def readDotNodeLine (l : List Char) : Option (Nat × Option (List UInt8)) :=
  match stripPrefix dV l with
  | none => none
  | some r =>
    match readNat r with
    | none => none
    | some (i, r1) =>
      match stripPrefix dShape r1 with
      | none => none
      | some r2 =>
        match readNat r2 with
        | none => none
        | some (i2, r3) =>
          if i2 ≠ i then none
          else if r3 = dPlain then some (i, none)
          else
            match stripPrefix dColor r3 with
            | none => none
            | some r4 =>
              if r4.dropWhile (· != ' ') = dCEnd then (HD.fromStr (r4.takeWhile (· != ' '))).map (fun bs => (i, some bs))
              else none

theorem readDotNodeLine_line (n : Node) : readDotNodeLine (dotNodeLine n) = some (n.id, n.data) := by
  unfold readDotNodeLine dotNodeLine
  simp only [List.append_assoc]
  rw [stripPrefix_append]
  cases hd : n.data with
  | none =>
    simp only
    have a1 : dShape ++ (nat10 n.id ++ dPlain) = '[' :: (['s', 'h', 'a', 'p', 'e', '=', 'c', 'i', 'r', 'c', 'l', 'e', ',', 'l', 'a', 'b', 'e', 'l', '=', '"', 'ν'] ++ (nat10 n.id ++ dPlain)) := rfl
    have k1 := readNat_nat10 n.id '[' (['s', 'h', 'a', 'p', 'e', '=', 'c', 'i', 'r', 'c', 'l', 'e', ',', 'l', 'a', 'b', 'e', 'l', '=', '"', 'ν'] ++ (nat10 n.id ++ dPlain)) (by decide)
    rw [← a1] at k1
    simp only [k1, stripPrefix_append]
    have k2 : readNat (nat10 n.id ++ dPlain) = some (n.id, dPlain) := readNat_nat10 n.id '"' [']', ';', ' '] (by decide)
    simp [k2]
  | some bs =>
    simp only
    have a1 : dShape ++ (nat10 n.id ++ (dColor ++ (HD.print bs ++ dCEnd))) = '[' :: (['s', 'h', 'a', 'p', 'e', '=', 'c', 'i', 'r', 'c', 'l', 'e', ',', 'l', 'a', 'b', 'e', 'l', '=', '"', 'ν'] ++ (nat10 n.id ++ (dColor ++ (HD.print bs ++ dCEnd)))) := rfl
    have k1 := readNat_nat10 n.id '[' (['s', 'h', 'a', 'p', 'e', '=', 'c', 'i', 'r', 'c', 'l', 'e', ',', 'l', 'a', 'b', 'e', 'l', '=', '"', 'ν'] ++ (nat10 n.id ++ (dColor ++ (HD.print bs ++ dCEnd)))) (by decide)
    rw [← a1] at k1
    simp only [k1, stripPrefix_append]
    have a2 : dColor ++ (HD.print bs ++ dCEnd) = '"' :: ([',', 'c', 'o', 'l', 'o', 'r', '=', '"', '#', 'f', '9', '6', '9', '0', '0', '"', ']', ';', ' ', '/', '*', ' '] ++ (HD.print bs ++ dCEnd)) := rfl
    have k2 := readNat_nat10 n.id '"' ([',', 'c', 'o', 'l', 'o', 'r', '=', '"', '#', 'f', '9', '6', '9', '0', '0', '"', ']', ';', ' ', '/', '*', ' '] ++ (HD.print bs ++ dCEnd)) (by decide)
    rw [← a2] at k2
    have np : dColor ++ (HD.print bs ++ dCEnd) ≠ dPlain := by simp [dColor, dPlain]
    simp only [k2, ne_eq, not_true_eq_false, if_false, if_neg np, stripPrefix_append]
    have hq : ∀ c ∈ HD.print bs, (c != ' ') = true := by
      intro c hc
      rcases print_chars bs c hc with rfl | ⟨h1, _⟩
      · decide
      · simpa using h1
    have hs := takeWhile_append_stop (· != ' ') (HD.print bs) ' ' ['*', '/'] hq (by simp)
    have a3 : HD.print bs ++ dCEnd = HD.print bs ++ ' ' :: ['*', '/'] := rfl
    simp only [a3, hs.1, hs.2, HD.fromStr_print]
    simp [dCEnd]

theorem readDotEdge_nodeLine (v : Nat) (n : Node) : readDotEdge v (dotNodeLine n) = none := by
  unfold readDotEdge dotNodeLine
  simp only [List.append_assoc]
  rw [stripPrefix_append]
  have k1 : ∀ rest, readNat (nat10 n.id ++ (dShape ++ rest)) =
      some (n.id, dShape ++ rest) := fun rest =>
    readNat_nat10 n.id '[' (['s', 'h', 'a', 'p', 'e', '=', 'c', 'i', 'r', 'c', 'l', 'e', ',', 'l', 'a', 'b', 'e', 'l', '=', '"', 'ν'] ++ rest) (by decide)
  simp only [k1]
  simp [stripPrefix, dArrow, dShape]

def readDotEdges (v : Nat) : List (List Char) → List (Label × Nat) × List (List Char)
  | [] => ([], [])
  | l :: ls => match readDotEdge v l with
    | some e => let r := readDotEdges v ls; (e :: r.1, r.2)
    | none => ([], l :: ls)

theorem readDotEdges_lines (v : Nat) (es : List (Label × Nat)) (h : ∀ e ∈ es, SafeLabel e.1) (x : List Char)
    (rest : List (List Char)) (hx : readDotEdge v x = none) :
    readDotEdges v (es.map (dotEdgeLine v) ++ x :: rest) = (es, x :: rest) := by
  induction es with
  | nil => simp [readDotEdges, hx]
  | cons e es ih =>
    have := ih (fun y hy => h y (List.mem_cons_of_mem _ hy))
    simp [readDotEdges, readDotEdge_line v e (h e (List.mem_cons_self ..)), this]

def readDotNode : List (List Char) → Option (Node × List (List Char))
  | [] => none
  | l :: ls =>
    match readDotNodeLine l with
    | none => none
    | some (i, d) => let es := readDotEdges i ls; some (⟨i, es.1, d⟩, es.2)

/-- the first line after the lines of a node: the next node or the closing brace -/
theorem readDotNode_lines (n : Node) (h : SafeNode n) (x : List Char) (rest : List (List Char))
    (hx : readDotEdge n.id x = none) : readDotNode (dotNodeLines n ++ x :: rest) = some (n, x :: rest) := by
  obtain ⟨i, es, d⟩ := n
  unfold dotNodeLines
  simp only [List.cons_append, readDotNode, readDotNodeLine_line]
  rw [readDotEdges_lines i es h x rest hx]

def readDotNodes : Nat → List (List Char) → Option (List Node)
  | 0, _ => none
  | fuel + 1, ls =>
    match ls with
    | [l] => if l = dFoot then some [] else none
    | _ =>
      match readDotNode ls with
      | none => none
      | some (n, rest) => (readDotNodes fuel rest).map (n :: ·)

theorem readDotNodes_lines (doc : List Node) (h : ∀ n ∈ doc, SafeNode n) (fuel : Nat) (hf : doc.length < fuel) :
    readDotNodes fuel (doc.flatMap dotNodeLines ++ [dFoot]) = some doc := by
  induction doc generalizing fuel with
  | nil =>
    cases fuel with
    | zero => omega
    | succ f => simp [readDotNodes]
  | cons n ns ih =>
    cases fuel with
    | zero => omega
    | succ f =>
      -- what follows the lines of `n`: the node line of the next vertex, or the closing brace
      obtain ⟨x, rest, hx, hnext⟩ : ∃ x rest, ns.flatMap dotNodeLines ++ [dFoot] = x :: rest ∧ readDotEdge n.id x = none := by
        cases ns with
        | nil => exact ⟨dFoot, [], rfl, readDotEdge_foot _⟩
        | cons m ms =>
          refine ⟨dotNodeLine m, m.edges.map (dotEdgeLine m.id) ++ (ms.flatMap dotNodeLines ++ [dFoot]), ?_, readDotEdge_nodeLine _ m⟩
          simp [dotNodeLines]
      have e : (n :: ns).flatMap dotNodeLines ++ [dFoot] = dotNodeLines n ++ x :: rest := by
        simp only [List.flatMap_cons, List.append_assoc]; rw [hx]
      rw [e]
      have hn := readDotNode_lines n (h n (List.mem_cons_self ..)) x rest hnext
      have two : ∀ l, dotNodeLines n ++ x :: rest ≠ [l] := by
        intro l hl
        have := congrArg List.length hl
        simp [dotNodeLines] at this
      unfold readDotNodes
      split
      · rename_i l heq; exact absurd heq (two l)
      · rw [hn]
        simp only [Option.map_eq_some_iff]
        refine ⟨ns, ?_, rfl⟩
        rw [← hx]
        exact ih (fun y hy => h y (List.mem_cons_of_mem _ hy)) f (by simp at hf; omega)

/-- the strict reader of the whole DOT text -/
def readDot (text : List Char) : Option (List Node) :=
  match splitLines text [] with
  | (h1 :: h2 :: h3 :: h4 :: rest, []) =>
    if h1 = dH1 ∧ h2 = dH2 ∧ h3 = dH3 ∧ h4 = dH4 then readDotNodes (rest.length + 1) rest else none
  | _ => none

theorem dotNodeLines_noNl (n : Node) (h : SafeNode n) : ∀ l ∈ dotNodeLines n, ∀ c ∈ l, c ≠ '\n' := by
  have fixed : ∀ (k : List Char), k ∈ [dV, dShape, dPlain, dColor, dCEnd, dArrow, dLabel, dGray, dDash, dEEnd, ['"']] → ∀ c ∈ k, c ≠ '\n' := by decide
  have attrs : ∀ a : Label, ∀ c ∈ dotAttrs a, c ≠ '\n' := by
    intro a c hc
    unfold dotAttrs at hc
    simp only [List.mem_append] at hc
    rcases hc with hc | hc
    · cases a with
      | greek g =>
        simp only at hc
        split at hc
        · exact fixed dGray (by simp) c hc
        · cases hc
      | alpha _ => cases hc
      | str _ => cases hc
    · cases a with
      | greek g =>
        simp only at hc
        split at hc
        · exact fixed dDash (by simp) c hc
        · cases hc
      | alpha _ => cases hc
      | str _ => cases hc
  intro l hl c hc
  unfold dotNodeLines at hl
  rcases List.mem_cons.1 hl with rfl | hl
  · unfold dotNodeLine at hc
    simp only [List.mem_append] at hc
    rcases hc with (((hc | hc) | hc) | hc) | hc
    · exact fixed dV (by simp) c hc
    · exact nat10_noNl _ c hc
    · exact fixed dShape (by simp) c hc
    · exact nat10_noNl _ c hc
    · cases hd : n.data with
      | none => rw [hd] at hc; exact fixed dPlain (by simp) c hc
      | some bs =>
        rw [hd] at hc
        simp only [List.mem_append] at hc
        rcases hc with (hc | hc) | hc
        · exact fixed dColor (by simp) c hc
        · rcases print_chars bs c hc with rfl | ⟨_, _, h3, _⟩
          · decide
          · exact h3
        · exact fixed dCEnd (by simp) c hc
  · obtain ⟨e, he, rfl⟩ := List.mem_map.1 hl
    unfold dotEdgeLine at hc
    simp only [List.mem_append] at hc
    rcases hc with (((((((hc | hc) | hc) | hc) | hc) | hc) | hc) | hc) | hc
    · exact fixed dV (by simp) c hc
    · exact nat10_noNl _ c hc
    · exact fixed dArrow (by simp) c hc
    · exact nat10_noNl _ c hc
    · exact fixed dLabel (by simp) c hc
    · exact (h e he).noNl c hc
    · exact fixed ['"'] (by simp) c hc
    · exact attrs e.1 c hc
    · exact fixed dEEnd (by simp) c hc

theorem dotLines_noNl (doc : List Node) (h : ∀ n ∈ doc, SafeNode n) : ∀ l ∈ dotLines doc, ∀ c ∈ l, c ≠ '\n' := by
  have fixed : ∀ (k : List Char), k ∈ [dH1, dH2, dH3, dH4, dFoot] → ∀ c ∈ k, c ≠ '\n' := by decide
  intro l hl c hc
  unfold dotLines at hl
  simp only [List.mem_append, List.mem_cons, List.mem_flatMap, List.not_mem_nil, or_false] at hl
  rcases hl with ((rfl | rfl | rfl | rfl) | ⟨n, hn, hl⟩) | rfl
  · exact fixed dH1 (by simp) c hc
  · exact fixed dH2 (by simp) c hc
  · exact fixed dH3 (by simp) c hc
  · exact fixed dH4 (by simp) c hc
  · exact dotNodeLines_noNl n (h n hn) l hl c hc
  · exact fixed dFoot (by simp) c hc

theorem length_le_flatMap_dot (doc : List Node) : doc.length ≤ (doc.flatMap dotNodeLines).length := by
  induction doc with
  | nil => simp
  | cons n ns ih =>
    simp only [List.flatMap_cons, List.length_append, dotNodeLines, List.length_cons]
    omega

/-- **the DOT text reads back as the document** -/
theorem readDot_dotChars (doc : List Node) (h : ∀ n ∈ doc, SafeNode n) : readDot (dotChars doc) = some doc := by
  unfold readDot dotChars
  rw [splitLines_unlines _ (dotLines_noNl doc h)]
  unfold dotLines
  simp only [List.cons_append, List.nil_append, and_self, if_true]
  have hl := length_le_flatMap_dot doc
  have := readDotNodes_lines doc h ((doc.flatMap dotNodeLines ++ [dFoot]).length + 1) (by simp at hl ⊢; omega)
  simpa using this

theorem dotChars_injective (d1 d2 : List Node) (h1 : ∀ n ∈ d1, SafeNode n) (h2 : ∀ n ∈ d2, SafeNode n)
    (he : dotChars d1 = dotChars d2) : d1 = d2 := by
  have a := readDot_dotChars d1 h1
  have b := readDot_dotChars d2 h2
  rw [he, b] at a
  exact (Option.some.inj a).symm


/-! ## `inspect`: the text determines the lines -/

theorem splitLines_tail (tail cur : List Char) (h : ∀ c ∈ tail, c ≠ '\n') :
    splitLines tail cur = ([], cur.reverse ++ tail) := by
  induction tail generalizing cur with
  | nil => simp [splitLines]
  | cons c cs ih =>
    have hc : c ≠ '\n' := h c (List.mem_cons_self ..)
    simp only [splitLines, if_neg hc]
    rw [ih (c :: cur) (fun y hy => h y (List.mem_cons_of_mem _ hy))]
    simp

theorem splitLines_unlines_tail (ls : List (List Char)) (tail : List Char) (h : ∀ l ∈ ls, ∀ c ∈ l, c ≠ '\n')
    (ht : ∀ c ∈ tail, c ≠ '\n') : splitLines (unlines ls ++ tail) [] = (ls, tail) := by
  induction ls with
  | nil => simpa [unlines] using splitLines_tail tail [] ht
  | cons l ls ih =>
    have : unlines (l :: ls) ++ tail = l ++ '\n' :: (unlines ls ++ tail) := by simp [unlines]
    rw [this, splitLines_line l _ [] (h l (List.mem_cons_self ..)), ih (fun x hx => h x (List.mem_cons_of_mem _ hx))]
    simp

theorem readNat_nat10_end (n : Nat) : readNat (nat10 n) = some (n, []) := by
  have h := takeWhile_all isDig (nat10 n) (nat10_digits n)
  unfold readNat
  simp only [h.1, h.2]
  have hne : (nat10 n).isEmpty = false := by
    have := @Nat.toDigits_ne_nil n 10
    cases hd : nat10 n with
    | nil => exact absurd hd this
    | cons _ _ => rfl
  rw [hne]
  simp [nat10, Nat.ofDigitChars_ten_toDigits]

/-- a label whose text has no blank either (every canonical label; taken as a hypothesis here) -/
structure PlainLabel (a : Label) : Prop where
  safe : SafeLabel a
  noSpace : ∀ c ∈ Lb.print a, c ≠ ' '

/-- one edge line: indentation, `.LABEL ➞ νT`, `…` if the target was listed before -/
def readILine (l : List Char) : Option Line :=
  let sp := (l.takeWhile (· == ' ')).length
  if sp < 2 ∨ sp % 2 = 1 then none
  else
    match l.dropWhile (· == ' ') with
    | '.' :: r1 =>
      match stripPrefix iArrow (r1.dropWhile (· != ' ')), Lb.parse (r1.takeWhile (· != ' ')) with
      | some r2, some a =>
        match readNat r2 with
        | some (t, rest) =>
          if rest = [] then some ⟨sp / 2 - 1, a, t, false⟩
          else if rest = ['…'] then some ⟨sp / 2 - 1, a, t, true⟩
          else none
        | none => none
      | _, _ => none
    | _ => none

theorem readILine_line (l : Line) (h : PlainLabel l.label) : readILine (lineChars l) = some l := by
  obtain ⟨d, a, t, ell⟩ := l
  unfold readILine lineChars
  simp only [List.append_assoc]
  have e0 : List.replicate (2 * d) ' ' ++ ([' ', ' ', '.'] ++ (Lb.print a ++ (iArrow ++ (nat10 t ++ if ell = true then ['…'] else [])))) =
      List.replicate (2 * d + 2) ' ' ++ '.' :: (Lb.print a ++ (iArrow ++ (nat10 t ++ if ell = true then ['…'] else []))) := by
    have : List.replicate (2 * d + 2) ' ' = List.replicate (2 * d) ' ' ++ List.replicate 2 ' ' :=
      List.replicate_append_replicate.symm
    rw [this]; simp [List.replicate]
  rw [e0]
  have hsp : ∀ c ∈ List.replicate (2 * d + 2) ' ', (c == ' ') = true := by
    intro c hc; simp [List.eq_of_mem_replicate hc]
  have hs := takeWhile_append_stop (· == ' ') (List.replicate (2 * d + 2) ' ') '.'
    (Lb.print a ++ (iArrow ++ (nat10 t ++ if ell = true then ['…'] else []))) hsp (by decide)
  simp only [hs.1, hs.2, List.length_replicate]
  have c1 : ¬ (2 * d + 2 < 2 ∨ (2 * d + 2) % 2 = 1) := by omega
  rw [if_neg c1]
  have hq : ∀ c ∈ Lb.print a, (c != ' ') = true := fun c hc => by simpa using h.noSpace c hc
  have a1 : iArrow ++ (nat10 t ++ if ell = true then ['…'] else []) = ' ' :: (['➞', ' ', 'ν'] ++ (nat10 t ++ if ell = true then ['…'] else [])) := rfl
  have hl := takeWhile_append_stop (· != ' ') (Lb.print a) ' ' (['➞', ' ', 'ν'] ++ (nat10 t ++ if ell = true then ['…'] else [])) hq (by simp)
  simp only [a1, hl.1, hl.2]
  rw [← a1, stripPrefix_append, Lb.parse_print_label a h.safe.canon]
  have dd : (2 * d + 2) / 2 - 1 = d := by omega
  cases ell with
  | false =>
    simp only [Bool.false_eq_true, if_false, List.append_nil, readNat_nat10_end, if_true, dd]
  | true =>
    have k := readNat_nat10 t '…' [] (by decide)
    simp only [if_true, k, dd]
    simp

def readILines : List (List Char) → Option (List Line)
  | [] => some []
  | l :: ls => match readILine l, readILines ls with
    | some x, some xs => some (x :: xs)
    | _, _ => none

theorem readILines_lines (ls : List Line) (h : ∀ l ∈ ls, PlainLabel l.label) : readILines (ls.map lineChars) = some ls := by
  induction ls with
  | nil => rfl
  | cons l ls ih =>
    simp [readILines, readILine_line l (h l (List.mem_cons_self ..)), ih (fun x hx => h x (List.mem_cons_of_mem _ hx))]

/-- the reader of the whole `inspect` text: the start vertex and the lines -/
def readInspect (text : List Char) : Option (Nat × List Line) :=
  match splitLines text [] with
  | (('ν' :: ds) :: ls, last) =>
    match readNat ds with
    | some (v, []) => (readILines (ls ++ (if last.isEmpty then [] else [last]))).map (fun x => (v, x))
    | _ => none
  | _ => none

theorem lineChars_noNl (l : Line) (h : PlainLabel l.label) : ∀ c ∈ lineChars l, c ≠ '\n' := by
  intro c hc
  unfold lineChars at hc
  simp only [List.mem_append] at hc
  rcases hc with ((((hc | hc) | hc) | hc) | hc) | hc
  · rw [List.eq_of_mem_replicate hc]; decide
  · have : ∀ c ∈ [' ', ' ', '.'], c ≠ '\n' := by decide
    exact this c hc
  · exact h.safe.noNl c hc
  · have : ∀ c ∈ iArrow, c ≠ '\n' := by decide
    exact this c hc
  · exact nat10_noNl _ c hc
  · split at hc
    · have : ∀ c ∈ ['…'], c ≠ '\n' := by decide
      exact this c hc
    · cases hc

theorem lineChars_ne_nil (l : Line) : lineChars l ≠ [] := by
  unfold lineChars; simp

/-- `joinNl` is `unlines` of all lines but the last, followed by the last -/
theorem joinNl_snoc (ls : List (List Char)) (last : List Char) : joinNl (ls ++ [last]) = unlines ls ++ last := by
  induction ls with
  | nil => simp [joinNl, unlines]
  | cons l ls ih =>
    cases ls with
    | nil => simp [joinNl, unlines]
    | cons l' ls' =>
      have : joinNl (l :: l' :: ls' ++ [last]) = l ++ '\n' :: joinNl ((l' :: ls') ++ [last]) := by simp [joinNl]
      rw [this, ih]; simp [unlines]

/-- **the text of `inspect` reads back as the start vertex and the lines** -/
theorem readInspect_chars (v : Nat) (ls : List Line) (h : ∀ l ∈ ls, PlainLabel l.label) :
    readInspect (inspectChars v ls) = some (v, ls) := by
  unfold readInspect inspectChars
  have hdr : ∀ c ∈ 'ν' :: nat10 v, c ≠ '\n' := by
    intro c hc
    rcases List.mem_cons.1 hc with rfl | hc
    · decide
    · exact nat10_noNl _ c hc
  rcases List.eq_nil_or_concat ls with rfl | ⟨init, lastL, rfl⟩
  · -- no line: the text is the header line
    have e : 'ν' :: nat10 v ++ '\n' :: joinNl (([] : List Line).map lineChars) = unlines ['ν' :: nat10 v] ++ [] := by
      simp [joinNl, unlines]
    rw [e, splitLines_unlines_tail ['ν' :: nat10 v] [] (by simpa using hdr) (by simp)]
    simp [readNat_nat10_end, readILines]
  · simp only [List.concat_eq_append] at h ⊢
    have hi : ∀ l ∈ init, PlainLabel l.label := fun l hl => h l (by simp [hl])
    have hlast : PlainLabel lastL.label := h lastL (by simp)
    have e : 'ν' :: nat10 v ++ '\n' :: joinNl ((init ++ [lastL]).map lineChars) =
        unlines (('ν' :: nat10 v) :: init.map lineChars) ++ lineChars lastL := by
      rw [List.map_append, List.map_singleton, joinNl_snoc]; simp [unlines]
    rw [e, splitLines_unlines_tail _ _ (by
      intro l hl c hc
      rcases List.mem_cons.1 hl with rfl | hl
      · exact hdr c hc
      · obtain ⟨x, hx, rfl⟩ := List.mem_map.1 hl
        exact lineChars_noNl x (hi x hx) c hc) (lineChars_noNl lastL hlast)]
    have ne : (lineChars lastL).isEmpty = false := by
      cases hx : lineChars lastL with
      | nil => exact absurd hx (lineChars_ne_nil lastL)
      | cons _ _ => rfl
    simp only [readNat_nat10_end, ne, Bool.false_eq_true, if_false]
    have := readILines_lines (init ++ [lastL]) h
    rw [List.map_append, List.map_singleton] at this
    simp [this]

theorem inspectChars_injective (v1 v2 : Nat) (l1 l2 : List Line) (h1 : ∀ l ∈ l1, PlainLabel l.label)
    (h2 : ∀ l ∈ l2, PlainLabel l.label) (he : inspectChars v1 l1 = inspectChars v2 l2) : v1 = v2 ∧ l1 = l2 := by
  have a := readInspect_chars v1 l1 h1
  have b := readInspect_chars v2 l2 h2
  rw [he, b] at a
  have := Option.some.inj a
  exact ⟨(Prod.mk.inj this).1.symm, (Prod.mk.inj this).2.symm⟩

end Rs
