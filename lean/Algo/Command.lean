import Algo.Script
/-! C14 probe, part 2: one command. The LINE pattern `^([A-Z]+) *\(([^)]*)\)$` as a recogniser, and the argument
    list (split on `,`, trim, drop empties), recover the name and the argument tokens from every legal rendering. -/
namespace S

variable (ws : Char → Bool)

def isUpper (c : Char) : Bool := 65 ≤ c.toNat && c.toNat ≤ 90

/-- `LINE.captures(cmd)`: name, then blanks, `(`, anything but `)`, `)` as the last character -/
def parseLine (cmd : List Char) : Option (List Char × List Char) :=
  let name := cmd.takeWhile isUpper
  if name.isEmpty then none
  else match (cmd.dropWhile isUpper).dropWhile (fun c => c == ' ') with
    | '(' :: r =>
      if r.dropWhile (fun c => c != ')') = [')'] then some (name, r.takeWhile (fun c => c != ')')) else none
    | _ => none

theorem takeWhile_append_stop {p : Char → Bool} (a b : List Char) (ha : ∀ c ∈ a, p c = true)
    (hb : ∀ c, b.head? = some c → p c = false) : (a ++ b).takeWhile p = a ∧ (a ++ b).dropWhile p = b := by
  induction a with
  | nil =>
    cases b with
    | nil => simp
    | cons c cs => have := hb c rfl; simp [List.takeWhile_cons, List.dropWhile_cons, this]
  | cons x xs ih =>
    have hx := ha x (by simp)
    have := ih (fun c hc => ha c (by simp [hc]))
    simp [List.takeWhile_cons, List.dropWhile_cons, hx, this.1, this.2]

/-- a rendered command: NAME, blanks, `(`, inner text without `)`, `)` -/
theorem parseLine_render (name sp inner : List Char) (hn : name ≠ []) (hup : ∀ c ∈ name, isUpper c = true)
    (hsp : ∀ c ∈ sp, c = ' ') (hin : ∀ c ∈ inner, c ≠ ')') :
    parseLine (name ++ (sp ++ '(' :: (inner ++ [')']))) = some (name, inner) := by
  unfold parseLine
  have hstop : ∀ c, (sp ++ '(' :: (inner ++ [')'])).head? = some c → isUpper c = false := by
    intro c hc
    cases sp with
    | nil => simp at hc; subst hc; decide
    | cons s ss =>
      simp at hc; subst hc
      have : s = ' ' := hsp s (by simp)
      rw [this]; decide
  obtain ⟨t1, d1⟩ := takeWhile_append_stop (p := isUpper) name _ hup hstop
  simp only [t1, d1]
  have hne : name.isEmpty = false := by cases name with | nil => exact absurd rfl hn | cons _ _ => rfl
  rw [hne]
  simp only [Bool.false_eq_true, if_false]
  obtain ⟨_, d2⟩ := takeWhile_append_stop (p := fun c => c == ' ') sp ('(' :: (inner ++ [')']))
    (fun c hc => by simp [hsp c hc]) (fun c hc => by simp at hc; subst hc; decide)
  rw [d2]
  simp only
  obtain ⟨t3, d3⟩ := takeWhile_append_stop (p := fun c => c != ')') inner [')']
    (fun c hc => by simp [hin c hc]) (fun c hc => by simp at hc; subst hc; decide)
  rw [d3, t3]
  simp

/-- the argument list of `deploy_one` -/
def args (inner : List Char) : List (List Char) :=
  ((splitOn ',' inner).map (trim ws)).filter (fun c => !c.isEmpty)

structure Arg where
  pre : List Char
  tok : List Char
  post : List Char

def Arg.ok (a : Arg) : Prop :=
  (∀ c ∈ a.pre, ws c = true ∧ c ≠ ',') ∧ Tok ws a.tok ∧ (∀ c ∈ a.tok, c ≠ ',') ∧ (∀ c ∈ a.post, ws c = true ∧ c ≠ ',')

def Arg.text (a : Arg) : List Char := a.pre ++ a.tok ++ a.post

def renderArgs : List Arg → List Char
  | [] => []
  | [a] => a.text
  | a :: b :: rest => a.text ++ ',' :: renderArgs (b :: rest)

theorem args_render (as : List Arg) (hne : as ≠ []) (hok : ∀ a ∈ as, a.ok ws) :
    args ws (renderArgs as) = as.map (·.tok) := by
  unfold args
  induction as with
  | nil => exact absurd rfl hne
  | cons a rest ih =>
    obtain ⟨h1, h2, h3, h4⟩ := hok a (by simp)
    have hseg : ∀ c ∈ a.text, c ≠ ',' := by
      intro c hc
      simp only [Arg.text, List.mem_append] at hc
      rcases hc with (hc | hc) | hc
      · exact (h1 c hc).2
      · exact h3 c hc
      · exact (h4 c hc).2
    have htrim : trim ws a.text = a.tok :=
      trim_pad ws a.pre a.tok a.post (fun c hc => (h1 c hc).1) (fun c hc => (h4 c hc).1) h2
    have hnonempty : (!(a.tok).isEmpty) = true := by
      cases hh : a.tok with
      | nil => exact absurd hh h2.ne
      | cons _ _ => rfl
    cases rest with
    | nil =>
      simp only [renderArgs, splitOn_nosep ',' _ hseg, List.map_cons, List.map_nil, List.filter_cons, htrim,
        hnonempty, if_true, List.filter_nil]
    | cons b rest' =>
      have := ih (by simp) (fun x hx => hok x (by simp [hx]))
      simp only [renderArgs] at this ⊢
      rw [splitOn_append ',' _ _ hseg]
      simp only [List.map_cons, List.filter_cons, htrim, hnonempty, if_true]
      rw [this]
      simp

#print axioms parseLine_render
#print axioms args_render
end S
