import Core.Model
import Pure
import Algo.Render
import Algo.Fuel
/-! The text renderers of sodg on the model state with the real label and datum types: `to_xml`, `to_dot`,
    `inspect`, `Debug`/`Display`, `v_print` (Appendix A.6 of DESIGN.md). Each is a *document* (structured records)
    followed by a printer, so that the theorems can speak about the document. -/
namespace Rs
open Sodg

abbrev Label := Lb.Label
abbrev Hex := Hx.Hex

def str (cs : List Char) : String := String.ofList cs
def labelText (l : Label) : String := str (Lb.print l)
def hexText (bs : List UInt8) : String := str (HD.print bs)

def dataOf (v : Vertex Label Hex) : Option (List UInt8) := if v.pers = .empty then none else some v.data.toBytes

/-- the slots of the vertex store as the export sees them -/
def slotsOf (g : G Label Hex) : List (Rd.Slot Label (List UInt8)) :=
  g.vs.toList.map (fun v => ⟨v.branch != 0, v.edges, dataOf v⟩)

/-- the document of `to_xml` and `to_dot`: present vertices ascending, edges sorted by label, data if any -/
def exportDoc (g : G Label Hex) : List (Rd.VNode Label (List UInt8)) := Rd.doc LO.lt (slotsOf g)

/-! #### `to_xml`, character by character (so that `Algo/RenderText.lean` can read the text back) -/

def xHeader : List Char := ['<', '?', 'x', 'm', 'l', ' ', 'v', 'e', 'r', 's', 'i', 'o', 'n', '=', '"', '1', '.', '1', '"', ' ', 'e', 'n', 'c', 'o', 'd', 'i', 'n', 'g', '=', '"', 'U', 'T', 'F', '-', '8', '"', '?', '>']
def xVOpen : List Char := ['\t', '<', 'v', ' ', 'i', 'd', '=', '"']
def xSelf : List Char := ['"', ' ', '/', '>']
def xOpen : List Char := ['"', '>']
def xEdge : List Char := ['\t', '\t', '<', 'e', ' ', 'a', '=', '"']
def xTo : List Char := ['"', ' ', 't', 'o', '=', '"']
def xData : List Char := ['\t', '\t', '<', 'd', 'a', 't', 'a', '>']
def xDataEnd : List Char := ['<', '/', 'd', 'a', 't', 'a', '>']
def xClose : List Char := ['\t', '<', '/', 'v', '>']
def xRootEmpty : List Char := ['<', 's', 'o', 'd', 'g', ' ', '/', '>']
def xRoot : List Char := ['<', 's', 'o', 'd', 'g', '>']
def xRootEnd : List Char := ['<', '/', 's', 'o', 'd', 'g', '>']

/-- decimal digits of a number (`Nat.repr`, as characters) -/
def nat10 (n : Nat) : List Char := Nat.toDigits 10 n

def dashToSpace (c : Char) : Char := if c = '-' then ' ' else c

def xEdgeLine (e : Label × Nat) : List Char := xEdge ++ Lb.print e.1 ++ xTo ++ nat10 e.2 ++ xSelf
def xDataLine (bs : List UInt8) : List Char := xData ++ (HD.print bs).map dashToSpace ++ xDataEnd

/-- the lines of one `<v>` element -/
def xmlNodeLines (n : Rd.VNode Label (List UInt8)) : List (List Char) :=
  if n.edges.isEmpty ∧ n.data.isNone then [xVOpen ++ nat10 n.id ++ xSelf]
  else
    [xVOpen ++ nat10 n.id ++ xOpen] ++ n.edges.map xEdgeLine ++
    (match n.data with
     | some bs => [xDataLine bs]
     | none => []) ++
    [xClose]

/-- the lines of the document -/
def xmlLines (doc : List (Rd.VNode Label (List UInt8))) : List (List Char) :=
  xHeader :: (if doc.isEmpty then [xRootEmpty] else [xRoot] ++ doc.flatMap xmlNodeLines ++ [xRootEnd])

/-- every line is followed by a newline -/
def unlines (ls : List (List Char)) : List Char := ls.flatMap (· ++ ['\n'])

def xmlChars (doc : List (Rd.VNode Label (List UInt8))) : List Char := unlines (xmlLines doc)

def renderXml (doc : List (Rd.VNode Label (List UInt8))) : String := String.ofList (xmlChars doc)

def toXml (g : G Label Hex) : String := renderXml (exportDoc g)

/-! #### `to_dot`, character by character -/

def dH1 : List Char := ['/', '*', ' ', 'R', 'e', 'n', 'd', 'e', 'r', ' ', 'i', 't', ' ', 'a', 't', ' ', 'h', 't', 't', 'p', 's', ':', '/', '/', 'd', 'r', 'e', 'a', 'm', 'p', 'u', 'f', '.', 'g', 'i', 't', 'h', 'u', 'b', '.', 'i', 'o', '/', 'G', 'r', 'a', 'p', 'h', 'v', 'i', 'z', 'O', 'n', 'l', 'i', 'n', 'e', '/', ' ', '*', '/']
def dH2 : List Char := ['d', 'i', 'g', 'r', 'a', 'p', 'h', ' ', '{']
def dH3 : List Char := [' ', ' ', 'n', 'o', 'd', 'e', ' ', '[', 'f', 'i', 'x', 'e', 'd', 's', 'i', 'z', 'e', '=', 't', 'r', 'u', 'e', ',', 'w', 'i', 'd', 't', 'h', '=', '1', ',', 'f', 'o', 'n', 't', 'n', 'a', 'm', 'e', '=', '"', 'A', 'r', 'i', 'a', 'l', '"', ']', ';']
def dH4 : List Char := [' ', ' ', 'e', 'd', 'g', 'e', ' ', '[', 'f', 'o', 'n', 't', 'n', 'a', 'm', 'e', '=', '"', 'A', 'r', 'i', 'a', 'l', '"', ']', ';']
def dV : List Char := [' ', ' ', 'v']
def dShape : List Char := ['[', 's', 'h', 'a', 'p', 'e', '=', 'c', 'i', 'r', 'c', 'l', 'e', ',', 'l', 'a', 'b', 'e', 'l', '=', '"', 'ν']
def dPlain : List Char := ['"', ']', ';', ' ']
def dColor : List Char := ['"', ',', 'c', 'o', 'l', 'o', 'r', '=', '"', '#', 'f', '9', '6', '9', '0', '0', '"', ']', ';', ' ', '/', '*', ' ']
def dCEnd : List Char := [' ', '*', '/']
def dArrow : List Char := [' ', '-', '>', ' ', 'v']
def dLabel : List Char := [' ', '[', 'l', 'a', 'b', 'e', 'l', '=', '"']
def dGray : List Char := [',', 'c', 'o', 'l', 'o', 'r', '=', 'g', 'r', 'a', 'y', ',', 'f', 'o', 'n', 't', 'c', 'o', 'l', 'o', 'r', '=', 'g', 'r', 'a', 'y']
def dDash : List Char := [',', 's', 't', 'y', 'l', 'e', '=', 'd', 'a', 's', 'h', 'e', 'd']
def dEEnd : List Char := [']', ';']
def dFoot : List Char := ['}']

/-- the attributes `to_dot` adds for the labels it knows -/
def dotAttrs (a : Label) : List Char :=
  (match a with
   | .greek g => if g = 'ρ' ∨ g = 'σ' then dGray else []
   | _ => []) ++
  (match a with
   | .greek g => if g = 'π' then dDash else []
   | _ => [])

def dotEdgeLine (v : Nat) (e : Label × Nat) : List Char :=
  dV ++ nat10 v ++ dArrow ++ nat10 e.2 ++ dLabel ++ Lb.print e.1 ++ ['"'] ++ dotAttrs e.1 ++ dEEnd

def dotNodeLine (n : Rd.VNode Label (List UInt8)) : List Char :=
  dV ++ nat10 n.id ++ dShape ++ nat10 n.id ++
    (match n.data with
     | none => dPlain
     | some bs => dColor ++ HD.print bs ++ dCEnd)

def dotNodeLines (n : Rd.VNode Label (List UInt8)) : List (List Char) :=
  dotNodeLine n :: n.edges.map (dotEdgeLine n.id)

def dotLines (doc : List (Rd.VNode Label (List UInt8))) : List (List Char) :=
  [dH1, dH2, dH3, dH4] ++ doc.flatMap dotNodeLines ++ [dFoot]

def dotChars (doc : List (Rd.VNode Label (List UInt8))) : List Char := unlines (dotLines doc)

def renderDot (doc : List (Rd.VNode Label (List UInt8))) : String := String.ofList (dotChars doc)

def toDot (g : G Label Hex) : String := renderDot (exportDoc g)

/-! ### Debug / Display, v_print -/

/-- one record per present vertex: id, edges in stored order, data -/
def debugDoc (g : G Label Hex) : List (Rd.VNode Label (List UInt8)) :=
  ((List.range (cap g)).filter (fun v => tag g v ≠ 0)).map (fun v => ⟨v, edg g v, dataOf g.vs[v]!⟩)

/-! #### `Debug` / `Display`, character by character -/

def iArrow : List Char := [' ', '➞', ' ', 'ν']
def gHead : List Char := [' ', '-', '>', ' ', '⟦']
def gSep : List Char := [',', ' ']

/-- items separated by `, ` -/
def joinSep : List (List Char) → List Char
  | [] => []
  | [x] => x
  | x :: y :: r => x ++ gSep ++ joinSep (y :: r)

/-- lines separated (not terminated) by newlines -/
def joinNl : List (List Char) → List Char
  | [] => []
  | [l] => l
  | l :: l' :: ls => l ++ '\n' :: joinNl (l' :: ls)

def debugEdge (e : Label × Nat) : List Char := '\n' :: '\t' :: (Lb.print e.1 ++ iArrow ++ nat10 e.2)

def debugItems (n : Rd.VNode Label (List UInt8)) : List (List Char) :=
  n.edges.map debugEdge ++ (match n.data with
    | some bs => [HD.print bs]
    | none => [])

def debugNodeChars (n : Rd.VNode Label (List UInt8)) : List Char :=
  'ν' :: nat10 n.id ++ gHead ++ joinSep (debugItems n) ++ ['⟧']

def branchChars (b : Nat) (ms : List Nat) : List Char :=
  'b' :: nat10 b ++ [':', ' ', '{'] ++ joinSep (ms.map (fun v => 'ν' :: nat10 v)) ++ ['}']

def branchLines (g : G Label Hex) : List (List Char) :=
  (List.range g.br.size).filterMap (fun b => let ms := mem g b; if ms.isEmpty then none else some (branchChars b ms))

def debugChars (g : G Label Hex) : List Char := joinNl ((debugDoc g).map debugNodeChars ++ branchLines g)

def toDebug (g : G Label Hex) : String := String.ofList (debugChars g)

/-- `v_print`: `none` = panic (id at or above the capacity) -/
def vPrint (g : G Label Hex) (v : Nat) : Option String :=
  if v < cap g then
    some (s!"ν{v}⟦" ++ (if pers g v = .empty then "" else "Δ, ") ++ ", ".intercalate ((edg g v).map (fun e => labelText e.1)) ++ "⟧")
  else none

/-! ### inspect -/

structure Line where
  depth : Nat
  label : Label
  target : Nat
  ellipsis : Bool

def sortedEdges (g : G Label Hex) (v : Nat) : List (Label × Nat) := Rd.sortEdges LO.lt (edg g v)

mutual
/-- body of `inspect_v` for a vertex already in `seen`: the lines below it and the new `seen` -/
def expandL (g : G Label Hex) : Nat → Nat → Nat → List Nat → Option (List Line × List Nat)
  | 0, _, _, _ => none
  | fuel + 1, d, v, seen => loopL g fuel d (sortedEdges g v) seen
/-- the `for_each` over the sorted edges of one vertex -/
def loopL (g : G Label Hex) : Nat → Nat → List (Label × Nat) → List Nat → Option (List Line × List Nat)
  | _, _, [], seen => some ([], seen)
  | fuel, d, (a, w) :: rest, seen =>
    if w ∈ seen then
      match loopL g fuel d rest seen with
      | none => none
      | some (ls, s) => some (⟨d, a, w, true⟩ :: ls, s)
    else
      match expandL g fuel (d + 1) w (w :: seen) with
      | none => none
      | some (ls1, seen1) =>
        match loopL g fuel d rest seen1 with
        | none => none
        | some (ls2, seen2) => some (⟨d, a, w, false⟩ :: ls1 ++ ls2, seen2)
end

def inspectLines (g : G Label Hex) (v : Nat) : Option (List Line) := (expandL g (cap g + 1) 0 v [v]).map (·.1)

/-! #### the text of `inspect`, character by character -/

def lineChars (l : Line) : List Char :=
  List.replicate (2 * l.depth) ' ' ++ [' ', ' ', '.'] ++ Lb.print l.label ++ iArrow ++ nat10 l.target ++
    (if l.ellipsis then ['…'] else [])

def inspectChars (v : Nat) (ls : List Line) : List Char := 'ν' :: nat10 v ++ '\n' :: joinNl (ls.map lineChars)

/-- `inspect`: `none` = panic (id at or above the capacity) or fuel exhausted (proved impossible) -/
def toInspect (g : G Label Hex) (v : Nat) : Option String :=
  if v < cap g then (inspectLines g v).map (fun ls => String.ofList (inspectChars v ls)) else none

end Rs
