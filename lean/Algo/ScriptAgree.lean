import Algo.ScriptHoles
set_option linter.unusedSectionVars false
/-! # `deployX` is `deploy` on well-formed scripts whose calls complete

`deployX` (Algo/ScriptHoles.lean) is the script front end over the total step, `deploy` (Algo/ScriptSodg.lean) the one the C14
theorems are about. On a graph without removed slots, for a script every command of which parses (C14's quantifier), as long as
no call panics the two do the same: same graph, same variable table, same outcome, same count (`deployX_agrees`). -/
namespace Ss
open Sodg S

/-- what a parsed command does, over the total calls -/
def execAX (c : ACmd Label Hex) (s : SStateX) : SStateX × Res :=
  match c with
  | .add v =>
    match resolveVTX v s with
    | (s1, .ok, i) => callAddX s1 i
    | (s1, r, _) => (s1, r)
  | .bind v1 v2 l =>
    match resolveVTX v1 s with
    | (s1, .ok, i1) =>
      match resolveVTX v2 s1 with
      | (s2, .ok, i2) => callBindX s2 i1 i2 l
      | (s2, r, _) => (s2, r)
    | (s1, r, _) => (s1, r)
  | .put v d =>
    match resolveVTX v s with
    | (s1, .ok, i) => callPutX s1 i d
    | (s1, r, _) => (s1, r)

/-- a command text that parses to `a` does exactly what `a` does -/
theorem deployCmdX_of_parse (cmd : List Char) (a : ACmd Label Hex) (h : parseCmd isWs pV pL pD cmd = some a)
    (s : SStateX) : deployCmdX cmd s = execAX a s := by
  unfold parseCmd at h
  unfold deployCmdX
  cases hl : parseLine cmd with
  | none => rw [hl] at h; cases h
  | some pr =>
    obtain ⟨name, inner⟩ := pr
    rw [hl] at h
    simp only at h ⊢
    by_cases h1 : name = nADD
    · simp only [h1, if_true] at h ⊢
      cases h0 : (args isWs inner)[0]? with
      | none => rw [h0] at h; simp at h
      | some t0 =>
        rw [h0] at h
        simp only [Option.bind_some] at h
        cases hv : pV t0 with
        | none => rw [hv] at h; simp at h
        | some v => rw [hv] at h; simp at h; subst h; simp only [hv, execAX]; rfl
    · simp only [h1, if_false] at h ⊢
      by_cases h2 : name = nBIND
      · simp only [h2, if_true] at h ⊢
        cases h0 : (args isWs inner)[0]? with
        | none => rw [h0] at h; simp at h
        | some t0 =>
          rw [h0] at h
          simp only [Option.bind_some] at h
          cases hv1 : pV t0 with
          | none => rw [hv1] at h; simp at h
          | some v1 =>
            rw [hv1] at h
            simp only [Option.bind_some] at h
            cases h1' : (args isWs inner)[1]? with
            | none => rw [h1'] at h; simp at h
            | some t1 =>
              rw [h1'] at h
              simp only [Option.bind_some] at h
              cases hv2 : pV t1 with
              | none => rw [hv2] at h; simp at h
              | some v2 =>
                rw [hv2] at h
                simp only [Option.bind_some] at h
                cases h2' : (args isWs inner)[2]? with
                | none => rw [h2'] at h; simp at h
                | some t2 =>
                  rw [h2'] at h
                  simp only [Option.bind_some] at h
                  cases hl2 : pL t2 with
                  | none => rw [hl2] at h; simp at h
                  | some l =>
                    rw [hl2] at h; simp at h; subst h
                    simp only [hv1, execAX]
                    rcases hr1 : resolveVTX v1 s with ⟨s1, r1, i1⟩
                    cases r1 <;> simp only [hv2, h1']
                    rcases hr2 : resolveVTX v2 s1 with ⟨s2, r2, i2⟩
                    cases r2 <;> simp only [h2', hl2]
      · simp only [h2, if_false] at h ⊢
        by_cases h3 : name = nPUT
        · simp only [h3, if_true] at h ⊢
          cases h0 : (args isWs inner)[0]? with
          | none => rw [h0] at h; simp at h
          | some t0 =>
            rw [h0] at h
            simp only [Option.bind_some] at h
            cases hv : pV t0 with
            | none => rw [hv] at h; simp at h
            | some v =>
              rw [hv] at h
              simp only [Option.bind_some] at h
              cases h1' : (args isWs inner)[1]? with
              | none => rw [h1'] at h; simp at h
              | some t1 =>
                rw [h1'] at h
                simp only [Option.bind_some] at h
                cases hd : pD t1 with
                | none => rw [hd] at h; simp at h
                | some d =>
                  rw [hd] at h; simp at h; subst h
                  simp only [hv, execAX]
                  rcases hr1 : resolveVTX v s with ⟨s1, r1, i1⟩
                  cases r1 <;> simp only [h1', hd]
        · simp [h3] at h


def lift (s : SState) : SStateX := { x := ⟨s.g, []⟩, vars := s.vars }

theorem nextIdX_nohole (g : G Label Hex) :
    nextIdX (⟨g, []⟩ : GX Label Hex) = (nextId g).map (fun p => (⟨p.1, []⟩, p.2)) := by
  unfold nextIdX nextId
  simp only [List.contains_nil, Bool.not_false, Bool.true_and]
  cases (List.range (cap g)).find? (fun v => decide (tag g v = 0 ∧ g.next ≤ v)) with
  | none => rfl
  | some i => simp only [GX.withG, Option.map_some]

theorem resolveVTX_lift (v : VTok) (s : SState) :
    resolveVTX v (lift s) = ((lift (resolveVT v s).1), (resolveVT v s).2.1, (resolveVT v s).2.2) := by
  unfold resolveVTX resolveVT
  cases v with
  | lit n => rfl
  | var name =>
    simp only [lift]
    cases varLookup s.vars name with
    | some id => rfl
    | none =>
      simp only [nextIdX_nohole]
      cases nextId s.g with
      | none => rfl
      | some p => rfl

theorem acc_of_lt (g : G Label Hex) (v : Nat) (h : v < cap g) : (GX.mk g []).acc v = true := by simp [GX.acc, h]

theorem callAddX_lift (s s1 : SState) (v : Nat) (h : callAdd s v = (s1, .ok)) : callAddX (lift s) v = (lift s1, .ok) := by
  unfold callAdd at h
  cases ha : add s.g v with
  | none => rw [ha] at h; simp at h
  | some g' =>
    rw [ha] at h
    simp only [Prod.mk.injEq, and_true] at h
    subst h
    have hv : v < cap s.g := by
      unfold add at ha; by_cases hv : v < cap s.g
      · exact hv
      · rw [if_neg hv] at ha; cases ha
    unfold callAddX addX
    simp only [lift, acc_of_lt s.g v hv, if_true, addT_of_add s.g g' v ha, GX.withG]

theorem callBindX_lift (s s1 : SState) (v1 v2 : Nat) (l : Label) (h : callBind s v1 v2 l = (s1, .ok)) :
    callBindX (lift s) v1 v2 l = (lift s1, .ok) := by
  unfold callBind at h
  cases ha : Sodg.bind s.g v1 v2 l with
  | none => rw [ha] at h; simp at h
  | some g' =>
    rw [ha] at h
    simp only [Prod.mk.injEq, and_true] at h
    subst h
    have hv : v1 < cap s.g ∧ v2 < cap s.g := by
      unfold Sodg.bind at ha; by_cases hv : v1 < cap s.g ∧ v2 < cap s.g
      · exact hv
      · rw [if_neg hv] at ha; cases ha
    unfold callBindX bindX
    simp only [lift, acc_of_lt s.g v1 hv.1, acc_of_lt s.g v2 hv.2, Bool.and_self, if_true, bindT_of_bind s.g g' v1 v2 l ha,
      GX.withG]

theorem callPutX_lift (s s1 : SState) (v : Nat) (d : Hex) (h : callPut s v d = (s1, .ok)) :
    callPutX (lift s) v d = (lift s1, .ok) := by
  unfold callPut at h
  cases ha : put s.g v d with
  | none => rw [ha] at h; simp at h
  | some g' =>
    rw [ha] at h
    simp only [Prod.mk.injEq, and_true] at h
    subst h
    have hv : v < cap s.g := by
      unfold put at ha; by_cases hv : v < cap s.g
      · exact hv
      · rw [if_neg hv] at ha; cases ha
    unfold callPutX putX
    simp only [lift, acc_of_lt s.g v hv, if_true, putT_of_put s.g g' v d ha, GX.withG]

theorem execAX_lift (a : ACmd Label Hex) (s s1 : SState) (h : execA a s = (s1, .ok)) : execAX a (lift s) = (lift s1, .ok) := by
  cases a with
  | add v =>
    simp only [execA] at h
    simp only [execAX, resolveVTX_lift]
    rcases hr : resolveVT v s with ⟨s', r, i⟩
    rw [hr] at h
    cases r <;> simp only at h ⊢
    · exact callAddX_lift s' s1 i h
    · simp at h
    · simp at h
  | bind v1 v2 l =>
    simp only [execA] at h
    simp only [execAX, resolveVTX_lift]
    rcases hr : resolveVT v1 s with ⟨s', r, i⟩
    rw [hr] at h
    cases r <;> simp only at h ⊢
    · simp only [resolveVTX_lift]
      rcases hr2 : resolveVT v2 s' with ⟨s'', r2, i2⟩
      rw [hr2] at h
      cases r2 <;> simp only at h ⊢
      · exact callBindX_lift s'' s1 i i2 l h
      · simp at h
      · simp at h
    · simp at h
    · simp at h
  | put v d =>
    simp only [execA] at h
    simp only [execAX, resolveVTX_lift]
    rcases hr : resolveVT v s with ⟨s', r, i⟩
    rw [hr] at h
    cases r <;> simp only at h ⊢
    · exact callPutX_lift s' s1 i d h
    · simp at h
    · simp at h

theorem runCmdsX_agree (cs : List (List Char)) : ∀ (prog : List (ACmd Label Hex)),
    cs.map (parseCmd isWs pV pL pD) = prog.map some → ∀ (s s' : SState) (k k' : Nat),
    runCmds execA prog s k = (s', .ok, k') → runCmdsX cs (lift s) k = (lift s', .ok, k') := by
  induction cs with
  | nil =>
    intro prog hp s s' k k' h
    cases prog with
    | nil => simp only [runCmds, Prod.mk.injEq, true_and] at h; obtain ⟨rfl, rfl⟩ := h; rfl
    | cons _ _ => simp at hp
  | cons c cs ih =>
    intro prog hp s s' k k' h
    cases prog with
    | nil => simp at hp
    | cons a as =>
      simp only [List.map_cons, List.cons.injEq] at hp
      simp only [runCmds] at h
      rcases he : execA a s with ⟨s1, r⟩
      rw [he] at h
      cases r with
      | ok =>
        simp only at h
        simp only [runCmdsX, deployCmdX_of_parse c a hp.1 (lift s), execAX_lift a s s1 he]
        exact ih as hp.2 s1 s' (k + 1) k' h
      | err => simp at h
      | panic => simp at h

/-- **`deployX` is `deploy`** on a graph without removed slots, for a script every command of which parses, when it runs to
    its end: the same graph (no slot removed), the same variable table, the same count -/
theorem deployX_agrees (text : List Char) (prog : List (ACmd Label Hex))
    (hp : (commands isWs text).map (parseCmd isWs pV pL pD) = prog.map some) (g : G Label Hex) (s' : SState) (k : Nat)
    (h : deploy text g = (s', .ok, k)) : deployX text ⟨g, []⟩ = (lift s', .ok, k) := by
  unfold deploy at h
  rw [runCmds_of_parse _ prog hp] at h
  exact runCmdsX_agree _ prog hp { g := g } s' 0 k h

end Ss
