import Algo.ScriptTotal
import Core.Holes
/-! # `Script::deploy_to` on the total model with removed slots

`Ss.deploy` (Algo/ScriptSodg.lean) interprets a script over the partial step: it stops at the first panicking call with the state
*before* that call, and it does not speak about a 15th group or a slot removed by `join`. `deployX` is the same text-to-calls
front end — statement by statement the same parsing, the same order of `next_id()` for new variables — over `stepX`
(Core/Holes.lean): the state a panicking call leaves behind is the state the script leaves behind (`deploy_to` just unwinds).
`msx_deployX`: whatever the text and however it ends, the graph keeps the memory-safety invariant. -/
namespace Ss
open Sodg S

structure SStateX where
  x : GX Label Hex
  vars : List (List Char × Nat) := []

def resolveVTX (v : VTok) (s : SStateX) : SStateX × Res × Nat :=
  match v with
  | .lit n => (s, .ok, n)
  | .var name =>
    match varLookup s.vars name with
    | some id => (s, .ok, id)
    | none =>
      match nextIdX s.x with
      | none => (s, .panic, 0)
      | some (x', id) => ({ x := x', vars := (name, id) :: s.vars }, .ok, id)

def callAddX (s : SStateX) (v : Nat) : SStateX × Res :=
  ({ s with x := (addX s.x v).1 }, if (addX s.x v).2 then .ok else .panic)

def callBindX (s : SStateX) (v1 v2 : Nat) (l : Label) : SStateX × Res :=
  ({ s with x := (bindX s.x v1 v2 l).1 }, if (bindX s.x v1 v2 l).2 then .ok else .panic)

def callPutX (s : SStateX) (v : Nat) (d : Hex) : SStateX × Res :=
  ({ s with x := (putX s.x v d).1 }, if (putX s.x v d).2 then .ok else .panic)

/-- `deploy_one`, literally (as `deployCmd`), over the total calls -/
def deployCmdX (cmd : List Char) (s : SStateX) : SStateX × Res :=
  match parseLine cmd with
  | none => (s, .err)
  | some (name, inner) =>
    let as := args isWs inner
    if name = nADD then
      match as[0]? with
      | none => (s, .err)
      | some t0 => match pV t0 with
        | none => (s, .err)
        | some v => match resolveVTX v s with
          | (s1, .ok, i) => callAddX s1 i
          | (s1, r, _) => (s1, r)
    else if name = nBIND then
      match as[0]? with
      | none => (s, .err)
      | some t0 => match pV t0 with
        | none => (s, .err)
        | some v1 => match resolveVTX v1 s with
          | (s1, .ok, i1) =>
            match as[1]? with
            | none => (s1, .err)
            | some t1 => match pV t1 with
              | none => (s1, .err)
              | some v2 => match resolveVTX v2 s1 with
                | (s2, .ok, i2) =>
                  match as[2]? with
                  | none => (s2, .err)
                  | some t2 => match pL t2 with
                    | none => (s2, .err)
                    | some l => callBindX s2 i1 i2 l
                | (s2, r, _) => (s2, r)
          | (s1, r, _) => (s1, r)
    else if name = nPUT then
      match as[0]? with
      | none => (s, .err)
      | some t0 => match pV t0 with
        | none => (s, .err)
        | some v => match resolveVTX v s with
          | (s1, .ok, i) =>
            match as[1]? with
            | none => (s1, .err)
            | some t1 => match pD t1 with
              | none => (s1, .err)
              | some d => callPutX s1 i d
          | (s1, r, _) => (s1, r)
    else (s, .err)

def runCmdsX : List (List Char) → SStateX → Nat → SStateX × Res × Nat
  | [], s, k => (s, .ok, k)
  | c :: cs, s, k =>
    match deployCmdX c s with
    | (s1, .ok) => runCmdsX cs s1 (k + 1)
    | (s1, r) => (s1, r, k)

/-- `Script::from_str(text).deploy_to(g)` on a graph with removed slots, total -/
def deployX (text : List Char) (x : GX Label Hex) : SStateX × Res × Nat :=
  runCmdsX (commands isWs text) { x := x } 0

/-! ### the invariant -/

theorem msx_resolveVTX (v : VTok) (s : SStateX) (h : MSX s.x) : MSX (resolveVTX v s).1.x := by
  unfold resolveVTX
  split
  · exact h
  · split
    · exact h
    · split
      · exact h
      · rename_i x' id hn; exact msx_nextIdX s.x x' h id hn

theorem msx_res (v : VTok) (s s1 : SStateX) (r : Res) (i : Nat) (h : MSX s.x) (hr : resolveVTX v s = (s1, r, i)) : MSX s1.x := by
  have := msx_resolveVTX v s h; rw [hr] at this; exact this

theorem msx_callAddX (s : SStateX) (v : Nat) (h : MSX s.x) : MSX (callAddX s v).1.x := msx_addX s.x h v
theorem msx_callBindX (s : SStateX) (v1 v2 : Nat) (l : Label) (h : MSX s.x) : MSX (callBindX s v1 v2 l).1.x :=
  msx_bindX s.x h v1 v2 l
theorem msx_callPutX (s : SStateX) (v : Nat) (d : Hex) (h : MSX s.x) : MSX (callPutX s v d).1.x := msx_putX s.x h v d

theorem msx_deployCmdX (cmd : List Char) (s : SStateX) (h : MSX s.x) : MSX (deployCmdX cmd s).1.x := by
  unfold deployCmdX
  split
  · exact h
  · dsimp only
    repeat' split
    all_goals first
      | exact h
      | exact msx_res _ _ _ _ _ h (by assumption)
      | exact msx_res _ _ _ _ _ (msx_res _ _ _ _ _ h (by assumption)) (by assumption)
      | exact msx_callAddX _ _ h
      | exact msx_callAddX _ _ (msx_res _ _ _ _ _ h (by assumption))
      | exact msx_callPutX _ _ _ (msx_res _ _ _ _ _ h (by assumption))
      | exact msx_callBindX _ _ _ _ (msx_res _ _ _ _ _ (msx_res _ _ _ _ _ h (by assumption)) (by assumption))

theorem msx_runCmdsX (cmds : List (List Char)) : ∀ (s : SStateX) (k : Nat), MSX s.x → MSX (runCmdsX cmds s k).1.x := by
  induction cmds with
  | nil => intro s k h; exact h
  | cons c cs ih =>
    intro s k h
    have h1 := msx_deployCmdX c s h
    unfold runCmdsX
    split
    · rename_i s1 hc; rw [hc] at h1; exact ih s1 (k + 1) h1
    · rename_i s1 r _ hc; rw [hc] at h1; exact h1

/-- **a script keeps every computed index in range on every graph**, with removed slots or not, to its end, to a malformed
    command, or to a call that panics — the state is the one that call leaves behind -/
theorem msx_deployX (text : List Char) (x : GX Label Hex) (h : MSX x) : MSX (deployX text x).1.x :=
  msx_runCmdsX _ _ 0 h

end Ss
