import Algo.ScriptSodg
set_option linter.unusedSectionVars false
/-! Theorems about `Script::deploy_to` on the model (C14). -/
namespace Ss
open Sodg S

variable (tV : VTok → List Char) (tL : Label → List Char) (tD : Hex → List Char)
variable (dV : VTok → Prop) (dL : Label → Prop) (dD : Hex → Prop)

/-- white space is none of the structural characters, and no upper-case letter is white space -/
theorem isWs_ok : WsOK isWs := by
  intro c h
  refine ⟨?_, ?_, ?_, ?_, ?_⟩ <;> (rintro rfl; revert h; decide)

theorem isUpper_not_ws (c : Char) (h : isUpper c = true) : isWs c = false := by
  simp only [isUpper, Bool.and_eq_true, decide_eq_true_eq] at h
  simp only [isWs]
  have h1 := h.1
  have h2 := h.2
  simp only [Bool.or_eq_false_iff, Bool.and_eq_false_iff, decide_eq_false_iff_not, beq_eq_false_iff_ne]
  refine ⟨⟨⟨⟨⟨⟨⟨⟨⟨⟨?_, ?_⟩, ?_⟩, ?_⟩, ?_⟩, ?_⟩, ?_⟩, ?_⟩, ?_⟩, ?_⟩, ?_⟩ <;> omega

/-- **a script does exactly what the same API calls would do**: for every program whose tokens have legal texts
    (`Tokens`: the token parsers invert the token printers), rendered with any legal formatting — white space and
    newlines around commands and arguments, comments between commands, blanks before `(`, any trailing filler —
    deploying the text is running the program: same graph, same variable table, same outcome, same count -/
theorem deploy_render (tk : Tokens isWs pV pL pD tV tL tD dV dL dD) (prog : List (ACmd Label Hex × CmdFmt))
    (trail : List Filler) (hf : ∀ x ∈ prog, x.2.ok isWs) (ht : ∀ x ∈ trail, x.ok isWs)
    (hdom : ∀ x ∈ prog, inDom dV dL dD x.1) (g : G Label Hex) :
    deploy (renderScript tV tL tD prog trail) g = execProg (prog.map (·.1)) g := by
  unfold deploy execProg
  apply runCmds_of_parse
  have := parseScript_render isWs pV pL pD tV tL tD dV dL dD isWs_ok isUpper_not_ws tk prog trail hf ht hdom
  unfold parseScript at this
  rw [this]
  simp [List.map_map, Function.comp_def]

/-- when every command completes, the returned count is the number of commands -/
theorem count_is_length {α : Type} (f : α → SState → SState × Res) : ∀ (cs : List α) (s : SState) (k : Nat) (s' : SState) (k' : Nat),
    runCmds f cs s k = (s', .ok, k') → k' = k + cs.length := by
  intro cs
  induction cs with
  | nil => intro s k s' k' h; simp [runCmds] at h; simp [h.2]
  | cons c cs ih =>
    intro s k s' k' h
    simp only [runCmds] at h
    rcases hf : f c s with ⟨s1, r⟩
    rw [hf] at h
    cases r with
    | ok => have := ih s1 (k + 1) s' k' h; simp; omega
    | err => simp at h
    | panic => simp at h

/-- a command that does not parse never completes: the outcome is `Err` (or the panic of a `next_id()` taken by a
    variable before the failing argument, when no absent id is left — a precondition violation) -/
theorem malformed_not_ok (cmd : List Char) (h : parseCmd isWs pV pL pD cmd = none) (s : SState) :
    (deployCmd cmd s).2 ≠ .ok := by
  intro hok
  -- if the command completes, every argument was there and parsed: so `parseCmd` succeeds
  suffices hs : ∃ a, parseCmd isWs pV pL pD cmd = some a by
    obtain ⟨a, ha⟩ := hs; rw [h] at ha; cases ha
  unfold deployCmd at hok
  unfold parseCmd
  cases hl : parseLine cmd with
  | none => rw [hl] at hok; simp at hok
  | some pr =>
    obtain ⟨name, inner⟩ := pr
    rw [hl] at hok
    simp only at hok ⊢
    by_cases h1 : name = nADD
    · simp only [h1, if_true] at hok ⊢
      cases h0 : (args isWs inner)[0]? with
      | none => rw [h0] at hok; simp at hok
      | some t0 =>
        rw [h0] at hok; simp only at hok
        cases hv : pV t0 with
        | none => rw [hv] at hok; simp at hok
        | some v => exact ⟨.add v, by simp [hv]⟩
    · simp only [h1, if_false] at hok ⊢
      by_cases h2 : name = nBIND
      · simp only [h2, if_true] at hok ⊢
        cases h0 : (args isWs inner)[0]? with
        | none => rw [h0] at hok; simp at hok
        | some t0 =>
          rw [h0] at hok; simp only at hok
          cases hv1 : pV t0 with
          | none => rw [hv1] at hok; simp at hok
          | some v1 =>
            rw [hv1] at hok; simp only at hok
            rcases hr1 : resolveVT v1 s with ⟨s1, r1, i1⟩
            rw [hr1] at hok
            cases r1 with
            | err => simp at hok
            | panic => simp at hok
            | ok =>
              simp only at hok
              cases h1' : (args isWs inner)[1]? with
              | none => rw [h1'] at hok; simp at hok
              | some t1 =>
                rw [h1'] at hok; simp only at hok
                cases hv2 : pV t1 with
                | none => rw [hv2] at hok; simp at hok
                | some v2 =>
                  rw [hv2] at hok; simp only at hok
                  rcases hr2 : resolveVT v2 s1 with ⟨s2, r2, i2⟩
                  rw [hr2] at hok
                  cases r2 with
                  | err => simp at hok
                  | panic => simp at hok
                  | ok =>
                    simp only at hok
                    cases h2' : (args isWs inner)[2]? with
                    | none => rw [h2'] at hok; simp at hok
                    | some t2 =>
                      rw [h2'] at hok; simp only at hok
                      cases hl2 : pL t2 with
                      | none => rw [hl2] at hok; simp at hok
                      | some l => exact ⟨.bind v1 v2 l, by simp [hv1, hv2, hl2]⟩
      · simp only [h2, if_false] at hok ⊢
        by_cases h3 : name = nPUT
        · simp only [h3, if_true] at hok ⊢
          cases h0 : (args isWs inner)[0]? with
          | none => rw [h0] at hok; simp at hok
          | some t0 =>
            rw [h0] at hok; simp only at hok
            cases hv : pV t0 with
            | none => rw [hv] at hok; simp at hok
            | some v =>
              rw [hv] at hok; simp only at hok
              rcases hr1 : resolveVT v s with ⟨s1, r1, i1⟩
              rw [hr1] at hok
              cases r1 with
              | err => simp at hok
              | panic => simp at hok
              | ok =>
                simp only at hok
                cases h1' : (args isWs inner)[1]? with
                | none => rw [h1'] at hok; simp at hok
                | some t1 =>
                  rw [h1'] at hok; simp only at hok
                  cases hd : pD t1 with
                  | none => rw [hd] at hok; simp at hok
                  | some d => exact ⟨.put v d, by simp [hv, hd]⟩
        · simp [h3] at hok

/-- **the commands before a malformed one are applied, then `deploy_to` stops**: if the first `k` commands run to
    completion and the next one does not, the result is the state reached so far (plus whatever the failing
    command did before failing), its outcome, and the count `k` -/
theorem stops_at_first_failure {α : Type} (f : α → SState → SState × Res) :
    ∀ (pre : List α) (bad : α) (post : List α) (s s1 : SState) (k : Nat),
      runCmds f pre s k = (s1, .ok, k + pre.length) → (f bad s1).2 ≠ .ok →
      runCmds f (pre ++ bad :: post) s k = ((f bad s1).1, (f bad s1).2, k + pre.length) := by
  intro pre
  induction pre with
  | nil =>
    intro bad post s s1 k h hb
    simp [runCmds] at h
    subst h
    simp only [List.nil_append, runCmds, List.length_nil, Nat.add_zero]
  | cons c cs ih =>
    intro bad post s s1 k h hb
    simp only [List.cons_append, runCmds] at h ⊢
    rcases hf : f c s with ⟨s2, r⟩
    rw [hf] at h
    cases r with
    | ok =>
      simp only at h ⊢
      have := ih bad post s2 s1 (k + 1) (by rw [h]; simp; omega) hb
      rw [this]; simp; omega
    | err => simp at h
    | panic => simp at h

end Ss
