import Algo.SliceSodg
set_option linter.unusedSectionVars false
/-! `slice_some` on the model returns exactly the reachable sub-graph (C13). -/
namespace Sodg

variable {L D : Type} [DecidableEq L] [Inhabited D]

/-- run calls on the reference, keeping the state only -/
def R.exec (c : Nat) (r : R L D) (ops : List (Op L D)) : R L D := ops.foldl (fun r op => (R.step c r op).1) r

theorem R.exec_append (c : Nat) (r : R L D) (a b : List (Op L D)) : R.exec c r (a ++ b) = R.exec c (R.exec c r a) b := by
  simp [R.exec, List.foldl_append]

/-- the list of calls of the rebuild, run on the reference, is the recursive `rebuild` of `Core/SliceRebuild.lean` -/
theorem exec_rebuildEdges (c : Nat) (kept : Nat → Bool) (x : Nat) : ∀ (es : List (L × Nat)) (r : R L D),
    R.exec c r ((es.filter (fun e => kept e.2)).flatMap (fun e => [Op.add e.2, Op.bind x e.2 e.1])) = rebuildEdges kept x r es := by
  intro es
  induction es with
  | nil => intro r; rfl
  | cons e rest ih =>
    intro r
    obtain ⟨a, t⟩ := e
    simp only [List.filter_cons, rebuildEdges]
    split
    · simp only [List.flatMap_cons, List.cons_append, List.nil_append]
      show R.exec c ((R.step c ((R.step c r (.add t)).1) (.bind x t a)).1) _ = _
      exact ih _
    · exact ih r

theorem exec_rebuildOps (c : Nat) (src : Nat → List (L × Nat)) (kept : Nat → Bool) : ∀ (xs : List Nat) (r : R L D),
    R.exec c r (rebuildOps src kept xs) = rebuild src kept r xs := by
  intro xs
  induction xs with
  | nil => intro r; rfl
  | cons x rest ih =>
    intro r
    simp only [rebuildOps, List.flatMap_cons, rebuild]
    rw [R.exec_append]
    show R.exec c (R.exec c (R.step c r (.add x)).1 _) _ = _
    rw [exec_rebuildEdges]
    exact ih _

/-- applying a valid list of calls to a state related to the reference: no panic, and the result is related to
    the reference after the same calls -/
theorem applyOps_rel (ops : List (Op L D)) : ∀ (g : G L D) (r : R L D), Rel g r → Valid g.n (cap g) r ops →
    ∃ g', applyOps g ops = some g' ∧ Rel g' (R.exec (cap g) r ops) ∧ cap g' = cap g ∧ g'.n = g.n := by
  induction ops with
  | nil => intro g r h _; exact ⟨g, rfl, h, rfl, rfl⟩
  | cons op ops ih =>
    intro g r h hv
    obtain ⟨ok, hrest⟩ := hv
    obtain ⟨g1, hs, hr, hc, hn⟩ := rel_step g r op h ok
    obtain ⟨g', ha, hr', hc', hn'⟩ := ih g1 _ hr (by rw [hc, hn]; exact hrest)
    refine ⟨g', by simp [applyOps, hs, ha], ?_, hc'.trans hc, hn'.trans hn⟩
    rw [hc] at hr'
    exact hr'

/-- **C13**: for a source graph whose stored edges point below the capacity, with distinct labels per vertex and
    no self-loops, if `slice_some(v, p)` returns a graph `g'` and the rebuild stays within the limits, then
    (1) the present vertices of `g'` are exactly the vertices reachable from `v` along edges accepted by `p`, under
    their original ids — whatever order the hash set is drained in —, and (2) every kept vertex has exactly the
    source's edges into kept vertices, in the source's order: every accepted edge between kept vertices is there,
    and no edge the source lacks. -/
theorem slice_exact (g g' : G L D) (v : Nat) (p : Nat → Nat → L → Bool)
    (hE : EdgesBelow g) (hsrc : SrcOK (fun u => edg g u)) (done : List Nat) (hd : sliceDone g v p = some done)
    (hs : sliceSome g v p = some g')
    (hvalid : Valid g.n (cap g) (R.empty : R L D)
      (rebuildOps (fun u => edg g u) (fun u => decide (u ∈ done)) (keptIds g done))) :
    (∀ u, u ∈ keys g' ↔ Sl.Reach (fun u => edg g u) p v u) ∧
    (∀ x ∈ keys g', edg g' x = (edg g x).filter (fun e => decide (e.2 ∈ done))) ∧
    (∀ u, u ∈ done ↔ Sl.Reach (fun u => edg g u) p v u) := by
  have hreach : ∀ u, u ∈ done ↔ Sl.Reach (fun u => edg g u) p v u :=
    Sl.slice_done_eq_reach (fun u => edg g u) p v id (fun _ _ => Iff.rfl) (cap g + 1) done hd
  unfold sliceSome at hs
  split at hs
  next hv =>
    rw [hd] at hs
    simp only at hs
    -- every reachable vertex is below the capacity
    have hlt : ∀ u, u ∈ done → u < cap g := by
      intro u hu
      have hr := (hreach u).1 hu
      induction hr with
      | refl => exact hv
      | step _ he _ _ => exact hE _ _ he
    have hrel0 : Rel (empty g.n (cap g) : G L D) R.empty := rel_empty g.n (cap g)
    have hcap0 : cap (empty g.n (cap g) : G L D) = cap g := by simp [empty, cap]
    obtain ⟨g1, ha, hr1, hc1, _⟩ := applyOps_rel _ (empty g.n (cap g) : G L D) R.empty hrel0
      (by rw [hcap0]; simpa [empty] using hvalid)
    rw [ha] at hs
    cases hs
    rw [hcap0, exec_rebuildOps] at hr1
    -- the reference-level statement
    have hxs_nd : (keptIds g done).Nodup := by
      unfold keptIds; exact List.filter_sublist.nodup List.nodup_range
    have hall : ∀ u, (decide (u ∈ done)) = true ↔ u ∈ keptIds g done := by
      intro u
      simp only [keptIds, List.mem_filter, List.mem_range, decide_eq_true_eq]
      exact ⟨fun h => ⟨hlt u h, h⟩, fun h => h.2⟩
    have hclosed : ∀ x ∈ keptIds g done, ∀ q ∈ edg g x, decide (q.2 ∈ done) = true → q.2 ∈ keptIds g done :=
      fun x _ q _ hk => (hall q.2).1 hk
    obtain ⟨f1, f2⟩ := slice_rebuild (fun u => edg g u) (fun u => decide (u ∈ done)) hsrc (keptIds g done)
      hxs_nd hall hclosed (D := D)
    have hkeys : ∀ u, u ∈ keys g' ↔ u ∈ keptIds g done := by
      intro u
      simp only [keys, List.mem_filter, List.mem_range, decide_eq_true_eq]
      rw [← f1 u]
      exact (hr1.alive u).symm
    refine ⟨?_, ?_, hreach⟩
    · intro u
      rw [hkeys u, ← hall u]
      simp only [decide_eq_true_eq]
      exact hreach u
    · intro x hx
      have hx' := (hkeys x).1 hx
      rw [hr1.edges x ((f1 x).2 hx')]
      exact f2 x hx'
  · cases hs

end Sodg
