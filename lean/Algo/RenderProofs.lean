import Algo.RenderSodg
/-! Theorems about the export documents (C18) and about `inspect` (C20) on the concrete model. -/
namespace Rs
open Sodg

theorem labelOrder_strict : Rd.StrictTotal LO.lt := ⟨LO.lt_irrefl, LO.lt_trans, LO.lt_total⟩

/-! ### C18 -/

/-- every node of the document is a present slot with its edges sorted and its data -/
theorem docFrom_node {L D : Type} (lt : L → L → Bool) (i : Nat) (slots : List (Rd.Slot L D)) (n : Rd.VNode L D)
    (h : n ∈ Rd.docFrom lt i slots) :
    ∃ j s, slots[j]? = some s ∧ s.present = true ∧ n.id = i + j ∧ n.edges = Rd.sortEdges lt s.edges ∧ n.data = s.data := by
  induction slots generalizing i with
  | nil => simp [Rd.docFrom] at h
  | cons s ss ih =>
    simp only [Rd.docFrom, List.mem_append] at h
    rcases h with h | h
    · cases hs : s.present with
      | false => simp [hs] at h
      | true =>
        simp [hs] at h
        subst h
        exact ⟨0, s, by simp, hs, by simp, rfl, rfl⟩
    · obtain ⟨j, s', h1, h2, h3, h4, h5⟩ := ih (i + 1) h
      exact ⟨j + 1, s', by simpa using h1, h2, by omega, h4, h5⟩

theorem slotsOf_get (g : G Label Hex) (j : Nat) (hj : j < cap g) :
    (slotsOf g)[j]? = some ⟨tag g j != 0, edg g j, dataOf g.vs[j]!⟩ := by
  simp only [slotsOf, cap] at *
  simp [List.getElem?_map, tag, edg, hj]

theorem slotsOf_length (g : G Label Hex) : (slotsOf g).length = cap g := by simp [slotsOf, cap]

/-- **one node per present vertex and none for absent ids** -/
theorem export_ids (g : G Label Hex) (n : Nat) :
    n ∈ (exportDoc g).map (·.id) ↔ (n < cap g ∧ tag g n ≠ 0) := by
  unfold exportDoc Rd.doc
  rw [Rd.doc_ids_mem]
  constructor
  · rintro ⟨j, rfl, hj⟩
    have hlt : j < cap g := by
      cases hs : (slotsOf g)[j]? with
      | none => rw [hs] at hj; simp at hj
      | some s => rw [← slotsOf_length]; exact (List.getElem?_eq_some_iff.1 hs).1
    rw [slotsOf_get g j hlt] at hj
    simp at hj
    exact ⟨by omega, by simpa using hj⟩
  · rintro ⟨hlt, ht⟩
    refine ⟨n, by omega, ?_⟩
    rw [slotsOf_get g n hlt]; simp [ht]

/-- **vertices appear in ascending id order** -/
theorem export_sorted (g : G Label Hex) : ((exportDoc g).map (·.id)).Pairwise (· < ·) :=
  (Rd.doc_ids_sorted LO.lt 0 (slotsOf g)).1

/-- **one edge entry per edge, with its label and target, and the data of a vertex that has data**: the node of a
    present vertex carries a permutation (the label-sorted one) of the stored edges and exactly its data -/
theorem export_node (g : G Label Hex) (n : Rd.VNode Label (List UInt8)) (h : n ∈ exportDoc g) :
    n.id < cap g ∧ tag g n.id ≠ 0 ∧ n.edges.Perm (edg g n.id) ∧ n.data = dataOf g.vs[n.id]! := by
  obtain ⟨j, s, h1, h2, h3, h4, h5⟩ := docFrom_node LO.lt 0 (slotsOf g) n h
  have hlt : j < cap g := by rw [← slotsOf_length]; exact (List.getElem?_eq_some_iff.1 h1).1
  rw [slotsOf_get g j hlt] at h1
  cases h1
  simp only [Nat.zero_add] at h3
  subst h3
  refine ⟨hlt, by simpa using h2, ?_, h5⟩
  rw [h4]; exact List.mergeSort_perm _ _

/-- **same content, same text**: two graphs of the same capacity whose slots agree in presence, edge sets and
    data yield the same XML and the same DOT text, whatever the order in which the edges were bound -/
theorem same_content_same_text (g1 g2 : G Label Hex) (h : Rd.SameContent (slotsOf g1) (slotsOf g2)) :
    toXml g1 = toXml g2 ∧ toDot g1 = toDot g2 := by
  have := Rd.doc_same_content LO.lt labelOrder_strict _ _ h
  unfold toXml toDot exportDoc
  rw [this]; exact ⟨rfl, rfl⟩

/-! ### C20: Debug and v_print -/

/-- `Debug`/`Display` list exactly the present vertices, each with all its edges (stored order) and its data -/
theorem debug_exact (g : G Label Hex) :
    (debugDoc g).map (·.id) = keys g ∧
    ∀ n ∈ debugDoc g, n.edges = edg g n.id ∧ n.data = dataOf g.vs[n.id]! := by
  constructor
  · simp [debugDoc, keys, List.map_map, Function.comp_def]
  · intro n hn
    simp only [debugDoc, List.mem_map] at hn
    obtain ⟨v, _, rfl⟩ := hn
    exact ⟨rfl, rfl⟩

/-- `v_print` shows the marker exactly when the vertex has data, and lists exactly its labels -/
theorem vprint_exact (g : G Label Hex) (v : Nat) (hv : v < cap g) :
    vPrint g v = some (s!"ν{v}⟦" ++ (if pers g v = .empty then "" else "Δ, ") ++
      ", ".intercalate ((edg g v).map (fun e => labelText e.1)) ++ "⟧") := by
  simp [vPrint, hv]

/-! ### C20: inspect -/

/-- the edge relation `inspect` walks: stored edges in label order, labels forgotten -/
def E' (g : G Label Hex) : D.Edges := fun u => (sortedEdges g u).map (fun e => (0, e.2))

/-- the vertices a text expands: the targets of the lines without the ellipsis, in order -/
def nonEll (ls : List Line) : List Nat := (ls.filter (fun l => !l.ellipsis)).map (·.target)

theorem nonEll_cons_true (d a w) (ls : List Line) : nonEll (⟨d, a, w, true⟩ :: ls) = nonEll ls := by simp [nonEll]
theorem nonEll_cons_false (d a w) (ls : List Line) : nonEll (⟨d, a, w, false⟩ :: ls) = w :: nonEll ls := by simp [nonEll]
theorem nonEll_append (a b : List Line) : nonEll (a ++ b) = nonEll a ++ nonEll b := by simp [nonEll]

/-- the line-producing recursion projects onto the abstract seen-set recursion of `Algo/Dfs.lean` -/
theorem project (g : G Label Hex) : ∀ fuel,
    (∀ d v seen, D.expand (E' g) fuel v seen = (expandL g fuel d v seen).map (fun x => (v :: nonEll x.1, x.2))) ∧
    (∀ d es seen, D.kidsLoop (E' g) fuel (es.map (fun e => (0, e.2))) seen =
      (loopL g fuel d es seen).map (fun x => (nonEll x.1, x.2))) := by
  intro fuel
  induction fuel with
  | zero =>
    refine ⟨fun d v seen => by simp [D.expand, expandL], ?_⟩
    intro d es
    induction es with
    | nil => intro seen; simp [D.kidsLoop, loopL, nonEll]
    | cons e rest ih =>
      intro seen
      obtain ⟨a, w⟩ := e
      simp only [List.map_cons, D.kidsLoop, loopL]
      split
      · rw [ih seen]
        cases loopL g 0 d rest seen with
        | none => rfl
        | some x => simp [nonEll_cons_true]
      · simp [D.expand, expandL]
  | succ fuel ihf =>
    have hloop : ∀ d es seen, D.kidsLoop (E' g) (fuel + 1) (es.map (fun e => (0, e.2))) seen =
        (loopL g (fuel + 1) d es seen).map (fun x => (nonEll x.1, x.2)) := by
      intro d es
      induction es with
      | nil => intro seen; simp [D.kidsLoop, loopL, nonEll]
      | cons e rest ih =>
        intro seen
        obtain ⟨a, w⟩ := e
        simp only [List.map_cons, D.kidsLoop, loopL]
        split
        · rw [ih seen]
          cases loopL g (fuel + 1) d rest seen with
          | none => rfl
          | some x => simp [nonEll_cons_true]
        · -- expand at fuel+1 unfolds to the loop at fuel
          have he : D.expand (E' g) (fuel + 1) w (w :: seen) =
              (expandL g (fuel + 1) (d + 1) w (w :: seen)).map (fun x => (w :: nonEll x.1, x.2)) := by
            simp only [D.expand, expandL, E']
            rw [ihf.2 (d + 1) (sortedEdges g w) (w :: seen)]
            cases loopL g fuel (d + 1) (sortedEdges g w) (w :: seen) with
            | none => rfl
            | some x => rfl
          rw [he]
          cases hx : expandL g (fuel + 1) (d + 1) w (w :: seen) with
          | none => rfl
          | some x =>
            obtain ⟨ls1, seen1⟩ := x
            simp only [Option.map_some]
            rw [ih seen1]
            cases loopL g (fuel + 1) d rest seen1 with
            | none => rfl
            | some y => simp [nonEll_cons_false, nonEll_append]
    refine ⟨?_, hloop⟩
    intro d v seen
    simp only [D.expand, expandL, E']
    rw [ihf.2 d (sortedEdges g v) seen]
    cases loopL g fuel d (sortedEdges g v) seen with
    | none => rfl
    | some x => rfl

/-- **C20, inspect**: the vertices whose edges are listed — the start vertex and the targets of the lines without
    ellipsis — are pairwise distinct and are exactly the vertices reachable from `v` along stored edges -/
theorem inspect_expands_reachable_once (g : G Label Hex) (v : Nat) (ls : List Line) (h : inspectLines g v = some ls) :
    (v :: nonEll ls).Nodup ∧ ∀ u, u ∈ v :: nonEll ls ↔ D.Reach (E' g) v u := by
  apply D.inspect_exact (E' g) (cap g + 1) v
  unfold D.inspect inspectLines at *
  rw [(project g (cap g + 1)).1 0 v [v]]
  cases hx : expandL g (cap g + 1) 0 v [v] with
  | none => rw [hx] at h; cases h
  | some x => rw [hx] at h; simp at h; simp [h]

/-- the lines of a walk are, up to order, one line per edge of every expanded vertex: the edge entries of the
    text are a permutation of the concatenated (sorted) edge lists of the expanded vertices -/
theorem lines_perm (g : G Label Hex) : ∀ fuel,
    (∀ d v seen ls s', expandL g fuel d v seen = some (ls, s') →
      (ls.map (fun l => (l.label, l.target))).Perm ((v :: nonEll ls).flatMap (sortedEdges g))) ∧
    (∀ d es seen ls s', loopL g fuel d es seen = some (ls, s') →
      (ls.map (fun l => (l.label, l.target))).Perm (es ++ (nonEll ls).flatMap (sortedEdges g))) := by
  intro fuel
  induction fuel with
  | zero =>
    refine ⟨fun d v seen ls s' h => by simp [expandL] at h, ?_⟩
    intro d es
    induction es with
    | nil => intro seen ls s' h; simp [loopL] at h; obtain ⟨rfl, _⟩ := h; simp [nonEll]
    | cons e rest ih =>
      intro seen ls s' h
      obtain ⟨a, w⟩ := e
      simp only [loopL] at h
      split at h
      · cases hx : loopL g 0 d rest seen with
        | none => rw [hx] at h; cases h
        | some x =>
          obtain ⟨ls0, s0⟩ := x
          rw [hx] at h; simp at h; obtain ⟨rfl, rfl⟩ := h
          simp only [List.map_cons, nonEll_cons_true, List.cons_append]
          exact List.Perm.cons _ (ih seen ls0 s0 hx)
      · simp [expandL] at h
  | succ fuel ihf =>
    have hloop : ∀ d es seen ls s', loopL g (fuel + 1) d es seen = some (ls, s') →
        (ls.map (fun l => (l.label, l.target))).Perm (es ++ (nonEll ls).flatMap (sortedEdges g)) := by
      intro d es
      induction es with
      | nil => intro seen ls s' h; simp [loopL] at h; obtain ⟨rfl, _⟩ := h; simp [nonEll]
      | cons e rest ih =>
        intro seen ls s' h
        obtain ⟨a, w⟩ := e
        simp only [loopL] at h
        split at h
        · cases hx : loopL g (fuel + 1) d rest seen with
          | none => rw [hx] at h; cases h
          | some x =>
            obtain ⟨ls0, s0⟩ := x
            rw [hx] at h; simp at h; obtain ⟨rfl, rfl⟩ := h
            simp only [List.map_cons, nonEll_cons_true, List.cons_append]
            exact List.Perm.cons _ (ih seen ls0 s0 hx)
        · cases hx : expandL g (fuel + 1) (d + 1) w (w :: seen) with
          | none => rw [hx] at h; cases h
          | some x =>
            obtain ⟨ls1, seen1⟩ := x
            rw [hx] at h
            simp only at h
            cases hy : loopL g (fuel + 1) d rest seen1 with
            | none => rw [hy] at h; cases h
            | some y =>
              obtain ⟨ls2, seen2⟩ := y
              rw [hy] at h; simp at h; obtain ⟨rfl, rfl⟩ := h
              have p1 : (ls1.map (fun l => (l.label, l.target))).Perm ((w :: nonEll ls1).flatMap (sortedEdges g)) := by
                simp only [expandL] at hx
                have := ihf.2 (d + 1) (sortedEdges g w) (w :: seen) ls1 seen1 hx
                simpa [List.flatMap_cons] using this
              have p2 := ih seen1 ls2 seen2 hy
              simp only [List.map_cons, List.map_append, nonEll_cons_false, nonEll_append, List.cons_append,
                List.flatMap_cons, List.flatMap_append]
              apply List.Perm.cons
              -- ls1 ++ ls2 ~ rest ++ (sorted w ++ sub1 ++ sub2)
              have p1' : (ls1.map (fun l => (l.label, l.target))).Perm (sortedEdges g w ++ (nonEll ls1).flatMap (sortedEdges g)) := by
                simpa [List.flatMap_cons] using p1
              refine (List.Perm.append p1' p2).trans ?_
              -- (A ++ B) ++ (R ++ C) ~ R ++ (A ++ (B ++ C))
              generalize sortedEdges g w = A
              generalize (nonEll ls1).flatMap (sortedEdges g) = B
              generalize (nonEll ls2).flatMap (sortedEdges g) = C
              have : ((A ++ B) ++ (rest ++ C)).Perm (rest ++ ((A ++ B) ++ C)) := by
                rw [← List.append_assoc, ← List.append_assoc]
                exact List.Perm.append_right C List.perm_append_comm
              simpa [List.append_assoc] using this
    refine ⟨?_, hloop⟩
    intro d v seen ls s' h
    simp only [expandL] at h
    have := ihf.2 d (sortedEdges g v) seen ls s' h
    simpa [List.flatMap_cons] using this

/-- **C20, inspect, exactly once**: the edge entries of `inspect(v)` are, as a multiset, exactly the edges of the
    vertices reachable from `v`, each vertex contributing each of its edges once -/
theorem inspect_lists_every_edge_once (g : G Label Hex) (v : Nat) (ls : List Line) (h : inspectLines g v = some ls) :
    (ls.map (fun l => (l.label, l.target))).Perm ((v :: nonEll ls).flatMap (fun u => edg g u)) := by
  unfold inspectLines at h
  cases hx : expandL g (cap g + 1) 0 v [v] with
  | none => rw [hx] at h; cases h
  | some x =>
    obtain ⟨ls0, s0⟩ := x
    rw [hx] at h; simp at h; subst h
    refine ((lines_perm g (cap g + 1)).1 0 v [v] ls0 s0 hx).trans ?_
    -- sorting each edge list is a permutation of it
    generalize (v :: nonEll ls0) = us
    induction us with
    | nil => simp
    | cons u us ih =>
      simp only [List.flatMap_cons]
      exact List.Perm.append (List.mergeSort_perm _ _) ih

/-- **C20, termination**: with every stored edge target below the capacity, `inspect` never runs out of fuel -/
theorem inspect_terminates (g : G Label Hex) (v : Nat) (hv : v < cap g)
    (hE : ∀ u, ∀ e ∈ edg g u, e.2 < cap g) : (inspectLines g v).isSome := by
  have hE' : ∀ u p, p ∈ E' g u → p.2 < cap g := by
    intro u p hp
    simp only [E', List.mem_map] at hp
    obtain ⟨e, he, rfl⟩ := hp
    have : e ∈ edg g u := (List.mergeSort_perm _ _).mem_iff.1 he
    exact hE u e this
  have := D.inspect_terminates (E' g) (cap g) v hv hE'
  unfold D.inspect at this
  rw [(project g (cap g + 1)).1 0 v [v]] at this
  unfold inspectLines
  cases hx : expandL g (cap g + 1) 0 v [v] with
  | none => rw [hx] at this; cases this
  | some x => rfl

end Rs

namespace Rs
open Sodg

/-- absent slots at the end of the vertex store contribute nothing to the document -/
theorem docFrom_append_absent {L D : Type} (lt : L → L → Bool) (i : Nat) (slots extra : List (Rd.Slot L D))
    (h : ∀ s ∈ extra, s.present = false) : Rd.docFrom lt i (slots ++ extra) = Rd.docFrom lt i slots := by
  induction slots generalizing i with
  | nil =>
    simp only [List.nil_append]
    induction extra generalizing i with
    | nil => rfl
    | cons e es ih =>
      simp only [Rd.docFrom, h e (by simp), Bool.false_eq_true, if_false, List.nil_append]
      exact ih (fun s hs => h s (List.mem_cons_of_mem _ hs)) (i + 1)
  | cons s ss ih => simp only [List.cons_append, Rd.docFrom, ih (i + 1)]

/-- **same content, same text — whatever the capacities**: if the slots of `g1` are, up to their content, a prefix
    of the slots of `g2` and the remaining slots of `g2` are absent (a graph with a larger capacity holding the
    same present vertices, edge sets and data), both exports give the same texts -/
theorem same_content_same_text_caps (g1 g2 : G Label Hex) (pre extra : List (Rd.Slot Label (List UInt8)))
    (h2 : slotsOf g2 = pre ++ extra) (hc : Rd.SameContent (slotsOf g1) pre) (he : ∀ s ∈ extra, s.present = false) :
    toXml g1 = toXml g2 ∧ toDot g1 = toDot g2 := by
  have e1 := Rd.doc_same_content LO.lt labelOrder_strict _ _ hc
  have e2 : exportDoc g2 = Rd.doc LO.lt pre := by
    unfold exportDoc Rd.doc; rw [h2]; exact docFrom_append_absent LO.lt 0 pre extra he
  unfold toXml toDot
  rw [e2]; unfold exportDoc; rw [e1]; exact ⟨rfl, rfl⟩

end Rs
