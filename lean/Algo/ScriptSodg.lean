import Core
import Pure
import Algo.Deploy
set_option linter.unusedSectionVars false
/-! `Script::deploy_to` on the model (Appendix A.5 of DESIGN.md): comment stripping, splitting, trimming, the LINE
    recogniser, argument parsing with the variable table, and the calls — statement by statement, so that an `Err`
    in the middle of a command leaves exactly the effects the real code leaves (a `$variable` resolved before the
    failing argument has already taken its `next_id`). -/
namespace Ss
open Sodg S

abbrev Label := Lb.Label
abbrev Hex := Hx.Hex

/-- `char::is_whitespace` (Unicode White_Space) -/
def isWs (c : Char) : Bool :=
  let n := c.toNat
  (9 ≤ n && n ≤ 13) || n == 32 || n == 0x85 || n == 0xA0 || n == 0x1680 || (0x2000 ≤ n && n ≤ 0x200A) ||
    n == 0x2028 || n == 0x2029 || n == 0x202F || n == 0x205F || n == 0x3000

/-- a vertex argument: `$name`, `ν<usize>` or `<usize>`; the empty text is an error -/
def pV : List Char → Option VTok
  | [] => none
  | '$' :: r => some (.var r)
  | 'ν' :: r => (Lb.parseUsize r).map .lit
  | s => (Lb.parseUsize s).map .lit

def pL : List Char → Option Label := Lb.parse

/-- `parse_data`, then `Hex::from_vec` -/
def pD (s : List Char) : Option Hex := (HD.parseData s).map Hx.Hex.ofBytes

structure SState where
  g : G Label Hex
  vars : List (List Char × Nat) := []

inductive Res | ok | err | panic
deriving DecidableEq, Repr

def varLookup (vars : List (List Char × Nat)) (name : List Char) : Option Nat :=
  (vars.find? (fun e => e.1 = name)).map (·.2)

/-- `Script::parse` once the token is classified: a literal is itself, a variable is looked up or takes `next_id()` -/
def resolveVT (v : VTok) (s : SState) : SState × Res × Nat :=
  match v with
  | .lit n => (s, .ok, n)
  | .var name =>
    match varLookup s.vars name with
    | some id => (s, .ok, id)
    | none =>
      match nextId s.g with
      | none => (s, .panic, 0)
      | some (g', id) => ({ g := g', vars := (name, id) :: s.vars }, .ok, id)

def callAdd (s : SState) (v : Nat) : SState × Res :=
  match add s.g v with
  | some g' => ({ s with g := g' }, .ok)
  | none => (s, .panic)

def callBind (s : SState) (v1 v2 : Nat) (l : Label) : SState × Res :=
  match bind s.g v1 v2 l with
  | some g' => ({ s with g := g' }, .ok)
  | none => (s, .panic)

def callPut (s : SState) (v : Nat) (d : Hex) : SState × Res :=
  match put s.g v d with
  | some g' => ({ s with g := g' }, .ok)
  | none => (s, .panic)

/-- what a parsed command does: resolve the vertex tokens left to right, then the call -/
def execA (c : ACmd Label Hex) (s : SState) : SState × Res :=
  match c with
  | .add v =>
    match resolveVT v s with
    | (s1, .ok, i) => callAdd s1 i
    | (s1, r, _) => (s1, r)
  | .bind v1 v2 l =>
    match resolveVT v1 s with
    | (s1, .ok, i1) =>
      match resolveVT v2 s1 with
      | (s2, .ok, i2) => callBind s2 i1 i2 l
      | (s2, r, _) => (s2, r)
    | (s1, r, _) => (s1, r)
  | .put v d =>
    match resolveVT v s with
    | (s1, .ok, i) => callPut s1 i d
    | (s1, r, _) => (s1, r)

/-- `deploy_one`, literally: every argument is fetched, parsed and resolved in the order of the Rust code -/
def deployCmd (cmd : List Char) (s : SState) : SState × Res :=
  match parseLine cmd with
  | none => (s, .err)
  | some (name, inner) =>
    let as := args isWs inner
    if name = nADD then
      match as[0]? with
      | none => (s, .err)
      | some t0 => match pV t0 with
        | none => (s, .err)
        | some v => match resolveVT v s with
          | (s1, .ok, i) => callAdd s1 i
          | (s1, r, _) => (s1, r)
    else if name = nBIND then
      match as[0]? with
      | none => (s, .err)
      | some t0 => match pV t0 with
        | none => (s, .err)
        | some v1 => match resolveVT v1 s with
          | (s1, .ok, i1) =>
            match as[1]? with
            | none => (s1, .err)
            | some t1 => match pV t1 with
              | none => (s1, .err)
              | some v2 => match resolveVT v2 s1 with
                | (s2, .ok, i2) =>
                  match as[2]? with
                  | none => (s2, .err)
                  | some t2 => match pL t2 with
                    | none => (s2, .err)
                    | some l => callBind s2 i1 i2 l
                | (s2, r, _) => (s2, r)
          | (s1, r, _) => (s1, r)
    else if name = nPUT then
      match as[0]? with
      | none => (s, .err)
      | some t0 => match pV t0 with
        | none => (s, .err)
        | some v => match resolveVT v s with
          | (s1, .ok, i) =>
            match as[1]? with
            | none => (s1, .err)
            | some t1 => match pD t1 with
              | none => (s1, .err)
              | some d => callPut s1 i d
          | (s1, r, _) => (s1, r)
    else (s, .err)

/-- run commands until one does not end with `ok`; returns the state, the outcome and the number completed -/
def runCmds {α : Type} (f : α → SState → SState × Res) : List α → SState → Nat → SState × Res × Nat
  | [], s, k => (s, .ok, k)
  | c :: cs, s, k =>
    match f c s with
    | (s1, .ok) => runCmds f cs s1 (k + 1)
    | (s1, r) => (s1, r, k)

/-- `Script::from_str(text).deploy_to(g)` -/
def deploy (text : List Char) (g : G Label Hex) : SState × Res × Nat :=
  runCmds deployCmd (commands isWs text) { g := g } 0

/-- the same program issued as direct API calls, in textual order, one `next_id()` per variable -/
def execProg (prog : List (ACmd Label Hex)) (g : G Label Hex) : SState × Res × Nat :=
  runCmds execA prog { g := g } 0

/-! ### theorems -/

/-- a command text that parses to `a` does exactly what `a` does -/
theorem deployCmd_of_parse (cmd : List Char) (a : ACmd Label Hex) (h : parseCmd isWs pV pL pD cmd = some a)
    (s : SState) : deployCmd cmd s = execA a s := by
  unfold parseCmd at h
  unfold deployCmd
  cases hl : parseLine cmd with
  | none => rw [hl] at h; cases h
  | some pr =>
    obtain ⟨name, inner⟩ := pr
    rw [hl] at h
    simp only at h ⊢
    by_cases h1 : name = nADD
    · simp only [h1, if_true] at h ⊢
      cases h0 : (args isWs inner)[0]? with
      | none => rw [h0] at h; simp at h
      | some t0 =>
        rw [h0] at h
        simp only [Option.bind_some] at h
        cases hv : pV t0 with
        | none => rw [hv] at h; simp at h
        | some v => rw [hv] at h; simp at h; subst h; simp only [hv, execA]
    · simp only [h1, if_false] at h ⊢
      by_cases h2 : name = nBIND
      · simp only [h2, if_true] at h ⊢
        cases h0 : (args isWs inner)[0]? with
        | none => rw [h0] at h; simp at h
        | some t0 =>
          rw [h0] at h
          simp only [Option.bind_some] at h
          cases hv1 : pV t0 with
          | none => rw [hv1] at h; simp at h
          | some v1 =>
            rw [hv1] at h
            simp only [Option.bind_some] at h
            cases h1' : (args isWs inner)[1]? with
            | none => rw [h1'] at h; simp at h
            | some t1 =>
              rw [h1'] at h
              simp only [Option.bind_some] at h
              cases hv2 : pV t1 with
              | none => rw [hv2] at h; simp at h
              | some v2 =>
                rw [hv2] at h
                simp only [Option.bind_some] at h
                cases h2' : (args isWs inner)[2]? with
                | none => rw [h2'] at h; simp at h
                | some t2 =>
                  rw [h2'] at h
                  simp only [Option.bind_some] at h
                  cases hl2 : pL t2 with
                  | none => rw [hl2] at h; simp at h
                  | some l =>
                    rw [hl2] at h; simp at h; subst h
                    simp only [hv1, execA]
                    rcases hr1 : resolveVT v1 s with ⟨s1, r1, i1⟩
                    cases r1 <;> simp only [hv2, h1']
                    rcases hr2 : resolveVT v2 s1 with ⟨s2, r2, i2⟩
                    cases r2 <;> simp only [h2', hl2]
      · simp only [h2, if_false] at h ⊢
        by_cases h3 : name = nPUT
        · simp only [h3, if_true] at h ⊢
          cases h0 : (args isWs inner)[0]? with
          | none => rw [h0] at h; simp at h
          | some t0 =>
            rw [h0] at h
            simp only [Option.bind_some] at h
            cases hv : pV t0 with
            | none => rw [hv] at h; simp at h
            | some v =>
              rw [hv] at h
              simp only [Option.bind_some] at h
              cases h1' : (args isWs inner)[1]? with
              | none => rw [h1'] at h; simp at h
              | some t1 =>
                rw [h1'] at h
                simp only [Option.bind_some] at h
                cases hd : pD t1 with
                | none => rw [hd] at h; simp at h
                | some d =>
                  rw [hd] at h; simp at h; subst h
                  simp only [hv, execA]
                  rcases hr1 : resolveVT v s with ⟨s1, r1, i1⟩
                  cases r1 <;> simp only [h1', hd]
        · simp [h3] at h

theorem runCmds_of_parse (cs : List (List Char)) (prog : List (ACmd Label Hex))
    (h : cs.map (parseCmd isWs pV pL pD) = prog.map some) : ∀ (s : SState) (k : Nat),
    runCmds deployCmd cs s k = runCmds execA prog s k := by
  induction cs generalizing prog with
  | nil =>
    intro s k
    cases prog with
    | nil => rfl
    | cons _ _ => simp at h
  | cons c cs ih =>
    intro s k
    cases prog with
    | nil => simp at h
    | cons a as =>
      simp only [List.map_cons, List.cons.injEq] at h
      simp only [runCmds, deployCmd_of_parse c a h.1 s]
      rcases execA a s with ⟨s1, r⟩
      cases r <;> simp only []
      exact ih as h.2 s1 (k + 1)

end Ss
