import Algo.SliceTotal
import Core.Holes
set_option linter.unusedSectionVars false
/-! # `slice_some` and the read-only views on a graph with removed slots

`slice_some` reads the slot of every vertex it reaches with `vertices.get(v).unwrap()`: a removed slot (Core/Holes.lean) among
the reached vertices is a panic; otherwise the removed slots play no part (the rebuild iterates `vertices.iter()`, which skips
them, over a store of the same capacity). The text exports iterate `vertices.iter()` as well: for them a removed slot is an
absent vertex (`blankHoles`). -/
namespace Sodg
variable {L D : Type} [DecidableEq L] [Inhabited D]

/-- `slice_some(v, p)` on a graph with removed slots; `none` = panic -/
def sliceSomeX (x : GX L D) (v : Nat) (p : Nat → Nat → L → Bool) : Option (G L D) :=
  if x.acc v then
    match sliceDone x.g v p with
    | none => none
    | some done => if done.any (fun u => x.holes.contains u) then none else sliceSome x.g v p
  else none

/-- with no removed slot this is `sliceSome` -/
theorem sliceSomeX_nohole (g : G L D) (v : Nat) (p : Nat → Nat → L → Bool) : sliceSomeX ⟨g, []⟩ v p = sliceSome g v p := by
  unfold sliceSomeX
  by_cases hv : v < cap g
  · simp only [GX.acc, hv, decide_true, List.contains_nil, Bool.not_false, Bool.and_self, if_true, List.any_eq_true,
      Bool.false_eq_true, and_false, exists_false, if_false]
    cases hd : sliceDone g v p with
    | none => unfold sliceSome; simp [hv, hd]
    | some done => rfl
  · have : (GX.mk g ([] : List Nat)).acc v = false := by simp [GX.acc, hv]
    rw [this]; unfold sliceSome; simp [hv]

/-- the graph it returns satisfies the memory-safety invariant -/
theorem ms_sliceSomeX (x : GX L D) (g' : G L D) (v : Nat) (p : Nat → Nat → L → Bool) (hc : 0 < cap x.g)
    (hs : sliceSomeX x v p = some g') : MS g' := by
  unfold sliceSomeX at hs
  split at hs
  · split at hs
    · cases hs
    · split at hs
      · cases hs
      · exact ms_sliceSome x.g g' v p hc hs
  · cases hs

/-- the graph as `vertices.iter()` shows it: a removed slot is not there -/
def blankHoles (x : GX L D) : G L D := x.holes.foldl (fun g h => setTag g h 0) x.g

end Sodg
