import Algo.SliceTotal
import Core.Holes
set_option linter.unusedSectionVars false
/-! # `slice_some` and the read-only views on a graph with removed slots

`slice_some` reads the slot of every vertex it reaches with `vertices.get(v).unwrap()`: a removed slot (Core/Holes.lean) among
the reached vertices is a panic; otherwise the removed slots play no part (the rebuild iterates `vertices.iter()`, which skips
them, over a store of the same capacity). The text exports iterate `vertices.iter()` as well: for them a removed slot is an
absent vertex (`blankHoles`). -/
namespace Sodg
variable {L D : Type} [DecidableEq L] [Inhabited D]

/-- `slice_some(v, p)` on a graph with removed slots; `none` = panic -/
def sliceSomeX (x : GX L D) (v : Nat) (p : Nat → Nat → L → Bool) : Option (G L D) :=
  if x.acc v then
    match sliceDone x.g v p with
    | none => none
    | some done => if done.any (fun u => x.holes.contains u) then none else sliceSome x.g v p
  else none

/-- with no removed slot this is `sliceSome` -/
theorem sliceSomeX_nohole (g : G L D) (v : Nat) (p : Nat → Nat → L → Bool) : sliceSomeX ⟨g, []⟩ v p = sliceSome g v p := by
  unfold sliceSomeX
  by_cases hv : v < cap g
  · simp only [GX.acc, hv, decide_true, List.contains_nil, Bool.not_false, Bool.and_self, if_true, List.any_eq_true,
      Bool.false_eq_true, and_false, exists_false, if_false]
    cases hd : sliceDone g v p with
    | none => unfold sliceSome; simp [hv, hd]
    | some done => rfl
  · have : (GX.mk g ([] : List Nat)).acc v = false := by simp [GX.acc, hv]
    rw [this]; unfold sliceSome; simp [hv]

/-- when no removed slot is among the vertices reached from `v`, the removed slots play no part: the slice is the slice
    of the underlying tables, so every statement of C13 about `sliceSome` holds for it -/
theorem sliceSomeX_eq (x : GX L D) (v : Nat) (p : Nat → Nat → L → Bool) (hv : x.acc v = true) (done : List Nat)
    (hd : sliceDone x.g v p = some done) (hh : ∀ u ∈ done, u ∉ x.holes) : sliceSomeX x v p = sliceSome x.g v p := by
  unfold sliceSomeX
  rw [if_pos hv, hd]
  have : done.any (fun u => x.holes.contains u) = false := by
    rw [List.any_eq_false]; intro u hu; simpa using hh u hu
  simp only [this, Bool.false_eq_true, if_false]

/-- and when one is, the call panics (`vertices.get(v).unwrap()`) -/
theorem sliceSomeX_panics (x : GX L D) (v : Nat) (p : Nat → Nat → L → Bool) (done : List Nat)
    (hd : sliceDone x.g v p = some done) (u : Nat) (hu : u ∈ done) (hh : u ∈ x.holes) : sliceSomeX x v p = none := by
  unfold sliceSomeX
  split
  · rw [hd]
    have : done.any (fun u => x.holes.contains u) = true := by
      rw [List.any_eq_true]; exact ⟨u, hu, by simpa using hh⟩
    simp only [this, if_true]
  · rfl

/-- the graph it returns satisfies the memory-safety invariant -/
theorem ms_sliceSomeX (x : GX L D) (g' : G L D) (v : Nat) (p : Nat → Nat → L → Bool) (hc : 0 < cap x.g)
    (hs : sliceSomeX x v p = some g') : MS g' := by
  unfold sliceSomeX at hs
  split at hs
  · split at hs
    · cases hs
    · split at hs
      · cases hs
      · exact ms_sliceSome x.g g' v p hc hs
  · cases hs

/-- the graph as `vertices.iter()` shows it: a removed slot is not there -/
def blankHoles (x : GX L D) : G L D := x.holes.foldl (fun g h => setTag g h 0) x.g

theorem blank_fold (hs : List Nat) : ∀ (g : G L D),
    cap (hs.foldl (fun g h => setTag g h 0) g) = cap g ∧
    (∀ w, w < cap g → tag (hs.foldl (fun g h => setTag g h 0) g) w = if w ∈ hs then 0 else tag g w) ∧
    (∀ w, edg (hs.foldl (fun g h => setTag g h 0) g) w = edg g w) ∧
    (∀ w, pers (hs.foldl (fun g h => setTag g h 0) g) w = pers g w) ∧
    (∀ w, dat (hs.foldl (fun g h => setTag g h 0) g) w = dat g w) := by
  induction hs with
  | nil => intro g; simp
  | cons h hs ih =>
    intro g
    simp only [List.foldl_cons]
    obtain ⟨c, t, e, p, d⟩ := ih (setTag g h 0)
    refine ⟨by rw [c]; simp, ?_, by intro w; rw [e]; simp, by intro w; rw [p]; simp, by intro w; rw [d]; simp⟩
    intro w hw
    rw [t w (by simpa using hw), tag_setTag]
    by_cases h1 : w ∈ hs
    · simp [h1]
    · by_cases h2 : h = w
      · subst h2; simp [h1, hw]
      · have : ¬ w = h := fun e => h2 e.symm
        simp [h1, h2, this]

/-- **what the exports see**: the present vertices of `blankHoles x` are exactly `keysX x` — the present vertices that were
    not removed — with their edges, data and read status untouched; so C18's and C20's statements about the exported
    document (one node per present vertex, ascending, its edges and data) hold for a graph with removed slots, read as
    statements about `keys()` of that graph -/
theorem keys_blankHoles (x : GX L D) : keys (blankHoles x) = keysX x := by
  obtain ⟨c, t, _⟩ := blank_fold x.holes x.g
  unfold keys keysX blankHoles
  rw [c]
  apply List.filter_congr
  intro w hw
  have hw' : w < cap x.g := by simpa using hw
  rw [t w hw']
  by_cases h : w ∈ x.holes <;> simp [h]

theorem view_blankHoles (x : GX L D) (w : Nat) :
    edg (blankHoles x) w = edg x.g w ∧ pers (blankHoles x) w = pers x.g w ∧ dat (blankHoles x) w = dat x.g w := by
  obtain ⟨_, _, e, p, d⟩ := blank_fold x.holes x.g
  exact ⟨e w, p w, d w⟩

end Sodg
