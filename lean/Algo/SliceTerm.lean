import Algo.Slice
/-! Termination of the work-list loop of `slice_some`: when every vertex it can touch is below `cap`, fuel
    `cap + 1` is never exhausted — every round with a non-empty work list adds at least one new vertex. -/
namespace Sl

variable {L : Type}

/-- how many ids below `cap` are in `done` -/
def cnt (cap : Nat) (done : List Nat) : Nat := ((List.range cap).filter (fun u => decide (u ∈ done))).length

theorem cnt_le (cap : Nat) (done : List Nat) : cnt cap done ≤ cap := by
  unfold cnt
  have := List.length_filter_le (fun u => decide (u ∈ done)) (List.range cap)
  simpa using this

theorem filter_length_mono (l : List Nat) (p q : Nat → Bool) (h : ∀ x ∈ l, p x = true → q x = true) :
    (l.filter p).length ≤ (l.filter q).length := by
  induction l with
  | nil => simp
  | cons x xs ih =>
    have ih' := ih (fun y hy => h y (List.mem_cons_of_mem _ hy))
    simp only [List.filter_cons]
    cases hp : p x with
    | false => simp only [Bool.false_eq_true, if_false]; split <;> simp <;> omega
    | true => simp [h x (by simp) hp]; omega

theorem filter_length_strict (l : List Nat) (p q : Nat → Bool) (h : ∀ x ∈ l, p x = true → q x = true)
    (t : Nat) (ht : t ∈ l) (hp : p t = false) (hq : q t = true) : (l.filter p).length < (l.filter q).length := by
  induction l with
  | nil => cases ht
  | cons x xs ih =>
    have hm := filter_length_mono xs p q (fun y hy => h y (List.mem_cons_of_mem _ hy))
    simp only [List.filter_cons]
    simp only [List.mem_cons] at ht
    rcases ht with rfl | ht
    · simp [hp, hq]; omega
    · have ih' := ih (fun y hy => h y (List.mem_cons_of_mem _ hy)) ht
      cases hpx : p x with
      | false => simp only [Bool.false_eq_true, if_false]; split <;> simp <;> omega
      | true => simp [h x (by simp) hpx]; omega

theorem cnt_mono (cap : Nat) (d d' : List Nat) (h : ∀ u ∈ d, u ∈ d') : cnt cap d ≤ cnt cap d' := by
  unfold cnt
  apply filter_length_mono
  intro x _ hx
  simp only [decide_eq_true_eq] at hx ⊢
  exact h x hx

theorem cnt_strict (cap : Nat) (d d' : List Nat) (h : ∀ u ∈ d, u ∈ d') (t : Nat) (ht : t < cap) (h1 : t ∉ d) (h2 : t ∈ d') :
    cnt cap d < cnt cap d' := by
  unfold cnt
  apply filter_length_strict _ _ _ _ t (by simp [ht]) (by simp [h1]) (by simp [h2])
  intro x _ hx
  simp only [decide_eq_true_eq] at hx ⊢
  exact h x hx

/-- inner loop: `done` only grows; what is added to `todo` was not in `done` before and is in `done` after -/
theorem scanEdges_grow (p : Pred L) (x : Nat) : ∀ (es : List (L × Nat)) (todo done : List Nat),
    let r := scanEdges p x es todo done
    (∀ u ∈ done, u ∈ r.2) ∧ (∀ u ∈ r.1, u ∈ todo ∨ (u ∉ done ∧ u ∈ r.2)) ∧
    (∀ u ∈ r.2, u ∈ done ∨ ∃ e ∈ es, e.2 = u) := by
  intro es
  induction es with
  | nil => intro todo done; exact ⟨fun _ h => h, fun _ h => Or.inl h, fun _ h => Or.inl h⟩
  | cons e es ih =>
    intro todo done
    obtain ⟨a, t⟩ := e
    simp only [scanEdges]
    split
    · obtain ⟨h1, h2, h3⟩ := ih todo done
      exact ⟨h1, h2, fun u hu => (h3 u hu).imp id (fun ⟨e, he, h⟩ => ⟨e, List.mem_cons_of_mem _ he, h⟩)⟩
    next hnd =>
      split
      · obtain ⟨h1, h2, h3⟩ := ih (t :: todo) (t :: done)
        refine ⟨fun u hu => h1 u (List.mem_cons_of_mem _ hu), ?_, ?_⟩
        · intro u hu
          rcases h2 u hu with h | ⟨h, h'⟩
          · simp only [List.mem_cons] at h
            rcases h with rfl | h
            · exact Or.inr ⟨hnd, h1 _ (by simp)⟩
            · exact Or.inl h
          · exact Or.inr ⟨fun hm => h (List.mem_cons_of_mem _ hm), h'⟩
        · intro u hu
          rcases h3 u hu with h | ⟨e, he, h⟩
          · simp only [List.mem_cons] at h
            rcases h with rfl | h
            · exact Or.inr ⟨(a, u), by simp, rfl⟩
            · exact Or.inl h
          · exact Or.inr ⟨e, List.mem_cons_of_mem _ he, h⟩
      · obtain ⟨h1, h2, h3⟩ := ih todo done
        exact ⟨h1, h2, fun u hu => (h3 u hu).imp id (fun ⟨e, he, h⟩ => ⟨e, List.mem_cons_of_mem _ he, h⟩)⟩

/-- one round -/
theorem scanAll_grow (E : Edges L) (p : Pred L) : ∀ (xs todo done : List Nat),
    let r := scanAll E p xs todo done
    (∀ u ∈ done, u ∈ r.2) ∧ (∀ u ∈ xs, u ∈ r.2) ∧ (∀ u ∈ r.1, u ∈ todo ∨ (u ∉ done ∧ u ∈ r.2)) ∧
    (∀ u ∈ r.2, u ∈ done ∨ u ∈ xs ∨ ∃ y ∈ xs, ∃ e ∈ E y, e.2 = u) := by
  intro xs
  induction xs with
  | nil => intro todo done; exact ⟨fun _ h => h, by simp, fun _ h => Or.inl h, fun _ h => Or.inl h⟩
  | cons x xs ih =>
    intro todo done
    simp only [scanAll]
    obtain ⟨a1, a2, a3⟩ := scanEdges_grow p x (E x) todo (x :: done)
    generalize scanEdges p x (E x) todo (x :: done) = r1 at a1 a2 a3
    obtain ⟨todo1, done1⟩ := r1
    obtain ⟨b1, b2, b3, b4⟩ := ih todo1 done1
    simp only at a1 a2 a3
    refine ⟨fun u hu => b1 u (a1 u (List.mem_cons_of_mem _ hu)), ?_, ?_, ?_⟩
    · intro u hu
      simp only [List.mem_cons] at hu
      rcases hu with rfl | hu
      · exact b1 _ (a1 _ (by simp))
      · exact b2 u hu
    · intro u hu
      rcases b3 u hu with h | ⟨h, h'⟩
      · rcases a2 u h with h2 | ⟨h2, h2'⟩
        · exact Or.inl h2
        · exact Or.inr ⟨fun hm => h2 (List.mem_cons_of_mem _ hm), b1 u h2'⟩
      · exact Or.inr ⟨fun hm => h (a1 u (List.mem_cons_of_mem _ hm)), h'⟩
    · intro u hu
      rcases b4 u hu with h | h | ⟨y, hy, e, he, h⟩
      · rcases a3 u h with h2 | ⟨e, he, h2⟩
        · simp only [List.mem_cons] at h2
          rcases h2 with rfl | h2
          · exact Or.inr (Or.inl (by simp))
          · exact Or.inl h2
        · exact Or.inr (Or.inr ⟨x, by simp, e, he, h2⟩)
      · exact Or.inr (Or.inl (List.mem_cons_of_mem _ h))
      · exact Or.inr (Or.inr ⟨y, List.mem_cons_of_mem _ hy, e, he, h⟩)

/-- **the loop terminates**: if all ids in play are below `cap` (the work list, `done`, and every edge target),
    the loop returns as soon as `cap + 1 ≤ fuel + cnt cap done`, or at once when the work list is empty -/
theorem loop_terminates (E : Edges L) (p : Pred L) (perm : List Nat → List Nat) (hperm : ∀ l x, x ∈ perm l ↔ x ∈ l)
    (cap : Nat) (hE : ∀ u, ∀ e ∈ E u, e.2 < cap) :
    ∀ fuel todo done, (∀ u ∈ todo, u < cap) → (∀ u ∈ done, u < cap) →
      (todo = [] ∨ (cap + 1 ≤ fuel + cnt cap done ∧ (∀ u ∈ todo, u ∈ done))
        ∨ (cap + 1 ≤ fuel ∧ done = [])) →
      (loop E p perm fuel todo done).isSome := by
  intro fuel
  induction fuel with
  | zero =>
    intro todo done _ _ h
    rcases h with rfl | ⟨h, _⟩ | ⟨h, _⟩
    · simp [loop]
    · have := cnt_le cap done; omega
    · omega
  | succ fuel ih =>
    intro todo done ht hd h
    cases todo with
    | nil => simp [loop]
    | cons t0 ts =>
      simp only [loop]
      obtain ⟨b1, b2, b3, b4⟩ := scanAll_grow E p (perm (t0 :: ts)) [] done
      generalize scanAll E p (perm (t0 :: ts)) [] done = r at b1 b2 b3 b4
      obtain ⟨todo', done'⟩ := r
      simp only at b1 b2 b3 b4
      have hperm' : ∀ u, u ∈ perm (t0 :: ts) ↔ u ∈ t0 :: ts := hperm _
      have hd' : ∀ u ∈ done', u < cap := by
        intro u hu
        rcases b4 u hu with h1 | h1 | ⟨y, _, e, he, h1⟩
        · exact hd u h1
        · exact ht u ((hperm' u).1 h1)
        · rw [← h1]; exact hE y e he
      have ht' : ∀ u ∈ todo', u < cap := by
        intro u hu
        rcases b3 u hu with h1 | ⟨_, h1⟩
        · cases h1
        · exact hd' u h1
      apply ih todo' done' ht' hd'
      cases htd : todo' with
      | nil => exact Or.inl rfl
      | cons t1 _ =>
        right; left
        have hsub : ∀ u ∈ todo', u ∈ done' := by
          intro u hu
          rcases b3 u hu with h1 | ⟨_, h1⟩
          · cases h1
          · exact h1
        rw [← htd]
        refine ⟨?_, hsub⟩
        -- some element of the new work list is new in `done`
        have ht1 : t1 ∈ todo' := by rw [htd]; simp
        have hfresh : t1 ∉ done ∧ t1 ∈ done' := by
          rcases b3 t1 ht1 with h1 | h1
          · cases h1
          · exact h1
        have hstrict := cnt_strict cap done done' b1 t1 (hd' t1 hfresh.2) hfresh.1 hfresh.2
        rcases h with h | ⟨h, _⟩ | ⟨h, he⟩
        · cases h
        · omega
        · omega

/-- `slice_some`'s closure from `[v]` with fuel `cap + 1` always returns -/
theorem slice_terminates (E : Edges L) (p : Pred L) (perm : List Nat → List Nat) (hperm : ∀ l x, x ∈ perm l ↔ x ∈ l)
    (cap v : Nat) (hv : v < cap) (hE : ∀ u, ∀ e ∈ E u, e.2 < cap) : (loop E p perm (cap + 1) [v] []).isSome :=
  loop_terminates E p perm hperm cap hE (cap + 1) [v] [] (by simp [hv]) (by simp) (Or.inr (Or.inr ⟨Nat.le_refl _, rfl⟩))

end Sl
