import Core
import Algo.Slice
set_option linter.unusedSectionVars false
/-! `slice_some` on the model: the work-list closure of `Algo/Slice.lean` over the stored edges, then the rebuild
    as a list of `add`/`bind` calls on a fresh graph of the same capacity (Appendix A.2 of DESIGN.md). -/
namespace Sodg

variable {L D : Type} [DecidableEq L] [Inhabited D]

/-- the calls of the second loop of `slice_some`, for the kept ids `xs` in ascending order -/
def rebuildOps (src : Nat → List (L × Nat)) (kept : Nat → Bool) (xs : List Nat) : List (Op L D) :=
  xs.flatMap (fun x => Op.add x :: ((src x).filter (fun e => kept e.2)).flatMap (fun e => [Op.add e.2, Op.bind x e.2 e.1]))

/-- apply calls, dropping the outputs; `none` = some call panicked -/
def applyOps (g : G L D) : List (Op L D) → Option (G L D)
  | [] => some g
  | op :: ops => match step g op with
    | none => none
    | some (g', _) => applyOps g' ops

/-- the closure: `none` only if the fuel runs out -/
def sliceDone (g : G L D) (v : Nat) (p : Nat → Nat → L → Bool) : Option (List Nat) :=
  Sl.loop (fun u => edg g u) p id (cap g + 1) [v] []

def keptIds (g : G L D) (done : List Nat) : List Nat := (List.range (cap g)).filter (fun u => decide (u ∈ done))

/-- `slice_some(v, p)`: `none` = panic (start id at or above the capacity, or a limit overrun in the rebuild) -/
def sliceSome (g : G L D) (v : Nat) (p : Nat → Nat → L → Bool) : Option (G L D) :=
  if v < cap g then
    match sliceDone g v p with
    | none => none
    | some done => applyOps (empty g.n (cap g)) (rebuildOps (fun u => edg g u) (fun u => decide (u ∈ done)) (keptIds g done))
  else none

end Sodg
