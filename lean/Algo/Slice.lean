/-! Feasibility probe for C13: the work-list loop of `slice_some` computes exactly the set reachable along accepted
    edges, whatever order `HashSet::drain` yields. Labels are Nat. -/
namespace Sl

variable {L : Type}

abbrev Edges (L : Type) := Nat → List (L × Nat)
abbrev Pred (L : Type) := Nat → Nat → L → Bool        -- p from to label

inductive Reach (E : Edges L) (p : Pred L) (v : Nat) : Nat → Prop
  | refl : Reach E p v v
  | step {u a w} : Reach E p v u → (a, w) ∈ E u → p u w a = true → Reach E p v w

/-- inner `for e in edges(x)` : returns (todo', done') -/
def scanEdges (p : Pred L) (x : Nat) : List (L × Nat) → List Nat → List Nat → List Nat × List Nat
  | [], todo, done => (todo, done)
  | (a, t) :: es, todo, done =>
    if t ∈ done then scanEdges p x es todo done
    else if p x t a then scanEdges p x es (t :: todo) (t :: done)
    else scanEdges p x es todo done

/-- `for v in before` -/
def scanAll (E : Edges L) (p : Pred L) : List Nat → List Nat → List Nat → List Nat × List Nat
  | [], todo, done => (todo, done)
  | x :: xs, todo, done =>
    let (todo1, done1) := scanEdges p x (E x) todo (x :: done)
    scanAll E p xs todo1 done1

/-- the outer `loop`; `perm` is the order in which `drain()` hands the elements out -/
def loop (E : Edges L) (p : Pred L) (perm : List Nat → List Nat) : Nat → List Nat → List Nat → Option (List Nat)
  | _, [], done => some done
  | 0, _ :: _, _ => none
  | fuel + 1, todo, done =>
    let (todo', done') := scanAll E p (perm todo) [] done
    loop E p perm fuel todo' done'

/-- invariant: `done ∪ pending ⊆ Reach`, and every vertex of `done` that is not pending has all its accepted
    successors in `done` -/
structure Inv (E : Edges L) (p : Pred L) (v : Nat) (pending done : List Nat) : Prop where
  sound : ∀ u, u ∈ done ∨ u ∈ pending → Reach E p v u
  closed : ∀ u ∈ done, u ∉ pending → ∀ a w, (a, w) ∈ E u → p u w a = true → w ∈ done

theorem scanEdges_spec (E : Edges L) (p : Pred L) (v x : Nat) (hx : Reach E p v x) :
    ∀ (es : List (L × Nat)) (todo done : List Nat), (∀ e ∈ es, e ∈ E x) →
      (∀ u, u ∈ done ∨ u ∈ todo → Reach E p v u) →
      let r := scanEdges p x es todo done
      (∀ u, u ∈ r.2 ∨ u ∈ r.1 → Reach E p v u) ∧
      (∀ u, u ∈ done → u ∈ r.2) ∧ (∀ u, u ∈ todo → u ∈ r.1) ∧
      (∀ u, u ∈ r.1 → u ∈ todo ∨ u ∈ r.2) ∧
      (∀ a w, (a, w) ∈ es → p x w a = true → w ∈ r.2) ∧
      (∀ u, u ∈ r.2 → u ∈ done ∨ u ∈ r.1) := by
  intro es
  induction es with
  | nil => intro todo done _ hs; exact ⟨hs, fun _ h => h, fun _ h => h, fun _ h => Or.inl h, by simp, fun _ h => Or.inl h⟩
  | cons e es ih =>
    intro todo done hes hs
    obtain ⟨a, t⟩ := e
    have hes' : ∀ e ∈ es, e ∈ E x := fun e he => hes e (List.mem_cons_of_mem _ he)
    simp only [scanEdges]
    split
    next ht =>
      obtain ⟨h1, h2, h3, h4, h5, h6⟩ := ih todo done hes' hs
      refine ⟨h1, h2, h3, h4, ?_, h6⟩
      intro a' w hm hp
      simp only [List.mem_cons, Prod.mk.injEq] at hm
      rcases hm with ⟨rfl, rfl⟩ | hm
      · exact h2 _ ht
      · exact h5 a' w hm hp
    next ht =>
      split
      next hp =>
        have hrt : Reach E p v t := Reach.step hx (hes (a, t) (by simp)) hp
        have hs' : ∀ u, u ∈ t :: done ∨ u ∈ t :: todo → Reach E p v u := by
          intro u hu
          simp only [List.mem_cons] at hu
          rcases hu with (rfl | hu) | (rfl | hu)
          · exact hrt
          · exact hs u (Or.inl hu)
          · exact hrt
          · exact hs u (Or.inr hu)
        obtain ⟨h1, h2, h3, h4, h5, h6⟩ := ih (t :: todo) (t :: done) hes' hs'
        refine ⟨h1, fun u hu => h2 u (List.mem_cons_of_mem _ hu), fun u hu => h3 u (List.mem_cons_of_mem _ hu), ?_, ?_, ?_⟩
        · intro u hu
          rcases h4 u hu with h | h
          · simp only [List.mem_cons] at h
            rcases h with rfl | h
            · exact Or.inr (h2 _ (by simp))
            · exact Or.inl h
          · exact Or.inr h
        · intro a' w hm hp'
          simp only [List.mem_cons, Prod.mk.injEq] at hm
          rcases hm with ⟨rfl, rfl⟩ | hm
          · exact h2 _ (by simp)
          · exact h5 a' w hm hp'
        · intro u hu
          rcases h6 u hu with h | h
          · simp only [List.mem_cons] at h
            rcases h with rfl | h
            · exact Or.inr (h3 _ (by simp))
            · exact Or.inl h
          · exact Or.inr h
      next hp =>
        obtain ⟨h1, h2, h3, h4, h5, h6⟩ := ih todo done hes' hs
        refine ⟨h1, h2, h3, h4, ?_, h6⟩
        intro a' w hm hp'
        simp only [List.mem_cons, Prod.mk.injEq] at hm
        rcases hm with ⟨rfl, rfl⟩ | hm
        · rw [hp'] at hp; exact absurd rfl hp
        · exact h5 a' w hm hp'

/-- one whole round: `xs` are the drained vertices still to be processed -/
theorem scanAll_spec (E : Edges L) (p : Pred L) (v : Nat) :
    ∀ (xs todo done : List Nat), Inv E p v (xs ++ todo) done → (∀ u ∈ todo, u ∈ done) →
      let r := scanAll E p xs todo done
      Inv E p v r.1 r.2 ∧ (∀ u ∈ r.1, u ∈ r.2) ∧ (∀ u, u ∈ done ∨ u ∈ xs → u ∈ r.2) := by
  intro xs
  induction xs with
  | nil => intro todo done hi ht; exact ⟨by simpa [scanAll] using hi, by simpa [scanAll] using ht, by simp [scanAll]⟩
  | cons x xs ih =>
    intro todo done hi ht
    simp only [scanAll]
    have hx : Reach E p v x := hi.sound x (Or.inr (by simp))
    have hs0 : ∀ u, u ∈ x :: done ∨ u ∈ todo → Reach E p v u := by
      intro u hu
      simp only [List.mem_cons] at hu
      rcases hu with (rfl | hu) | hu
      · exact hx
      · exact hi.sound u (Or.inl hu)
      · exact hi.sound u (Or.inr (by simp [hu]))
    obtain ⟨h1, h2, h3, h4, h5, h6⟩ := scanEdges_spec E p v x hx (E x) todo (x :: done) (fun _ h => h) hs0
    generalize scanEdges p x (E x) todo (x :: done) = r at h1 h2 h3 h4 h5 h6
    obtain ⟨todo1, done1⟩ := r
    simp only at h1 h2 h3 h4 h5 h6 ⊢
    have key : Inv E p v (xs ++ todo1) done1 ∧ (∀ u ∈ todo1, u ∈ done1) := by
      refine ⟨?_, ?_⟩
      rotate_left
      · intro u hu
        rcases h4 u hu with h | h
        · exact h2 u (List.mem_cons_of_mem _ (ht u h))
        · exact h
      · refine ⟨?_, ?_⟩
        · intro u hu
          rcases hu with hu | hu
          · exact h1 u (Or.inl hu)
          · simp only [List.mem_append] at hu
            rcases hu with hu | hu
            · exact hi.sound u (Or.inr (by simp [hu]))
            · exact h1 u (Or.inr hu)
        · intro u hu hnp a w he hp
          simp only [List.mem_append, not_or] at hnp
          by_cases hux : u = x
          · subst hux; exact h5 a w he hp
          · -- u was in `done` before, or was added in this scan (then it is in todo1: contradiction)
            by_cases hud : u ∈ done
            · have : u ∉ (x :: xs) ++ todo := by
                simp only [List.mem_append, List.mem_cons, not_or]
                exact ⟨⟨hux, hnp.1⟩, fun h => hnp.2 (h3 u h)⟩
              exact h2 w (List.mem_cons_of_mem _ (hi.closed u hud this a w he hp))
            · exfalso
              -- a vertex newly put into done1 (other than x) was also put into todo1
              rcases h6 u hu with h | h
              · simp only [List.mem_cons] at h
                rcases h with h | h
                · exact hux h
                · exact hud h
              · exact hnp.2 h
    obtain ⟨g1, g2, g3⟩ := ih todo1 done1 key.1 key.2
    refine ⟨g1, g2, ?_⟩
    intro u hu
    rcases hu with hu | hu
    · exact g3 u (Or.inl (h2 u (List.mem_cons_of_mem _ hu)))
    · simp only [List.mem_cons] at hu
      rcases hu with rfl | hu
      · exact g3 u (Or.inl (h2 u (by simp)))
      · exact g3 u (Or.inr hu)

/-- the whole loop -/
theorem loop_spec (E : Edges L) (p : Pred L) (v : Nat) (perm : List Nat → List Nat)
    (hperm : ∀ l x, x ∈ perm l ↔ x ∈ l) :
    ∀ fuel todo done res, Inv E p v todo done → (∀ u ∈ todo, u ∈ done ∨ (u = v ∧ done = [])) →
      loop E p perm fuel todo done = some res → Inv E p v [] res ∧ (∀ u, u ∈ done ∨ u ∈ todo → u ∈ res) := by
  intro fuel
  induction fuel with
  | zero =>
    intro todo done res hi _ h
    cases todo with
    | nil => simp [loop] at h; subst h; exact ⟨hi, by simp⟩
    | cons _ _ => simp [loop] at h
  | succ fuel ih =>
    intro todo done res hi ht h
    cases todo with
    | nil => simp [loop] at h; subst h; exact ⟨hi, by simp⟩
    | cons t ts =>
      simp only [loop] at h
      have hi' : Inv E p v (perm (t :: ts) ++ []) done := by
        refine ⟨?_, ?_⟩
        · intro u hu
          rcases hu with hu | hu
          · exact hi.sound u (Or.inl hu)
          · exact hi.sound u (Or.inr (by simpa [hperm] using hu))
        · intro u hu hnp
          exact hi.closed u hu (by simpa [hperm] using hnp)
      obtain ⟨h1, h2, h3⟩ := scanAll_spec E p v (perm (t :: ts)) [] done hi' (by simp)
      generalize scanAll E p (perm (t :: ts)) [] done = r at h h1 h2 h3
      obtain ⟨todo', done'⟩ := r
      obtain ⟨k1, k2⟩ := ih todo' done' res h1 (fun u hu => Or.inl (h2 u hu)) h
      refine ⟨k1, ?_⟩
      intro u hu
      apply k2 u; left
      rcases hu with hu | hu
      · exact h3 u (Or.inl hu)
      · exact h3 u (Or.inr (by simpa [hperm] using hu))

/-- **C13, closure, in miniature**: whatever the drain order, the result is exactly the set reachable along
    accepted edges. -/
theorem slice_done_eq_reach (E : Edges L) (p : Pred L) (v : Nat) (perm : List Nat → List Nat)
    (hperm : ∀ l x, x ∈ perm l ↔ x ∈ l) (fuel : Nat) (res : List Nat)
    (h : loop E p perm fuel [v] [] = some res) : ∀ u, u ∈ res ↔ Reach E p v u := by
  have h0 : Inv E p v [v] [] := ⟨by intro u hu; simp at hu; subst hu; exact Reach.refl, by simp⟩
  obtain ⟨hi, hg⟩ := loop_spec E p v perm hperm fuel [v] [] res h0 (by simp) h
  have hv : v ∈ res := hg v (Or.inr (by simp))
  intro u
  constructor
  · intro hu; exact hi.sound u (Or.inl hu)
  · intro hr
    induction hr with
    | refl => exact hv
    | step _ he hp ih => exact hi.closed _ ih (by simp) _ _ he hp

#print axioms slice_done_eq_reach
end Sl
