import Algo.SliceSodg
import Core.Total
set_option linter.unusedSectionVars false
/-! # A slice keeps every computed index in range (C07)

The graph `slice`/`slice_some` returns is built from `empty` by `add`/`bind` calls, so it satisfies the memory-safety
invariant of Core/Total.lean. -/
namespace Sodg
variable {L D : Type} [DecidableEq L] [Inhabited D]

theorem ms_applyOps (ops : List (Op L D)) : ∀ (g g' : G L D), MS g → applyOps g ops = some g' → MS g' := by
  induction ops with
  | nil => intro g g' h ha; simp only [applyOps, Option.some.injEq] at ha; subst ha; exact h
  | cons op ops ih =>
    intro g g' h ha
    simp only [applyOps] at ha
    cases hs : step g op with
    | none => rw [hs] at ha; cases ha
    | some x =>
      obtain ⟨g1, o⟩ := x
      rw [hs] at ha
      have := ms_stepT g h op
      rw [stepT_of_step g g1 op o hs] at this
      exact ih g1 g' this ha

/-- **the graph a slice returns satisfies the invariant** (capacity at least 1) -/
theorem ms_sliceSome (g g' : G L D) (v : Nat) (p : Nat → Nat → L → Bool) (hc : 0 < cap g) (hs : sliceSome g v p = some g') :
    MS g' := by
  unfold sliceSome at hs
  split at hs
  · split at hs
    · cases hs
    · exact ms_applyOps _ _ _ (ms_empty g.n (cap g) hc) hs
  · cases hs

end Sodg
