import Algo.ScriptSodg
import Core.Total
/-! # A script keeps every computed index in range (C07)

Every state a script passes through is reached by completed `next_id`/`add`/`bind`/`put` calls, so the memory-safety
invariant `MS` of Core/Total.lean holds in the state `deploy` returns — whether the script ran to its end, stopped at a
malformed command (`Err`) or at a call that panicked. (On a panic the model's state is the one *before* the panicking
call; the state the real call leaves behind is one `stepT` further, and `ms_stepT` covers it.) -/
namespace Ss
open Sodg

theorem ms_of_add (g g' : G Label Hex) (v : Nat) (h : MS g) (ha : add g v = some g') : MS g' := by
  have := ms_stepT g h (.add v)
  rw [stepT_of_step g g' (.add v) .unit (by simp [step, ha])] at this
  exact this

theorem ms_of_bind (g g' : G Label Hex) (v1 v2 : Nat) (a : Label) (h : MS g) (ha : Sodg.bind g v1 v2 a = some g') : MS g' := by
  have := ms_stepT g h (.bind v1 v2 a)
  rw [stepT_of_step g g' (.bind v1 v2 a) .unit (by simp [step, ha])] at this
  exact this

theorem ms_of_put (g g' : G Label Hex) (v : Nat) (d : Hex) (h : MS g) (ha : put g v d = some g') : MS g' := by
  have := ms_stepT g h (.put v d)
  rw [stepT_of_step g g' (.put v d) .unit (by simp [step, ha])] at this
  exact this

theorem ms_of_nextId (g g' : G Label Hex) (i : Nat) (h : MS g) (ha : nextId g = some (g', i)) : MS g' :=
  ms_nextId g g' h i ha

theorem ms_resolveVT (v : S.VTok) (s : SState) (h : MS s.g) : MS (resolveVT v s).1.g := by
  unfold resolveVT
  split
  · exact h
  · split
    · exact h
    · split
      · exact h
      · rename_i g' id hn; exact ms_of_nextId _ _ _ h hn

theorem ms_callAdd (s : SState) (v : Nat) (h : MS s.g) : MS (callAdd s v).1.g := by
  unfold callAdd; split
  · rename_i g' ha; exact ms_of_add _ _ _ h ha
  · exact h

theorem ms_callBind (s : SState) (v1 v2 : Nat) (l : Label) (h : MS s.g) : MS (callBind s v1 v2 l).1.g := by
  unfold callBind; split
  · rename_i g' ha; exact ms_of_bind _ _ _ _ _ h ha
  · exact h

theorem ms_callPut (s : SState) (v : Nat) (d : Hex) (h : MS s.g) : MS (callPut s v d).1.g := by
  unfold callPut; split
  · rename_i g' ha; exact ms_of_put _ _ _ _ h ha
  · exact h

theorem ms_res (v : S.VTok) (s s1 : SState) (r : Res) (i : Nat) (h : MS s.g) (hr : resolveVT v s = (s1, r, i)) : MS s1.g := by
  have := ms_resolveVT v s h; rw [hr] at this; exact this

/-- one command, well-formed or not -/
theorem ms_deployCmd (cmd : List Char) (s : SState) (h : MS s.g) : MS (deployCmd cmd s).1.g := by
  unfold deployCmd
  split
  · exact h
  · dsimp only
    repeat' split
    all_goals first
      | exact h
      | exact ms_res _ _ _ _ _ h (by assumption)
      | exact ms_res _ _ _ _ _ (ms_res _ _ _ _ _ h (by assumption)) (by assumption)
      | exact ms_callAdd _ _ h
      | exact ms_callAdd _ _ (ms_res _ _ _ _ _ h (by assumption))
      | exact ms_callPut _ _ _ (ms_res _ _ _ _ _ h (by assumption))
      | exact ms_callBind _ _ _ _ (ms_res _ _ _ _ _ (ms_res _ _ _ _ _ h (by assumption)) (by assumption))

/-- the commands of a script, until one does not end with `ok` -/
theorem ms_runCmds (cmds : List (List Char)) : ∀ (s : SState) (k : Nat), MS s.g → MS (runCmds deployCmd cmds s k).1.g := by
  induction cmds with
  | nil => intro s k h; exact h
  | cons c cs ih =>
    intro s k h
    have h1 := ms_deployCmd c s h
    unfold runCmds
    split
    · rename_i s1 hc; rw [hc] at h1; exact ih s1 (k + 1) h1
    · rename_i s1 r _ hc; rw [hc] at h1; exact h1

/-- **a script keeps every computed index in range**: after `deploy_to`, whether the script ran to its end, stopped at a
    malformed command or at a call that panicked -/
theorem ms_deploy (text : List Char) (g : G Label Hex) (h : MS g) : MS (deploy text g).1.g :=
  ms_runCmds _ _ 0 h

end Ss
