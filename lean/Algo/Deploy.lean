import Algo.Command
/-! C14 probe, assembly: the text-to-commands translation of `Script` recovers the abstract program from every legal
    rendering, given that the three token parsers invert the token printers (which is C17 for labels,
    `probes/arith` for ids and `probes/hexdata` for data). What `deploy_to` then does with the commands is a
    definition shared by both sides of the equivalence, so this is the whole content of "a script does exactly what
    the same API calls would do". -/
namespace S

variable (ws : Char → Bool)

inductive VTok where
  | lit (n : Nat)
  | var (name : List Char)
deriving DecidableEq

inductive ACmd (Lab Dat : Type) where
  | add (v : VTok)
  | bind (v1 v2 : VTok) (l : Lab)
  | put (v : VTok) (d : Dat)

variable {Lab Dat : Type}
variable (pV : List Char → Option VTok) (pL : List Char → Option Lab) (pD : List Char → Option Dat)

def nADD : List Char := ['A', 'D', 'D']
def nBIND : List Char := ['B', 'I', 'N', 'D']
def nPUT : List Char := ['P', 'U', 'T']

/-- `deploy_one` up to the point where the calls are issued: `none` is `Err` -/
def parseCmd (cmd : List Char) : Option (ACmd Lab Dat) :=
  match parseLine cmd with
  | none => none
  | some (name, inner) =>
    let as := args ws inner
    if name = nADD then (as[0]?.bind pV).map .add
    else if name = nBIND then
      (as[0]?.bind pV).bind (fun v1 => (as[1]?.bind pV).bind (fun v2 => (as[2]?.bind pL).map (fun l => .bind v1 v2 l)))
    else if name = nPUT then
      (as[0]?.bind pV).bind (fun v => (as[1]?.bind pD).map (fun d => .put v d))
    else none

/-- the commands of a script text, each parsed (`none` marks the command at which `deploy_to` returns `Err`) -/
def parseScript (txt : List Char) : List (Option (ACmd Lab Dat)) := (commands ws txt).map (parseCmd ws pV pL pD)

/-! ### rendering -/

variable (tV : VTok → List Char) (tL : Lab → List Char) (tD : Dat → List Char)

/-- a token text is legal inside a command: a token in the sense of `Script.lean`, free of the structural characters -/
def Clean (t : List Char) : Prop := Tok ws t ∧ ∀ c ∈ t, c ≠ ',' ∧ c ≠ ')' ∧ c ≠ '#' ∧ c ≠ ';'

variable (dV : VTok → Prop) (dL : Lab → Prop) (dD : Dat → Prop)

/-- the token printers are inverted by the token parsers and produce clean texts, on the domains `dV`, `dL`, `dD`
    (vertex tokens, label values, data values that have a legal text) -/
structure Tokens : Prop where
  v : ∀ x, dV x → pV (tV x) = some x ∧ Clean ws (tV x)
  l : ∀ x, dL x → pL (tL x) = some x ∧ Clean ws (tL x)
  d : ∀ x, dD x → pD (tD x) = some x ∧ Clean ws (tD x)

/-- every token of the command is in its domain -/
def inDom : ACmd Lab Dat → Prop
  | .add v => dV v
  | .bind v1 v2 l => dV v1 ∧ dV v2 ∧ dL l
  | .put v d => dV v ∧ dD d

/-- white space is none of the structural characters -/
def WsOK : Prop := ∀ c, ws c = true → c ≠ ',' ∧ c ≠ ')' ∧ c ≠ '#' ∧ c ≠ ';' ∧ c ≠ '('

/-- padding around one argument -/
structure Pad where
  pre : List Char
  post : List Char

def Pad.ok (p : Pad) : Prop := (∀ c ∈ p.pre, ws c = true) ∧ (∀ c ∈ p.post, ws c = true)

def mkArg (p : Pad) (t : List Char) : Arg := ⟨p.pre, t, p.post⟩

/-- the text of one command, with free padding of every argument and free blanks before `(` -/
def renderCmd (sp : List Char) (p0 p1 p2 : Pad) : ACmd Lab Dat → List Char
  | .add v => nADD ++ (sp ++ '(' :: (renderArgs [mkArg p0 (tV v)] ++ [')']))
  | .bind v1 v2 l => nBIND ++ (sp ++ '(' :: (renderArgs [mkArg p0 (tV v1), mkArg p1 (tV v2), mkArg p2 (tL l)] ++ [')']))
  | .put v d => nPUT ++ (sp ++ '(' :: (renderArgs [mkArg p0 (tV v), mkArg p1 (tD d)] ++ [')']))

theorem mkArg_ok (hw : WsOK ws) (p : Pad) (hp : p.ok ws) (t : List Char) (ht : Clean ws t) : (mkArg p t).ok ws := by
  refine ⟨fun c hc => ⟨hp.1 c hc, (hw c (hp.1 c hc)).1⟩, ht.1, fun c hc => (ht.2 c hc).1,
    fun c hc => ⟨hp.2 c hc, (hw c (hp.2 c hc)).1⟩⟩

theorem renderArgs_noparen (hw : WsOK ws) (as : List Arg)
    (h : ∀ a ∈ as, (∀ c ∈ a.pre, ws c = true) ∧ (∀ c ∈ a.post, ws c = true) ∧ ∀ c ∈ a.tok, c ≠ ')') :
    ∀ c ∈ renderArgs as, c ≠ ')' := by
  induction as with
  | nil => simp [renderArgs]
  | cons a rest ih =>
    have ha := h a (by simp)
    have hseg : ∀ c ∈ a.text, c ≠ ')' := by
      intro c hc
      simp only [Arg.text, List.mem_append] at hc
      rcases hc with (hc | hc) | hc
      · exact (hw c (ha.1 c hc)).2.1
      · exact ha.2.2 c hc
      · exact (hw c (ha.2.1 c hc)).2.1
    cases rest with
    | nil => simpa [renderArgs] using hseg
    | cons b rest' =>
      intro c hc
      simp only [renderArgs, List.mem_append, List.mem_cons] at hc
      rcases hc with hc | rfl | hc
      · exact hseg c hc
      · decide
      · exact ih (fun x hx => h x (by simp [hx])) c (by simpa [renderArgs] using hc)

/-- **one command**: parsing the rendering gives the command back -/
theorem parseCmd_render (hw : WsOK ws) (tk : Tokens ws pV pL pD tV tL tD dV dL dD) (sp : List Char) (hsp : ∀ c ∈ sp, c = ' ')
    (p0 p1 p2 : Pad) (h0 : p0.ok ws) (h1 : p1.ok ws) (h2 : p2.ok ws) (c : ACmd Lab Dat) (hd : inDom dV dL dD c) :
    parseCmd ws pV pL pD (renderCmd tV tL tD sp p0 p1 p2 c) = some c := by
  have argOK : ∀ (p : Pad) (hp : p.ok ws) (t : List Char), Clean ws t →
      (∀ c ∈ (mkArg p t).pre, ws c = true) ∧ (∀ c ∈ (mkArg p t).post, ws c = true) ∧ ∀ c ∈ (mkArg p t).tok, c ≠ ')' :=
    fun p hp t ht => ⟨hp.1, hp.2, fun c hc => (ht.2 c hc).2.1⟩
  cases c with
  | add v =>
    have cv := (tk.v v hd).2
    have hin := renderArgs_noparen ws hw [mkArg p0 (tV v)] (by
      intro a ha; simp only [List.mem_singleton] at ha; subst ha; exact argOK p0 h0 _ cv)
    have hl := parseLine_render nADD sp (renderArgs [mkArg p0 (tV v)]) (by decide) (by decide) hsp hin
    have ha := args_render ws [mkArg p0 (tV v)] (by simp) (by
      intro a ha; simp only [List.mem_singleton] at ha; subst ha; exact mkArg_ok ws hw p0 h0 _ cv)
    simp only [parseCmd, renderCmd, hl, ha, if_true]
    simp [mkArg, (tk.v v hd).1]
  | bind v1 v2 l =>
    have c1 := (tk.v v1 hd.1).2
    have c2 := (tk.v v2 hd.2.1).2
    have c3 := (tk.l l hd.2.2).2
    have hin := renderArgs_noparen ws hw [mkArg p0 (tV v1), mkArg p1 (tV v2), mkArg p2 (tL l)] (by
      intro a ha
      simp only [List.mem_cons, List.mem_nil_iff, or_false] at ha
      rcases ha with rfl | rfl | rfl
      · exact argOK p0 h0 _ c1
      · exact argOK p1 h1 _ c2
      · exact argOK p2 h2 _ c3)
    have hl := parseLine_render nBIND sp _ (by decide) (by decide) hsp hin
    have ha := args_render ws [mkArg p0 (tV v1), mkArg p1 (tV v2), mkArg p2 (tL l)] (by simp) (by
      intro a ha
      simp only [List.mem_cons, List.mem_nil_iff, or_false] at ha
      rcases ha with rfl | rfl | rfl
      · exact mkArg_ok ws hw p0 h0 _ c1
      · exact mkArg_ok ws hw p1 h1 _ c2
      · exact mkArg_ok ws hw p2 h2 _ c3)
    have hne : nBIND ≠ nADD := by decide
    simp only [parseCmd, renderCmd, hl, ha, hne, if_false, if_true]
    simp [mkArg, (tk.v v1 hd.1).1, (tk.v v2 hd.2.1).1, (tk.l l hd.2.2).1]
  | put v d =>
    have c1 := (tk.v v hd.1).2
    have c2 := (tk.d d hd.2).2
    have hin := renderArgs_noparen ws hw [mkArg p0 (tV v), mkArg p1 (tD d)] (by
      intro a ha
      simp only [List.mem_cons, List.mem_nil_iff, or_false] at ha
      rcases ha with rfl | rfl
      · exact argOK p0 h0 _ c1
      · exact argOK p1 h1 _ c2)
    have hl := parseLine_render nPUT sp _ (by decide) (by decide) hsp hin
    have ha := args_render ws [mkArg p0 (tV v), mkArg p1 (tD d)] (by simp) (by
      intro a ha
      simp only [List.mem_cons, List.mem_nil_iff, or_false] at ha
      rcases ha with rfl | rfl
      · exact mkArg_ok ws hw p0 h0 _ c1
      · exact mkArg_ok ws hw p1 h1 _ c2)
    have hne1 : nPUT ≠ nADD := by decide
    have hne2 : nPUT ≠ nBIND := by decide
    simp only [parseCmd, renderCmd, hl, ha, hne1, hne2, if_false, if_true]
    simp [mkArg, (tk.v v hd.1).1, (tk.d d hd.2).1]

/-! ### the whole script -/

/-- formatting of one command -/
structure CmdFmt where
  pre : List Filler        -- white space and comments before the command
  sp : List Char           -- blanks between the name and `(`
  p0 : Pad
  p1 : Pad
  p2 : Pad
  post : List Char         -- white space between `)` and `;`

def CmdFmt.ok (f : CmdFmt) : Prop :=
  (∀ x ∈ f.pre, x.ok ws) ∧ (∀ c ∈ f.sp, c = ' ') ∧ f.p0.ok ws ∧ f.p1.ok ws ∧ f.p2.ok ws ∧
    (∀ x ∈ f.post, ws x = true ∧ x ≠ '#' ∧ x ≠ ';')

def toCmd (c : ACmd Lab Dat) (f : CmdFmt) : Cmd :=
  ⟨f.pre, renderCmd tV tL tD f.sp f.p0 f.p1 f.p2 c, f.post⟩

def renderScript (prog : List (ACmd Lab Dat × CmdFmt)) (trail : List Filler) : List Char :=
  render (prog.map (fun x => toCmd tV tL tD x.1 x.2)) trail

theorem renderArgs_clean (hw : WsOK ws) (as : List Arg)
    (h : ∀ a ∈ as, (∀ c ∈ a.pre, ws c = true) ∧ (∀ c ∈ a.post, ws c = true) ∧ ∀ c ∈ a.tok, c ≠ '#' ∧ c ≠ ';') :
    ∀ c ∈ renderArgs as, c ≠ '#' ∧ c ≠ ';' := by
  induction as with
  | nil => simp [renderArgs]
  | cons a rest ih =>
    have ha := h a (by simp)
    have hseg : ∀ c ∈ a.text, c ≠ '#' ∧ c ≠ ';' := by
      intro c hc
      simp only [Arg.text, List.mem_append] at hc
      rcases hc with (hc | hc) | hc
      · exact ⟨(hw c (ha.1 c hc)).2.2.1, (hw c (ha.1 c hc)).2.2.2.1⟩
      · exact ha.2.2 c hc
      · exact ⟨(hw c (ha.2.1 c hc)).2.2.1, (hw c (ha.2.1 c hc)).2.2.2.1⟩
    cases rest with
    | nil => simpa [renderArgs] using hseg
    | cons b rest' =>
      intro c hc
      simp only [renderArgs, List.mem_append, List.mem_cons] at hc
      rcases hc with hc | rfl | hc
      · exact hseg c hc
      · exact ⟨by decide, by decide⟩
      · exact ih (fun x hx => h x (by simp [hx])) c (by simpa [renderArgs] using hc)

/-- the text of a rendered command is a legal command text in the sense of `commands_render` -/
theorem renderCmd_cmdok (hw : WsOK ws) (hup : ∀ c, isUpper c = true → ws c = false)
    (tk : Tokens ws pV pL pD tV tL tD dV dL dD) (c : ACmd Lab Dat) (hd : inDom dV dL dD c) (f : CmdFmt) (hf : f.ok ws) :
    (toCmd tV tL tD c f).ok ws := by
  obtain ⟨h1, h2, h3, h4, h5, h6⟩ := hf
  have clean : ∀ (p : Pad) (hp : p.ok ws) (t : List Char), Clean ws t →
      (∀ c ∈ (mkArg p t).pre, ws c = true) ∧ (∀ c ∈ (mkArg p t).post, ws c = true) ∧
        ∀ c ∈ (mkArg p t).tok, c ≠ '#' ∧ c ≠ ';' :=
    fun p hp t ht => ⟨hp.1, hp.2, fun c hc => ⟨(ht.2 c hc).2.2.1, (ht.2 c hc).2.2.2⟩⟩
  have rparen : ws ')' = false := by
    cases h : ws ')' with
    | false => rfl
    | true => exact absurd rfl (hw _ h).2.1
  -- generic shape: NAME ++ sp ++ '(' :: args ++ [')']
  have shape : ∀ (name : List Char) (args : List Char), name ≠ [] → (∀ x ∈ name, isUpper x = true) →
      (∀ x ∈ name, x ≠ '#' ∧ x ≠ ';') → (∀ x ∈ args, x ≠ '#' ∧ x ≠ ';') →
      Tok ws (name ++ (f.sp ++ '(' :: (args ++ [')']))) ∧
      ∀ x ∈ name ++ (f.sp ++ '(' :: (args ++ [')'])), x ≠ '#' ∧ x ≠ ';' := by
    intro name args hne hu hn ha
    refine ⟨⟨by simp [hne], ?_, ?_⟩, ?_⟩
    · intro x hx
      cases name with
      | nil => exact absurd rfl hne
      | cons y ys => simp at hx; subst hx; exact hup _ (hu _ (by simp))
    · intro x hx
      have : (name ++ (f.sp ++ '(' :: (args ++ [')']))).getLast? = some ')' := by
        have e : name ++ (f.sp ++ '(' :: (args ++ [')'])) = (name ++ (f.sp ++ '(' :: args)) ++ [')'] := by simp
        rw [e, List.getLast?_append]; simp
      rw [this] at hx; cases hx; exact rparen
    · intro x hx
      simp only [List.mem_append, List.mem_cons, List.mem_singleton, List.mem_nil_iff, or_false] at hx
      rcases hx with hx | hx | rfl | hx | rfl
      · exact hn x hx
      · rw [h2 x hx]; exact ⟨by decide, by decide⟩
      · exact ⟨by decide, by decide⟩
      · exact ha x hx
      · exact ⟨by decide, by decide⟩
  refine ⟨h1, ?_, ?_, h6⟩
  all_goals
    cases c with
    | add v =>
      have := shape nADD (renderArgs [mkArg f.p0 (tV v)]) (by decide) (by decide) (by decide)
        (renderArgs_clean ws hw _ (by
          intro a ha; simp only [List.mem_singleton] at ha; subst ha; exact clean f.p0 h3 _ (tk.v v hd).2))
      first | exact this.1 | exact this.2
    | bind v1 v2 l =>
      have := shape nBIND (renderArgs [mkArg f.p0 (tV v1), mkArg f.p1 (tV v2), mkArg f.p2 (tL l)]) (by decide)
        (by decide) (by decide) (renderArgs_clean ws hw _ (by
          intro a ha
          simp only [List.mem_cons, List.mem_nil_iff, or_false] at ha
          rcases ha with rfl | rfl | rfl
          · exact clean f.p0 h3 _ (tk.v v1 hd.1).2
          · exact clean f.p1 h4 _ (tk.v v2 hd.2.1).2
          · exact clean f.p2 h5 _ (tk.l l hd.2.2).2))
      first | exact this.1 | exact this.2
    | put v d =>
      have := shape nPUT (renderArgs [mkArg f.p0 (tV v), mkArg f.p1 (tD d)]) (by decide) (by decide) (by decide)
        (renderArgs_clean ws hw _ (by
          intro a ha
          simp only [List.mem_cons, List.mem_nil_iff, or_false] at ha
          rcases ha with rfl | rfl
          · exact clean f.p0 h3 _ (tk.v v hd.1).2
          · exact clean f.p1 h4 _ (tk.d d hd.2).2))
      first | exact this.1 | exact this.2

/-- **C14**: whatever the white space, comments, blanks before `(` and padding of the arguments, the script text
    is read back as exactly the abstract program, in order, with no parse error -/
theorem parseScript_render (hw : WsOK ws) (hup : ∀ c, isUpper c = true → ws c = false)
    (tk : Tokens ws pV pL pD tV tL tD dV dL dD) (prog : List (ACmd Lab Dat × CmdFmt)) (trail : List Filler)
    (hf : ∀ x ∈ prog, x.2.ok ws) (ht : ∀ x ∈ trail, x.ok ws) (hdom : ∀ x ∈ prog, inDom dV dL dD x.1) :
    parseScript ws pV pL pD (renderScript tV tL tD prog trail) = prog.map (fun x => some x.1) := by
  unfold parseScript renderScript
  rw [commands_render ws _ trail (by
    intro c hc
    simp only [List.mem_map] at hc
    obtain ⟨x, hx, rfl⟩ := hc
    exact renderCmd_cmdok ws pV pL pD tV tL tD dV dL dD hw hup tk x.1 (hdom x hx) x.2 (hf x hx)) ht]
  simp only [List.map_map]
  apply List.map_congr_left
  intro x hx
  obtain ⟨_, h2, h3, h4, h5, _⟩ := hf x hx
  simp only [Function.comp, toCmd]
  exact parseCmd_render ws pV pL pD tV tL tD dV dL dD hw tk x.2.sp h2 x.2.p0 x.2.p1 x.2.p2 h3 h4 h5 x.1 (hdom x hx)

#print axioms parseScript_render
end S
