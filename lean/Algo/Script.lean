/-! Feasibility probe for C14: `Script::commands()` (strip `#…\n` comments, split on `;`, trim, drop empties)
    recovers exactly the command texts from any legal rendering (arbitrary white space, comments between commands). -/
namespace S

variable (ws : Char → Bool)

/-- `STRIP_COMMENTS.replace_all(text, "")` for the pattern `#.*\n`, as a one-pass scanner: `pending` holds the
    (reversed) text of a comment whose terminating newline has not been seen yet; an unterminated comment is kept. -/
def strip : List Char → Option (List Char) → List Char
  | [], none => []
  | [], some buf => buf.reverse
  | c :: cs, none => if c = '#' then strip cs (some ['#']) else c :: strip cs none
  | c :: cs, some buf => if c = '\n' then strip cs none else strip cs (some (c :: buf))

def splitOn (sep : Char) : List Char → List (List Char)
  | [] => [[]]
  | c :: cs =>
    if c = sep then [] :: splitOn sep cs
    else match splitOn sep cs with
      | [] => [[c]]
      | x :: xs => (c :: x) :: xs

def trim (l : List Char) : List Char := ((l.dropWhile ws).reverse.dropWhile ws).reverse

def commands (txt : List Char) : List (List Char) :=
  ((splitOn ';' (strip txt none)).map (trim ws)).filter (fun c => !c.isEmpty)

/-! #### lemmas -/

theorem strip_nohash (s rest : List Char) (h : ∀ c ∈ s, c ≠ '#') :
    strip (s ++ rest) none = s ++ strip rest none := by
  induction s with
  | nil => rfl
  | cons c s ih =>
    have hc : c ≠ '#' := h c (by simp)
    simp only [List.cons_append, strip, hc, if_false]
    rw [ih (fun x hx => h x (by simp [hx]))]

theorem strip_pending (body rest buf : List Char) (h : ∀ c ∈ body, c ≠ '\n') :
    strip (body ++ '\n' :: rest) (some buf) = strip rest none := by
  induction body generalizing buf with
  | nil => simp [strip]
  | cons c body ih =>
    have hc : c ≠ '\n' := h c (by simp)
    simp only [List.cons_append, strip, hc, if_false]
    exact ih _ (fun x hx => h x (by simp [hx]))

theorem strip_comment (body rest : List Char) (h : ∀ c ∈ body, c ≠ '\n') :
    strip ('#' :: body ++ '\n' :: rest) none = strip rest none := by
  simp only [List.cons_append, strip, if_true]
  exact strip_pending body rest _ h

theorem splitOn_ne_nil (sep : Char) (l : List Char) : splitOn sep l ≠ [] := by
  cases l with
  | nil => simp [splitOn]
  | cons c cs =>
    simp only [splitOn]
    split
    · simp
    · split <;> simp

theorem splitOn_nosep (sep : Char) (s : List Char) (h : ∀ c ∈ s, c ≠ sep) : splitOn sep s = [s] := by
  induction s with
  | nil => rfl
  | cons c s ih =>
    have hc : c ≠ sep := h c (by simp)
    simp only [splitOn, hc, if_false]
    rw [ih (fun x hx => h x (by simp [hx]))]

theorem splitOn_append (sep : Char) (s rest : List Char) (h : ∀ c ∈ s, c ≠ sep) :
    splitOn sep (s ++ sep :: rest) = s :: splitOn sep rest := by
  induction s with
  | nil => simp [splitOn]
  | cons c s ih =>
    have hc : c ≠ sep := h c (by simp)
    simp only [List.cons_append, splitOn, hc, if_false]
    rw [ih (fun x hx => h x (by simp [hx]))]

theorem dropWhile_ws_append (a b : List Char) (ha : ∀ c ∈ a, ws c = true) :
    (a ++ b).dropWhile ws = b.dropWhile ws := by
  induction a with
  | nil => rfl
  | cons c a ih =>
    simp only [List.cons_append, List.dropWhile_cons, ha c (by simp), if_true]
    exact ih (fun x hx => ha x (by simp [hx]))

theorem dropWhile_head (b : List Char) (c : Char) (hc : ws c = false) : (c :: b).dropWhile ws = c :: b := by
  simp [List.dropWhile_cons, hc]

/-- a command text: non-empty, first and last character are not white space -/
structure Tok (t : List Char) : Prop where
  ne : t ≠ []
  first : ∀ c, t.head? = some c → ws c = false
  last : ∀ c, t.getLast? = some c → ws c = false

theorem trim_pad (a t b : List Char) (ha : ∀ c ∈ a, ws c = true) (hb : ∀ c ∈ b, ws c = true) (ht : Tok ws t) :
    trim ws (a ++ t ++ b) = t := by
  unfold trim
  rw [List.append_assoc, dropWhile_ws_append ws a _ ha]
  obtain ⟨c, t', rfl⟩ := List.exists_cons_of_ne_nil ht.ne
  have hc := ht.first c (by simp)
  rw [List.cons_append, dropWhile_head ws _ c hc]
  -- now the right end
  have : (c :: (t' ++ b)).reverse = b.reverse ++ (c :: t').reverse := by simp
  rw [this, dropWhile_ws_append ws b.reverse _ (fun x hx => hb x (by simpa using hx))]
  obtain ⟨d, hd⟩ : ∃ d, (c :: t').getLast? = some d := by
    cases h : (c :: t').getLast? with
    | none => simp at h
    | some d => exact ⟨d, rfl⟩
  have hdl := ht.last d hd
  have hrev : ∃ r, (c :: t').reverse = d :: r := by
    have := List.getLast?_eq_head?_reverse (xs := c :: t')
    rw [hd] at this
    cases hr : (c :: t').reverse with
    | nil => rw [hr] at this; simp at this
    | cons x r => rw [hr] at this; simp at this; exact ⟨r, by rw [this]⟩
  obtain ⟨r, hr⟩ := hrev
  rw [hr, dropWhile_head ws _ d hdl, ← hr]
  simp

theorem trim_ws (a : List Char) (ha : ∀ c ∈ a, ws c = true) : trim ws a = [] := by
  unfold trim
  have := dropWhile_ws_append ws a [] ha
  simp only [List.append_nil] at this
  rw [this]; rfl

/-! #### rendering -/

inductive Filler where
  | blank (s : List Char)
  | comment (body : List Char)

def Filler.ok : Filler → Prop
  | .blank s => ∀ c ∈ s, ws c = true ∧ c ≠ '#' ∧ c ≠ ';'
  | .comment b => ∀ c ∈ b, c ≠ '\n'

def Filler.text : Filler → List Char
  | .blank s => s
  | .comment b => '#' :: b ++ ['\n']

def fillText (fs : List Filler) : List Char := (fs.map Filler.text).flatten

/-- what is left of a filler after comment stripping -/
def Filler.residue : Filler → List Char
  | .blank s => s
  | .comment _ => []

def fillResidue (fs : List Filler) : List Char := (fs.map Filler.residue).flatten

structure Cmd where
  pre : List Filler
  txt : List Char
  post : List Char

def Cmd.ok (c : Cmd) : Prop :=
  (∀ f ∈ c.pre, f.ok ws) ∧ Tok ws c.txt ∧ (∀ x ∈ c.txt, x ≠ '#' ∧ x ≠ ';') ∧ (∀ x ∈ c.post, ws x = true ∧ x ≠ '#' ∧ x ≠ ';')

def render (cs : List Cmd) (trail : List Filler) : List Char :=
  (cs.map (fun c => fillText c.pre ++ c.txt ++ c.post ++ [';'])).flatten ++ fillText trail

def renderStripped (cs : List Cmd) (trail : List Filler) : List Char :=
  (cs.map (fun c => fillResidue c.pre ++ c.txt ++ c.post ++ [';'])).flatten ++ fillResidue trail

theorem strip_fill (fs : List Filler) (rest : List Char) (h : ∀ f ∈ fs, f.ok ws) :
    strip (fillText fs ++ rest) none = fillResidue fs ++ strip rest none := by
  induction fs with
  | nil => rfl
  | cons f fs ih =>
    have hf := h f (by simp)
    have ih' := ih (fun x hx => h x (by simp [hx]))
    cases f with
    | blank s =>
      simp only [fillText, fillResidue, List.map_cons, List.flatten_cons, Filler.text, Filler.residue,
        List.append_assoc] at ih' ⊢
      rw [strip_nohash s _ (fun c hc => (hf c hc).2.1), ih']
    | comment b =>
      simp only [fillText, fillResidue, List.map_cons, List.flatten_cons, Filler.text, Filler.residue,
        List.append_assoc, List.nil_append, List.cons_append] at ih' ⊢
      have := strip_comment b ((List.map Filler.text fs).flatten ++ rest) hf
      simp only [List.cons_append] at this
      rw [this, ih']

theorem strip_render (cs : List Cmd) (trail : List Filler) (hc : ∀ c ∈ cs, c.ok ws) (ht : ∀ f ∈ trail, f.ok ws) :
    strip (render cs trail) none = renderStripped cs trail := by
  unfold render renderStripped
  induction cs with
  | nil =>
    simpa [strip] using strip_fill ws trail [] ht
  | cons c cs ih =>
    obtain ⟨h1, h2, h3, h4⟩ := hc c (by simp)
    have ih' := ih (fun x hx => hc x (by simp [hx]))
    simp only [List.map_cons, List.flatten_cons, List.append_assoc]
    rw [strip_fill ws c.pre _ h1, strip_nohash c.txt _ (fun x hx => (h3 x hx).1),
      strip_nohash c.post _ (fun x hx => (h4 x hx).2.1)]
    have : strip ([';'] ++ ((List.map (fun c => fillText c.pre ++ (c.txt ++ (c.post ++ [';']))) cs).flatten ++ fillText trail)) none
        = ';' :: strip ((List.map (fun c => fillText c.pre ++ (c.txt ++ (c.post ++ [';']))) cs).flatten ++ fillText trail) none := by
      simp [strip]
    rw [this]
    simp only [List.append_assoc] at ih'
    rw [ih']
    simp

theorem residue_ws (fs : List Filler) (h : ∀ f ∈ fs, f.ok ws) :
    ∀ c ∈ fillResidue fs, ws c = true ∧ c ≠ ';' := by
  intro c hc
  simp only [fillResidue, List.mem_flatten, List.mem_map] at hc
  obtain ⟨l, ⟨f, hf, rfl⟩, hcl⟩ := hc
  cases f with
  | blank s => have := h _ hf c hcl; exact ⟨this.1, this.2.2⟩
  | comment b => simp [Filler.residue] at hcl

/-- **C14, front end, in miniature**: whatever white space and comments are put around them, the commands
    recovered are exactly the command texts, in order. -/
theorem commands_render (cs : List Cmd) (trail : List Filler) (hc : ∀ c ∈ cs, c.ok ws) (ht : ∀ f ∈ trail, f.ok ws) :
    commands ws (render cs trail) = cs.map (·.txt) := by
  unfold commands
  rw [strip_render ws cs trail hc ht]
  unfold renderStripped
  induction cs with
  | nil =>
    have hr := residue_ws ws trail ht
    simp only [List.map_nil, List.flatten_nil, List.nil_append]
    rw [splitOn_nosep ';' _ (fun c hc => (hr c hc).2)]
    simp [trim_ws ws _ (fun c hc => (hr c hc).1)]
  | cons c cs ih =>
    obtain ⟨h1, h2, h3, h4⟩ := hc c (by simp)
    have ih' := ih (fun x hx => hc x (by simp [hx]))
    have hr := residue_ws ws c.pre h1
    have hseg : ∀ x ∈ fillResidue c.pre ++ c.txt ++ c.post, x ≠ ';' := by
      intro x hx
      simp only [List.mem_append] at hx
      rcases hx with (hx | hx) | hx
      · exact (hr x hx).2
      · exact (h3 x hx).2
      · exact (h4 x hx).2.2
    simp only [List.map_cons, List.flatten_cons]
    have key := splitOn_append ';' (fillResidue c.pre ++ c.txt ++ c.post)
      ((List.map (fun c => fillResidue c.pre ++ c.txt ++ c.post ++ [';']) cs).flatten ++ fillResidue trail) hseg
    simp only [List.append_assoc, List.cons_append, List.nil_append, List.singleton_append] at key ih' ⊢
    rw [key]
    simp only [List.map_cons, List.filter_cons]
    have tp := trim_pad ws _ _ _ (fun x hx => (hr x hx).1) (fun x hx => (h4 x hx).1) h2
    simp only [List.append_assoc] at tp
    rw [tp]
    have : (!(c.txt).isEmpty) = true := by
      cases hh : c.txt with
      | nil => exact absurd hh h2.ne
      | cons _ _ => rfl
    simp only [this, if_true]
    rw [ih']

#print axioms commands_render
end S
