/-! Feasibility probe for C18: the exported document lists exactly the present vertices in ascending order, each
    with its edges sorted by label, and depends only on the *content* of the graph (present set, edge sets, data),
    not on the order in which edges were inserted. Generic in the label type with a strict total order. -/
namespace Rd

variable {L D : Type} (lt : L → L → Bool)

/-- a strict total order on labels (the derived `Ord` of `Label`) -/
structure StrictTotal : Prop where
  irrefl : ∀ a, lt a a = false
  trans : ∀ a b c, lt a b = true → lt b c = true → lt a c = true
  total : ∀ a b, a ≠ b → lt a b = true ∨ lt b a = true

/-- `sorted_by_key(|e| e.0)` -/
def le (e1 e2 : L × Nat) : Bool := !lt e2.1 e1.1
def sortEdges (es : List (L × Nat)) : List (L × Nat) := es.mergeSort (le lt)

/-- per-vertex content as the graph stores it -/
structure Slot (L D : Type) where
  present : Bool
  edges : List (L × Nat)       -- stored (insertion) order, labels distinct
  data : Option D

structure VNode (L D : Type) where
  id : Nat
  edges : List (L × Nat)
  data : Option D

/-- the document of `to_xml`/`to_dot` (repaired: present vertices only); `i` is the id of the first slot -/
def docFrom (i : Nat) : List (Slot L D) → List (VNode L D)
  | [] => []
  | s :: ss => (if s.present then [⟨i, sortEdges lt s.edges, s.data⟩] else []) ++ docFrom (i + 1) ss

def doc (slots : List (Slot L D)) : List (VNode L D) := docFrom lt 0 slots

/-! ### sorting a permutation of distinct labels gives the same list -/

theorem le_total (h : StrictTotal lt) (a b : L × Nat) : le lt a b || le lt b a := by
  unfold le
  cases hab : lt b.1 a.1 with
  | false => simp
  | true =>
    cases hba : lt a.1 b.1 with
    | false => simp
    | true => have := h.trans _ _ _ hab hba; rw [h.irrefl] at this; cases this

theorem le_trans (h : StrictTotal lt) (a b c : L × Nat) (h1 : le lt a b = true) (h2 : le lt b c = true) :
    le lt a c = true := by
  unfold le at *
  simp only [Bool.not_eq_true'] at *
  -- ¬ b<a, ¬ c<b ⊢ ¬ c<a
  cases hca : lt c.1 a.1 with
  | false => rfl
  | true =>
    exfalso
    by_cases hab : a.1 = b.1
    · rw [hab] at hca; rw [hca] at h2; cases h2
    · rcases h.total _ _ hab with h' | h'
      · have := h.trans _ _ _ hca h'; rw [this] at h2; cases h2
      · rw [h'] at h1; cases h1

/-- with distinct labels, being sorted by `le` determines the list among its permutations -/
theorem sorted_perm_eq (h : StrictTotal lt) (l1 l2 : List (L × Nat)) (hp : l1.Perm l2)
    (hd : (l1.map Prod.fst).Nodup) (s1 : l1.Pairwise (fun a b => le lt a b = true))
    (s2 : l2.Pairwise (fun a b => le lt a b = true)) : l1 = l2 := by
  -- strengthen to the strict relation, which is antisymmetric
  have strict : ∀ l : List (L × Nat), (l.map Prod.fst).Nodup → l.Pairwise (fun a b => le lt a b = true) →
      l.Pairwise (fun a b => lt a.1 b.1 = true) := by
    intro l
    induction l with
    | nil => intro _ _; exact List.Pairwise.nil
    | cons x xs ih =>
      intro hn hs
      simp only [List.map_cons, List.nodup_cons] at hn
      rw [List.pairwise_cons] at hs ⊢
      refine ⟨?_, ih hn.2 hs.2⟩
      intro y hy
      have hxy : x.1 ≠ y.1 := by
        intro e; apply hn.1; rw [e]; exact List.mem_map_of_mem (f := Prod.fst) hy
      have hle := hs.1 y hy
      unfold le at hle
      rcases h.total _ _ hxy with h' | h'
      · exact h'
      · rw [h'] at hle; cases hle
  have hd2 : (l2.map Prod.fst).Nodup := (hp.map Prod.fst).nodup_iff.1 hd
  have p1 := strict l1 hd s1
  have p2 := strict l2 hd2 s2
  apply hp.eq_of_pairwise (le := fun a b => lt a.1 b.1 = true) _ p1 p2
  intro a b _ _ hab hba
  have := h.trans _ _ _ hab hba
  rw [h.irrefl] at this; cases this

theorem sortEdges_perm_eq (h : StrictTotal lt) (e1 e2 : List (L × Nat)) (hp : e1.Perm e2)
    (hd : (e1.map Prod.fst).Nodup) : sortEdges lt e1 = sortEdges lt e2 := by
  unfold sortEdges
  have q1 := List.mergeSort_perm e1 (le lt)
  have q2 := List.mergeSort_perm e2 (le lt)
  apply sorted_perm_eq lt h
  · exact q1.trans (hp.trans q2.symm)
  · exact (q1.map Prod.fst).nodup_iff.2 hd
  · exact List.pairwise_mergeSort (fun a b c => le_trans lt h a b c) (fun a b => le_total lt h a b) e1
  · exact List.pairwise_mergeSort (fun a b c => le_trans lt h a b c) (fun a b => le_total lt h a b) e2

/-- same content, slot by slot: same presence, and for present slots the same edge *set* and the same data -/
inductive SameContent : List (Slot L D) → List (Slot L D) → Prop
  | nil : SameContent [] []
  | cons (a b : Slot L D) (as bs) : a.present = b.present →
      (a.present = true → a.edges.Perm b.edges ∧ a.data = b.data ∧ (a.edges.map Prod.fst).Nodup) →
      SameContent as bs → SameContent (a :: as) (b :: bs)

/-- **C18**: two graphs with the same content give the same document, however their edges were inserted -/
theorem doc_same_content (h : StrictTotal lt) (s1 s2 : List (Slot L D)) (hc : SameContent s1 s2) :
    doc lt s1 = doc lt s2 := by
  unfold doc
  generalize 0 = i
  induction hc generalizing i with
  | nil => rfl
  | cons a b as bs hp hrest _ ih =>
    simp only [docFrom, ← hp]
    rw [ih (i + 1)]
    cases hpa : a.present with
    | false => rfl
    | true =>
      obtain ⟨h1, h2, h3⟩ := hrest hpa
      simp only [if_true]
      rw [sortEdges_perm_eq lt h a.edges b.edges h1 h3, h2]

/-- the ids of the document are exactly the ids of the present slots … -/
theorem doc_ids_mem (i : Nat) (slots : List (Slot L D)) (n : Nat) :
    n ∈ (docFrom lt i slots).map (·.id) ↔ ∃ j, n = i + j ∧ (slots[j]?.map (·.present)) = some true := by
  induction slots generalizing i with
  | nil => simp [docFrom]
  | cons s ss ih =>
    simp only [docFrom, List.map_append, List.mem_append, ih (i + 1)]
    constructor
    · rintro (h | ⟨j, rfl, hj⟩)
      · cases hs : s.present with
        | false => simp [hs] at h
        | true => simp [hs] at h; exact ⟨0, by simp [h], by simp [hs]⟩
      · exact ⟨j + 1, by omega, by simpa using hj⟩
    · rintro ⟨j, rfl, hj⟩
      cases j with
      | zero =>
        left
        simp only [List.getElem?_cons_zero, Option.map_some, Option.some.injEq] at hj
        simp [hj]
      | succ j => right; exact ⟨j, by omega, by simpa using hj⟩

/-- … in ascending order -/
theorem doc_ids_sorted (i : Nat) (slots : List (Slot L D)) :
    ((docFrom lt i slots).map (·.id)).Pairwise (· < ·) ∧ ∀ n ∈ (docFrom lt i slots).map (·.id), i ≤ n := by
  induction slots generalizing i with
  | nil => simp [docFrom]
  | cons s ss ih =>
    obtain ⟨h1, h2⟩ := ih (i + 1)
    simp only [docFrom, List.map_append]
    cases hs : s.present with
    | false =>
      simp only [Bool.false_eq_true, if_false, List.map_nil, List.nil_append]
      exact ⟨h1, fun n hn => by have := h2 n hn; omega⟩
    | true =>
      simp only [if_true, List.map_cons, List.map_nil, List.singleton_append]
      refine ⟨List.pairwise_cons.2 ⟨fun n hn => by have := h2 n hn; omega, h1⟩, ?_⟩
      intro n hn
      simp only [List.mem_cons] at hn
      rcases hn with rfl | hn
      · exact Nat.le_refl _
      · have := h2 n hn; omega

#print axioms doc_same_content
#print axioms doc_ids_mem
end Rd
