import Algo.Dfs
/-! C20 probe, part 2: with all edge targets below `cap`, fuel `cap + 1` is never exhausted (`inspect` terminates
    on every graph, cyclic or not). -/
namespace D

/-- how `seen` grows: by consing vertices that were not in it -/
inductive Grows : List Nat → List Nat → Prop
  | refl (s) : Grows s s
  | cons (s s' w) : Grows s s' → w ∉ s' → Grows s (w :: s')

theorem Grows.trans {a b c : List Nat} (h1 : Grows a b) (h2 : Grows b c) : Grows a c := by
  induction h2 with
  | refl => exact h1
  | cons s' w _ hw ih => exact .cons _ _ w ih hw

theorem Grows.len {a b : List Nat} (h : Grows a b) : a.length ≤ b.length := by
  induction h with
  | refl => exact Nat.le_refl _
  | cons _ _ _ _ ih => simp; omega

theorem Grows.nodup {a b : List Nat} (h : Grows a b) (ha : a.Nodup) : b.Nodup := by
  induction h with
  | refl => exact ha
  | cons _ _ _ hw ih => exact List.nodup_cons.2 ⟨hw, ih⟩

mutual
theorem expand_grows (E : Edges) : ∀ fuel v seen exp seen', expand E fuel v seen = some (exp, seen') → Grows seen seen'
  | 0, _, _, _, _, h => by simp [expand] at h
  | fuel + 1, v, seen, exp, seen', h => by
    rw [expand] at h
    split at h
    · cases h
    next e s hl => cases h; exact loop_grows E fuel (E v) seen e _ hl
theorem loop_grows (E : Edges) : ∀ fuel es seen exp seen', kidsLoop E fuel es seen = some (exp, seen') → Grows seen seen'
  | _, [], seen, exp, seen', h => by simp [kidsLoop] at h; obtain ⟨_, rfl⟩ := h; exact .refl _
  | fuel, (a, w) :: rest, seen, exp, seen', h => by
    rw [kidsLoop] at h
    split at h
    · exact loop_grows E fuel rest seen exp seen' h
    next hw =>
      split at h
      · cases h
      next e1 s1 h1 =>
        split at h
        · cases h
        next e2 s2 h2 =>
          have g1 := expand_grows E fuel w (w :: seen) e1 s1 h1
          have g2 := loop_grows E fuel rest s1 e2 s2 h2
          have g := ((Grows.cons seen seen w (.refl _) hw).trans g1).trans g2
          cases h
          exact g
end

theorem bounded_grows {cap : Nat} {a b : List Nat} (h : Grows a b) (ha : ∀ u ∈ a, u < cap)
    (hnew : ∀ u ∈ b, u ∈ a ∨ u < cap) : ∀ u ∈ b, u < cap := by
  intro u hu; rcases hnew u hu with h1 | h1
  · exact ha u h1
  · exact h1

theorem nodup_bounded_length (cap : Nat) (l : List Nat) (hn : l.Nodup) (hb : ∀ u ∈ l, u < cap) : l.length ≤ cap := by
  have := hn.length_le_of_subset (l₂ := List.range cap) (fun u hu => by simpa using hb u hu)
  simpa using this

/-- the fuel is never exhausted -/
theorem fuel_enough (E : Edges) (cap : Nat) (hE : ∀ u p, p ∈ E u → p.2 < cap) :
    ∀ fuel,
      (∀ v seen, seen.Nodup → (∀ u ∈ seen, u < cap) → cap + 1 ≤ fuel + seen.length →
        (expand E fuel v seen).isSome) ∧
      (∀ es seen, (∀ p ∈ es, p.2 < cap) → seen.Nodup → (∀ u ∈ seen, u < cap) → cap ≤ fuel + seen.length →
        (kidsLoop E fuel es seen).isSome) := by
  intro fuel
  induction fuel with
  | zero =>
    have loop0 : ∀ es seen, (∀ p ∈ es, p.2 < cap) → seen.Nodup → (∀ u ∈ seen, u < cap) → cap ≤ 0 + seen.length →
        (kidsLoop E 0 es seen).isSome := by
      intro es
      induction es with
      | nil => intro seen _ _ _ _; simp [kidsLoop]
      | cons e rest ih =>
        intro seen hes hn hb hl
        obtain ⟨a, w⟩ := e
        rw [kidsLoop]
        split
        · exact ih seen (fun p hp => hes p (List.mem_cons_of_mem _ hp)) hn hb hl
        next hw =>
          exfalso
          have hwc : w < cap := hes (a, w) (by simp)
          have := nodup_bounded_length cap (w :: seen) (List.nodup_cons.2 ⟨hw, hn⟩)
            (by intro u hu; simp at hu; rcases hu with rfl | hu; exact hwc; exact hb u hu)
          simp at this; omega
    refine ⟨?_, loop0⟩
    intro v seen hn hb hl
    have := nodup_bounded_length cap seen hn hb
    omega
  | succ fuel ih =>
    obtain ⟨ihE, ihL⟩ := ih
    have expS : ∀ v seen, seen.Nodup → (∀ u ∈ seen, u < cap) → cap + 1 ≤ fuel + 1 + seen.length →
        (expand E (fuel + 1) v seen).isSome := by
      intro v seen hn hb hl
      rw [expand]
      have := ihL (E v) seen (fun p hp => hE v p hp) hn hb (by omega)
      cases hk : kidsLoop E fuel (E v) seen with
      | none => rw [hk] at this; cases this
      | some x => obtain ⟨e, s⟩ := x; rfl
    refine ⟨expS, ?_⟩
    intro es
    induction es with
    | nil => intro seen _ _ _ _; simp [kidsLoop]
    | cons e rest ihes =>
      intro seen hes hn hb hl
      obtain ⟨a, w⟩ := e
      have hrest : ∀ p ∈ rest, p.2 < cap := fun p hp => hes p (List.mem_cons_of_mem _ hp)
      rw [kidsLoop]
      split
      · exact ihes seen hrest hn hb hl
      next hw =>
        have hwc : w < cap := hes (a, w) (by simp)
        have hn' : (w :: seen).Nodup := List.nodup_cons.2 ⟨hw, hn⟩
        have hb' : ∀ u ∈ w :: seen, u < cap := by
          intro u hu; simp at hu; rcases hu with rfl | hu; exact hwc; exact hb u hu
        have h1 := expS w (w :: seen) hn' hb' (by simp; omega)
        cases hx : expand E (fuel + 1) w (w :: seen) with
        | none => rw [hx] at h1; cases h1
        | some x =>
          obtain ⟨e1, s1⟩ := x
          simp only
          have g := expand_grows E (fuel + 1) w (w :: seen) e1 s1 hx
          have sp := (Q_all E (fuel + 1) w (w :: seen) e1 s1 hx).head
          obtain ⟨e0, _, ls⟩ := sp
          have hn1 : s1.Nodup := g.nodup hn'
          have hb1 : ∀ u ∈ s1, u < cap := by
            intro u hu
            rcases (ls.grow u).1 hu with h0 | h0
            · exact hb' u h0
            · obtain ⟨p, hp, hr⟩ := ls.reach u h0
              -- reachable vertices are edge targets (or the start), hence below cap
              have : ∀ x y, Reach E x y → x < cap → y < cap := by
                intro x y hxy hx
                induction hxy with
                | refl => exact hx
                | step _ he _ => exact hE _ _ he
              exact this _ _ hr (hE w p hp)
          have hl1 : cap ≤ fuel + 1 + s1.length := by have := g.len; simp at this; omega
          have h2 := ihes s1 hrest hn1 hb1 hl1
          cases hy : kidsLoop E (fuel + 1) rest s1 with
          | none => rw [hy] at h2; cases h2
          | some y => obtain ⟨e2, s2⟩ := y; rfl

/-- **`inspect` terminates**: with fuel `cap + 1` the result is never `none` -/
theorem inspect_terminates (E : Edges) (cap v : Nat) (hv : v < cap) (hE : ∀ u p, p ∈ E u → p.2 < cap) :
    (inspect E (cap + 1) v).isSome := by
  have := (fuel_enough E cap hE (cap + 1)).1 v [v] (by simp) (by simp [hv]) (by simp)
  unfold inspect
  cases h : expand E (cap + 1) v [v] with
  | none => rw [h] at this; cases this
  | some x => rfl

#print axioms inspect_terminates
end D
