import Algo.ScriptProofs
set_option linter.unusedSectionVars false
/-! The concrete token printers of C14 and the proof that the parsers of `script.rs` invert them (`S.Tokens`):
    ids in decimal with an optional `ν` (chosen per value), `$name` variables, labels printed as C17 prints them,
    data in upper-case pairs joined by dashes. With `Ss.deploy_render` this gives C14 for the real token types. -/
namespace Ss
open Sodg S

/-- a character that may occur inside a token: not white space, none of `, ) # ;` -/
def CharOK (c : Char) : Prop := isWs c = false ∧ c ≠ ',' ∧ c ≠ ')' ∧ c ≠ '#' ∧ c ≠ ';'

theorem clean_of_all (t : List Char) (hne : t ≠ []) (h : ∀ c ∈ t, CharOK c) : Clean isWs t := by
  refine ⟨⟨hne, ?_, ?_⟩, fun c hc => (h c hc).2⟩
  · intro c hc
    cases t with
    | nil => exact absurd rfl hne
    | cons x xs => simp at hc; subst hc; exact (h _ (by simp)).1
  · intro c hc
    have : c ∈ t := List.mem_of_getLast? hc
    exact (h c this).1

/-! ### vertex tokens -/

def tV (nu : Nat → Bool) : VTok → List Char
  | .lit x => (if nu x then ['ν'] else []) ++ A.printDec x
  | .var name => '$' :: name

def dV : VTok → Prop
  | .lit x => x < 2 ^ 64
  | .var name => ∀ c ∈ name, CharOK c

theorem digit_ok : ∀ d, d < 10 → CharOK (A.digitChar d) ∧ A.digitChar d ≠ '$' ∧ A.digitChar d ≠ 'ν' := by
  intro d hd
  have : d = 0 ∨ d = 1 ∨ d = 2 ∨ d = 3 ∨ d = 4 ∨ d = 5 ∨ d = 6 ∨ d = 7 ∨ d = 8 ∨ d = 9 := by omega
  rcases this with rfl | rfl | rfl | rfl | rfl | rfl | rfl | rfl | rfl | rfl <;> (unfold CharOK; decide)

theorem printDec_chars (x : Nat) : A.printDec x ≠ [] ∧ ∀ c ∈ A.printDec x, ∃ d, d < 10 ∧ c = A.digitChar d := by
  unfold A.printDec
  constructor
  · have := A.digitsRev_ne_nil (x + 1) x (by omega)
    simp [this]
  · intro c hc
    simp only [List.mem_map, List.mem_reverse] at hc
    obtain ⟨d, hd, rfl⟩ := hc
    exact ⟨d, A.digitsRev_lt _ _ d hd, rfl⟩

theorem pV_digits (s : List Char) (hne : s ≠ []) (h : ∀ c ∈ s, ∃ d, d < 10 ∧ c = A.digitChar d) :
    pV s = (Lb.parseUsize s).map .lit := by
  cases s with
  | nil => exact absurd rfl hne
  | cons c r =>
    obtain ⟨d, hd, rfl⟩ := h c (by simp)
    have := digit_ok d hd
    unfold pV
    split
    · rename_i heq; cases heq
    · rename_i heq; simp only [List.cons.injEq] at heq; exact absurd heq.1 this.2.1
    · rename_i heq; simp only [List.cons.injEq] at heq; exact absurd heq.1 this.2.2
    · rfl

theorem tokens_v (nu : Nat → Bool) (x : VTok) (hx : dV x) : pV (tV nu x) = some x ∧ Clean isWs (tV nu x) := by
  cases x with
  | lit n =>
    obtain ⟨hne, hch⟩ := printDec_chars n
    have hp := Lb.parseUsize_printDec n hx
    have hall : ∀ c ∈ A.printDec n, CharOK c := by
      intro c hc; obtain ⟨d, hd, rfl⟩ := hch c hc; exact (digit_ok d hd).1
    simp only [tV]
    cases nu n with
    | false =>
      simp only [Bool.false_eq_true, if_false, List.nil_append]
      exact ⟨by rw [pV_digits _ hne hch, hp]; rfl, clean_of_all _ hne hall⟩
    | true =>
      simp only [if_true, List.singleton_append]
      refine ⟨by simp [pV, hp], clean_of_all _ (by simp) ?_⟩
      intro c hc
      simp only [List.mem_cons] at hc
      rcases hc with rfl | hc
      · unfold CharOK; decide
      · exact hall c hc
  | var name =>
    refine ⟨rfl, clean_of_all _ (by simp [tV]) ?_⟩
    intro c hc
    simp only [tV, List.mem_cons] at hc
    rcases hc with rfl | hc
    · unfold CharOK; decide
    · exact hx c hc

/-! ### labels -/

def dL (l : Label) : Prop := Lb.CanonLabel l ∧ Lb.print l ≠ [] ∧ ∀ c ∈ Lb.print l, CharOK c

theorem tokens_l (l : Label) (h : dL l) : pL (Lb.print l) = some l ∧ Clean isWs (Lb.print l) :=
  ⟨Lb.parse_print_label l h.1, clean_of_all _ h.2.1 h.2.2⟩

/-! ### data -/

def tD (h : Hex) : List Char := HD.print h.toBytes

def dD (h : Hex) : Prop := h = Hx.Hex.ofBytes h.toBytes ∧ h.toBytes ≠ []

theorem upper_ok : ∀ d, d < 16 → CharOK (HD.upperDigit d) ∧ HD.isSep (HD.upperDigit d) = false := by
  intro d hd
  have : d = 0 ∨ d = 1 ∨ d = 2 ∨ d = 3 ∨ d = 4 ∨ d = 5 ∨ d = 6 ∨ d = 7 ∨ d = 8 ∨ d = 9 ∨ d = 10 ∨ d = 11 ∨ d = 12 ∨
      d = 13 ∨ d = 14 ∨ d = 15 := by omega
  rcases this with rfl | rfl | rfl | rfl | rfl | rfl | rfl | rfl | rfl | rfl | rfl | rfl | rfl | rfl | rfl | rfl <;>
    (unfold CharOK; decide)

theorem printPairs_chars (bs : List UInt8) : ∀ c ∈ HD.printPairs bs, c = '-' ∨ ∃ d, d < 16 ∧ c = HD.upperDigit d := by
  induction bs with
  | nil => intro c hc; simp [HD.printPairs] at hc
  | cons b rest ih =>
    intro c hc
    cases rest with
    | nil =>
      simp only [HD.printPairs, List.mem_cons, List.mem_nil_iff, or_false] at hc
      have hb := b.toNat_lt
      rcases hc with rfl | rfl
      · exact Or.inr ⟨_, by omega, rfl⟩
      · exact Or.inr ⟨_, by omega, rfl⟩
    | cons b' rest' =>
      have hb := b.toNat_lt
      simp only [HD.printPairs, List.mem_cons] at hc
      rcases hc with rfl | rfl | rfl | hc
      · exact Or.inr ⟨_, by omega, rfl⟩
      · exact Or.inr ⟨_, by omega, rfl⟩
      · exact Or.inl rfl
      · exact ih c (by simpa [HD.printPairs] using hc)

theorem filter_sep_eq (l : List Char) (h : ∀ c ∈ l, c = '-' ∨ HD.isSep c = false) :
    l.filter (fun c => !HD.isSep c) = l.filter (fun c => c != '-') := by
  apply List.filter_congr
  intro c hc
  rcases h c hc with rfl | h'
  · decide
  · have : c ≠ '-' := by rintro rfl; revert h'; decide
    simp [h', this]

theorem tokens_d (h : Hex) (hd : dD h) : pD (tD h) = some h ∧ Clean isWs (tD h) := by
  obtain ⟨hrep, hne⟩ := hd
  have hprint : HD.print h.toBytes = HD.printPairs h.toBytes := by
    unfold HD.print
    cases hb : h.toBytes with
    | nil => exact absurd hb hne
    | cons _ _ => rfl
  have hch := printPairs_chars h.toBytes
  constructor
  · unfold pD tD
    have hf : (HD.print h.toBytes).filter (fun c => !HD.isSep c) = (HD.printPairs h.toBytes).filter (fun c => c != '-') := by
      rw [hprint]
      apply filter_sep_eq
      intro c hc
      rcases hch c hc with rfl | ⟨d, hd, rfl⟩
      · exact Or.inl rfl
      · exact Or.inr (upper_ok d hd).2
    rw [HD.parseData_spelled h.toBytes hne _ _ (HD.filter_printPairs h.toBytes) hf]
    simp only [Option.map_some]
    rw [← hrep]
  · unfold tD
    rw [hprint]
    apply clean_of_all
    · cases hb : h.toBytes with
      | nil => exact absurd hb hne
      | cons b rest => cases rest <;> simp [HD.printPairs]
    · intro c hc
      rcases hch c hc with rfl | ⟨d, hd, rfl⟩
      · unfold CharOK; decide
      · exact (upper_ok d hd).1

/-- the parsers of `script.rs` invert the concrete token printers on their domains -/
theorem tokens (nu : Nat → Bool) : Tokens isWs pV pL pD (tV nu) Lb.print tD dV dL dD :=
  ⟨tokens_v nu, tokens_l, tokens_d⟩

/-- **C14 for the real token types**: ids below 2^64 written in decimal with or without `ν`, `$variables` with
    clean names, canonical labels with clean texts, non-empty data in upper-case pairs; any legal formatting -/
theorem deploy_render_concrete (nu : Nat → Bool) (prog : List (ACmd Label Hex × CmdFmt)) (trail : List Filler)
    (hf : ∀ x ∈ prog, x.2.ok isWs) (ht : ∀ x ∈ trail, x.ok isWs) (hdom : ∀ x ∈ prog, inDom dV dL dD x.1)
    (g : G Label Hex) :
    deploy (renderScript (tV nu) Lb.print tD prog trail) g = execProg (prog.map (·.1)) g :=
  deploy_render (tV nu) Lb.print tD dV dL dD (tokens nu) prog trail hf ht hdom g

end Ss
