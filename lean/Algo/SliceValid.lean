import Algo.SliceProofs
set_option linter.unusedSectionVars false
/-! The rebuild of `slice_some` stays within the limits whenever at most 14 vertices are kept (C13's quantifier):
    `Valid` for `rebuildOps`, so `slice_exact` needs no validity hypothesis for small slices. -/
namespace Sodg

variable {L D : Type} [DecidableEq L] [Inhabited D]

theorem valid_append (n c : Nat) : ∀ (a b : List (Op L D)) (r : R L D),
    Valid n c r a → Valid n c (R.exec c r a) b → Valid n c r (a ++ b) := by
  intro a
  induction a with
  | nil => intro b r _ h; exact h
  | cons op rest ih =>
    intro b r ha hb
    exact ⟨ha.1, ih b _ ha.2 hb⟩

/-- what the rebuild keeps true of the fresh graph: the alive ids are distinct, all in the list `U` of kept ids,
    and only alive vertices are grouped -/
structure VJ (U : List Nat) (r : R L D) : Prop where
  nd : r.ids.Nodup
  sub : ∀ v ∈ r.ids, v ∈ U
  grp : ∀ v k, r.grp v = some k → v ∈ r.ids

theorem VJ.add {U : List Nat} {r : R L D} (h : VJ U r) (t : Nat) (ht : t ∈ U) : VJ U (r.add t) := by
  by_cases hp : t ∈ r.ids
  · rw [R.add_present_noop r t hp]; exact h
  · refine ⟨?_, ?_, ?_⟩
    · simp only [R.add, hp, if_false]; exact List.nodup_cons.2 ⟨hp, h.nd⟩
    · intro v hv
      simp only [R.add, hp, if_false, List.mem_cons] at hv
      rcases hv with rfl | hv
      · exact ht
      · exact h.sub v hv
    · intro v k hv
      by_cases hvt : v = t
      · subst hvt; rw [(R.add_absent_blank r v hp).2.2.2.1] at hv; cases hv
      · obtain ⟨h1, _, _, h4, _⟩ := (R.add_absent_blank r t hp).2.2.2.2.2 v hvt
        rw [h4] at hv
        exact h1.2 (h.grp v k hv)

theorem VJ.bind {U : List Nat} {r : R L D} (h : VJ U r) (x t : Nat) (a : L) (hx : x ∈ r.ids) (ht : t ∈ r.ids) :
    VJ U (r.bind x t a) := by
  refine ⟨by rw [R.ids_bind]; exact h.nd, by rw [R.ids_bind]; exact h.sub, ?_⟩
  intro v k hv
  rw [R.ids_bind]
  rw [R.grp_bind] at hv
  split at hv
  · simp only [upd_get] at hv
    split at hv
    · next e => rw [e]; exact ht
    · split at hv
      · next e => rw [e]; exact hx
      · exact h.grp v k hv
  · simp only [upd_get] at hv
    split at hv
    · next e => rw [e]; exact hx
    · exact h.grp v k hv
  · simp only [upd_get] at hv
    split at hv
    · next e => rw [e]; exact ht
    · exact h.grp v k hv
  · exact h.grp v k hv

theorem filterMap_two_none {α β} (f : α → Option β) (a b : α) (hab : a ≠ b) (fa : f a = none) (fb : f b = none) :
    ∀ (l : List α), a ∈ l → b ∈ l → (l.filterMap f).length + 2 ≤ l.length := by
  have one : ∀ (c : α), f c = none → ∀ (l : List α), c ∈ l → (l.filterMap f).length + 1 ≤ l.length := by
    intro c fc l
    induction l with
    | nil => intro h; cases h
    | cons h t ih =>
      intro hm
      simp only [List.mem_cons] at hm
      rcases hm with rfl | hm
      · simp only [List.filterMap_cons, fc, List.length_cons]
        have := List.length_filterMap_le f t
        omega
      · have := ih hm
        simp only [List.filterMap_cons, List.length_cons]
        split <;> (try simp only [List.length_cons]) <;> omega
  intro l
  induction l with
  | nil => intro h; cases h
  | cons h t ih =>
    intro ha hb
    simp only [List.mem_cons] at ha hb
    rcases ha with rfl | ha
    · rcases hb with rfl | hb
      · exact absurd rfl hab
      · have := one b fb t hb
        simp only [List.filterMap_cons, fa, List.length_cons]; omega
    · rcases hb with rfl | hb
      · have := one a fa t ha
        simp only [List.filterMap_cons, fb, List.length_cons]; omega
      · have := ih ha hb
        simp only [List.filterMap_cons, List.length_cons]
        split <;> (try simp only [List.length_cons]) <;> omega

theorem dedup_length_le : ∀ (l : List Nat), (dedup l).length ≤ l.length := by
  intro l
  induction l with
  | nil => simp [dedup]
  | cons x xs ih =>
    unfold dedup; split
    · simp only [List.length_cons]; omega
    · simp only [List.length_cons]; omega

/-- with at most 14 distinct candidates alive, every bind of two distinct alive vertices is within the group limits -/
theorem bindOk_small {U : List Nat} {r : R L D} (h : VJ U r) (hU : U.Nodup) (h14 : U.length ≤ 14)
    (x t : Nat) (hx : x ∈ r.ids) (ht : t ∈ r.ids) (hne : x ≠ t) : BindOk r x t := by
  have hlen : r.ids.length ≤ 14 := Nat.le_trans (h.nd.length_le_of_subset (fun v hv => h.sub v hv)) h14
  refine ⟨hx, ht, hne, ?_, ?_, ?_⟩
  · intro g1 g2
    have := filterMap_two_none r.grp x t hne g1 g2 r.ids hx ht
    have := dedup_length_le (r.ids.filterMap r.grp)
    unfold R.groups; omega
  · intro _ k _
    have : (r.members k).length ≤ r.ids.length := by unfold R.members; exact List.length_filter_le _ _
    omega
  · intro _ k _
    have : (r.members k).length ≤ r.ids.length := by unfold R.members; exact List.length_filter_le _ _
    omega

variable (src : Nat → List (L × Nat)) (kept : Nat → Bool)

/-- one vertex of the rebuild: every `add`/`bind` of its block is within the limits -/
theorem valid_rebuildEdges (n c : Nat) (U : List Nat) (hU : U.Nodup) (h14 : U.length ≤ 14) (x : Nat) :
    ∀ (es : List (L × Nat)) (r : R L D) (pre : List (L × Nat)),
    VJ U r → x ∈ r.ids → r.edg x = pre → ((pre ++ es).map Prod.fst).Nodup → (∀ p ∈ es, p.2 ≠ x) →
    (pre ++ es).length ≤ n → (∀ p ∈ es, kept p.2 = true → p.2 ∈ U ∧ p.2 < c) →
    Valid n c r ((es.filter (fun e => kept e.2)).flatMap (fun e => [Op.add e.2, Op.bind x e.2 e.1])) ∧
      VJ U (rebuildEdges kept x r es) := by
  intro es
  induction es with
  | nil => intro r pre hj _ _ _ _ _ _; exact ⟨trivial, hj⟩
  | cons e rest ih =>
    intro r pre hj hx he hnd hne hlen hk
    obtain ⟨a, t⟩ := e
    have htx : t ≠ x := hne (a, t) (by simp)
    simp only [rebuildEdges, List.filter_cons]
    cases hkt : kept t with
    | false =>
      simp only [Bool.false_eq_true, if_false]
      have hnd' : ((pre ++ rest).map Prod.fst).Nodup := by
        simp only [List.map_append, List.map_cons] at hnd ⊢
        exact hnd.sublist (List.Sublist.append_left (List.sublist_cons_self _ _) _)
      exact ih r pre hj hx he hnd' (fun p hp => hne p (List.mem_cons_of_mem _ hp))
        (by simp only [List.length_append, List.length_cons] at hlen ⊢; omega)
        (fun p hp => hk p (List.mem_cons_of_mem _ hp))
    | true =>
      simp only [if_true, List.flatMap_cons, List.cons_append, List.nil_append]
      obtain ⟨htU, htc⟩ := hk (a, t) (by simp) hkt
      have hj1 : VJ U (r.add t) := hj.add t htU
      have hx1 : x ∈ (r.add t).ids := R.ids_add r t x hx
      have ht1 : t ∈ (r.add t).ids := by
        by_cases hp : t ∈ r.ids
        · rw [R.add_present_noop r t hp]; exact hp
        · exact (R.add_absent_blank r t hp).1
      have hex1 : (r.add t).edg x = pre := by
        by_cases hp : t ∈ r.ids
        · rw [R.add_present_noop r t hp]; exact he
        · rw [((R.add_absent_blank r t hp).2.2.2.2.2 x (Ne.symm htx)).2.1]; exact he
      have hfresh : a ∉ pre.map Prod.fst := by
        simp only [List.map_append, List.map_cons] at hnd
        intro hm
        have := (List.nodup_append.1 hnd).2.2 a hm a (by simp)
        exact this rfl
      have hj2 : VJ U ((r.add t).bind x t a) := hj1.bind x t a hx1 ht1
      have hx2 : x ∈ ((r.add t).bind x t a).ids := by rw [R.ids_bind]; exact hx1
      have hex2 : ((r.add t).bind x t a).edg x = pre ++ [(a, t)] := by
        rw [edg_bind, upd_same, hex1, upsert_fresh pre a t hfresh]
      have hnd' : (((pre ++ [(a, t)]) ++ rest).map Prod.fst).Nodup := by simpa using hnd
      obtain ⟨v1, v2⟩ := ih ((r.add t).bind x t a) (pre ++ [(a, t)]) hj2 hx2 hex2 hnd'
        (fun p hp => hne p (List.mem_cons_of_mem _ hp)) (by simpa using hlen)
        (fun p hp => hk p (List.mem_cons_of_mem _ hp))
      refine ⟨⟨htc, ?_, v1⟩, v2⟩
      show BindOk (r.add t) x t ∧ (upsert ((r.add t).edg x) a t).length ≤ n
      refine ⟨bindOk_small hj1 hU h14 x t hx1 ht1 (Ne.symm htx), ?_⟩
      rw [hex1, upsert_fresh pre a t hfresh]
      simp only [List.length_append, List.length_cons, List.length_nil] at hlen ⊢
      omega

/-- **the whole rebuild is within the limits**: distinct labels per source vertex, at most `n` of them, no
    self-loops, at most 14 kept ids, all below the capacity -/
theorem valid_rebuild (n c : Nat) (hs : SrcOK src) (hlen : ∀ x, (src x).length ≤ n) (U : List Nat) (hU : U.Nodup)
    (h14 : U.length ≤ 14) (hUc : ∀ u ∈ U, u < c) (hk : ∀ t, kept t = true → t ∈ U) :
    ∀ (xs : List Nat) (r : R L D) (P : List Nat), RB src kept r P → VJ U r → (∀ x ∈ xs, kept x = true ∧ x ∉ P) → xs.Nodup →
      Valid n c r (rebuildOps src kept xs) := by
  intro xs
  induction xs with
  | nil => intro r P _ _ _ _; exact trivial
  | cons x rest ih =>
    intro r P hrb hj hxs hnd
    obtain ⟨hkx, hxP⟩ := hxs x (by simp)
    have hxU := hk x hkx
    simp only [rebuildOps, List.flatMap_cons, List.cons_append]
    have hx1 : x ∈ (r.add x).ids := by
      by_cases hx : x ∈ r.ids
      · rw [R.add_present_noop r x hx]; exact hx
      · exact (R.add_absent_blank r x hx).1
    have he1 : (r.add x).edg x = [] := by
      by_cases hx : x ∈ r.ids
      · rw [R.add_present_noop r x hx]; exact hrb.blank x hx hxP
      · exact (R.add_absent_blank r x hx).2.1
    have hj1 : VJ U (r.add x) := hj.add x hxU
    obtain ⟨v1, v2⟩ := valid_rebuildEdges kept n c U hU h14 x (src x) (r.add x) [] hj1 hx1 he1
      (by simpa using hs.nodup x) (hs.noself x) (by simpa using hlen x)
      (fun p _ hkp => ⟨hk p.2 hkp, hUc _ (hk p.2 hkp)⟩)
    refine ⟨hUc x hxU, ?_⟩
    show Valid n c (r.add x) _
    apply valid_append n c _ _ _ v1
    rw [exec_rebuildEdges]
    -- the invariants after the block of x
    have hsingle := rebuild_spec src kept hs [x] r P hrb (fun y hy => by simp at hy; subst hy; exact ⟨hkx, hxP⟩) (by simp)
    simp only [rebuild, List.reverse_cons, List.reverse_nil, List.nil_append, List.singleton_append] at hsingle
    simp only [List.nodup_cons] at hnd
    exact ih _ (x :: P) hsingle.1 v2
      (fun y hy => by
        obtain ⟨hky, hyP⟩ := hxs y (List.mem_cons_of_mem _ hy)
        refine ⟨hky, ?_⟩
        simp only [List.mem_cons, not_or]
        exact ⟨by rintro rfl; exact hnd.1 hy, hyP⟩) hnd.2


/-- every reachable state is reachable by well-formed calls for the trivial well-formedness predicates -/
theorem Reach.toW {n c : Nat} {g : G L D} {r : R L D} {P : List (Nat × Nat)} (h : Reach n c g r P) :
    ReachW (fun _ : L => True) (fun _ : D => True) n c g r P := by
  induction h with
  | init => exact .init
  | step op g' o _ ok hs ih => exact .step op g' o ih ok (by cases op <;> trivial) hs

/-- at most `N` labels in every slot of a reachable graph -/
theorem Reach.elen {n c : Nat} {g : G L D} {r : R L D} {P : List (Nat × Nat)} (h : Reach n c g r P) :
    ∀ u, (edg g u).length ≤ g.n :=
  (ReachW.wfs (fun _ : L => True) (fun _ : D => True) trivial h.toW).elen

/-- **C13 at its own quantifier**: for every reachable source, every start vertex below the capacity and every
    predicate, if the closure keeps at most 14 ids then `slice_some` does not panic and returns exactly the
    reachable sub-graph -/
theorem slice_small {n c : Nat} {g : G L D} {r : R L D} {P : List (Nat × Nat)} (h : Reach n c g r P)
    (v : Nat) (hv : v < cap g) (p : Nat → Nat → L → Bool) (done : List Nat) (hd : sliceDone g v p = some done)
    (h14 : (keptIds g done).length ≤ 14) :
    ∃ g', sliceSome g v p = some g' ∧
      (∀ u, u ∈ keys g' ↔ Sl.Reach (fun u => edg g u) p v u) ∧
      (∀ x ∈ keys g', edg g' x = (edg g x).filter (fun e => decide (e.2 ∈ done))) := by
  have hE := h.edgesBelow
  have hOK := h.edgesOK
  have hsrc : SrcOK (fun u => edg g u) := ⟨hOK.1, hOK.2⟩
  have hreach : ∀ u, u ∈ done ↔ Sl.Reach (fun u => edg g u) p v u :=
    Sl.slice_done_eq_reach (fun u => edg g u) p v id (fun _ _ => Iff.rfl) (cap g + 1) done hd
  have hlt : ∀ u, u ∈ done → u < cap g := by
    intro u hu
    have hr := (hreach u).1 hu
    induction hr with
    | refl => exact hv
    | step _ he _ _ => exact hE _ _ he
  have hnd : (keptIds g done).Nodup := by
    unfold keptIds; exact List.filter_sublist.nodup List.nodup_range
  have hvalid : Valid g.n (cap g) (R.empty : R L D)
      (rebuildOps (fun u => edg g u) (fun u => decide (u ∈ done)) (keptIds g done)) := by
    apply valid_rebuild (fun u => edg g u) (fun u => decide (u ∈ done)) g.n (cap g) hsrc h.elen (keptIds g done) hnd h14
      (fun u hu => by simp only [keptIds, List.mem_filter, List.mem_range] at hu; exact hu.1)
      (fun t ht => by
        have : t ∈ done := by simpa using ht
        simp only [keptIds, List.mem_filter, List.mem_range]
        exact ⟨hlt t this, by simpa using this⟩)
      (keptIds g done) R.empty []
      ⟨by simp [R.empty], by simp, by simp [R.empty]⟩
      ⟨by simp [R.empty], by simp [R.empty], by simp [R.empty]⟩
      (fun x hx => by
        simp only [keptIds, List.mem_filter, List.mem_range] at hx
        exact ⟨hx.2, by simp⟩) hnd
  have hrel0 : Rel (empty g.n (cap g) : G L D) R.empty := rel_empty g.n (cap g)
  have hcap0 : cap (empty g.n (cap g) : G L D) = cap g := by simp [empty, cap]
  obtain ⟨g1, ha, _, _, _⟩ := applyOps_rel _ (empty g.n (cap g) : G L D) R.empty hrel0
    (by rw [hcap0]; simpa [empty] using hvalid)
  have hs : sliceSome g v p = some g1 := by
    unfold sliceSome; rw [if_pos hv, hd]; exact ha
  obtain ⟨e1, e2, _⟩ := slice_exact g g1 v p hE hsrc done hd hs hvalid
  exact ⟨g1, hs, e1, e2⟩

end Sodg
