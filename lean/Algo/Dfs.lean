/-! Feasibility probe for C20 (inspect): the seen-set guarded recursion expands exactly the reachable vertices,
    each exactly once. Labels abstracted to Nat. -/
namespace D

abbrev Edges := Nat → List (Nat × Nat)

inductive Reach (E : Edges) (v : Nat) : Nat → Prop
  | refl : Reach E v v
  | step {u a w} : Reach E v u → (a, w) ∈ E u → Reach E v w

theorem Reach.trans {E : Edges} {a b c : Nat} (h1 : Reach E a b) (h2 : Reach E b c) : Reach E a c := by
  induction h2 with
  | refl => exact h1
  | step _ he ih => exact Reach.step ih he

mutual
/-- body of `inspect_v` for a vertex already in `seen`; returns the expanded vertices (in order) and the new `seen` -/
def expand (E : Edges) : Nat → Nat → List Nat → Option (List Nat × List Nat)
  | 0, _, _ => none
  | fuel + 1, v, seen =>
    match kidsLoop E fuel (E v) seen with
    | none => none
    | some (exp, seen') => some (v :: exp, seen')
/-- the `for_each` over the (sorted) edges of one vertex -/
def kidsLoop (E : Edges) : Nat → List (Nat × Nat) → List Nat → Option (List Nat × List Nat)
  | _, [], seen => some ([], seen)
  | fuel, (_, w) :: rest, seen =>
    if w ∈ seen then kidsLoop E fuel rest seen
    else
      match expand E fuel w (w :: seen) with
      | none => none
      | some (exp1, seen1) =>
        match kidsLoop E fuel rest seen1 with
        | none => none
        | some (exp2, seen2) => some (exp1 ++ exp2, seen2)
end

/-- what a run of the loop over `es` guarantees -/
structure LoopSpec (E : Edges) (es : List (Nat × Nat)) (seen exp seen' : List Nat) : Prop where
  nodup : exp.Nodup
  fresh : ∀ u ∈ exp, u ∉ seen
  grow : ∀ u, u ∈ seen' ↔ u ∈ seen ∨ u ∈ exp
  targets : ∀ p ∈ es, p.2 ∈ seen'
  closed : ∀ u ∈ exp, ∀ p ∈ E u, p.2 ∈ seen'
  reach : ∀ u ∈ exp, ∃ p ∈ es, Reach E p.2 u

/-- what one expansion of `v` (already in `seen`) guarantees; `exp = v :: exp0` -/
structure ExpSpec (E : Edges) (v : Nat) (seen exp seen' : List Nat) : Prop where
  head : ∃ exp0, exp = v :: exp0 ∧ LoopSpec E (E v) seen exp0 seen'

def Q (E : Edges) (fuel : Nat) : Prop :=
  ∀ v seen exp seen', expand E fuel v seen = some (exp, seen') → ExpSpec E v seen exp seen'

def Pl (E : Edges) (fuel : Nat) : Prop :=
  ∀ es seen exp seen', kidsLoop E fuel es seen = some (exp, seen') → LoopSpec E es seen exp seen'

theorem loop_of_Q (E : Edges) (fuel : Nat) (hQ : Q E fuel) : Pl E fuel := by
  intro es
  induction es with
  | nil =>
    intro seen exp seen' h
    simp [kidsLoop] at h
    obtain ⟨rfl, rfl⟩ := h
    exact ⟨by simp, by simp, by simp, by simp, by simp, by simp⟩
  | cons e rest ih =>
    intro seen exp seen' h
    obtain ⟨a, w⟩ := e
    rw [kidsLoop] at h
    split at h
    next hw =>
      have s := ih seen exp seen' h
      refine ⟨s.nodup, s.fresh, s.grow, ?_, s.closed, ?_⟩
      · intro p hp
        simp only [List.mem_cons] at hp
        rcases hp with rfl | hp
        · exact (s.grow w).2 (Or.inl hw)
        · exact s.targets p hp
      · intro u hu
        obtain ⟨p, hp, hr⟩ := s.reach u hu
        exact ⟨p, List.mem_cons_of_mem _ hp, hr⟩
    next hw =>
      split at h
      · cases h
      next exp1 seen1 h1 =>
        split at h
        · cases h
        next exp2 seen2 h2 =>
          obtain ⟨exp0, rfl, s1⟩ := (hQ w (w :: seen) exp1 seen1 h1).head
          have s2 := ih seen1 exp2 seen2 h2
          -- elements of exp1 = w :: exp0 are in seen1
          have in1 : ∀ u ∈ w :: exp0, u ∈ seen1 := by
            intro u hu
            simp only [List.mem_cons] at hu
            rcases hu with rfl | hu
            · exact (s1.grow u).2 (Or.inl (by simp))
            · exact (s1.grow u).2 (Or.inr hu)
          have key : LoopSpec E ((a, w) :: rest) seen ((w :: exp0) ++ exp2) seen2 := by
            refine ⟨?_, ?_, ?_, ?_, ?_, ?_⟩
            · -- nodup
              rw [List.nodup_append]
              refine ⟨?_, s2.nodup, ?_⟩
              · refine List.nodup_cons.2 ⟨?_, s1.nodup⟩
                intro hm; exact s1.fresh w hm (by simp)
              · intro x hx y hy hxy; subst hxy; exact s2.fresh x hy (in1 x hx)
            · intro u hu
              simp only [List.mem_append, List.mem_cons] at hu
              rcases hu with (rfl | hu) | hu
              · exact hw
              · intro hm; exact s1.fresh u hu (List.mem_cons_of_mem _ hm)
              · intro hm; exact s2.fresh u hu ((s1.grow u).2 (Or.inl (List.mem_cons_of_mem _ hm)))
            · intro u
              rw [s2.grow, s1.grow]
              simp only [List.mem_cons, List.mem_append]
              grind
            · intro p hp
              simp only [List.mem_cons] at hp
              rcases hp with rfl | hp
              · exact (s2.grow w).2 (Or.inl (in1 w (by simp)))
              · exact s2.targets p hp
            · intro u hu p hp
              simp only [List.mem_append, List.mem_cons] at hu
              rcases hu with (rfl | hu) | hu
              · exact (s2.grow _).2 (Or.inl (s1.targets p hp))
              · exact (s2.grow _).2 (Or.inl (s1.closed u hu p hp))
              · exact s2.closed u hu p hp
            · intro u hu
              simp only [List.mem_append, List.mem_cons] at hu
              rcases hu with (rfl | hu) | hu
              · exact ⟨(a, u), by simp, Reach.refl⟩
              · obtain ⟨p, hp, hr⟩ := s1.reach u hu
                exact ⟨(a, w), by simp, Reach.trans (Reach.step Reach.refl hp) hr⟩
              · obtain ⟨p, hp, hr⟩ := s2.reach u hu
                exact ⟨p, List.mem_cons_of_mem _ hp, hr⟩
          cases h
          exact key

theorem Q_all (E : Edges) : ∀ fuel, Q E fuel
  | 0 => by intro v seen exp seen' h; simp [expand] at h
  | fuel + 1 => by
    intro v seen exp seen' h
    rw [expand] at h
    split at h
    · cases h
    next exp0 s' hl =>
      cases h
      exact ⟨exp0, rfl, loop_of_Q E fuel (Q_all E fuel) _ _ _ _ hl⟩

/-- `inspect(v)`: insert `v`, expand. -/
def inspect (E : Edges) (fuel v : Nat) : Option (List Nat) := (expand E fuel v [v]).map (·.1)

/-- **C20 in miniature**: the vertices whose edges get listed are duplicate-free and are exactly those reachable
from `v`; since every expanded vertex lists each of its edges once, every edge of every reachable vertex is listed
exactly once. -/
theorem inspect_exact (E : Edges) (fuel v : Nat) (exp : List Nat) (h : inspect E fuel v = some exp) :
    exp.Nodup ∧ ∀ u, u ∈ exp ↔ Reach E v u := by
  unfold inspect at h
  cases hx : expand E fuel v [v] with
  | none => simp [hx] at h
  | some pr =>
    obtain ⟨exp', seen'⟩ := pr
    simp [hx] at h; subst h
    obtain ⟨exp0, rfl, s⟩ := (Q_all E fuel v [v] exp' seen' hx).head
    have hv : ∀ u, u ∈ seen' ↔ u ∈ v :: exp0 := by
      intro u; rw [s.grow]; simp
    refine ⟨List.nodup_cons.2 ⟨fun hm => s.fresh v hm (by simp), s.nodup⟩, ?_⟩
    intro u
    constructor
    · intro hu
      simp only [List.mem_cons] at hu
      rcases hu with rfl | hu
      · exact Reach.refl
      · obtain ⟨p, hp, hr⟩ := s.reach u hu
        exact Reach.trans (Reach.step Reach.refl hp) hr
    · intro hr
      induction hr with
      | refl => simp
      | step _ he ih =>
        rw [← hv]
        simp only [List.mem_cons] at ih
        rcases ih with rfl | ih
        · exact s.targets _ he
        · exact s.closed _ ih _ he

#print axioms inspect_exact
end D
