import Algo.RenderText
/-! # The `Debug` / `Display` text determines the vertex records (C20 at the level of the text)

`Rs.debugChars g` is the text of `{:?}` / `{}` character by character: one record `νI -> ⟦items⟧` per present vertex (an
edge item is a newline, a tab, `LABEL ➞ νT`; the data item is the `Hex::print` text), then the `bB: {…}` lines of the group
tables. `readDebug` is a strict reader of the records; `readDebug_chars`: it gives back `debugDoc g` — the present vertices
in ascending order, each with its edges in stored order (labels as label values) and its data as bytes — and leaves the
group lines. -/
namespace Rs
open Sodg

/-- the data item of a record, if any -/
def dataItem (d : Option (List UInt8)) : List (List Char) :=
  match d with
  | some bs => [HD.print bs]
  | none => []

theorem debugItems_eq (n : Node) : debugItems n = n.edges.map debugEdge ++ dataItem n.data := by
  unfold debugItems dataItem; cases n.data <;> rfl

theorem stripPrefix_head_ne (p c : Char) (ps cs : List Char) (h : p ≠ c) : stripPrefix (p :: ps) (c :: cs) = none := by
  simp [stripPrefix, h]

/-- the items after `⟦`, up to and including `⟧` (fuel: one per item) -/
def readItems : Nat → List Char → Option (List (Label × Nat) × Option (List UInt8) × List Char)
  | 0, _ => none
  | f + 1, l =>
    if l.head? = some '⟧' then some ([], none, l.tail)
    else
      match stripPrefix ['\n', '\t'] l with
      | some r =>
        match stripPrefix iArrow (r.dropWhile (· != ' ')), Lb.parse (r.takeWhile (· != ' ')) with
        | some r2, some a =>
          match readNat r2 with
          | some (t, rest) =>
            if rest.head? = some '⟧' then some ([(a, t)], none, rest.tail)
            else
              match stripPrefix gSep rest with
              | some r3 => (readItems f r3).map (fun x => ((a, t) :: x.1, x.2.1, x.2.2))
              | none => none
          | none => none
        | _, _ => none
      | none =>
        -- the data item: the last one
        match l.dropWhile (· != '⟧'), HD.fromStr (l.takeWhile (· != '⟧')) with
        | '⟧' :: rest, some bs => some ([], some bs, rest)
        | _, _ => none

theorem printPairs_or_dash (bs : List UInt8) : ∀ c ∈ HD.print bs, c = '-' ∨ ∃ d, d < 16 ∧ c = HD.upperDigit d := by
  intro c hc
  unfold HD.print at hc
  split at hc
  · simp at hc; exact Or.inl hc
  · exact printPairs_chars bs c hc

theorem print_ne_nil (bs : List UInt8) : HD.print bs ≠ [] := by
  unfold HD.print
  split
  · simp
  · cases bs with
    | nil => simp_all
    | cons b rest => cases rest <;> simp [HD.printPairs]

theorem readItems_data (f : Nat) (bs : List UInt8) (rest : List Char) :
    readItems (f + 1) (HD.print bs ++ '⟧' :: rest) = some ([], some bs, rest) := by
  have hp := print_chars bs
  obtain ⟨c, cs, hcs⟩ : ∃ c cs, HD.print bs = c :: cs := by
    cases h : HD.print bs with
    | nil => exact absurd h (print_ne_nil bs)
    | cons c cs => exact ⟨c, cs, rfl⟩
  have hc : c = '-' ∨ (c ≠ ' ' ∧ c ≠ '<' ∧ c ≠ '\n' ∧ c ≠ '-') := hp c (by rw [hcs]; exact List.mem_cons_self ..)
  have hq : ∀ x ∈ HD.print bs, (x != '⟧') = true := by
    intro x hx
    rcases printPairs_or_dash bs x hx with rfl | ⟨d, hd, rfl⟩
    · decide
    · have : ∀ d : Fin 16, (HD.upperDigit d.1 != '⟧') = true := by decide
      exact this ⟨d, hd⟩
  have hs := takeWhile_append_stop (· != '⟧') (HD.print bs) '⟧' rest hq (by simp)
  unfold readItems
  have h1 : (HD.print bs ++ '⟧' :: rest).head? ≠ some '⟧' := by
    rw [hcs]; simp
    have := hq c (by rw [hcs]; exact List.mem_cons_self ..)
    simpa using this
  rw [if_neg h1]
  have h2 : stripPrefix ['\n', '\t'] (HD.print bs ++ '⟧' :: rest) = none := by
    rw [hcs]
    apply stripPrefix_head_ne
    rcases hc with rfl | ⟨_, _, h3, _⟩
    · decide
    · exact fun e => h3 e.symm
  simp only [h2, hs.1, hs.2, HD.fromStr_print]

theorem readItems_end (f : Nat) (rest : List Char) : readItems (f + 1) ('⟧' :: rest) = some ([], none, rest) := by
  simp [readItems]

/-- `joinSep` of a non-empty list followed by more items -/
theorem joinSep_cons (x : List Char) (xs : List (List Char)) (h : xs ≠ []) : joinSep (x :: xs) = x ++ gSep ++ joinSep xs := by
  cases xs with
  | nil => exact absurd rfl h
  | cons y r => rfl

theorem readItems_items (es : List (Label × Nat)) (h : ∀ e ∈ es, PlainLabel e.1) (d : Option (List UInt8)) (rest : List Char) :
    ∀ f, es.length < f →
    readItems f (joinSep (es.map debugEdge ++ dataItem d) ++ '⟧' :: rest) =
      some (es, d, rest) := by
  induction es with
  | nil =>
    intro f hf
    obtain ⟨f', rfl⟩ : ∃ f', f = f' + 1 := ⟨f - 1, by omega⟩
    cases d with
    | none => simpa [joinSep, dataItem] using readItems_end f' rest
    | some bs => simpa [joinSep, dataItem] using readItems_data f' bs rest
  | cons e es ih =>
    intro f hf
    obtain ⟨f', rfl⟩ : ∃ f', f = f' + 1 := ⟨f - 1, by omega⟩
    have he := h e (List.mem_cons_self ..)
    have hq : ∀ c ∈ Lb.print e.1, (c != ' ') = true := fun c hc => by simpa using he.noSpace c hc
    -- what follows the edge item: the closing bracket, or `, ` and more items
    by_cases hlast : es = [] ∧ d = none
    · obtain ⟨rfl, rfl⟩ := hlast
      simp only [List.map_cons, List.map_nil, dataItem, List.append_nil, joinSep]
      unfold readItems debugEdge
      have h1 : ('\n' :: '\t' :: (Lb.print e.1 ++ iArrow ++ nat10 e.2) ++ '⟧' :: rest).head? ≠ some '⟧' := by simp
      rw [if_neg h1]
      have e1 : '\n' :: '\t' :: (Lb.print e.1 ++ iArrow ++ nat10 e.2) ++ '⟧' :: rest =
          ['\n', '\t'] ++ (Lb.print e.1 ++ ' ' :: (['➞', ' ', 'ν'] ++ (nat10 e.2 ++ '⟧' :: rest))) := by
        simp [iArrow]
      rw [e1, stripPrefix_append]
      have hs := takeWhile_append_stop (· != ' ') (Lb.print e.1) ' ' (['➞', ' ', 'ν'] ++ (nat10 e.2 ++ '⟧' :: rest)) hq (by simp)
      simp only [hs.1, hs.2]
      have e2 : ' ' :: (['➞', ' ', 'ν'] ++ (nat10 e.2 ++ '⟧' :: rest)) = iArrow ++ (nat10 e.2 ++ '⟧' :: rest) := rfl
      rw [e2, stripPrefix_append, Lb.parse_print_label e.1 he.safe.canon]
      simp only [readNat_nat10 e.2 '⟧' rest (by decide)]
      simp
    · have hmore : (es.map debugEdge ++ dataItem d) ≠ [] := by
        intro hnil
        apply hlast
        have := List.append_eq_nil_iff.1 hnil
        refine ⟨by simpa using this.1, ?_⟩
        cases d with
        | none => rfl
        | some bs => simp [dataItem] at this
      have ih' := ih (fun x hx => h x (List.mem_cons_of_mem _ hx)) f' (by simp at hf; omega)
      simp only [List.map_cons, List.cons_append]
      rw [joinSep_cons _ _ hmore]
      generalize joinSep (es.map debugEdge ++ dataItem d) = X at ih' ⊢
      have eE : debugEdge e = '\n' :: '\t' :: (Lb.print e.1 ++ iArrow ++ nat10 e.2) := rfl
      rw [eE]
      unfold readItems
      have h1 : ('\n' :: '\t' :: (Lb.print e.1 ++ iArrow ++ nat10 e.2) ++ gSep ++ X ++ '⟧' :: rest).head? ≠ some '⟧' := by simp
      rw [if_neg h1]
      have e1 : '\n' :: '\t' :: (Lb.print e.1 ++ iArrow ++ nat10 e.2) ++ gSep ++ X ++ '⟧' :: rest =
          ['\n', '\t'] ++ (Lb.print e.1 ++ ' ' :: (['➞', ' ', 'ν'] ++ (nat10 e.2 ++ ',' :: (' ' :: (X ++ '⟧' :: rest))))) := by
        simp [iArrow, gSep]
      rw [e1, stripPrefix_append]
      have hs := takeWhile_append_stop (· != ' ') (Lb.print e.1) ' '
        (['➞', ' ', 'ν'] ++ (nat10 e.2 ++ ',' :: (' ' :: (X ++ '⟧' :: rest)))) hq (by simp)
      simp only [hs.1, hs.2]
      have e2 : ' ' :: (['➞', ' ', 'ν'] ++ (nat10 e.2 ++ ',' :: (' ' :: (X ++ '⟧' :: rest)))) =
          iArrow ++ (nat10 e.2 ++ ',' :: (' ' :: (X ++ '⟧' :: rest))) := rfl
      rw [e2, stripPrefix_append, Lb.parse_print_label e.1 he.safe.canon]
      simp only [readNat_nat10 e.2 ',' (' ' :: (X ++ '⟧' :: rest)) (by decide)]
      have h2 : (',' :: ' ' :: (X ++ '⟧' :: rest)).head? ≠ some '⟧' := by simp
      rw [if_neg h2]
      have e3 : ',' :: ' ' :: (X ++ '⟧' :: rest) = gSep ++ (X ++ '⟧' :: rest) := rfl
      rw [e3, stripPrefix_append]
      simp only [ih']
      simp

/-- one record `νI -> ⟦…⟧` from the front -/
def readRecord (l : List Char) : Option (Node × List Char) :=
  match l with
  | 'ν' :: r =>
    match readNat r with
    | some (i, r1) =>
      match stripPrefix gHead r1 with
      | some r2 => (readItems (r2.length + 1) r2).map (fun x => (⟨i, x.1, x.2.1⟩, x.2.2))
      | none => none
    | none => none
  | _ => none

def PlainNode (n : Node) : Prop := ∀ e ∈ n.edges, PlainLabel e.1

theorem joinSep_length (x : List Char) (xs : List (List Char)) : x.length + (joinSep xs).length ≤ (joinSep (x :: xs)).length := by
  cases xs with
  | nil => simp [joinSep]
  | cons y r => simp [joinSep]

theorem debugEdge_length (e : Label × Nat) : 1 ≤ (debugEdge e).length := by simp [debugEdge]

theorem items_length_le (es : List (Label × Nat)) (X : List Char) (d : Option (List UInt8)) :
    es.length ≤ (joinSep (es.map debugEdge ++ dataItem d) ++ X).length := by
  have : ∀ (T : List (List Char)), es.length ≤ (joinSep (es.map debugEdge ++ T)).length := by
    intro T
    induction es with
    | nil => simp
    | cons e es ih =>
      have h1 := joinSep_length (debugEdge e) (es.map debugEdge ++ T)
      have h2 := debugEdge_length e
      simp only [List.map_cons, List.cons_append, List.length_cons]
      omega
  have := this (dataItem d)
  simp only [List.length_append]
  omega

theorem readRecord_chars (n : Node) (h : PlainNode n) (rest : List Char) :
    readRecord (debugNodeChars n ++ rest) = some (n, rest) := by
  obtain ⟨i, es, d⟩ := n
  have h' : ∀ e ∈ es, PlainLabel e.1 := h
  clear h
  unfold readRecord debugNodeChars
  rw [debugItems_eq]
  dsimp only
  simp only [List.cons_append, List.append_assoc, List.nil_append]
  have e1 : gHead ++ (joinSep (es.map debugEdge ++ dataItem d) ++ '⟧' :: rest) =
      ' ' :: (['-', '>', ' ', '⟦'] ++ (joinSep (es.map debugEdge ++ dataItem d) ++ '⟧' :: rest)) := rfl
  have k := readNat_nat10 i ' ' (['-', '>', ' ', '⟦'] ++ (joinSep (es.map debugEdge ++ dataItem d) ++ '⟧' :: rest)) (by decide)
  rw [← e1] at k
  simp only [k, stripPrefix_append]
  have hlen := items_length_le es ('⟧' :: rest) d
  have := readItems_items es h' d rest
    ((joinSep (es.map debugEdge ++ dataItem d) ++ '⟧' :: rest).length + 1) (by omega)
  rw [this]
  rfl

/-- the records of the text, and what follows them (the group lines) -/
def readRecords : Nat → List Char → Option (List Node × List Char)
  | 0, _ => none
  | f + 1, l =>
    if l.head? ≠ some 'ν' then some ([], l)
    else
      match readRecord l with
      | none => none
      | some (n, rest) =>
        match rest with
        | [] => some ([n], [])
        | '\n' :: r => (readRecords f r).map (fun x => (n :: x.1, x.2))
        | _ => none

def readDebug (text : List Char) : Option (List Node × List Char) := readRecords (text.length + 1) text

/-- lines that do not start with `ν` (the group lines start with `b`) -/
def NotRecord (l : List Char) : Prop := l.head? ≠ some 'ν'

theorem debugNodeChars_head (n : Node) (rest : List Char) : (debugNodeChars n ++ rest).head? = some 'ν' := by
  simp [debugNodeChars]

theorem joinNl_cons_cons (a b : List Char) (r : List (List Char)) : joinNl (a :: b :: r) = a ++ '\n' :: joinNl (b :: r) := rfl

theorem readRecords_chars (ns : List Node) (h : ∀ n ∈ ns, PlainNode n) (tail : List (List Char))
    (ht : ∀ l ∈ tail, NotRecord l) (hne : ∀ l ∈ tail, l ≠ []) :
    ∀ f, ns.length < f → readRecords f (joinNl (ns.map debugNodeChars ++ tail)) = some (ns, joinNl tail) := by
  induction ns with
  | nil =>
    intro f hf
    obtain ⟨f', rfl⟩ : ∃ f', f = f' + 1 := ⟨f - 1, by omega⟩
    unfold readRecords
    have : (joinNl (([] : List Node).map debugNodeChars ++ tail)).head? ≠ some 'ν' := by
      simp only [List.map_nil, List.nil_append]
      cases tail with
      | nil => simp [joinNl]
      | cons l ls =>
        have h1 := ht l (List.mem_cons_self ..)
        have h2 := hne l (List.mem_cons_self ..)
        cases l with
        | nil => exact absurd rfl h2
        | cons c cs =>
          cases ls with
          | nil => simpa [joinNl, NotRecord] using h1
          | cons l' ls' => simpa [joinNl, NotRecord] using h1
    rw [if_pos this]; simp
  | cons n ns ih =>
    intro f hf
    obtain ⟨f', rfl⟩ : ∃ f', f = f' + 1 := ⟨f - 1, by omega⟩
    have hn := h n (List.mem_cons_self ..)
    unfold readRecords
    -- the text: the record of `n`, then nothing, or a newline and the rest
    cases hrest : ns.map debugNodeChars ++ tail with
    | nil =>
      have hns : ns = [] := by simpa using (List.append_eq_nil_iff.1 hrest).1
      have htl : tail = [] := (List.append_eq_nil_iff.1 hrest).2
      subst hns htl
      simp only [List.map_cons, List.map_nil, List.append_nil, joinNl]
      have hh : (debugNodeChars n).head? = some 'ν' := by simpa using debugNodeChars_head n []
      rw [if_neg (by simp [hh])]
      have := readRecord_chars n hn []
      simp only [List.append_nil] at this
      simp [this, joinNl]
    | cons x xs =>
      have e : joinNl ((n :: ns).map debugNodeChars ++ tail) = debugNodeChars n ++ '\n' :: joinNl (x :: xs) := by
        simp only [List.map_cons, List.cons_append, hrest]; rfl
      rw [e]
      have hh : (debugNodeChars n ++ '\n' :: joinNl (x :: xs)).head? = some 'ν' := debugNodeChars_head n _
      rw [if_neg (by rw [hh]; simp)]
      rw [readRecord_chars n hn]
      simp only
      have := ih (fun y hy => h y (List.mem_cons_of_mem _ hy)) f' (by simp at hf; omega)
      rw [hrest] at this
      simp [this]

theorem branchChars_notRecord (b : Nat) (ms : List Nat) : NotRecord (branchChars b ms) ∧ branchChars b ms ≠ [] := by
  simp [NotRecord, branchChars]

/-- every stored label is plain -/
def PlainGraph (g : G Label Hex) : Prop := ∀ u, ∀ e ∈ edg g u, PlainLabel e.1

/-- **the `Debug` text reads back as the vertex records**: the present vertices in ascending order, each with its edges in
    stored order and its data, and after them exactly the group lines -/
theorem readDebug_chars (g : G Label Hex) (h : PlainGraph g) :
    readDebug (debugChars g) = some (debugDoc g, joinNl (branchLines g)) := by
  unfold readDebug debugChars
  apply readRecords_chars
  · intro n hn e he
    simp only [debugDoc, List.mem_map] at hn
    obtain ⟨v, _, rfl⟩ := hn
    exact h v e he
  · intro l hl
    simp only [branchLines, List.mem_filterMap] at hl
    obtain ⟨b, _, hb⟩ := hl
    split at hb
    · cases hb
    · cases hb; exact (branchChars_notRecord _ _).1
  · intro l hl
    simp only [branchLines, List.mem_filterMap] at hl
    obtain ⟨b, _, hb⟩ := hl
    split at hb
    · cases hb
    · cases hb; exact (branchChars_notRecord _ _).2
  · -- fuel: one per record, and every record has at least one character
    have jl : ∀ (a : List Char) (r : List (List Char)), a.length + (joinNl r).length ≤ (joinNl (a :: r)).length := by
      intro a r
      cases r with
      | nil => simp [joinNl]
      | cons y r' => simp [joinNl]
    have : ∀ (ns : List Node) (tail : List (List Char)), ns.length ≤ (joinNl (ns.map debugNodeChars ++ tail)).length := by
      intro ns tail
      induction ns with
      | nil => simp
      | cons n ns ih =>
        have h1 := jl (debugNodeChars n) (ns.map debugNodeChars ++ tail)
        have h2 : 1 ≤ (debugNodeChars n).length := by simp [debugNodeChars]
        simp only [List.map_cons, List.cons_append, List.length_cons]
        omega
    have := this (debugDoc g) (branchLines g)
    omega

end Rs
