import Core
import Codec
set_option linter.unusedSectionVars false
/-! # C08 — save() then load() restores an equivalent graph

`Cd.save`/`Cd.load` transcribe bincode's image of `Sodg` (Appendix A.4 of DESIGN.md) for the real label and datum
types; the correspondence check compares the real file with `Cd.save model_state` byte for byte. -/
namespace Props.C08
open Sodg Cd

/-- **codec**: loading the saved image of a graph gives back the graph — every slot, group tag, member list,
    counter, edge, datum in its representation (inline array with padding, or heap), read/unread status — with the
    allocator position at 0. `WfG` = all sizes and numbers fit their 64-bit fields, at most `N` edges per vertex,
    at most 16 members per list (true of every reachable graph). -/
theorem load_save (g : G Label Hex) (h : WfG g) : load g.n (save g) = .ok { g with next := 0 } := Cd.load_save g h

/-- **for every reachable graph**: every graph reached by a valid history (any length) of calls whose labels and
    data are representable (`Alpha n` with n < 2^64, `Str` arrays of 8 characters, data lengths below 2^64 and inline
    arrays of 8 cells), created with an edge capacity and a vertex capacity below 2^64, reloads to itself with the
    allocator position at 0 -/
theorem load_save_reachable {n c : Nat} {g : G Label Hex} {r : R Label Hex} {P : List (Nat × Nat)}
    (h : ReachW wfLabel wfHex n c g r P) (hc : c < 2 ^ 64) (hn : n < 2 ^ 64) :
    load g.n (save g) = .ok { g with next := 0 } := Cd.load_save g (ReachW.wfG h hc hn)

/-- **same future**: the reloaded state refines the reference state whose allocator position is 0; hence by
    Theorem A it answers every continuation (of any length) exactly as that reference: same edges, data,
    collections; `next_id` returns the lowest absent id — the one permitted difference -/
theorem reload_refines {L D : Type} [DecidableEq L] [Inhabited D] (g : G L D) (r : R L D) (h : Rel g r) :
    Rel { g with next := 0 } { r with pos := 0 } := rel_setNext g r 0 h

theorem continuation_after_reload {L D : Type} [DecidableEq L] [Inhabited D] (g : G L D) (r : R L D) (h : Rel g r)
    (ops : List (Op L D)) (hv : Valid g.n (cap g) { r with pos := 0 } ops) :
    run { g with next := 0 } ops = some (R.run (cap g) { r with pos := 0 } ops) :=
  theoremA ops { g with next := 0 } { r with pos := 0 } (reload_refines g r h) hv

/-- the original keeps answering as the reference with its own position: the two futures differ only through
    the allocator position -/
theorem continuation_of_original {L D : Type} [DecidableEq L] [Inhabited D] (g : G L D) (r : R L D) (h : Rel g r)
    (ops : List (Op L D)) (hv : Valid g.n (cap g) r ops) : run g ops = some (R.run (cap g) r ops) :=
  theoremA ops g r h hv

theorem find_range_least (p : Nat → Bool) : ∀ c m, (List.range c).find? p = some m → ∀ j, j < m → p j = false := by
  intro c
  induction c with
  | zero => intro m h; simp at h
  | succ c ih =>
    intro m h j hj
    rw [List.range_succ, List.find?_append] at h
    cases hf : (List.range c).find? p with
    | some x =>
      rw [hf] at h; simp at h; subst h
      exact ih x hf j hj
    | none =>
      rw [hf] at h
      simp only [Option.none_or, List.find?_cons] at h
      split at h
      · cases h
        have hjc : j ∈ List.range c := by simp [hj]
        have := List.find?_eq_none.1 hf j hjc
        simpa using this
      · simp at h

/-- after a reload the allocator hands out the lowest absent id -/
theorem next_id_after_reload {L D : Type} [DecidableEq L] [Inhabited D] (r r' : R L D) (c id : Nat)
    (h : ({ r with pos := 0 } : R L D).nextId c = some (r', id)) : id < c ∧ id ∉ r.ids ∧ ∀ j, j < id → j ∈ r.ids := by
  have sp := R.nextId_spec _ r' c id h
  refine ⟨sp.1, sp.2.1, ?_⟩
  intro j hj
  simp only [R.nextId] at h
  split at h
  · cases h
  next i hf =>
    have hi : i = id := by split at h <;> cases h <;> rfl
    subst hi
    have := find_range_least _ c i hf j hj
    simpa using this

/-! non-vacuity: a graph with a two-byte label, heap data and inline data with non-zero padding is well-formed -/
example : ∃ g, demoG = some g ∧ WfG g ∧ 100 < (save g).length := by
  refine ⟨_, rfl, ?_, ?_⟩ <;> decide +kernel

end Props.C08
