import Pure
/-! # C17 — labels round-trip through text and distinct names stay distinct

Texts are `List Char`; `Lb.parse` transcribes `Label::from_str` (repaired single-character rule), `Lb.print` the
`Display` impl. `none` = `Err`; the parser has no panicking branch. -/
namespace Props.C17
open Lb

/-- text → label → text, for every legal label text (1..8 non-space characters; the alpha sign followed by a
    canonical decimal below 2^64, or any text not starting with the alpha sign) -/
theorem print_parse_text (t : List Char) (h : LegalText t) : ∃ l, parse t = some l ∧ print l = t := Lb.print_parse_text t h

/-- distinct legal texts give distinct labels -/
theorem parse_injective (t1 t2 : List Char) (h1 : LegalText t1) (h2 : LegalText t2) (he : parse t1 = parse t2) : t1 = t2 :=
  Lb.parse_injective t1 t2 h1 h2 he

/-- label → text → label, for every canonical value (`Greek c`, `Alpha n` with n < 2^64, `Str` of 2..8 non-space
    characters not starting with the alpha sign, padded): so an edge bound under the parsed name is found under
    the constructed one (labels are compared by value) -/
theorem parse_print_label (l : Label) (h : CanonLabel l) : parse (print l) = some l := Lb.parse_print_label l h

/-- texts longer than 8 characters that do not start with the alpha sign are rejected -/
theorem too_long_err (t : List Char) (ha : t.head? ≠ some alphaSign) (h : 8 < t.length) : parse t = none := Lb.too_long_err t ha h

/-- the alpha sign followed by anything the integer grammar rejects (or a value of 2^64 and more) is rejected -/
theorem bad_index_err (r : List Char) (h : parseUsize r = none) : parse (alphaSign :: r) = none := Lb.bad_index_err r h

/-- the code as found (single-character rule on the UTF-8 byte length) violates `parse_print_label`; this is the
    replay of the `fix:` commit f00a87e -/
theorem asFound_counterexample : parseAsFound (print (.greek 'ρ')) ≠ some (.greek 'ρ') := Lb.asFound_counterexample

/-! non-vacuity -/
example : CanonLabel (.greek 'ρ') := .greek 'ρ' (by decide) (by decide)
example : parse "hello".toList = some (.str (pad8 "hello".toList)) := by decide

end Props.C17
