import Core
set_option linter.unusedSectionVars false
/-! # C10 — clone() is an exact, independent copy (PARTIAL: see DESIGN.md §7 C10)

In the model `clone g = g` (a field-wise copy of an immutable value), so "same future" is determinism of the
step function and independence holds by construction. What the property is really about — that the Rust `clone`
deep-copies every field through the containers' `Clone` impls — cannot be expressed in a pure model; it is decided
by the correspondence check (same continuation on both handles, different continuations with the untouched handle
observed after every call). -/
namespace Props.C10
open Sodg
variable {L D : Type} [DecidableEq L] [Inhabited D]

/-- the model's clone: the same value -/
def clone (g : G L D) : G L D := g

/-- same continuation, same answers, including collections and the ids of `next_id` -/
theorem same_future_partial (g : G L D) (ops : List (Op L D)) : run (clone g) ops = run g ops := rfl

/-- the clone refines the same reference state, so Theorem A applies to each copy separately -/
theorem clone_refines (g : G L D) (r : R L D) (h : Rel g r) (ops : List (Op L D)) (hv : Valid g.n (cap g) r ops) :
    run (clone g) ops = some (R.run (cap g) r ops) := theoremA ops g r h hv

end Props.C10
