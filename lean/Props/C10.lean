import Core
set_option linter.unusedSectionVars false
/-! # C10 — clone() is an exact, independent copy (PARTIAL: see DESIGN.md §7 C10)

In the model `clone g = g` (a field-wise copy of an immutable value), so "same future" is determinism of the
step function and independence holds by construction. What the property is really about — that the Rust `clone`
deep-copies every field through the containers' `Clone` impls — cannot be expressed in a pure model; it is decided
by the correspondence check (same continuation on both handles, different continuations with the untouched handle
observed after every call). -/
namespace Props.C10
open Sodg
variable {L D : Type} [DecidableEq L] [Inhabited D]

/-- the model's clone: the same value -/
def clone (g : G L D) : G L D := g

/-- same continuation, same answers, including collections and the ids of `next_id` -/
theorem same_future_partial (g : G L D) (ops : List (Op L D)) : run (clone g) ops = run g ops := rfl

/-- the clone refines the same reference state, so Theorem A applies to each copy separately -/
theorem clone_refines (g : G L D) (r : R L D) (h : Rel g r) (ops : List (Op L D)) (hv : Valid g.n (cap g) r ops) :
    run (clone g) ops = some (R.run (cap g) r ops) := theoremA ops g r h hv

/-! ### several graphs in one process (the statement of C10 written out on a world of handles)

In the model a graph is a value, so these hold by construction; they are stated so that the property is visible in Lean at
full length. That the Rust `clone()` produces such an independent value is what the correspondence check examines. -/

/-- a process: handles holding graphs -/
structure World (L D : Type) where
  gs : Nat → Option (G L D)

/-- `b = a.clone()` -/
def World.clone (w : World L D) (a b : Nat) : World L D := { gs := fun h => if h = b then w.gs a else w.gs h }

/-- a call on the graph of handle `a`, on the total model (a panic leaves the partial state behind) -/
def World.call (w : World L D) (a : Nat) (op : Op L D) : World L D × Option (Out L D) :=
  match w.gs a with
  | none => (w, none)
  | some g => ({ gs := fun h => if h = a then some (stepT g op).1 else w.gs h }, (stepT g op).2)

/-- calls on one handle, collecting the answers -/
def World.calls (w : World L D) (a : Nat) : List (Op L D) → World L D × List (Option (Out L D))
  | [] => (w, [])
  | op :: ops => let r := (w.call a op).1.calls a ops; (r.1, (w.call a op).2 :: r.2)

/-- **mutating either graph never changes the other**: a call on `a` leaves the graph of every other handle as it is -/
theorem independent (w : World L D) (a b : Nat) (op : Op L D) (hab : b ≠ a) : ((w.call a op).1).gs b = w.gs b := by
  unfold World.call
  cases w.gs a with
  | none => rfl
  | some g => simp [hab]

theorem independent_calls (w : World L D) (a b : Nat) (ops : List (Op L D)) (hab : b ≠ a) : ((w.calls a ops).1).gs b = w.gs b := by
  induction ops generalizing w with
  | nil => rfl
  | cons op ops ih => simp only [World.calls]; rw [ih, independent w a b op hab]

theorem calls_eq_runT (w : World L D) (a : Nat) (g : G L D) (h : w.gs a = some g) (ops : List (Op L D)) :
    (w.calls a ops).2 = (runT g ops).2 := by
  induction ops generalizing w g with
  | nil => rfl
  | cons op ops ih =>
    simp only [World.calls, runT]
    have hc : (w.call a op).1.gs a = some (stepT g op).1 := by simp [World.call, h]
    have h2 : (w.call a op).2 = (stepT g op).2 := by simp [World.call, h]
    rw [ih _ _ hc, h2]

/-- **a clone answers every query as the original does and keeps doing so under the same subsequent calls** (also calls
    beyond the limits, also after panics), **whatever was done to the original in between** -/
theorem clone_same_future (w : World L D) (a b : Nat) (hab : b ≠ a) (g : G L D) (h : w.gs a = some g)
    (between ops : List (Op L D)) :
    ((((w.clone a b).calls a between).1).calls b ops).2 = (w.calls a ops).2 := by
  have hb : (((w.clone a b).calls a between).1).gs b = some g := by
    rw [independent_calls _ a b between hab]; simp [World.clone, h]
  rw [calls_eq_runT _ b g hb, calls_eq_runT w a g h]

end Props.C10
