import Core
set_option linter.unusedSectionVars false
/-! # C03 — edges and data read back exactly what was last written

The model's answers are the reference's (Theorem A / `Reach.next`); the statements below say what the reference
answers. Data are compared as values of the datum type, i.e. for `Hex` including the representation, which is
stronger than "the same bytes". -/
namespace Props.C03
open Sodg
variable {L D : Type} [DecidableEq L] [Inhabited D]

/-- the model answers `kid`, `kids`, `data` exactly as the reference does, after every valid history -/
theorem answers_are_reference {n c : Nat} {g : G L D} {r : R L D} {P : List (Nat × Nat)} (h : Reach n c g r P)
    (op : Op L D) (ok : OkStep n c r op) : ∃ g', step g op = some (g', (R.step c r op).2) :=
  let ⟨g', hs, _⟩ := h.next op ok; ⟨g', hs⟩

/-- right after `bind v t a`, `kid v a` is `t` -/
theorem kid_after_bind (r : R L D) (v t : Nat) (a : L) : lookup ((r.bind v t a).edg v) a = some t :=
  R.kid_after_bind r v t a

/-- a `bind` from another vertex or under another label does not change `kid v a` -/
theorem kid_frame_bind (r : R L D) (v v1 v2 : Nat) (a b : L) (h : v1 ≠ v ∨ b ≠ a) :
    lookup ((r.bind v1 v2 b).edg v) a = lookup (r.edg v) a := R.kid_frame_bind r v v1 v2 a b h

/-- no other call changes the edges of a present vertex — including reads that collect other groups -/
theorem edges_frame (c : Nat) (r : R L D) (op : Op L D) (v : Nat) (hv : v ∈ r.ids)
    (hop : ∀ v1 v2 a, op ≠ .bind v1 v2 a) : (R.step c r op).1.edg v = r.edg v := R.edg_frame c r op v hv hop

/-- `kids` lists one entry per label: an overwrite replaces, a new label appends -/
theorem lookup_upsert (es : List (L × Nat)) (a b : L) (t : Nat) :
    lookup (upsert es a t) b = if b = a then some t else lookup es b := Sodg.lookup_upsert es a b t

/-- a freshly created vertex has no edges and no data, even if the id was used before -/
theorem created_blank (r : R L D) (v : Nat) (h : v ∉ r.ids) : (r.add v).edg v = [] ∧ (r.add v).dat v = none :=
  let x := R.add_absent_blank r v h; ⟨x.2.1, x.2.2.1⟩

/-- after `put v d` the datum of `v` is `d` -/
theorem data_after_put (r : R L D) (v : Nat) (d : D) : (r.put v d).dat v = some d := R.dat_after_put r v d

/-- a read returns the stored datum and does not change it: first and every later read answer the same -/
theorem read_returns_and_keeps (c : Nat) (r : R L D) (v : Nat) :
    (R.step c r (.data v)).2 = .data (r.dat v) ∧ (r.data v).dat v = r.dat v := by
  refine ⟨rfl, ?_⟩
  simp only [R.data]; split
  · split
    · rfl
    · split <;> rfl
  · rfl

/-- no call other than `put v` changes the datum of a present vertex -/
theorem data_frame (c : Nat) (r : R L D) (op : Op L D) (v : Nat) (hv : v ∈ r.ids)
    (hop : ∀ d, op ≠ .put v d) : (R.step c r op).1.dat v = r.dat v := R.dat_frame c r op v hv hop

end Props.C03
