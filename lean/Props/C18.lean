import Core
import Algo
/-! # C18 — XML and DOT exports describe exactly the present graph

`Rs.exportDoc g` is the document both exports print (`Rs.toXml g = renderXml (exportDoc g)`, `Rs.toDot g =
renderDot (exportDoc g)` by definition); the statements are about the document, the printers are tied to the real
texts by the correspondence (structure parsed back from the real text). -/
namespace Props.C18
open Sodg Rs

/-- one node per present vertex and none for absent ids (never-added or collected) -/
theorem nodes_are_present_vertices (g : G Label Hex) (n : Nat) :
    n ∈ (exportDoc g).map (·.id) ↔ (n < cap g ∧ tag g n ≠ 0) := export_ids g n

/-- vertices appear in ascending id order (in particular each once) -/
theorem ascending (g : G Label Hex) : ((exportDoc g).map (·.id)).Pairwise (· < ·) := export_sorted g

/-- the node of a vertex carries one entry per stored edge (a permutation of the stored list: the label-sorted
    one) with its label and target, and the data bytes exactly when the vertex has data -/
theorem node_content (g : G Label Hex) (n : Rd.VNode Label (List UInt8)) (h : n ∈ exportDoc g) :
    n.id < cap g ∧ tag g n.id ≠ 0 ∧ n.edges.Perm (edg g n.id) ∧ n.data = dataOf g.vs[n.id]! := export_node g n h

/-- two graphs (of the same capacity) with the same present vertices, the same edge *sets* and the same data
    produce the same XML text and the same DOT text, however they were built -/
theorem same_content_same_text (g1 g2 : G Label Hex) (h : Rd.SameContent (slotsOf g1) (slotsOf g2)) :
    toXml g1 = toXml g2 ∧ toDot g1 = toDot g2 := Rs.same_content_same_text g1 g2 h

/-- the same across capacities: a graph with a larger capacity whose additional slots are absent and whose other
    slots have the same content gives the same two texts -/
theorem same_content_same_text_any_capacity (g1 g2 : G Label Hex) (pre extra : List (Rd.Slot Label (List UInt8)))
    (h2 : slotsOf g2 = pre ++ extra) (hc : Rd.SameContent (slotsOf g1) pre) (he : ∀ s ∈ extra, s.present = false) :
    toXml g1 = toXml g2 ∧ toDot g1 = toDot g2 := Rs.same_content_same_text_caps g1 g2 pre extra h2 hc he

/-! ### at the level of the text (`Algo/RenderText.lean`)

`toXml g` is `String.ofList (xmlChars (exportDoc g))`, the text character by character (the correspondence check finds
it equal to the text of the real `to_xml()` on every export it compares: `exact_text_differences` in the evidence). -/

/-- every label stored on a present vertex is a canonical label value without `"` or newline in its text: the labels
    "that need no XML escaping" of the property's quantifier -/
def SafeLabels (g : G Label Hex) : Prop := ∀ v, v < cap g → tag g v ≠ 0 → ∀ e ∈ edg g v, SafeLabel e.1

theorem safe_doc (g : G Label Hex) (h : SafeLabels g) : ∀ n ∈ exportDoc g, SafeNode n := by
  intro n hn e he
  obtain ⟨h1, h2, h3, _⟩ := export_node g n hn
  exact h n.id h1 h2 e (h3.subset he)

/-- **the XML text reads back as the document**: a strict reader of the format recovers, from the text alone, one
    record per present vertex in ascending order with every edge (label as a label value, target) and the data bytes -/
theorem xml_reads_back (g : G Label Hex) (h : SafeLabels g) : readXml (toXml g).toList = some (exportDoc g) := by
  unfold toXml renderXml
  rw [String.toList_ofList]
  exact readXml_xmlChars _ (safe_doc g h)

/-- **the text determines the document**: two graphs with the same XML text have the same document — the same present
    vertices, the same edges, the same data. With `same_content_same_text` this makes the text an exact description:
    the same content gives the same text and different content gives different texts. -/
theorem xml_text_determines_document (g1 g2 : G Label Hex) (h1 : SafeLabels g1) (h2 : SafeLabels g2)
    (he : toXml g1 = toXml g2) : exportDoc g1 = exportDoc g2 := by
  have a := xml_reads_back g1 h1
  have b := xml_reads_back g2 h2
  rw [he, b] at a
  exact (Option.some.inj a).symm

/-- … in particular the same present vertices -/
theorem xml_text_determines_vertices (g1 g2 : G Label Hex) (h1 : SafeLabels g1) (h2 : SafeLabels g2)
    (he : toXml g1 = toXml g2) (n : Nat) : (n < cap g1 ∧ tag g1 n ≠ 0) ↔ (n < cap g2 ∧ tag g2 n ≠ 0) := by
  rw [← nodes_are_present_vertices, ← nodes_are_present_vertices, xml_text_determines_document g1 g2 h1 h2 he]

/-- **the DOT text reads back as the document** too -/
theorem dot_reads_back (g : G Label Hex) (h : SafeLabels g) : readDot (toDot g).toList = some (exportDoc g) := by
  unfold toDot renderDot
  rw [String.toList_ofList]
  exact readDot_dotChars _ (safe_doc g h)

/-- … and determines it -/
theorem dot_text_determines_document (g1 g2 : G Label Hex) (h1 : SafeLabels g1) (h2 : SafeLabels g2)
    (he : toDot g1 = toDot g2) : exportDoc g1 = exportDoc g2 := by
  have a := dot_reads_back g1 h1
  have b := dot_reads_back g2 h2
  rw [he, b] at a
  exact (Option.some.inj a).symm

/-- the two exports of a graph say the same thing: what one reader finds in the XML, the other finds in the DOT text -/
theorem xml_and_dot_agree (g : G Label Hex) (h : SafeLabels g) : readXml (toXml g).toList = readDot (toDot g).toList := by
  rw [xml_reads_back g h, dot_reads_back g h]

/-! non-vacuity: the three kinds of label are safe labels; a concrete document reads back (kernel-evaluated) -/
example : SafeLabel (.alpha 3) := ⟨.alpha 3 (by decide), by decide, by decide⟩
example : SafeLabel (.greek 'ρ') := ⟨.greek 'ρ' (by decide) (by decide), by decide, by decide⟩
example : SafeLabel (.str (Lb.pad8 ['f', 'o', 'o'])) :=
  ⟨.str ['f', 'o', 'o'] (by decide) (by decide) (by decide) (by decide), by decide, by decide⟩

/-- the derived order of `Label` used for sorting is a strict total order -/
theorem label_order_strict : Rd.StrictTotal LO.lt := labelOrder_strict

/-! ### a graph with removed slots (`join()` inside a non-tree `merge`, Core/Holes.lean)

`to_xml`/`to_dot` iterate `vertices.iter()`, which skips a removed slot: for the exports such a slot is an absent vertex.
`blankHoles x` is the graph as they see it. -/

/-- one node per vertex that `keys()` lists — the present vertices whose slot was not removed — and none for any other id -/
theorem nodes_are_present_vertices_with_removed_slots (x : Sodg.GX Label Hex) (n : Nat) :
    n ∈ (exportDoc (Sodg.blankHoles x)).map (·.id) ↔ n ∈ Sodg.keysX x := by
  rw [nodes_are_present_vertices, ← Sodg.keys_blankHoles]
  unfold Sodg.keys
  simp

/-- with the edges and data of the vertex as they are -/
theorem node_content_with_removed_slots (x : Sodg.GX Label Hex) (n : Rd.VNode Label (List UInt8))
    (h : n ∈ exportDoc (Sodg.blankHoles x)) : n.edges.Perm (Sodg.edg x.g n.id) := by
  have := (node_content (Sodg.blankHoles x) n h).2.2.1
  rw [(Sodg.view_blankHoles x n.id).1] at this
  exact this

end Props.C18
