import Core
import Algo
/-! # C18 — XML and DOT exports describe exactly the present graph

`Rs.exportDoc g` is the document both exports print (`Rs.toXml g = renderXml (exportDoc g)`, `Rs.toDot g =
renderDot (exportDoc g)` by definition); the statements are about the document, the printers are tied to the real
texts by the correspondence (structure parsed back from the real text). -/
namespace Props.C18
open Sodg Rs

/-- one node per present vertex and none for absent ids (never-added or collected) -/
theorem nodes_are_present_vertices (g : G Label Hex) (n : Nat) :
    n ∈ (exportDoc g).map (·.id) ↔ (n < cap g ∧ tag g n ≠ 0) := export_ids g n

/-- vertices appear in ascending id order (in particular each once) -/
theorem ascending (g : G Label Hex) : ((exportDoc g).map (·.id)).Pairwise (· < ·) := export_sorted g

/-- the node of a vertex carries one entry per stored edge (a permutation of the stored list: the label-sorted
    one) with its label and target, and the data bytes exactly when the vertex has data -/
theorem node_content (g : G Label Hex) (n : Rd.VNode Label (List UInt8)) (h : n ∈ exportDoc g) :
    n.id < cap g ∧ tag g n.id ≠ 0 ∧ n.edges.Perm (edg g n.id) ∧ n.data = dataOf g.vs[n.id]! := export_node g n h

/-- two graphs (of the same capacity) with the same present vertices, the same edge *sets* and the same data
    produce the same XML text and the same DOT text, however they were built -/
theorem same_content_same_text (g1 g2 : G Label Hex) (h : Rd.SameContent (slotsOf g1) (slotsOf g2)) :
    toXml g1 = toXml g2 ∧ toDot g1 = toDot g2 := Rs.same_content_same_text g1 g2 h

/-- the same across capacities: a graph with a larger capacity whose additional slots are absent and whose other
    slots have the same content gives the same two texts -/
theorem same_content_same_text_any_capacity (g1 g2 : G Label Hex) (pre extra : List (Rd.Slot Label (List UInt8)))
    (h2 : slotsOf g2 = pre ++ extra) (hc : Rd.SameContent (slotsOf g1) pre) (he : ∀ s ∈ extra, s.present = false) :
    toXml g1 = toXml g2 ∧ toDot g1 = toDot g2 := Rs.same_content_same_text_caps g1 g2 pre extra h2 hc he

/-- the derived order of `Label` used for sorting is a strict total order -/
theorem label_order_strict : Rd.StrictTotal LO.lt := labelOrder_strict

end Props.C18
