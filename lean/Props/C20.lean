import Core
import Algo
/-! # C20 — inspect(), Debug and v_print() are faithful and terminate -/
namespace Props.C20
open Sodg Rs

/-- **inspect terminates** on every reachable graph, cyclic or not: every stored edge of a reachable state points
    below the capacity (`Reach.edgesBelow`), and then fuel `cap + 1` is never exhausted -/
theorem inspect_terminates {n c : Nat} {g : G Label Hex} {r : R Label Hex} {P : List (Nat × Nat)}
    (h : Reach n c g r P) (v : Nat) (hv : v < cap g) : (inspectLines g v).isSome :=
  Rs.inspect_terminates g v hv h.edgesBelow

/-- the vertices whose edges get listed (the start vertex and the targets of the lines without ellipsis) are
    pairwise distinct and are exactly the vertices reachable from `v` along stored edges -/
theorem inspect_expands_reachable_once (g : G Label Hex) (v : Nat) (ls : List Line) (h : inspectLines g v = some ls) :
    (v :: nonEll ls).Nodup ∧ ∀ u, u ∈ v :: nonEll ls ↔ D.Reach (E' g) v u := Rs.inspect_expands_reachable_once g v ls h

/-- **every edge of every reachable vertex exactly once**: the edge entries of the text are, as a multiset, the
    concatenation of the edge lists of those vertices -/
theorem inspect_lists_every_edge_once (g : G Label Hex) (v : Nat) (ls : List Line) (h : inspectLines g v = some ls) :
    (ls.map (fun l => (l.label, l.target))).Perm ((v :: nonEll ls).flatMap (fun u => edg g u)) :=
  Rs.inspect_lists_every_edge_once g v ls h

/-- `Debug`/`Display` list exactly the present vertices (ascending), each with all its edges and its data -/
theorem debug_exact (g : G Label Hex) :
    (debugDoc g).map (·.id) = keys g ∧ ∀ n ∈ debugDoc g, n.edges = edg g n.id ∧ n.data = dataOf g.vs[n.id]! :=
  Rs.debug_exact g

/-- `v_print` shows the data marker exactly when the vertex has data and lists exactly its labels -/
theorem vprint_exact (g : G Label Hex) (v : Nat) (hv : v < cap g) :
    vPrint g v = some (s!"ν{v}⟦" ++ (if pers g v = .empty then "" else "Δ, ") ++
      ", ".intercalate ((edg g v).map (fun e => labelText e.1)) ++ "⟧") := Rs.vprint_exact g v hv

/-! ### at the level of the text (`Algo/RenderText.lean`)

`toInspect g v` is `String.ofList (inspectChars v ls)`, the text character by character (found equal to the text of the
real `inspect()` by the correspondence check on every export it compares). -/

/-- every stored label is a canonical label value whose text has no `"`, newline or blank -/
def PlainLabels (g : G Label Hex) : Prop := ∀ u, ∀ e ∈ edg g u, PlainLabel e.1

/-- **the text of `inspect` reads back as the start vertex and the edge lines** (depth, label as a label value, target,
    the `…` mark), and the entries read from the text are, as a multiset, exactly the edges of the vertices reachable
    from `v`, every one once -/
theorem inspect_text_lists_every_edge_once (g : G Label Hex) (hp : PlainLabels g) (v : Nat) (hv : v < cap g)
    (ls : List Line) (h : inspectLines g v = some ls) :
    ∃ t, toInspect g v = some t ∧ readInspect t.toList = some (v, ls) ∧
      (ls.map (fun l => (l.label, l.target))).Perm ((v :: nonEll ls).flatMap (fun u => edg g u)) := by
  have hperm := Rs.inspect_lists_every_edge_once g v ls h
  refine ⟨String.ofList (inspectChars v ls), by simp [toInspect, hv, h], ?_, hperm⟩
  rw [String.toList_ofList]
  apply readInspect_chars
  intro l hl
  have hm : (l.label, l.target) ∈ (v :: nonEll ls).flatMap (fun u => edg g u) :=
    hperm.subset (List.mem_map.2 ⟨l, hl, rfl⟩)
  obtain ⟨u, _, hu⟩ := List.mem_flatMap.1 hm
  exact hp u _ hu

/-- **the `Debug` / `Display` text reads back as the vertex records** (`Algo/RenderDebug.lean`): a strict reader recovers
    from the text alone one record per present vertex in ascending order (`debug_exact`: the ids are `keys g`), each with
    all its edges in stored order (labels as label values) and its data as bytes; what follows the records is exactly the
    lines of the group tables -/
theorem debug_text_reads_back (g : G Label Hex) (hp : PlainLabels g) :
    readDebug (toDebug g).toList = some (debugDoc g, joinNl (branchLines g)) ∧
    (debugDoc g).map (·.id) = keys g ∧ ∀ n ∈ debugDoc g, n.edges = edg g n.id ∧ n.data = dataOf g.vs[n.id]! := by
  refine ⟨?_, Rs.debug_exact g⟩
  unfold toDebug
  rw [String.toList_ofList]
  exact readDebug_chars g hp

end Props.C20
