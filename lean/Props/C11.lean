import Core
set_option linter.unusedSectionVars false
/-! # C11 — merge() of trees grafts the right tree onto the left without loss

The right graph is described by an inductive tree `T` (`HRepr h t`: the view `h` of the right graph represents
`t`; distinct ids `allIds t`.Nodup; distinct labels below every node `LabelsOK t`). The left graph is the reference
state `r`, projected to `proj r` (alive set, edges, data); `Closed` = edge targets of present vertices are present,
`PathInj` = label paths from `left` are injective (the left graph is tree-like below `left`).
All statements are about the two-pass program `mergeRec2` — the one the driver executes and compares with the real
`merge()` — through `link` (the second pass changes nothing unless it asks for `join`). -/
namespace Props.C11
open Sodg P MT
variable {L D : Type} [DecidableEq L] [Inhabited D]

/-- (d) the model's run returns what the reference's run returns and ends in a state related to the reference's:
    Theorem A, hence C01–C03, applies to every continuation as if the additions had been made by add/bind/put -/
theorem model_refines (n c : Nat) (h : RightView L D) (fuel left right : Nat) (g : G L D) (r : R L D)
    (hr : RelAt n c g r) (hv : ValidRun (R.step c) (OkStep n c) (mergeRec2 h fuel left right []) r) :
    (runR (R.step c) (mergeRec2 h fuel left right []) r = none ∧ runM step (mergeRec2 h fuel left right []) g = none) ∨
    (∃ a g' r', runM step (mergeRec2 h fuel left right []) g = some (a, g') ∧
      runR (R.step c) (mergeRec2 h fuel left right []) r = some (a, r') ∧ RelAt n c g' r') :=
  prog_refines n c _ g r hr hv

/-- a two-pass run that does not ask for `join` is a first-pass run with the same table and final state -/
theorem two_pass_is_first_pass (c : Nat) (h : RightView L D) (fuel left right : Nat) (r r' : R L D) (m' : Mapped)
    (hrun : runR (R.step c) (mergeRec2 h fuel left right []) r = some (some m', r')) :
    runR (R.step c) (mergeRec h fuel left right []) r = some (m', r') :=
  link (R.step c) (R.kid_state c) h fuel left right [] r m' r' hrun

/-- (a, paths) every labelled path from `right` in the tree exists from `left` afterwards and ends in the vertex
    the table assigns; (b) every vertex and every edge the left graph had is still there -/
theorem grafts (c : Nat) (h : RightView L D) (t : T L D) (hrep : HRepr h t) (hnd : (allIds t).Nodup)
    (fuel left : Nat) (r r' : R L D) (m' : Mapped) (hl : left ∈ r.ids) (hc : Closed (proj r))
    (hrun : runR (R.step c) (mergeRec2 h fuel left t.id []) r = some (some m', r')) :
    Ext (proj r) (proj r') ∧
    ∀ p ch, t.walk p = some ch → ∃ u, walk (proj r') left p = some u ∧ (ch.id, u) ∈ m' :=
  mergeProg_grafts c h t hrep hnd fuel left r r' m' hl hc (two_pass_is_first_pass c h fuel left t.id r r' m' hrun)

/-- (a, data) a tree vertex with data ends in a vertex holding exactly that datum; distinct tree vertices land on
    distinct vertices of the left graph -/
theorem data_and_injective (c : Nat) (h : RightView L D) (t : T L D) (hrep : HRepr h t)
    (hnd : (allIds t).Nodup) (hlab : LabelsOK t) (fuel left : Nat) (r r' : R L D) (m' : Mapped)
    (hl : left ∈ r.ids) (hc : Closed (proj r)) (hi : PathInj (proj r) left)
    (hrun : runR (R.step c) (mergeRec2 h fuel left t.id []) r = some (some m', r')) :
    (∀ p ch b, t.walk p = some ch → ch.data = some b → ∃ u, walk (proj r') left p = some u ∧ r'.dat u = some b) ∧
    (∀ i j u, (i, u) ∈ m' → (j, u) ∈ m' → i = j) :=
  mergeProg_data_and_injective c h t hrep hnd hlab fuel left r r' m' hl hc hi
    (two_pass_is_first_pass c h fuel left t.id r r' m' hrun)

/-- (c) a vertex present afterwards and not before is the image of a tree vertex, and the image of a tree vertex
    is new exactly when its path was lacking in the left graph: one new vertex per lacking path (with
    injectivity), under an id that was absent -/
theorem new_vertices (c : Nat) (h : RightView L D) (t : T L D) (hrep : HRepr h t) (hnd : (allIds t).Nodup)
    (fuel left : Nat) (r r' : R L D) (m' : Mapped) (hl : left ∈ r.ids) (hc : Closed (proj r))
    (hrun : runR (R.step c) (mergeRec2 h fuel left t.id []) r = some (some m', r')) :
    (∀ v, v ∈ r'.ids → v ∉ r.ids → ∃ i, (i, v) ∈ m') ∧
    (∀ p ch u, t.walk p = some ch → walk (proj r') left p = some u → (u ∉ r.ids ↔ walk (proj r) left p = none)) := by
  have hrun1 := two_pass_is_first_pass c h fuel left t.id r r' m' hrun
  obtain ⟨e1, e2, _⟩ := (bridge c h fuel).1 t left [] r m' r' hrep hnd (by simp [mkeys]) hrun1
  have g := merge_new_vertices (freshC c) (freshC_ok c) (proj r) left ((alive_iff _ _).2 hl) hc t
  simp only at g
  rw [← e1] at g
  constructor
  · intro v hv hnv
    have hv' : (proj r').alive v = true := (alive_iff _ _).2 hv
    have hnv' : (proj r).alive v = false := by
      cases hx : (proj r).alive v with
      | false => rfl
      | true => exact absurd ((alive_iff _ _).1 hx) hnv
    obtain ⟨i, hi⟩ := g.1 v hv' hnv'
    exact ⟨i, (e2 _).2 (Or.inr hi)⟩
  · intro p ch u hw hu
    have := g.2 p ch u hw hu
    rw [← this]
    constructor
    · intro hn
      cases hx : (proj r).alive u with
      | false => rfl
      | true => exact absurd ((alive_iff _ _).1 hx) hn
    · intro hf hm
      have := (alive_iff (proj r) u).2 hm
      rw [hf] at this; cases this

/-- **merge of a tree returns Ok**: the table holds exactly the ids of the tree, so its length equals the number of
    present vertices of the right graph (`keys` = the ids of the tree) and the completeness test of `merge` passes -/
theorem tree_merge_is_ok (c : Nat) (h : RightView L D) (t : T L D) (hrep : HRepr h t) (hnd : (allIds t).Nodup)
    (hkeys : h.keys.Nodup ∧ ∀ v, v ∈ h.keys ↔ v ∈ allIds t)
    (fuel left : Nat) (r r' : R L D) (m' : Mapped)
    (hrun : runR (R.step c) (mergeRec2 h fuel left t.id []) r = some (some m', r')) :
    (mkeys m').length = h.keys.length := by
  have hrun1 := two_pass_is_first_pass c h fuel left t.id r r' m' hrun
  obtain ⟨_, _, e3⟩ := (bridge c h fuel).1 t left [] r m' r' hrep hnd (by simp [mkeys]) hrun1
  have sp := (table_spec (R.step c) h (fun _ => True) (fun _ _ _ _ _ => trivial) fuel).1 left t.id [] r m' r' trivial hrun1
  have nd : (mkeys m').Nodup := sp.nodup (by simp [mkeys])
  have p1 : (mkeys m').Perm h.keys := by
    rw [List.perm_ext_iff_of_nodup nd hkeys.1]
    intro v
    rw [e3 v, hkeys.2 v]; simp [mkeys]
  exact p1.length_eq

/-- the second pass finds nothing to join below the root: for every kid of the root, `kid(left, a)` and the table
    agree after the first pass (PARTIAL: stated for the root's kids; inner nodes follow by monotonicity) -/
theorem second_pass_is_noop_partial (c : Nat) (h : RightView L D) (t : T L D) (hrep : HRepr h t) (hnd : (allIds t).Nodup)
    (fuel left : Nat) (r r' : R L D) (m' : Mapped) (hl : left ∈ r.ids) (hc : Closed (proj r))
    (hrun : runR (R.step c) (mergeRec h fuel left t.id []) r = some (m', r')) :
    ∀ a ch, klookup t.kids a = some ch → ∃ u, lookup (r'.edg left) a = some u ∧ mlookup m' ch.id = some u :=
  second_pass_is_noop c h t hrep hnd fuel left r r' m' hl hc hrun

/-- injectivity of label paths from every present root is preserved by the merge (the merged graph is again
    tree-like wherever the left graph was) -/
theorem keeps_path_injectivity (fresh : RG L D → Nat) (hf : FreshOk fresh) (r : RG L D) (left : Nat)
    (hl : r.alive left = true) (hc : Closed r) (t : T L D) : Keeps r (mergeT fresh r left t).1 :=
  mergeT_keeps fresh hf r left hl hc t

/-- the two-pass program that `merge` runs (second pass comparing `kid(left, a)` with the table at every node)
    computes, on a tree, exactly what the first-pass program computes: same final state, same table, and the second
    pass never reports a difference -/
theorem two_pass_eq_first_pass (c : Nat) (h : RightView L D) (t : T L D) (hrep : HRepr h t) (hnd : (allIds t).Nodup)
    (hlab : LabelsOK t) (fuel left : Nat) (r : R L D) (hl : left ∈ r.ids) (hc : Closed (proj r)) :
    runR (R.step c) (mergeRec2 h fuel left t.id []) r = liftR (runR (R.step c) (mergeRec h fuel left t.id []) r) :=
  MT.two_pass_eq_first_pass c h t hrep hnd hlab fuel left r hl hc

/-- with calls inside the limits and enough fuel (the depth of the tree), the two-pass run returns a table -/
theorem run_succeeds (n c : Nat) (h : RightView L D) (t : T L D) (hrep : HRepr h t) (hnd : (allIds t).Nodup)
    (hlab : LabelsOK t) (fuel left : Nat) (hf : t.depth ≤ fuel) (r : R L D) (hl : left ∈ r.ids) (hc : Closed (proj r))
    (hv : ValidRun (R.step c) (OkStep n c) (mergeRec2 h fuel left t.id []) r) :
    ∃ m' r', runR (R.step c) (mergeRec2 h fuel left t.id []) r = some (some m', r') ∧
      runR (R.step c) (mergeRec h fuel left t.id []) r = some (m', r') :=
  MT.merge_run_succeeds n c h t hrep hnd hlab fuel left hf r hl hc hv

/-- **merge of a tree into a graph, end to end on the model** (see `MT.merge_of_tree`) -/
theorem merge_of_tree (n c : Nat) (g hg : G L D) (r : R L D) (hrel : RelAt n c g r)
    (t : T L D) (hrep : HRepr (viewOf hg) t) (hnd : (allIds t).Nodup) (hlab : LabelsOK t)
    (hkeys : ∀ v, v ∈ keys hg ↔ v ∈ allIds t) (left : Nat) (hl : left ∈ r.ids) (hc : Closed (proj r))
    (hv : ValidRun (R.step c) (OkStep n c) (mergeRec2 (viewOf hg) (cap hg + 1) left t.id []) r) :
    ∃ g' r' m', merge g hg left t.id = some (g', .ok) ∧ RelAt n c g' r' ∧
      runR (R.step c) (mergeRec (viewOf hg) (cap hg + 1) left t.id []) r = some (m', r') ∧
      Ext (proj r) (proj r') ∧
      (∀ p ch, t.walk p = some ch → ∃ u, walk (proj r') left p = some u ∧ (ch.id, u) ∈ m') :=
  MT.merge_of_tree n c g hg r hrel t hrep hnd hlab hkeys left hl hc hv

/-- **the model of `merge()` in full** (`mergeX`, Core/MergeHoles.lean: `join` performed, not avoided) **is `merge` on
    trees**: whenever `merge` returns `Ok` and the right graph's edges lead below its capacity (every reachable graph),
    `mergeX` returns `Ok` with the same left graph and no slot removed — so `merge_of_tree` and everything above is a
    statement about the code path with `join` in it -/
theorem merge_in_full_is_merge (g hg g' : G L D) (left right : Nat) (htgt : ∀ u, ∀ e ∈ edg hg u, e.2 < cap hg)
    (hm : merge g hg left right = some (g', .ok)) :
    mergeX ⟨g, []⟩ ⟨hg, []⟩ left right = (⟨g', []⟩, some .ok) :=
  mergeX_of_mergeT hg htgt g g' left right .ok .ok (mergeT_of_merge g hg g' left right .ok hm) rfl

end Props.C11
