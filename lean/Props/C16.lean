import Pure
/-! # C16 — concat() is byte-string concatenation (KNOWN FINDING D9 on the code as found)

`concatAsFound` transcribes `Hex::concat` of the current tree, `concatRepaired` the one-token repair
(`v.extend_from_slice(&b[..*l])`). The check first tries the correspondence against the as-found variant and falls
back to the repaired one. -/
namespace Props.C16
open Hx

/-- the full law, for the repaired variant: every pair, every representation, any padding -/
theorem concatRepaired_law (x h : Hex) (wx : x.WF) (wh : h.WF) :
    (x.concatRepaired h).toBytes = x.toBytes ++ h.toBytes := Hx.concatRepaired_law x h wx wh

/-- the law for the code as found, outside the defect class (inline receiver shorter than 8 that spills) -/
theorem concat_partial (x h : Hex) (wx : x.WF) (wh : h.WF) (hd : ¬ Defect x h) :
    (x.concatAsFound h).toBytes = x.toBytes ++ h.toBytes := Hx.concat_partial x h wx wh hd

/-- inside the class the result is exactly the eight array cells followed by the operand -/
theorem concat_defect_shape (a : List UInt8) (l : Nat) (h : Hex) (hd : Defect (.inline a l) h) :
    (Hex.concatAsFound (.inline a l) h).toBytes = a ++ h.toBytes := Hx.concat_defect_shape a l h hd

/-- the full law is false of the code as found (kernel-checked witness; replayed on the implementation) -/
theorem concat_law_fails : ∃ x h : Hex, x.WF ∧ h.WF ∧ (x.concatAsFound h).toBytes ≠ x.toBytes ++ h.toBytes :=
  Hx.concat_law_fails

/-- the result is well-formed in both variants, so C15 applies to it -/
theorem concat_wf (x h : Hex) (wx : x.WF) (wh : h.WF) : (x.concatAsFound h).WF ∧ (x.concatRepaired h).WF := by
  cases x with
  | vector v => exact ⟨trivial, trivial⟩
  | inline a l =>
    obtain ⟨h8, hl⟩ := wx
    have hb := bytes_len h wh
    constructor
    · simp only [Hex.concatAsFound]; split
      · refine ⟨?_, by assumption⟩; simp [h8, hb]; omega
      · trivial
    · simp only [Hex.concatRepaired]; split
      · refine ⟨?_, by assumption⟩; simp [h8, hb]; omega
      · trivial

end Props.C16
