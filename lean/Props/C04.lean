import Core
set_option linter.unusedSectionVars false
/-! # C04 — add() creates a blank vertex or does nothing -/
namespace Props.C04
open Sodg
variable {L D : Type} [DecidableEq L] [Inhabited D]

/-- on the model, for every state (reachable or not): `add` of a present id returns the state unchanged — edges,
    data, group, counters, and therefore (the step function being a function of the state) every later
    collection -/
theorem add_present_noop (g : G L D) (v : Nat) (hv : v < cap g) (h : tag g v ≠ 0) : add g v = some g :=
  Sodg.add_present_noop g v hv h

/-- on the model: `add` of an absent id below the capacity writes a blank slot with the ungrouped tag and
    touches nothing else -/
theorem add_absent_blank (g : G L D) (v : Nat) (hv : v < cap g) (h : tag g v = 0) :
    ∃ g', add g v = some g' ∧ tag g' v = 1 ∧ edg g' v = [] ∧ pers g' v = .empty ∧
      (∀ w, w ≠ v → tag g' w = tag g w ∧ edg g' w = edg g w ∧ pers g' w = pers g w ∧ dat g' w = dat g w) ∧
      g'.br = g.br ∧ g'.st = g.st ∧ g'.next = g.next := by
  have e : add g v = some { g with vs := g.vs.setIfInBounds v { (blank : Vertex L D) with branch := 1 } } := by
    simp [add, hv, h]
  refine ⟨_, e, ?_, ?_, ?_, ?_, rfl, rfl, rfl⟩
  all_goals (simp only [tag, edg, pers, dat, cap] at *; grind [blank])

/-- on the reference -/
theorem ref_present_noop (r : R L D) (v : Nat) (h : v ∈ r.ids) : r.add v = r := R.add_present_noop r v h

theorem ref_absent_blank (r : R L D) (v : Nat) (h : v ∉ r.ids) :
    v ∈ (r.add v).ids ∧ (r.add v).edg v = [] ∧ (r.add v).dat v = none ∧ (r.add v).grp v = none ∧
      (r.add v).unr v = false ∧
      ∀ w, w ≠ v → ((w ∈ (r.add v).ids ↔ w ∈ r.ids) ∧ (r.add v).edg w = r.edg w ∧ (r.add v).dat w = r.dat w ∧
        (r.add v).grp w = r.grp w ∧ (r.add v).unr w = r.unr w) := R.add_absent_blank r v h

/-! non-vacuity: a collected id is re-added blank; a member of a live group is added again without effect -/
def demo : List (Op Nat Nat) :=
  [.add 1, .add 2, .bind 1 2 0, .put 2 5, .data 2, .add 1, .add 2, .kids 1, .data 2, .bind 1 2 1, .put 1 3, .add 1, .data 1, .keys]
example : validB 2 4 (R.empty : R Nat Nat) demo = true := by decide +kernel

end Props.C04
