import Core
import Algo
/-! # C14 — a script does exactly what the same API calls would do

`Ss.deploy text g` transcribes `Script::from_str(text).deploy_to(g)` statement by statement (comment stripping,
split on `;`, trim by the White_Space table, the LINE recogniser, argument splitting, the three argument parsers,
the variable table, the calls); `Ss.execProg prog g` issues the add/bind/put calls of the abstract program in
textual order, one `next_id()` per variable at its first occurrence. Results are (state incl. variable table,
outcome ok/err/panic, number of commands completed). -/
namespace Props.C14
open Sodg S Ss

/-- **deploying any legal rendering of a program is running the program** — same graph, same outcome, same
    count — for the real token types: ids below 2^64 in decimal with or without the `ν` prefix (`nu` chooses per
    value), `$variables`, canonical labels, non-empty data; any white space (incl. newlines and the Unicode
    White_Space characters) around commands and arguments, comments between commands, blanks before `(` -/
theorem deploy_render (nu : Nat → Bool) (prog : List (ACmd Label Hex × CmdFmt)) (trail : List Filler)
    (hf : ∀ x ∈ prog, x.2.ok isWs) (ht : ∀ x ∈ trail, x.ok isWs) (hdom : ∀ x ∈ prog, inDom dV dL dD x.1)
    (g : G Label Hex) :
    deploy (renderScript (tV nu) Lb.print tD prog trail) g = execProg (prog.map (·.1)) g :=
  deploy_render_concrete nu prog trail hf ht hdom g

/-- the same for any other spelling of the tokens (lower-case hex digits, separators inside the data, …), as long
    as the parsers of `script.rs` read the spellings back -/
theorem deploy_render_general (tV' : VTok → List Char) (tL' : Label → List Char) (tD' : Hex → List Char)
    (dV' : VTok → Prop) (dL' : Label → Prop) (dD' : Hex → Prop)
    (tk : Tokens isWs pV pL pD tV' tL' tD' dV' dL' dD') (prog : List (ACmd Label Hex × CmdFmt))
    (trail : List Filler) (hf : ∀ x ∈ prog, x.2.ok isWs) (ht : ∀ x ∈ trail, x.ok isWs)
    (hdom : ∀ x ∈ prog, inDom dV' dL' dD' x.1) (g : G Label Hex) :
    deploy (renderScript tV' tL' tD' prog trail) g = execProg (prog.map (·.1)) g :=
  Ss.deploy_render tV' tL' tD' dV' dL' dD' tk prog trail hf ht hdom g

/-- the data argument in any case and with separators (blank, tab, newline, CR, dash) anywhere -/
theorem data_any_spelling (bs : List UInt8) (hne : bs ≠ []) (txt ds : List Char) (hd : HD.DigitsOf bs ds)
    (hf : txt.filter (fun c => !HD.isSep c) = ds) : pD txt = some (Hx.Hex.ofBytes bs) := by
  unfold pD; rw [HD.parseData_spelled bs hne txt ds hd hf]; rfl

/-- the returned count is the number of commands when all complete -/
theorem count_is_length {α : Type} (f : α → SState → SState × Res) (cs : List α) (s s' : SState) (k' : Nat)
    (h : runCmds f cs s 0 = (s', .ok, k')) : k' = cs.length := by
  have := Ss.count_is_length f cs s 0 s' k' h; omega

/-- a syntactically malformed command never completes (`Err`; a panic can come only from an API call, i.e. from
    a violated precondition such as no absent id being left for a variable) -/
theorem malformed_not_ok (cmd : List Char) (h : parseCmd isWs pV pL pD cmd = none) (s : SState) :
    (deployCmd cmd s).2 ≠ .ok := Ss.malformed_not_ok cmd h s

/-- the commands before the failing one have been applied, and the count says how many -/
theorem stops_at_first_failure {α : Type} (f : α → SState → SState × Res) (pre : List α) (bad : α) (post : List α)
    (s s1 : SState) (h : runCmds f pre s 0 = (s1, .ok, 0 + pre.length)) (hb : (f bad s1).2 ≠ .ok) :
    runCmds f (pre ++ bad :: post) s 0 = ((f bad s1).1, (f bad s1).2, 0 + pre.length) :=
  Ss.stops_at_first_failure f pre bad post s s1 0 h hb

/-- **the script front end over the total model is the same front end** (`deployX`, Algo/ScriptHoles.lean: what the driver follows
    on graphs beyond the limits, after a panic or with slots removed by `join`): on a graph without removed slots, for a script
    every command of which parses, when `deploy` runs to its end `deployX` ends in the same graph (no slot removed), with the same
    variable table and the same count (Algo/ScriptAgree.lean) -/
theorem total_front_end_agrees (text : List Char) (prog : List (ACmd Label Hex))
    (hp : (commands isWs text).map (parseCmd isWs pV pL pD) = prog.map some) (g : G Label Hex) (s' : SState) (k : Nat)
    (h : deploy text g = (s', .ok, k)) : deployX text ⟨g, []⟩ = (lift s', .ok, k) := deployX_agrees text prog hp g s' k h

/-! non-vacuity: a script with comments, a variable, a ν-prefix and data with separators -/
example : (deploy "ADD(0); # c\n ADD( $x );BIND(ν0,$x ,foo) ;\n PUT($x, d0-bf 01);".toList (empty 4 5)).2 = (.ok, 4) := by
  decide +kernel

end Props.C14
